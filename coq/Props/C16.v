(* C16 — palette indices are stable and palette files round-trip.
   Only statements, each closed by `exact <lemma>`; proofs live in Proofs/Palette{,Ega,Files}Proofs.v.
   The definitions quantified over are those of Model/Palette.v and Model/PaletteFiles.v over Gen/PaletteSrc.v, i.e.
   over the channel expressions, tables, format strings, magic lines and character classes regenerated from
   /repo/src/palette_handling.rs, /repo/src/formats/artworx.rs and the regex-syntax tables on every run. *)
From Coq Require Import NArith List.
From IE Require Import Lib.Tbl Lib.C16Lib Gen.PaletteSrc Model.Palette Model.PaletteFiles
  Proofs.PaletteProofs Proofs.PaletteEgaProofs Proofs.PaletteFilesProofs.
Import ListNotations.
Local Open Scope N_scope.

(* small p        : plen p < 2^32        (the length fits the u32 that get_rgb compares with)
   all_small p l  : every palette met while running l from p is small
   keeps i o      : o is not a set on index i, not a resize to i or less, not a clear
   bytes_pal p    : every channel is a byte (always so in Rust: the fields are u8)
   colours p      : map crgb (pcolors p)
   single_line    : generated from `fn single_line` of the source (carriage return / line feed -> blank); the generated
                    printers of title / author / description / colour names apply it, as the `format!` calls do
   verbatim_export: the exporters over the same format strings with the texts copied as they are (the code before the
                    fix of the finding metadata-line-feed-roundtrip-colours-differ)
   wf_meta f p    : title/author/description (and colour names for Ice) contain no line feed; True for Hex and Pal
                    (its negation is the class KnownC16_1 of that finding)
   no_breaks_meta : no carriage return and no line feed in title / author / description / any colour name *)

(* ---- (a) index laws ---------------------------------------------------------------------------- *)

Theorem insert_resolves : forall p c, plen p < 2147483648 ->
  get_rgb (fst (insert_color p c)) (snd (insert_color p c)) = crgb c.
Proof. exact insert_resolves_proof. Qed.

Theorem insert_stable : forall p c i, small p -> small (fst (insert_color p c)) -> i < plen p ->
  get_rgb (fst (insert_color p c)) i = get_rgb p i.
Proof. exact insert_stable_proof. Qed.

Theorem insert_existing : forall p c, small p ->
  (exists x, In x (pcolors p) /\ crgb x = crgb c) ->
  exists j, (j < length (pcolors p))%nat /\ insert_color p c = (p, N.of_nat j) /\
            crgb (nth j (pcolors p) default_color) = crgb c /\
            forall k, (k < j)%nat -> crgb (nth k (pcolors p) default_color) <> crgb c.
Proof. exact insert_existing_proof. Qed.

Theorem insert_fresh : forall p c, small p ->
  (forall x, In x (pcolors p) -> crgb x <> crgb c) ->
  insert_color p c = (with_colors p (pcolors p ++ [c]), plen p).
Proof. exact insert_fresh_proof. Qed.

Theorem set_resolves : forall p i c, i < 2147483648 -> small (set_color p i c) ->
  get_rgb (set_color p i c) i = crgb c.
Proof. exact set_resolves_proof. Qed.

Theorem set_stable : forall p i c j, small p -> small (set_color p i c) -> j < plen p -> j <> i ->
  get_rgb (set_color p i c) j = get_rgb p j.
Proof. exact set_stable_proof. Qed.

(* every sequence of insert / set / lookup / push / fill_to_16 / resize / clear operations *)
Theorem ops_invariant : forall ops p i,
  all_small p ops -> i < plen p -> Forall (keeps i) ops -> get_rgb (run p ops) i = get_rgb p i.
Proof. exact ops_invariant_proof. Qed.

(* the index returned by an insert keeps resolving to the inserted colour until a set on that very index *)
Theorem ops_insert_tracked : forall pre c mid p,
  plen (run p pre) < 2147483648 ->
  all_small (fst (insert_color (run p pre) c)) mid ->
  Forall (keeps (snd (insert_color (run p pre) c))) mid ->
  get_rgb (run p (pre ++ OInsert c :: mid)) (snd (insert_color (run p pre) c)) = crgb c.
Proof. exact ops_insert_tracked_proof. Qed.

(* ---- (b) 6-bit VGA codec ------------------------------------------------------------------------ *)

Theorem vga63_idempotent : forall b, b < 256 ->
  to63_r (from63_r (to63_r b)) = to63_r b /\ to63_g (from63_g (to63_g b)) = to63_g b /\
  to63_b (from63_b (to63_b b)) = to63_b b.
Proof. exact vga63_idempotent_proof. Qed.

Theorem vga63_identity : forall c, c < 64 ->
  to63_r (from63_r c) = c /\ to63_g (from63_g c) = c /\ to63_b (from63_b c) = c.
Proof. exact vga63_identity_proof. Qed.

Theorem vga63_palette_idempotent : forall p, bytes_pal p ->
  exists q, from_63 (as_vec_63 p) = Some q /\ as_vec_63 q = as_vec_63 p.
Proof. exact vga63_palette_idempotent_proof. Qed.

(* whenever from_63 does not panic (triples bs = Some _, i.e. the length is a multiple of 3) *)
Theorem vga63_palette_identity : forall bs l, triples bs = Some l -> Forall (fun b => b < 64) bs ->
  exists q, from_63 bs = Some q /\ as_vec_63 q = bs.
Proof. exact vga63_palette_identity_proof. Qed.

Theorem ega_channel_idempotent : forall b, b < 256 ->
  ega_to_r (ega_from_r (ega_to_r b)) = ega_to_r b /\ ega_to_g (ega_from_g (ega_to_g b)) = ega_to_g b /\
  ega_to_b (ega_from_b (ega_to_b b)) = ega_to_b b.
Proof. exact ega_channel_idempotent_proof. Qed.

Theorem ega_palette_idempotent : forall p, bytes_pal p ->
  exists v q, to_ega_data p = Some v /\ from_ega_data v = Some q /\ to_ega_data q = Some v.
Proof. exact ega_palette_idempotent_proof. Qed.

Theorem ega_roundtrip_total : forall p, exists v, to_ega_data p = Some v /\ length v = 192%nat.
Proof. exact ega_roundtrip_total_proof. Qed.

(* ---- (c) palette files -------------------------------------------------------------------------- *)

(* EVERY palette (any length, any title / author / description / colour names) comes back from its own file *)
Theorem export_import : forall f p, bytes_pal p -> load f (export f p) = Some (colours p).
Proof. exact export_import_proof. Qed.

Theorem export_import_hex : forall p, bytes_pal p -> load_hex (export_hex p) = Some (map crgb (pcolors p)).
Proof. exact export_import_hex_proof. Qed.

Theorem export_import_pal : forall p, bytes_pal p -> load_pal (export_pal p) = Some (map crgb (pcolors p)).
Proof. exact export_import_pal_proof. Qed.

Theorem export_import_gpl : forall p, bytes_pal p -> load_gpl (export_gpl p) = Some (map crgb (pcolors p)).
Proof. exact export_import_gpl_proof. Qed.

Theorem export_import_ice : forall p, bytes_pal p -> load_ice (export_ice p) = Some (map crgb (pcolors p)).
Proof. exact export_import_ice_proof. Qed.

Theorem export_import_txt : forall p, bytes_pal p -> load_txt (export_txt p) = Some (map crgb (pcolors p)).
Proof. exact export_import_txt_proof. Qed.

(* the sanitising step changes nothing in the file of a palette whose texts have no line break *)
Theorem export_unchanged_without_breaks : forall f p, no_breaks_meta p -> export f p = verbatim_export f p.
Proof. exact export_unchanged_without_breaks_proof. Qed.

(* Before the fix (texts copied verbatim) the round trip held outside the class KnownC16_1 (a line feed in title /
   author / description / colour name of a format that writes them) … *)
Theorem verbatim_export_import_outside_known : forall f p, bytes_pal p -> ~ KnownC16_1 f p ->
  load f (verbatim_export f p) = Some (colours p).
Proof. exact verbatim_export_import_outside_known_proof. Qed.

(* … and failed inside it: title "x\n1 2 3 y" made GPL read a colour out of the title.  The file the code writes now
   (last conjunct) gives the palette back. *)
Theorem known_1_witness :
  bytes_pal known_1_pal /\ KnownC16_1 Gpl known_1_pal /\
  load Gpl (verbatim_export Gpl known_1_pal) = Some [(1, 2, 3); (9, 9, 9)] /\ colours known_1_pal = [(9, 9, 9)] /\
  load Gpl (export Gpl known_1_pal) = Some [(9, 9, 9)].
Proof. exact known_1_witness_proof. Qed.

(* The defect fixed in /repo (GPL_COLOR_REGEX ended in \s+(.+)): with that regex the two colours of a palette
   with an empty description do not come back. *)
Theorem gpl_unfixed_regex_refuted :
  bytes_pal gpl_witness /\ wf_meta Gpl gpl_witness /\
  old_load_gpl (export_gpl gpl_witness) = Some [] /\ colours gpl_witness = [(1, 2, 3); (40, 50, 60)].
Proof. exact gpl_unfixed_regex_refuted_proof. Qed.

(* ---- non-vacuity --------------------------------------------------------------------------------- *)

Definition sample : palette :=
  mkPal [35; 49; 32; 50; 32; 51] [13] [59; 97]          (* title "#1 2 3", description "\r", author ";a" *)
        [unnamed (1, 2, 3); mkColor (Some [110; 49]) (255, 0, 254); unnamed (1, 2, 3); unnamed (0, 170, 85)].

Example sample_wf : bytes_pal sample /\ (forall f, wf_meta f sample) /\ small sample.
Proof.
  split; [repeat constructor|]. split; [|reflexivity].
  intros []; cbn; repeat split; repeat constructor; discriminate.
Qed.

(* a palette with line feeds everywhere: title "a\n7 8 9", description "\nFF070809", author "\n", name "n\n070809" *)
Definition sample_nl : palette :=
  mkPal [97; 10; 55; 32; 56; 32; 57] [10; 70; 70; 48; 55; 48; 56; 48; 57] [10]
        [mkColor (Some [110; 10; 48; 55; 48; 56; 48; 57]) (1, 2, 3); unnamed (4, 5, 6)].

Example sample_nl_files : bytes_pal sample_nl /\ (forall f, load f (export f sample_nl) = Some [(1, 2, 3); (4, 5, 6)]) /\
  load Gpl (verbatim_export Gpl sample_nl) = Some [(7, 8, 9); (1, 2, 3); (4, 5, 6)] /\
  load Ice (verbatim_export Ice sample_nl) = Some [(255, 7, 8); (7, 8, 9); (1, 2, 3); (4, 5, 6)] /\
  load Txt (verbatim_export Txt sample_nl) = Some [(7, 8, 9); (1, 2, 3); (4, 5, 6)].
Proof.
  split; [repeat constructor|]. split; [intros []; vm_compute; reflexivity|]. repeat split; vm_compute; reflexivity.
Qed.

Example single_line_sample : single_line [97; 13; 10; 98; 10] = [97; 32; 32; 98; 32] /\ single_line [99; 97; 102; 233] = [99; 97; 102; 233].
Proof. vm_compute. split; reflexivity. Qed.

Example sample_files : forall f, load f (export f sample) = Some [(1, 2, 3); (255, 0, 254); (1, 2, 3); (0, 170, 85)].
Proof. intros []; vm_compute; reflexivity. Qed.

Example sample_gpl_text_starts : firstn 13 (export Gpl sample) = [71; 73; 77; 80; 32; 80; 97; 108; 101; 116; 116; 101; 10].
Proof. vm_compute. reflexivity. Qed.

(* insert of a present colour, of a new colour, then a set on another index: the hypotheses are satisfiable *)
Example sample_ops :
  let ops := [OInsert (unnamed (9, 9, 9)); OSet 0 (unnamed (7, 7, 7)); OLookup 2; OResize 20; OFill16] in
  all_small sample ops /\ Forall (keeps 3) ops /\ get_rgb (run sample ops) 3 = (0, 170, 85) /\
  insert_color sample (unnamed (1, 2, 3)) = (sample, 0) /\ snd (insert_color sample (unnamed (9, 9, 9))) = 4 /\
  plen (run sample ops) = 20.
Proof.
  cbv zeta. split; [repeat constructor; vm_compute; reflexivity|].
  split; [repeat constructor; vm_compute; try reflexivity; discriminate|]. vm_compute. repeat split.
Qed.

Example sample_codec :
  from_63 [63; 32; 16; 0; 1; 2] = Some (of_colors [unnamed (255, 130, 65); unnamed (0, 4, 8)]) /\
  from_63 [63; 32] = None /\ from_ega_data [1; 2; 3] = None /\
  (exists v, to_ega_data sample = Some v /\ firstn 6 v = [0; 0; 0; 63; 0; 63]).
Proof. vm_compute. repeat split. eexists. split; reflexivity. Qed.
