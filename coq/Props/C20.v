(* C20 — RIPscrip and IGS command streams never crash or stall the engine: the proof part (PARTIAL by design, see notes/C20.md).

   What is proved, for the model of src/parsers/rip/{mod.rs, commands.rs (parse of every command, run of the kernel commands),
   bgi/mod.rs (kernel)} tied to the source by translator/gen_rip.py and stage C:
   * the tokenizer answers every character of every stream without reaching one of its panic sites, keeps the parameter index
     below the arity of fixed-arity commands and every field below 36^(digits read), and two line feeds always end the
     command under construction;
   * every modelled command run with ANY parameters in 0..=65535 on any state satisfying InvBgi (canvas = width x height
     bytes, viewport corners in 0..=65535, fill style / pattern / colours in range) returns normally, keeps InvBgi and the
     canvas size; lifted to every command sequence and to every character stream (of fewer than 2^31 characters) of the whole
     parser, whatever the wrapped ansi parser answers.
   Outside: every drawing primitive beyond put_pixel / bar_rect, fonts, buttons, icons, flood fill, all of IGS (search stage only). *)
From Coq Require Import NArith ZArith List Bool.
From IE Require Import Gen.RipGen Model.RipTok Model.BgiKernel Model.RipStream
                       Proofs.RipTokProofs Proofs.BgiProofs Proofs.RipStreamProofs.
Import ListNotations.
Local Open Scope Z_scope.

(* ---- base 36 ---- *)
Theorem base36_total : forall n ch, 0 <= n ->
  match parse_base_36 n ch with
  | Some m => 0 <= m <= I32_MAX /\ exists d, 0 <= d < 36 /\ m = n * 36 + d
  | None => True
  end.
Proof. exact base36_total_lemma. Qed.

Theorem base36_non_digit_is_error : forall n ch, to_digit36 ch = None -> parse_base_36 n ch = None.
Proof. exact parse_base_36_not_digit. Qed.

(* ---- Command::parse of every command ---- *)
Theorem parse_step_safe : forall c st ch, CmdInv c st ->
  match cmd_parse_step c st ch with
  | PPanic _ => False
  | PErr => True
  | PMore c' | PDone c' => pc_cmd c' = pc_cmd c /\ CmdInv c' (st + 1)
  end.
Proof. exact parse_step_safe_lemma. Qed.

(* ---- print_char, tokenizer part ---- *)
Theorem tokenizer_safe : forall fb t ch, TokInv t -> t_pstate t < I32_MAX ->
  exists t' a b, tok_step fb t ch = SOk t' a b /\ TokInv t' /\ ActOk a /\ t_pstate t' <= t_pstate t + 1.
Proof. exact tokenizer_safe_lemma. Qed.

Theorem arity_bound : forall t c n, TokInv t -> reading (t_state t) = true -> t_cmd t = Some c -> fixed_arity (pc_cmd c) = Some n ->
  0 <= t_pstate t < Z.of_nat n.
Proof. exact arity_bound_lemma. Qed.

Theorem params_in_range : forall t c f v, TokInv t -> reading (t_state t) = true -> t_cmd t = Some c -> is_chr (pc_cmd c) = false ->
  nth_error (pc_fields c) f = Some v ->
  0 <= v < 36 ^ Z.of_nat (wsum (arms_of (pc_cmd c)) f (Z.to_nat (t_pstate t))) /\ 0 <= v < 36 ^ Z.of_nat (wtot (arms_of (pc_cmd c)) f).
Proof. exact params_in_range_lemma. Qed.

Theorem tok_resync : forall fb1 fb2 t, TokInv t ->
  exists t1 a1 b1 t2 a2 b2, tok_step fb1 t 10%N = SOk t1 a1 b1 /\ tok_step fb2 t1 10%N = SOk t2 a2 b2 /\ quiescent (t_state t2) = true.
Proof. exact tok_resync_lemma. Qed.

(* the only way the tokenizer itself can panic: i32 overflow of parameter_state after 2^31 - 1 parameter characters of one
   command (a |T text command of 2 GiB); this is why the stream theorem bounds the stream length *)
Theorem pstate_overflow_witness : exists t ch, TokInv t /\ tok_step FDefault t ch = SPanic SITE_PSTATE_OVERFLOW.
Proof. exact pstate_overflow_witness_lemma. Qed.

(* ---- BGI kernel ---- *)
Theorem row_loop_checked : forall vals scr st, row_loop_px scr st vals = Ok (row_fill scr st vals).
Proof. exact row_loop_px_eq. Qed.

(* the executable row loops test `row start >= screen.len()` once per row: the same guard as the break of the inner loop *)
Theorem row_guard_is_break : forall scr len ystart vals, len = Z.of_nat (length scr) ->
  (if (ystart <? 0) || (len <=? ystart) then scr else row_fill scr (Z.to_nat ystart) vals) =
  (if ystart <? 0 then scr else row_fill scr (Z.to_nat ystart) vals).
Proof. exact row_fill_guard. Qed.

Theorem bar_rect_safe : forall s r, InvBgi s -> RectOk r ->
  exists scr, bar_rect s r = Ok (upd_screen s scr) /\ length scr = length (screen s).
Proof. exact bar_rect_ok. Qed.

Theorem put_pixel_safe : forall s x y c, InvBgi s -> - RB <= x <= RB -> - RB <= y <= RB ->
  exists scr, put_pixel s x y c = Ok (upd_screen s scr) /\ length scr = length (screen s).
Proof. exact put_pixel_ok. Qed.

Theorem kernel_safe : forall s c, InvBgi s -> ArgsOk c ->
  match run_cmd s c with
  | ROk s' => InvBgi s' /\ win_w s' = win_w s /\ win_h s' = win_h s /\ length (screen s') = length (screen s)
  | RPanic _ => False
  | RUnmodelled => True
  end.
Proof. exact run_cmd_ok. Qed.

Theorem kernel_seq_safe : forall cs s, InvBgi s -> Forall ArgsOk cs ->
  match run_cmds s cs with
  | ROk s' => InvBgi s' /\ win_w s' = win_w s /\ win_h s' = win_h s /\ length (screen s') = length (screen s)
  | RPanic _ => False
  | RUnmodelled => True
  end.
Proof. exact run_cmds_ok. Qed.

(* ---- the whole parser on every character stream, for every behaviour of the wrapped ansi parser ---- *)
Theorem rip_stream_safe : forall (FS : Type) fb_print fb_mode fb_reset (fs : FS) cs errs,
  Z.of_nat (length cs) <= I32_MAX ->
  match fst (rip_run FS fb_print fb_mode fb_reset (rip_init FS fs) errs cs) with
  | OOk s _ => TokInv (r_tok s) /\ InvBgi (r_bgi s) /\
               Z.of_nat (length (screen (r_bgi s))) = SCREEN_W * SCREEN_H /\ win_w (r_bgi s) = SCREEN_W /\ win_h (r_bgi s) = SCREEN_H
  | OPanic _ => False
  | OUnmodelled => True
  end.
Proof. exact rip_stream_safe_lemma. Qed.

(* ---- non-vacuity ---- *)
Definition fb0 (u : unit) (_ : N) : unit * bool := (u, true).
Definition run0 (cs : list N) := rip_run unit fb0 (fun _ => FDefault) (fun u => u) (rip_init unit tt) 0%N cs.

(* "!|c0A|X0101|" : colour 10, one pixel at (1,1) = offset 641 *)
Example stream_draws : match fst (run0 [33; 124; 99; 48; 65; 124; 88; 48; 49; 48; 49; 124]%N) with
                       | OOk s _ => color (r_bgi s) = 10%N /\ nth_error (screen (r_bgi s)) 641 = Some 10%N
                       | _ => False end.
Proof. vm_compute. auto. Qed.

(* "!|w000000000!" : the TextWindow size character that is not base 36 (panicked before the fix) is an error, the parser goes on *)
Example textwindow_bad_size_is_error :
  match fst (run0 [33; 124; 119; 48; 48; 48; 48; 48; 48; 48; 48; 48; 33; 33; 124; 99; 48; 49; 124]%N) with
  | OOk s _ => color (r_bgi s) = 1%N | _ => False end.
Proof. vm_compute. reflexivity. Qed.

(* "!|L" : a command outside the modelled set is reported as such, not silently skipped *)
Example unmodelled_is_flagged : fst (run0 [33; 124; 76; 48; 48; 48; 48; 48; 48; 48; 48]%N) = OUnmodelled.
Proof. vm_compute. reflexivity. Qed.

(* the invariant is not trivially false, and the checked accesses do panic when the guard is missing *)
Example inv_initial : InvBgi bgi_new /\ TokInv tok_init.
Proof. exact (conj bgi_new_inv tok_init_inv). Qed.
Example unguarded_write_panics : set_px [1; 2; 3]%N 3 9%N = Panic SITE_SCREEN_INDEX.
Proof. reflexivity. Qed.
Example row_loop_clips : row_loop_px [1; 2; 3]%N 2 [7; 8; 9]%N = Ok [1; 2; 7]%N.
Proof. reflexivity. Qed.
Example args_nontrivial : ArgsOk {| pc_cmd := CBar; pc_fields := [0; 0; 1295; 1295]; pc_vec := []; pc_textlen := 0 |}.
Proof. split; [reflexivity|]. repeat constructor; unfold PMAX; discriminate. Qed.
