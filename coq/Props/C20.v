(* C20 — RIPscrip and IGS command streams never crash or stall the engine: the proof part (PARTIAL by design, see notes/C20.md).

   What is proved, for the model of src/parsers/rip/{mod.rs, commands.rs (parse of every command, run of the kernel commands),
   bgi/mod.rs (kernel)} tied to the source by translator/gen_rip.py and stage C:
   * the tokenizer answers every character of every stream without reaching one of its panic sites, keeps the parameter index
     below the arity of fixed-arity commands and every field below 36^(digits read), and two line feeds always end the
     command under construction;
   * every modelled command run with ANY parameters in 0..=65535 on any state satisfying InvBgi (canvas = width x height
     bytes, viewport corners in 0..=65535, fill style / pattern / colours in range) returns normally, keeps InvBgi and the
     canvas size; lifted to every command sequence and to every character stream (of fewer than 2^31 characters) of the whole
     parser, whatever the wrapped ansi parser answers.
   Outside: every drawing primitive beyond put_pixel / bar_rect, fonts, buttons, icons, flood fill, all of IGS (search stage only). *)
From Coq Require Import NArith ZArith List Bool.
From IE Require Import Gen.RipGen Gen.RipLineGen Gen.IgsGen Model.IgsTok Model.IgsKernel Model.IgsLine Proofs.IgsTokProofs Proofs.IgsKernelProofs Proofs.IgsLineProofs Model.RipTok Model.BgiKernel Model.RipStream Model.BgiLine Model.RipStream2
                       Proofs.RipTokProofs Proofs.BgiProofs Proofs.RipStreamProofs Proofs.RipVecProofs Proofs.BgiLineProofs Proofs.RipStream2Proofs.
Import ListNotations.
Local Open Scope Z_scope.

(* ---- base 36 ---- *)
Theorem base36_total : forall n ch, 0 <= n ->
  match parse_base_36 n ch with
  | Some m => 0 <= m <= I32_MAX /\ exists d, 0 <= d < 36 /\ m = n * 36 + d
  | None => True
  end.
Proof. exact base36_total_lemma. Qed.

Theorem base36_non_digit_is_error : forall n ch, to_digit36 ch = None -> parse_base_36 n ch = None.
Proof. exact parse_base_36_not_digit. Qed.

(* ---- Command::parse of every command ---- *)
Theorem parse_step_safe : forall c st ch, CmdInv c st ->
  match cmd_parse_step c st ch with
  | PPanic _ => False
  | PErr => True
  | PMore c' | PDone c' => pc_cmd c' = pc_cmd c /\ CmdInv c' (st + 1)
  end.
Proof. exact parse_step_safe_lemma. Qed.

(* ---- print_char, tokenizer part ---- *)
Theorem tokenizer_safe : forall fb t ch, TokInv t -> t_pstate t < I32_MAX ->
  exists t' a b, tok_step fb t ch = SOk t' a b /\ TokInv t' /\ ActOk a /\ t_pstate t' <= t_pstate t + 1.
Proof. exact tokenizer_safe_lemma. Qed.

Theorem arity_bound : forall t c n, TokInv t -> reading (t_state t) = true -> t_cmd t = Some c -> fixed_arity (pc_cmd c) = Some n ->
  0 <= t_pstate t < Z.of_nat n.
Proof. exact arity_bound_lemma. Qed.

Theorem params_in_range : forall t c f v, TokInv t -> reading (t_state t) = true -> t_cmd t = Some c -> is_chr (pc_cmd c) = false ->
  nth_error (pc_fields c) f = Some v ->
  0 <= v < 36 ^ Z.of_nat (wsum (arms_of (pc_cmd c)) f (Z.to_nat (t_pstate t))) /\ 0 <= v < 36 ^ Z.of_nat (wtot (arms_of (pc_cmd c)) f).
Proof. exact params_in_range_lemma. Qed.

Theorem tok_resync : forall fb1 fb2 t, TokInv t ->
  exists t1 a1 b1 t2 a2 b2, tok_step fb1 t 10%N = SOk t1 a1 b1 /\ tok_step fb2 t1 10%N = SOk t2 a2 b2 /\ quiescent (t_state t2) = true.
Proof. exact tok_resync_lemma. Qed.

(* the only way the tokenizer itself can panic: i32 overflow of parameter_state after 2^31 - 1 parameter characters of one
   command (a |T text command of 2 GiB); this is why the stream theorem bounds the stream length *)
Theorem pstate_overflow_witness : exists t ch, TokInv t /\ tok_step FDefault t ch = SPanic SITE_PSTATE_OVERFLOW.
Proof. exact pstate_overflow_witness_lemma. Qed.

(* ---- BGI kernel ---- *)
Theorem row_loop_checked : forall vals scr st, row_loop_px scr st vals = Ok (row_fill scr st vals).
Proof. exact row_loop_px_eq. Qed.

(* the executable row loops test `row start >= screen.len()` once per row: the same guard as the break of the inner loop *)
Theorem row_guard_is_break : forall scr len ystart vals, len = Z.of_nat (length scr) ->
  (if (ystart <? 0) || (len <=? ystart) then scr else row_fill scr (Z.to_nat ystart) vals) =
  (if ystart <? 0 then scr else row_fill scr (Z.to_nat ystart) vals).
Proof. exact row_fill_guard. Qed.

Theorem bar_rect_safe : forall s r, InvBgi s -> RectOk r ->
  exists scr, bar_rect s r = Ok (upd_screen s scr) /\ length scr = length (screen s).
Proof. exact bar_rect_ok. Qed.

Theorem put_pixel_safe : forall s x y c, InvBgi s -> - RB <= x <= RB -> - RB <= y <= RB ->
  exists scr, put_pixel s x y c = Ok (upd_screen s scr) /\ length scr = length (screen s).
Proof. exact put_pixel_ok. Qed.

Theorem kernel_safe : forall s c, InvBgi s -> ArgsOk c ->
  match run_cmd s c with
  | ROk s' => InvBgi s' /\ win_w s' = win_w s /\ win_h s' = win_h s /\ length (screen s') = length (screen s)
  | RPanic _ => False
  | RUnmodelled => True
  end.
Proof. exact run_cmd_ok. Qed.

Theorem kernel_seq_safe : forall cs s, InvBgi s -> Forall ArgsOk cs ->
  match run_cmds s cs with
  | ROk s' => InvBgi s' /\ win_w s' = win_w s /\ win_h s' = win_h s /\ length (screen s') = length (screen s)
  | RPanic _ => False
  | RUnmodelled => True
  end.
Proof. exact run_cmds_ok. Qed.

(* ---- the whole parser on every character stream, for every behaviour of the wrapped ansi parser ---- *)
Theorem rip_stream_safe : forall (FS : Type) fb_print fb_mode fb_reset (fs : FS) cs errs,
  Z.of_nat (length cs) <= I32_MAX ->
  match fst (rip_run FS fb_print fb_mode fb_reset (rip_init FS fs) errs cs) with
  | OOk s _ => TokInv (r_tok s) /\ InvBgi (r_bgi s) /\
               Z.of_nat (length (screen (r_bgi s))) = SCREEN_W * SCREEN_H /\ win_w (r_bgi s) = SCREEN_W /\ win_h (r_bgi s) = SCREEN_H
  | OPanic _ => False
  | OUnmodelled => True
  end.
Proof. exact rip_stream_safe_lemma. Qed.

(* ---- non-vacuity ---- *)
Definition fb0 (u : unit) (_ : N) : unit * bool := (u, true).
Definition run0 (cs : list N) := rip_run unit fb0 (fun _ => FDefault) (fun u => u) (rip_init unit tt) 0%N cs.

(* "!|c0A|X0101|" : colour 10, one pixel at (1,1) = offset 641 *)
Example stream_draws : match fst (run0 [33; 124; 99; 48; 65; 124; 88; 48; 49; 48; 49; 124]%N) with
                       | OOk s _ => color (r_bgi s) = 10%N /\ nth_error (screen (r_bgi s)) 641 = Some 10%N
                       | _ => False end.
Proof. vm_compute. auto. Qed.

(* "!|w000000000!" : the TextWindow size character that is not base 36 (panicked before the fix) is an error, the parser goes on *)
Example textwindow_bad_size_is_error :
  match fst (run0 [33; 124; 119; 48; 48; 48; 48; 48; 48; 48; 48; 48; 33; 33; 124; 99; 48; 49; 124]%N) with
  | OOk s _ => color (r_bgi s) = 1%N | _ => False end.
Proof. vm_compute. reflexivity. Qed.

(* "!|L" : a command outside the modelled set is reported as such, not silently skipped *)
Example unmodelled_is_flagged : fst (run0 [33; 124; 76; 48; 48; 48; 48; 48; 48; 48; 48]%N) = OUnmodelled.
Proof. vm_compute. reflexivity. Qed.

(* the invariant is not trivially false, and the checked accesses do panic when the guard is missing *)
Example inv_initial : InvBgi bgi_new /\ TokInv tok_init.
Proof. exact (conj bgi_new_inv tok_init_inv). Qed.
Example unguarded_write_panics : set_px [1; 2; 3]%N 3 9%N = Panic SITE_SCREEN_INDEX.
Proof. reflexivity. Qed.
Example row_loop_clips : row_loop_px [1; 2; 3]%N 2 [7; 8; 9]%N = Ok [1; 2; 7]%N.
Proof. reflexivity. Qed.
Example args_nontrivial : ArgsOk {| pc_cmd := CBar; pc_fields := [0; 0; 1295; 1295]; pc_vec := []; pc_textlen := 0 |}.
Proof. split; [reflexivity|]. repeat constructor; unfold PMAX; discriminate. Qed.

(* ================================================================================================================= *)
(* Extension 1: the line family of the BGI kernel (Model/BgiLine.v) and the RIP commands Line, Rectangle, Polygon,
   PolyLine, LineStyle (Model/RipStream2.v).                                                                          *)

(* Bgi::line over an abstract canvas: for EVERY plot function that returns normally on coordinates within +-2^20, keeps an
   invariant P and raises a measure mu by at most 1 per call, Bgi::line with end points within +-65535, any viewport with
   corners in 0..=65535, any non-empty line pattern and any thickness 0..=65535 returns normally (no i32 overflow, no pattern
   index out of range, no division by zero), keeps P, and raises mu by at most (3(|dx|+|dy|)+8)*thickness.  Because the plot
   function is arbitrary outside the box, this also says: every pixel the line plots is handed to plot with coordinates inside
   the box — the clipping to the viewport happens BEFORE the pixel loops. *)
Theorem line_canvas_generic : forall (A : Type) (plot : A -> Z -> Z -> res A) (P : A -> Prop) (mu : A -> Z),
  (forall a x y, P a -> - RB <= x <= RB -> - RB <= y <= RB -> exists a', plot a x y = Ok a' /\ P a' /\ mu a' <= mu a + 1) ->
  forall vp pat K a x1 y1 x2 y2, P a -> VpOk vp -> (0 < length pat)%nat -> 0 <= K <= PMAX ->
  CoordOk x1 -> CoordOk y1 -> CoordOk x2 -> CoordOk y2 ->
  exists a', line plot vp pat K a x1 y1 x2 y2 = Ok a' /\ P a' /\ mu a' <= mu a + (3 * (Z.abs (x2 - x1) + Z.abs (y2 - y1)) + 8) * K.
Proof. exact line_ok. Qed.

(* one clipped run of a line: at most (|count|+2) columns of at most `thickness` pixels; the pattern offset moves forward by at
   most 2|count|+2 *)
Theorem fill_x_generic : forall (A : Type) (plot : A -> Z -> Z -> res A) (P : A -> Prop) (mu : A -> Z),
  (forall a x y, P a -> - RB <= x <= RB -> - RB <= y <= RB -> exists a', plot a x y = Ok a' /\ P a' /\ mu a' <= mu a + 1) ->
  forall vp pat K a y sx count off, P a -> VpOk vp -> (0 < length pat)%nat -> 0 <= K <= PMAX ->
  - RB <= y <= RB -> - RB <= sx <= RB -> - RB <= count <= RB -> - OBH <= off <= OBH ->
  exists a' off', fill_x plot vp pat K a y sx count off = Ok (a', off') /\ P a' /\ off <= off' <= off + 2 * Z.abs count + 2 /\
                  mu a' <= mu a + (Z.abs count + 2) * K.
Proof. exact fill_x_ok. Qed.

Theorem fill_y_generic : forall (A : Type) (plot : A -> Z -> Z -> res A) (P : A -> Prop) (mu : A -> Z),
  (forall a x y, P a -> - RB <= x <= RB -> - RB <= y <= RB -> exists a', plot a x y = Ok a' /\ P a' /\ mu a' <= mu a + 1) ->
  forall vp pat K a x sy count off, P a -> VpOk vp -> (0 < length pat)%nat -> 0 <= K <= PMAX ->
  - RB <= x <= RB -> - RB <= sy <= RB -> - RB <= count <= RB -> - OBH <= off <= OBH ->
  exists a' off', fill_y plot vp pat K a x sy count off = Ok (a', off') /\ P a' /\ off <= off' <= off + 2 * Z.abs count + 2 /\
                  mu a' <= mu a + (Z.abs count + 2) * K.
Proof. exact fill_y_ok. Qed.

(* the real canvas: every plotted pixel goes through the checked Bgi::put_pixel *)
Theorem line_safe : forall s x1 y1 x2 y2, InvL s -> CoordOk x1 -> CoordOk y1 -> CoordOk x2 -> CoordOk y2 ->
  match bgi_line s x1 y1 x2 y2 with Ok s' => InvL s' /\ same_canvas2 s s' | Panic _ => False end.
Proof. exact bgi_line_ok. Qed.

Theorem rectangle_safe : forall s l t r b, InvL s -> CoordOk l -> CoordOk t -> CoordOk r -> CoordOk b ->
  match bgi_rectangle s l t r b with Ok s' => InvL s' /\ same_canvas2 s s' | Panic _ => False end.
Proof. exact bgi_rectangle_ok. Qed.

Theorem draw_poly_safe : forall s pts, InvL s -> Forall PtOk pts ->
  match bgi_draw_poly s pts with Ok s' => InvL s' /\ same_canvas2 s s' | Panic _ => False end.
Proof. exact bgi_draw_poly_ok. Qed.

Theorem draw_poly_line_safe : forall s pts, InvL s -> Forall PtOk pts ->
  match bgi_draw_poly_line s pts with Ok s' => InvL s' /\ same_canvas2 s s' | Panic _ => False end.
Proof. exact bgi_draw_poly_line_ok. Qed.

(* cost: the number of put_pixel calls of one Bgi::line; with RIP parameters (<= 1295) at most 10 368 * thickness *)
Theorem line_cost : forall vp pat K x1 y1 x2 y2, VpOk vp -> (0 < length pat)%nat -> 0 <= K <= PMAX ->
  CoordOk x1 -> CoordOk y1 -> CoordOk x2 -> CoordOk y2 ->
  exists n, line_plots vp pat K x1 y1 x2 y2 = Ok n /\ Z.of_nat n <= (3 * (Z.abs (x2 - x1) + Z.abs (y2 - y1)) + 8) * K.
Proof. exact line_plots_bound. Qed.

(* the tokenizer keeps the Vec<i32> of the command under construction (palette entries, polygon points) at two base-36 digits *)
Theorem tokenizer_vec_range : forall fb t ch, 0 <= t_pstate t -> TokVec t ->
  match tok_step fb t ch with SOk t' a _ => TokVec t' /\ ActVec a | SPanic _ => True end.
Proof. exact tok_step_vec. Qed.

Theorem kernel2_safe : forall s c, InvL s -> ArgsOk2 c ->
  match run_cmd2 s c with
  | ROk2 s' => InvL s' /\ same_canvas2 s s'
  | RPanic2 _ => False
  | RUnmodelled2 => True
  end.
Proof. exact run_cmd2_ok. Qed.

Theorem kernel2_seq_safe : forall cs s, InvL s -> Forall ArgsOk2 cs ->
  match run_cmds2 s cs with
  | ROk2 s' => InvL s' /\ same_canvas2 s s'
  | RPanic2 _ => False
  | RUnmodelled2 => True
  end.
Proof. exact run_cmds2_ok. Qed.

(* the commands whose run is inside the extended kernel never end a run as "unmodelled" *)
Theorem kernel2_modelled : forall s c, modelled2 (pc_cmd c) = true -> run_cmd2 s c <> RUnmodelled2.
Proof. exact modelled2_not_unmodelled. Qed.

Theorem rip_stream_safe2 : forall (FS : Type) fb_print fb_mode fb_reset (fs : FS) cs errs,
  Z.of_nat (length cs) <= I32_MAX ->
  match fst (rip_run2 FS fb_print fb_mode fb_reset (rip_init2 FS fs) errs cs) with
  | OOk2 s _ => TokInv (r_tok2 s) /\ InvL (r_bgi2 s) /\
                Z.of_nat (length (screen (lb (r_bgi2 s)))) = SCREEN_W * SCREEN_H /\ win_w (lb (r_bgi2 s)) = SCREEN_W /\ win_h (lb (r_bgi2 s)) = SCREEN_H
  | OPanic2 _ => False
  | OUnmodelled2 => True
  end.
Proof. exact rip_stream_safe2_lemma. Qed.

(* ---- non-vacuity ---- *)
Definition run2 (cs : list N) := rip_run2 unit fb0 (fun _ => FDefault) (fun u => u) (rip_init2 unit tt) 0%N cs.

(* "!|c0A|L00000402|" : colour 10, a line (0,0)-(4,2) in runs of 1, 2, 2 pixels: (0,0) | (1,1) (2,1) | (3,2) (4,2) *)
Example stream_draws_line : match fst (run2 [33; 124; 99; 48; 65; 124; 76; 48; 48; 48; 48; 48; 52; 48; 50; 124]%N) with
                            | OOk2 s _ => map (fun i => nth_error (screen (lb (r_bgi2 s))) i) [0; 1; 642; 643; 1284; 2; 641]%nat
                                          = [Some 10; Some 0; Some 10; Some 0; Some 10; Some 0; Some 10]%N
                            | _ => False end.
Proof. vm_compute. reflexivity. Qed.

(* "!|=010003|" : LineStyle dotted, thickness 3 *)
Example linestyle_sets : match fst (run2 [33; 124; 61; 48; 49; 48; 48; 48; 48; 48; 51; 124]%N) with
                         | OOk2 s _ => line_style (r_bgi2 s) = 1%N /\ line_thickness (r_bgi2 s) = 3 /\ line_pattern (r_bgi2 s) = bits16 52428
                         | _ => False end.
Proof. vm_compute. auto. Qed.

(* "!|P" with 3 points draws; a circle is still outside *)
Example unmodelled2_is_flagged : fst (run2 [33; 124; 67; 48; 48; 48; 48; 48; 48]%N) = OUnmodelled2.
Proof. vm_compute. reflexivity. Qed.

Example inv2_initial : InvL lbgi_new /\ TokVec tok_init.
Proof. exact (conj lbgi_new_inv tok_init_vec). Qed.

(* the checked sites of the line model do fire when their guards are missing: an empty pattern is a remainder by zero *)
Example empty_pattern_panics : pat_at [] 0 = Panic SITE_REM_ZERO.
Proof. reflexivity. Qed.
Example line_cost_example : line_plots (0, 0, 640, 350) (bits16 65535) 3 0 0 1295 1295 = Ok 1049%nat.
Proof. vm_compute. reflexivity. Qed.

(* ================================================================================================================= *)
(* Extension 2: the IGS tokenizer (Model/IgsTok.v: print_char, get_next_action, Loop::next_step) for EVERY executor and
   fallback parser, and Extension 3: the IGS pixel kernel (Model/IgsKernel.v).                                          *)

(* print_char: from every parser state satisfying IgsInvN = IgsInv (the loop-header shape: parsed_numbers has 4 entries while the
   loop command letter is read, 5 from the parameter count on, parsed_numbers[3] (the delay) is 0, loop_parameters and its last
   group are non-empty while parameters are read; a running loop is LoopOk: at least one parameter group, delay 0, step >= 1,
   header numbers from the tokenizer, the counter on the `from` side) and NumsOk (every accumulated number lies in
   0 ..= i32::MAX - 48), every character, every executor, every fallback parser: the call RETURNS with IgsInvN again.  No panic
   site is left: parsed_numbers[0..=4], loop_parameters.last_mut().unwrap(), `% parameters.len()`, parameters[cur_parameter] are
   never out of range, the thread::sleep(200 ms * delay) of next_step never sleeps, and (since the fix commits: Loop::new rejects
   step <= 0, next_step saturates `i += step` and the +n / -n / !n arithmetic) the i32 arithmetic of Loop::next_step never
   overflows. *)
Theorem igs_tokenizer_safe : forall (X : Type) (exec : X -> N -> list Z -> str -> X * bool) (FS : Type) (fb_print : FS -> N -> FS * bool)
  (w : iworld X FS) (ch : N), IgsInvN (w_p X FS w) ->
  match igs_step X exec FS fb_print w ch with
  | Ok (w', _) => IgsInvN (w_p X FS w')
  | Panic _ => False
  end.
Proof. exact (fun X exec FS fb_print w ch => igs_event_post X exec FS fb_print w (EChar ch)). Qed.

Theorem igs_next_action_safe : forall (X : Type) (exec : X -> N -> list Z -> str -> X * bool) (FS : Type) (fb_print : FS -> N -> FS * bool) (w : iworld X FS),
  IgsInvN (w_p X FS w) ->
  match igs_next_action X exec FS w with
  | Ok (w', _) => IgsInvN (w_p X FS w')
  | Panic _ => False
  end.
Proof. exact (fun X exec FS fb_print w => igs_event_post X exec FS fb_print w ENext). Qed.

(* every interleaving of characters and get_next_action calls, from the fresh parser *)
Theorem igs_stream_safe : forall (X : Type) (exec : X -> N -> list Z -> str -> X * bool) (FS : Type) (fb_print : FS -> N -> FS * bool)
  (x : X) (fs : FS) (es : list event),
  match igs_run X exec FS fb_print {| w_p := ipars_new; w_x := x; w_fb := fs |} es with
  | Ok w' => IgsInvN (w_p X FS w')
  | Panic _ => False
  end.
Proof. intros. apply igs_run_post. exact ipars_new_invN. Qed.

(* one loop step: never a panic, whatever the header numbers and the parameter values (str::parse::<i32> accepts the whole i32
   range; the step saturates at 2147483599), and the loop stays LoopOk *)
Theorem igs_loop_step_safe : forall (X : Type) (exec : X -> N -> list Z -> str -> X * bool) (x : X) (l : iloop), LoopOk l ->
  match next_step X exec x l with
  | Ok (Some (_, l', _)) => LoopOk l'
  | Ok None => True
  | Panic _ => False
  end.
Proof. exact next_step_post. Qed.

(* stall side: EVERY executed step of a LoopOk loop (so: every loop the parser runs) brings the counter at least one closer to
   `to` — exactly `step` closer unless the counter saturates, and then the loop is over —; a loop runs at most |to - from| steps,
   then get_next_action answers None *)
Theorem igs_loop_progress : forall (X : Type) (exec : X -> N -> list Z -> str -> X * bool) x l x' l' ok,
  LoopOk l -> next_step X exec x l = Ok (Some (x', l', ok)) ->
  0 < loop_measure l /\ loop_measure l' <= loop_measure l - 1 /\ (loop_measure l' = loop_measure l - l_step l \/ loop_measure l' <= 0) /\
  l_from l' = l_from l /\ l_to l' = l_to l /\ l_step l' = l_step l.
Proof. exact next_step_progress. Qed.

Theorem igs_loop_terminates : forall (X : Type) (exec : X -> N -> list Z -> str -> X * bool) (n : nat) x l,
  LoopOk l -> loop_measure l <= Z.of_nat n -> exists k, (k <= n)%nat /\ LoopEnds X exec k x l.
Proof. exact loop_ends. Qed.

(* the OLD behaviour (what Loop::new now rejects): with step = 0 a step leaves the loop state as it is, so get_next_action
   answered Some for ever *)
Theorem igs_loop_step0_stuck_before_fix : forall (X : Type) (exec : X -> N -> list Z -> str -> X * bool) x l x' l' ok,
  I32_MIN <= l_i l <= I32_MAX -> next_step X exec x l = Ok (Some (x', l', ok)) -> l_step l = 0 -> l' = l.
Proof. exact next_step_stuck. Qed.

(* an invariant of the executor is an invariant of the parser: the tokenizer only ever hands the executor state to exec, and only
   with i32 parameter values (tokenizer numbers; loop parameter values) *)
Theorem igs_executor_invariant : forall (X : Type) (exec : X -> N -> list Z -> str -> X * bool) (FS : Type) (fb_print : FS -> N -> FS * bool)
  (Q : X -> Prop), (forall x c ps s, Forall InI32 ps -> Q x -> Q (fst (exec x c ps s))) ->
  forall es w, NumsOk (w_p X FS w) -> Q (w_x X FS w) -> match igs_run X exec FS fb_print w es with Ok w' => Q (w_x X FS w') | Panic _ => True end.
Proof. exact igs_run_Q. Qed.

(* ---- IGS pixel kernel: ALL coordinates, ALL parameter values ---- *)
Theorem igs_set_pixel_safe : forall e x y c, InvE e -> (c < 16)%N ->
  exists scr, igs_set_pixel e x y c = Ok (e_upd_screen e scr) /\ length scr = length (e_screen e) /\ PensOk scr.
Proof. exact igs_set_pixel_ok. Qed.

Theorem igs_get_pixel_safe : forall e x y, InvE e -> exists v, igs_get_pixel e x y = Ok v.
Proof. exact igs_get_pixel_ok. Qed.

Theorem igs_fill_rect_safe : forall e x0 y0 x1 y1, InvE e -> exists e', igs_fill_rect e x0 y0 x1 y1 = Ok e' /\ SameE e e'.
Proof. exact igs_fill_rect_ok. Qed.

(* the loops of fill_rect run over the clipped rectangle: at most width x height fill_pixel calls whatever the coordinates *)
Theorem igs_fill_rect_cost : forall e x0 y0 x1 y1, InvE e -> 0 <= igs_fill_rect_calls e x0 y0 x1 y1 <= e_w e * e_h e.
Proof. exact IgsKernelProofs.igs_fill_rect_cost. Qed.

Theorem igs_picture_safe : forall e, InvE e -> exists l, igs_picture e = Ok l /\ Z.of_nat (length l) = 4 * (e_w e * e_h e).
Proof. exact igs_picture_ok. Qed.

Theorem igs_kernel_safe : forall e c ps s, InvE e ->
  match igs_exec e c ps s with XOk e' _ => InvE e' | XPanic _ => False | XUnmodelled => True end.
Proof. exact igs_exec_ok. Qed.

(* the whole IGS parser over the modelled executor, every interleaving of characters and get_next_action calls, every fallback
   parser: no panic; the executor never panics; the picture is width x height x 4 bytes *)
Theorem igs_stream_kernel_safe : forall (FS : Type) (fb_print : FS -> N -> FS * bool) (fs : FS) (es : list event),
  match igs_run xstate igs_x FS fb_print (igs_world_init FS fs) es with
  | Ok w' => IgsInvN (w_p xstate FS w') /\
             match w_x xstate FS w' with
             | SOkE e => InvE e /\ exists px, igs_picture e = Ok px /\ Z.of_nat (length px) = 4 * (e_w e * e_h e)
             | SPanicE _ => False
             | SUnmodelledE => True
             end
  | Panic _ => False
  end.
Proof. exact igs_stream_kernel_lemma. Qed.

(* ---- non-vacuity / witnesses ---- *)
Definition ex0 (u : unit) (_ : N) (_ : list Z) (_ : str) : unit * bool := (u, true).
Definition igs_chars (cs : list N) : list event := map EChar cs.
Definition igs_run0 (es : list event) := igs_run unit ex0 unit fb0 {| w_p := ipars_new; w_x := tt; w_fb := tt |} es.

(* FIXED igs-panic:next_step — "G#&100,200,2147483647,0,L,4,0,0,1,1:" : the step saturates at 2147483599; `i += step` used to overflow,
   now the counter saturates and the loop is over after its first step *)
Definition stream_loop_bigstep : list N :=
  [71; 35; 38; 49; 48; 48; 44; 50; 48; 48; 44; 50; 49; 52; 55; 52; 56; 51; 54; 52; 55; 44; 48; 44; 76; 44; 52; 44; 48; 44; 48; 44; 49; 44; 49; 58]%N.
Example igs_loop_arith_fixed :
  match igs_run0 (igs_chars stream_loop_bigstep ++ [ENext]) with
  | Ok w => i_loop (w_p unit unit w) = None
  | Panic _ => False
  end.
Proof. vm_compute. reflexivity. Qed.
(* the old expressions on that loop: i + step, and value + x of "G#&1,3,1,0,L,4,+2147483647,0,0,0:" *)
Example igs_loop_arith_before_fix_refuted :
  chkl (100 + parse_next_number 214748364 55) = Panic SITE_IGS_LOOP_ARITH /\ chkl (2147483647 + Z.abs 1) = Panic SITE_IGS_LOOP_ARITH /\
  sat (100 + parse_next_number 214748364 55) = I32_MAX /\ sat (2147483647 + Z.abs 1) = I32_MAX.
Proof. vm_compute. auto. Qed.

(* FIXED igs-panic:next_step — "G#&1,3,1,0,L,4,+2147483647,0,0,0:" : `value += x` saturates; the loop runs its two steps and ends *)
Example igs_loop_value_fixed :
  match igs_run0 (igs_chars [71; 35; 38; 49; 44; 51; 44; 49; 44; 48; 44; 76; 44; 52; 44; 43; 50; 49; 52; 55; 52; 56; 51; 54; 52; 55; 44; 48; 44; 48; 44; 48; 58]%N ++ [ENext; ENext]) with
  | Ok w => i_loop (w_p unit unit w) = None
  | Panic _ => False
  end.
Proof. vm_compute. reflexivity. Qed.

(* FIXED igs-loop-endless — "G#&0,3,0,0,L,4,0,0,1,1:" : Loop::new answers Err (the only error of the stream), no loop is pending *)
Definition stream_loop_step0 : list N := [71; 35; 38; 48; 44; 51; 44; 48; 44; 48; 44; 76; 44; 52; 44; 48; 44; 48; 44; 49; 44; 49; 58]%N.
Example igs_loop_step0_rejected :
  match igs_run0 (igs_chars stream_loop_step0) with
  | Ok w => i_loop (w_p unit unit w) = None /\ i_state (w_p unit unit w) = IReadCommandStart
  | Panic _ => False
  end /\
  match igs_step unit ex0 unit fb0 (match igs_run0 (igs_chars (removelast stream_loop_step0)) with Ok w => w | Panic _ => {| w_p := ipars_new; w_x := tt; w_fb := tt |} end) 58%N with
  | Ok (_, ok) => ok = false
  | Panic _ => False
  end.
Proof. vm_compute. auto. Qed.
(* the old behaviour on that header: a loop record with step 0 is still there, unchanged, after 100 steps *)
Definition loop_step0 : iloop := {| l_i := 0; l_from := 0; l_to := 3; l_step := 0; l_delay := 0; l_cmd := 76%N; l_str := []; l_params := [[[48%N]; [48%N]; [49%N]; [49%N]]] |}.
Fixpoint steps0 (n : nat) (l : iloop) : option iloop :=
  match n with O => Some l | S n' => match next_step unit ex0 tt l with Ok (Some (_, l', _)) => steps0 n' l' | _ => None end end.
Example igs_loop_step0_before_fix_witness : steps0 100 loop_step0 = Some loop_step0 /\ loop_running loop_step0 = true.
Proof. vm_compute. auto. Qed.

(* a loop that draws: "G#&0,3,1,0,Z,4,x,0,x,5:" runs its first step inside print_char and two more on get_next_action *)
Example igs_loop_runs :
  match igs_run xstate igs_x unit fb0 (igs_world_init unit tt)
          (igs_chars [71; 35; 38; 48; 44; 51; 44; 49; 44; 48; 44; 90; 44; 52; 44; 120; 44; 48; 44; 120; 44; 53; 58]%N ++ [ENext; ENext; ENext]) with
  | Ok w => i_loop (w_p xstate unit w) = None /\ match w_x xstate unit w with SOkE e => nth_error (e_screen e) 2 = Some 0%N /\ nth_error (e_screen e) 3 = Some 1%N | _ => False end
  | Panic _ => False
  end.
Proof. vm_compute. auto. Qed.

Example igs_inv_initial : IgsInv ipars_new /\ InvE iexec_new.
Proof. exact (conj ipars_new_inv iexec_new_inv). Qed.

(* the checked sites fire when their guards are missing: parsed_numbers[4] of a four-element vector *)
Example igs_nums4_panics : idx SITE_IGS_NUMS [0; 3; 1; 0] 4 = Panic SITE_IGS_NUMS.
Proof. reflexivity. Qed.

(* ================================================================================================================= *)
(* Extension 3b: IGS draw_line (Model/IgsLine.v): since the fix commits the line is CLIPPED to the screen (clip_line) before the
   Bresenham loop; commands DrawLine, LineDrawTo, LineMarkerTypes.                                                      *)

(* clip_line for ALL i32 arguments: no i128 overflow, no division by zero; what it returns lies on the screen *)
Theorem igs_clip_line_safe : forall x0 y0 x1 y1 x_max y_max, InI32 x0 -> InI32 y0 -> InI32 x1 -> InI32 y1 -> 0 <= x_max <= I32_MAX -> 0 <= y_max <= I32_MAX ->
  match clip_line x0 y0 x1 y1 x_max y_max with
  | Ok None => True
  | Ok (Some (a, b, c, d)) => 0 <= a <= x_max /\ 0 <= b <= y_max /\ 0 <= c <= x_max /\ 0 <= d <= y_max
  | Panic _ => False
  end.
Proof. exact clip_line_post. Qed.

(* draw_line for ALL i32 arguments and every line type: it returns, the canvas keeps its size and its pens, and the loop runs at
   most width + height - 1 times (one set_pixel slot each): the work is bounded by the CANVAS, not by the coordinates; no panic *)
Theorem igs_draw_line_total : forall e x0 y0 x1 y1 color mask, InvE e -> (color < 16)%N -> InI32 x0 -> InI32 y0 -> InI32 x1 -> InI32 y1 ->
  exists e' n, igs_draw_line e x0 y0 x1 y1 color mask = Ok (e', n) /\ SameE e e' /\ 0 <= n <= e_w e + e_h e - 1.
Proof. exact igs_draw_line_post. Qed.

(* the OLD behaviour (draw_line before the fix commits = igs_draw_line_unclipped), for ALL arguments: at least max(dx, dy) + 1 loop
   iterations whatever part of the line is on the screen, and the two panics LINE_STYLE[6] / i32 overflow beyond +-2^27 *)
Theorem igs_draw_line_before_fix : forall e x0 y0 x1 y1 color mask, InvE e -> (color < 16)%N ->
  match igs_draw_line_unclipped e x0 y0 x1 y1 color mask with
  | Ok (e', n) => SameE e e' /\ Z.max (Z.abs (x0 - x1)) (Z.abs (y0 - y1)) + 1 <= n <= Z.abs (x0 - x1) + Z.abs (y0 - y1) + 1
  | Panic p => (p = SITE_IGS_LINESTYLE /\ ~ (0 <= mask <= 5)) \/ (p = SITE_I32 /\ ~ DlSmall x0 y0 x1 y1)
  end.
Proof. exact igs_draw_line_unclipped_post. Qed.

(* the old stall as a theorem: on the 320 x 200 canvas a horizontal line to x = D cost at least D + 1 iterations, for every D up to 2^27 *)
Theorem igs_draw_line_before_fix_stall : forall D, 0 <= D <= DLH ->
  exists e' n, igs_draw_line_unclipped iexec_new 0 0 D 0 0%N 0 = Ok (e', n) /\ D + 1 <= n.
Proof. exact igs_draw_line_unclipped_stall. Qed.

Theorem igs_kernel2_safe : forall s c ps str_, InvE2 s -> Forall InI32 ps ->
  match igs_exec2 s c ps str_ with
  | XOk2 s' _ => InvE2 s'
  | XPanic2 _ => False
  | XUnmodelled2 => True
  end.
Proof. exact igs_exec2_ok. Qed.

Theorem igs_stream_kernel2_safe : forall (FS : Type) (fb_print : FS -> N -> FS * bool) (fs : FS) (es : list event),
  match igs_run xstate2 igs_x2 FS fb_print (igs_world_init2 FS fs) es with
  | Ok w' => IgsInvN (w_p xstate2 FS w') /\
             match w_x xstate2 FS w' with
             | SOkE2 s => InvE2 s /\ exists px, igs_picture (x_e s) = Ok px /\ Z.of_nat (length px) = 4 * (e_w (x_e s) * e_h (x_e s))
             | SPanicE2 _ => False
             | SUnmodelledE2 => True
             end
  | Panic _ => False
  end.
Proof. exact igs_stream_kernel2_lemma. Qed.

(* "G#L 0,0,4,2:" : five loop iterations; "G#L 0,0,1000000000,0:" : 320 iterations (it was 10^9 + 1);
   "G#T 2,7,1:L 0,0,5,5:" : the user defined line type is drawn solid (it was LINE_STYLE[6]) *)
Example igs_line_draws : match igs_draw_line iexec_new 0 0 4 2 3%N 0 with
                         | Ok (e', n) => n = 5 /\ map (fun i => nth_error (e_screen e') i) [0; 1; 321; 322; 323; 643; 644]%nat
                                                  = [Some 3; Some 3; Some 1; Some 3; Some 3; Some 1; Some 3]%N
                         | Panic _ => False end.
Proof. vm_compute. auto. Qed.
Example igs_far_line_is_clipped : match igs_draw_line iexec_new 0 0 1000000000 0 3%N 0 with
                                  | Ok (e', n) => n = 320 /\ nth_error (e_screen e') 319 = Some 3%N /\ nth_error (e_screen e') 320 = Some 1%N
                                  | Panic _ => False end.
Proof. vm_compute. auto. Qed.
Example igs_clip_examples : clip_line (-10) (-10) 700 500 319 199 = Ok (Some (4, 0, 281, 199)) /\ clip_line (-10) 50 (-1) 60 319 199 = Ok None /\
                            clip_line 2147483647 (-2147483648) (-2147483648) 2147483647 639 399 = Ok None /\
                            clip_line (-2147483648) (-2147483648) 2147483647 2147483647 639 399 = Ok (Some (0, 0, 399, 399)).
Proof. vm_compute. auto. Qed.
Example igs_user_line_type_solid : match igs_draw_line iexec_new 0 0 5 5 2%N 6 with
                                   | Ok (e', n) => n = 6 /\ nth_error (e_screen e') 963 = Some 2%N
                                   | Panic _ => False end /\
                                   igs_draw_line_unclipped iexec_new 0 0 5 5 0%N 6 = Panic SITE_IGS_LINESTYLE.
Proof. vm_compute. auto. Qed.
