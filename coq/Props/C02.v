(* C02 — no file content can crash a loader.
   Only statements, each closed by `exact <lemma>`.  One totality theorem per loader, for ALL byte strings; then the
   composition `from_bytes_total` over all extensions.

   "total r" / "no_panic r" / "safe r" = the modelled function returned Ok or Err: every slice, index, subtraction, assert
   and loop of the Rust function has an explicit Panic (or fuel-exhaustion) result in the model, and that result is
   unreachable.  Models: the code AFTER the fix commits of branch fix-c02 (Model/C02Loaders.v, Model/C02Icy.v,
   Model/C02Dispatch.v) and the models of C05 (BIN, ADF, IDF), C11 (SAUCE), C17 (fonts, TheDraw). *)
From Coq Require Import NArith ZArith Bool List.
From IE Require Import Lib.Tbl Lib.C05Lib Lib.C02Lib Gen.Codepage Gen.Formats Gen.C02Ext Model.Attr Model.C05Buf Model.C05Bin
  Model.C05XBin Model.C05Idf Model.C05Tundra Model.C02Loaders Model.C02Icy Model.C02Dispatch
  Proofs.C02Proofs Proofs.C02IcyProofs Proofs.C02DispatchProofs.
From IE Require Model.Sauce Proofs.SauceProofs Props.C11 Lib.C17Lib Model.Font Model.Tdf Props.C17 Model.PaletteFiles.
From IE Require Import Model.C02Text Proofs.C02TextProofs.
From IE Require Import Gen.C02Pal Model.C02Pal Proofs.C02PalProofs.
From IE Require Proofs.FontProofs.
From IE Require Model.TermCore Model.FileCore Gen.FileAnsiTok Gen.FileEmu Gen.FilePetscii Proofs.FileInv Gen.FileAnsiSafeW Gen.FileEmuSafeW Gen.FileMacroFuel Model.FileLoad Proofs.FileLoadProofs.
Import ListNotations.

(* ------------------------------------------------------------------------------ stand-alone extractors (re-exported) *)
(* SauceData::extract, for every date parser and every byte string (C11) *)
Theorem sauce_extract_total : forall (dp : list N -> option Sauce.ymd) data, SauceProofs.no_panic (Sauce.extract dp data).
Proof. exact C11.extract_total. Qed.

(* the SAUCE split in front of every loader: `len -= sauce_header_len; &bytes[..len]` (C11) *)
Theorem sauce_split_total : forall (dp : list N -> option Sauce.ymd) data, SauceProofs.no_panic (Sauce.split dp data).
Proof. exact C11.split_total. Qed.

(* BitFont::from_bytes (PSF1, PSF2, raw) and TheDrawFont::from_tdf_bytes (C17): Ok or Err, no panic, no fuel exhaustion *)
Theorem bitfont_from_bytes_total : forall data, C17Lib.safe (Font.from_bytes data).
Proof. exact C17.from_bytes_total. Qed.

Theorem tdf_from_bytes_total : forall (lossy : list N -> list N) bytes, C17Lib.safe (Tdf.from_tdf_bytes lossy bytes).
Proof. exact C17.from_tdf_total. Qed.

(* Palette::load_palette / Palette::export_palette, for ALL SIX variants of `enum PaletteFormat` (Model/C02Pal.v).
   The variants and the class of every `match` arm are generated from the source (Gen/C02Pal.v).  The five text formats
   are regex / str::parse pipelines without any index, slice or arithmetic that can fail; their model (C16,
   Model/PaletteFiles.v) is a total function into `option` (None = Err(..)).  PaletteFormat::Ase has no reader / writer:
   load_palette returns Err, export_palette (Vec<u8>, no error channel) logs and returns an empty vector.
   Before the fix of finding C02-ase-todo both arms were `todo!()`: known_1_witness, on the old arm table todo_arm. *)
Theorem palette_load_total : forall f s, palette_load f s <> PalPanic.
Proof. exact palette_load_total_proof. Qed.

(* … more precisely: Err, or exactly what the C16 reader of that format returns *)
Theorem palette_load_cases : forall f s,
  palette_load f s = PalErr \/
  exists m l, palette_model f = Some m /\ PaletteFiles.load m s = Some l /\ palette_load f s = PalOk l.
Proof. exact palette_load_cases_proof. Qed.

Theorem palette_export_total : forall f p, palette_export f p <> None.
Proof. exact palette_export_total_proof. Qed.

Theorem palette_ase_refused : (forall s, palette_load PAse s = PalErr) /\ (forall p, palette_export PAse p = Some []).
Proof. exact ase_refused_proof. Qed.

(* the code before the fix (PaletteFormat::Ase => todo!() in both functions) panicked on every call with Ase, and
   behaved like the present code for every other variant *)
Theorem known_1_witness :
  KnownC02_1 PAse /\ (forall s, palette_load_with todo_arm PAse s = PalPanic) /\
  (forall p, palette_export_with todo_arm PAse p = None) /\
  (forall f, ~ KnownC02_1 f -> forall s, palette_load_with todo_arm f s = palette_load f s).
Proof. exact known_1_witness_proof. Qed.

(* non-vacuity: "ff00aa" is one colour for Hex, an error for JASC-PAL (no magic line), refused for Ase *)
Example palette_load_sample :
  let ff00aa := [102; 102; 48; 48; 97; 97]%N in
  palette_load PHex ff00aa = PalOk [(255, 0, 170)%N] /\
  palette_load PPal ff00aa = PalErr /\ palette_load PAse ff00aa = PalErr /\
  palette_export PHex (Palette.of_colors [Palette.unnamed (255, 0, 170)%N]) = Some (ff00aa ++ [10%N]).
Proof. vm_compute. repeat split. Qed.

(* ------------------------------------------------------------------------------ binary loaders, ALL byte strings *)
(* Bin::load_buffer: never panics, and the row loop terminates because the width set by any SAUCE record is >= 1 *)
Theorem bin_loader_total : forall data s, sauce_nonneg s -> total (load_bin data s).
Proof. exact bin_total. Qed.

(* Artworx::load_buffer: version byte, 192-byte EGA palette (16 generated offsets < 64), 4096-byte font, cell pairs *)
Theorem adf_loader_total : forall data s, total (load_adf data s).
Proof. exact adf_total. Qed.

(* IceDraw::load_buffer: the RLE loop never leaves the cell area, so font and palette block are always in range *)
Theorem idf_loader_total : forall data, total (load_idf data).
Proof. exact idf_total. Qed.

(* XBin::load_buffer after the fixes: header, optional palette / one or two font blocks, plain or compressed data *)
Theorem xb_loader_total : forall data s, total (load_xb2 data s).
Proof. exact xb2_total. Qed.

(* read_data_compressed on ARBITRARY data: as many iterations as bytes suffice, no read behind the end *)
Theorem xb_compressed_reader_total : forall w m fixed L data, total (xb_read_compressed w m fixed L data).
Proof. exact (fun w m fixed L data => xbc_loop_total w (xb_decode m fixed) (length data) data L 0%Z 0%Z (le_n _)). Qed.

(* TundraDraw::load_buffer after the fix: jumps and colour records that are cut off are errors *)
Theorem tnd_loader_total : forall data s, total (load_tnd2 data s).
Proof. exact tnd2_total. Qed.

(* ------------------------------------------------------------------------------ IcyDraw chunk payloads *)
Theorem icy_string_total : forall bs, total (read_str bs).
Proof. exact read_str_total. Qed.

Theorem icy_layer_record_total : forall bs, total (dec_layer bs).
Proof. exact dec_layer_total. Qed.

Theorem icy_continuation_total : forall layers n bs, total (dec_cont layers n bs).
Proof. exact dec_cont_total. Qed.

Theorem icy_header_total : forall bs, total (dec_iced bs).
Proof. exact dec_iced_total. Qed.

(* every list of (keyword class, payload) pairs the container can yield, for any font / palette / SAUCE payload decoder *)
Theorem icy_document_total : forall font_ok pal_ok sauce_ok cs layers, total (run_chunks font_ok pal_ok sauce_ok layers cs).
Proof. exact (fun f p s cs layers => run_chunks_total f p s cs layers). Qed.

(* ------------------------------------------------------------------------------ Buffer::from_bytes *)
(* For every date parser, every container oracle, every payload decoder, every extension string and every byte string.
   ASSUMED (hypothesis, not proved here): the nine text loaders do not panic -
     text_load f content s  stands for  `convert_ansi_to_utf8(content)` (C10), `Buffer::new`, `set_sauce(s, true)`,
     the parser of format f (ANSI incl. ice/diz/unknown extension, PCBoard, Avatar, ASCII, Ctrl-A, Renegade, PETSCII,
     ATASCII) fed character by character on a NON-terminal buffer, and the epilogue of `parse_with_parser` (sixel
     threads, crop_loaded_file, bold folding).  Property C01 proves the no-panic statement for terminal buffers of
     1..132 x 1..60 only (full for ASCII/ATASCII/Viewdata/Mode 7, partial for ANSI and its wrappers, none for PETSCII);
     it does not cover non-terminal buffers, whose caret is clamped differently.  Stages C/S of this check run the
     real text loaders on token streams and malformed streams instead. *)
Theorem from_bytes_total :
  forall (dp : list N -> option Sauce.ymd) (text_load : fmt -> list N -> option sauce -> outcome)
         (icy_chunks : list N -> option (list (kind * list N))) (font_ok pal_ok sauce_ok : list N -> bool),
  (forall f content s, is_text f = true -> sauce_nonneg s -> text_load f content s <> OPanic) ->
  forall ext bytes, from_bytes dp text_load icy_chunks font_ok pal_ok sauce_ok ext bytes <> OPanic.
Proof. exact from_bytes_total. Qed.

(* binary formats need no assumption at all *)
Theorem from_bytes_binary_total :
  forall dp text_load icy_chunks font_ok pal_ok sauce_ok ext bytes,
  is_text (fmt_of_ext ext) = false -> from_bytes dp text_load icy_chunks font_ok pal_ok sauce_ok ext bytes <> OPanic.
Proof. exact from_bytes_binary_total. Qed.

(* the generated extension table resolves the property's list (case-insensitively); anything else is the ANSI loader *)
Theorem ext_table_ok :
  map fmt_of_ext [[97;110;115]; [65;78;83]; [105;99;101]; [100;105;122]; [105;99;121]; [105;100;102]; [98;105;110]; [120;98]; [88;66]; [116;110;100];
                  [112;99;98]; [97;118;116]; [97;115;99]; [97;100;102]; [109;115;103]; [97;110;49]; [97;110;53]; [97;110;57]; [115;101;113]; [97;116;97];
                  [122;122;122]; []; [97;110;48]]%N
  = [FAnsi; FAnsi; FAnsi; FAnsi; FIcy; FIdf; FBin; FXb; FXb; FTnd; FPcb; FAvt; FAsc; FAdf; FMsg; FRen; FRen; FRen; FSeq; FAta; FAnsi; FAnsi; FAnsi].
Proof. exact ext_table_sweep. Qed.

(* ------------------------------------------------------------------------------ the text loaders (extension x02) *)
(* The hypothesis of `from_bytes_total` is discharged here.  Models: Model/FileCore.v (the terminal core on a buffer with
   is_terminal_buffer = false), Gen/FileAnsiTok.v / FileEmu.v / FilePetscii.v (C01's parser models, generated over that core),
   Model/FileLoad.v (the eight loaders, parse_with_parser).  Invariant: Proofs/FileInv.v
     W t := 1 <= tw t /\ 1 <= bw t /\ origin_m t = false /\ mnn (mtb t) /\ mnn (mlr t) /\ tabs >= 0 /\ 0 <= cx t /\ 0 <= cy t
   (no condition on any height: a SAUCE record may give the buffer height 0). *)

(* Buffer::new + set_sauce(sauce, true) for EVERY record with a non-negative width (every record SauceData::extract returns:
   Proofs/C02DispatchProofs.extract_width_nonneg), any rows, any caret colours: the loader starts in a W state *)
Theorem file_initial_state : forall w0 h0 s rows fg bg ice, (1 <= w0)%Z -> FileLoadProofs.fsauce_nonneg s ->
  FileInv.W (FileLoad.file_term w0 h0 s rows fg bg ice).
Proof. exact FileLoadProofs.file_term_W. Qed.

(* ansi::Parser::print_char on a file buffer: every parser state, every character, any macro table, any value of the nesting counter
   (fuel = MAX_MACRO_NESTING - counter) - an action or an error value (ODeep = MacroNestingTooDeep) on a W state again; never a panic *)
Theorem file_ansi_char_total : forall fuel m ch, FileInv.W (FileAnsiTok.tm m) ->
  match FileAnsiTok.astep fuel m ch with
  | FileAnsiTok.OOk m' | FileAnsiTok.OErr m' | FileAnsiTok.ODeep m' => FileInv.W (FileAnsiTok.tm m')
  | FileAnsiTok.OPanic _ => False
  end.
Proof. exact FileAnsiSafeW.astep_char_total. Qed.

(* ANSI, Avatar, PCBoard, Ctrl-A, Renegade on a file buffer, EVERY stream from EVERY W state: it ends in a W state
   (before the nesting limit: "... or it stops in the macro-nesting overflow at a character processed with a macro stored") *)
Theorem file_wrappers_stream_total : forall e cs m, FileEmuSafeW.wrapper e = true -> FileInv.W (FileEmu.mt m) ->
  exists m', FileEmu.run e m cs = FileEmu.RunOk m' /\ FileInv.W (FileEmu.mt m').
Proof. exact FileEmuSafeW.run_np. Qed.

(* ASCII, ATASCII, PETSCII on a file buffer: every stream from every W state ends in a W state *)
Theorem file_ascii_stream_total : forall cs m, FileInv.W (FileEmu.mt m) ->
  exists m', FileEmu.run FileEmu.EAscii m cs = FileEmu.RunOk m' /\ FileInv.W (FileEmu.mt m').
Proof. exact FileLoadProofs.run_ascii_np. Qed.
Theorem file_atascii_stream_total : forall cs m, FileInv.W (FileEmu.mt m) ->
  exists m', FileEmu.run FileEmu.EAtascii m cs = FileEmu.RunOk m' /\ FileInv.W (FileEmu.mt m').
Proof. exact FileLoadProofs.run_atascii_np. Qed.
Theorem file_petscii_stream_total : forall cs m, FileInv.W (FileEmu.mt m) ->
  exists m', FilePetscii.run_petscii m cs = FileEmu.RunOk m' /\ FileInv.W (FileEmu.mt m').
Proof. exact FileLoadProofs.run_petscii_np. Qed.

(* the sixel epilogue of parse_with_parser (update_sixel_threads, one Image layer per sixel): no panic site is reachable when font 0
   has a size BitFont::from_bytes can return since fix fB (FontDims: 1..=MAX_FONT_WIDTH x 1..=MAX_FONT_HEIGHT = 8 x 32, the constants read
   from src/fonts.rs) and every sixel has a non-negative position / pixel size with (x + 1) * 8 + width <= i32::MAX and
   (y + 1) * 32 + height <= i32::MAX (SixelBounded - about the sixel alone).
   Before the fix: `SixelOk fw fh done` = no sixel, or 1 <= fw, 1 <= fh and every pixel rectangle, computed WITH that font, inside i32. *)
Theorem sixel_epilogue_total : forall fw fh done, FileLoadProofs.FontDims fw fh -> Forall FileLoadProofs.SixelBounded done ->
  exists layers, FileLoad.sixel_epilogue fw fh done = TermCore.ROk layers.
Proof. exact FileLoadProofs.sixel_epilogue_bounded. Qed.
(* FontDims is not a hypothesis about the file: it holds for the size of every font from_bytes returns (C17: loaded_font_dims) *)
Theorem loaded_font_has_dims : forall fw fh, FileLoadProofs.LoadedFont fw fh -> FileLoadProofs.FontDims fw fh.
Proof. exact FileLoadProofs.loaded_font_dims. Qed.

(* ALL eight text loaders (ans/ice/diz/unknown, avt, pcb, asc, msg, an1-an9, seq, ata), every SAUCE record, every character
   list: a buffer or an error value; never a panic; no exception (the type FileLoad.tout lost its fourth constructor TOverflow) *)
Theorem text_load_total : forall f s fw fh done serr cs, FileLoadProofs.fsauce_nonneg s ->
  FileLoadProofs.FontDims fw fh -> Forall FileLoadProofs.SixelBounded done ->
  match FileLoad.text_load f s fw fh done serr cs with
  | FileLoad.TOk _ _ | FileLoad.TErr => True
  | FileLoad.TPanic _ => False
  end.
Proof. exact FileLoadProofs.text_load_total_bounded. Qed.
(* the same with font 0 in the statement: whatever byte string `data` the font was loaded from (a built-in file, the payload of a
   `CTerm:Font:0:` string in this very file, ...) *)
Theorem text_load_total_loaded_font : forall f s data font0 done serr cs, FileLoadProofs.fsauce_nonneg s ->
  Font.from_bytes data = C17Lib.Ok font0 -> Forall FileLoadProofs.SixelBounded done ->
  match FileLoad.text_load f s (Font.f_w font0) (Font.f_h font0) done serr cs with
  | FileLoad.TOk _ _ | FileLoad.TErr => True
  | FileLoad.TPanic _ => False
  end.
Proof. exact FileLoadProofs.text_load_total_loaded_font. Qed.
Theorem text_load_returns : forall f s fw fh done serr cs, FileLoadProofs.fsauce_nonneg s ->
  FileLoadProofs.FontDims fw fh -> Forall FileLoadProofs.SixelBounded done ->
  (exists t l, FileLoad.text_load f s fw fh done serr cs = FileLoad.TOk t l) \/ FileLoad.text_load f s fw fh done serr cs = FileLoad.TErr.
Proof. exact FileLoadProofs.text_load_returns_bounded. Qed.
(* (kept) ASCII, PETSCII (seq) and ATASCII files *)
Theorem text_load_no_ansi_total : forall f s fw fh done serr cs,
  (f = FileLoad.TAsc \/ f = FileLoad.TSeq \/ f = FileLoad.TAta) -> FileLoadProofs.fsauce_nonneg s ->
  FileLoadProofs.FontDims fw fh -> Forall FileLoadProofs.SixelBounded done ->
  (exists t l, FileLoad.text_load f s fw fh done serr cs = FileLoad.TOk t l) \/ FileLoad.text_load f s fw fh done serr cs = FileLoad.TErr.
Proof. exact FileLoadProofs.text_load_standalone_bounded. Qed.

(* Known 2 (= C01-stackoverflow:invoke_macro_by_id reached through a file: the content stores a macro that invokes itself) is REPAIRED
   (fix 2513579, MAX_MACRO_NESTING): fixed_2_witness - the file loads; known_2_before_fix_refuted - the old behaviour as a statement about the
   same model: in the state that file reaches, the invocation nests to EVERY limit (without one: until the stack is gone).
   Known 3 (C02-sixel-font0: a sixel next to a font 0 that a `CTerm:Font:0:` DCS string replaced by one of width / height 0, >= 2^30 or
   >= 2^31 - the epilogue divides by the font size, multiplies the cursor by it, makes a layer of that many cells) is REPAIRED (fix fB:
   load_psf2 / load_psf1 / load_plain_font refuse a glyph size outside 1..=8 x 1..=32): known_3_before_fix_refuted - what the OLD loader
   (FontProofs.load_psf2_before_fix) made of the four witness headers and what the (unchanged) epilogue does with such a font;
   fixed_3_witness - from_bytes refuses them, the font string is an error value of the parser and the witness file loads.
   The predicate KnownC02_3 (= ~ SixelOk) is gone. *)
Theorem fixed_2_witness :
  match FileLoad.text_load FileLoad.TAns None 8 16 [] false FileLoadProofs.macro_bomb with
  | FileLoad.TOk t [] => (TermCore.bh t, TermCore.cx t, TermCore.cy t) = (0, 0, 0)%Z | _ => False end.
Proof. exact FileLoadProofs.macro_bomb_loads. Qed.
Theorem known_2_before_fix_refuted : forall n, FileAnsiTok.astep n FileMacroFuel.self_state 122 = FileAnsiTok.ODeep FileMacroFuel.self_after.
Proof. exact FileMacroFuel.macro_self_reaches_every_limit. Qed.
(* the limit only cuts, on a file buffer as well: an outcome that is not the nesting error is the outcome for every larger limit *)
Theorem file_macro_limit_only_cuts : forall k fuel m ch,
  (forall d, FileAnsiTok.astep fuel m ch <> FileAnsiTok.ODeep d) -> FileAnsiTok.astep (fuel + k) m ch = FileAnsiTok.astep fuel m ch.
Proof. exact FileMacroFuel.astep_fuel_irrelevant. Qed.
Theorem known_3_before_fix_refuted :
  (exists f, FontProofs.load_psf2_before_fix (FontProofs.psf2_header 16 0) = C17Lib.Ok f /\
             FileLoad.sixel_epilogue (Font.f_w f) (Font.f_h f) [FileLoad.mkSx 0 0 4 6] = TermCore.RPanic FileLoad.SITE_SIXEL_DIV) /\
  (exists f, FontProofs.load_psf2_before_fix (FontProofs.psf2_header 0 8) = C17Lib.Ok f /\
             FileLoad.sixel_epilogue (Font.f_w f) (Font.f_h f) [FileLoad.mkSx 0 0 4 6] = TermCore.RPanic FileLoad.SITE_SIXEL_DIV) /\
  (exists f, FontProofs.load_psf2_before_fix (FontProofs.psf2_header 16 1073741824) = C17Lib.Ok f /\
             FileLoad.sixel_epilogue (Font.f_w f) (Font.f_h f) [FileLoad.mkSx 2 0 4 6] = TermCore.RPanic FileLoad.SITE_SIXEL_MUL) /\
  (exists f, FontProofs.load_psf2_before_fix (FontProofs.psf2_header 4294967295 4294967295) = C17Lib.Ok f /\
             FileLoad.sixel_epilogue (Font.f_w f) (Font.f_h f) [FileLoad.mkSx 0 0 4 6] = TermCore.RPanic FileLoad.SITE_LAYER_NEW).
Proof. exact FileLoadProofs.known_3_before_fix. Qed.
Theorem fixed_3_witness :
  Font.from_bytes (FontProofs.psf2_header 16 0) = C17Lib.Err Font.E_SIZE /\ Font.from_bytes (FontProofs.psf2_header 0 8) = C17Lib.Err Font.E_SIZE /\
  Font.from_bytes (FontProofs.psf2_header 16 1073741824) = C17Lib.Err Font.E_SIZE /\
  Font.from_bytes (FontProofs.psf2_header 4294967295 4294967295) = C17Lib.Err Font.E_SIZE /\
  Font.from_bytes [54; 4; 0; 0]%N = C17Lib.Err Font.E_SIZE /\
  match FileLoad.text_load FileLoad.TAns None 8 16 [FileLoad.mkSx 0 0 4 6] false FileLoadProofs.font0_w0_file with
  | FileLoad.TOk t [(1, 1)%Z] => (TermCore.bh t, TermCore.cx t, TermCore.cy t) = (1, 0, 0)%Z | _ => False end.
Proof. exact FileLoadProofs.known_3_after_fix. Qed.

(* the hypothesis of from_bytes_total, for the model of the text loaders: for every decoder `conv` of the content bytes and
   every oracle of the epilogue that reports, as font 0, the size of a font from_bytes returned, and sixels inside i32 (SaneOracle =
   LoadedFont fw fh /\ Forall SixelBounded done; before fix fB: SixelOk, with its condition `font 0 at least 1 x 1`),
   a text loader never "panics" (before the nesting limit: "... is in the macro class") *)
Theorem text_load_hypothesis_discharged : forall conv sixels f content s,
  SaneOracle sixels -> sauce_nonneg s -> text_load_model conv sixels f content s <> OPanic.
Proof. exact text_load_model_total. Qed.

(* Buffer::from_bytes WITHOUT a hypothesis on the text loaders and WITHOUT a known class of contents: for every date parser, decoder,
   container oracle, payload decoder, every extension and every byte string.  SaneOracle no longer excludes a class of FILES (the former
   Known 3): it says that the font table holds loaded fonts and that the decoded pictures fit into i32.
   (from_bytes_crash_is_macro, "a crash of from_bytes IS a macro crash of a text loader", would now have a false premise: removed.) *)
Theorem from_bytes_total_unconditional :
  forall (dp : list N -> option Sauce.ymd) (conv : list N -> list Z) (sixels : sixel_oracle)
         (icy_chunks : list N -> option (list (kind * list N))) (font_ok pal_ok sauce_ok : list N -> bool),
  SaneOracle sixels -> forall ext bytes,
  from_bytes dp (text_load_model conv sixels) icy_chunks font_ok pal_ok sauce_ok ext bytes <> OPanic.
Proof. exact from_bytes_total_unconditional. Qed.
(* (kept) extensions that resolve to a loader without an ANSI parser inside (asc, seq, ata and the six binary formats) *)
Theorem from_bytes_no_ansi_total :
  forall dp conv sixels icy_chunks font_ok pal_ok sauce_ok, SaneOracle sixels -> forall ext bytes,
  (fmt_of_ext ext = FAsc \/ fmt_of_ext ext = FSeq \/ fmt_of_ext ext = FAta \/ is_text (fmt_of_ext ext) = false) ->
  from_bytes dp (text_load_model conv sixels) icy_chunks font_ok pal_ok sauce_ok ext bytes <> OPanic.
Proof. exact from_bytes_no_ansi_total. Qed.

(* ------------------------------------------------------------------------------ non-vacuity / regression witnesses *)
(* the inputs that panicked before the fixes: C05's models of the old code say Panic, the models of the fixed code Err *)
Example tnd_truncated_before : load_tnd [24; 84; 85; 78; 68; 82; 65; 50; 52; 6]%N None = Panic 6.
Proof. vm_compute. reflexivity. Qed.
Example tnd_truncated_after : load_tnd2 [24; 84; 85; 78; 68; 82; 65; 50; 52; 6]%N None = Err 5.
Proof. vm_compute. reflexivity. Qed.
Example tnd_jump_truncated_after : load_tnd2 [24; 84; 85; 78; 68; 82; 65; 50; 52; 1; 0; 0; 0; 0; 0]%N None = Err 5.
Proof. vm_compute. reflexivity. Qed.
Example xb_palette_cut_before : load_xb [88; 66; 73; 78; 26; 4; 0; 2; 0; 16; 1; 0; 0]%N None = Panic 6.
Proof. vm_compute. reflexivity. Qed.
Example xb_palette_cut_after : load_xb2 [88; 66; 73; 78; 26; 4; 0; 2; 0; 16; 1; 0; 0]%N None = Err 5.
Proof. vm_compute. reflexivity. Qed.
Example xb_run_header_last_byte : exists b, load_xb2 [88; 66; 73; 78; 26; 4; 0; 2; 0; 16; 4; 64]%N None = Ok b.
Proof. eexists. vm_compute. reflexivity. Qed.
Example icy_string_cut : read_str [100; 0; 0; 0; 97]%N = Ok None.
Proof. vm_compute. reflexivity. Qed.
Example icy_layer_cut : dec_layer [1; 0; 0; 0; 76; 0; 0; 0]%N = Err 1.
Proof. vm_compute. reflexivity. Qed.

(* text loaders: the inputs of fix d135f2b (cursor up in row 0, then insert / delete line) load; a SAUCE record of height 0 is fine;
   `A LF B` gives two rows; a file that is only a macro bomb loads (fixed_2_witness) *)
Example ans_cursor_up_insert_line :
  match FileLoad.text_load FileLoad.TAns None 8 16 [] false [27; 91; 65; 27; 91; 76]%Z with FileLoad.TOk t [] => TermCore.bh t = 1%Z | _ => False end.
Proof. vm_compute. reflexivity. Qed.
Example ata_cursor_up_delete_line :
  match FileLoad.text_load FileLoad.TAta None 8 16 [] false [28; 156]%Z with FileLoad.TOk t [] => TermCore.bh t = 24%Z | _ => False end.
Proof. vm_compute. reflexivity. Qed.
Example ans_sauce_height_0 :
  match FileLoad.text_load FileLoad.TAns (Some (FileLoad.mkFS 0 0 true)) 8 16 [] false [65; 10; 66]%Z with
  | FileLoad.TOk t [] => (TermCore.bw t, TermCore.bh t, TermCore.th t) = (80, 2, 0)%Z | _ => False end.
Proof. vm_compute. reflexivity. Qed.
Example ans_with_sixel_layer :
  match FileLoad.text_load FileLoad.TAns None 8 16 [FileLoad.mkSx 0 0 4 6] false [65]%Z with FileLoad.TOk t [(1, 1)%Z] => TermCore.bh t = 1%Z | _ => False end.
Proof. vm_compute. reflexivity. Qed.
