(* C02 — no file content can crash a loader.
   Only statements, each closed by `exact <lemma>`.  One totality theorem per loader, for ALL byte strings; then the
   composition `from_bytes_total` over all extensions.

   "total r" / "no_panic r" / "safe r" = the modelled function returned Ok or Err: every slice, index, subtraction, assert
   and loop of the Rust function has an explicit Panic (or fuel-exhaustion) result in the model, and that result is
   unreachable.  Models: the code AFTER the fix commits of branch fix-c02 (Model/C02Loaders.v, Model/C02Icy.v,
   Model/C02Dispatch.v) and the models of C05 (BIN, ADF, IDF), C11 (SAUCE), C17 (fonts, TheDraw). *)
From Coq Require Import NArith ZArith Bool List.
From IE Require Import Lib.Tbl Lib.C05Lib Lib.C02Lib Gen.Codepage Gen.Formats Gen.C02Ext Model.Attr Model.C05Buf Model.C05Bin
  Model.C05XBin Model.C05Idf Model.C05Tundra Model.C02Loaders Model.C02Icy Model.C02Dispatch
  Proofs.C02Proofs Proofs.C02IcyProofs Proofs.C02DispatchProofs.
From IE Require Model.Sauce Proofs.SauceProofs Props.C11 Lib.C17Lib Model.Font Model.Tdf Props.C17 Model.PaletteFiles.
Import ListNotations.

(* ------------------------------------------------------------------------------ stand-alone extractors (re-exported) *)
(* SauceData::extract, for every date parser and every byte string (C11) *)
Theorem sauce_extract_total : forall (dp : list N -> option Sauce.ymd) data, SauceProofs.no_panic (Sauce.extract dp data).
Proof. exact C11.extract_total. Qed.

(* the SAUCE split in front of every loader: `len -= sauce_header_len; &bytes[..len]` (C11) *)
Theorem sauce_split_total : forall (dp : list N -> option Sauce.ymd) data, SauceProofs.no_panic (Sauce.split dp data).
Proof. exact C11.split_total. Qed.

(* BitFont::from_bytes (PSF1, PSF2, raw) and TheDrawFont::from_tdf_bytes (C17): Ok or Err, no panic, no fuel exhaustion *)
Theorem bitfont_from_bytes_total : forall data, C17Lib.safe (Font.from_bytes data).
Proof. exact C17.from_bytes_total. Qed.

Theorem tdf_from_bytes_total : forall (lossy : list N -> list N) bytes, C17Lib.safe (Tdf.from_tdf_bytes lossy bytes).
Proof. exact C17.from_tdf_total. Qed.

(* Palette::load_palette: the five implemented formats are regex / str::parse pipelines without any index, slice or
   arithmetic that can fail; their model (C16, Model/PaletteFiles.v) is a total function into `option`
   (None = Err(..)).  The sixth public format is a stub: known finding C02-ase-todo. *)
Inductive palette_format := PIce | PHex | PPal | PGpl | PTxt | PAse.
Definition palette_model (f : palette_format) : option PaletteFiles.format :=
  match f with PIce => Some PaletteFiles.Ice | PHex => Some PaletteFiles.Hex | PPal => Some PaletteFiles.Pal
             | PGpl => Some PaletteFiles.Gpl | PTxt => Some PaletteFiles.Txt | PAse => None end.
Definition KnownC02_1 (f : palette_format) : Prop := f = PAse.       (* `PaletteFormat::Ase => todo!()` *)

Theorem palette_load_total : forall f, ~ KnownC02_1 f -> exists m, palette_model f = Some m /\
  forall s, PaletteFiles.load m s = None \/ exists l, PaletteFiles.load m s = Some l.
Proof.
  exact (fun f H => match f as f0 return (~ KnownC02_1 f0 -> exists m, palette_model f0 = Some m /\
                        forall s, PaletteFiles.load m s = None \/ exists l, PaletteFiles.load m s = Some l) with
                    | PAse => fun H => False_ind _ (H eq_refl)
                    | _ => fun _ => ex_intro _ _ (conj eq_refl (fun s =>
                             match PaletteFiles.load _ s as o return (o = None \/ exists l, o = Some l) with
                             | None => or_introl eq_refl | Some l => or_intror (ex_intro _ l eq_refl) end))
                    end H).
Qed.

Theorem known_1_witness : KnownC02_1 PAse /\ palette_model PAse = None.
Proof. exact (conj eq_refl eq_refl). Qed.

(* ------------------------------------------------------------------------------ binary loaders, ALL byte strings *)
(* Bin::load_buffer: never panics, and the row loop terminates because the width set by any SAUCE record is >= 1 *)
Theorem bin_loader_total : forall data s, sauce_nonneg s -> total (load_bin data s).
Proof. exact bin_total. Qed.

(* Artworx::load_buffer: version byte, 192-byte EGA palette (16 generated offsets < 64), 4096-byte font, cell pairs *)
Theorem adf_loader_total : forall data s, total (load_adf data s).
Proof. exact adf_total. Qed.

(* IceDraw::load_buffer: the RLE loop never leaves the cell area, so font and palette block are always in range *)
Theorem idf_loader_total : forall data, total (load_idf data).
Proof. exact idf_total. Qed.

(* XBin::load_buffer after the fixes: header, optional palette / one or two font blocks, plain or compressed data *)
Theorem xb_loader_total : forall data s, total (load_xb2 data s).
Proof. exact xb2_total. Qed.

(* read_data_compressed on ARBITRARY data: as many iterations as bytes suffice, no read behind the end *)
Theorem xb_compressed_reader_total : forall w m fixed L data, total (xb_read_compressed w m fixed L data).
Proof. exact (fun w m fixed L data => xbc_loop_total w (xb_decode m fixed) (length data) data L 0%Z 0%Z (le_n _)). Qed.

(* TundraDraw::load_buffer after the fix: jumps and colour records that are cut off are errors *)
Theorem tnd_loader_total : forall data s, total (load_tnd2 data s).
Proof. exact tnd2_total. Qed.

(* ------------------------------------------------------------------------------ IcyDraw chunk payloads *)
Theorem icy_string_total : forall bs, total (read_str bs).
Proof. exact read_str_total. Qed.

Theorem icy_layer_record_total : forall bs, total (dec_layer bs).
Proof. exact dec_layer_total. Qed.

Theorem icy_continuation_total : forall layers n bs, total (dec_cont layers n bs).
Proof. exact dec_cont_total. Qed.

Theorem icy_header_total : forall bs, total (dec_iced bs).
Proof. exact dec_iced_total. Qed.

(* every list of (keyword class, payload) pairs the container can yield, for any font / palette / SAUCE payload decoder *)
Theorem icy_document_total : forall font_ok pal_ok sauce_ok cs layers, total (run_chunks font_ok pal_ok sauce_ok layers cs).
Proof. exact (fun f p s cs layers => run_chunks_total f p s cs layers). Qed.

(* ------------------------------------------------------------------------------ Buffer::from_bytes *)
(* For every date parser, every container oracle, every payload decoder, every extension string and every byte string.
   ASSUMED (hypothesis, not proved here): the nine text loaders do not panic -
     text_load f content s  stands for  `convert_ansi_to_utf8(content)` (C10), `Buffer::new`, `set_sauce(s, true)`,
     the parser of format f (ANSI incl. ice/diz/unknown extension, PCBoard, Avatar, ASCII, Ctrl-A, Renegade, PETSCII,
     ATASCII) fed character by character on a NON-terminal buffer, and the epilogue of `parse_with_parser` (sixel
     threads, crop_loaded_file, bold folding).  Property C01 proves the no-panic statement for terminal buffers of
     1..132 x 1..60 only (full for ASCII/ATASCII/Viewdata/Mode 7, partial for ANSI and its wrappers, none for PETSCII);
     it does not cover non-terminal buffers, whose caret is clamped differently.  Stages C/S of this check run the
     real text loaders on token streams and malformed streams instead. *)
Theorem from_bytes_total :
  forall (dp : list N -> option Sauce.ymd) (text_load : fmt -> list N -> option sauce -> outcome)
         (icy_chunks : list N -> option (list (kind * list N))) (font_ok pal_ok sauce_ok : list N -> bool),
  (forall f content s, is_text f = true -> sauce_nonneg s -> text_load f content s <> OPanic) ->
  forall ext bytes, from_bytes dp text_load icy_chunks font_ok pal_ok sauce_ok ext bytes <> OPanic.
Proof. exact from_bytes_total. Qed.

(* binary formats need no assumption at all *)
Theorem from_bytes_binary_total :
  forall dp text_load icy_chunks font_ok pal_ok sauce_ok ext bytes,
  is_text (fmt_of_ext ext) = false -> from_bytes dp text_load icy_chunks font_ok pal_ok sauce_ok ext bytes <> OPanic.
Proof. exact from_bytes_binary_total. Qed.

(* the generated extension table resolves the property's list (case-insensitively); anything else is the ANSI loader *)
Theorem ext_table_ok :
  map fmt_of_ext [[97;110;115]; [65;78;83]; [105;99;101]; [100;105;122]; [105;99;121]; [105;100;102]; [98;105;110]; [120;98]; [88;66]; [116;110;100];
                  [112;99;98]; [97;118;116]; [97;115;99]; [97;100;102]; [109;115;103]; [97;110;49]; [97;110;53]; [97;110;57]; [115;101;113]; [97;116;97];
                  [122;122;122]; []; [97;110;48]]%N
  = [FAnsi; FAnsi; FAnsi; FAnsi; FIcy; FIdf; FBin; FXb; FXb; FTnd; FPcb; FAvt; FAsc; FAdf; FMsg; FRen; FRen; FRen; FSeq; FAta; FAnsi; FAnsi; FAnsi].
Proof. exact ext_table_sweep. Qed.

(* ------------------------------------------------------------------------------ non-vacuity / regression witnesses *)
(* the inputs that panicked before the fixes: C05's models of the old code say Panic, the models of the fixed code Err *)
Example tnd_truncated_before : load_tnd [24; 84; 85; 78; 68; 82; 65; 50; 52; 6]%N None = Panic 6.
Proof. vm_compute. reflexivity. Qed.
Example tnd_truncated_after : load_tnd2 [24; 84; 85; 78; 68; 82; 65; 50; 52; 6]%N None = Err 5.
Proof. vm_compute. reflexivity. Qed.
Example tnd_jump_truncated_after : load_tnd2 [24; 84; 85; 78; 68; 82; 65; 50; 52; 1; 0; 0; 0; 0; 0]%N None = Err 5.
Proof. vm_compute. reflexivity. Qed.
Example xb_palette_cut_before : load_xb [88; 66; 73; 78; 26; 4; 0; 2; 0; 16; 1; 0; 0]%N None = Panic 6.
Proof. vm_compute. reflexivity. Qed.
Example xb_palette_cut_after : load_xb2 [88; 66; 73; 78; 26; 4; 0; 2; 0; 16; 1; 0; 0]%N None = Err 5.
Proof. vm_compute. reflexivity. Qed.
Example xb_run_header_last_byte : exists b, load_xb2 [88; 66; 73; 78; 26; 4; 0; 2; 0; 16; 4; 64]%N None = Ok b.
Proof. eexists. vm_compute. reflexivity. Qed.
Example icy_string_cut : read_str [100; 0; 0; 0; 97]%N = Ok None.
Proof. vm_compute. reflexivity. Qed.
Example icy_layer_cut : dec_layer [1; 0; 0; 0; 76; 0; 0; 0]%N = Err 1.
Proof. vm_compute. reflexivity. Qed.
