(* C03 — work per input is bounded by screen size, not by numbers in the input.   PARTIAL by design (notes/C03.md):
   the statements are about ITERATION and ALLOCATION counters of the model (Model/Cost.v); time and memory of the real
   code are tied to them one-sidedly by stages C and S.
     n            : byte length of the control sequence (>= its number of parameters)
     scr t        : (tw + bw + lw + #tabs + widest row) * (th + max (bh, #rows)) + 1   — the screen measure incl. scrollback
     Inv09 t      : the C09 invariant (every state reachable without a text-area resize: Props/C09.v) *)
From Coq Require Import ZArith NArith List Bool Lia.
From IE Require Import Model.TermCore Model.AnsiTok Model.Cost Model.Alloc Proofs.TermProofs Proofs.CostProofs Proofs.AllocProofs Proofs.TicksProofs Proofs.MacroProofs Proofs.SixelCostProofs Proofs.LoadCostProofs Run.RunC03 Gen.MacroLimit Gen.SixelGen.
From IE Require Model.Sixel Model.Font Model.SixelCost Lib.C05Lib Model.Attr Model.C05Buf Model.C05Bin Model.C05XBin Model.C05Idf Model.C05Tundra Model.C02Loaders Model.LoadCost.
Import ListNotations.
Local Open Scope Z_scope.

(* every CSI final byte without intermediate: primitive calls <= 4 (n+1) scr — unconditionally after the clamp fixes
   (SU SD ICH DCH IL DL CVT CBT CUU REP ...) *)
Theorem cost_bound : forall t p is_start ch n, Inv09 t -> 0 <= n -> nlen (nums p) <= n ->
  0 <= iters (snd (csi_final_c t p is_start ch)) <= 4 * (n + 1) * scr t.
Proof. exact cost_bound_l. Qed.
(* CSI Pn SP @ (SL), CSI Pn SP A (SR), every other SP final: unconditional *)
Theorem cost_bound_sp : forall t p ch n, Inv09 t -> 0 <= n -> 0 <= iters (snd (csi_sp_c t p ch)) <= 4 * (n + 1) * scr t.
Proof. exact cost_bound_sp_l. Qed.
(* one call of a scroll primitive visits at most scr cells *)
Theorem prim_ticks_bound : forall t, Inv09 t ->
  snd (scroll_up_t t) <= scr t /\ snd (scroll_down_t t) <= scr t /\ snd (scroll_left_t t) <= scr t /\ snd (scroll_right_t t) <= scr t.
Proof. exact prim_ticks_bound_l. Qed.
(* total cells visited by SU / SD / SL for ANY parameter *)
Theorem ticks_bound_scroll : forall t n, Inv09 t ->
  ticks (snd (su_c t n)) <= scr t * scr t /\ ticks (snd (sd_c t n)) <= scr t * scr t /\ ticks (snd (sl_c t n)) <= scr t * scr t.
Proof. exact ticks_bound_scroll_l. Qed.

(* the counters are attached to the model functions themselves *)
Theorem tick_version_same_state :
  (forall t, fst (scroll_up_t t) = scroll_up t) /\ (forall t, fst (scroll_down_t t) = scroll_down t) /\
  (forall t, fst (scroll_left_t t) = scroll_left t) /\ (forall t, fst (scroll_right_t t) = scroll_right t) /\
  (forall t ys xs c, fst (fill_cells_t t ys xs c) = fill_cells t ys xs c) /\
  (forall n row i c k, fst (erase_loop_t row i c n k) = erase_loop row i c n) /\
  (forall t x, fst (next_tab_t t x) = next_tab_stop t x) /\ (forall t x, fst (prev_tab_t t x) = prev_tab_stop t x) /\
  (forall n f w t, fst (iter_cost n f w t) = iter_tot n f t) /\ (forall n f w t, fst (iter_cost_res n f w t) = iter_res n f t) /\
  (forall s stt rr rep_rec rep_n rec k, fst (hex_macro_t s stt rr rep_rec rep_n rec k) = hex_macro s stt rr rep_rec rep_n rec) /\
  (forall n s ch k, fst (repeat_data_t n s ch k) = Sixel.repeat_data n s ch).
Proof.
  exact (conj scroll_up_t_fst (conj scroll_down_t_fst (conj scroll_left_t_fst (conj scroll_right_t_fst (conj fill_cells_t_fst (conj erase_loop_t_fst
        (conj next_tab_t_fst (conj prev_tab_t_fst (conj iter_cost_fst (conj iter_cost_res_fst (conj hex_macro_t_fst repeat_data_t_fst))))))))))).
Qed.
(* outside the arms changed by the fix: commits (and DL / REP, re-stated with counters) the outcome IS AnsiTok.csi_final *)
Theorem fixed_arms_only : forall t p is_start ch,
  existsb (Z.eqb ch) [83; 84; 64; 80; 76; 77; 89; 90; 107; 65; 98] = false -> fst (csi_final_c t p is_start ch) = csi_final t p is_start ch.
Proof. exact fixed_arms_only_l. Qed.
(* the same for the `CSI .. SP <final>` group: outside SL / SR the outcome IS the one of the character-level model (SP D, SP d, error) *)
Theorem sp_arms_only : forall inv t p ch, (ch =? 65) || (ch =? 64) = false -> st p = SEndCsi 32 ->
  fst (csi_sp_c t p ch) = astep_gen inv (mkA t p) ch.
Proof. exact sp_arms_only_l. Qed.

(* ---- the former known class REP (repaired: at most terminal width x height copies) ------------------------------------------------------ *)
(* after the fix the number of print_char calls is the parameter clamped to one screen *)
Theorem rep_clamped : forall t c n, (exists t', fst (rep_c t c n) = ROk t') -> iters (snd (rep_c t c n)) = Z.max 0 (Z.min n (rep_limit t)).
Proof. exact rep_clamped_l. Qed.
(* the code BEFORE the fix (`rep_c_before_fix`: one print_char per count): linear in the parameter *)
Theorem rep_linear_before_fix : forall t c n, (exists t', fst (rep_c_before_fix t c n) = ROk t') -> iters (snd (rep_c_before_fix t c n)) = Z.max 0 n.
Proof. exact rep_linear_before_fix_l. Qed.
(* `A CSI 1000 b` on a 2 x 1 screen (7 bytes): the old loop exceeded the bound of cost_bound; the repaired dispatcher prints 2 copies *)
Theorem rep_before_fix_refuted : Inv09 (init_term 2 1) /\ nlen (nums rep_witness_p) <= 7 /\
  4 * (7 + 1) * scr (init_term 2 1) < iters (snd (rep_c_before_fix (init_term 2 1) (print_cell (init_term 2 1) (last_char rep_witness_p)) (first_or (nums rep_witness_p) 1)))
  /\ iters (snd (csi_final_c (init_term 2 1) rep_witness_p false 98)) = 2.
Proof. exact rep_before_fix_refuted_l. Qed.
(* the former known class hex-macro repeat, the parser BEFORE the fix (hex_macro_t_before_fix: no size limit): `!3000;41;` = 9 bytes, more than 300 x length steps *)
Theorem hexmacro_before_fix_refuted : exists s, zlen s < 64 /\ 300 * zlen s < snd (hex_macro_t_before_fix s HFirst false [] 0 [] 0).
Proof. exact hexmacro_refuted_l. Qed.
(* the former known class macro recursion (repaired by 2513579, MAX_MACRO_NESTING): in the code BEFORE the nesting limit (macro_chars_nolimit,
   Model/Cost.v) a macro that invokes itself replays without end, whatever nesting depth is explored.  After the fix: macro_recursion_bounded below *)
Theorem macro_recursion_before_fix_refuted : forall fuel, macro_chars_nolimit fuel [(1, [27; 91; 49; 42; 122])] 1 = None.
Proof. exact macro_self_diverges. Qed.
(* the former known class sixel repeat: the loop of `!n` calls parse_sixel_data n times (true of the loop before and after the fix;
   after the fix the loop is entered with n <= MAX_SIXEL_DIMENSION only: sixel_ticks_bound_abs below) *)
Theorem sixel_repeat_linear : forall n s ch k, (exists s', fst (repeat_data_t n s ch k) = Sixel.Ok s') -> snd (repeat_data_t n s ch k) = k + Z.of_nat n.
Proof. exact sixel_repeat_linear_l. Qed.
(* the former known class sixel raster: BEFORE the fix 22 bytes asked for more than 1 GiB (raster_alloc = the request of the old ReadSize arm);
   after the fix such a header is the error InvalidPictureSize (sixel_raster_refused) *)
Theorem sixel_raster_before_fix_refuted : 2 ^ 30 < raster_alloc [99999; 99999] /\ 2 ^ 30 < raster_alloc [2147483647].
Proof. exact sixel_raster_refuted_l. Qed.
Theorem sixel_raster_refused : forall s v h rest, Sixel.nums s = v :: h :: rest -> existsb (fun n => Sixel.MAX_SIXEL_DIMENSION <? n) rest = true ->
  Sixel.finish_size s = Sixel.Err 3.
Proof. exact sixel_raster_refused_l. Qed.

(* ---- bounded without condition ------------------------------------------------------------------------------------------------------------ *)
Theorem avatar_repeat_bound : forall n, n <= 255 -> avatar_repeat_iters n <= 255.
Proof. exact avatar_repeat_bound_l. Qed.
Theorem glyph_iters_bound : forall h data, glyph_iters h data <= zlen data.
Proof. exact glyph_iters_bound_l. Qed.
Theorem window_ticks_bound : forall w, window_ticks w <= 133.
Proof. exact window_ticks_bound_l. Qed.

(* ==== Extension (notes/C03.md "Extension") ================================================================================================================ *)
(* ---- (a) allocation: threaded counters of Model/Alloc.v (rows + cells allocated, a row removed and re-inserted counts) ------------------------------------ *)
(* the counters are attached to the model functions, and for the operations that only write cells they ARE the growth of rows + cells *)
Theorem alloc_version_same_state :
  (forall t, fst (scroll_up_a t) = scroll_up t) /\ (forall t, fst (scroll_down_a t) = scroll_down t) /\
  (forall t, fst (scroll_left_a t) = scroll_left t) /\ (forall t, fst (scroll_right_a t) = scroll_right t) /\
  (forall t ys xs c, fst (fill_cells_a t ys xs c) = fill_cells t ys xs c) /\
  (forall w h ls x y c, lsize (lset w h ls x y c) = lsize ls + lset_a w h ls x y) /\
  (forall t, snd (scroll_up_a t) = lsize (lines (scroll_up t)) - lsize (lines t)) /\
  (forall t, snd (scroll_down_a t) = lsize (lines (scroll_down t)) - lsize (lines t)) /\
  (forall t ys xs c, snd (fill_cells_a t ys xs c) = lsize (lines (fill_cells t ys xs c)) - lsize (lines t)).
Proof.
  exact (conj scroll_up_a_fst (conj scroll_down_a_fst (conj scroll_left_a_fst (conj scroll_right_a_fst (conj fill_cells_a_fst
        (conj lset_exact (conj scroll_up_a_exact (conj scroll_down_a_exact fill_cells_a_exact)))))))).
Qed.
(* nothing is allocated uncounted: a successful call grows rows + cells by at most its counter *)
Theorem alloc_counts_growth :
  (forall t c t', print_char t c = ROk t' -> lsize (lines t') <= lsize (lines t) + print_char_a t c) /\
  (forall t t', caret_lf t = ROk t' -> lsize (lines t') <= lsize (lines t) + caret_lf_a t) /\
  (forall t c t', insert_terminal_line t c = ROk t' -> lsize (lines t') <= lsize (lines t) + insert_terminal_line_a t c) /\
  (forall t c t', remove_terminal_line t c = ROk t' -> lsize (lines t') <= lsize (lines t) + remove_terminal_line_a t c) /\
  (forall t, lsize (lines (caret_ins t)) <= lsize (lines t) + caret_ins_a t) /\
  (forall t n t', 0 <= cx t -> caret_erase t n = ROk t' -> lsize (lines t') <= lsize (lines t) + caret_erase_a t n).
Proof.
  exact (conj print_char_dom (conj caret_lf_dom (conj (fun t c t' H => proj1 (proj2 (insert_terminal_line_spec t c t' H)))
        (conj (fun t c t' H => proj1 (proj2 (remove_terminal_line_spec t c t' H))) (conj caret_ins_dom caret_erase_dom))))).
Qed.
(* for EVERY final byte (REP included) the state-difference counter `alloc` of csi_final_c is at most the threaded counter *)
Theorem alloc_dominates : forall t p is_start ch, 0 <= cx t -> alloc (snd (csi_final_c t p is_start ch)) <= csi_final_a t p is_start ch.
Proof. exact alloc_dom_l. Qed.
(* alloc_bound: rows + cells allocated by ANY CSI control function without intermediate, any parameters, any state of the C09 invariant;
   REP (final byte b) is the known class *)
Theorem alloc_bound : forall t p is_start ch n, Inv09 t -> 0 <= n -> nlen (nums p) <= n -> ch <> 98 ->
  0 <= csi_final_a t p is_start ch <= 8 * (n + 1) * scr t.
Proof. exact alloc_bound_l. Qed.
Theorem alloc_bound_state : forall t p is_start ch n, Inv09 t -> 0 <= n -> nlen (nums p) <= n -> ch <> 98 ->
  alloc (snd (csi_final_c t p is_start ch)) <= 8 * (n + 1) * scr t.
Proof. exact alloc_bound_state_l. Qed.
Theorem alloc_bound_sp : forall t p ch n, Inv09 t -> 0 <= n ->
  alloc (snd (csi_sp_c t p ch)) <= csi_sp_a t p ch /\ 0 <= csi_sp_a t p ch <= 8 * (n + 1) * scr t.
Proof. exact alloc_bound_sp_pair_l. Qed.
Theorem alloc_bound_dollar : forall t p ch n, Inv09 t -> 0 <= n ->
  alloc (snd (csi_dollar_c t p ch)) <= csi_dollar_a t p ch /\ 0 <= csi_dollar_a t p ch <= 8 * (n + 1) * scr t.
Proof. exact alloc_bound_dollar_pair_l. Qed.

(* ---- (b) weighted iteration total of every CSI control function; the clip of the rectangular-area operations ------------------------------------------- *)
Theorem ticks_bound : forall t p is_start ch n, Inv09 t -> 0 <= n -> nlen (nums p) <= n ->
  0 <= ticks (snd (csi_final_c t p is_start ch)) <= 8 * (n + 1) * (scr t * scr t).
Proof. exact ticks_bound_l. Qed.
Theorem ticks_bound_sp : forall t p ch, Inv09 t -> 0 <= ticks (snd (csi_sp_c t p ch)) <= scr t * scr t.
Proof. exact ticks_bound_sp_l. Qed.
(* get_rect_area clips to max(rows, text height) x text width: DECFRA / DECERA / DECSERA visit at most scrW * scrH cells *)
Theorem rect_clip : forall t a b c d, Inv09 t -> 0 <= rect_ticks t a b c d <= scrW t * scrH t.
Proof. exact rect_ticks_bound_l. Qed.
Theorem ticks_bound_dollar : forall t p ch, Inv09 t -> 0 <= ticks (snd (csi_dollar_c t p ch)) <= scr t.
Proof. exact ticks_bound_dollar_l. Qed.
(* DECRQCRA rejects a rectangle that is not inside the text area: at most tw * th cells are read *)
Theorem ticks_bound_rqcra : forall t p, Inv09 t -> 0 <= ticks (snd (rqcra_c t p)) <= scr t.
Proof. exact ticks_bound_rqcra_l. Qed.
(* the $ group and DECRQCRA of the cost dispatcher are the arms of the character-level model *)
Theorem dollar_arms_only : forall inv t p ch, st p = SEndCsi 36 -> fst (csi_dollar_c t p ch) = astep_gen inv (mkA t p) ch.
Proof. exact dollar_arms_only_l. Qed.
Theorem rqcra_arm_only : forall inv t p, st p = SEndCsi 42 -> fst (rqcra_c t p) = astep_gen inv (mkA t p) 121.
Proof. exact rqcra_arm_only_l. Qed.

(* ---- (c) hex-macro repeat groups and macro replay: conditional bounds ------------------------------------------------------------------------------------------------ *)
(* parse_hex_macro_sequence: characters read + characters appended, and the length of the macro, are at most (1 + largest repeat count) x length;
   hex_reps s HFirst false 0 is the largest repeat count of a group opened in s: the known class `hexmacro-repeat` is exactly a large value of it *)
(* AFTER THE FIX (MAX_MACRO_SIZE = 65536 characters, Parser::push_repeat_group): UNCONDITIONAL - whatever the repeat counts, the parser reads every character once,
   appends at most MAX_MACRO_SIZE characters in total (a group that would exceed the limit is refused before anything is appended) and the stored macro holds at most
   MAX_MACRO_SIZE characters; hex_macro_t IS the parser of the character-level model (tick_version_same_state) *)
Theorem hexmacro_bound : forall s,
  0 <= snd (hex_macro_t s HFirst false [] 0 [] 0) <= zlen s + MAX_MACRO_SIZE /\
  (forall mac, fst (hex_macro_t s HFirst false [] 0 [] 0) = Some mac -> zlen mac <= MAX_MACRO_SIZE).
Proof. exact hexmacro_bound_fix_l. Qed.
(* `!2147483647;41;` and `!65537;41;` are refused after reading the group (15 resp. 10 steps, nothing appended); `!3000;41;` still expands (3009 steps) *)
Theorem hexmacro_refused :
  hex_macro_t [33; 50; 49; 52; 55; 52; 56; 51; 54; 52; 55; 59; 52; 49; 59] HFirst false [] 0 [] 0 = (None, 15) /\
  hex_macro_t [33; 54; 53; 53; 51; 55; 59; 52; 49; 59] HFirst false [] 0 [] 0 = (None, 10) /\
  hex_macro_t [33; 51; 48; 48; 48; 59; 52; 49; 59] HFirst false [] 0 [] 0 = (Some (repeat_str 3000 [65]), 3009).
Proof. exact hexmacro_refused_l. Qed.
(* the parser BEFORE the fix (hex_macro_t_before_fix): the former conditional bounds, the former known class being a large value of hex_reps *)
Theorem hexmacro_bound_before_fix : forall s,
  snd (hex_macro_t_before_fix s HFirst false [] 0 [] 0) <= zlen s * (1 + hex_reps s HFirst false 0) /\
  (forall mac, fst (hex_macro_t_before_fix s HFirst false [] 0 [] 0) = Some mac -> zlen mac <= zlen s * (1 + hex_reps s HFirst false 0)).
Proof. exact hexmacro_bound_l. Qed.
Theorem hexmacro_bound_cond_before_fix : forall s B, ~ KnownC03_hexrep s B -> snd (hex_macro_t_before_fix s HFirst false [] 0 [] 0) <= zlen s * (1 + B).
Proof. exact hexmacro_bound_known_l. Qed.
Theorem hexmacro_linear_before_fix : forall s, hex_reps s HFirst false 0 = 0 -> snd (hex_macro_t_before_fix s HFirst false [] 0 [] 0) <= zlen s.
Proof. exact hexmacro_linear_l. Qed.
(* invoke_macro_by_id, EVERY macro table (recursive or not; the counter of the code bounds the nesting, fuel = MAX_MACRO_NESTING - counter):
   the characters replayed are at most B (1 + c + ... + c^(fuel-1)) for bodies of at most B characters holding at most c invocations each *)
Theorem macro_replay_bound : forall fuel ms id B c, 0 <= B -> 0 <= c -> macros_ok ms B c -> 0 <= fst (macro_chars fuel ms id) <= B * geom c fuel.
Proof. exact macro_replay_bound_l. Qed.
(* ... in particular for the limit of the code and the executable B and c of a table: no hypothesis at all *)
Theorem macro_replay_total : forall ms id,
  0 <= fst (macro_chars MAX_MACRO_NESTING ms id) <= macros_maxlen ms * geom (macros_maxinv ms) MAX_MACRO_NESTING.
Proof. exact (macro_replay_total_l MAX_MACRO_NESTING). Qed.
(* the former known class: a macro whose invocations are all of itself replays at most ONE body per nesting level (the first invocation inside the
   body reaches the limit and the error abandons the whole chain): limit x body length, whatever the number of invocations in the body *)
Theorem macro_recursion_bounded : forall body n, (forall i, In i (find_invokes body) -> i = 1) -> fst (macro_chars n [(1, body)] 1) <= Z.of_nat n * zlen body.
Proof. exact macro_self_bound_l. Qed.
(* the limit only cuts: what the code before the fix replayed to the end within [fuel] nesting levels is replayed exactly the same *)
Theorem macro_limit_conservative : forall fuel ms id n, macro_chars_nolimit fuel ms id = Some n -> macro_chars fuel ms id = (n, false).
Proof. exact macro_chars_conservative_l. Qed.
Theorem macro_invokes_half : forall body, 2 * zlen (find_invokes body) <= zlen body.
Proof. exact find_invokes_half. Qed.
Theorem macro_table_ok : forall ms, macros_ok ms (macros_maxlen ms) (macros_maxinv ms).
Proof. exact macros_max_ok. Qed.

(* ---- (d) the sixel decoder (Model/Sixel.v with the counters of Model/SixelCost.v) ---------------------------------------------------------------------------------------- *)
(* iterations (calls of parse_char + calls of parse_sixel_data by the repeat loop) <= payload length + executed repeat counts; the counted decoder IS the decoder *)
Theorem sixel_ticks_bound : forall hsl s cs,
  fst (SixelCost.parse_chars_t hsl s cs 0) = Sixel.parse_chars hsl s cs /\
  0 <= snd (SixelCost.parse_chars_t hsl s cs 0) <= SixelCost.zlenN cs + SixelCost.rep_sum hsl s cs.
Proof. exact (fun hsl s cs => conj (sixel_ticks_same_l hsl s cs) (sixel_ticks_bound_l hsl s cs)). Qed.
(* bytes held by picture_data after any stretch of decoding: at most (rows) x (longest row), rows <= max(rows before, 6 (y + T) + 6, declared height),
   longest row <= max(longest before, 4 (x + T), 4 x declared width), T = payload length + executed repeat counts.
   Raster attributes (decl_max) and repeat counts (rep_sum) are the only numbers of the payload in the bound: the known classes sixel-raster / sixel-repeat *)
Theorem sixel_alloc_bound : forall hsl s cs s', 0 <= Sixel.cur_x s -> 0 <= Sixel.cur_y s -> Sixel.parse_chars hsl s cs = Sixel.Ok s' ->
  SixelCost.sixel_bytes (Sixel.rows s') <=
  SixelCost.sixel_cap (Sixel.cur_x s) (Sixel.cur_y s) (Sixel.height (Sixel.rows s)) (SixelCost.mxl (Sixel.rows s))
                      (SixelCost.zlenN cs + SixelCost.rep_sum hsl s cs) (fst (SixelCost.decl_max hsl s cs)) (snd (SixelCost.decl_max hsl s cs)).
Proof. exact sixel_alloc_bound_l. Qed.
(* the image Sixel::parse_from returns (rows padded to the longest one): 4 * max(T, declared width) * max(6 T + 6, declared height) bytes at most *)
Theorem sixel_image_bound : forall hsl pal0 vs hs data w h d, Sixel.parse_from hsl pal0 vs hs data = Sixel.Ok (w, h, d) ->
  let cs := data ++ [35] in let s0 := Sixel.init_state pal0 vs hs in let T := SixelCost.zlenN cs + SixelCost.rep_sum hsl s0 cs in
  SixelCost.zlenN d <= Z.max (6 * T + 6) (snd (SixelCost.decl_max hsl s0 cs)) * (4 * Z.max T (fst (SixelCost.decl_max hsl s0 cs))).
Proof. exact sixel_image_bound_l. Qed.
(* AFTER THE FIX (MAX_SIXEL_DIMENSION = 4096): the same three bounds without any number of the payload - every repeat group runs at most
   MAX_SIXEL_DIMENSION times, picture_data never holds more than 4096 rows of 4 x 4096 bytes, the assembled image is at most 64 MiB *)
Theorem sixel_ticks_bound_abs : forall hsl s cs,
  0 <= snd (SixelCost.parse_chars_t hsl s cs 0) <= SixelCost.zlenN cs * (1 + Sixel.MAX_SIXEL_DIMENSION).
Proof. exact sixel_ticks_bound_abs_l. Qed.
Theorem sixel_alloc_bound_abs : forall hsl pal0 vs hs cs s', Sixel.parse_chars hsl (Sixel.init_state pal0 vs hs) cs = Sixel.Ok s' ->
  SixelCost.sixel_bytes (Sixel.rows s') <= 4 * Sixel.MAX_SIXEL_DIMENSION * Sixel.MAX_SIXEL_DIMENSION.
Proof. exact sixel_alloc_bound_abs_init_l. Qed.
Theorem sixel_image_bound_abs : forall hsl pal0 vs hs data w h d, Sixel.parse_from hsl pal0 vs hs data = Sixel.Ok (w, h, d) ->
  SixelCost.zlenN d <= 4 * Sixel.MAX_SIXEL_DIMENSION * Sixel.MAX_SIXEL_DIMENSION.
Proof. exact sixel_image_bound_abs_l. Qed.
Theorem sixel_limit_tied : Sixel.MAX_SIXEL_DIMENSION = SixelGen.MAX_SIXEL_DIMENSION_SRC /\ 4 * Sixel.MAX_SIXEL_DIMENSION * Sixel.MAX_SIXEL_DIMENSION = 2 ^ 26.
Proof. split; reflexivity. Qed.

(* ---- (e) binary loaders: the cell loops of the C05 / C02 loader models with the counters of Model/LoadCost.v ------------------------------------------------------------- *)
(* BIN, ADF, uncompressed XBin (pair_loop): cells stored = pairs read (<= half the bytes); the loaded layer holds at most max(what was there, pairs + width) cells *)
Theorem load_ticks_bound_pair : forall grow dec w L data, 1 <= w -> C05Buf.l_w L = w -> LoadCost.lmaxrow (C05Buf.l_lines L) <= w ->
  fst (LoadCost.pair_loop_t grow dec w L 0 0 data 0) = C05Bin.pair_loop grow dec w L 0 0 data /\
  2 * snd (LoadCost.pair_loop_t grow dec w L 0 0 data 0) <= Z.of_nat (length data) /\
  LoadCost.lcells (C05Buf.l_lines (C05Bin.pair_loop grow dec w L 0 0 data)) <= Z.max (w * LoadCost.lrows L) (Z.of_nat (length data) / 2 + w).
Proof. exact load_ticks_bound_pair_l. Qed.
(* compressed XBin (read_data_compressed): at most 1 + 64 cells per byte *)
Theorem load_ticks_bound_xbc : forall w m fixed L data,
  fst (LoadCost.xbc_loop_t w (C05XBin.xb_decode m fixed) (length data) L 0 0 data 0) = C02Loaders.xb_read_compressed w m fixed L data /\
  0 <= snd (LoadCost.xbc_loop_t w (C05XBin.xb_decode m fixed) (length data) L 0 0 data 0) <= 65 * Z.of_nat (length data).
Proof. exact load_ticks_bound_xbc_l. Qed.
(* Tundra: one command per byte at most; rows <= declared row (< 65535: the known class `C02-resource`) + commands + 1 *)
Theorem load_ticks_bound_tnd : forall fuel w L pal at0 data,
  let r := LoadCost.tnd_loop2_t fuel w L pal at0 0 0 data 0 0 in
  fst (fst r) = C02Loaders.tnd_loop2 fuel w L pal at0 0 0 data /\
  0 <= snd (fst r) <= Z.of_nat (length data) /\ 0 <= snd r <= 65534 /\
  (forall L' p', C02Loaders.tnd_loop2 fuel w L pal at0 0 0 data = C05Lib.Ok (L', p') -> LoadCost.lrows L' <= Z.max (LoadCost.lrows L) (snd r + snd (fst r) + 1)).
Proof. exact load_ticks_bound_tnd_l. Qed.
(* IDF: cells stored <= half the bytes + the run lengths declared by repeat records (the known class) *)
Theorem load_ticks_bound_idf : forall x1 x2 L bh x y area,
  fst (fst (LoadCost.idf_loop_t x1 x2 L bh x y area 0 0)) = C05Idf.idf_loop x1 x2 L bh x y area /\
  0 <= snd (fst (LoadCost.idf_loop_t x1 x2 L bh x y area 0 0)) /\
  2 * snd (fst (LoadCost.idf_loop_t x1 x2 L bh x y area 0 0)) <= Z.of_nat (length area) + 2 * snd (LoadCost.idf_loop_t x1 x2 L bh x y area 0 0).
Proof. exact load_ticks_bound_idf_l. Qed.

(* ---- non-vacuity: the ledger inputs through the model ---------------------------------------------------------------------------------------- *)
(* CSI 2147483647 S on 80x25: 12 parameter characters + 25 scrolls, not 2^31 *)
Example su_clamped : nth 1 (run_seq 80 25 [] [27; 91; 50; 49; 52; 55; 52; 56; 51; 54; 52; 55; 83]) 0 = 37.
Proof. vm_compute. reflexivity. Qed.
(* AAAA CR CSI 2147483647 @ : 12 + 80 insertions *)
Example ich_clamped : nth 1 (run_seq 80 25 [65; 65; 65; 65; 13] [27; 91; 50; 49; 52; 55; 52; 56; 51; 54; 52; 55; 64]) 0 = 92.
Proof. vm_compute. reflexivity. Qed.
(* CSI 2;5 r CSI 2147483647 A : 12 + 1 + 4 scrolls of the cursor-up loop *)
Example cuu_clamped : nth 1 (run_seq 80 25 [27; 91; 50; 59; 53; 114] [27; 91; 50; 49; 52; 55; 52; 56; 51; 54; 52; 55; 65]) 0 = 17.
Proof. vm_compute. reflexivity. Qed.
(* A CSI 3000 b on 80 x 25: 2000 print_char calls after the fix (3000 before) *)
Example rep_clamped_example : nth 1 (run_seq 80 25 [65] [27; 91; 51; 48; 48; 48; 98]) 0 = 2006.
Proof. vm_compute. reflexivity. Qed.
(* ESC P 1;0;1!z 1B5B312A7A ESC \ CSI 1*z : the character-level model ends in the error value MacroNestingTooDeep (class 1), nothing allocated;
   the abstraction counts 16 levels x 5 characters and reports the abandoned chain *)
Example macro_recursion_model :
  firstn 1 (run_seq 80 25 [] [27; 80; 49; 59; 48; 59; 49; 33; 122; 49; 66; 53; 66; 51; 49; 50; 65; 55; 65; 27; 92; 27; 91; 49; 42; 122]) = [1] /\
  macro_chars MAX_MACRO_NESTING [(1, [27; 91; 49; 42; 122])] 1 = (80, true).
Proof. vm_compute. split; reflexivity. Qed.
(* fan-out does not multiply: a body with four invocations of itself still replays one body per level (4^16 without the abandon) *)
Example macro_recursion_fanout :
  macro_chars MAX_MACRO_NESTING [(1, [27; 91; 49; 42; 122; 27; 91; 49; 42; 122; 27; 91; 49; 42; 122; 27; 91; 49; 42; 122])] 1 = (320, true).
Proof. vm_compute. reflexivity. Qed.
