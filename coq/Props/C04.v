(* C04 — ANSI files written by the engine parse back to the same picture.

   Model: Model/AnsiWriter.v (StringGenerator::get_color / generate_cells / generate, ColorOptimizer, Buffer::to_bytes)
          Model/AnsiParser.v (ansi::Parser on a non-terminal buffer, Ansi::load_buffer, parse_with_parser)
   Both are tied to the source on every run: tables and literals by translator/gen_ansi.py, the function bodies by
   stage C (bytes written, byte for byte; reloaded cells, cell for cell).

   Statements (all closed under the global context):
     sgr_sync_step    rendition refinement, one cell
     sgr_sync_seq     rendition refinement, any sequence of cells
     layout_roundtrip the ANSI writer proper, every option point
     ansi_roundtrip   Buffer::to_bytes("ans") -> Buffer::from_bytes, every option point (with the colour optimiser)
     sgr_sync_refuted_before_fix / known_bom_witness   the repaired defect and the known finding *)
From Coq Require Import NArith ZArith Bool List.
From IE Require Import Lib.Tbl Gen.Codepage Gen.AnsiConsts Model.Attr Model.AnsiWriter Model.AnsiParser
  Proofs.AnsiPalProofs Proofs.AnsiSgrProofs Proofs.AnsiBytesProofs Proofs.AnsiLayoutProofs Proofs.AnsiRowsProofs
  Proofs.AnsiOptProofs.
Import ListNotations.
Local Open Scope N_scope.

(* ------------------------------------------------------------------------------------------------------------
   (1) Rendition refinement.
   Rel cice w (abs a) pal : the writer's AnsiState w and the parser's caret attribute a / palette pal agree
   (same flags; the colours the caret shows are the colours the writer believes are set; palette = DOS ++ extras,
   duplicate free).  caret_shows = colours / blink of the cell the parser stores (Caret::get_attribute, bold folding);
   src_shows = colours / blink of the source cell. *)
Theorem sgr_sync_step :
  forall ice bpal ext a w pa ppal,
    pal_ok bpal -> pal_u8 bpal -> attr_ok ice a ->
    Rel (cice_of ice) w (abs pa) ppal ->
    let r := get_color ice bpal ext a w in
    let ap' := apply_tc (snd r) (apply_sgr (snd (fst r)) (pa, ppal)) in
    Rel (cice_of ice) (fst (fst r)) (abs (fst ap')) (snd ap') /\
    caret_shows (cice_of ice) (snd ap') (fst ap') = src_shows bpal a /\
    pal_extends ppal (snd ap') /\
    st_bg (fst (fst r)) = pal_rgb bpal (background_color a) /\
    (st_blink (fst (fst r)) = false -> is_blinking a = false).
Proof. exact AnsiSgrProofs.sgr_sync_step. Qed.

Theorem sgr_sync_seq :
  forall ice bpal ext attrs,
    pal_ok bpal -> pal_u8 bpal -> Forall (attr_ok ice) attrs ->
    forall w ap, Rel (cice_of ice) w (abs (fst ap)) (snd ap) ->
    let res := run_attrs ice bpal ext attrs w ap in
    snd res = map (src_shows bpal) attrs /\
    Rel (cice_of ice) (fst (fst res)) (abs (fst (snd (fst res)))) (snd (snd (fst res))) /\
    pal_extends (snd ap) (snd (snd (fst res))).
Proof. exact AnsiSgrProofs.sgr_sync_seq. Qed.

(* from the states both sides start in *)
Theorem sgr_sync_from_start :
  forall ice bpal ext attrs,
    pal_ok bpal -> pal_u8 bpal -> Forall (attr_ok ice) attrs ->
    snd (run_attrs ice bpal ext attrs init_state (default_attribute, DOS_DEFAULT_PALETTE)) = map (src_shows bpal) attrs.
Proof. exact AnsiSgrProofs.sgr_sync_from_start. Qed.

(* get_color before the first `fix:` commit (SGR 8 recorded as blink, reset did not clear it): refuted *)
Theorem sgr_sync_refuted_before_fix :
  exists attrs, Forall (attr_ok Blink) attrs /\
    snd (run_attrs_old Blink DOS_DEFAULT_PALETTE true attrs init_state (default_attribute, DOS_DEFAULT_PALETTE))
    <> map (src_shows DOS_DEFAULT_PALETTE) attrs.
Proof. exact AnsiSgrProofs.sgr_sync_refuted_before_fix. Qed.

(* ------------------------------------------------------------------------------------------------------------
   (2) Layout and the end-to-end round trip.
   The domain of the property for one option point:
     - bpal: index 0 black, a dark DOS colour among 0..7 only at its own index, every component a u8
     - width W (80 unless the SAUCE record carries it, then at most 1000: the loader replaces larger widths by 80)
     - every row has W cells; every cell's character is encodable in the chosen control-character mode (char_ok) and,
       in ice mode, its blink flag is clear (attr_ok)
   Known finding: a file that starts with the bytes EF BB BF is decoded as UTF-8 by the loader (KnownC04_bom). *)
Definition domain (o : SaveOptions) (ice : IceMode) (bpal : palette) (W H : N) (rows : list (list cell)) : Prop :=
  pal_ok bpal /\ pal_u8 bpal /\ 0 < W /\ W < 1073741824 /\ 0 < H /\ H < 1073741824 /\
  Forall (row_ok o ice W) rows /\ N.of_nat (length rows) = H /\ (if o_sauce o then W <= 1000 else W = 80).

Definition KnownC04_bom (o : SaveOptions) (ice : IceMode) (bpal : palette) (W H : N) (rows : list (list cell)) : Prop :=
  starts_with_bom (sv_bytes (save o ice bpal W H rows)) = true.

(* the ANSI writer itself (what Ansi::to_bytes is handed), every option point *)
Theorem layout_roundtrip :
  forall o ice bpal W H rows, domain o ice bpal W H rows ->
    let bytes := ansi_to_bytes o ice bpal W H rows in
    starts_with_bom bytes = false ->
    let b := load bytes (sauce_of o ice W H) in
    ld_unmodelled b = false /\ ld_width b = Z.of_N W /\ ld_height b = Z.of_N H /\ ld_ice b = cice_of ice /\
    forall x y row s, nth_error rows y = Some row -> nth_error row x = Some s ->
      cell_match bpal s (shown_cell (ld_pal b) (loaded_cell b (Z.of_nat x) (Z.of_nat y))).
Proof.
  intros o ice bpal W H rows (PO & PU & W0 & WB & H0 & HB & R & L & WS).
  exact (AnsiRowsProofs.layout_roundtrip o ice bpal W H PO PU W0 WB H0 HB rows R L WS).
Qed.

(* Buffer::to_bytes("ans", o) followed by Buffer::from_bytes: same size, and every cell shows the same character
   (blank glyphs 0 / 32 / 255 count as one), the same displayed foreground (unless the glyph is blank), the same
   background (unless the glyph is the full block 219 and the optimiser ran) and the same blink state *)
Theorem ansi_roundtrip :
  forall o ice bpal W H rows, domain o ice bpal W H rows -> ~ KnownC04_bom o ice bpal W H rows ->
    let sv := save o ice bpal W H rows in
    let b := load (sv_bytes sv) (sv_sauce sv) in
    ld_unmodelled b = false /\ ld_width b = Z.of_N W /\ ld_height b = Z.of_N H /\ ld_ice b = cice_of ice /\
    forall x y row s, nth_error rows y = Some row -> nth_error row x = Some s ->
      cell_match_opt o bpal s (shown_cell (ld_pal b) (loaded_cell b (Z.of_nat x) (Z.of_nat y))).
Proof.
  intros o ice bpal W H rows (PO & PU & W0 & WB & H0 & HB & R & L & WS) NK.
  apply (AnsiOptProofs.ansi_roundtrip o ice bpal W H PO PU W0 WB H0 HB rows R L WS).
  unfold KnownC04_bom in NK. destruct (starts_with_bom _); [exfalso; apply NK; reflexivity|reflexivity].
Qed.

(* the decimal numbers of the escape sequences are read back exactly *)
Theorem numbers_read_back :
  forall n, n < 1073741824 -> fold_left parse_next_number (dec n) 0%Z = Z.of_N n.
Proof. intros n H. exact (proj1 (AnsiBytesProofs.parse_dec n H)). Qed.

(* trimming removes only blank cells on background index 0 that do not blink *)
Theorem trimmed_cells_are_blank :
  forall o W row, 0 < W -> length row = N.to_nat W ->
    forall k s, (N.to_nat (row_len o W row) <= k)%nat -> nth_error row k = Some s ->
      is_blank_char (fst s) = true /\ background_color (snd s) = 0 /\ is_blinking (snd s) = false.
Proof. intros o W row W0 L. exact (proj2 (proj2 (proj2 (AnsiRowsProofs.row_len_spec o W row W0 L)))). Qed.

(* ------------------------------------------------------------------------------------------------------------
   Witnesses and non-vacuity. *)
Definition plain (ch : N) : cell := (ch, mkAttr 0 7 0 0).
Definition pad (l : list cell) : list cell := l ++ repeat (plain 32) (80 - length l).

(* the known finding: the cells 0xEF 0xBB 0xBF at the start of the picture make the file start with a UTF-8 BOM *)
Definition bom_rows : list (list cell) := [pad [plain 239; plain 187; plain 191; plain 65]].

Lemma domain_row (o : SaveOptions) (ice : IceMode) (row : list cell) :
  length row = 80%nat ->
  forallb (fun s => negb (is_control_char (fst s)) && negb (is_blinking (snd s))) row = true ->
  row_ok o ice 80 row.
Proof.
  intros L F. split; [exact L|]. apply Forall_forall. intros s Hs.
  rewrite forallb_forall in F. specialize (F s Hs). apply andb_prop in F as [F1 F2].
  apply negb_true_iff in F1, F2. split.
  - intro C. congruence.
  - intros _. exact F2.
Qed.

Lemma dos_pal_ok : pal_ok DOS_DEFAULT_PALETTE.
Proof.
  split; [reflexivity|]. intros i d Hi Hd E.
  apply (dos_rgb_inj i d); [apply N.lt_trans with 8; [exact Hi|reflexivity]|apply N.lt_trans with 8; [exact Hd|reflexivity]|exact E].
Qed.
Lemma dos_pal_u8 : pal_u8 DOS_DEFAULT_PALETTE.
Proof. repeat constructor. Qed.

Theorem known_bom_witness :
  domain default_options Blink DOS_DEFAULT_PALETTE 80 1 bom_rows /\
  KnownC04_bom default_options Blink DOS_DEFAULT_PALETTE 80 1 bom_rows /\
  sv_bytes (save default_options Blink DOS_DEFAULT_PALETTE 80 1 bom_rows) = [239; 187; 191; 65].
Proof.
  split; [|split; vm_compute; reflexivity].
  split; [exact dos_pal_ok|]. split; [exact dos_pal_u8|].
  repeat (split; [reflexivity|]). split; [|split; reflexivity].
  constructor; [|constructor]. apply domain_row; vm_compute; reflexivity.
Qed.

(* non-vacuity: a two-row picture with bold, blink, bright backgrounds in ice mode, a run of blanks and a trimmed tail
   is in the domain, is not a known finding, and the model writes exactly these bytes for it under the default options *)
Definition demo_rows : list (list cell) :=
  [pad ([(65, mkAttr 0 12 1 0); (66, mkAttr 0 12 1 0)] ++ repeat (plain 32) 7 ++ [(219, mkAttr 0 2 9 ATTR_BOLD)]);
   pad [(67, mkAttr 0 7 0 ATTR_UNDERLINE)]].

Example demo_in_domain : domain default_options Ice DOS_DEFAULT_PALETTE 80 2 demo_rows /\
  ~ KnownC04_bom default_options Ice DOS_DEFAULT_PALETTE 80 2 demo_rows.
Proof.
  split.
  - split; [exact dos_pal_ok|]. split; [exact dos_pal_u8|]. repeat (split; [reflexivity|]). split; [|split; reflexivity].
    constructor; [|constructor; [|constructor]]; apply domain_row; vm_compute; reflexivity.
  - unfold KnownC04_bom. vm_compute. discriminate.
Qed.

Example demo_bytes :
  sv_bytes (save default_options Ice DOS_DEFAULT_PALETTE 80 2 demo_rows) =
  (* ESC[?33h ESC[1;31;44m A B ESC[40m ESC[7C ESC[32m 0xDB CR LF ESC[0;4m C ESC[?33l *)
  [27;91;63;51;51;104; 27;91;49;59;51;49;59;52;52;109; 65; 66; 27;91;52;48;109; 27;91;55;67; 27;91;51;50;109; 219;
   13; 10; 27;91;48;59;52;109; 67; 27;91;63;51;51;108].
Proof. vm_compute. reflexivity. Qed.

Example demo_roundtrip :
  let sv := save default_options Ice DOS_DEFAULT_PALETTE 80 2 demo_rows in
  let b := load (sv_bytes sv) (sv_sauce sv) in
  (ld_width b, ld_height b, ld_ice b) = (80%Z, 2%Z, true) /\
  map (fun x => shown_cell (ld_pal b) (loaded_cell b x 0%Z)) [0%Z; 1%Z; 5%Z; 9%Z] =
  [(65, (255, 85, 85), (0, 0, 170), false); (66, (255, 85, 85), (0, 0, 170), false);
   (32, (170, 170, 170), (0, 0, 0), false); (219, (85, 255, 85), (0, 0, 0), false)].
Proof. vm_compute. split; reflexivity. Qed.
