(* placeholder while the proofs are being built *)
From IE Require Import Model.AnsiWriter Model.AnsiParser.
