(* C14 — sixel images are complete rectangles and appear in arrival order.
   Statements only; proofs in Proofs/SixelProofs.v and Proofs/SixelQueueProofs.v. *)
From Coq Require Import ZArith NArith List Bool Sorted.
From IE Require Import Gen.SixelGen Model.Sixel Model.SixelQueue Proofs.SixelProofs Proofs.SixelQueueProofs.
Import ListNotations.
Local Open Scope Z_scope.

(* (a) every successfully decoded image holds exactly width*height*4 bytes — for every payload (any code
   points, any length), every initial palette and every behaviour [hsl] of the float HSL conversion *)
Theorem sixel_rect : forall (hsl : Z -> Z -> Z -> rgb) pal0 vs hs (data : list Z) w h d,
  parse_from hsl pal0 vs hs data = Ok (w, h, d) -> Z.of_nat (length d) = 4 * w * h.
Proof. exact sixel_rect_proof. Qed.

(* after the fix (MAX_SIXEL_DIMENSION = 4096, the constant of src/sixel_mod.rs): no decoded image is wider or taller than the limit, whatever
   raster header, repeat counts or cursor movements the payload holds - a payload that would exceed it is an error (InvalidPictureSize) *)
Theorem sixel_dims_bounded : forall (hsl : Z -> Z -> Z -> rgb) pal0 vs hs (data : list Z) w h d,
  parse_from hsl pal0 vs hs data = Ok (w, h, d) -> 0 <= w <= MAX_SIXEL_DIMENSION /\ 0 <= h <= MAX_SIXEL_DIMENSION.
Proof. exact sixel_dims_bounded_proof. Qed.
(* the limit of the model is the constant of the source (Gen/SixelGen.v is regenerated from src/sixel_mod.rs every run) *)
Theorem max_dim_tied : MAX_SIXEL_DIMENSION = MAX_SIXEL_DIMENSION_SRC.
Proof. reflexivity. Qed.

(* a raster header with >= 3 numbers (each <= MAX_SIXEL_DIMENSION: a larger one is not `Ok`) fixes the height ... *)
Theorem raster_declares_height : forall s s', finish_size s = Ok s' -> (3 <= length (nums s))%nat ->
  hset s' = true /\ st s' = Read /\ height (rows s') = Z.max 0 (last (nums s) 0).
Proof. exact finish_size_declares. Qed.

(* ... and it is kept whatever data follows (no further raster header): smaller, equal or larger data *)
Theorem declared_height_kept : forall hsl s payload s1 s2,
  hset s = true -> st s <> ReadSize -> ~ In 34 payload ->
  parse_chars hsl s payload = Ok s1 -> parse_char hsl s1 35 = Ok s2 ->
  snd (fst (assemble (rows s2))) = height (rows s).
Proof. exact declared_height_kept_proof. Qed.

(* (b) the decode queue, for EVERY sequence of arrivals, completions (in any order) and polls *)
Theorem poll_never_blocks : forall outcome_of evs, fst (poll (run outcome_of evs)) <> PBlocked.
Proof. exact poll_never_blocks_proof. Qed.

(* handles are popped in arrival order; popped ++ still queued = all arrivals: none lost, none twice *)
Theorem arrival_order : forall outcome_of evs,
  map fst (popped (run outcome_of evs)) ++ map fst (queue (run outcome_of evs)) = seq 0 (next (run outcome_of evs)).
Proof. exact arrival_order_proof. Qed.

Theorem never_twice : forall outcome_of evs,
  NoDup (map fst (popped (run outcome_of evs)) ++ map fst (queue (run outcome_of evs))).
Proof. exact never_twice_proof. Qed.

Theorem screen_in_arrival_order : forall outcome_of evs, StronglySorted lt (map fst (screen (run outcome_of evs))).
Proof. exact screen_in_arrival_order_proof. Qed.

(* the screen is always what delivering the popped decodes in arrival order gives *)
Theorem screen_is_spec : forall outcome_of evs,
  screen (run outcome_of evs) = fold_left spec_step (popped (run outcome_of evs)) [].
Proof. exact screen_is_spec_proof. Qed.

(* once every decode has finished, at most |queue| polls deliver everything exactly once, in arrival order *)
Theorem complete_spec : forall outcome_of evs,
  let s := run outcome_of evs in
  all_done (queue s) ->
  let s' := drain (length (queue s)) s in
  queue s' = [] /\ popped s' = map (fun id => (id, outcome_of id)) (seq 0 (next s)) /\
  screen s' = spec_screen outcome_of (next s).
Proof. exact complete_spec_proof. Qed.

(* the final screen does not depend on completion order or poll placement *)
Theorem schedule_independent : forall outcome_of evs1 evs2,
  let s1 := run outcome_of evs1 in let s2 := run outcome_of evs2 in
  next s1 = next s2 -> all_done (queue s1) -> all_done (queue s2) ->
  screen (drain (length (queue s1)) s1) = screen (drain (length (queue s2)) s2).
Proof. exact schedule_independent_proof. Qed.

(* a newly delivered image removes exactly the older images it covers *)
Theorem deliver_shadow : forall id r scr e,
  In e (deliver id r scr) -> e = (id, r) \/ (In e scr /\ contains_rect r (snd e) = false).
Proof. exact deliver_shadow_proof. Qed.

(* ---- non-vacuity ---- *)
Definition hsl0 (_ _ _ : Z) : rgb := (0, 0, 0)%N.
(* payload  ~-~~  (rows of unequal length: the witness of the defect repaired by the fix: commit) *)
Example ragged_is_rect :
  match parse_from hsl0 DOS_DEFAULT_PALETTE 1 1 [126; 45; 126; 126] with
  | Ok (w, h, d) => w = 2 /\ h = 12 /\ length d = 96%nat | _ => False end.
Proof. vm_compute. repeat split. Qed.
(* raster header 1;1;3;7 then data taller and wider than declared: height stays 7 *)
Example raster_example :
  match parse_from hsl0 DOS_DEFAULT_PALETTE 1 1 [34; 49; 59; 49; 59; 51; 59; 55; 126; 126; 126; 126; 45; 126; 45; 126] with
  | Ok (w, h, d) => w = 4 /\ h = 7 /\ length d = 112%nat | _ => False end.
Proof. vm_compute. repeat split. Qed.
(* the limit: a raster header, a repeat count and a cursor position beyond it are errors (class 3 = InvalidPictureSize), at the limit they decode *)
Example limit_examples :
  parse_from hsl0 DOS_DEFAULT_PALETTE 1 1 [34; 49; 59; 49; 59; 52; 48; 57; 55; 59; 49; 126] = Err 3 /\         (* raster 1;1;4097;1 *)
  parse_from hsl0 DOS_DEFAULT_PALETTE 1 1 [34; 49; 59; 49; 59; 49; 59; 52; 48; 57; 55; 126] = Err 3 /\         (* raster 1;1;1;4097 *)
  parse_from hsl0 DOS_DEFAULT_PALETTE 1 1 [33; 52; 48; 57; 55; 126] = Err 3 /\                                  (* !4097~ *)
  parse_from hsl0 DOS_DEFAULT_PALETTE 1 1 [33; 52; 48; 57; 54; 126; 126] = Err 3 /\                             (* !4096~~ : pixel column 4096 *)
  match parse_from hsl0 DOS_DEFAULT_PALETTE 1 1 [33; 52; 48; 57; 54; 63] with Ok (w, h, d) => w = 0 /\ h = 6 | _ => False end /\   (* !4096? : nothing drawn *)
  match parse_from hsl0 DOS_DEFAULT_PALETTE 1 1 [34; 49; 59; 49; 59; 50; 59; 52; 48; 57; 54; 126] with Ok (w, h, d) => w = 2 /\ h = 4096 | _ => False end.
Proof. vm_compute. repeat split. Qed.
(* a schedule with three images finishing in reverse order, polls in between *)
Definition oc3 (id : nat) : outcome := match id with O => OOk (0, 0, 8, 8) | 1%nat => OErr | _ => OOk (0, 0, 16, 16) end.
Example schedule_example :
  let s := run oc3 [Arrive; Arrive; Arrive; Finish 2; Poll; Finish 1; Poll; Finish 0; Poll] in
  all_done (queue s) /\ map fst (screen (drain (length (queue s)) s)) = [2%nat].
Proof. vm_compute. split; [repeat constructor|reflexivity]. Qed.
