(* C13 — layer compositing obeys the stacking laws.
   Only statements, each closed by `exact <lemma>`; proofs live in Proofs/CompositeProofs.v.
   `get_char` is Model/Composite.v's transcription of `impl TextPane for Buffer :: get_char`
   (None = the dev-profile overflow panic of `pos - offset`); layers are listed bottom first, as in
   `Buffer::layers`, so in `lo ++ L :: hi` the layers `hi` are above L and `lo` below it.

   Vocabulary (defined in Proofs/CompositeProofs.v):
     rel_pos L px py      = Some (qx,qy): the layer-relative position, when `pos - get_offset()` does not overflow
     inside L qx qy       the bounds test of the loop (0 <= q < size)
     misses / covers      rel_pos is defined and inside is false / true
     cell_invisible_at    rel_pos is defined and Layer::get_char there is not is_visible()
     opaque_normal L      visible, no alpha channel, Mode::Normal
     empty_layer E        every Layer::get_char of E is invisible
     no_overflow L px py  rel_pos L px py <> None
     res_upto_fp          equal results except possibly for the font page
     status_of / is_visit the layer is visible and covers the position (visited px py L, as a boolean)
     contribs px py ls    the visited layers of ls, in order, each paired with the cell it holds at the position
     facet_of (L, c)      (mode, alpha flag, default font page, c)                                      *)
From Coq Require Import NArith ZArith List Bool.
From IE Require Import Gen.Comp Model.Composite Proofs.CompositeProofs.
Import ListNotations.

(* ---- hidden layers never influence the result: replace by any hidden layer, edit, or remove ---- *)
Theorem hidden_irrelevant : forall B lo hi L L' px py,
  l_visible L = false -> l_visible L' = false ->
  get_char (with_layers B (lo ++ L :: hi)) px py = get_char (with_layers B (lo ++ L' :: hi)) px py /\
  get_char (with_layers B (lo ++ L :: hi)) px py = get_char (with_layers B (lo ++ hi)) px py.
Proof. exact hidden_irrelevant_proof. Qed.

Theorem edit_hidden_layer : forall B lo hi L lines' px py,
  l_visible L = false ->
  get_char (with_layers B (lo ++ set_lines L lines' :: hi)) px py = get_char (with_layers B (lo ++ L :: hi)) px py.
Proof. exact edit_hidden_layer_proof. Qed.

(* ---- a layer whose rectangle does not contain the position does not influence it ---- *)
Theorem noncovering_irrelevant : forall B lo hi L px py,
  misses L px py ->
  get_char (with_layers B (lo ++ L :: hi)) px py = get_char (with_layers B (lo ++ hi)) px py.
Proof. exact noncovering_irrelevant_proof. Qed.

(* ---- invisible cells of alpha layers (Normal with alpha channel; Chars and Attributes layers in any case).
   The only trace such a cell leaves is `default_font_page`, which the fall-through cell takes from the lowest
   visited layer.  Exact when the layer and everything above it has default_font_page 0 (what Layer::new gives),
   exact when some visible layer below covers the position, and up to the font page in general. ---- *)
Theorem alpha_invisible_cell_irrelevant : forall B lo hi L px py,
  cell_invisible_at L px py -> (l_mode L = MNormal -> l_alpha L = true) ->
  Forall (fun l => l_dfp l = 0%N) (L :: hi) ->
  get_char (with_layers B (lo ++ L :: hi)) px py = get_char (with_layers B (lo ++ hi)) px py.
Proof. exact alpha_invisible_exact_proof. Qed.

Theorem alpha_invisible_cell_irrelevant_covered_below : forall B lo hi L px py,
  cell_invisible_at L px py -> (l_mode L = MNormal -> l_alpha L = true) ->
  existsb (fun l => is_visit (status_of l px py)) lo = true ->
  get_char (with_layers B (lo ++ L :: hi)) px py = get_char (with_layers B (lo ++ hi)) px py.
Proof. exact alpha_invisible_covered_below_proof. Qed.

Theorem alpha_invisible_cell_upto_font_page : forall B lo hi L px py,
  cell_invisible_at L px py -> (l_mode L = MNormal -> l_alpha L = true) ->
  res_upto_fp (get_char (with_layers B (lo ++ L :: hi)) px py) (get_char (with_layers B (lo ++ hi)) px py).
Proof. exact alpha_invisible_upto_fp_proof. Qed.

(* ---- an opaque visible Normal layer hides everything beneath it inside its rectangle ---- *)
Theorem opaque_hides : forall B lo lo' hi L px py,
  opaque_normal L -> covers L px py ->
  get_char (with_layers B (lo ++ L :: hi)) px py = get_char (with_layers B (lo' ++ L :: hi)) px py.
Proof. exact opaque_hides_proof. Qed.

(* ---- moving a layer by d moves its contribution by exactly d; translating the whole stack translates
   the picture (panics included: the subtraction sees the same difference) ---- *)
Theorem layer_contribution_translates : forall fonts d L px py s,
  step fonts (shift_layer d L) (px + fst d) (py + snd d) s = step fonts L px py s.
Proof. exact step_shift. Qed.

Theorem translate : forall B d px py,
  get_char (shift_buffer d B) (px + fst d) (py + snd d) = get_char B px py.
Proof. exact translate_proof. Qed.

(* ---- inserting an empty alpha layer anywhere ---- *)
Theorem insert_empty_alpha : forall B lo hi E px py,
  empty_layer E -> (l_mode E = MNormal -> l_alpha E = true) -> no_overflow E px py ->
  Forall (fun l => l_dfp l = 0%N) (E :: hi) ->
  get_char (with_layers B (lo ++ E :: hi)) px py = get_char (with_layers B (lo ++ hi)) px py.
Proof. exact insert_empty_alpha_proof. Qed.

Theorem insert_empty_alpha_upto_font_page : forall B lo hi E px py,
  empty_layer E -> (l_mode E = MNormal -> l_alpha E = true) -> no_overflow E px py ->
  res_upto_fp (get_char (with_layers B (lo ++ E :: hi)) px py) (get_char (with_layers B (lo ++ hi)) px py).
Proof. exact insert_empty_alpha_upto_fp_proof. Qed.

(* layers whose stored cells are all invisible (Layer::new: rows of AttributedChar::invisible()) are empty *)
Theorem all_invisible_is_empty : forall E,
  Forall (Forall (fun c => is_visible c = false)) (l_lines E) -> empty_layer E.
Proof. exact empty_layer_all_invisible. Qed.

(* ---- the cell shown is determined only by the visible layers covering the position, topmost first, and of
   those only by mode, alpha flag, default font page and the cell they hold at the position ---- *)
Theorem determined_by_covering_visible_layers : forall B ls px py,
  Forall (fun L => no_overflow L px py) ls ->
  get_char (with_layers B ls) px py = get_char (with_layers B (filter (visited px py) ls)) px py.
Proof. exact determined_by_visited_proof. Qed.

Theorem determined_by_contributions : forall B ls ls' px py,
  Forall (fun L => no_overflow L px py) ls -> Forall (fun L => no_overflow L px py) ls' ->
  map facet_of (contribs px py (rev ls)) = map facet_of (contribs px py (rev ls')) ->
  get_char (with_layers B ls) px py = get_char (with_layers B ls') px py.
Proof. exact determined_by_contributions_proof. Qed.

(* ---- what get_char computes when no transparent colour is involved: the first visible covering Normal
   layer from the top whose cell is visible or which is opaque decides; the lowest Chars / Attributes layers
   above it override character / attribute; otherwise the default or invisible cell (get_char_spec) ---- *)
Theorem get_char_spec_refines : forall B px py,
  Forall (fun L => no_overflow L px py) (b_layers B) ->
  Forall (fun x => has_transparent_colour (snd x) = false) (contribs px py (rev (b_layers B))) ->
  get_char B px py = Some (get_char_spec B px py).
Proof. exact get_char_spec_proof. Qed.

Theorem get_char_spec_plain : forall B px py,
  Forall (fun L => no_overflow L px py) (b_layers B) ->
  Forall layer_no_transp (b_layers B) ->
  get_char B px py = Some (get_char_spec B px py).
Proof. exact get_char_spec_plain_proof. Qed.

(* ---- the only panic of the loop is the checked subtraction; it cannot happen for coordinates below 2^30 ---- *)
Theorem get_char_never_panics_in_range : forall B px py,
  Forall (fun L => no_overflow L px py) (b_layers B) -> get_char B px py <> None.
Proof. exact get_char_no_panic_proof. Qed.

Theorem small_coordinates_do_not_overflow : forall L px py,
  small px -> small py -> small (fst (get_offset L)) -> small (snd (get_offset L)) -> no_overflow L px py.
Proof. exact small_no_overflow. Qed.

(* ============================== non-vacuity and counterexamples ============================== *)
Definition C (ch fg bg fl fp : N) : cell := mkCell ch (mkAttr fg bg fl fp).
Definition inv : cell := invisible_cell.
Definition no_fonts : N -> option font := fun _ => None.
(* an 8x4 font with a full block (219), an upper half block (223), a lower half block (220) and a blank (32) *)
Definition demo_fonts : N -> option font := fun page =>
  if N.eqb page 0 then Some (mkFont 8 4 (fun ch =>
    if N.eqb ch 219 then Some [255; 255; 255; 255]%N else if N.eqb ch 223 then Some [255; 255; 0; 0]%N
    else if N.eqb ch 220 then Some [0; 0; 255; 255]%N else if N.eqb ch 32 then Some [0; 0; 0; 0]%N else None))
  else None.
Definition L (vis alpha : bool) (m : lmode) (ox oy w h : Z) (dfp : N) (lines : list (list cell)) : layer :=
  mkLayer vis alpha m (ox, oy) None w h dfp lines.

(* a three-layer stack: opaque base, hidden layer with content, alpha layer with one visible cell *)
Definition base  := L true false MNormal 0 0 3 2 0 [[C 65 7 1 0 0; C 66 7 1 0 0; inv]; [C 67 7 1 0 0]].
Definition hid   := L false true MNormal 0 0 3 2 0 [[C 88 4 4 0 0; C 88 4 4 0 0; C 88 4 4 0 0]].
Definition hid'  := L false false MChars 1 1 5 5 2 [[C 89 1 1 0 0]].
Definition top   := L true true MNormal 1 0 2 2 0 [[C 97 14 0 0 0; inv]; [inv; inv]].
Definition B3 := mkBuffer false demo_fonts [base; hid; top].

Example sample_picture :
  map (fun x => get_char B3 x 0%Z) [0; 1; 2; 3]%Z =
  [Some (C 65 7 1 0 0); Some (C 97 14 0 0 0); Some default_cell; Some invisible_cell].
Proof. vm_compute. reflexivity. Qed.

Example hidden_instance :
  get_char (with_layers B3 ([base] ++ hid :: [top])) 1 0 = get_char (with_layers B3 ([base] ++ hid' :: [top])) 1 0 /\
  get_char (with_layers B3 ([base] ++ hid :: [top])) 1 0 = Some (C 97 14 0 0 0).
Proof. vm_compute. split; reflexivity. Qed.

Example noncovering_instance : misses top 0 0 /\ covers top 1 0 /\ cell_invisible_at top 2 0 /\ opaque_normal base /\ covers base 2 0.
Proof.
  unfold misses, covers, cell_invisible_at, opaque_normal.
  repeat split; try (eexists; eexists; split; vm_compute; reflexivity).
Qed.

(* transparent-colour half block merged with what lies beneath: upper half (223) in colour 12 over transparent,
   above a full block in colour 9 -> background becomes 9; above a lower half block 9-on-2 -> background 9 *)
Definition tb_top := L true true MNormal 0 0 2 1 0 [[C 223 12 TRANSPARENT_COLOR 0 0; C 223 12 TRANSPARENT_COLOR 0 0]].
Definition tb_bot := L true false MNormal 0 0 2 1 0 [[C 219 9 2 0 0; C 223 9 2 0 0]].
Example half_block_merge :
  get_char (mkBuffer false demo_fonts [tb_bot; tb_top]) 0 0 = Some (C 223 12 9 0 0) /\
  get_char (mkBuffer false demo_fonts [tb_bot; tb_top]) 1 0 = Some (C 223 12 2 0 0).
Proof. vm_compute. split; reflexivity. Qed.

(* the default_font_page hypothesis of alpha_invisible_cell_irrelevant / insert_empty_alpha is needed:
   a plain buffer, a Chars layer showing 'A' on top, and an empty alpha layer whose default_font_page is 3 beneath:
   the visible result 'A' has font page 3 with the empty layer and 0 without it. *)
Definition chars_A := L true true MChars 0 0 1 1 0 [[C 65 7 0 0 0]].
Definition empty3  := L true true MNormal 0 0 1 1 3 [[inv]].
Example insert_empty_alpha_needs_font_page :
  empty_layer empty3 /\ l_alpha empty3 = true /\ no_overflow empty3 0 0 /\
  get_char (mkBuffer false no_fonts ([] ++ empty3 :: [chars_A])) 0 0 = Some (C 65 7 0 0 3) /\
  get_char (mkBuffer false no_fonts ([] ++ [chars_A])) 0 0 = Some (C 65 7 0 0 0).
Proof.
  split; [apply empty_layer_all_invisible; repeat constructor|].
  split; [reflexivity|]. split; [vm_compute; discriminate|]. vm_compute. split; reflexivity.
Qed.

(* the defect fixed in /repo (known_findings.d/C13.json): an invisible cell carrying a character in a Chars layer.
   With the fix it is irrelevant, as the theorem says *)
Definition chars_invisible_A := L true true MChars 0 0 2 1 0 [[C 65 7 0 ATTR_INVISIBLE 0]].
Definition base_x := L true false MNormal 0 0 2 1 0 [[C 120 7 0 0 0]].
Example chars_invisible_cell_regression :
  cell_invisible_at chars_invisible_A 0 0 /\
  get_char (mkBuffer false no_fonts [base_x; chars_invisible_A]) 0 0 = Some (C 120 7 0 0 0).
Proof. split; [eexists; eexists; split; vm_compute; reflexivity | vm_compute; reflexivity]. Qed.

(* scope of opaque_hides: the alpha flag is only consulted for Normal layers — an "opaque" Chars layer does not hide *)
Definition chars_opaque := L true false MChars 0 0 1 1 0 [[C 65 7 0 0 0]].
Example opaque_chars_layer_does_not_hide :
  get_char (mkBuffer false no_fonts [base_x; chars_opaque]) 0 0 = Some (C 65 7 0 0 0) /\
  get_char (mkBuffer false no_fonts [chars_opaque]) 0 0 = Some (C 65 7 0 0 0) /\
  get_char (mkBuffer false no_fonts [L true false MNormal 0 0 1 1 0 [[C 120 3 4 0 0]]; chars_opaque]) 0 0 = Some (C 65 3 4 0 0).
Proof. vm_compute. repeat split; reflexivity. Qed.

(* the panic is real in the model exactly where the dev profile panics: offset i32::MIN, query 1 *)
Example overflow_panics :
  get_char (mkBuffer false no_fonts [L true true MNormal (-2147483648) 0 1 1 0 []]) 1 0 = None /\
  get_char (mkBuffer false no_fonts [L true true MNormal (-2147483648) 0 1 1 0 []]) (-1) 0 = Some invisible_cell.
Proof. vm_compute. split; reflexivity. Qed.

(* the declarative spec agrees on the sample and its hypotheses are satisfiable *)
Example spec_instance :
  Forall layer_no_transp (b_layers B3) /\ get_char_spec B3 1 0 = C 97 14 0 0 0 /\ get_char_spec B3 2 0 = default_cell.
Proof. split; [repeat constructor|]. vm_compute. split; reflexivity. Qed.
