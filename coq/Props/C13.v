From IE Require Import Model.Composite.
Theorem placeholder : True. Proof. exact I. Qed.
