(* C15 — placeholder while the development is being built *)
From IE Require Import Model.TextBuf Model.TextWriters Model.TextParsers.
