(* C15 — Avatar, PCBoard, Ctrl-A, Renegade, ASCII, ATASCII files parse back as saved.
   Only statements, each closed by `exact <lemma>`; proofs live in Proofs/Text*.v.
   The definitions quantified over are the writers of Model/TextWriters.v (`write`), the loaders of
   Model/TextParsers.v (`load`) and the non-terminal buffer of Model/TextBuf.v, over the constants regenerated
   from the source on every run (Gen/TextFmt.v, Gen/Codepage.v).

   Reading guide
     b : sbuf                       the source buffer: a list of rows of cells (char, TextAttribute); a cell that
                                    is not in the list reads as AttributedChar::default()
     dom_rows w (dom_of f) b        every significant cell (x < line_length) is in the format's domain:
                                    pcb/avt/msg/an1: char in 1..255 minus {7,10,12,13,27,127} minus the lead-ins
                                    ('@' | ^V ^Y ^L | ^A | '|'), fg < 16, bg < 8, no attribute flags;
                                    asc: char in 1..254 minus {7,8,10,12,13,127};  ata: char in 0..127 minus
                                    {27..31, 125, 126, 127} (any colours: only bg > 0 = inverse video is saved)
     nonempty_last w b              there is at least one row and the last row has a significant cell
     cells_ok w rel b q             for every y < height, x < w: if x < line_length of row y the loaded cell is
                                    `rel`-ated to the saved one (same char and same fg/bg; asc: same char;
                                    ata: same char and same inverse-video bit), otherwise the loaded cell is
                                    a blank on black - cells after the end of a row are not significant
     KnownC15_sauce / KnownC15_bom  the two known finding classes (see known_findings.d/C15.json) *)
From Coq Require Import NArith Bool List Arith.
From IE Require Import Lib.Tbl Gen.Codepage Gen.TextFmt Model.Attr Model.TextBuf Model.TextWriters Model.TextParsers
                       Proofs.TextBufProofs Proofs.TextSync Proofs.TextRoundtrip Proofs.TextFormats Proofs.TextAvatar Proofs.TextAll.
Import ListNotations.
Local Open Scope N_scope.

(* ---- the property: all six formats, all three screen preparations, all heights, all row lengths ---- *)
Theorem text_roundtrip : forall (f : format) (pr : prep) (b : sbuf),
  dom_rows (load_width f) (dom_of f) b -> nonempty_last (load_width f) b ->
  let w := load_width f in
  exists bytes, write f pr w b = WOk bytes /\
    (~ KnownC15_sauce bytes -> ~ KnownC15_bom f bytes ->
     exists q, load f bytes = Loaded q /\ cells_ok w (rel_of f) b q /\ (length b <= lh q)%nat /\
               (f <> ATA -> length (lines q) = length b /\ lh q = length b)).
Proof. exact text_roundtrip_proof. Qed.

(* per format; PCBoard and Avatar files never start with a UTF-8 BOM, so only the SAUCE class is excluded *)
Theorem pcb_roundtrip : forall pr b, dom_rows 80 pcb_dom b -> nonempty_last 80 b ->
  exists bytes, write PCB pr 80 b = WOk bytes /\
    (sauce_gate bytes = false -> exists q, load PCB bytes = Loaded q /\ picture 80 colour_rel b q).
Proof. exact pcb_roundtrip_proof. Qed.

Theorem avt_roundtrip : forall pr b, dom_rows 80 avt_dom b -> nonempty_last 80 b ->
  exists bytes, write AVT pr 80 b = WOk bytes /\
    (sauce_gate bytes = false -> exists q, load AVT bytes = Loaded q /\ picture 80 colour_rel b q).
Proof. exact avt_roundtrip_proof. Qed.

Theorem ctrla_roundtrip : forall pr b, dom_rows 80 ctrla_dom b -> nonempty_last 80 b ->
  exists bytes, write CTRLA pr 80 b = WOk bytes /\
    (sauce_gate bytes = false -> bom_gate bytes = false ->
     exists q, load CTRLA bytes = Loaded q /\ picture 80 colour_rel b q).
Proof. exact ctrla_roundtrip_proof. Qed.

Theorem ren_roundtrip : forall pr b, dom_rows 80 ren_dom b -> nonempty_last 80 b ->
  exists bytes, write REN pr 80 b = WOk bytes /\
    (sauce_gate bytes = false -> bom_gate bytes = false ->
     exists q, load REN bytes = Loaded q /\ picture 80 colour_rel b q).
Proof. exact ren_roundtrip_proof. Qed.

Theorem asc_roundtrip : forall pr b, dom_rows 80 asc_dom b -> nonempty_last 80 b ->
  exists bytes, write ASC pr 80 b = WOk bytes /\
    (sauce_gate bytes = false -> bom_gate bytes = false ->
     exists q, load ASC bytes = Loaded q /\ picture 80 asc_rel b q).
Proof. exact asc_roundtrip_proof. Qed.

Theorem ata_roundtrip : forall pr b, dom_rows 40 ata_dom b -> nonempty_last 40 b ->
  exists bytes, write ATA pr 40 b = WOk bytes /\
    (sauce_gate bytes = false ->
     exists q, load ATA bytes = Loaded q /\ (length b <= lh q)%nat /\ cells_ok 40 ata_rel b q).
Proof. exact ata_roundtrip_proof. Qed.

(* what "after the end of a row" means: get_line_length is the position after the last cell that is not a
   blank (NUL or space) on black; everything from there to the right edge is blank on black *)
Theorem line_length_meaning : forall w r,
  (line_length w r <= w)%nat /\
  (forall x, (line_length w r <= x)%nat -> (x < w)%nat -> is_transparent (row_get r x) = true) /\
  ((0 < line_length w r)%nat -> is_transparent (row_get r (line_length w r - 1)) = false).
Proof. exact line_length_spec. Qed.

(* the Ctrl-A sync law on every (attribute in force, next attribute) pair, 16 x 8 x 16 x 8 *)
Theorem ctrla_sync_all_pairs : forall f g cf cb, f < 16 -> g < 8 -> cf < 16 -> cb < 8 ->
  arun ctrla_ps ctrla_astep (ctrla_pstate f) (cattr f g) (ctrla_code (ctrla_ws f g) (cattr cf cb)) =
  Some (ctrla_pstate cf, cattr cf cb).
Proof. exact ctrla_code_ok. Qed.

(* the layout half, independent of the format: printing rows of at most w cells with an end-of-line after
   every row that is neither full width nor the last puts cell x of row y at (x, y) - a full-width row
   advances by auto-wrap exactly like CR LF *)
Theorem layout : forall w h rows, (0 < w)%nat ->
  forall p y0, h = (y0 + length rows)%nat -> Forall (fun r => (length r <= w)%nat) rows ->
  px p = 0%nat -> py p = y0 ->
  (forall x y, (y0 <= y)%nat -> view (lines p) x y = None) ->
  forall x y, view (lines (lay w h p rows y0)) x y =
              if (y <? y0)%nat then view (lines p) x y else spec_view rows x (y - y0).
Proof. exact lay_view. Qed.

(* the Avatar row sync law for every row, every writer state in sync, every width up to 255 *)
Theorem avatar_row_sync : forall w, (w <= 255)%nat ->
  row_sync w avt_ps (bool * TextAttribute) avt_astep (avt_bstep w) (avt_emit_row w) avt_R
           (fun r => Forall avt_dom (row_cells w r)) colour_rel.
Proof. exact avt_row_sync_law. Qed.

(* the scanner's fuel (the width) is never the reason the model's scan stops: it stops where the Rust loop does *)
Theorem avatar_scan_fuel_suffices : forall w r fuel x rc, (w - x <= fuel)%nat ->
  ((fst (avt_scan fuel w r x rc) + AVT_LOOKAHEAD <? w)%nat &&
   cell_eqb (row_get r (fst (avt_scan fuel w r x rc))) (row_get r (S (fst (avt_scan fuel w r x rc))))) = false.
Proof. exact avt_scan_stops. Qed.

(* merged tree (fix commits "Avatar goto clamps the cursor to the screen", "Avatar cursor up/down/right stay on the screen"):
   over ANY byte stream - not only written files - the Avatar parser keeps the caret column on the screen of the
   loaders' non-terminal buffer (the row is not limited there), and the writer's Home sequence ^V^H 1 1 still means (0,0) *)
Theorem avatar_caret_column : forall w bs ps p ps' p', (0 < w)%nat -> (px p < w)%nat ->
  run avt_ps avt_astep (avt_bstep w) ps p bs = Some (ps', p') -> (px p' < w)%nat.
Proof. exact avt_caret_column_proof. Qed.

Theorem avatar_home_goto : forall w p, (0 < w)%nat ->
  run avt_ps avt_astep (avt_bstep w) AChars p [22; 8; 1; 1] = Some (AChars, set_pos p 0 0).
Proof. exact avt_home_goto. Qed.

(* ---- non-vacuity: a picture with colour changes, a run, an empty row, a full-width row, an insignificant tail ---- *)
Definition cells (s : list N) (fg bg : N) : list cell := map (fun ch => mkCell ch (mkAttr 0 fg bg 0)) s.
Definition sample : sbuf :=
  [ cells [72; 105] 14 1 ++ cells [33; 33; 33; 33; 33; 33] 7 0 ++ cells [35; 35] 7 0;
    [];
    cells (repeat 120 80) 15 7;
    cells [101; 110; 100] 2 0 ++ cells [32; 32; 32] 5 0 ].
Definition sample40 : sbuf :=
  [ cells [72; 105] 7 0 ++ cells [33; 33] 0 7; []; cells (repeat 120 40) 0 7; cells [101; 110; 100] 7 0 ++ cells [32; 32] 3 0 ].

Example sample_in_domain : forall f, f <> ATA -> dom_rows 80 (dom_of f) sample /\ nonempty_last 80 sample.
Proof.
  intros f Hf. split; [|apply nonempty_last_b; vm_compute; reflexivity].
  apply dom_rows_b. destruct f; try congruence; vm_compute; reflexivity.
Qed.
Example sample40_in_domain : dom_rows 40 (dom_of ATA) sample40 /\ nonempty_last 40 sample40.
Proof. split; [apply dom_rows_b|apply nonempty_last_b]; vm_compute; reflexivity. Qed.

Definition loaded_row (f : format) (pr : prep) (b : sbuf) (y n : nat) : option (list (N * N * N)) :=
  match write f pr (load_width f) b with
  | WOk bytes =>
    match load f bytes with
    | Loaded q => Some (map (fun x => let c := lget (load_width f) q x y in
                                      (cch c, foreground_color (cat c), background_color (cat c))) (seq 0 n))
    | Unmodelled => None
    end
  | WPanic => None
  end.

Example sample_avatar_bytes :
  write AVT PrepHome 80 sample =
  WOk ([22; 8; 1; 1] ++ [22; 1; 30; 72; 105] ++ [22; 1; 7; 25; 33; 6; 35; 35] ++ [13; 10] ++ [13; 10] ++
       [22; 1; 127; 25; 120; 78; 120; 120] ++ [22; 1; 2; 101; 110; 100]).
Proof. vm_compute. reflexivity. Qed.
Example sample_avatar_loaded :
  loaded_row AVT PrepHome sample 0 11 =
    Some [(72, 14, 1); (105, 14, 1); (33, 7, 0); (33, 7, 0); (33, 7, 0); (33, 7, 0); (33, 7, 0); (33, 7, 0); (35, 7, 0); (35, 7, 0); (32, 7, 0)] /\
  loaded_row AVT PrepHome sample 3 5 = Some [(101, 2, 0); (110, 2, 0); (100, 2, 0); (32, 7, 0); (32, 7, 0)].
Proof. vm_compute. split; reflexivity. Qed.
Example sample_ctrla_bytes_row0 :
  exists t, write CTRLA PrepClear 80 sample = WOk ([1; 76] ++ [1; 72; 1; 89; 1; 52; 72; 105] ++ [1; 78; 33; 33; 33; 33; 33; 33; 35; 35; 13; 10; 13; 10] ++ t).
Proof. eexists. vm_compute. reflexivity. Qed.
Example sample_all_formats_row2 : forall f pr, f <> ATA ->
  option_map (fun l => map fst l) (loaded_row f pr sample 2 80) = Some (map (fun ch => (ch, if match f with ASC => true | _ => false end then 7 else 15)) (repeat 120 80%nat)).
Proof. intros f pr Hf. destruct f; try congruence; destruct pr; vm_compute; reflexivity. Qed.
Example sample40_loaded :
  loaded_row ATA PrepNone sample40 0 5 = Some [(72, 7, 0); (105, 7, 0); (33, 0, 7); (33, 0, 7); (32, 7, 0)].
Proof. vm_compute. reflexivity. Qed.

(* ---- known finding classes: satisfiable inside the domain, and outside the model of the loaders ---- *)
Definition bom_picture : sbuf := [cells [239; 187; 191; 65] 7 0].
Example known_bom_witness :
  dom_rows 80 asc_dom bom_picture /\ nonempty_last 80 bom_picture /\
  exists bytes, write ASC PrepNone 80 bom_picture = WOk bytes /\ KnownC15_bom ASC bytes /\ load ASC bytes = Unmodelled.
Proof.
  split; [apply (dom_rows_b ASC); vm_compute; reflexivity|]. split; [apply nonempty_last_b; vm_compute; reflexivity|].
  eexists. split; [vm_compute; reflexivity|]. split; [split; [discriminate|reflexivity]|reflexivity].
Qed.

Definition sauce_tail : list N :=
  repeat 120 123%nat ++ [67; 79; 77; 78; 84] ++ repeat 99 64%nat ++
  [83; 65; 85; 67; 69; 48; 48] ++ repeat 84 35%nat ++ repeat 65 20%nat ++ repeat 71 20%nat ++
  [50; 48; 50; 52; 48; 49; 48; 49] ++ [115; 115; 115; 115] ++ [65; 66] ++ repeat 105 8%nat ++ [1; 102] ++ repeat 73 22%nat.
Definition sauce_picture : sbuf :=
  [cells (firstn 80 sauce_tail) 7 0; cells (firstn 80 (skipn 80 sauce_tail)) 7 0;
   cells (firstn 80 (skipn 160 sauce_tail)) 7 0; cells (skipn 240 sauce_tail) 7 0].
Example known_sauce_witness :
  dom_rows 80 asc_dom sauce_picture /\ nonempty_last 80 sauce_picture /\
  exists bytes, write ASC PrepNone 80 sauce_picture = WOk bytes /\ KnownC15_sauce bytes /\ load ASC bytes = Unmodelled.
Proof.
  split; [apply (dom_rows_b ASC); vm_compute; reflexivity|]. split; [apply nonempty_last_b; vm_compute; reflexivity|].
  eexists. split; [vm_compute; reflexivity|]. split; vm_compute; reflexivity.
Qed.

(* ---- the repaired defect (C15-avt-home-offset): with the parser's former zero-based goto, the writer's Home
        sequence ^V^H 1 1 leaves the caret at (1,1), so the first cell of the picture is stored there (with or without
        the clamp that the merged tree adds after the goto); the merged parser stores it at (0,0) ---- *)
Definition avt_goto_zero_based (c ch : N) (p : pbuf) : pbuf := limit_caret 80 (set_pos p (N.to_nat c) (N.to_nat ch)).
Example avt_goto_zero_based_refuted :
  let p := put 80 (avt_goto_zero_based 1 1 (page0 AVT)) (mkCell 65 default_attribute) in
  view (lines p) 0 0 = None /\ view (lines p) 1 1 = Some (mkCell 65 default_attribute) /\
  match run avt_ps avt_astep (avt_bstep 80) AChars (page0 AVT) [22; 8; 1; 1; 65] with
  | Some (_, q) => view (lines q) 0 0 = Some (mkCell 65 default_attribute)
  | None => False
  end.
Proof. vm_compute. repeat split. Qed.

(* the clamp of the merged goto: ^V^H F0 F0 A stores the A in the last column (79), row 239 - the row of a
   non-terminal buffer is not limited -, not beyond the right edge where Layer::set_char would drop it *)
Example avt_goto_clamped :
  match run avt_ps avt_astep (avt_bstep 80) AChars (page0 AVT) [22; 8; 240; 240; 65] with
  | Some (_, q) => view (lines q) 79 239 = Some (mkCell 65 default_attribute) /\ px q = 0%nat /\ py q = 240%nat
  | None => False
  end.
Proof. vm_compute. repeat split. Qed.
