(* C09 — cursor and fixed-grid geometry stay consistent under any stream.
   Statements only; proofs in Proofs/TermProofs.v, AnsiProofs.v, EmuProofs.v.
   [run e m cs] feeds the characters cs one at a time (after an error value the machine goes on);
   [resized] is the ghost flag "a text-area resize (CSI 8;h;w t) was executed". Every prefix of a stream is a
   stream, so each statement speaks about the state after every character. *)
From Coq Require Import ZArith NArith List Bool.
From IE Require Import Model.TermCore Model.AnsiTok Model.Emu Proofs.TermProofs Proofs.AnsiProofs Proofs.EmuProofs.
From IE Require Import Model.Petscii Proofs.PetsciiProofs.
Import ListNotations.
Local Open Scope Z_scope.

(* scrolling terminals (ANSI, Avatar, PCBoard, Ctrl-A, Renegade, ASCII, ATASCII), every music / backspace option,
   every screen size 1..=132 x 1..=60, every character stream *)
Theorem c09_stream : forall e music bs w h cs m',
  scrolling e = true -> 1 <= w <= 132 -> 1 <= h <= 60 ->
  run e (init music bs w h) cs = RunOk m' -> resized (ps (am m')) = false ->
  0 <= cx (mt m') < tw (mt m') /\ first (mt m') <= cy (mt m') < first (mt m') + th (mt m').
Proof. exact c09_stream_proof. Qed.

(* the same streams: origin mode is never WithinMargins, the buffer is at least one screen high, margins lie inside the screen *)
Theorem origin_never_margins : forall e music bs w h cs m',
  scrolling e = true -> 1 <= w <= 132 -> 1 <= h <= 60 ->
  run e (init music bs w h) cs = RunOk m' -> resized (ps (am m')) = false ->
  origin_m (mt m') = false /\ th (mt m') <= bh (mt m') /\ margins_ok (mtb (mt m')) (th (mt m')) /\ margins_ok (mlr (mt m')) (tw (mt m')).
Proof. exact c09_geometry_proof. Qed.

(* Viewdata and Mode 7: the page keeps exactly its size (terminal, buffer and layer), never grows a scrollback
   (at most h allocated rows, first visible line 0) and the cursor stays on it — for every stream, every page size *)
Theorem fixed_grid_size : forall e music bs w h cs m',
  scrolling e = false -> 1 <= w -> 1 <= h ->
  run e (init music bs w h) cs = RunOk m' ->
  let t := mt m' in
  tw t = w /\ th t = h /\ bw t = w /\ bh t = h /\ lw t = w /\ lh t = h /\ (length (lines t) <= Z.to_nat h)%nat /\
  first t = 0 /\ 0 <= cx t < w /\ 0 <= cy t < h.
Proof. exact fixed_grid_proof. Qed.

(* one character of the ANSI parser, any parser state (incl. macro replay of any depth within the fuel) *)
Theorem ansi_char_keeps_cursor : forall m ch, InvA m -> Good (ansi_step m ch).
Proof. exact ansi_step_good. Qed.

(* ---- non-vacuity: the streams of the defect ledger now end inside the screen, with a scrollback present ---------- *)
Definition LF40 : list Z := repeat 10 40.
Definition final (e : emu) (cs : list Z) : option (Z * Z * Z * Z) :=
  match run e (init 0 false 80 25) cs with RunOk m => Some (cx (mt m), cy (mt m), first (mt m), bh (mt m)) | _ => None end.
Example scrollback_grows : final EAnsi LF40 = Some (0, 40, 16, 41). Proof. vm_compute. reflexivity. Qed.
Example cvt_clamped : final EAnsi [27; 91; 50; 48; 89] = Some (79, 0, 0, 25). Proof. vm_compute. reflexivity. Qed.
Example ff_drops_scrollback : final EAnsi (LF40 ++ [12]) = Some (0, 0, 0, 25). Proof. vm_compute. reflexivity. Qed.
Example rcp_clamped : final EAnsi ([27; 91; 115] ++ LF40 ++ [27; 91; 117]) = Some (0, 16, 16, 41). Proof. vm_compute. reflexivity. Qed.
Example decrc_clamped : final EAnsi ([27; 55] ++ LF40 ++ [27; 56]) = Some (0, 16, 16, 41). Proof. vm_compute. reflexivity. Qed.
Example avt_goto_clamped : final EAvatar [22; 8; 240; 240] = Some (79, 24, 0, 25). Proof. vm_compute. reflexivity. Qed.
Example ctrla_home_visible : final ECtrlA (LF40 ++ [1; 39]) = Some (0, 16, 16, 41). Proof. vm_compute. reflexivity. Qed.
Example viewdata_wraps : match run EViewdata (init 0 false 40 24) (repeat 65 (40 * 24 + 3)) with
                         | RunOk m => (cx (mt m), cy (mt m), bh (mt m), zlen (lines (mt m))) = (3, 0, 24, 24) | _ => False end.
Proof. vm_compute. reflexivity. Qed.
(* the resize ghost is needed: after a resize the cursor may be outside the (smaller) screen *)
Example resize_breaks : match run EAnsi (init 0 false 80 25) ([27; 91; 50; 48; 67] ++ [27; 91; 56; 59; 53; 59; 53; 116]) with
                        | RunOk m => cx (mt m) = 20 /\ tw (mt m) = 5 /\ resized (ps (am m)) = true | _ => False end.
Proof. vm_compute. repeat split; reflexivity. Qed.

(* PETSCII (Model/Petscii.v, added with the C01 extension): a scrolling terminal as well; it has no resize, so no side
   condition: after every stream the cursor is inside the visible screen *)
Theorem c09_petscii : forall music bs w h cs m',
  1 <= w <= 132 -> 1 <= h <= 60 -> run_petscii (init music bs w h) cs = RunOk m' ->
  0 <= cx (mt m') < tw (mt m') /\ first (mt m') <= cy (mt m') < first (mt m') + th (mt m').
Proof. exact c09_petscii_proof. Qed.
(* 30 RETURNs, 45 cursor-right, cursor-up x 3: inside the 40 x 25 screen, scrollback present *)
Example petscii_scrollback :
  match run_petscii (init 0 false 40 25) (repeat 13 30 ++ repeat 29 45 ++ [145; 145; 145]) with
  | RunOk m => Some (cx (mt m), cy (mt m), first (mt m), bh (mt m)) | _ => None end = Some (39, 27, 6, 31).
Proof. vm_compute. reflexivity. Qed.
