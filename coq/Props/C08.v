(* C08 — undo restores the document and redo the edit, for every edit history.
   Statements only; proofs in Proofs/UndoProofs.v (framework), Proofs/LayerProofs.v, Proofs/EditProofs.v,
   Proofs/ApiProofs.v (operations) and Proofs/OldCodeProofs.v (the repaired defects). *)
From Coq Require Import List ZArith NArith Bool Arith.
From IE Require Import Gen.UndoGen Model.Undo Model.EditModel Model.EditOps Proofs.UndoProofs Proofs.LayerProofs Proofs.EditProofs
  Proofs.ApiProofs Proofs.OldCodeProofs Model.DocModel Model.DocOps Model.ScrollOps Proofs.DocProofs Proofs.DocApiProofs Proofs.DocRowColProofs Proofs.ScrollProofs.
Import ListNotations.

(* ================================================================================================================
   (1) The framework: ANY document type st, ANY operation type uop with ANY undo/redo functions (payloads may be
   re-captured), ANY equivalence eqv on documents. *)
Section Framework.
  Context {st uop : Type}.
  Variable op_undo op_redo : uop -> st -> res (uop * st).
  Variable eqv : st -> st -> Prop.
  Hypothesis eqv_refl : forall a, eqv a a.
  Hypothesis eqv_sym : forall a b, eqv a b -> eqv b a.
  Hypothesis eqv_trans : forall a b c, eqv a b -> eqv b c -> eqv a c.

  Notation Undoable := (Undoable op_undo op_redo eqv).
  Notation Redoable := (Redoable op_undo op_redo eqv).
  Notation Zip := (Zip op_undo op_redo eqv).
  Notation edit_chain := (edit_chain op_undo op_redo eqv).
  Notation sound_edit := (sound_edit op_undo op_redo eqv).

  (* every interleaving of undo (true) and redo (false) steps from a state satisfying the zipper invariant: no step
     fails, the invariant is kept, the timeline (past, present, future documents) is unchanged, and the position
     in it is the one the walk computes (undo at the bottom and redo at the top are no-ops) *)
  Theorem interleaving_sound : forall w (e : @es st uop) past now fut, Zip e past now fut ->
    exists e' past' now' fut',
      run_ur op_undo op_redo w e = Ok e' /\ Zip e' past' now' fut' /\
      timeline past' now' fut' = timeline past now fut /\
      length past' = walk w (length past) (length past + length fut) /\
      (length past' + length fut' = length past + length fut)%nat.
  Proof. exact (interleaving_zip op_undo op_redo eqv). Qed.

  (* history_sound: fresh editor, any sequence of sound edits that each report Ok, then any interleaving: the document is
     equivalent to the entry of one fixed timeline (one entry per undo step; first = initial document, last = final
     document) the walk points at; undo and redo never fail *)
  Theorem history_sound : forall (fs : list (@es st uop -> res (@es st uop))) e0 en d,
    fresh e0 -> Forall sound_edit fs -> run_edits fs e0 = Ok en ->
    let n := length (ustk en) in
    exists tl, length tl = S n /\ rstk en = [] /\
      eqv (nth 0 tl d) (cur e0) /\ nth n tl d = cur en /\
      forall w, exists e', run_ur op_undo op_redo w en = Ok e' /\
        eqv (cur e') (nth (walk w n n) tl d).
  Proof. exact (UndoProofs.history_sound op_undo op_redo eqv eqv_refl eqv_sym eqv_trans). Qed.

  (* undoing every step the history added restores the initial document; redoing them restores the final one *)
  Theorem undo_all_redo_all : forall (fs : list (@es st uop -> res (@es st uop))) e0 en,
    fresh e0 -> Forall sound_edit fs -> run_edits fs e0 = Ok en ->
    let n := length (ustk en) in
    exists e1 e2, iter_res (undo op_undo) n en = Ok e1 /\ eqv (cur e1) (cur e0) /\ ustk e1 = [] /\
                  iter_res (redo op_redo) n e1 = Ok e2 /\ eqv (cur e2) (cur en).
  Proof. exact (UndoProofs.undo_all_redo_all op_undo op_redo eqv eqv_refl eqv_sym eqv_trans). Qed.

  (* k undo steps go k entries back (surplus steps are no-ops), k redo steps k entries forward *)
  Theorem undo_k_restores : forall k (e : @es st uop) past now fut d, Zip e past now fut ->
    exists e', iter_res (undo op_undo) k e = Ok e' /\ eqv (cur e') (nth (length past - k) (timeline past now fut) d).
  Proof. exact (UndoProofs.undo_k_restores op_undo op_redo eqv). Qed.

  Theorem redo_k_restores : forall k (e : @es st uop) past now fut d, Zip e past now fut ->
    exists e', iter_res (redo op_redo) k e = Ok e' /\
      eqv (cur e') (nth (Nat.min (length past + k) (length past + length fut)) (timeline past now fut) d).
  Proof. exact (UndoProofs.redo_k_restores op_undo op_redo eqv). Qed.

  (* a new edit (one that pushes at least one operation) after any walk discards the redo history: redo is a no-op *)
  Theorem new_edit_clears_redo : forall (e e' : @es st uop) past now fut, Zip e past now fut -> edit_chain e e' ->
    (length (ustk e) < length (ustk e'))%nat ->
    rstk e' = [] /\ redo op_redo e' = Ok e' /\ exists mids, Zip e' (mids ++ past) (cur e') [].
  Proof. exact (UndoProofs.new_edit_clears_redo op_undo op_redo eqv eqv_refl eqv_sym eqv_trans). Qed.

  (* an atomic group of sound operations is a sound operation (groups nest: the members may be groups) *)
  Theorem atomic_group_sound : forall l a b, UChain op_undo op_redo eqv l a b -> Undoable (Atomic l) a b.
  Proof. exact (atomic_Undoable op_undo op_redo eqv eqv_sym eqv_trans). Qed.

  (* closing a guard folds whatever its body pushed into one sound entry; a body that pushed nothing leaves the stack alone *)
  Theorem nested_guard_folds : forall (body : @es st uop -> res (@es st uop)) e e',
    (forall e1 e2, body e1 = Ok e2 -> edit_chain e1 e2) ->
    with_guard body e = Ok e' ->
    edit_chain e e' /\ (length (ustk e') <= S (length (ustk e)))%nat.
  Proof. exact (with_guard_chain_le op_undo op_redo eqv eqv_refl eqv_sym eqv_trans). Qed.

  (* push_undo_action (= redo, then push) and push_plain_undo of sound operations are sound edits *)
  Theorem push_action_sound : forall (e : @es st uop) o s', Redoable o (cur e) s' ->
    exists e', push_action op_redo o e = Ok e' /\ edit_chain e e' /\ eqv (cur e') s'.
  Proof. exact (push_action_chain op_undo op_redo eqv eqv_refl eqv_sym). Qed.

  Theorem push_plain_sound : forall (e : @es st uop) o c, Undoable o (cur e) c -> edit_chain e (push_plain o (set_cur e c)).
  Proof. exact (push_plain_chain op_undo op_redo eqv eqv_refl). Qed.
End Framework.

(* ================================================================================================================
   (2) The modelled operations of icy_engine (tree after the C08 fix commits), for the equivalence
       eqv a b := same buffer size, and layer by layer (same order, same number): same role, properties, offset, size,
                  title, and the same stored cell at EVERY position (inside and outside `size`). *)
Local Open Scope Z_scope.

(* eqv implies equality of everything the property observes: sizes, per layer position in the stack, size, offset,
   properties and get_char at every position *)
Theorem eqv_observable : forall a b, eqv a b -> obs_eq a b.
Proof. exact eqv_obs_eq. Qed.

(* per-operation soundness: each undo-operation family is closed under undo/redo from ANY equivalent state
   (payload-preserving families: `stable`; families whose payload is re-captured: a pair of relations) *)
Theorem undo_operations_sound :
  stable P_setchar /\ stable P_swapchar /\ stable P_toggle /\ stable P_move /\ stable P_resize /\ stable P_selection /\
  stable P_raise /\ stable P_lower /\ stable P_change /\
  lclosed op_undo op_redo eqv U_add R_add /\ lclosed op_undo op_redo eqv U_remove R_remove /\
  lclosed op_undo op_redo eqv U_lsize R_lsize /\ lclosed op_undo op_redo eqv U_clear R_clear.
Proof.
  exact (conj setchar_stable (conj swapchar_stable (conj toggle_stable (conj move_stable (conj resize_stable (conj selection_stable
        (conj raise_stable (conj lower_stable (conj change_stable (conj add_closed (conj remove_closed (conj lsize_closed clear_closed)))))))))))).
Qed.

(* UndoLayerChange is sound whenever the operation changed the layer only inside the recorded rectangle *)
Theorem layer_change_sound : forall L L' ax ay aw ah old new,
  differs L L' (ax, ay, aw, ah) -> from_layer L (ax, ay, aw, ah) = Ok old -> from_layer L' (ax, ay, aw, ah) = Ok new ->
  leqv (l_restore L' ax ay old) L /\ leqv (l_restore L ax ay new) L'.
Proof. exact frame_sound. Qed.

(* ALL area operations at once: whatever the mutation computes, as long as it stays inside the area (everything that
   writes through Layer::set_char at positions of the area does) *)
Theorem area_op_sound : forall mutate, stays_inside mutate -> sound_edit op_undo op_redo eqv (api_area_op mutate).
Proof. exact api_area_op_sound. Qed.

Theorem area_mutations_stay_inside :
  stays_inside mut_justify_left /\ stays_inside mut_justify_right /\ stays_inside mut_center /\
  (forall ftab, stays_inside (mut_flip_x ftab)) /\ (forall ftab, stays_inside (mut_flip_y ftab)).
Proof. exact (conj justify_left_inside (conj justify_right_inside (conj center_inside (conj flip_x_inside flip_y_inside)))). Qed.

(* every modelled public operation (set_char incl. mirror mode, swap_char, add/remove/raise/lower/duplicate/clear layer,
   toggle visibility, move layer, set layer size, resize buffer, selection set/clear/deselect, justify left/right, center,
   flip x/y, erase selection, make layer transparent, center_line, justify_line_left/right, erase_row(_to_start/_to_end),
   erase_column(_to_start/_to_end), any area operation) is a sound edit *)
Theorem api_sound : forall f, modelled f -> sound_edit op_undo op_redo eqv f.
Proof. exact modelled_sound. Qed.

(* undo_redo_history: any history over the modelled operations, each reporting Ok, from a fresh editor; then EVERY
   interleaving of undo/redo steps: no step fails or panics, and the document is eqv to the entry of one fixed timeline
   the walk points at (entry 0 eqv the initial document, entry n = the final document, one entry per undo step) *)
Theorem undo_redo_history : forall (fs : list (E -> res E)) e0 en d,
  fresh e0 -> Forall modelled fs -> run_edits fs e0 = Ok en ->
  let n := length (ustk en) in
  exists tl, length tl = S n /\ rstk en = [] /\
    eqv (nth 0 tl d) (cur e0) /\ nth n tl d = cur en /\
    forall w, exists e', run_ur op_undo op_redo w en = Ok e' /\ eqv (cur e') (nth (walk w n n) tl d).
Proof. exact undo_redo_history_proof. Qed.

Theorem undo_all_redo_all_modelled : forall (fs : list (E -> res E)) e0 en,
  fresh e0 -> Forall modelled fs -> run_edits fs e0 = Ok en ->
  let n := length (ustk en) in
  exists e1 e2, iter_res (undo op_undo) n en = Ok e1 /\ eqv (cur e1) (cur e0) /\ ustk e1 = [] /\
                iter_res (redo op_redo) n e1 = Ok e2 /\ eqv (cur e2) (cur en).
Proof. exact undo_all_redo_all_proof. Qed.

(* ================================================================================================================
   (3) The code before the fix commits refuted the statement (witnesses computed by vm_compute) *)
Theorem layerchange_drops_hidden_refuted :
  exists L0 L1 L2 old,
    L0 = l_set_char (plain_layer 6 4 false) 5 3 cQ /\ L1 = with_size L0 3 2 /\
    from_layer L1 (0, 0, 3, 2) = Ok old /\ mut_flip_x (fun _ => Some (fun c => c)) L1 (0, 0, 3, 2) = Ok L2 /\
    get_char L0 5 3 = cQ /\
    get_char (with_size (l_restore_old L2 0 0 old) 6 4) 5 3 = invisible /\
    get_char (with_size (l_restore L2 0 0 old) 6 4) 5 3 = cQ.
Proof. exact layerchange_old_drops_hidden_refuted. Qed.

Theorem setchar_alpha_locked_refuted :
  exists L0 L1, L0 = with_lines (plain_layer 3 2 true) [[cA]] /\ L1 = l_set_char L0 0 0 invisible /\
    get_char L0 0 0 = cA /\ get_char L1 0 0 = invisible /\
    get_char (l_set_char L1 0 0 cA) 0 0 = invisible /\ get_char (l_restore_char L1 0 0 cA) 0 0 = cA.
Proof. exact setchar_old_alpha_refuted. Qed.

Theorem swap_loses_char_refuted :
  exists L0, L0 = with_lines (plain_layer 3 2 false) [[cA]] /\
    get_char (l_swap_char_old (l_swap_char_old L0 0 0 (-1) 0) 0 0 (-1) 0) 0 0 = invisible /\
    get_char (l_swap_char (l_swap_char L0 0 0 (-1) 0) 0 0 (-1) 0) 0 0 = cA.
Proof. exact swap_old_loses_char_refuted. Qed.

(* ================================================================================================================
   Non-vacuity: a concrete history (the DESIGN.md probe, 6x4) satisfies the premises of undo_redo_history, has three
   undo steps, changes the document, and the generic frame is instantiated by a mutation that does change cells. *)
(* ex_doc, ex_tab, ex_hist: Proofs/OldCodeProofs.v (a fresh 6x4 one-layer document; set_char (5,3) 'Q'; set_char (0,0) 'Q';
   set_layer_size 0 (3,2); flip_x with a table mapping 'Q' to 'O'; center; add_new_layer 0) *)

Example ex_hist_modelled : Forall modelled ex_hist.
Proof.
  unfold ex_hist.
  apply Forall_cons; [apply m_set_char|]. apply Forall_cons; [apply m_set_char|]. apply Forall_cons; [apply m_set_layer_size|].
  apply Forall_cons; [apply m_flip_x|]. apply Forall_cons; [apply m_center|]. apply Forall_cons; [apply m_add_new_layer|].
  apply Forall_nil.
Qed.

Example ex_hist_runs : exists en, run_edits ex_hist ex_doc = Ok en /\ length (ustk en) = 6%nat /\
  (forall L, nth_error (layers (cur en)) 0 = Some L -> get_char L 0 0 = mkCell 79 7 0 0 0 /\ l_w L = 3) /\
  length (layers (cur en)) = 2%nat.
Proof.
  eexists. split; [vm_compute; reflexivity|]. split; [reflexivity|]. split; [|reflexivity].
  intros L H. vm_compute in H. injection H as <-. split; reflexivity.
Qed.

Example ex_fresh : fresh ex_doc.
Proof. split; reflexivity. Qed.

(* a mutation that moves a cell satisfies stays_inside non-trivially: the flipped layer differs from the original *)
Example ex_flip_changes : exists L', mut_flip_x ex_tab (l_set_char (plain_layer 6 4 false) 0 0 cQ) (0, 0, 6, 4) = Ok L' /\
  get_char L' 5 0 = mkCell 79 7 0 0 0 /\ get_char L' 0 0 = invisible.
Proof. eexists. split; [vm_compute; reflexivity|]. split; reflexivity. Qed.


(* ================================================================================================================
   (4) Extension: the FULL document of the property (Model/DocModel.v: the layer document above + palette, font table, SAUCE
       record, ice / palette / font mode; caret font page and selection mask as non-document state) and the remaining undo
       records.  xeqv a b := eqv on the layer documents /\ same palette /\ same font table (as a finite map) /\ same SAUCE
       record /\ same three modes.  All framework theorems of (1) apply to it (they are generic in st, uop, eqv). *)
Theorem xeqv_is_equivalence : (forall a, xeqv a a) /\ (forall a b, xeqv a b -> xeqv b a) /\ (forall a b c, xeqv a b -> xeqv b c -> xeqv a c).
Proof. exact (conj xeqv_refl (conj xeqv_sym xeqv_trans)). Qed.

(* everything the property observes is determined by the xeqv class *)
Theorem xeqv_observable : forall a b, xeqv a b ->
  obs_eq (xb a) (xb b) /\ x_pal a = x_pal b /\ (forall slot, fget slot (x_fonts a) = fget slot (x_fonts b)) /\ x_sauce a = x_sauce b /\
  x_ice a = x_ice b /\ x_palmode a = x_palmode b /\ x_fontmode a = x_fontmode b.
Proof. intros a b [H (H1 & H2 & H3 & H4 & H5 & H6)]. split; [apply eqv_obs_eq; exact H|]. repeat split; assumption. Qed.

(* everything proved about the layer document carries over: a sound edit of the layer document, run inside the full editor
   (its records re-tagged XB), is a sound edit of the full document; an undoable record stays undoable *)
Theorem lift_sound : forall f, sound_edit op_undo op_redo eqv f ->
  forall e e', lift_edit f e = Ok e' -> edit_chain xop_undo xop_redo xeqv e e'.
Proof. exact lift_edit_sound. Qed.

Theorem lift_undoable : forall o x y, Undoable op_undo op_redo eqv o (xb x) (xb y) -> rest_eq x y ->
  Undoable xop_undo xop_redo xeqv (xfop o) x y.
Proof. exact Undoable_lift. Qed.

(* per-record soundness of the remaining undo operations (families as in undo_operations_sound). After the fix commits no family
   carries a side condition on the state: SetFont records the content of the slot it writes, AddFont / ChangeFontSlot capture the
   font of the target slot on redo and put it back on undo, ResizeBuffer / Crop record the size the SAUCE record carried *)
Theorem undo_operations_sound_x :
  lclosed xop_undo xop_redo xeqv U_palette R_palette /\ lclosed xop_undo xop_redo xeqv U_sauce R_sauce /\
  xstable P_setfont /\ lclosed xop_undo xop_redo xeqv U_addfont R_addfont /\ lclosed xop_undo xop_redo xeqv U_remfont R_remfont /\
  lclosed xop_undo xop_redo xeqv U_fontslot R_fontslot /\
  xstable P_replfont /\ xstable P_icemode /\ xstable P_palmode /\ xstable P_xresize /\ xstable P_xnodoc /\
  lclosed xop_undo xop_redo xeqv U_paste R_paste /\ lclosed xop_undo xop_redo xeqv U_merge R_merge /\
  lclosed xop_undo xop_redo xeqv U_crop R_crop /\ xstable P_rotate /\ xstable P_scroll.
Proof.
  exact (conj palette_closed (conj sauce_closed (conj setfont_stable (conj addfont_closed (conj remfont_closed (conj fontslot_closed
        (conj replfont_stable (conj icemode_stable (conj palmode_stable (conj xresize_stable (conj xnodoc_stable (conj paste_closed
        (conj merge_closed (conj crop_closed (conj rotate_stable scroll_stable))))))))))))))).
Qed.

(* every modelled operation on the full document — the liftable operations of (2), flip x/y (maps taken from the font table),
   resize_buffer with and without layers, crop, crop_rect, switch_to_palette, update_sauce_data, switch_to_font_page,
   set_ansi_font / set_sauce_font, add_ansi_font, replace_font_usage, change_font_slot, remove_font, set_ice_mode, set_palette_mode
   (for ANY cell conversion / palette plan), merge_layer_down, anchor_layer, stamp_layer_down, paste_clipboard_data,
   add_selection_to_mask, inverse_selection, enumerate_selections (ANY callback), clear_selection, erase_selection and the nine
   row / column wrappers reading the selection mask, rotate_layer (ANY character table), scroll_area_up / down (over the whole
   layer width and over part of it), insert / delete row and column — is a sound edit on EVERY state on which it reports Ok.
   (Before the fix commits for the six known findings this theorem was stated outside a known class K of each operation; the
   classes are gone, `xmodelled` has no class index any more.) *)
Theorem x_api_sound : forall f, xmodelled f ->
  forall e e', f e = Ok e' -> edit_chain xop_undo xop_redo xeqv e e'.
Proof. exact xmodelled_sound. Qed.

(* x_undo_redo_history: any history over the modelled operations on the full document, each reporting Ok, from a fresh editor; then EVERY interleaving of undo / redo steps: no step fails or panics and the full
   document is xeqv to the entry of one fixed timeline the walk points at *)
Theorem x_undo_redo_history : forall fs (e0 en : XE) d, fresh e0 -> xrun fs e0 en ->
  let n := length (ustk en) in
  exists tl, length tl = S n /\ rstk en = [] /\
    xeqv (nth 0 tl d) (cur e0) /\ nth n tl d = cur en /\
    forall w, exists e', run_ur xop_undo xop_redo w en = Ok e' /\ xeqv (cur e') (nth (walk w n n) tl d).
Proof. exact x_history_proof. Qed.

(* the four repaired records (fixed findings C08-setfont-records-slot0, C08-addfont-overwrites-slot, C08-fontslot-overwrites-slot,
   C08-resize-rewrites-sauce-size): on the witness documents of the former known classes the operation followed by undo now restores
   the document (undo_restores), while the record the code pushed BEFORE the fix commit — SetFont with the font of slot 0, AddFont /
   ChangeFontSlot without the captured font, ResizeBuffer without the recorded SAUCE size — undone from the same state does not *)
Theorem setfont_before_fix_refuted :
  before_fix_refuted (x_set_font false (Some 8%N)) (wit_doc [(0, 1); (2, 6)]%N None 3 2) (XSetFont 2 (Some 1%N) 8).
Proof. exact setfont_before_fix_refuted_proof. Qed.
Theorem addfont_before_fix_refuted :
  before_fix_refuted (x_add_ansi_font 2 (Some 8%N)) (wit_doc [(0, 1); (2, 6)]%N None 3 0) (XAddFont 0 2 8 None).
Proof. exact addfont_before_fix_refuted_proof. Qed.
Theorem fontslot_before_fix_refuted :
  before_fix_refuted (x_change_font_slot 2 3) (wit_doc [(0, 1); (2, 6); (3, 7)]%N None 3 0) (XChangeFontSlot 2 3 None).
Proof. exact fontslot_before_fix_refuted_proof. Qed.
Theorem resize_sauce_size_before_fix_refuted :
  before_fix_refuted (x_resize_buffer 3 1) (wit_doc [(0, 1)]%N (Some (mkSauce 7 3 5)) 0 0) (XResizeBuffer 4 2 3 1 None).
Proof. exact resize_sauce_size_before_fix_refuted_proof. Qed.

(* insert / delete row and column (finding C08-rowcol-raw-lines, repaired): the four records are closed under undo / redo from ANY
   equivalent state, whatever rows and cells it happens to store; the payloads (deleted row, inserted row, deleted column) are
   re-captured on every redo / undo and are related to the document by their cells only *)
Theorem rowcol_operations_sound :
  lclosed xop_undo xop_redo xeqv U_delrow R_delrow /\ lclosed xop_undo xop_redo xeqv U_insrow R_insrow /\
  lclosed xop_undo xop_redo xeqv U_delcol R_delcol /\ xstable P_inscol.
Proof. exact (conj delrow_closed (conj insrow_closed (conj delcol_closed inscol_stable))). Qed.

(* what each direction does, cell by cell (x, y are positions in the stored rows, inside and outside `size`) *)
Theorem rowcol_cells :
  (forall n L x y, rawL (del_row n L) x y = if (y <? n)%nat then rawL L x y else rawL L x (S y)) /\
  (forall n row L x y, rawL (ins_row n row L) x y = if (y <? n)%nat then rawL L x y else if (y =? n)%nat then cell_at row x else rawL L x (pred y)) /\
  (forall col L x y, rawL (del_col col L) x y = match col with Some c => if (x <? c)%nat then rawL L x y else rawL L (S x) y | None => rawL L x y end) /\
  (forall col L x y, rawL (ins_col col L) x y =
     match col with Some c => if (x <? c)%nat then rawL L x y else if (x =? c)%nat then invisible else rawL L (pred x) y | None => rawL L x y end).
Proof. exact (conj del_row_raw (conj ins_row_raw (conj del_col_raw ins_col_raw))). Qed.

(* before the fix commit the undo worked on the rows that happened to be stored: from a state that holds the same cells as the one the
   redo produced but stores fewer rows, DeleteRow::undo panicked in Vec::insert (site 40); the repaired undo restores the document *)
Theorem rowcol_before_fix_refuted :
  exists a b t,
    a = rc_state [[rc_cell]; []; []] 3 /\
    xop_redo (XDeleteRow 0 2 []) a = Ok (XDeleteRow 0 2 [], b) /\ xeqv t b /\
    old_delete_row_undo 0 2 [] t = Panic 40 /\
    (exists o2 a', xop_undo (XDeleteRow 0 2 []) t = Ok (o2, a') /\ xeqv a' a).
Proof. exact rowcol_before_fix_refuted_proof. Qed.

(* scroll_area_up / scroll_area_down over part of the layer width (finding C08-scroll-area-raw-lines, repaired): the row surgery changes
   cells of the area only, so the UndoLayerChange snapshot frame around it is a sound edit; lifted into the full document it is the
   partial-width branch of x_scroll_area_ud, a constructor of xmodelled *)
Theorem scroll_area_ud_sound : forall up, sound_edit op_undo op_redo eqv (area_body (mut_scroll_ud up)).
Proof. exact area_body_scroll_ud_sound. Qed.

(* before the fix commit a one-row area was drained and never filled again: the cells right of the area moved left, outside the recorded
   snapshot (here: columns 1..1 of a four-cell row; the cell in column 2 changes); the repaired surgery leaves a one-row area as it is *)
Theorem scroll_area_before_fix_refuted :
  let row := [cA; cQ; cA; cQ] in
  snd (drain_row 1 2 row) = [cA; cA; cQ] /\ scroll_ud_rows true 1 2 [row] = [row] /\ scroll_ud_rows false 1 2 [row] = [row].
Proof. repeat split; vm_compute; reflexivity. Qed.

(* Non-vacuity: a history over the full document (palette switch, set_char, paste, merge down, resize with layers, add font,
   ice mode) satisfies the premises of x_undo_redo_history and changes palette, layers, size, font table and mode *)
Definition xex_cell : cell := mkCell 66 7 9 0 0.
Definition xex_hist : list (XE -> res XE) :=
  [x_switch_to_palette [1; 2; 3]%N; lift_edit (api_set_char 1 0 xex_cell); x_paste_clipboard_data (paste_layer 1 0 2 1 [xex_cell; xex_cell]);
   x_merge_layer_down 1; x_resize_buffer_layers 3 2; x_add_ansi_font 2 (Some 8%N); x_set_ice_mode 1].

Example xex_hist_runs : exists en, xrun xex_hist (wit_doc [(0, 1)]%N None 3 0) en /\ length (ustk en) = 7%nat /\
  x_pal (cur en) = [1; 2; 3]%N /\ bw (xb (cur en)) = 3 /\ fget 2 (x_fonts (cur en)) = Some 8%N /\ x_ice (cur en) = 1%N /\
  length (xlayers (cur en)) = 1%nat.
Proof.
  eexists. split.
  - unfold xex_hist.
    eapply xrun_cons; [apply xm_switch_to_palette|vm_compute; reflexivity|].
    eapply xrun_cons; [apply xm_lift, lf_set_char|vm_compute; reflexivity|].
    eapply xrun_cons; [apply xm_paste|vm_compute; reflexivity|].
    eapply xrun_cons; [apply xm_merge_layer_down|vm_compute; reflexivity|].
    eapply xrun_cons; [apply xm_resize_buffer_layers|vm_compute; reflexivity|].
    eapply xrun_cons; [apply xm_add_ansi_font|vm_compute; reflexivity|].
    eapply xrun_cons; [apply (xm_set_ice_mode ice_conv)|vm_compute; reflexivity|].
    apply xrun_nil.
  - repeat split; reflexivity.
Qed.

Example xex_fresh : fresh (wit_doc [(0, 1)]%N None 3 0).
Proof. split; reflexivity. Qed.

(* a history with the four row / column operations on a ragged layer (one stored row of two cells in a 4x2 layer, caret at (1, 0)):
   the row of cells is deleted, an empty one inserted *)
Definition xex_rc_doc : XE :=
  mkEs (mkX (mkE 4 2 [mkLayer 0 true false false false false 0 0 0 4 2 (10, 0)%N [[xex_cell; xex_cell]]] 0 None false 1 0)
            [0%N; 170%N] [(0, 1)]%N None 0 1 0 0 (mkMask 4 2 [])) [] [].
Definition xex_rc_hist : list (XE -> res XE) := [x_insert_column; x_delete_row; x_delete_column; x_insert_row; x_set_palette_mode_gen (fun _ s => Ok (x_pal s, xlayers s)) 0].

Example xex_rc_hist_runs : exists en, xrun xex_rc_hist xex_rc_doc en /\ length (ustk en) = 5%nat /\
  (forall L, nth_error (xlayers (cur en)) 0 = Some L -> l_lines L = [[]; []]).
Proof.
  eexists. split.
  - unfold xex_rc_hist.
    eapply xrun_cons; [apply xm_insert_column|vm_compute; reflexivity|].
    eapply xrun_cons; [apply xm_delete_row|vm_compute; reflexivity|].
    eapply xrun_cons; [apply xm_delete_column|vm_compute; reflexivity|].
    eapply xrun_cons; [apply xm_insert_row|vm_compute; reflexivity|].
    eapply xrun_cons; [apply xm_set_palette_mode|vm_compute; reflexivity|].
    apply xrun_nil.
  - split; [reflexivity|]. intros L H. vm_compute in H. injection H as <-. reflexivity.
Qed.
