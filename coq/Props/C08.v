(* C08 — undo restores the document and redo the edit, for every edit history.
   Statements only; proofs in Proofs/UndoProofs.v (framework) and Proofs/EditProofs.v (operations). *)
From Coq Require Import List ZArith NArith Bool Arith.
From IE Require Import Gen.UndoGen Model.Undo Model.EditModel Model.EditOps Proofs.UndoProofs.
Import ListNotations.

(* ================================================================================================================
   (1) The framework: ANY document type st, ANY operation type uop with ANY undo/redo functions (payloads may be
   re-captured), ANY equivalence eqv on documents. *)
Section Framework.
  Context {st uop : Type}.
  Variable op_undo op_redo : uop -> st -> res (uop * st).
  Variable eqv : st -> st -> Prop.
  Hypothesis eqv_refl : forall a, eqv a a.
  Hypothesis eqv_sym : forall a b, eqv a b -> eqv b a.
  Hypothesis eqv_trans : forall a b c, eqv a b -> eqv b c -> eqv a c.

  Notation Undoable := (Undoable op_undo op_redo eqv).
  Notation Redoable := (Redoable op_undo op_redo eqv).
  Notation Zip := (Zip op_undo op_redo eqv).
  Notation edit_chain := (edit_chain op_undo op_redo eqv).
  Notation sound_edit := (sound_edit op_undo op_redo eqv).

  (* every interleaving of undo (true) and redo (false) steps from a state satisfying the zipper invariant: no step
     fails, the invariant is kept, the timeline (past, present, future documents) is unchanged, and the position
     in it is the one the walk computes (undo at the bottom and redo at the top are no-ops) *)
  Theorem interleaving_sound : forall w (e : @es st uop) past now fut, Zip e past now fut ->
    exists e' past' now' fut',
      run_ur op_undo op_redo w e = Ok e' /\ Zip e' past' now' fut' /\
      timeline past' now' fut' = timeline past now fut /\
      length past' = walk w (length past) (length past + length fut) /\
      (length past' + length fut' = length past + length fut)%nat.
  Proof. exact (interleaving_zip op_undo op_redo eqv). Qed.

  (* history_sound: fresh editor, any sequence of sound edits that each report Ok, then any interleaving: the document is
     equivalent to the entry of one fixed timeline (one entry per undo step; first = initial document, last = final
     document) the walk points at; undo and redo never fail *)
  Theorem history_sound : forall (fs : list (@es st uop -> res (@es st uop))) e0 en d,
    fresh e0 -> Forall sound_edit fs -> run_edits fs e0 = Ok en ->
    let n := length (ustk en) in
    exists tl, length tl = S n /\ rstk en = [] /\
      eqv (nth 0 tl d) (cur e0) /\ nth n tl d = cur en /\
      forall w, exists e', run_ur op_undo op_redo w en = Ok e' /\
        eqv (cur e') (nth (walk w n n) tl d).
  Proof. exact (UndoProofs.history_sound op_undo op_redo eqv eqv_refl eqv_sym eqv_trans). Qed.

  (* undoing every step the history added restores the initial document; redoing them restores the final one *)
  Theorem undo_all_redo_all : forall (fs : list (@es st uop -> res (@es st uop))) e0 en,
    fresh e0 -> Forall sound_edit fs -> run_edits fs e0 = Ok en ->
    let n := length (ustk en) in
    exists e1 e2, iter_res (undo op_undo) n en = Ok e1 /\ eqv (cur e1) (cur e0) /\ ustk e1 = [] /\
                  iter_res (redo op_redo) n e1 = Ok e2 /\ eqv (cur e2) (cur en).
  Proof. exact (UndoProofs.undo_all_redo_all op_undo op_redo eqv eqv_refl eqv_sym eqv_trans). Qed.

  (* k undo steps go k entries back (surplus steps are no-ops), k redo steps k entries forward *)
  Theorem undo_k_restores : forall k (e : @es st uop) past now fut d, Zip e past now fut ->
    exists e', iter_res (undo op_undo) k e = Ok e' /\ eqv (cur e') (nth (length past - k) (timeline past now fut) d).
  Proof. exact (UndoProofs.undo_k_restores op_undo op_redo eqv). Qed.

  Theorem redo_k_restores : forall k (e : @es st uop) past now fut d, Zip e past now fut ->
    exists e', iter_res (redo op_redo) k e = Ok e' /\
      eqv (cur e') (nth (Nat.min (length past + k) (length past + length fut)) (timeline past now fut) d).
  Proof. exact (UndoProofs.redo_k_restores op_undo op_redo eqv). Qed.

  (* a new edit (one that pushes at least one operation) after any walk discards the redo history: redo is a no-op *)
  Theorem new_edit_clears_redo : forall (e e' : @es st uop) past now fut, Zip e past now fut -> edit_chain e e' ->
    (length (ustk e) < length (ustk e'))%nat ->
    rstk e' = [] /\ redo op_redo e' = Ok e' /\ exists mids, Zip e' (mids ++ past) (cur e') [].
  Proof. exact (UndoProofs.new_edit_clears_redo op_undo op_redo eqv eqv_refl eqv_sym eqv_trans). Qed.

  (* an atomic group of sound operations is a sound operation (groups nest: the members may be groups) *)
  Theorem atomic_group_sound : forall l a b, UChain op_undo op_redo eqv l a b -> Undoable (Atomic l) a b.
  Proof. exact (atomic_Undoable op_undo op_redo eqv eqv_sym eqv_trans). Qed.

  (* closing a guard folds whatever its body pushed into one sound entry; a body that pushed nothing leaves the stack alone *)
  Theorem nested_guard_folds : forall (body : @es st uop -> res (@es st uop)) e e',
    (forall e1 e2, body e1 = Ok e2 -> edit_chain e1 e2) ->
    with_guard body e = Ok e' ->
    edit_chain e e' /\ (length (ustk e') <= S (length (ustk e)))%nat.
  Proof. exact (with_guard_chain_le op_undo op_redo eqv eqv_refl eqv_sym eqv_trans). Qed.

  (* push_undo_action (= redo, then push) and push_plain_undo of sound operations are sound edits *)
  Theorem push_action_sound : forall (e : @es st uop) o s', Redoable o (cur e) s' ->
    exists e', push_action op_redo o e = Ok e' /\ edit_chain e e' /\ eqv (cur e') s'.
  Proof. exact (push_action_chain op_undo op_redo eqv eqv_refl eqv_sym). Qed.

  Theorem push_plain_sound : forall (e : @es st uop) o c, Undoable o (cur e) c -> edit_chain e (push_plain o (set_cur e c)).
  Proof. exact (push_plain_chain op_undo op_redo eqv eqv_refl). Qed.
End Framework.
