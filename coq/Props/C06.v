(* C06 — XBin compression is transparent and conforms to the XBin specification.
   Only statements, each closed by `exact <lemma>`; proofs live in Proofs/XBinProofs.v.
   Quantified objects: Model/XBin.v (transcription of src/formats/xbinary.rs after the `fix:` commit) over the
   constants of Gen/XBinConst.v, regenerated from the source on every run.
     rows        : the cells `buf.get_char((x,y))` the writer reads, any width, any height, any cell contents
     fonts, ic   : analyze_font_usage(buf) and buf.ice_mode — arbitrary
     o           : the look-ahead heuristic (count_length comparisons and their guards) — arbitrary
     il, fixed, width : ice_mode / font_mode / width of the buffer being loaded — arbitrary
   xb_spec_rows is the decoder written from doc/FileFormats/x_bin.htm; it rejects a run that would pass the end
   of a row, so `= Some (cells, [])` says: every run 1..64 cells, no run crosses a row, every row decodes to exactly
   `w` cells, nothing follows the last row, and the cells are those of the uncompressed encoding. *)
From Coq Require Import NArith ZArith List Bool.
From IE Require Import Lib.Tbl Gen.XBinConst Model.XBin Model.XBinLegacy Proofs.XBinProofs.
Import ListNotations.
Local Open Scope N_scope.

Definition same_width (w : nat) (rows : list (list cell)) : Prop := Forall (fun r => length r = w) rows.

(* soundness of the compressor for EVERY look-ahead oracle *)
Theorem compress_with_sound : forall o fonts ic w rows cb,
  same_width w rows -> compress_with o fonts ic rows = Ok cb ->
  xb_spec_rows w (length rows) cb = Some (map (map (enc fonts ic)) rows, []).
Proof. exact compress_with_sound_proof. Qed.

(* … in particular for the heuristic the code uses *)
Theorem compress_sound : forall fonts ic w rows cb,
  same_width w rows -> compress_backtrack fonts ic rows = Ok cb ->
  xb_spec_rows w (length rows) cb = Some (map (map (enc fonts ic)) rows, []).
Proof. exact (compress_with_sound bt_oracle). Qed.

(* explicit form of "each run covers 1 to 64 cells and the runs of a row add up to the width" *)
Theorem compress_row_runs : forall o fonts ic r b,
  crow o fonts ic r init_state = Ok b ->
  Forall (fun l => 1 <= l <= 64) (spec_run_lengths (length r) (length r) b) /\
  fold_right N.add 0 (spec_run_lengths (length r) (length r) b) = N.of_nat (length r).
Proof. exact compress_row_runs_proof. Qed.

Theorem compress_output_is_bytes : forall o fonts ic w rows cb,
  same_width w rows -> compress_with o fonts ic rows = Ok cb -> Forall (fun b => b < 256) cb.
Proof. exact compress_output_is_bytes_proof. Qed.

(* the two writers refuse exactly the same buffers (a character above 255) *)
Theorem compress_fails_iff_plain_fails : forall o fonts ic rows,
  compress_with o fonts ic rows = ErrOnly8Bit <-> plain_rows fonts ic rows = ErrOnly8Bit.
Proof. exact compress_fails_iff_plain_fails_proof. Qed.

(* the Rust reader stores exactly what the specification decoder decodes, on every stream the latter accepts *)
Theorem reader_refines_spec : forall il fixed width w h bs rows,
  xb_spec_rows w h bs = Some (rows, []) ->
  read_data_compressed il fixed width bs = (trace il fixed width (0%Z, 0%Z) (concat rows), ROk).
Proof. exact reader_refines_spec_proof. Qed.

(* transparency: loading the compressed file performs the same set_char calls (position, character, colours, blink,
   font page) as loading the uncompressed file, and ends with Ok *)
Theorem impl_decoder_agrees_with : forall il fixed width o fonts ic w rows cb pb,
  same_width w rows -> compress_with o fonts ic rows = Ok cb -> plain_rows fonts ic rows = Ok pb ->
  read_data_compressed il fixed width cb = (read_data_uncompressed il fixed width pb, ROk).
Proof. exact impl_decoder_agrees_with_proof. Qed.

Theorem impl_decoder_agrees : forall il fixed width fonts ic w rows cb pb,
  same_width w rows -> compress_backtrack fonts ic rows = Ok cb -> plain_rows fonts ic rows = Ok pb ->
  read_data_compressed il fixed width cb = (read_data_uncompressed il fixed width pb, ROk).
Proof. exact (fun il fixed width => impl_decoder_agrees_with_proof il fixed width bt_oracle). Qed.

(* the picture itself: loading the compressed file ends with Ok and its i-th set_char puts, at column i mod w of line i / w,
   the decoding of what the uncompressed writer stores for the i-th cell — every row lands on its own line *)
Theorem compressed_load_positions : forall il fixed o fonts ic w rows cb,
  same_width w rows -> (1 <= w)%nat -> compress_with o fonts ic rows = Ok cb ->
  snd (read_data_compressed il fixed (Z.of_nat w) cb) = ROk /\
  forall i c, nth_error (concat rows) i = Some c ->
    nth_error (fst (read_data_compressed il fixed (Z.of_nat w) cb)) i =
    Some (mkwr (Z.of_nat i mod Z.of_nat w)%Z (Z.of_nat i / Z.of_nat w)%Z (decode_char il fixed (ch c) (encode_attr fonts ic c))).
Proof. exact compressed_load_positions_proof. Qed.

(* count_length's u8 `run_count += 1` cannot overflow (compress_backtrack calls it with run_count < 64) *)
Theorem count_length_no_overflow : forall m rc er cnt cs acc, cnt <= 254 ->
  snd (count_length m rc er cnt cs acc false) = false.
Proof. exact count_length_no_overflow_proof. Qed.

(* the code as pinned (before the fix) violated transparency: pages 0000 1111, one character, one colour *)
Theorem impl_decoder_agrees_refuted_before_fix :
  exists cb pb, legacy_crow bt_oracle [0; 1] Ice row_0000_1111 init_state = Ok cb /\
                plain_rows [0; 1] Ice [row_0000_1111] = Ok pb /\
                read_data_compressed Ice true 8 cb <> (read_data_uncompressed Ice true 8 pb, ROk).
Proof. exact legacy_refuted. Qed.

(* ---- non-vacuity -------------------------------------------------------------------------------------------- *)
(* the same row through the fixed compressor: two runs of four, decoded by the specification decoder *)
Example fixed_row_compresses :
  compress_backtrack [0; 1] Ice [row_0000_1111] = Ok [195; 65; 7; 195; 65; 15]
  /\ xb_spec_rows 8 1 [195; 65; 7; 195; 65; 15] = Some ([map (enc [0; 1] Ice) row_0000_1111], [])
  /\ spec_run_lengths 8 8 [195; 65; 7; 195; 65; 15] = [4; 4].
Proof. vm_compute. repeat split. Qed.

(* a 130-cell row of one cell: 64 + 64 + 2; and a mixed row that uses all four run types *)
Definition long_row : list cell := repeat (mkcell 32 (mkattr 7 1 0 0)) 130.
Example long_row_runs :
  match crow bt_oracle [0] Blink long_row init_state with
  | Ok b => spec_run_lengths 130 130 b = [64; 64; 2] /\ b = [255; 32; 23; 255; 32; 23; 193; 32; 23]
  | ErrOnly8Bit => False
  end.
Proof. vm_compute. split; reflexivity. Qed.

Definition mixed_row : list cell :=
  [mkcell 65 (mkattr 7 0 0 0); mkcell 65 (mkattr 7 0 0 0); mkcell 65 (mkattr 7 0 0 0);
   mkcell 66 (mkattr 1 0 0 0); mkcell 66 (mkattr 2 0 0 0); mkcell 66 (mkattr 3 0 0 0);
   mkcell 67 (mkattr 4 0 0 0); mkcell 68 (mkattr 4 0 0 0); mkcell 69 (mkattr 4 0 0 0);
   mkcell 70 (mkattr 5 0 0 0); mkcell 71 (mkattr 6 0 0 0)].
Example mixed_row_all_types :
  match compress_backtrack [0] Ice [mixed_row], plain_rows [0] Ice [mixed_row] with
  | Ok cb, Ok pb =>
      map (fun h => h / 64) (firstn 1 cb) = [3]
      /\ existsb (fun t => t =? 1) (map (fun h => h / 64) cb) = true
      /\ read_data_compressed Ice false 11 cb = (read_data_uncompressed Ice false 11 pb, ROk)
      /\ length (fst (read_data_compressed Ice false 11 cb)) = 11%nat
  | _, _ => False
  end.
Proof. vm_compute. repeat split. Qed.

(* the error path exists: a character above 255 is refused by both writers *)
Example big_char_refused :
  compress_backtrack [0] Ice [[mkcell 9608 default_attr]] = ErrOnly8Bit /\ plain_rows [0] Ice [[mkcell 9608 default_attr]] = ErrOnly8Bit.
Proof. vm_compute. split; reflexivity. Qed.

(* ==== Extension: whole FILES ========================================================================================
   Composition with property C05's file-level model (header, flags, palette and font blocks: Model/C05XBin.v; the writer with
   SaveOptions.compress: Model/C05XBinC.v `save_xbo`) and the loader as it is after C02's fixes (Model/C02Loaders.v `load_xb2`).
   Proofs: Proofs/C05XBinCProofs.v (which rests on impl_decoder_agrees_with / compress_with_sound above).
   `xb_shape_g p two pg0 pg1 f0 f1 fh`: the picture has a size (1..4096 x 0..65535), a palette and font blocks the format
   admits and uses the font pages pg0 (and pg1); NOTHING is assumed about its cells.  Names of the C05 side are qualified
   because this file imports C06's own cell type. *)
From IE Require Lib.C05Lib Model.C05Buf Model.C05XBin Model.C05XBinC Model.C02Loaders Proofs.C05XBinCProofs.

(* "the compressed and the uncompressed XBin encodings decode to identical pictures": the two FILES load to the same buffer -
   every stored cell with its font page, sizes, modes, palette, fonts - whatever SAUCE records come with them *)
Theorem compressed_file_decodes_as_uncompressed_file : forall p two pg0 pg1 f0 f1 fh s s' dc,
  C05XBinCProofs.xb_shape_g p two pg0 pg1 f0 f1 fh ->
  C05XBinC.save_xbo true p = C05Lib.Ok dc ->
  exists du, C05XBinC.save_xbo false p = C05Lib.Ok du /\ C02Loaders.load_xb2 dc s = C02Loaders.load_xb2 du s'.
Proof. exact C05XBinCProofs.xb_files_load_alike. Qed.

(* "nothing but the optional SAUCE record follows the last row": the compressed file is the header, palette and font blocks
   followed by exactly one stream the specification decoder accepts completely (remainder []), whose rows decode to the
   (character, attribute) pairs of the uncompressed encoding *)
Theorem compressed_file_conforms_to_spec : forall p two pg0 pg1 f0 f1 fh dc,
  C05XBinCProofs.xb_shape_g p two pg0 pg1 f0 f1 fh ->
  C05XBinC.save_xbo true p = C05Lib.Ok dc ->
  exists D, dc = C05XBinCProofs.xb_file p two f0 f1 fh true D /\
            xb_spec_rows (Z.to_nat (C05Buf.p_w p)) (length (C05Buf.p_rows p)) D =
            Some (map (map (fun c => (C05Buf.c_ch c, C05XBin.encode_attr (C05Buf.p_ice p) (C05XBinCProofs.xb_pages two pg0 pg1) c)))
                      (C05Buf.p_rows p), []).
Proof. exact C05XBinCProofs.xb_file_spec_conformant. Qed.

(* the two models of the readers used above describe the same function: whenever C06's trace model of read_data_compressed
   ends with Ok, C02's layer model returns the layer with those set_char calls applied (and likewise for the uncompressed
   reader), for every mode, font mode, width, starting layer and byte string *)
Theorem reader_models_agree : forall m fixed w fuel bs L x y tr,
  rdc (C05XBinC.ice6 m) fixed w fuel (x, y) bs = (tr, ROk) ->
  C02Loaders.xbc_loop w (C05XBin.xb_decode m fixed) fuel L x y bs = C05Lib.Ok (C05XBinCProofs.apply_trace L tr).
Proof. exact C05XBinCProofs.loop_bridge. Qed.
