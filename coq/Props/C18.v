(* C18 — 8-bit attribute and code-page codecs are exact inverses on their domain.
   Only statements, each closed by `exact <lemma>`; proofs live in Proofs/AttrProofs.v and
   Proofs/CodepageProofs.v.  The definitions quantified over are those of Model/Attr.v and
   Model/Codepage.v over Gen/Codepage.v, i.e. over the flag constants and code-page tables regenerated
   from the Rust source on every run; the hand-written function bodies are tied to the code by stage C
   over their complete finite domains.  as_u8 is the function AFTER the fix commit (blink bit written
   in IceMode::Unlimited). *)
From Coq Require Import NArith Bool List.
From IE Require Import Lib.Tbl Gen.Codepage Model.Attr Model.Codepage Proofs.AttrProofs Proofs.CodepageProofs.
Import ListNotations.
Local Open Scope N_scope.

(* ------------------------------------------------------------------ attribute bytes *)

(* decoding a DOS attribute byte and re-encoding it in the same mode returns the byte:
   every byte, every mode *)
Theorem attr_decode_encode : forall m b, b < 256 -> as_u8 (from_u8 b m) m = b.
Proof. exact attr_decode_encode_proof. Qed.

(* encoding any attribute expressible in a mode (any flag word, any font page) and decoding it gives an
   attribute that looks the same: displayed foreground (bold folds into +8), background, blink *)
Theorem attr_encode_decode : forall m a, expressible m a -> shown (from_u8 (as_u8 a m) m) = shown a.
Proof. exact attr_encode_decode_proof. Qed.

(* ... and only those: the hypothesis cannot be weakened *)
Theorem attr_encode_decode_only_if : forall m a, shown (from_u8 (as_u8 a m) m) = shown a -> expressible m a.
Proof. exact attr_encode_decode_only_if_proof. Qed.

(* `expressible` is exactly "looks like the decoding of some byte" *)
Theorem expressible_iff_image : forall m a,
  expressible m a <-> exists b, b < 256 /\ shown (from_u8 b m) = shown a.
Proof. exact expressible_iff_image_proof. Qed.

(* without the bold flag the raw colour fields and blink come back unchanged *)
Theorem attr_encode_decode_exact : forall m a, expressible m a -> is_bold a = false ->
  let d := from_u8 (as_u8 a m) m in
  foreground_color d = foreground_color a /\ background_color d = background_color a /\
  is_blinking d = is_blinking a /\ is_bold d = false /\ font_page d = DEFAULT_FONT_PAGE.
Proof. exact attr_encode_decode_exact_proof. Qed.

Theorem as_u8_range : forall a m, as_u8 a m < 256.
Proof. exact as_u8_range_proof. Qed.

(* from_color(fg, bg) is the attribute of the byte fg | bg << 4 in Blink mode, for all u8 arguments *)
Theorem from_color_codec : forall fg bg, fg < 256 -> bg < 256 ->
  as_u8 (from_color fg bg) Blink = color_byte fg bg /\
  shown (from_color fg bg) = shown (from_u8 (color_byte fg bg) Blink) /\
  expressible Blink (from_color fg bg).
Proof. exact from_color_codec_proof. Qed.

(* ------------------------------------------------------------------ code pages *)

(* no converter can panic in its lazy_static initialiser *)
Theorem from_unicode_total : forall c ch, exists v, from_unicode c ch = Some v.
Proof. exact from_unicode_total_proof. Qed.

Theorem cp437_roundtrip : forall x, x < 256 -> from_unicode CP437 (to_unicode CP437 x) = Some x.
Proof. exact cp437_roundtrip_proof. Qed.

Theorem atascii_roundtrip : forall x, x < 128 -> from_unicode Atascii (to_unicode Atascii x) = Some x.
Proof. exact atascii_roundtrip_proof. Qed.

(* the other direction for CP437: every character of the table goes to a code and back *)
Theorem cp437_unicode_roundtrip : forall u, In u CP437_TO_UNICODE ->
  exists x, from_unicode CP437 u = Some x /\ x < 256 /\ to_unicode CP437 x = u.
Proof. exact cp437_unicode_roundtrip_proof. Qed.

Theorem cp437_injective : forall x y, x < 256 -> y < 256 -> to_unicode CP437 x = to_unicode CP437 y -> x = y.
Proof. exact cp437_injective_proof. Qed.

(* a typed letter, digit or space converts to a one-byte code of the emulation and back, for all five
   converters (CP437, ATASCII, PETSCII, Viewdata, Mode7) *)
Theorem typed_roundtrip : forall c ch, is_typed ch = true ->
  exists code, from_unicode c ch = Some code /\ code < 256 /\ to_unicode c code = ch.
Proof. exact typed_roundtrip_proof. Qed.

(* structure for every character, not only the table domain *)
Theorem from_unicode_off_keys : forall c ch, c <> Petscii -> ~ In ch (rev_keys c) -> from_unicode c ch = Some ch.
Proof. exact from_unicode_off_keys_proof. Qed.

Theorem to_unicode_beyond_table : forall c ch, c <> Petscii -> 256 <= ch -> to_unicode c ch = ch.
Proof. exact to_unicode_beyond_table_proof. Qed.

(* the model's reverse map is "greatest code wins", i.e. HashMap::insert in increasing key order *)
Theorem rev_map_last_wins : forall t lo hi m, lo <= hi -> build_rev t lo hi = Some m ->
  forall u i, lo <= i < hi -> tbl_get t i = Some u ->
   (forall j, i < j < hi -> tbl_get t j <> Some u) -> assoc u m = Some i.
Proof. exact rev_map_last_wins_proof. Qed.

(* ------------------------------------------------------------------ the repaired defect (documentation) *)

(* the expression as_u8 had before the fix commit loses bit 7 of all 128 bytes >= 0x80 in Unlimited mode *)
Theorem as_u8_before_fix_refuted :
  as_u8_before_fix (from_u8 128 Unlimited) Unlimited = 0 /\
  length (filter (fun b => negb (as_u8_before_fix (from_u8 b Unlimited) Unlimited =? b)) (nrange 256)) = 128%nat.
Proof. exact before_fix_refuted_proof. Qed.

(* and the repair touches nothing but blinking attributes in Unlimited mode *)
Theorem fix_is_local : forall fg bg bold blink m,
  (m = Unlimited -> blink = false) ->
  as_u8_core fg bg bold blink m = as_u8_core_before_fix fg bg bold blink m.
Proof. exact fix_is_local_proof. Qed.

(* ------------------------------------------------------------------ non-vacuity *)

(* a blinking, bold, underlined attribute on font page 3 is expressible in Blink and Unlimited mode,
   a bright-background one in Ice mode; the hypotheses of attr_encode_decode are satisfiable in every mode *)
Definition sample_blink : TextAttribute := mkAttr 3 5 2 (N.lor ATTR_BLINK (N.lor ATTR_BOLD ATTR_UNDERLINE)).
Definition sample_ice : TextAttribute := mkAttr 0 14 12 ATTR_NONE.
Example sample_blink_expressible : expressible Blink sample_blink /\ expressible Unlimited sample_blink.
Proof. split; vm_compute; reflexivity. Qed.
Example sample_ice_expressible : expressible Ice sample_ice.
Proof. vm_compute. reflexivity. Qed.
Example sample_values :
  as_u8 sample_blink Blink = 173 /\ as_u8 sample_blink Unlimited = 173 /\ as_u8 sample_ice Ice = 206 /\
  shown (from_u8 173 Blink) = (13, 2, true) /\ shown sample_blink = (13, 2, true) /\
  shown (from_u8 206 Ice) = (14, 12, false).
Proof. vm_compute. repeat split. Qed.
(* attributes that are not expressible exist in every mode (so `expressible` is not `True`) *)
Example inexpressible_examples :
  ~ expressible Blink sample_ice /\ ~ expressible Unlimited sample_ice /\ ~ expressible Ice sample_blink.
Proof. repeat split; vm_compute; discriminate. Qed.
(* code pages: the tables are the real ones *)
Example codepage_values :
  to_unicode CP437 219 = 9608 /\ from_unicode CP437 9608 = Some 219 /\
  to_unicode Atascii 0 = 9829 /\ from_unicode Atascii 9829 = Some 0 /\
  from_unicode Petscii 65 = Some 97 /\ to_unicode Petscii 97 = 65 /\
  from_unicode Viewdata 102 = Some 102 /\ to_unicode Viewdata 35 = 102 /\
  is_typed 65 = true /\ is_typed 64 = false.
Proof. vm_compute. repeat split. Qed.
(* the bound 128 in atascii_roundtrip is tight *)
Example atascii_bound_tight :
  to_unicode Atascii 128 = to_unicode Atascii 0 /\ from_unicode Atascii (to_unicode Atascii 128) = Some 0.
Proof. exact atascii_bound_tight_proof. Qed.
