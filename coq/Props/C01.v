(* C01 — no byte stream can crash a terminal emulation.  PARTIAL: see notes/C01.md for what the theorems cover.
   Statements only; proofs in Proofs/SafeProofs.v (on top of the C09 development). *)
From Coq Require Import ZArith NArith List Bool.
From IE Require Import Model.TermCore Model.AnsiTok Model.Emu Proofs.TermProofs Proofs.AnsiProofs Proofs.EmuProofs Proofs.SafeProofs.
Import ListNotations.
Local Open Scope Z_scope.

(* (a) ASCII, ATASCII, Viewdata, Mode 7: every stream of any length, every screen size: the run ends in a state, i.e.
   every character yielded an action or an error value, never a panic, never a divergence *)
Theorem c01_standalone : forall e music bs w h cs,
  standalone e = true -> 1 <= w <= 132 -> 1 <= h <= 60 ->
  exists m', run e (init music bs w h) cs = RunOk m'.
Proof. exact c01_standalone_proof. Qed.

(* (b) the ANSI parser, ANY parser state (CSI, DCS, OSC, APS, music, ...), on a screen state that satisfies the C09
   invariant and without stored macros: one character panics only at a KNOWN site *)
Theorem c01_ansi_char_partial : forall fuel m ch, Inv09 (tm m) -> macros (ps m) = [] ->
  match astep fuel m ch with OPanic s => KnownC01 s | _ => True end.
Proof. exact astep_safe. Qed.

(* (c) stream form of (b): after any stream that executed no text-area resize (and left no macro stored) the next
   character panics only at a known site; music option, backspace option and screen size arbitrary *)
Theorem c01_stream_partial : forall music bs w h cs m ch,
  1 <= w <= 132 -> 1 <= h <= 60 ->
  run EAnsi (init music bs w h) cs = RunOk m -> resized (ps (am m)) = false -> macros (ps (am m)) = [] ->
  match step EAnsi m ch with MPanic s => KnownC01 s | _ => True end.
Proof. exact c01_next_char_proof. Qed.

(* (d) the operations of the terminal core never panic on a state of the invariant *)
Theorem core_ops_never_panic : forall t c n, Inv09 t ->
  okr (print_char t c) /\ okr (caret_lf t) /\ okr (caret_erase t n) /\ okr (remove_terminal_line t (cy t)) /\
  okr (insert_terminal_line t (cy t)) /\ okr (scroll_right t) /\ okr (limit_caret_pos t).
Proof.
  intros t c n HI. repeat split.
  - apply print_char_okr; exact HI.
  - apply caret_lf_okr; apply HI.
  - apply caret_erase_okr; exact HI.
  - apply remove_terminal_line_okr; exact HI.
  - apply insert_terminal_line_okr; exact HI.
  - apply scroll_right_okr; apply HI.
  - eapply limit_okr; [apply HI|reflexivity].
Qed.

(* ---- the known classes are real (witnesses), and the repaired ones are gone ------------------------------------------- *)
Definition outcome_of (music : Z) (cs : list Z) : Z :=
  match run EAnsi (init music false 80 25) cs with RunOk _ => 0 | RunPanic s => s | RunDiverge => -2 end.
(* ESC P CTerm:Font:0: ESC \ *)
Example known_font_witness : outcome_of 0 ([27; 80] ++ CTERM_FONT ++ [48; 58; 27; 92]) = SITE_FONT. Proof. vm_compute. reflexivity. Qed.
(* CSI 55296;1;1;2;2 $ x *)
Example known_fill_witness : outcome_of 0 [27; 91; 53; 53; 50; 57; 54; 59; 49; 59; 49; 59; 50; 59; 50; 36; 120] = SITE_FILL_CHAR. Proof. vm_compute. reflexivity. Qed.
(* ESC P 1;0;1!z 1B5B312A7A ESC \  then CSI 1*z : a macro that invokes itself *)
Example known_macro_recursion_witness :
  outcome_of 0 ([27; 80; 49; 59; 48; 59; 49; 33; 122; 49; 66; 53; 66; 51; 49; 50; 65; 55; 65; 27; 92] ++ [27; 91; 49; 42; 122]) = -2.
Proof. vm_compute. reflexivity. Qed.
(* repaired: ESC ] 8 ; ; ESC \ | CSI 0;0 r CSI M | FF CSI SP @ | music O6B+ | 80 LF CSI 2147483647 e | CSI 1;2147483647 r CSI M *)
Example fixed_osc8 : outcome_of 0 [27; 93; 56; 59; 59; 27; 92] = 0. Proof. vm_compute. reflexivity. Qed.
Example fixed_neg_margin : outcome_of 0 [27; 91; 48; 59; 48; 114; 27; 91; 77; 27; 91; 76] = 0. Proof. vm_compute. reflexivity. Qed.
Example fixed_scroll_left : outcome_of 0 [12; 27; 91; 32; 64; 27; 91; 32; 65] = 0. Proof. vm_compute. reflexivity. Qed.
Example fixed_music : outcome_of 1 [27; 91; 77; 79; 54; 66; 43; 14] = 0. Proof. vm_compute. reflexivity. Qed.
Example fixed_vpr : outcome_of 0 (repeat 10 80 ++ [27; 91; 50; 49; 52; 55; 52; 56; 51; 54; 52; 55; 101]) = 0. Proof. vm_compute. reflexivity. Qed.
Example fixed_huge_margin : outcome_of 0 [27; 91; 49; 59; 50; 49; 52; 55; 52; 56; 51; 54; 52; 55; 114; 27; 91; 77] = 0. Proof. vm_compute. reflexivity. Qed.
