(* C01 — no byte stream can crash a terminal emulation.  See notes/C01.md for what the theorems cover.
   (Reconciled with the merged tree: the stream-supplied font and the DECFRA fill character no longer panic; since the
   macro nesting limit (fix 2513579, MAX_MACRO_NESTING) the last known class - unbounded macro recursion - is gone too:
   every stream of every emulation ends in a state, sections (f)-(h).)
   Statements only; proofs in Proofs/SafeProofs.v (on top of the C09 development). *)
From Coq Require Import ZArith NArith List Bool.
From IE Require Import Model.TermCore Model.AnsiTok Model.Emu Proofs.TermProofs Proofs.AnsiProofs Proofs.EmuProofs Proofs.SafeProofs.
From IE Require Import Model.Petscii Proofs.WeakInv Proofs.AnsiSafeW Proofs.EmuSafeW Proofs.PetsciiProofs Proofs.MacroFuel Gen.MacroLimit.
Import ListNotations.
Local Open Scope Z_scope.

(* (a) ASCII, ATASCII, Viewdata, Mode 7: every stream of any length, every screen size: the run ends in a state, i.e.
   every character yielded an action or an error value, never a panic, never a divergence *)
Theorem c01_standalone : forall e music bs w h cs,
  standalone e = true -> 1 <= w <= 132 -> 1 <= h <= 60 ->
  exists m', run e (init music bs w h) cs = RunOk m'.
Proof. exact c01_standalone_proof. Qed.

(* (b) the ANSI parser, ANY parser state (CSI, DCS incl. font loading, OSC, APS, music, ...), on a screen state that
   satisfies the C09 invariant and without stored macros: one character yields an action or an error value - no panic
   site of the model is reached, the macro recursion is not entered *)
Theorem c01_ansi_char_partial : forall fuel m ch, Inv09 (tm m) -> macros (ps m) = [] ->
  exists m', astep fuel m ch = OOk m' \/ astep fuel m ch = OErr m'.
Proof. exact astep_ok_or_err. Qed.

(* (c) stream form of (b): after any stream that executed no text-area resize (and left no macro stored) the next
   character yields an action or an error value; music option, backspace option and screen size arbitrary *)
Theorem c01_stream_partial : forall music bs w h cs m ch,
  1 <= w <= 132 -> 1 <= h <= 60 ->
  run EAnsi (init music bs w h) cs = RunOk m -> resized (ps (am m)) = false -> macros (ps (am m)) = [] ->
  exists m', step EAnsi m ch = MOk m' \/ step EAnsi m ch = MErr m'.
Proof. exact c01_next_char_proof. Qed.

(* (c') every stream: it runs through to a state (every character an action or an error value), or the character at
   which it stops (panic / macro recursion) was processed in a state reached after a text-area resize or with a macro
   stored.  Uncovered m := resized (ps (am m)) = true \/ macros (ps (am m)) <> [] *)
Theorem c01_ansi_stream_partial : forall music bs w h cs,
  1 <= w <= 132 -> 1 <= h <= 60 ->
  (exists m', run EAnsi (init music bs w h) cs = RunOk m') \/
  (exists pre c post m', cs = pre ++ c :: post /\ run EAnsi (init music bs w h) pre = RunOk m' /\ Uncovered m').
Proof. exact c01_ansi_stream_proof. Qed.

(* (d) the operations of the terminal core never panic on a state of the invariant *)
Theorem core_ops_never_panic : forall t c n, Inv09 t ->
  okr (print_char t c) /\ okr (caret_lf t) /\ okr (caret_erase t n) /\ okr (remove_terminal_line t (cy t)) /\
  okr (insert_terminal_line t (cy t)) /\ okr (scroll_right t) /\ okr (limit_caret_pos t).
Proof.
  intros t c n HI. repeat split.
  - apply print_char_okr; exact HI.
  - apply caret_lf_okr; apply HI.
  - apply caret_erase_okr; exact HI.
  - apply remove_terminal_line_okr; exact HI.
  - apply insert_terminal_line_okr; exact HI.
  - apply scroll_right_okr; apply HI.
  - eapply limit_okr; [apply HI|reflexivity].
Qed.

(* ---- the known class is real (witness), and the repaired ones are gone ---------------------------------------------------- *)
Definition outcome_of (music : Z) (cs : list Z) : Z :=
  match run EAnsi (init music false 80 25) cs with RunOk _ => 0 | RunPanic s => s end.
(* number of error values of a stream (-1000 after a panic / divergence) *)
Fixpoint errors_of (m : mach) (cs : list Z) : Z :=
  match cs with
  | [] => 0
  | c :: r => match step EAnsi m c with MOk m1 => errors_of m1 r | MErr m1 => 1 + errors_of m1 r | _ => -1000 end
  end.
Definition ST : list Z := [27; 92].
(* ESC P 1;0;1!z 1B5B312A7A ESC \  then CSI 1*z : a macro that invokes itself.  Before the fix (2513579) the code recursed
   until the stack overflowed (old-behaviour witness: macro_recursion_reaches_every_limit below); now the stream ends in a
   state and the invocation is ONE error value (MacroNestingTooDeep, reported by the outermost `CSI 1 * z`) *)
Example fixed_macro_recursion :
  outcome_of 0 ([27; 80; 49; 59; 48; 59; 49; 33; 122; 49; 66; 53; 66; 51; 49; 50; 65; 55; 65; 27; 92] ++ [27; 91; 49; 42; 122]) = 0.
Proof. vm_compute. reflexivity. Qed.
Example fixed_macro_recursion_is_error :
  errors_of (init 0 false 80 25) ([27; 80; 49; 59; 48; 59; 49; 33; 122; 49; 66; 53; 66; 51; 49; 50; 65; 55; 65; 27; 92] ++ [27; 91; 49; 42; 122]) = 1.
Proof. vm_compute. reflexivity. Qed.
(* the Uncovered side of c01_ansi_stream_partial is not vacuous: that stream reaches a state with a macro stored *)
Example macro_recursion_is_uncovered :
  match run EAnsi (init 0 false 80 25) [27; 80; 49; 59; 48; 59; 49; 33; 122; 49; 66; 53; 66; 51; 49; 50; 65; 55; 65; 27; 92; 27; 91; 49; 42] with
  | RunOk m => negb (Nat.eqb (length (macros (ps (am m)))) 0) | _ => false end = true.
Proof. vm_compute. reflexivity. Qed.
(* repaired by other properties' commits (merged tree): ESC P CTerm:Font:0: ESC \ is an error value (09bc4f1, 952a970) ... *)
Example fixed_font_short : outcome_of 0 ([27; 80] ++ CTERM_FONT ++ [48; 58] ++ ST) = 0. Proof. vm_compute. reflexivity. Qed.
Example fixed_font_short_is_error : errors_of (init 0 false 80 25) ([27; 80] ++ CTERM_FONT ++ [48; 58] ++ ST) = 1. Proof. vm_compute. reflexivity. Qed.
(* ... and CSI 55296;1;1;2;2 $ x too *)
Example fixed_fill_surrogate : outcome_of 0 [27; 91; 53; 53; 50; 57; 54; 59; 49; 59; 49; 59; 50; 59; 50; 36; 120] = 0. Proof. vm_compute. reflexivity. Qed.
Example fixed_fill_surrogate_is_error : errors_of (init 0 false 80 25) [27; 91; 53; 53; 50; 57; 54; 59; 49; 59; 49; 59; 50; 59; 50; 36; 120] = 1. Proof. vm_compute. reflexivity. Qed.
(* a loadable font (256 zero bytes = an 8x1 raw font, base64 "AAA...AA==") in slot 100 makes CSI 0;100 SP D an action;
   without it the same sequence is an error value *)
Definition FONT100 : list Z := [27; 80] ++ CTERM_FONT ++ [49; 48; 48; 58] ++ repeat 65 342 ++ [61; 61] ++ ST.
Definition SEL100 : list Z := [27; 91; 48; 59; 49; 48; 48; 32; 68].
Example font_load_then_select : errors_of (init 0 false 80 25) (FONT100 ++ SEL100) = 0. Proof. vm_compute. reflexivity. Qed.
Example select_without_font : errors_of (init 0 false 80 25) SEL100 = 1. Proof. vm_compute. reflexivity. Qed.
(* Avatar ^V^H 3 2 puts the cursor at column 2, row 1 (1-based bytes); ^V^H 0 0 at the origin; ^V^H 240 240 is clamped *)
Example avatar_goto : match run EAvatar (init 0 false 80 25) [22; 8; 3; 2] with RunOk m => (cx (mt m), cy (mt m)) | _ => (-1, -1) end = (2, 1).
Proof. vm_compute. reflexivity. Qed.
Example avatar_goto_zero : match run EAvatar (init 0 false 80 25) [22; 8; 0; 0] with RunOk m => (cx (mt m), cy (mt m)) | _ => (-1, -1) end = (0, 0).
Proof. vm_compute. reflexivity. Qed.
Example avatar_goto_far : match run EAvatar (init 0 false 80 25) [22; 8; 240; 240] with RunOk m => (cx (mt m), cy (mt m)) | _ => (-1, -1) end = (79, 24).
Proof. vm_compute. reflexivity. Qed.
(* repaired: ESC ] 8 ; ; ESC \ | CSI 0;0 r CSI M | FF CSI SP @ | music O6B+ | 80 LF CSI 2147483647 e | CSI 1;2147483647 r CSI M *)
Example fixed_osc8 : outcome_of 0 [27; 93; 56; 59; 59; 27; 92] = 0. Proof. vm_compute. reflexivity. Qed.
Example fixed_neg_margin : outcome_of 0 [27; 91; 48; 59; 48; 114; 27; 91; 77; 27; 91; 76] = 0. Proof. vm_compute. reflexivity. Qed.
Example fixed_scroll_left : outcome_of 0 [12; 27; 91; 32; 64; 27; 91; 32; 65] = 0. Proof. vm_compute. reflexivity. Qed.
Example fixed_music : outcome_of 1 [27; 91; 77; 79; 54; 66; 43; 14] = 0. Proof. vm_compute. reflexivity. Qed.
Example fixed_vpr : outcome_of 0 (repeat 10 80 ++ [27; 91; 50; 49; 52; 55; 52; 56; 51; 54; 52; 55; 101]) = 0. Proof. vm_compute. reflexivity. Qed.
Example fixed_huge_margin : outcome_of 0 [27; 91; 49; 59; 50; 49; 52; 55; 52; 56; 51; 54; 52; 55; 114; 27; 91; 77] = 0. Proof. vm_compute. reflexivity. Qed.

(* ==== Extension: resize, stored macros, the four wrappers, PETSCII ============================================================
   W (Proofs/WeakInv.v) is the weak invariant that survives a text-area resize:
     W t := (1 <= tw t /\ 1 <= th t /\ 1 <= bw t /\ 1 <= bh t /\ origin_m t = false /\ mnn (mtb t) /\ mnn (mlr t) /\
             Forall (fun x => 0 <= x) (tabs t)) /\ 0 <= cx t /\ 0 <= cy t        with mnn (Some (a, b)) := 0 <= a <= b.
   Inv09 t -> W t (Inv09_W); the initial state satisfies it; every operation keeps it and needs no more to be panic-free. *)

(* (e) the ANSI parser, ANY parser state, ANY macro table, ANY value of the nesting counter (fuel = MAX_MACRO_NESTING - counter),
   before or after a resize: one character on a W state yields an action or an error value (ODeep = the error
   MacroNestingTooDeep) on a W state; never a panic.  No exception left. *)
Theorem c01_ansi_char : forall fuel m ch, W (tm m) ->
  match astep fuel m ch with OOk m' | OErr m' | ODeep m' => W (tm m') | OPanic _ => False end.
Proof. exact astep_char_total. Qed.

(* (f) the ANSI parser and its four wrappers (wrapper e: EAnsi EAvatar EPcb ECtrlA ERenegade), EVERY stream of any length,
   every screen size, every music / backspace option: the run ends in a state - every character yielded an action or an
   error value.  No side condition on resizes or macros (before the nesting limit: "... or it stops in the macro-nesting
   overflow at a character processed with a macro stored"); supersedes c01_ansi_stream_partial. *)
Theorem c01_wrappers : forall e music bs w h cs,
  wrapper e = true -> 1 <= w <= 132 -> 1 <= h <= 60 -> exists m', run e (init music bs w h) cs = RunOk m'.
Proof. exact c01_wrappers_proof. Qed.
Theorem c01_wrappers_no_panic : forall e music bs w h cs s,
  wrapper e = true -> 1 <= w <= 132 -> 1 <= h <= 60 -> run e (init music bs w h) cs <> RunPanic s.
Proof. exact c01_wrappers_no_panic_proof. Qed.
(* what holds after every stream, resized or not *)
Theorem c01_wrappers_state : forall e music bs w h cs m',
  wrapper e = true -> 1 <= w <= 132 -> 1 <= h <= 60 -> run e (init music bs w h) cs = RunOk m' -> W (mt m').
Proof. exact c01_wrappers_state_proof. Qed.

(* (g) PETSCII (Model/Petscii.v), full strength: every stream of any length on every screen ends in a state *)
Theorem c01_petscii : forall music bs w h cs,
  1 <= w <= 132 -> 1 <= h <= 60 -> exists m', run_petscii (init music bs w h) cs = RunOk m'.
Proof. exact c01_petscii_proof. Qed.

(* (h) all ten emulations in one statement: no stream makes any of them panic *)
Theorem c01_no_emulation_panics : forall music bs w h cs s,
  1 <= w <= 132 -> 1 <= h <= 60 ->
  (forall e, run e (init music bs w h) cs <> RunPanic s) /\ run_petscii (init music bs w h) cs <> RunPanic s.
Proof.
  intros music bs w h cs s Hw Hh. split.
  - intro e. destruct (wrapper e) eqn:We; [apply c01_wrappers_no_panic; assumption|].
    assert (Se : standalone e = true) by (destruct e; try discriminate; reflexivity).
    destruct (c01_standalone e music bs w h cs Se Hw Hh) as [m' E]. rewrite E. discriminate.
  - destruct (c01_petscii music bs w h cs Hw Hh) as [m' E]. rewrite E. discriminate.
Qed.

(* (h') the same, positively: every stream of each of the ten emulations ends in a state (a run has no other way to end
   than a state or a panic: the type [rout] lost its third constructor together with the macro recursion) *)
Theorem c01_every_stream_ends : forall music bs w h cs,
  1 <= w <= 132 -> 1 <= h <= 60 ->
  (forall e, exists m', run e (init music bs w h) cs = RunOk m') /\ exists m', run_petscii (init music bs w h) cs = RunOk m'.
Proof.
  intros music bs w h cs Hw Hh. split.
  - intro e. destruct (wrapper e) eqn:We; [apply c01_wrappers; assumption|].
    assert (Se : standalone e = true) by (destruct e; try discriminate; reflexivity).
    apply c01_standalone; assumption.
  - apply c01_petscii; assumption.
Qed.

(* (i) the nesting limit only cuts: an outcome that is not the error MacroNestingTooDeep is the outcome for every larger
   limit, hence the outcome of the code before the limit existed - the fix changes nothing but the recursion it ends *)
Theorem macro_limit_only_cuts : forall k fuel m ch, (forall d, astep fuel m ch <> ODeep d) -> astep (fuel + k) m ch = astep fuel m ch.
Proof. exact astep_fuel_irrelevant. Qed.
(* (i') the OLD behaviour, as a statement about the same model: in the state reached by `ESC P 1;0;1!z 1B5B312A7A ESC \ ESC [ 1 *`
   the character z nests to EVERY limit n (and then reports the error): with no limit - the code before 2513579 - the
   recursion does not end (stack overflow, the former known class C01-stackoverflow:invoke_macro_by_id) *)
Theorem macro_recursion_reaches_every_limit : forall n, astep n self_state 122 = ODeep self_after.
Proof. exact macro_self_reaches_every_limit. Qed.

(* ---- non-vacuity of the extension ------------------------------------------------------------------------------------------------ *)
Definition CSI : list Z := [27; 91].
(* 30 LF, CSI 2;20 r, CSI 79 C, then the resize CSI 8;1;1 t: the cursor is outside the new 1 x 1 screen (the C09 invariant is gone) ... *)
Definition RESIZED : list Z := repeat 10 30 ++ CSI ++ [50; 59; 50; 48; 114] ++ CSI ++ [55; 57; 67] ++ CSI ++ [56; 59; 49; 59; 49; 116].
Example resize_breaks_c09 :
  match run EAnsi (init 0 false 80 25) RESIZED with RunOk m => (cx (mt m) >=? tw (mt m)) && resized (ps (am m)) | _ => false end = true.
Proof. vm_compute. reflexivity. Qed.
(* ... and IL, DL, ICH, SL, SR, REP, ECH, insert-mode printing, RI, NEL, DECSTR, CUP afterwards still end in a state (model run) *)
Definition AFTER : list Z :=
  CSI ++ [76] ++ CSI ++ [77] ++ CSI ++ [51; 64] ++ CSI ++ [32; 64] ++ CSI ++ [32; 65] ++ [65] ++ CSI ++ [51; 98] ++ CSI ++ [53; 88] ++
  CSI ++ [52; 104] ++ [66; 67] ++ [27; 77; 27; 69] ++ CSI ++ [33; 112] ++ CSI ++ [57; 59; 57; 72] ++ [10; 68].
Example after_resize_runs : outcome_of 0 (RESIZED ++ AFTER) = 0. Proof. vm_compute. reflexivity. Qed.
(* a stored (hex) macro whose body resizes, moves and prints; replayed twice through Avatar: ends in a state *)
Definition MACRO7 : list Z := [27; 80; 55; 59; 48; 59; 49; 33; 122] ++
  [49; 66; 53; 66; 51; 56; 51; 66; 51; 50; 51; 66; 51; 50; 55; 52; 52; 49; 49; 66; 53; 66; 51; 57; 52; 50; 52; 50] ++ ST.   (* ESC[8;2;2t A ESC[9B B *)
Example macro_replay_runs :
  match run EAvatar (init 0 false 80 25) (MACRO7 ++ CSI ++ [55; 42; 122] ++ CSI ++ [55; 42; 122]) with
  | RunOk m => (tw (mt m) =? 2) && negb (Nat.eqb (length (macros (ps (am m)))) 0) | _ => false end = true.
Proof. vm_compute. reflexivity. Qed.
(* the former known input through a wrapper as well: a state, reached with exactly one error value; the parser is back in
   state Default and the macro is still stored *)
Fixpoint errors_e (e : emu) (m : mach) (cs : list Z) : Z :=
  match cs with
  | [] => 0
  | c :: r => match step e m c with MOk m1 => errors_e e m1 r | MErr m1 => 1 + errors_e e m1 r | _ => -1000 end
  end.
Example macro_recursion_through_pcboard :
  let cs := [27; 80; 49; 59; 48; 59; 49; 33; 122; 49; 66; 53; 66; 51; 49; 50; 65; 55; 65; 27; 92] ++ [27; 91; 49; 42; 122] in
  (errors_e EPcb (init 0 false 80 25) cs =? 1) &&
  match run EPcb (init 0 false 80 25) cs with
  | RunOk m => (match st (ps (am m)) with SDefault => true | _ => false end) && negb (Nat.eqb (length (macros (ps (am m)))) 0)
  | _ => false end = true.
Proof. vm_compute. reflexivity. Qed.
(* PETSCII: reverse video on, print, shift mode, C128 escapes, cursor keys, clear: a state; an unsupported control code is an error value *)
Example petscii_runs :
  match run_petscii (init 0 false 40 25) [18; 65; 193; 255; 142; 14; 27; 68; 27; 73; 27; 81; 17; 145; 157; 29; 19; 20; 13; 141; 147; 0; 128] with
  | RunOk m => (cx (mt m) =? 0) && (cy (mt m) =? 0) | _ => false end = true.
Proof. vm_compute. reflexivity. Qed.
Example petscii_error_value : petscii_step (init 0 false 40 25) 128 = MErr (init 0 false 40 25). Proof. vm_compute. reflexivity. Qed.
(* macro 1 = "A", macro 2 = "ESC [ 1 * z": invoking macro 2 needs nesting 2: with a budget of 1 it is the nesting error, with 2
   (and with the limit of the code) it ends in a state *)
Example nesting_two :
  match run EAnsi (init 0 false 80 25) ([27; 80; 49; 59; 48; 59; 49; 33; 122; 52; 49; 27; 92] ++ [27; 80; 50; 59; 48; 59; 49; 33; 122; 49; 66; 53; 66; 51; 49; 50; 65; 55; 65; 27; 92] ++ [27; 91; 50; 42]) with
  | RunOk m => (match astep 1 (am m) 122 with ODeep _ => true | _ => false end) && (match astep 2 (am m) 122 with OOk _ => true | _ => false end)
               && (match ansi_step (am m) 122 with OOk _ => true | _ => false end)
  | _ => false end = true.
Proof. vm_compute. reflexivity. Qed.
(* the limit is exact: a chain of macros, macro 1 = "A", macro k = `ESC [ k-1 * z` (hex definitions).  Invoking macro
   MAX_MACRO_NESTING (= 16 levels) prints the A and is no error; invoking macro MAX_MACRO_NESTING + 1 is one error value, prints
   nothing (the innermost invocation is refused before it replays anything) and leaves the parser in state Default *)
Definition hexd (v : Z) : Z := if v <? 10 then 48 + v else 55 + v.
Definition hex2 (b : Z) : list Z := [hexd (b / 16); hexd (b mod 16)].
Definition dec2 (n : Z) : list Z := if n <? 10 then [48 + n] else [48 + n / 10; 48 + n mod 10].
Definition defmacro (k : Z) (body : list Z) : list Z := [27; 80] ++ dec2 k ++ [59; 48; 59; 49; 33; 122] ++ flat_map hex2 body ++ ST.
Definition chain (n : nat) : list Z :=
  defmacro 1 [65] ++ flat_map (fun i => let k := Z.of_nat i in defmacro k ([27; 91] ++ dec2 (k - 1) ++ [42; 122])) (seq 2 (n - 1)).
Definition invoke_top (n : nat) : list Z := chain (S n) ++ [27; 91] ++ dec2 (Z.of_nat n) ++ [42; 122].
Example nesting_at_the_limit :
  (errors_of (init 0 false 80 25) (invoke_top MAX_MACRO_NESTING) =? 0) &&
  match run EAnsi (init 0 false 80 25) (invoke_top MAX_MACRO_NESTING) with RunOk m => cx (mt m) =? 1 | _ => false end = true.
Proof. vm_compute. reflexivity. Qed.
Example nesting_beyond_the_limit :
  (errors_of (init 0 false 80 25) (invoke_top (S MAX_MACRO_NESTING)) =? 1) &&
  match run EAnsi (init 0 false 80 25) (invoke_top (S MAX_MACRO_NESTING)) with
  | RunOk m => (cx (mt m) =? 0) && (match st (ps (am m)) with SDefault => true | _ => false end) | _ => false end = true.
Proof. vm_compute. reflexivity. Qed.
