(* C12 — default (colour-optimised) saving never changes the rendered picture.
   Statements only; proofs in Proofs/ColorOptProofs.v. *)
From Coq Require Import ZArith NArith List Bool.
From IE Require Import Gen.Codepage Gen.Fonts Model.Attr Model.ColorOpt Model.ColorOptDoc Model.FontData Proofs.ColorOptProofs Proofs.ColorOptCompositeProofs.
Import ListNotations.
Local Open Scope N_scope.

(* flattened buffer: the optimiser changes no rendered pixel, for every buffer size, content, palette, cur_attr
   history and both settings of normalize_whitespaces, given fonts that satisfy fonts_ok *)
Theorem optimize_preserves_render : forall pal fs normalize rows rows',
  fonts_ok fs -> optimize fs normalize rows = Ok rows' -> render pal fs rows' = render pal fs rows.
Proof. exact optimize_preserves_render_proof. Qed.

Theorem optimize_size : forall fs normalize rows rows',
  fonts_ok fs -> optimize fs normalize rows = Ok rows' -> map (@length cell) rows' = map (@length cell) rows.
Proof. exact (optimize_size_proof []). Qed.

(* it does not panic when every cell's font page has a font with a glyph for the cell's character *)
Theorem optimize_total : forall fs normalize rows,
  Forall (Forall (cell_has_glyph fs)) rows -> exists rows', optimize fs normalize rows = Ok rows'.
Proof. exact optimize_total_proof. Qed.

(* only invisible differences: fg of blank glyphs, bg of solid glyphs, which blank character *)
Theorem optimize_changes_only_invisible : forall fs normalize cur c c',
  opt_cell fs normalize cur c = Ok c' -> only_invisible_change fs c c'.
Proof. exact opt_cell_change_proof. Qed.

(* document level: rendering the optimised buffer (through Buffer::get_char of its single layer) equals
   rendering the composited document, for every document whose composited cells are well-formed *)
Theorem document_render_preserved : forall pal fs normalize rows,
  fonts_ok fs -> Forall (Forall wf_cell) rows -> Forall (Forall (cell_has_glyph fs)) rows ->
  render_optimised pal fs normalize rows = render pal fs rows.
Proof. exact document_render_preserved_proof. Qed.

(* the hypothesis fonts_ok holds for every built-in font (ANSI font pages 0..42, Viewdata, all SAUCE fonts),
   checked completely on the glyph data re-read from data/fonts on every run *)
Theorem builtin_fonts_ok : forall p w h g, In (p, w, h, g) builtin_fonts -> font_ok (font_of_data w h g).
Proof.
  assert (H : forallb (fun e => let '(_, w, h, g) := e in font_ok_b w h g) builtin_fonts = true) by (vm_compute; reflexivity).
  intros p w h g Hin. rewrite forallb_forall in H. specialize (H _ Hin). cbv beta iota in H.
  apply font_ok_b_sound, H.
Qed.

Theorem font_table_ok : forall l,
  forallb (fun e => let '(_, w, h, g) := e in font_ok_b w h g) l = true -> fonts_ok (fonts_of_list l).
Proof. exact fonts_of_list_ok. Qed.

(* ---- tie to the compositing model of property C13 (Model/Composite.v) ---- *)
(* Buffer::get_char on the single opaque Normal layer that flat_clone builds returns [reflat] of the stored cell *)
Theorem flat_layer_get_char : forall term fonts w h rows x y line c,
  (0 <= x < w)%Z -> (0 <= y < h)%Z -> (w <= 2147483647)%Z -> (h <= 2147483647)%Z ->
  nth_error rows (Z.to_nat y) = Some line -> nth_error line (Z.to_nat x) = Some c ->
  (C.is_visible c = true -> C.has_transparent_colour c = false) ->
  C.get_char (flat_buffer term fonts w h rows) x y = Some (creflat c) /\ conv (creflat c) = reflat (conv c).
Proof. intros. split; [eapply flat_get_char_proof; eassumption|apply conv_creflat]. Qed.

(* every cell Buffer::get_char yields for a stack of Normal-mode layers made by Layer::new (default font page 0)
   without transparent colours is well-formed in the sense document_render_preserved needs *)
Theorem composite_cells_wf : forall B px py c,
  Forall plain_layer (C.b_layers B) -> C.get_char B px py = Some c -> wf_cell (conv c).
Proof. exact composite_cells_wf_proof. Qed.

(* ---- non-vacuity ---- *)
Definition f0 : list (N * N * N * list N) :=
  match builtin_fonts with (p, w, h, g) :: _ => [(0, w, h, g)] | [] => [] end.
Definition sample_rows : list (list cell) :=
  [[mkCell 65 (mkAttr 0 14 1 0); mkCell 32 (mkAttr 0 7 0 0); mkCell 219 (mkAttr 0 4 2 0); mkCell 255 (mkAttr 0 3 5 1)]].
Example sample_optimises :
  fonts_ok (fonts_of_list f0) /\ Forall (Forall wf_cell) sample_rows /\
  optimize (fonts_of_list f0) true sample_rows =
    Ok [[mkCell 65 (mkAttr 0 14 1 0); mkCell 32 (mkAttr 0 14 0 0); mkCell 219 (mkAttr 0 4 0 0); mkCell 32 (mkAttr 0 4 5 1)]].
Proof.
  split; [apply font_table_ok; vm_compute; reflexivity|]. split.
  - repeat (constructor; try (left; (split; [reflexivity|split; discriminate]))).
  - vm_compute. reflexivity.
Qed.
