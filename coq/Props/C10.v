(* C10 — stored text is always valid Unicode.
   Only statements, each closed by `exact <lemma>`; the proofs live in Proofs/UnicodeProofs.v and
   Proofs/TextSitesProofs.v.  The functions quantified over are those of Model/TextSites.v applied to the
   conversions conv_* / str_* of Gen/TextSitesGen.v, i.e. to whatever conversion the Rust source calls at that
   site today (re-read on every run).  They describe the code of the merged tree, i.e. AFTER the five C10 fix
   commits (fill, clipboard, IcyDraw cells, IcyDraw strings, fonts) and the four fonts.rs commits of C17 (loop of
   glyphs_from_u8_data bounded by height / data / MAX_GLYPHS, load_psf2 header validation, from_bytes length test);
   the *_before_fix_refuted theorems are about the expressions (and, for fonts, the loop: glyphs_v0) before.

   scalar c     := c < 0xD800 \/ 0xE000 <= c < 0x110000
   is_utf8 bs   := exists cs, Forall scalar cs /\ bs = utf8_encode cs        (the specification of UTF-8)
   ev_scalar e  := the character of the stored cell e is scalar *)
From Coq Require Import NArith ZArith Bool List.
From IE Require Model.Sixel.
From IE Require Import Lib.Tbl Model.Unicode Gen.TextSitesGen Model.TextSites Proofs.UnicodeProofs Proofs.TextSitesProofs.
Import ListNotations.
Local Open Scope N_scope.

(* ------------------------------------------------------------------ Unicode / UTF-8 as std implements them *)

(* char::from_u32 accepts exactly the scalar values and returns them unchanged *)
Theorem char_from_u32_spec : forall x,
  (scalar x -> char_from_u32 x = Some x) /\ (~ scalar x -> char_from_u32 x = None).
Proof. exact char_from_u32_spec_proof. Qed.

(* the validator accepts exactly the encodings of sequences of scalar values: all byte strings, both directions *)
Theorem utf8_valid_spec : forall bs, utf8_valid bs = true <-> is_utf8 bs.
Proof. exact utf8_valid_spec_proof. Qed.

(* String::from_utf8_lossy yields UTF-8 for every byte string ... *)
Theorem utf8_lossy_is_utf8 : forall bs, is_utf8 (utf8_lossy bs).
Proof. exact utf8_lossy_is_utf8_proof. Qed.

(* ... and changes nothing in a string that already is UTF-8 *)
Theorem utf8_lossy_id : forall bs, is_utf8 bs -> utf8_lossy bs = bs.
Proof. exact utf8_lossy_id_proof. Qed.

(* the fuel of the model (= length) is never exhausted: more fuel gives the same result *)
Theorem utf8_lossy_fuel_suffices : forall fuel bs, (length bs <= fuel)%nat -> utf8_lossy_fuel fuel bs = utf8_lossy bs.
Proof. exact lossy_fuel_suffices_proof. Qed.

(* ------------------------------------------------------------------ CSI Pch;Pt;Pl;Pb;Pr $ x (DECFRA) *)

(* whatever digits and ';' arrive, every accumulated parameter is in 0 ..= 2^31-1 (saturating arithmetic) *)
Theorem csi_numbers_range : forall text, Forall i32_nonneg (csi_numbers text).
Proof. exact csi_numbers_range_proof. Qed.

(* every cell the fill writes holds a scalar value, for every parameter text and every screen size *)
Theorem stored_scalar_fill : forall rows cols text r,
  fill conv_fill rows cols (csi_numbers text) = Done r -> scalar (f_char r) /\ Forall ev_scalar (fill_events r).
Proof. exact stored_scalar_fill_proof. Qed.

(* and the fill is not weakened: it stores c exactly when there are five parameters, the first being the scalar c *)
Theorem fill_stores_iff : forall rows cols text c,
  (exists r, fill conv_fill rows cols (csi_numbers text) = Done r /\ f_char r = c) <->
  (exists pt pl pb pr, csi_numbers text = [Z.of_N c; pt; pl; pb; pr] /\ scalar c).
Proof. exact fill_stores_iff_proof. Qed.

(* ------------------------------------------------------------------ Layer::from_clipboard_data *)

Theorem stored_scalar_clipboard : forall data r,
  clipboard conv_clipboard data = Done r -> Forall ev_scalar (c_cells r).
Proof. exact stored_scalar_clipboard_proof. Qed.

Theorem clipboard_total : forall conv data, clipboard conv data <> Diverge.
Proof. exact clipboard_total_proof. Qed.

(* ------------------------------------------------------------------ IcyDraw layer chunks *)

(* LAYER_n: every byte string as chunk payload *)
Theorem stored_scalar_icy_first : forall bytes r,
  icy_layer str_icy conv_icy_first bytes = Done r -> Forall ev_scalar (l_cells r).
Proof. exact stored_scalar_icy_first_proof. Qed.

(* LAYER_n~k: every byte string, every layer size and fill state *)
Theorem stored_scalar_icy_cont : forall w h lines bytes ev,
  icy_continue conv_icy_cont w h lines bytes = Done ev -> Forall ev_scalar ev.
Proof. exact stored_scalar_icy_cont_proof. Qed.

Theorem icy_cells_total : forall conv chk y0 w h bs, cells conv chk y0 w h bs <> Diverge.
Proof. exact icy_cells_total_proof. Qed.

(* layer titles and font names (read_utf8_encoded_string) are UTF-8 whatever the bytes of the chunk *)
Theorem strings_utf8_icy :
  (forall data s rest, read_string str_icy data = Done (s, rest) -> is_utf8 s) /\
  (forall conv bytes r, icy_layer str_icy conv bytes = Done r -> is_utf8 (l_title r)).
Proof. exact strings_utf8_icy_proof. Qed.

Theorem strings_utf8_icy_identity : forall s, is_utf8 s -> str_icy s = s.
Proof. exact strings_utf8_icy_identity_proof. Qed.

(* ------------------------------------------------------------------ fonts *)

(* glyphs_from_u8_data: every key of the glyph map is a scalar value, for every height and data length *)
Theorem stored_scalar_glyphs : forall h data g,
  glyphs conv_glyphs h data = Done g -> Forall key_scalar g.
Proof. exact stored_scalar_glyphs_proof. Qed.

(* sharper, and from the loop bound alone: every key is below MAX_GLYPHS (= 0xD800), whichever of the two std
   conversions the site calls *)
Theorem glyphs_keys_below_max : forall conv, std_conv conv -> forall h data g,
  glyphs conv h data = Done g -> Forall key_below_max g.
Proof. exact glyphs_keys_below_max_proof. Qed.

(* and from the conversion alone: a checked conversion stores scalar keys whatever the loop bound is *)
Theorem stored_scalar_glyphs_checked : forall conv, checked conv -> forall h data g,
  glyphs conv h data = Done g -> Forall key_scalar g.
Proof. exact stored_scalar_glyphs_checked_proof. Qed.

(* the keys are the glyph indices themselves and each maps to its own chunk of the data *)
Theorem glyphs_keys_are_indices : forall h data g, glyphs conv_glyphs h data = Done g ->
  forall k gl, In (k, gl) g ->
  k < MAX_GLYPHS /\ scalar k /\ gl = firstn h (skipn (N.to_nat k * h) data) /\
  ((N.to_nat k + 1) * h <= length data)%nat.
Proof. exact glyphs_keys_are_indices_proof. Qed.

(* the function returns for every height and all data (no endless loop for height 0, no slice panic on an
   incomplete last glyph: both existed at the snapshot commit, see glyphs_v0) *)
Theorem glyphs_total : forall conv h data, exists g, glyphs conv h data = Done g.
Proof. exact glyphs_total_proof. Qed.

(* BitFont::from_bytes (PSF1 / PSF2 / plain) returns Ok or Err for every byte string, and whatever it loads has
   scalar keys below MAX_GLYPHS and a `length` (the bound of the three lookup loops) of at most MAX_GLYPHS, so that
   those loops look up exactly the chars 0 .. length-1 *)
Theorem font_from_bytes_total : forall conv data,
  font_from_bytes conv data = Rejected \/ exists f, font_from_bytes conv data = Done f.
Proof. exact font_from_bytes_total_proof. Qed.

Theorem stored_scalar_loaded_font : forall data f, font_from_bytes conv_glyphs data = Done f ->
  Forall key_scalar (ft_glyphs f) /\ Forall key_below_max (ft_glyphs f) /\ ft_length f <= MAX_GLYPHS /\
  (forall conv, std_conv conv -> lookup_keys conv (ft_length f) = nrange (ft_length f)).
Proof. exact stored_scalar_loaded_font_proof. Qed.

(* BitFont::create_8 / from_basic *)
Theorem stored_scalar_created_font : forall h data f, font_create conv_glyphs h data = Done f ->
  Forall key_scalar (ft_glyphs f) /\ Forall key_below_max (ft_glyphs f) /\ ft_length f = 256.
Proof. exact stored_scalar_created_font_proof. Qed.

(* calculate_checksum, convert_to_u8_data, to_psf2_bytes: every char they look up, for every font length
   (`length` is a public field: any i32 can be there) *)
Theorem stored_scalar_font_lookups : forall len,
  Forall scalar (lookup_keys conv_checksum len) /\ Forall scalar (lookup_keys conv_u8data len) /\
  Forall scalar (lookup_keys conv_psf2 len).
Proof. exact stored_scalar_font_lookups_proof. Qed.

(* ------------------------------------------------------------------ DCS hex macros *)

(* every macro text (any characters): the stored characters are below 256, hence scalar.  This site still calls
   the unchecked conversion; the theorem holds for either conversion (conv_hexmacro_kind) *)
Theorem stored_scalar_hexmacro : forall cs body, hexmacro conv_hexmacro cs = Done body ->
  Forall latin1 body /\ Forall scalar body.
Proof. exact stored_scalar_hexmacro_proof. Qed.

Theorem strings_utf8_hexmacro : forall cs body, hexmacro conv_hexmacro cs = Done body -> is_utf8 (utf8_encode body).
Proof. exact strings_utf8_hexmacro_proof. Qed.

(* ------------------------------------------------------------------ the expressions before the fix commits *)

Theorem fill_before_fix_refuted :
  exists text r, fill char_from_u32_unchecked 25 80 (csi_numbers text) = Done r /\ ~ scalar (f_char r).
Proof. exact fill_before_fix_refuted_proof. Qed.

Theorem clipboard_before_fix_refuted :
  exists data r, Forall byte data /\ clipboard char_from_u32_unchecked data = Done r /\ ~ Forall ev_scalar (c_cells r).
Proof. exact clipboard_before_fix_refuted_proof. Qed.

Theorem icy_before_fix_refuted :
  (exists bytes r, Forall byte bytes /\ icy_layer str_lossy char_from_u32_unchecked bytes = Done r /\ ~ Forall ev_scalar (l_cells r)) /\
  (exists bytes ev, Forall byte bytes /\ icy_continue char_from_u32_unchecked 1 2 1 bytes = Done ev /\ ~ Forall ev_scalar ev).
Proof. exact icy_before_fix_refuted_proof. Qed.

(* the loop and the conversion of the snapshot commit (glyphs_v0) *)
Theorem glyphs_before_fix_refuted :
  exists h data, match glyphs_v0 char_from_u32_unchecked h data with
                 | Done g => forallb (fun kg => scalarb (fst kg)) g = false
                 | _ => False
                 end.
Proof. exact glyphs_before_fix_refuted_proof. Qed.

Theorem strings_before_fix_refuted : exists bs, Forall byte bs /\ ~ is_utf8 (str_unchecked bs).
Proof. exact str_unchecked_refuted_proof. Qed.

(* ------------------------------------------------------------------ the fix commits are local *)

(* wherever the unchecked code stored only scalar values, the fixed code returns the very same result: the fixes
   change the outcome only on inputs that used to materialise a non-scalar value *)
Theorem fix_is_local_clipboard : forall data r,
  clipboard char_from_u32_unchecked data = Done r -> Forall ev_scalar (c_cells r) -> clipboard conv_clipboard data = Done r.
Proof. exact fix_is_local_clipboard_proof. Qed.

Theorem fix_is_local_icy : forall chk y0 w h bs ev,
  cells char_from_u32_unchecked chk y0 w h bs = Done ev -> Forall ev_scalar ev -> cells char_from_u32 chk y0 w h bs = Done ev.
Proof. exact fix_is_local_icy_proof. Qed.

(* snapshot loop + unchecked conversion against the merged function (checked conversion, loop bounded by the
   height, the data and MAX_GLYPHS) *)
Theorem fix_is_local_glyphs : forall h data g,
  glyphs_v0 char_from_u32_unchecked h data = Done g -> Forall key_scalar g -> glyphs conv_glyphs h data = Done g.
Proof. exact fix_is_local_glyphs_proof. Qed.

(* no glyph is lost except those whose index is MAX_GLYPHS or more (the merged code cuts the map at the char range) *)
Theorem glyphs_complete : forall h data g, (0 < h)%nat -> glyphs conv_glyphs h data = Done g ->
  forall k, k < MAX_GLYPHS -> ((N.to_nat k + 1) * h <= length data)%nat ->
  In (k, firstn h (skipn (N.to_nat k * h) data)) g.
Proof. exact glyphs_complete_proof. Qed.

(* ------------------------------------------------------------------ non-vacuity *)

(* "65;2;3;4;5": 'A' in rows 1..3, columns 2..4 *)
Example fill_stores_A :
  omap (fun r => (f_char r, length (fill_events r)))
       (fill conv_fill 25 80 (csi_numbers [54; 53; 59; 50; 59; 51; 59; 52; 59; 53]%Z)) = Done (65, 9%nat).
Proof. vm_compute. reflexivity. Qed.

(* "55296;1;1;2;2" is rejected now *)
Example fill_rejects_surrogate :
  fill conv_fill 25 80 (csi_numbers [53; 53; 50; 57; 54; 59; 49; 59; 49; 59; 50; 59; 50]%Z) = Rejected.
Proof. vm_compute. reflexivity. Qed.

(* saturation: "99999999999" accumulates to 2^31-1-48 (saturating_add, then saturating_sub 48): not a scalar value *)
Example fill_saturates :
  csi_numbers [57; 57; 57; 57; 57; 57; 57; 57; 57; 57; 57]%Z = [2147483599%Z].
Proof. vm_compute. reflexivity. Qed.

Example clipboard_stores :
  omap c_cells (clipboard conv_clipboard [0;0;0;0;0;0;0;0;0;1;0;0;0;1;0;0;0; 0x28;0x27;0;0;0;0;0;0;0;0;7;0;0;0])
  = Done [(0%Z, 0%Z, 0x2728)].
Proof. vm_compute. reflexivity. Qed.

Example clipboard_rejects_surrogate :
  clipboard conv_clipboard [0;0;0;0;0;0;0;0;0;1;0;0;0;1;0;0;0; 0;0xD8;0;0;0;0;0;0;0;0;7;0;0;0] = Rejected.
Proof. vm_compute. reflexivity. Qed.

(* title "é" + FF, 2x1 layer: short cell 'A', long cell U+10FFFF *)
Example icy_layer_decodes :
  omap (fun r => (l_title r, l_cells r))
    (icy_layer str_icy conv_icy_first
      [3;0;0;0;0xC3;0xA9;0xFF; 0; 0;0;0;0; 0; 0;0;0;0; 1;0;0;0; 0; 0;0;0;0; 0;0;0;0; 2;0;0;0; 1;0;0;0; 0;0; 22;0;0;0;0;0;0;0;
       0;0x40;65;7;0;0;  0;0; 0xFF;0xFF;0x10;0; 7;0;0;0; 0;0;0;0; 0;0])
  = Done ([0xC3;0xA9;0xEF;0xBF;0xBD], [(0%Z, 0%Z, 65); (1%Z, 0%Z, 0x10FFFF)]).
Proof. vm_compute. reflexivity. Qed.

Example lossy_replaces : utf8_lossy [0x54; 0xE2; 0x9C; 0xF0; 0x9F; 0x98; 0x80; 0xED; 0xA0; 0x80]
  = [0x54; 0xEF;0xBF;0xBD; 0xF0;0x9F;0x98;0x80; 0xEF;0xBF;0xBD; 0xEF;0xBF;0xBD; 0xEF;0xBF;0xBD].
Proof. vm_compute. reflexivity. Qed.

Example valid_accepts_and_rejects :
  utf8_valid [0x54; 0xC3; 0xA9; 0xE2; 0x9C; 0xA8; 0xF4; 0x8F; 0xBF; 0xBF] = true /\
  utf8_valid [0xED; 0xA0; 0x80] = false /\ utf8_valid [0xF4; 0x90; 0x80; 0x80] = false /\ utf8_valid [0xC0; 0x80] = false.
Proof. vm_compute. repeat split. Qed.

(* 300 one-byte glyphs: keys 0..299 *)
Example glyphs_small : omap (fun g => (length g, map fst (firstn 2 g)))
  (glyphs conv_glyphs 1 (repeat 7 300)) = Done (300%nat, [0; 1]).
Proof. vm_compute. reflexivity. Qed.

(* 55297 one-byte glyphs: the map is cut at MAX_GLYPHS (keys 0..55295); the snapshot loop went on to 0xD800 *)
Example glyphs_cut_at_max : omap (fun g => (N.of_nat (length g), fold_left (fun m kg => N.max m (fst kg)) g 0))
  (glyphs conv_glyphs 1 (repeat 7 (N.to_nat 55297))) = Done (55296, 55295).
Proof. vm_compute. reflexivity. Qed.

(* a height of 0 consumes nothing, an incomplete last glyph is dropped *)
Example glyphs_height0_and_tail :
  glyphs conv_glyphs 0 [1; 2; 3] = Done [] /\ glyphs conv_glyphs 2 [1; 2; 3] = Done [(0, [1; 2])] /\
  glyphs_v0 conv_glyphs 0 [1; 2; 3] = Diverge /\ glyphs_v0 conv_glyphs 2 [1; 2; 3] = Panic.
Proof. vm_compute. repeat split. Qed.

(* BitFont::from_bytes: a PSF2 file with two 2-row glyphs loads; a header announcing 55297 empty glyphs, a header cut
   short and a 3-byte file are errors; PSF1 with mode 1 has length 512 *)
Example from_bytes_cases :
  font_from_bytes conv_glyphs ([0x72;0xb5;0x4a;0x86; 0;0;0;0; 32;0;0;0; 0;0;0;0; 2;0;0;0; 2;0;0;0; 2;0;0;0; 8;0;0;0] ++ [1;2;3;4])
    = Done {| ft_length := 2; ft_glyphs := [(0, [1; 2]); (1, [3; 4])] |} /\
  font_from_bytes conv_glyphs [0x72;0xb5;0x4a;0x86; 0;0;0;0; 32;0;0;0; 0;0;0;0; 1;0xD8;0;0; 0;0;0;0; 16;0;0;0; 8;0;0;0] = Rejected /\
  font_from_bytes conv_glyphs [0x72;0xb5;0x4a;0x86; 0;0;0;0; 32;0;0;0] = Rejected /\
  font_from_bytes conv_glyphs [0x36; 0x04; 1] = Rejected /\
  font_from_bytes conv_glyphs [0x36; 0x04; 1; 1; 9] = Done {| ft_length := 512; ft_glyphs := [(0, [9])] |}.
Proof. vm_compute. repeat split. Qed.

(* "4142!2;43;" defines "ABCC" *)
Example hexmacro_defines :
  hexmacro conv_hexmacro [52; 49; 52; 50; 33; 50; 59; 52; 51; 59] = Done [65; 66; 67; 67].
Proof. vm_compute. reflexivity. Qed.
