(* C05 — binary art formats (BIN, ArtWorx ADF, XBin, iCE Draw IDF, Tundra) reproduce what was saved.
   Only statements, each closed by `exact <lemma>`; proofs live in Proofs/C05*Proofs.v.
   The functions quantified over are the models of Model/C05{Buf,Bin,XBin,Idf,Tundra}.v (writers and loaders of
   src/formats/{bin,artworx,xbinary,ice_draw,tundra}.rs after the fix commits listed in notes/C05.md) over the constants
   regenerated from the source on every run (Gen/Formats.v, Gen/Codepage.v); the attribute codec is C18's Model/Attr.v.
   The predicates (`representable_*`, `same_picture*`, `rect`, `cell8`, `font_wf`, `six_bit`) are in Model/C05Spec.v.
   A picture `p : pic` is what a writer sees of a buffer; `pic_of b` is the picture of a loaded buffer. *)
From Coq Require Import NArith ZArith Bool List.
From IE Require Import Lib.Tbl Lib.C05Lib Gen.Codepage Gen.Formats Model.Attr Model.C05Buf Model.C05Bin Model.C05XBin
  Model.C05Idf Model.C05Tundra Model.C05Spec
  Proofs.C05BufProofs Proofs.C05BinProofs Proofs.C05AdfProofs Proofs.C05XBinProofs Proofs.C05IdfProofs Proofs.C05TundraProofs.
From IE Require Model.C02Loaders Proofs.C02BridgeProofs.
From IE Require Import Model.C05SpecX Model.C05XBinC Model.C05Files Proofs.C05XBinCProofs Proofs.C05XBinResaveProofs Proofs.C05FilesProofs
  Proofs.C05IdfWideProofs.
From IE Require Model.Sauce Model.SauceSpec Model.XBin.
Import ListNotations.
Local Open Scope Z_scope.

(* ------------------------------------------------------------------ the loaders after property C02's fix commits *)
(* `load_xb` / `load_tnd` below are the models of the XBin / Tundra loaders BEFORE C02's fixes (their `Panic 6` results are
   the crashes C02 removed).  The models of the loaders as they are now, Model/C02Loaders.v `load_xb2` / `load_tnd2`,
   accept exactly the same files with the same buffer; the only differences are files that made the old code panic (now an
   error) and compressed XBin files (Err 98 here, decoded there: property C06).  So every statement of this file about
   "a file the loader accepts" or "the file the writer makes" is a statement about the code as it is. *)
Theorem tnd_fixed_loader_agrees : forall data s b, C02Loaders.load_tnd2 data s = Ok b <-> load_tnd data s = Ok b.
Proof. exact C02BridgeProofs.tnd_fixed_agrees. Qed.

Theorem xb_fixed_loader_accepts : forall data s b, load_xb data s = Ok b -> C02Loaders.load_xb2 data s = Ok b.
Proof. exact C02BridgeProofs.xb_fixed_accepts. Qed.

Theorem xb_fixed_loader_accepted : forall data s b,
  C02Loaders.load_xb2 data s = Ok b -> load_xb data s = Ok b \/ load_xb data s = Err 98.
Proof. exact C02BridgeProofs.xb_fixed_accepted. Qed.

(* ------------------------------------------------------------------ BIN *)
(* every representable picture of every size: saving (data + the SAUCE record a BIN writer appends) and loading gives the
   same width, height, mode class, characters, displayed colours and blink *)
Theorem bin_roundtrip : forall p, representable_bin p ->
  exists s b, bin_sauce p = Ok s /\ load_bin (save_bin p) (Some s) = Ok b /\ same_picture false [] p (pic_of b).
Proof. exact bin_roundtrip_proof. Qed.

(* the BIN loader accepts every byte string (with no SAUCE record or one a BIN writer could have made) ... *)
Theorem bin_load_total : forall data s, bin_sauce_like s -> exists b, load_bin data s = Ok b.
Proof. exact bin_load_total. Qed.

(* ... and whatever it loaded is saved and loaded again as the same picture *)
Theorem bin_resave : forall data s b,
  is_bytes data -> bin_sauce_like s -> load_bin data s = Ok b ->
  exists s' b', bin_sauce (pic_of b) = Ok s' /\ load_bin (save_bin (pic_of b)) (Some s') = Ok b' /\
                same_picture false [] (pic_of b) (pic_of b').
Proof. exact bin_resave_proof. Qed.

(* ------------------------------------------------------------------ ADF *)
Theorem adf_roundtrip : forall p s, representable_adf p -> adf_sauce_like s ->
  exists data b, save_adf p = Ok data /\ load_adf data s = Ok b /\ same_picture true [0%N] p (pic_of b).
Proof. exact adf_roundtrip_proof. Qed.

Theorem adf_resave : forall data s b,
  is_bytes data -> adf_sauce_like s -> load_adf data s = Ok b ->
  forall s', adf_sauce_like s' ->
  exists data' b', save_adf (pic_of b) = Ok data' /\ load_adf data' s' = Ok b' /\
                   same_picture true [0%N] (pic_of b) (pic_of b').
Proof. exact adf_resave_proof. Qed.

(* the 64-register EGA palette block: the 16 text colours come back for every six-bit palette *)
Theorem adf_palette_roundtrip : forall pal, length pal = 16%nat -> Forall six_bit pal ->
  from_ega_data (to_ega_data pal) = Ok pal.
Proof. exact ega_roundtrip. Qed.

(* ------------------------------------------------------------------ XBin (uncompressed data; compression is C06) *)
Theorem xb_roundtrip_one_font : forall p s, representable_xb1 p ->
  exists data b, save_xb p = Ok data /\ load_xb data s = Ok b /\ same_picture true [0%N] p (pic_of b).
Proof. exact xb_roundtrip1_proof. Qed.

Theorem xb_roundtrip_two_fonts : forall p s, representable_xb2 p ->
  exists data b, save_xb p = Ok data /\ load_xb data s = Ok b /\ same_picture true [0%N; 1%N] p (pic_of b).
Proof. exact xb_roundtrip2_proof. Qed.

(* every uncompressed XBin file in 256-character mode the loader accepts (any SAUCE) is saved and loaded again as the same
   picture; compressed files are C06's, 512-character files may hit known finding 2 *)
Theorem xb_resave : forall data s b,
  is_bytes data -> xb_plain_file data -> load_xb data s = Ok b ->
  forall s', exists data' b', save_xb (pic_of b) = Ok data' /\ load_xb data' s' = Ok b' /\
                              same_picture true [0%N] (pic_of b) (pic_of b').
Proof. exact xb_resave_proof. Qed.

(* ------------------------------------------------------------------ IDF, plain and run-length compressed *)
Theorem idf_roundtrip : forall compress p, representable_idf p ->
  exists data b, save_idf compress p = Ok data /\ load_idf data = Ok b /\ same_picture true [0%N] p (pic_of b).
Proof. exact idf_roundtrip_proof. Qed.

(* every IDF file the loader accepts whose picture is within the writer's limits (outside them: known finding 1) *)
Theorem idf_resave : forall data b,
  is_bytes data -> load_idf data = Ok b -> b_w b <= 80 -> b_h b <= 200 ->
  forall compress, exists data' b', save_idf compress (pic_of b) = Ok data' /\ load_idf data' = Ok b' /\
                                    same_picture true [0%N] (pic_of b) (pic_of b').
Proof. exact idf_resave_proof. Qed.

(* ------------------------------------------------------------------ Tundra: 24-bit colours, compared as displayed *)
Theorem tnd_roundtrip : forall p, representable_tnd p ->
  exists data b, save_tnd p = Ok data /\ load_tnd data (Some (tnd_sauce p)) = Ok b /\ same_picture_rgb p (pic_of b).
Proof. exact tnd_roundtrip_proof. Qed.

(* every Tundra file the loader accepts (position jumps included), as long as the picture it gives has a non-negative
   height and fewer than 2^30 cells and the file is shorter than 2^29 bytes (u32 colour indices, bit 31 is special) *)
Theorem tnd_resave : forall data s b,
  is_bytes data -> tnd_sauce_like s -> load_tnd data s = Ok b ->
  0 <= b_h b -> b_w b * b_h b < 1073741824 -> (N.of_nat (length data) < 536870912)%N ->
  exists data' b', save_tnd (pic_of b) = Ok data' /\ load_tnd data' (Some (tnd_sauce (pic_of b))) = Ok b' /\
                   same_picture_rgb (pic_of b) (pic_of b').
Proof. exact tnd_resave_proof. Qed.

(* ------------------------------------------------------------------ shared blocks *)
(* six-bit palette block of XBin / IDF *)
Theorem palette63_roundtrip : forall pal, Forall six_bit pal -> from_63 (as_vec_63 pal) = Ok pal.
Proof. exact from_63_as_vec_63. Qed.

(* raw font block of XBin / ADF / IDF: any height, any glyph bytes *)
Theorem font_block_roundtrip : forall h f, (1 <= h)%N -> font_wf h f ->
  font_create_8 h (convert_to_u8_data f) = Ok (mkFont h 256 false (f_glyphs f)).
Proof. exact font_create_8_convert. Qed.

(* the layer model: a stored cell is read back, every other position is unchanged, for ragged line vectors *)
Theorem layer_get_after_set : forall lw ls x y c x' y',
  cell_at (lines_set lw ls x y c) x' y' = if ((x' =? x) && (y' =? y))%nat then c else cell_at ls x' y'.
Proof. exact cell_at_lines_set. Qed.

(* ------------------------------------------------------------------ non-vacuity *)
Definition demo_cells (m : N) (n : nat) : list cell :=
  map (fun i => mkCell (i mod 256) (mkAttr 0 (i mod 16) ((i / 16) mod m) 0))%N (nrange (N.of_nat n)).
Fixpoint demo_rows (h w : nat) (cells : list cell) : list (list cell) :=
  match h with O => [] | S h' => firstn w cells :: demo_rows h' w (skipn w cells) end.

(* BIN 4 x 3 in blink mode: the theorem's conclusion computed *)
Definition demo_bin : pic := mkPic 4 3 Blink (demo_rows 3 4 (demo_cells 8 12)) DOS_DEFAULT_PALETTE [(0%N, default_font)].
Example demo_bin_roundtrip :
  match load_bin (save_bin demo_bin) (Some (mkSauce 4 25 false)) with
  | Ok b => b_w b = 4 /\ b_h b = 3 /\ map (map (fun c => (c_ch c, shown (c_attr c)))) (p_rows (pic_of b))
                                  = map (map (fun c => (c_ch c, shown (c_attr c)))) (p_rows demo_bin)
  | _ => False
  end.
Proof. vm_compute. repeat split. Qed.

(* why the ADF / XBin loaders must start from an empty layer (fix commits): with the 25 rows Buffer::new allocates,
   crop_loaded_file keeps 25 rows for an 80 x 2 picture *)
Example preallocated_rows_survive_crop :
  let cells := save_rows enc_adf (demo_rows 2 80 (demo_cells 16 160)) in
  let b := set_ice (buffer_new 80 25) Ice in
  b_h (crop_loaded_file (set_layer b (adf_loop 80 (b_layer b) 0 0 cells))) = 25 /\
  b_h (crop_loaded_file (set_layer b (adf_loop 80 (layer_clear_lines (b_layer b)) 0 0 cells))) = 2.
Proof. vm_compute. split; reflexivity. Qed.

(* IDF: a lone (character 1, attribute 0) cell followed by a run, compressed: one repeat header, read back exactly *)
Definition demo_idf_row : list cell :=
  mkCell 1 (mkAttr 0 0 0 0) :: repeat (mkCell 65 (mkAttr 0 7 0 0)) 5 ++ repeat (mkCell 66 (mkAttr 0 7 0 0)) 2.
Example demo_idf_bytes : idf_row 8 true demo_idf_row = Ok [1; 0; 1; 0; 1; 0; 1; 0; 5; 0; 65; 7; 66; 7; 66; 7]%N.
Proof. vm_compute. reflexivity. Qed.

(* Tundra: a control-range character keeps its own colours; the first cell always carries both colours *)
Definition demo_tnd : pic :=
  mkPic 3 1 Ice [[mkCell 65 (mkAttr 0 0 0 0); mkCell 3 (mkAttr 0 4 1 0); mkCell 66 (mkAttr 0 4 1 0)]]
        [(255, 0, 0); (0, 0, 0); (0, 255, 0); (1, 2, 3); (9, 9, 9)]%N [(0%N, default_font)].
Example demo_tnd_roundtrip :
  match save_tnd demo_tnd with
  | Ok d => match load_tnd d (Some (tnd_sauce demo_tnd)) with
            | Ok b => map (map (fun c => (c_ch c, shown_rgb (b_pal b) (c_attr c)))) (p_rows (pic_of b))
                      = map (map (fun c => (c_ch c, shown_rgb (p_pal demo_tnd) (c_attr c)))) (p_rows demo_tnd)
            | _ => False
            end
  | _ => False
  end.
Proof. vm_compute. reflexivity. Qed.

(* ------------------------------------------------------------------ known findings (re-save of files outside the writers' limits) *)
(* C05-idf-resave-size-outside-writer-limits *)
Theorem known_1_witness :
  exists b, load_idf known_idf_file = Ok b /\ KnownC05_idf_size (pic_of b) /\ save_idf true (pic_of b) = Err 2.
Proof. exact known_idf_size_witness. Qed.
Theorem known_1_always_refused : forall compress p, KnownC05_idf_size p -> p_ice p = Ice -> save_idf compress p = Err 2.
Proof. exact idf_known_size_refused. Qed.

(* C05-xb-resave-512-chars-without-font *)
Theorem known_2_witness :
  exists b, load_xb known_xb_file None = Ok b /\ KnownC05_xb_font2_missing (pic_of b) /\ save_xb (pic_of b) = Err 1.
Proof. exact known_xb_font2_witness. Qed.

(* ================================================================== Extension ==================================== *)
(* XBin WHOLE files with compressed data, re-save of 512-character files, files with their SAUCE bytes.
   `save_xbo compress` (Model/C05XBinC.v) is XBin::to_bytes for both values of SaveOptions.compress: C05's header, palette and
   font blocks, the flag bit, and C06's compress_backtrack for the data section; `C02Loaders.load_xb2` is XBin::load_buffer as
   it is now, compressed branch included.  Nothing below assumes anything about the cells beyond what is written. *)

(* the writer with compress = false is the writer the statements above are about *)
Theorem xb_writer_uncompressed : forall p, save_xbo false p = save_xb p.
Proof. exact save_xbo_false. Qed.

(* the data sections: whatever the reader width, mode, font mode and starting layer are, the compressed reader makes of the
   compressor's bytes the LAYER the uncompressed reader makes of the uncompressed bytes (C06's impl_decoder_agrees carried
   from set_char traces to layers, and from C06's reader model to the loader model of C02) *)
Theorem xb_data_sections_load_alike : forall m fonts rows wd cb pb lm fixed w L,
  Forall (fun r => length r = wd) rows ->
  xb_data_section true m fonts rows = Ok cb -> xb_data_section false m fonts rows = Ok pb ->
  C02Loaders.xb_read_compressed w lm fixed L cb = Ok (xb_read_uncompressed w lm fixed L 0 0 pb).
Proof. exact xb_sections_load_alike. Qed.

(* the full-file loader calls the reader selected by FLAG_COMPRESS on exactly the bytes behind header, palette and font blocks *)
Theorem xb_loader_reads_data_section : forall p s two f0 f1 fh comp D, xb_blocks p two f0 f1 fh ->
  C02Loaders.load_xb2 (xb_file p two f0 f1 fh comp D) s =
  let* L := (if comp then C02Loaders.xb_read_compressed (p_w p) (xb_mode (p_ice p)) two (mkLayer (p_w p) (p_h p) []) D
             else Ok (xb_read_uncompressed (p_w p) (xb_mode (p_ice p)) two (mkLayer (p_w p) (p_h p) []) 0 0 D)) in
  Ok (crop_loaded_file (set_layer (xb_b3 p two f0 f1 fh) L)).
Proof. exact xb_load2. Qed.

(* ... and the writer puts the data section there *)
Theorem xb_writer_places_data_section : forall p two pg0 pg1 f0 f1 fh comp, xb_shape_g p two pg0 pg1 f0 f1 fh ->
  save_xbo comp p = let* D := xb_data_section comp (p_ice p) (xb_pages two pg0 pg1) (p_rows p) in Ok (xb_file p two f0 f1 fh comp D).
Proof. exact xb_saveo. Qed.

(* FILES: for every picture whose size, palette and font blocks the format admits - ANY cells, any one or two font page
   numbers - the compressed file exists iff the uncompressed one does, and both load to the SAME buffer (every stored cell
   with its font page, sizes, modes, palette, fonts), whatever SAUCE records accompany them *)
Theorem xb_compressed_file_loads_as_plain : forall p two pg0 pg1 f0 f1 fh s s' dc, xb_shape_g p two pg0 pg1 f0 f1 fh ->
  save_xbo true p = Ok dc ->
  exists du, save_xbo false p = Ok du /\ C02Loaders.load_xb2 dc s = C02Loaders.load_xb2 du s'.
Proof. exact xb_files_load_alike. Qed.

Theorem xb_compressed_file_exists_iff : forall p two pg0 pg1 f0 f1 fh, xb_shape_g p two pg0 pg1 f0 f1 fh ->
  ((exists dc, save_xbo true p = Ok dc) <-> (exists du, save_xbo false p = Ok du)).
Proof. exact xb_files_exist_alike. Qed.

(* the compressed file is header, palette and font blocks followed by exactly one stream the XBin specification's decoder
   (C06's xb_spec_rows, written from doc/FileFormats/x_bin.htm) accepts completely: nothing follows the last row *)
Theorem xb_compressed_file_spec_conformant : forall p two pg0 pg1 f0 f1 fh dc, xb_shape_g p two pg0 pg1 f0 f1 fh ->
  save_xbo true p = Ok dc ->
  exists D, dc = xb_file p two f0 f1 fh true D /\
            XBin.xb_spec_rows (Z.to_nat (p_w p)) (length (p_rows p)) D =
            Some (map (map (fun c => (c_ch c, encode_attr (p_ice p) (xb_pages two pg0 pg1) c))) (p_rows p), []).
Proof. exact xb_file_spec_conformant. Qed.

(* round trips of compressed files, every representable picture *)
Theorem xb_roundtrip_compressed_one_font : forall p s, representable_xb1 p ->
  exists data b, save_xbo true p = Ok data /\ C02Loaders.load_xb2 data s = Ok b /\ same_picture true [0%N] p (pic_of b).
Proof. exact (xb_roundtrip1_o_proof true). Qed.

Theorem xb_roundtrip_compressed_two_fonts : forall p s, representable_xb2 p ->
  exists data b, save_xbo true p = Ok data /\ C02Loaders.load_xb2 data s = Ok b /\ same_picture true [0%N; 1%N] p (pic_of b).
Proof. exact (xb_roundtrip2_o_proof true). Qed.

(* the property's sentence about compression, on files: both files exist, load to one and the same buffer, and that buffer
   shows the saved picture - font page per cell included in 512-character mode *)
Theorem xb_compression_transparent_one_font : forall p s, representable_xb1 p ->
  exists dc du b, save_xbo true p = Ok dc /\ save_xbo false p = Ok du /\
                  C02Loaders.load_xb2 dc s = Ok b /\ C02Loaders.load_xb2 du s = Ok b /\ same_picture true [0%N] p (pic_of b).
Proof. exact xb_compress_transparent1_proof. Qed.

Theorem xb_compression_transparent_two_fonts : forall p s, representable_xb2 p ->
  exists dc du b, save_xbo true p = Ok dc /\ save_xbo false p = Ok du /\
                  C02Loaders.load_xb2 dc s = Ok b /\ C02Loaders.load_xb2 du s = Ok b /\ same_picture true [0%N; 1%N] p (pic_of b).
Proof. exact xb_compress_transparent2_proof. Qed.

(* a picture that uses ONE font page, whatever its number k: it is written as a one-font file and loads with page 0 - same
   characters, same displayed colours, drawn from equal glyph tables (same_picture_glyphs: Model/C05SpecX.v) *)
Theorem xb_roundtrip_any_page : forall p s compress k f,
  xb_common p -> used_pages (p_rows p) = [k] -> all_pic_cells (cell8 (p_ice p)) p ->
  get_font (p_fonts p) k = Some f -> fontok f ->
  exists data b, save_xbo compress p = Ok data /\ C02Loaders.load_xb2 data s = Ok b /\ same_picture_glyphs p (pic_of b).
Proof. exact xb_roundtrip_page. Qed.

(* ... and a picture that uses TWO font pages pa < pb, whatever their numbers: attribute bit 3 selects pb, the file loads with
   pages 0 and 1 and the glyph tables of pa and pb in slots 0 and 1 *)
Theorem xb_roundtrip_any_two_pages : forall p s compress pa pb fa fb h,
  xb_common p -> used_pages (p_rows p) = [pa; pb] -> pa <> pb ->
  all_pic_cells (fun c => cell8 (p_ice p) c /\ (foreground_color (c_attr c) < 8)%N /\ is_bold (c_attr c) = false) p ->
  get_font (p_fonts p) pa = Some fa -> get_font (p_fonts p) pb = Some fb -> font_wf h fa -> font_wf h fb -> (1 <= h <= 32)%N ->
  exists data b, save_xbo compress p = Ok data /\ C02Loaders.load_xb2 data s = Ok b /\ same_picture_glyphs p (pic_of b).
Proof. exact xb_roundtrip_pages2. Qed.

(* re-save of EVERY file the loader accepts - 256- and 512-character mode, compressed or not, any SAUCE - with either
   writer: the same picture up to the numbering of font pages, and with equal page numbers unless the file uses page 1 only
   (then it is written back as a one-font file).  The only files excluded are those of known finding 2. *)
Theorem xb_resave_any : forall data s b,
  is_bytes data -> C02Loaders.load_xb2 data s = Ok b -> ~ KnownC05_xb_font2_missing (pic_of b) ->
  forall compress s', exists data' b',
    save_xbo compress (pic_of b) = Ok data' /\ C02Loaders.load_xb2 data' s' = Ok b' /\
    same_picture_glyphs (pic_of b) (pic_of b') /\
    (used_pages (p_rows (pic_of b)) <> [1%N] ->
     same_picture true (used_pages (p_rows (pic_of b))) (pic_of b) (pic_of b')).
Proof. exact xb2_resave_proof. Qed.

Theorem xb_resave_512 : forall data s b,
  is_bytes data -> xb_512_file data -> C02Loaders.load_xb2 data s = Ok b -> ~ KnownC05_xb_font2_missing (pic_of b) ->
  forall compress s', exists data' b',
    save_xbo compress (pic_of b) = Ok data' /\ C02Loaders.load_xb2 data' s' = Ok b' /\
    same_picture_glyphs (pic_of b) (pic_of b') /\
    (used_pages (p_rows (pic_of b)) <> [1%N] ->
     same_picture true (used_pages (p_rows (pic_of b))) (pic_of b) (pic_of b')).
Proof. exact (fun data s b Hb _ => xb2_resave_proof data s b Hb). Qed.

(* C05-xb-resave-512-chars-without-font is the EXACT exception: an accepted file cannot be saved again iff it loads with a
   page-1 cell and no font 1 (flag 0x10 without 0x02); the writer then answers NoFontFound or "Can't get second font" *)
Theorem known_2_exact : forall data s b compress,
  is_bytes data -> C02Loaders.load_xb2 data s = Ok b ->
  ((exists e, save_xbo compress (pic_of b) = Err e) <-> KnownC05_xb_font2_missing (pic_of b)).
Proof. exact xb2_refused_iff_known. Qed.

Theorem known_2_refusal : forall data s b compress,
  is_bytes data -> C02Loaders.load_xb2 data s = Ok b -> KnownC05_xb_font2_missing (pic_of b) ->
  save_xbo compress (pic_of b) = Err 1 \/ save_xbo compress (pic_of b) = Err 10.
Proof. exact xb2_known_refused. Qed.

Theorem known_2_witness_both_writers : forall compress,
  exists b, C02Loaders.load_xb2 known_xb_file None = Ok b /\ KnownC05_xb_font2_missing (pic_of b) /\ save_xbo compress (pic_of b) = Err 1.
Proof. exact known_xb_font2_witness2. Qed.

(* ------------------------------------------------------------------ files with their SAUCE bytes (composition with C11) *)
(* `X_to_bytes true` = Buffer::to_bytes(ext, save_sauce = true): the data followed by the EOF byte, the optional comment block
   and the 128-byte record of write_sauce_info; `X_from_bytes dp` = Buffer::from_bytes: SauceData::extract, the cut, the loader.
   For every content C11's split_exact cuts exactly the appended bytes off; the width reaches the BIN loader through FileType
   (w / 2 as u8) and the Tundra loader through TInfo1 (u16).  `name` = name of font 0 (write_sauce_info unwraps get_font(0):
   hence has_font0), `ws` = the buffer's own SAUCE strings, `d` / `dp` = today's date as written / chrono's parser. *)
Theorem bin_file_roundtrip : forall dp p name ws d date,
  representable_bin p -> has_font0 p -> SauceSpec.wf (wbuf_of p name ws) -> length d = 8%nat -> dp d = Some date ->
  exists file b, bin_to_bytes true p name ws d = Ok file /\ bin_from_bytes dp file = Ok b /\ same_picture false [] p (pic_of b).
Proof. exact bin_file_roundtrip_proof. Qed.

Theorem tnd_file_roundtrip : forall dp p name ws d date,
  representable_tnd p -> has_font0 p -> SauceSpec.wf (wbuf_of p name ws) -> length d = 8%nat -> dp d = Some date ->
  exists file b, tnd_to_bytes true p name ws d = Ok file /\ tnd_from_bytes dp file = Ok b /\ same_picture_rgb p (pic_of b).
Proof. exact tnd_file_roundtrip_proof. Qed.

Theorem xb_file_roundtrip_one_font : forall dp compress p name ws d date,
  representable_xb1 p -> has_font0 p -> SauceSpec.wf (wbuf_of p name ws) -> length d = 8%nat -> dp d = Some date ->
  exists file b, xb_to_bytes compress true p name ws d = Ok file /\ xb_from_bytes dp file = Ok b /\ same_picture true [0%N] p (pic_of b).
Proof. exact xb_file_roundtrip1_proof. Qed.

Theorem xb_file_roundtrip_two_fonts : forall dp compress p name ws d date,
  representable_xb2 p -> has_font0 p -> SauceSpec.wf (wbuf_of p name ws) -> length d = 8%nat -> dp d = Some date ->
  exists file b, xb_to_bytes compress true p name ws d = Ok file /\ xb_from_bytes dp file = Ok b /\ same_picture true [0%N; 1%N] p (pic_of b).
Proof. exact xb_file_roundtrip2_proof. Qed.

Theorem adf_file_roundtrip : forall dp p name ws d date,
  representable_adf p -> has_font0 p -> SauceSpec.wf (wbuf_of p name ws) -> length d = 8%nat -> dp d = Some date ->
  exists file b, adf_to_bytes true p name ws d = Ok file /\ adf_from_bytes dp file = Ok b /\ same_picture true [0%N] p (pic_of b).
Proof. exact adf_file_roundtrip_proof. Qed.

(* IDF appends a record of type Bin: the writer then refuses widths above 511 (w / 2 must fit a byte) - the second half of known finding 1 *)
Theorem idf_file_roundtrip : forall dp compress p name ws d date,
  representable_idf_wide p -> p_w p <= 511 -> has_font0 p -> SauceSpec.wf (wbuf_of p name ws) -> length d = 8%nat -> dp d = Some date ->
  exists file b, idf_to_bytes compress true p name ws d = Ok file /\ idf_from_bytes dp file = Ok b /\ same_picture true [0%N] p (pic_of b).
Proof. exact idf_file_roundtrip_proof. Qed.

(* every .tnd file Buffer::from_bytes accepts, whatever SAUCE record it carries (C11: the width extract reports is never
   negative, which is all the Tundra loader needs): written back with its record and read again as the same picture *)
Theorem tnd_file_resave : forall dp bytes b,
  is_bytes bytes -> tnd_from_bytes dp bytes = Ok b ->
  0 <= b_h b -> b_w b * b_h b < 1073741824 -> (N.of_nat (length bytes) < 536870912)%N ->
  forall name ws d date, SauceSpec.wf (wbuf_of (pic_of b) name ws) -> length d = 8%nat -> dp d = Some date ->
  exists file' b', tnd_to_bytes true (pic_of b) name ws d = Ok file' /\ tnd_from_bytes dp file' = Ok b' /\
                   same_picture_rgb (pic_of b) (pic_of b').
Proof. exact tnd_file_resave_proof. Qed.

(* ------------------------------------------------------------------ IDF without the width side condition *)
(* the loader takes header widths up to 65536 but stores cells in its 80-column layer only; the writer has no width limit.
   representable_idf_wide (Proofs/C05IdfWideProofs.v): width 1..65536, the first 80 cells of a row as in representable_idf,
   the rest the cell Buffer::get_char returns outside the layer.  It contains representable_idf. *)
Theorem idf_wide_contains_idf : forall p, representable_idf p -> representable_idf_wide p.
Proof. exact representable_idf_is_wide. Qed.

Theorem idf_roundtrip_any_width : forall compress p, representable_idf_wide p ->
  exists data b, save_idf compress p = Ok data /\ load_idf data = Ok b /\ same_picture true [0%N] p (pic_of b).
Proof. exact idf_roundtrip_wide_proof. Qed.

(* idf_resave without `b_w b <= 80` (an artefact of the proof); `b_h b <= 200` stays because the writer really refuses: *)
Theorem idf_resave_any_width : forall data b,
  is_bytes data -> load_idf data = Ok b -> b_h b <= 200 ->
  forall compress, exists data' b', save_idf compress (pic_of b) = Ok data' /\ load_idf data' = Ok b' /\
                                    same_picture true [0%N] (pic_of b) (pic_of b').
Proof. exact idf_resave_wide_proof. Qed.

(* ... known finding 1 is the exact exception *)
Theorem known_1_exact : forall data b compress,
  is_bytes data -> load_idf data = Ok b ->
  ((exists e, save_idf compress (pic_of b) = Err e) <-> KnownC05_idf_size (pic_of b)).
Proof. exact idf_refused_iff_known. Qed.

(* ------------------------------------------------------------------ non-vacuity of the extension *)
(* a 9 x 2 two-font picture with runs: the compressed file is shorter, differs from the plain file only in the flag byte and the
   data section, and both load to the same buffer with pages 0 and 1 in place *)
Definition demo_xb2 : pic :=
  mkPic 9 2 Ice
        [ repeat (mkCell 65 (mkAttr 0 7 1 0)) 4 ++ repeat (mkCell 65 (mkAttr 1 7 1 0)) 4 ++ [mkCell 66 (mkAttr 1 3 0 0)];
          repeat (mkCell 32 (mkAttr 0 7 0 0)) 9 ]
        DOS_DEFAULT_PALETTE [(0%N, default_font); (1%N, default_font)].
Example demo_xb2_compressed :
  match save_xbo true demo_xb2, save_xbo false demo_xb2 with
  | Ok dc, Ok du =>
      (length dc <? length du)%nat = true /\ nth 10 dc 0%N = 30%N /\ nth 10 du 0%N = 26%N /\
      match C02Loaders.load_xb2 dc None, C02Loaders.load_xb2 du None with
      | Ok b, Ok b' => b = b' /\ map (map (fun c => font_page (c_attr c))) (p_rows (pic_of b)) = [[0; 0; 0; 0; 1; 1; 1; 1; 1]; [0; 0; 0; 0; 0; 0; 0; 0; 0]]%N
      | _, _ => False
      end
  | _, _ => False
  end.
Proof. vm_compute. repeat split; reflexivity. Qed.

(* an IDF file 100 columns wide: it loads 100 x 1 with an 80-column layer, is saved again (both writers) and loads as the same picture *)
Definition demo_idf_wide_file : list N :=
  IDF_V1_4_HEADER ++ [0; 0; 0; 0; 99; 0; 0; 0]%N ++ flat_map (fun i => [65 + i mod 26; i mod 256])%N (nrange 100)
  ++ repeat 0%N 4096 ++ repeat 0%N 48.
Example demo_idf_wide :
  match load_idf demo_idf_wide_file with
  | Ok b => b_w b = 100 /\ l_w (b_layer b) = 80 /\
            match save_idf true (pic_of b), save_idf false (pic_of b) with
            | Ok d1, Ok d2 => match load_idf d1, load_idf d2 with
                              | Ok b1, Ok b2 => p_rows (pic_of b1) = p_rows (pic_of b) /\ p_rows (pic_of b2) = p_rows (pic_of b)
                              | _, _ => False
                              end
            | _, _ => False
            end
  | _ => False
  end.
Proof. vm_compute. repeat split; reflexivity. Qed.
