(* C19 — table-driven CRCs equal their bitwise definitions.
   Only statements, each closed by `exact <lemma>`; proofs live in Proofs/Crc{16,32}Proofs.v.
   The definitions quantified over are those of Model/Crc.v over Gen/Crc.v, i.e. over the
   tables and expressions regenerated from /repo/src/crc.rs on every run. *)
From Coq Require Import NArith List.
From IE Require Import Lib.Tbl Gen.Crc Model.Crc Proofs.Crc16Proofs Proofs.Crc32Proofs.
Import ListNotations.
Local Open Scope N_scope.

Definition is_bytes (bs : list N) : Prop := Forall (fun b => b < 256) bs.

Theorem get_crc16_spec : forall bs, is_bytes bs -> get_crc16 bs = crc16_spec bs.
Proof. exact get_crc16_spec_proof. Qed.

Theorem get_crc32_spec : forall bs, is_bytes bs -> get_crc32 bs = crc32_spec bs.
Proof. exact get_crc32_spec_proof. Qed.

Theorem crc32_incremental_eq : forall bs, is_bytes bs ->
  lnot32 (fold_left update_crc32 bs 4294967295) = get_crc32 bs.
Proof. exact crc32_incremental_proof. Qed.

Theorem crc16_incremental_eq : forall bs, is_bytes bs -> fold_left update_crc16 bs 0 = get_crc16 bs.
Proof. exact crc16_incremental_proof. Qed.

(* single steps, every state and every byte: the quantifier's 2^16 x 256 and "every state" parts *)
Theorem update_crc16_step : forall c b, c < 65536 -> b < 256 -> update_crc16 c b = byte16 c b.
Proof. exact update_crc16_spec. Qed.

Theorem update_crc32_step : forall c b, b < 256 -> update_crc32 c b = byte32 c b.
Proof. exact update_crc32_spec. Qed.

(* the model's loop fuel is never exhausted: the slice loop stops with < 16 bytes, like the Rust `while` *)
Theorem crc32_loop_fuel_suffices : forall bs, is_bytes bs ->
  (length (snd (slice_loop (length bs) crc32_init bs)) < 16)%nat.
Proof. exact slice_loop_rest_short. Qed.

(* non-vacuity: a 40-byte string goes through two slices and an 8-byte tail *)
Definition sample40 : list N := map (fun i => (i * 7 + 3) mod 256) (nrange 40).
Example sample40_is_bytes : is_bytes sample40.
Proof. unfold sample40. apply Forall_forall. intros x Hx. apply in_map_iff in Hx. destruct Hx as (i & <- & _). apply N.mod_lt. discriminate. Qed.
Example sample40_values : get_crc32 sample40 = crc32_spec sample40 /\ get_crc32 sample40 = 3878729706 /\ get_crc16 sample40 = 39001.
Proof. vm_compute. repeat split. Qed.
