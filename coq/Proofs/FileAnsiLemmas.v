(* C02 (text loaders): the two geometry lemmas of Proofs/AnsiProofs.v that C01's scripts over the weak invariant use,
   restated for the ANSI parser model over the file-buffer core (Gen/FileAnsiTok.v).  Same names, same proofs. *)
From Coq Require Import ZArith NArith List Bool Lia.
From IE Require Import Model.FileCore Gen.FileAnsiTok Proofs.TermProofs.
Import ListNotations.
Local Open Scope Z_scope.

Lemma sgr_loop_pgeo : forall fuel t l, pgeo (fst (sgr_loop fuel t l)) = pgeo t.
Proof.
  induction fuel as [|k IH]; intros t l; cbn [sgr_loop]; [reflexivity|].
  destruct l as [|n r]; [reflexivity|].
  repeat match goal with
         | |- pgeo (fst (if ?c then _ else _)) = _ => destruct c
         | |- pgeo (fst (match ext_color ?l with _ => _ end)) = _ => destruct (ext_color l) as [[? ?]|]
         end; try reflexivity; rewrite IH; reflexivity.
Qed.
Lemma restore_saved_geo : forall t s, geo (restore_saved t s) = geo t.
Proof. intros t [[[[[[x y] fg] bg] bl] ice] i]. reflexivity. Qed.
