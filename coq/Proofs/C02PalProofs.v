(* C02: load_palette / export_palette never panic, for every variant of PaletteFormat (Model/C02Pal.v). *)
From Coq Require Import NArith List.
From IE Require Import Lib.Tbl Gen.C02Pal Model.Palette Model.PaletteFiles Model.C02Pal.
Import ListNotations.
Local Open Scope N_scope.

Definition KnownC02_1 (f : palette_format) : Prop := f = PAse.       (* the class of the fixed finding C02-ase-todo *)

Lemma palette_load_total_proof f s : palette_load f s <> PalPanic.
Proof.
  unfold palette_load, palette_load_with. destruct f; cbn [load_palette_arm palette_model];
    try (destruct (load _ s); discriminate); discriminate.
Qed.

Lemma palette_load_cases_proof f s :
  palette_load f s = PalErr \/ exists m l, palette_model f = Some m /\ load m s = Some l /\ palette_load f s = PalOk l.
Proof.
  unfold palette_load, palette_load_with. destruct f; cbn [load_palette_arm palette_model];
    try (destruct (load _ s) as [l|] eqn:E; [right; eexists; exists l; repeat split; exact E|left; reflexivity]).
  left. reflexivity.
Qed.

Lemma palette_export_total_proof f p : palette_export f p <> None.
Proof. unfold palette_export, palette_export_with. destruct f; cbn [export_palette_arm palette_model]; discriminate. Qed.

Lemma ase_refused_proof : (forall s, palette_load PAse s = PalErr) /\ (forall p, palette_export PAse p = Some []).
Proof. split; intros; reflexivity. Qed.

Lemma known_1_witness_proof :
  KnownC02_1 PAse /\ (forall s, palette_load_with todo_arm PAse s = PalPanic) /\
  (forall p, palette_export_with todo_arm PAse p = None) /\
  (forall f, ~ KnownC02_1 f -> forall s, palette_load_with todo_arm f s = palette_load f s).
Proof.
  split; [reflexivity|]. split; [reflexivity|]. split; [reflexivity|].
  intros f H s. destruct f; try reflexivity. exfalso. apply H. reflexivity.
Qed.
