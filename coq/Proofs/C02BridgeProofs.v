(* C02 — the models of the FIXED XBin / Tundra loaders (Model/C02Loaders.v) accept exactly the files C05's models of the
   loaders before the fix accepted, with the same result: what C05 proves about "every file the loader accepts"
   (re-save stability) and about the writers' files (round trips) therefore holds for the code as it is now.
   The only difference between old and new is the outcome on files that made the old code panic (now an error) and, for
   XBin, compressed files (C05's model stops with Err 98, property C06 owns the compressed reader). *)
From Coq Require Import NArith ZArith Bool List Lia PeanoNat.
From IE Require Import Lib.Tbl Lib.C05Lib Lib.C02Lib Gen.Codepage Gen.Formats Model.Attr Model.C05Buf Model.C05Bin Model.C05XBin
  Model.C05Idf Model.C05Tundra Model.C02Loaders Proofs.C02Proofs.
Import ListNotations.
Local Open Scope Z_scope.

Ltac step_colors :=
  repeat (cbn [tnd_color bind];
          try match goal with |- context [insert_color ?p ?c] => destruct (insert_color p c) end).

Lemma tnd_loop2_ok_iff : forall fuel w data L pal at0 x y r,
  tnd_loop2 fuel w L pal at0 x y data = Ok r <-> tnd_loop fuel w L pal at0 x y data = Ok r.
Proof.
  induction fuel as [|fuel IH]; intros w data L pal at0 x y r.
  - destruct data; cbn; tauto.
  - destruct data as [|cmd rest]; [cbn; tauto|]. cbn [tnd_loop2 tnd_loop].
    destruct (cmd =? TUNDRA_POSITION)%N.
    { destruct (Nat.ltb_spec (length rest) 8) as [H8|H8].
      - split; [discriminate|].
        destruct rest as [|a0 [|a1 [|a2 [|a3 rest1]]]]; try discriminate.
        destruct (_ >=? 65535); [discriminate|].
        destruct rest1 as [|c0 [|c1 [|c2 [|c3 rest2]]]]; try discriminate. cbn [length] in H8. lia.
      - destruct rest as [|a0 [|a1 [|a2 [|a3 [|c0 [|c1 [|c2 [|c3 rest2]]]]]]]]; cbn [length] in H8; try lia.
        destruct (_ >=? 65535); [tauto|]. destruct (_ >=? w); [tauto|]. apply IH. }
    destruct ((1 <? cmd)%N && (cmd <=? 6)%N).
    2:{ cbn [bind]. destruct (x + 1 >=? w); apply IH. }
    unfold tnd_record_len.
    destruct (negb (N.land cmd TUNDRA_COLOR_FOREGROUND =? 0)%N), (negb (N.land cmd TUNDRA_COLOR_BACKGROUND =? 0)%N);
      match goal with |- context [Nat.ltb (length rest) ?k] => destruct (Nat.ltb_spec (length rest) k) as [Hk|Hk] end.
    + split; [discriminate|].
      destruct rest as [|ch [|p0 [|r0 [|g0 [|b0 [|p1 [|r1 [|g1 [|b1 rest2]]]]]]]]]; step_colors; try discriminate.
      cbn [length] in Hk. lia.
    + destruct rest as [|ch [|p0 [|r0 [|g0 [|b0 [|p1 [|r1 [|g1 [|b1 rest2]]]]]]]]]; cbn [length] in Hk; try lia.
      step_colors. destruct (x + 1 >=? w); apply IH.
    + split; [discriminate|].
      destruct rest as [|ch [|p0 [|r0 [|g0 [|b0 rest2]]]]]; step_colors; try discriminate. cbn [length] in Hk. lia.
    + destruct rest as [|ch [|p0 [|r0 [|g0 [|b0 rest2]]]]]; cbn [length] in Hk; try lia.
      step_colors. destruct (x + 1 >=? w); apply IH.
    + split; [discriminate|].
      destruct rest as [|ch [|p0 [|r0 [|g0 [|b0 rest2]]]]]; step_colors; try discriminate. cbn [length] in Hk. lia.
    + destruct rest as [|ch [|p0 [|r0 [|g0 [|b0 rest2]]]]]; cbn [length] in Hk; try lia.
      step_colors. destruct (x + 1 >=? w); apply IH.
    + split; [discriminate|]. destruct rest as [|ch rest2]; [discriminate|]. cbn [length] in Hk. lia.
    + destruct rest as [|ch rest2]; cbn [length] in Hk; try lia.
      cbn [bind]. destruct (x + 1 >=? w); apply IH.
Qed.

Lemma bind_ok_iff {A B} (r1 r2 : res A) (f : A -> res B) (b : B) :
  (forall a, r1 = Ok a <-> r2 = Ok a) -> (bind r1 f = Ok b <-> bind r2 f = Ok b).
Proof.
  intro H. destruct r1 as [a1|e1|s1], r2 as [a2|e2|s2]; cbn [bind]; try tauto;
    try (pose proof (proj1 (H a1) eq_refl) as E; try discriminate E; injection E as <-; tauto);
    try (pose proof (proj2 (H a2) eq_refl) as E; discriminate E);
    split; discriminate.
Qed.

Theorem tnd_fixed_agrees : forall data s b, load_tnd2 data s = Ok b <-> load_tnd data s = Ok b.
Proof.
  intros data s b. unfold load_tnd2, load_tnd.
  destruct (length data <? 1 + length TUNDRA_HEADER)%nat; [tauto|].
  destruct data as [|ver rest]; [tauto|].
  destruct (negb _); [tauto|].
  apply bind_ok_iff. intros [L pal]. apply tnd_loop2_ok_iff.
Qed.

(* XBin: whatever the old model accepted, the fixed loader accepts with the same buffer ... *)
Theorem xb_fixed_accepts : forall data s b, load_xb data s = Ok b -> load_xb2 data s = Ok b.
Proof.
  intros data s b. unfold load_xb, load_xb2.
  destruct (length data <? N.to_nat XBIN_HEADER_SIZE)%nat; [discriminate|].
  destruct data as [|i0 [|i1 [|i2 [|i3 [|eof [|wl [|wh [|hl [|hh [|fs [|flags rest]]]]]]]]]]]; try discriminate.
  destruct (negb _); [discriminate|].
  destruct (_ || _); [discriminate|].
  destruct (32 <? _)%N; [discriminate|].
  set (b0 := set_ice _ _). clearbody b0.
  set (font_size := if (fs =? 0)%N then 16%N else fs).
  set (fl := (N.to_nat font_size * 256)%nat).
  intro H.
  match type of H with bind ?P _ = _ => destruct P as [[b1 rest1]|e|s0] eqn:EP; cbn [bind] in H; try discriminate H end.
  assert (EP2 : (if has_flag8 flags XBIN_FLAG_PALETTE
                 then if (length rest <? N.to_nat XBIN_PALETTE_LENGTH)%nat then Err 5
                      else let* '(pb, rest0) := take_slice (N.to_nat XBIN_PALETTE_LENGTH) rest in
                           let* pal := from_63 pb in Ok (set_pal b0 pal, rest0)
                 else Ok (b0, rest)) = Ok (b1, rest1)).
  { destruct (has_flag8 flags XBIN_FLAG_PALETTE); [|exact EP].
    destruct (Nat.ltb_spec (length rest) (N.to_nat XBIN_PALETTE_LENGTH)) as [Hlt|]; [|exact EP].
    unfold take_slice in EP. destruct (Nat.ltb_spec (length rest) (N.to_nat XBIN_PALETTE_LENGTH)); [|lia].
    cbn [bind] in EP. discriminate EP. }
  rewrite EP2. cbn [bind]. clear EP EP2.
  (* font block(s) *)
  match type of H with bind ?P _ = _ => destruct P as [[b2 rest2]|e|s0] eqn:EF; cbn [bind] in H; try discriminate H end.
  assert (EF2 : (if has_flag8 flags XBIN_FLAG_FONT
                 then if (length rest1 <? fl * (if has_flag8 flags XBIN_FLAG_512CHAR_MODE then 2 else 1))%nat then Err 5
                      else let* '(fb, rest0) := take_slice fl rest1 in
                           let* f0 := font_create_8 font_size fb in
                           if has_flag8 flags XBIN_FLAG_512CHAR_MODE
                           then let* '(fb1, rest3) := take_slice fl rest0 in
                                let* f1 := font_create_8 font_size fb1 in
                                Ok (set_fonts b1 [(0%N, font_named_default f0); (1%N, font_named_default f1)], rest3)
                           else Ok (set_fonts b1 [(0%N, font_named_default f0)], rest0)
                 else Ok (b1, rest1)) = Ok (b2, rest2)).
  { destruct (has_flag8 flags XBIN_FLAG_FONT); [|exact EF].
    unfold take_slice at 1 in EF. destruct (Nat.ltb_spec (length rest1) fl) as [|Hge]; [discriminate EF|].
    cbn [bind] in EF.
    destruct (has_flag8 flags XBIN_FLAG_512CHAR_MODE).
    - destruct (font_create_8 font_size (firstn fl rest1)) as [f0| |] eqn:E0; cbn [bind] in EF; try discriminate EF.
      unfold take_slice in EF. rewrite skipn_length in EF.
      destruct (Nat.ltb_spec (length rest1 - fl) fl) as [|Hge2]; [discriminate EF|].
      destruct (Nat.ltb_spec (length rest1) (fl * 2)); [lia|].
      rewrite take_slice_ok by lia. cbn [bind]. rewrite E0. cbn [bind].
      rewrite take_slice_ok by (rewrite skipn_length; lia). exact EF.
    - destruct (Nat.ltb_spec (length rest1) (fl * 1)); [lia|].
      rewrite take_slice_ok by lia. cbn [bind]. exact EF. }
  rewrite EF2. cbn [bind].
  destruct (has_flag8 flags XBIN_FLAG_COMPRESS); [discriminate H|]. cbn [bind]. exact H.
Qed.

(* ... and whatever the fixed loader accepts was accepted by the old model with the same buffer, unless the file is
   compressed (Err 98 = "compressed data: not this model's subject") *)
Theorem xb_fixed_accepted : forall data s b, load_xb2 data s = Ok b -> load_xb data s = Ok b \/ load_xb data s = Err 98.
Proof.
  intros data s b. unfold load_xb, load_xb2.
  destruct (length data <? N.to_nat XBIN_HEADER_SIZE)%nat; [discriminate|].
  destruct data as [|i0 [|i1 [|i2 [|i3 [|eof [|wl [|wh [|hl [|hh [|fs [|flags rest]]]]]]]]]]]; try discriminate.
  destruct (negb _); [discriminate|].
  destruct (_ || _); [discriminate|].
  destruct (32 <? _)%N; [discriminate|].
  set (b0 := set_ice _ _). clearbody b0.
  set (font_size := if (fs =? 0)%N then 16%N else fs).
  set (fl := (N.to_nat font_size * 256)%nat).
  intro H.
  match type of H with bind ?P _ = _ => destruct P as [[b1 rest1]|e|s0] eqn:EP; cbn [bind] in H; try discriminate H end.
  assert (EP2 : (if has_flag8 flags XBIN_FLAG_PALETTE
                 then let* '(pb, rest0) := take_slice (N.to_nat XBIN_PALETTE_LENGTH) rest in
                      let* pal := from_63 pb in Ok (set_pal b0 pal, rest0)
                 else Ok (b0, rest)) = Ok (b1, rest1)).
  { destruct (has_flag8 flags XBIN_FLAG_PALETTE); [|exact EP].
    destruct (length rest <? N.to_nat XBIN_PALETTE_LENGTH)%nat; [discriminate EP|exact EP]. }
  rewrite EP2. cbn [bind]. clear EP EP2.
  match type of H with bind ?P _ = _ => destruct P as [[b2 rest2]|e|s0] eqn:EF; cbn [bind] in H; try discriminate H end.
  assert (EF2 : (if has_flag8 flags XBIN_FLAG_FONT
                 then let* '(fb, rest0) := take_slice fl rest1 in
                      let* f0 := font_create_8 font_size fb in
                      if has_flag8 flags XBIN_FLAG_512CHAR_MODE
                      then let* '(fb1, rest3) := take_slice fl rest0 in
                           let* f1 := font_create_8 font_size fb1 in
                           Ok (set_fonts b1 [(0%N, font_named_default f0); (1%N, font_named_default f1)], rest3)
                      else Ok (set_fonts b1 [(0%N, font_named_default f0)], rest0)
                 else Ok (b1, rest1)) = Ok (b2, rest2)).
  { destruct (has_flag8 flags XBIN_FLAG_FONT); [|exact EF].
    destruct (length rest1 <? fl * _)%nat; [discriminate EF|exact EF]. }
  rewrite EF2. cbn [bind].
  destruct (has_flag8 flags XBIN_FLAG_COMPRESS); [right; reflexivity|left].
  cbn [bind] in H. exact H.
Qed.
