(* C03 (extension e): the cell loops of the binary loaders: cells stored <= bytes read (+ declared run lengths / jump targets), the counted loops ARE
   the loops of the C05 / C02 loader models, rows and cells of the loaded layer for the sequential loaders (BIN, ADF, XBin). *)
From Coq Require Import NArith ZArith Bool List Lia.
From IE Require Import Lib.Tbl Lib.C05Lib Gen.Codepage Gen.Formats Model.Attr Model.C05Buf Model.C05Bin Model.C05XBin
  Model.C05Idf Model.C05Tundra Model.C02Loaders Model.LoadCost.
Import ListNotations.
Local Open Scope Z_scope.

(* ---- pair_loop (BIN, ADF, uncompressed XBin) ------------------------------------------------------------------------------------- *)
Lemma pair_loop_t_spec grow dec w : forall n data L x y k, (length data <= n)%nat ->
  fst (pair_loop_t grow dec w L x y data k) = pair_loop grow dec w L x y data /\
  2 * (snd (pair_loop_t grow dec w L x y data k) - k) <= Z.of_nat (length data) < 2 * (snd (pair_loop_t grow dec w L x y data k) - k) + 2.
Proof.
  induction n as [|n IH]; intros data L x y k Hn.
  - destruct data; [cbn [pair_loop_t pair_loop fst snd length]; split; [reflexivity|lia]|cbn in Hn; lia].
  - destruct data as [|ch [|a rest]]; [cbn [pair_loop_t pair_loop fst snd length]; split; [reflexivity|lia]|cbn [pair_loop_t pair_loop fst snd length]; split; [reflexivity|lia]|].
    cbn [pair_loop_t pair_loop length] in *. destruct (x + 1 >=? w).
    + destruct (IH rest (put grow L x y (dec ch a)) 0 (y + 1) (k + 1) ltac:(lia)) as [I1 I2]. split; [exact I1|lia].
    + destruct (IH rest (put grow L x y (dec ch a)) (x + 1) y (k + 1) ltac:(lia)) as [I1 I2]. split; [exact I1|lia].
Qed.

(* what one `put` can do to the line table *)
Lemma length_updf {A} (l : list A) : forall i f, length (updf l i f) = length l.
Proof. induction l as [|h l IH]; intros [|i] f; cbn [updf length]; try reflexivity. rewrite IH. reflexivity. Qed.
Lemma length_pad {A} (l : list A) n d : length (pad l n d) = Nat.max (length l) n.
Proof. unfold pad. rewrite app_length, repeat_length. lia. Qed.
Lemma lmaxrow_nonneg ls : 0 <= lmaxrow ls.
Proof. induction ls as [|r ls IH]; cbn [lmaxrow]; lia. Qed.
Lemma lmaxrow_app a b : lmaxrow (a ++ b) = Z.max (lmaxrow a) (lmaxrow b).
Proof. induction a as [|r a IH]; cbn [app lmaxrow]; [pose proof (lmaxrow_nonneg b); lia|]. rewrite IH. lia. Qed.
Lemma lmaxrow_repeat r n : lmaxrow (repeat r n) <= Z.of_nat (length r).
Proof. induction n; cbn [repeat lmaxrow]; lia. Qed.
Lemma lmaxrow_updf (f : list cell -> list cell) B : (forall r, Z.of_nat (length (f r)) <= Z.max (Z.of_nat (length r)) B) ->
  forall ls i, lmaxrow (updf ls i f) <= Z.max (lmaxrow ls) B.
Proof.
  intro Hf. induction ls as [|r ls IH]; intros [|i]; cbn [updf lmaxrow]; try lia.
  - specialize (Hf r). lia.
  - specialize (IH i). lia.
Qed.
Lemma lcells_le ls : lcells ls <= Z.of_nat (length ls) * lmaxrow ls.
Proof. induction ls as [|r ls IH]; cbn [lcells lmaxrow length]; [lia|]. pose proof (lmaxrow_nonneg ls). nia. Qed.
Lemma length_line_set l x c : length (line_set l x c) = Nat.max (length l) (S x).
Proof. unfold line_set. rewrite length_updf, length_pad. reflexivity. Qed.
Lemma lines_set_facts lw ls x y c : (x < Z.to_nat lw)%nat ->
  length (lines_set lw ls x y c) = Nat.max (length ls) (S y) /\ lmaxrow (lines_set lw ls x y c) <= Z.max (lmaxrow ls) (Z.of_nat (Z.to_nat lw)).
Proof.
  intro Hx. unfold lines_set. split; [rewrite length_updf, length_pad; reflexivity|].
  pose proof (lmaxrow_updf (fun l => line_set l x c) (Z.of_nat (Z.to_nat lw)) (fun r => ltac:(cbv beta; rewrite length_line_set; lia)) (pad ls (S y) (line_create lw)) y) as H.
  unfold pad in H. rewrite lmaxrow_app in H. pose proof (lmaxrow_repeat (line_create lw) (S y - length ls)) as HR. unfold line_create in HR at 2. rewrite repeat_length in HR.
  unfold pad. lia.
Qed.
Lemma put_facts grow L x y c : l_w (put grow L x y c) = l_w L /\
  lrows (put grow L x y c) <= Z.max (lrows L) (y + 1) /\ lrows L <= lrows (put grow L x y c) /\
  lmaxrow (l_lines (put grow L x y c)) <= Z.max (lmaxrow (l_lines L)) (l_w L).
Proof.
  unfold put, layer_set_char. set (L1 := if grow then layer_set_height L (y + 1) else L).
  assert (E : l_w L1 = l_w L /\ l_lines L1 = l_lines L) by (subst L1; destruct grow; split; reflexivity). destruct E as [E1 E2].
  destruct (out_of_layer L1 x y) eqn:EO.
  - unfold lrows. rewrite E1, E2. pose proof (lmaxrow_nonneg (l_lines L)). repeat split; lia.
  - unfold out_of_layer in EO. repeat (apply orb_false_iff in EO; destruct EO as [EO ?]). cbn [l_w l_lines]. unfold lrows. cbn [l_lines].
    destruct (lines_set_facts (l_w L1) (l_lines L1) (Z.to_nat x) (Z.to_nat y) c ltac:(lia)) as [F1 F2]. rewrite F1, E1, E2 in *. repeat split; lia.
Qed.

(* the sequential loaders fill the layer left to right, top to bottom: w * rows <= w * y + x + cells stored + w *)
Lemma pair_loop_alloc grow dec w : forall n data L x y, (length data <= n)%nat -> 1 <= w -> l_w L = w -> 0 <= x < w -> 0 <= y ->
  let Lf := pair_loop grow dec w L x y data in
  l_w Lf = w /\ w * lrows Lf <= Z.max (w * lrows L) (w * y + x + Z.of_nat (length data) / 2 + w) /\
  lmaxrow (l_lines Lf) <= Z.max (lmaxrow (l_lines L)) w.
Proof.
  induction n as [|n IH]; intros data L x y Hn Hw HL Hx Hy.
  - destruct data; [|cbn in Hn; lia]. cbn. pose proof (lmaxrow_nonneg (l_lines L)). unfold lrows. repeat split; try lia.
  - destruct data as [|ch [|a rest]].
    + cbn. pose proof (lmaxrow_nonneg (l_lines L)). repeat split; lia.
    + cbn. pose proof (lmaxrow_nonneg (l_lines L)). repeat split; lia.
    + cbn [pair_loop length] in *. destruct (put_facts grow L x y (dec ch a)) as (P1 & P2 & P3 & P4). rewrite HL in *.
      assert (HD : Z.of_nat (S (S (length rest))) / 2 = Z.of_nat (length rest) / 2 + 1).
      { replace (Z.of_nat (S (S (length rest)))) with (Z.of_nat (length rest) + 1 * 2) by lia. apply Z.div_add. lia. }
      rewrite HD. pose proof (Z.div_pos (Z.of_nat (length rest)) 2 ltac:(lia) ltac:(lia)) as HP.
      destruct (x + 1 >=? w) eqn:EW.
      * assert (x + 1 >= w) by (destruct (Z.geb_spec (x + 1) w); [lia|discriminate]).
        destruct (IH rest (put grow L x y (dec ch a)) 0 (y + 1) ltac:(lia) Hw P1 ltac:(lia) ltac:(lia)) as (I1 & I2 & I3). cbv zeta in *.
        split; [exact I1|]. split; [nia|lia].
      * assert (x + 1 < w) by (destruct (Z.geb_spec (x + 1) w); [discriminate|lia]).
        destruct (IH rest (put grow L x y (dec ch a)) (x + 1) y ltac:(lia) Hw P1 ltac:(lia) ltac:(lia)) as (I1 & I2 & I3). cbv zeta in *.
        split; [exact I1|]. split; [nia|lia].
Qed.
(* load_ticks_bound for BIN / ADF / uncompressed XBin: cells stored = pairs read; rows x width and cells of the loaded layer *)
Lemma load_ticks_bound_pair_l grow dec w L data : 1 <= w -> l_w L = w -> lmaxrow (l_lines L) <= w ->
  fst (pair_loop_t grow dec w L 0 0 data 0) = pair_loop grow dec w L 0 0 data /\
  2 * snd (pair_loop_t grow dec w L 0 0 data 0) <= Z.of_nat (length data) /\
  lcells (l_lines (pair_loop grow dec w L 0 0 data)) <= Z.max (w * lrows L) (Z.of_nat (length data) / 2 + w).
Proof.
  intros Hw HL HM. destruct (pair_loop_t_spec grow dec w (length data) data L 0 0 0 (le_n _)) as [S1 S2].
  destruct (pair_loop_alloc grow dec w (length data) data L 0 0 (le_n _) Hw HL ltac:(lia) ltac:(lia)) as (A1 & A2 & A3). cbv zeta in *.
  split; [exact S1|]. split; [lia|]. pose proof (lcells_le (l_lines (pair_loop grow dec w L 0 0 data))) as HC. unfold lrows in *.
  pose proof (lmaxrow_nonneg (l_lines (pair_loop grow dec w L 0 0 data))). nia.
Qed.

(* ---- compressed XBin: every run header stores at most 64 cells ------------------------------------------------------------------------------ *)
Lemma xb_run_count_le h : (xb_run_count h <= 64)%nat.
Proof.
  unfold xb_run_count. change 63%N with (N.ones 6). rewrite N.land_ones. pose proof (N.mod_upper_bound h (2 ^ 6) ltac:(discriminate)) as H. set (q := (h mod 2 ^ 6)%N) in *. change (2 ^ 6)%N with 64%N in H. lia.
Qed.
Lemma xbc_off_len w dec : forall n L x y bs, (length (snd (xbc_off w dec n L x y bs)) <= length bs)%nat.
Proof.
  induction n as [|n IH]; intros L x y bs; cbn [xbc_off]; [cbn; lia|]. destruct bs as [|c [|a r]]; cbn [snd length]; try lia.
  destruct (xb_adv w x y) as [x' y']. specialize (IH (put false L x y (dec c a)) x' y' r). cbn [length]. lia.
Qed.
Lemma xbc_char_len w dec code : forall n L x y bs, (length (snd (xbc_char w dec code n L x y bs)) <= length bs)%nat.
Proof.
  induction n as [|n IH]; intros L x y bs; cbn [xbc_char]; [cbn; lia|]. destruct bs as [|a r]; cbn [snd length]; try lia.
  destruct (xb_adv w x y) as [x' y']. specialize (IH (put false L x y (dec code a)) x' y' r). cbn [length]. lia.
Qed.
Lemma xbc_attr_len w dec a : forall n L x y bs, (length (snd (xbc_attr w dec a n L x y bs)) <= length bs)%nat.
Proof.
  induction n as [|n IH]; intros L x y bs; cbn [xbc_attr]; [cbn; lia|]. destruct bs as [|c r]; cbn [snd length]; try lia.
  destruct (xb_adv w x y) as [x' y']. specialize (IH (put false L x y (dec c a)) x' y' r). cbn [length]. lia.
Qed.
Lemma xbc_loop_t_spec w dec : forall fuel L x y bs k,
  fst (xbc_loop_t w dec fuel L x y bs k) = xbc_loop w dec fuel L x y bs /\
  k <= snd (xbc_loop_t w dec fuel L x y bs k) <= k + 65 * Z.of_nat (length bs).
Proof.
  induction fuel as [|f IH]; intros L x y bs k; destruct bs as [|h t]; cbn [xbc_loop_t xbc_loop]; try (cbn [fst snd length]; split; [reflexivity|lia]).
  pose proof (xb_run_count_le h) as HN. cbv zeta. cbn [length].
  destruct (xb_run_type h =? 0)%N.
  { pose proof (xbc_off_len w dec (xb_run_count h) L x y t) as HL. destruct (xbc_off w dec (xb_run_count h) L x y t) as [[[L' x'] y'] r]. cbn [snd] in HL.
    destruct (IH L' x' y' r (k + 1 + Z.of_nat (xb_run_count h))) as [I1 I2]. split; [exact I1|lia]. }
  destruct (xb_run_type h =? 64)%N.
  { destruct (length t <? 1)%nat; [cbn [fst snd]; split; [reflexivity|lia]|]. destruct t as [|code t']; cbn [rd bind]; [cbn [fst snd]; split; [reflexivity|lia]|].
    pose proof (xbc_char_len w dec code (xb_run_count h) L x y t') as HL. destruct (xbc_char w dec code (xb_run_count h) L x y t') as [[[L' x'] y'] r]. cbn [snd] in HL.
    destruct (IH L' x' y' r (k + 1 + Z.of_nat (xb_run_count h))) as [I1 I2]. cbn [length] in *. split; [exact I1|lia]. }
  destruct (xb_run_type h =? 128)%N.
  { destruct (length t <? 1)%nat; [cbn [fst snd]; split; [reflexivity|lia]|]. destruct t as [|a t']; cbn [rd bind]; [cbn [fst snd]; split; [reflexivity|lia]|].
    pose proof (xbc_attr_len w dec a (xb_run_count h) L x y t') as HL. destruct (xbc_attr w dec a (xb_run_count h) L x y t') as [[[L' x'] y'] r]. cbn [snd] in HL.
    destruct (IH L' x' y' r (k + 1 + Z.of_nat (xb_run_count h))) as [I1 I2]. cbn [length] in *. split; [exact I1|lia]. }
  destruct (length t <? 1)%nat; [cbn [fst snd]; split; [reflexivity|lia]|]. destruct t as [|code t']; cbn [rd bind]; [cbn [fst snd]; split; [reflexivity|lia]|].
  destruct (length t' <? 1)%nat; [cbn [fst snd]; split; [reflexivity|cbn [length]; lia]|]. destruct t' as [|a r]; cbn [rd bind]; [cbn [fst snd]; split; [reflexivity|cbn [length]; lia]|].
  destruct (xbc_full w (dec code a) (xb_run_count h) L x y) as [[L' x'] y'].
  destruct (IH L' x' y' r (k + 1 + Z.of_nat (xb_run_count h))) as [I1 I2]. cbn [length] in *. split; [exact I1|lia].
Qed.
Lemma load_ticks_bound_xbc_l w m fixed L data :
  fst (xbc_loop_t w (xb_decode m fixed) (length data) L 0 0 data 0) = xb_read_compressed w m fixed L data /\
  0 <= snd (xbc_loop_t w (xb_decode m fixed) (length data) L 0 0 data 0) <= 65 * Z.of_nat (length data).
Proof. unfold xb_read_compressed. destruct (xbc_loop_t_spec w (xb_decode m fixed) (length data) L 0 0 data 0) as [H1 H2]. split; [exact H1|lia]. Qed.

(* ---- Tundra: one command per iteration; a position command may declare any row below 65535 ---------------------------------------------------------- *)
Definition tnd_rows_ok (L : layer) (y k : Z) (r : res (layer * list rgb) * Z * Z) : Prop :=
  forall L' p', fst (fst r) = Ok (L', p') -> lrows L' <= Z.max (lrows L) (Z.max y (snd r) + (snd (fst r) - k) + 1).
Lemma tnd_loop2_t_spec : forall fuel w L pal at0 x y data k ymax,
  fst (fst (tnd_loop2_t fuel w L pal at0 x y data k ymax)) = tnd_loop2 fuel w L pal at0 x y data /\
  k <= snd (fst (tnd_loop2_t fuel w L pal at0 x y data k ymax)) <= k + Z.of_nat (length data) /\
  ymax <= snd (tnd_loop2_t fuel w L pal at0 x y data k ymax) <= Z.max ymax 65534 /\
  tnd_rows_ok L y k (tnd_loop2_t fuel w L pal at0 x y data k ymax).
Proof.
  assert (HE : forall L y k (r : res (layer * list rgb) * Z * Z) e, fst (fst r) = Err e \/ fst (fst r) = Panic e -> tnd_rows_ok L y k r).
  { intros L y k r e [H|H] L' p' E; rewrite H in E; discriminate. }
  induction fuel as [|f IH]; intros w L pal at0 x y data k ymax; destruct data as [|cmd rest]; cbn [tnd_loop2_t tnd_loop2].
  - cbn [fst snd length]. repeat split; try lia. intros L' p' E. inversion E. cbn [fst snd]. lia.
  - cbn [fst snd length]. repeat split; try lia. apply (HE _ _ _ _ 99%N). right. reflexivity.
  - cbn [fst snd length]. repeat split; try lia. intros L' p' E. inversion E. cbn [fst snd]. lia.
  - cbn [length]. destruct (cmd =? TUNDRA_POSITION)%N.
    + destruct (length rest <? 8)%nat; [cbn [fst snd]; repeat split; try lia; apply (HE _ _ _ _ 5%N); left; reflexivity|].
      destruct rest as [|a0 [|a1 [|a2 [|a3 rest1]]]]; try (cbn [fst snd length]; repeat split; try lia; apply (HE _ _ _ _ 6%N); right; reflexivity).
      cbv zeta. destruct (be_i32 a0 a1 a2 a3 >=? 65535) eqn:EY; [cbn [fst snd length]; repeat split; try lia; apply (HE _ _ _ _ 3%N); left; reflexivity|].
      destruct rest1 as [|c0 [|c1 [|c2 [|c3 rest2]]]]; try (cbn [fst snd length]; repeat split; try lia; apply (HE _ _ _ _ 6%N); right; reflexivity).
      destruct (be_i32 c0 c1 c2 c3 >=? w); [cbn [fst snd length]; repeat split; try lia; apply (HE _ _ _ _ 4%N); left; reflexivity|].
      assert (be_i32 a0 a1 a2 a3 < 65535) by (destruct (Z.geb_spec (be_i32 a0 a1 a2 a3) 65535); [discriminate|lia]).
      destruct (IH w L pal at0 (be_i32 c0 c1 c2 c3) (be_i32 a0 a1 a2 a3) rest2 (k + 1) (Z.max ymax (be_i32 a0 a1 a2 a3))) as (I1 & I2 & I3 & I4).
      split; [exact I1|]. cbn [length]. repeat split; try lia. intros L' p' E. specialize (I4 L' p' E). lia.
    + match goal with |- context [match ?r with Ok _ => _ | Err e => (Err e, _, _) | Panic e0 => _ end] => set (hd := r) end.
      assert (HR : forall ch pal1 at1 rest1, hd = Ok (ch, pal1, at1, rest1) -> (length rest1 <= length rest)%nat).
      { subst hd. intros ch pal1 at1 rest1. destruct ((1 <? cmd)%N && (cmd <=? 6)%N); [|intro E; inversion E; lia].
        destruct (length rest <? tnd_record_len cmd)%nat; [discriminate|]. destruct rest as [|c r0]; [discriminate|].
        assert (TC : forall r c' r', tnd_color r = Ok (c', r') -> (length r' <= length r)%nat).
        { intros r c' r'. unfold tnd_color. destruct r as [|b0 [|b1 [|b2 [|b3 rr]]]]; try discriminate. intro E. inversion E. cbn [length]. lia. }
        destruct (negb (N.land cmd TUNDRA_COLOR_FOREGROUND =? 0)%N).
        + destruct (tnd_color r0) as [[c1 r1]| |] eqn:E1; cbn [bind]; try discriminate. pose proof (TC _ _ _ E1). destruct (insert_color pal c1) as [pl i]. cbn [bind].
          destruct (negb (N.land cmd TUNDRA_COLOR_BACKGROUND =? 0)%N).
          * destruct (tnd_color r1) as [[c2 r2]| |] eqn:E2; cbn [bind]; try discriminate. pose proof (TC _ _ _ E2). destruct (insert_color pl c2) as [pl2 i2]. cbn [bind]. intro E; inversion E; subst. cbn [length]. lia.
          * cbn [bind]. intro E; inversion E; subst. cbn [length]. lia.
        + cbn [bind]. destruct (negb (N.land cmd TUNDRA_COLOR_BACKGROUND =? 0)%N).
          * destruct (tnd_color r0) as [[c2 r2]| |] eqn:E2; cbn [bind]; try discriminate. pose proof (TC _ _ _ E2). destruct (insert_color pal c2) as [pl2 i2]. cbn [bind]. intro E; inversion E; subst. cbn [length]. lia.
          * cbn [bind]. intro E; inversion E; subst. cbn [length]. lia. }
      destruct hd as [[[[ch pal1] at1] rest1]|e|e]; cbn [bind];
        [|cbn [fst snd]; repeat split; try lia; apply (HE _ _ _ _ e); left; reflexivity|cbn [fst snd]; repeat split; try lia; apply (HE _ _ _ _ e); right; reflexivity].
      specialize (HR _ _ _ _ eq_refl). destruct (put_facts true L x y (mkCell ch at1)) as (_ & P2 & _ & _). destruct (x + 1 >=? w).
      * destruct (IH w (put true L x y (mkCell ch at1)) pal1 at1 0 (y + 1) rest1 (k + 1) ymax) as (I1 & I2 & I3 & I4). split; [exact I1|]. repeat split; try lia.
        intros L' p' E. specialize (I4 L' p' E). lia.
      * destruct (IH w (put true L x y (mkCell ch at1)) pal1 at1 (x + 1) y rest1 (k + 1) ymax) as (I1 & I2 & I3 & I4). split; [exact I1|]. repeat split; try lia.
        intros L' p' E. specialize (I4 L' p' E). lia.
Qed.

(* ---- IDF: a repeat record (6 bytes) declares a run length ------------------------------------------------------------------------------------------------ *)
Lemma idf_loop_t_spec x1 x2 : forall n area L bh x y k decl, (length area <= n)%nat ->
  fst (fst (idf_loop_t x1 x2 L bh x y area k decl)) = idf_loop x1 x2 L bh x y area /\
  k <= snd (fst (idf_loop_t x1 x2 L bh x y area k decl)) /\ decl <= snd (idf_loop_t x1 x2 L bh x y area k decl) /\
  2 * (snd (fst (idf_loop_t x1 x2 L bh x y area k decl)) - k) <= Z.of_nat (length area) + 2 * (snd (idf_loop_t x1 x2 L bh x y area k decl) - decl).
Proof.
  induction n as [|n IH]; intros area L bh x y k decl Hn.
  - destruct area; [cbn [idf_loop_t idf_loop fst snd length]; repeat split; lia|cbn in Hn; lia].
  - destruct area as [|ch [|a rest]]; [cbn [idf_loop_t idf_loop fst snd length]; repeat split; lia|cbn [idf_loop_t idf_loop fst snd length]; repeat split; lia|].
    cbn [idf_loop_t idf_loop length] in *. destruct ((ch =? 1)%N && (a =? 0)%N).
    + destruct rest as [|nl [|nh [|ch2 [|a2 rest2]]]]; try (cbn [fst snd length]; repeat split; lia). cbv zeta.
      destruct (idf_put_n (N.to_nat (nl + nh * 256)) x1 x2 (mkCell ch2 (from_u8 a2 Ice)) L bh x y) as [[[L' bh'] x'] y'].
      destruct (IH rest2 L' bh' x' y' (k + Z.of_nat (N.to_nat (nl + nh * 256))) (decl + Z.of_nat (N.to_nat (nl + nh * 256))) ltac:(cbn [length] in Hn; lia)) as (I1 & I2 & I3 & I4).
      split; [exact I1|]. cbn [length]. repeat split; lia.
    + destruct (idf_put_n 1 x1 x2 (mkCell ch (from_u8 a Ice)) L bh x y) as [[[L' bh'] x'] y'].
      destruct (IH rest L' bh' x' y' (k + 1) decl ltac:(lia)) as (I1 & I2 & I3 & I4). split; [exact I1|]. repeat split; lia.
Qed.
Lemma load_ticks_bound_idf_l x1 x2 L bh x y area :
  fst (fst (idf_loop_t x1 x2 L bh x y area 0 0)) = idf_loop x1 x2 L bh x y area /\
  0 <= snd (fst (idf_loop_t x1 x2 L bh x y area 0 0)) /\
  2 * snd (fst (idf_loop_t x1 x2 L bh x y area 0 0)) <= Z.of_nat (length area) + 2 * snd (idf_loop_t x1 x2 L bh x y area 0 0).
Proof. destruct (idf_loop_t_spec x1 x2 (length area) area L bh x y 0 0 (le_n _)) as (H1 & H2 & H3 & H4). split; [exact H1|]. split; lia. Qed.
Lemma load_ticks_bound_tnd_l fuel w L pal at0 data :
  let r := tnd_loop2_t fuel w L pal at0 0 0 data 0 0 in
  fst (fst r) = tnd_loop2 fuel w L pal at0 0 0 data /\
  0 <= snd (fst r) <= Z.of_nat (length data) /\ 0 <= snd r <= 65534 /\
  (forall L' p', tnd_loop2 fuel w L pal at0 0 0 data = Ok (L', p') -> lrows L' <= Z.max (lrows L) (snd r + snd (fst r) + 1)).
Proof.
  cbv zeta. destruct (tnd_loop2_t_spec fuel w L pal at0 0 0 data 0 0) as (H1 & H2 & H3 & H4). split; [exact H1|]. split; [lia|]. split; [lia|].
  intros L' p' E. rewrite <- H1 in E. specialize (H4 L' p' E). lia.
Qed.
