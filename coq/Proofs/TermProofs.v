(* Invariants of the terminal core (Model/TermCore.v) and their preservation by every operation.
   Inv09 = geometry sane + margins inside the screen + cursor inside the visible screen  (C09)
   Inv01 = what rules out every panic site of the model                                      (C01) *)
From Coq Require Import ZArith NArith List Bool Lia.
From IE Require Import Model.TermCore.
Import ListNotations.
Local Open Scope Z_scope.

Definition margins_ok (m : option (Z * Z)) (limit : Z) : Prop :=
  match m with Some (a, b) => 0 <= a /\ a <= b /\ b < limit | None => True end.

Definition InvG (t : term) : Prop :=
  (1 <= tw t <= 132) /\ (1 <= th t <= 60) /\ th t <= bh t /\ 1 <= bw t /\ origin_m t = false /\
  margins_ok (mtb t) (th t) /\ margins_ok (mlr t) (tw t) /\ Forall (fun x => 0 <= x) (tabs t).
Definition InvX (t : term) : Prop := 0 <= cx t < tw t.
Definition InvY (t : term) : Prop := first t <= cy t < first t + th t.
Definition InvC09 (t : term) : Prop := InvX t /\ InvY t.
Definition Inv09 (t : term) : Prop := InvG t /\ InvC09 t.

(* the fields the invariants read *)
Definition geo (t : term) := (tw t, th t, bw t, bh t, origin_m t, mtb t, mlr t, tabs t).
Definition pgeo (t : term) := (geo t, cx t, cy t).

Lemma geo_inv : forall t t', geo t' = geo t ->
  tw t' = tw t /\ th t' = th t /\ bw t' = bw t /\ bh t' = bh t /\ origin_m t' = origin_m t /\ mtb t' = mtb t /\ mlr t' = mlr t /\ tabs t' = tabs t.
Proof. intros t t' H. unfold geo in H. inversion H. repeat split; assumption. Qed.
Lemma pgeo_inv : forall t t', pgeo t' = pgeo t -> geo t' = geo t /\ cx t' = cx t /\ cy t' = cy t.
Proof. intros t t' H. unfold pgeo in H. repeat split; congruence. Qed.
Lemma InvG_geo : forall t t', geo t' = geo t -> InvG t -> InvG t'.
Proof.
  intros t t' H. destruct (geo_inv _ _ H) as (H1 & H2 & H3 & H4 & H5 & H6 & H7 & H8).
  unfold InvG. rewrite H1, H2, H3, H4, H5, H6, H7, H8. auto.
Qed.
Lemma first_geo : forall t t', geo t' = geo t -> first t' = first t.
Proof. intros t t' H. destruct (geo_inv _ _ H) as (H1 & H2 & H3 & H4 & _). unfold first. congruence. Qed.
Lemma Inv09_pgeo : forall t t', pgeo t' = pgeo t -> Inv09 t -> Inv09 t'.
Proof.
  intros t t' H [HG [HX HY]]. destruct (pgeo_inv _ _ H) as (Hg & Hx & Hy).
  split; [eapply InvG_geo; eauto|].
  unfold InvC09, InvX, InvY in *. rewrite (first_geo _ _ Hg), Hx, Hy.
  destruct (geo_inv _ _ Hg) as (H1 & H2 & _). rewrite H1, H2. auto.
Qed.
Lemma InvY_first : forall t, InvG t -> first t = bh t - th t.
Proof. intros t (_ & _ & H & _). unfold first. lia. Qed.

(* ---- limit_caret_pos establishes the cursor part from the geometry part ---------------------------------- *)
Lemma limit_ok : forall t, InvG t -> exists t', limit_caret_pos t = ROk t' /\ Inv09 t' /\ geo t' = geo t.
Proof.
  intros t HG. pose proof HG as (Htw & Hth & Hbh & Hbw & Ho & _).
  unfold limit_caret_pos. rewrite Ho.
  destruct (first t + th t - 1 <? first t) eqn:E; [apply Z.ltb_lt in E; lia|].
  eexists; split; [reflexivity|]. split; [|reflexivity].
  split; [eapply InvG_geo; [|exact HG]; reflexivity|].
  unfold InvC09, InvX, InvY, clampz, first; cbn. lia.
Qed.
Lemma limit_09 : forall t t', InvG t -> limit_caret_pos t = ROk t' -> Inv09 t'.
Proof. intros t t' HG H. destruct (limit_ok t HG) as (t2 & E & HI & _). congruence. Qed.

(* ---- operations that touch neither the geometry nor the cursor ------------------------------------------------ *)
Lemma pgeo_set_lines : forall t l, pgeo (set_lines t l) = pgeo t. Proof. reflexivity. Qed.
Lemma pgeo_scroll_up : forall t, pgeo (scroll_up t) = pgeo t. Proof. reflexivity. Qed.
Lemma pgeo_scroll_down : forall t, pgeo (scroll_down t) = pgeo t. Proof. reflexivity. Qed.
Lemma pgeo_scroll_left : forall t, pgeo (scroll_left t) = pgeo t. Proof. reflexivity. Qed.
Lemma pgeo_layer_set : forall t x y c, pgeo (layer_set t x y c) = pgeo t. Proof. reflexivity. Qed.
Lemma pgeo_fill_cells : forall t ys xs c, pgeo (fill_cells t ys xs c) = pgeo t. Proof. reflexivity. Qed.
Lemma pgeo_set_attr : forall t a b c, pgeo (set_attr t a b c) = pgeo t. Proof. reflexivity. Qed.
Lemma pgeo_set_ice : forall t b, pgeo (set_ice t b) = pgeo t. Proof. reflexivity. Qed.
Lemma pgeo_set_ins : forall t b, pgeo (set_ins t b) = pgeo t. Proof. reflexivity. Qed.
Lemma pgeo_set_awrap : forall t b, pgeo (set_awrap t b) = pgeo t. Proof. reflexivity. Qed.
Lemma pgeo_set_declr : forall t b, pgeo (set_declr t b) = pgeo t. Proof. reflexivity. Qed.
Lemma pgeo_set_lh : forall t b, pgeo (set_lh t b) = pgeo t. Proof. reflexivity. Qed.
Lemma pgeo_caret_del : forall t, pgeo (caret_del t) = pgeo t.
Proof. intro t. unfold caret_del. destruct (cy t <? 0); [reflexivity|]. destruct (nth_error _ _); [|reflexivity]. destruct (_ && _); reflexivity. Qed.
Lemma pgeo_caret_ins : forall t, pgeo (caret_ins t) = pgeo t.
Proof. intro t. unfold caret_ins. destruct (cy t <? 0); [reflexivity|]. destruct (nth_error _ _); [|reflexivity]. destruct (_ && _); reflexivity. Qed.
Lemma pgeo_clear_buffer_down : forall t, pgeo (clear_buffer_down t) = pgeo t. Proof. reflexivity. Qed.
Lemma pgeo_clear_buffer_up : forall t, pgeo (clear_buffer_up t) = pgeo t. Proof. reflexivity. Qed.
Lemma pgeo_clear_line : forall t, pgeo (clear_line t) = pgeo t. Proof. reflexivity. Qed.
Lemma pgeo_clear_line_end : forall t, pgeo (clear_line_end t) = pgeo t. Proof. reflexivity. Qed.
Lemma pgeo_clear_line_start : forall t, pgeo (clear_line_start t) = pgeo t. Proof. reflexivity. Qed.
Lemma pgeo_caret_reset_color : forall t, pgeo (caret_reset_color t) = pgeo t. Proof. reflexivity. Qed.

Lemma pgeo_iter : forall (f : term -> term), (forall t, pgeo (f t) = pgeo t) -> forall n t, pgeo (N.iter n f t) = pgeo t.
Proof.
  intros f Hf n t. apply (N.iter_invariant n _ f (fun x => pgeo x = pgeo t)); [|reflexivity].
  intros x Hx. rewrite Hf. exact Hx.
Qed.

Lemma geo_of_pgeo : forall t t', pgeo t' = pgeo t -> geo t' = geo t.
Proof. intros t t' H. apply (pgeo_inv _ _ H). Qed.

(* results of res-valued line-table operations keep pgeo *)
Lemma caret_erase_pgeo : forall t n t', caret_erase t n = ROk t' -> pgeo t' = pgeo t.
Proof.
  intros t n t'. unfold caret_erase. destruct (_ <=? 0); [intro H; inversion H; reflexivity|].
  destruct (cy t <? 0); [intro H; inversion H; reflexivity|].
  destruct (nth_error _ _); [|intro H; inversion H; reflexivity].
  destruct (erase_loop _ _ _ _); cbn; intro H; inversion H. reflexivity.
Qed.
Lemma layer_insert_line_pgeo : forall t i t', layer_insert_line t i = ROk t' -> pgeo t' = pgeo t.
Proof. intros t i t'. unfold layer_insert_line. destruct (i <? 0); intro H; inversion H. reflexivity. Qed.
Lemma remove_terminal_line_pgeo : forall t i t', remove_terminal_line t i = ROk t' -> pgeo t' = pgeo t.
Proof.
  intros t i t'. unfold remove_terminal_line. destruct (_ >=? _); [intro H; inversion H; reflexivity|].
  destruct (i <? 0); [discriminate|].
  match goal with |- match mtb ?x with _ => _ end = _ -> _ => remember x as t1 eqn:E1 end.
  assert (Hp : pgeo t1 = pgeo t) by (subst t1; reflexivity).
  destruct (mtb t1) as [[a b]|]; intro H.
  - apply layer_insert_line_pgeo in H. congruence.
  - inversion H. subst. exact Hp.
Qed.
Lemma insert_terminal_line_pgeo : forall t i t', insert_terminal_line t i = ROk t' -> pgeo t' = pgeo t.
Proof.
  intros t i t'. unfold insert_terminal_line.
  destruct (mtb t) as [[a b]|]; cbn.
  - destruct (b <? zlen (lines t)); cbn.
    + destruct (b <? 0); cbn; [discriminate|]. intro H. apply layer_insert_line_pgeo in H. rewrite H. reflexivity.
    + intro H. apply layer_insert_line_pgeo in H. exact H.
  - intro H. apply layer_insert_line_pgeo in H. exact H.
Qed.
Lemma scroll_right_pgeo : forall t t', scroll_right t = ROk t' -> pgeo t' = pgeo t.
Proof.
  intros t t'. unfold scroll_right.
  match goal with |- bind ?r _ = _ -> _ => destruct r end; cbn; intro H; inversion H. reflexivity.
Qed.

(* iterating a res-valued operation that keeps pgeo *)
Lemma iter_res_pgeo : forall (f : term -> res term), (forall t t', f t = ROk t' -> pgeo t' = pgeo t) ->
  forall n t t', N.iter n (fun r => bind r f) (ROk t) = ROk t' -> pgeo t' = pgeo t.
Proof.
  intros f Hf n t.
  assert (H : match N.iter n (fun r => bind r f) (ROk t) with ROk t' => pgeo t' = pgeo t | RPanic _ => True end).
  { apply (N.iter_invariant n _ (fun r => bind r f) (fun r => match r with ROk t' => pgeo t' = pgeo t | RPanic _ => True end)); [|reflexivity].
    intros [x|s] Hx; cbn; [|exact I]. destruct (f x) eqn:E; [|exact I]. rewrite (Hf _ _ E). exact Hx. }
  intros t' E. rewrite E in H. exact H.
Qed.

(* ---- scrolling helpers ------------------------------------------------------------------------------------------ *)
Lemma check_scrolling_up_geo : forall t f, geo (check_scrolling_up t f) = geo t /\ cx (check_scrolling_up t f) = cx t.
Proof.
  intros t f. unfold check_scrolling_up. destruct (_ || _); [|split; reflexivity].
  destruct (_ <? _); [|split; reflexivity].
  pose proof (pgeo_iter scroll_down pgeo_scroll_down (Z.to_N (first_edit t - cy t)) t) as H.
  destruct (pgeo_inv _ _ H) as (Hg & Hx & Hy). split; [exact Hg|exact Hx].
Qed.
Lemma check_scrolling_down_geo : forall t f, geo (check_scrolling_down t f) = geo t /\ cx (check_scrolling_down t f) = cx t.
Proof. intros t f. unfold check_scrolling_down. destruct (_ && _); split; reflexivity. Qed.

(* ---- the cursor motions that end in limit_caret_pos -------------------------------------------------------------- *)
Lemma lim_after : forall t t1 t', InvG t -> geo t1 = geo t -> limit_caret_pos t1 = ROk t' -> Inv09 t'.
Proof. intros t t1 t' HG Hg H. eapply limit_09; [|exact H]. eapply InvG_geo; eauto. Qed.

Lemma caret_left_09 : forall t n t', InvG t -> caret_left t n = ROk t' -> Inv09 t'.
Proof. intros t n t' HG. apply lim_after with (t := t); auto. Qed.
Lemma caret_right_09 : forall t n t', InvG t -> caret_right t n = ROk t' -> Inv09 t'.
Proof. intros t n t' HG. apply lim_after with (t := t); auto. Qed.
Lemma caret_up_09 : forall t n t', InvG t -> caret_up t n = ROk t' -> Inv09 t'.
Proof. intros t n t' HG. apply lim_after with (t := t); auto. rewrite (proj1 (check_scrolling_up_geo _ _)); reflexivity. Qed.
Lemma caret_down_09 : forall t n t', InvG t -> caret_down t n = ROk t' -> Inv09 t'.
Proof. intros t n t' HG. apply lim_after with (t := t); auto. rewrite (proj1 (check_scrolling_down_geo _ _)); reflexivity. Qed.
Lemma caret_index_09 : forall t t', InvG t -> caret_index t = ROk t' -> Inv09 t'.
Proof. intros t t' HG. apply lim_after with (t := t); auto. rewrite (proj1 (check_scrolling_down_geo _ _)); reflexivity. Qed.
Lemma caret_reverse_index_09 : forall t t', InvG t -> caret_reverse_index t = ROk t' -> Inv09 t'.
Proof. intros t t' HG. apply lim_after with (t := t); auto. rewrite (proj1 (check_scrolling_up_geo _ _)); reflexivity. Qed.
Lemma caret_next_line_09 : forall t t', InvG t -> caret_next_line t = ROk t' -> Inv09 t'.
Proof. intros t t' HG. apply lim_after with (t := t); auto. rewrite (proj1 (check_scrolling_down_geo _ _)); reflexivity. Qed.

(* ---- line feed: the only motion that grows the buffer -------------------------------------------------------------- *)
Lemma caret_lf_09 : forall t t', InvG t -> InvY t -> caret_lf t = ROk t' -> Inv09 t'.
Proof.
  intros t t' HG HY. pose proof (InvY_first t HG) as HF. pose proof HG as (Htw & Hth & Hbh & Hbw & Ho & Hm & Hl & Ht).
  unfold InvY in HY. unfold caret_lf.
  set (y := cy t + 1).
  set (t1 := set_pos t 0 y).
  set (t2 := if y >=? Z.of_nat (length (lines t1)) then set_lines t1 (lines t1 ++ repeat [] (Z.to_nat (y + 1) - length (lines t1))) else t1).
  assert (G2 : geo t2 = geo t /\ cx t2 = 0 /\ cy t2 = y) by (subst t2; destruct (_ >=? _); repeat split; reflexivity).
  destruct G2 as (G2 & X2 & Y2).
  assert (B2 : bh t2 = bh t) by (apply (geo_inv _ _ G2)).
  set (t3 := if y + 1 >? bh t2 then set_bh t2 (y + 1) else t2).
  assert (HG3 : InvG t3 /\ cx t3 = 0 /\ cy t3 = y /\ bh t3 = Z.max (bh t) (y + 1) /\ th t3 = th t /\ tw t3 = tw t /\ mtb t3 = mtb t).
  { destruct (geo_inv _ _ G2) as (H1 & H2 & H3 & H4 & H5 & H6 & H7 & H8).
    subst t3. destruct (y + 1 >? bh t2) eqn:E.
    - apply Z.gtb_lt in E. repeat split; cbn; try (rewrite ?H1, ?H2, ?H3, ?H5, ?H6, ?H7, ?H8; auto; lia).
    - assert (y + 1 <= bh t2) by (destruct (Z.gtb_spec (y + 1) (bh t2)); [discriminate|lia]).
      repeat split; try (rewrite ?H1, ?H2, ?H3, ?H4, ?H5, ?H6, ?H7, ?H8; auto; lia). }
  destruct HG3 as (HG3 & X3 & Y3 & B3 & T3 & W3 & M3).
  destruct (cy t >? last_edit t) eqn:EO.
  - intro H. eapply limit_09; eauto.
  - intro H. inversion H; subst t'. clear H.
    assert (cy t <= last_edit t) by (destruct (Z.gtb_spec (cy t) (last_edit t)); [discriminate|lia]).
    pose proof (InvY_first t3 HG3) as HF3.
    unfold check_scrolling_down.
    destruct ((needs_scrolling t3 || false) && (cy t3 >? last_edit t3)) eqn:EC.
    + apply andb_true_iff in EC. destruct EC as [EN EL]. apply Z.gtb_lt in EL.
      split; [eapply InvG_geo; [|exact HG3]; reflexivity|].
      unfold InvC09, InvX, InvY. change (first (set_cy (scroll_up t3) (cy (scroll_up t3) - 1))) with (first t3).
      cbn. rewrite X3, Y3, HF3, B3, T3, W3.
      unfold last_edit, needs_scrolling in *. rewrite M3 in *. rewrite Y3, HF3, B3, T3 in EL.
      destruct (mtb t) as [[a b]|]; [|cbn in EN; discriminate].
      cbn in Hm. subst y. lia.
    + split; [exact HG3|]. unfold InvC09, InvX, InvY. rewrite X3, Y3, HF3, B3, T3, W3. subst y. lia.
Qed.

(* ---- printing --------------------------------------------------------------------------------------------------------- *)
Lemma print_char_09 : forall t c t', Inv09 t -> print_char t c = ROk t' -> Inv09 t'.
Proof.
  intros t c t' [HG [HX HY]]. pose proof (InvY_first t HG) as HF. pose proof HG as (Htw & Hth & Hbh & Hbw & Ho & Hm & Hl & Ht).
  unfold InvX in HX. unfold InvY in HY.
  unfold print_char.
  match goal with |- bind ?r _ = _ -> _ => destruct r as [t1|] eqn:E1 end; [|discriminate].
  assert (P1 : pgeo t1 = pgeo t).
  { destruct (ins t); [|inversion E1; reflexivity].
    destruct (cy t <? 0); [discriminate|].
    match type of E1 with match nth_error ?l ?n with _ => _ end = _ => destruct (nth_error l n) end; [|inversion E1; reflexivity].
    destruct (line_insert_char _ _ _); cbn in E1; inversion E1. reflexivity. }
  cbn [bind].
  set (t2 := if cy t1 + 1 >? lh t1 then set_lh t1 (cy t1 + 1) else t1).
  assert (P2 : pgeo t2 = pgeo t) by (subst t2; destruct (_ >? _); [rewrite pgeo_set_lh|]; exact P1).
  set (t3 := if cy t2 + 1 >? bh t2 then set_bh t2 (cy t2 + 1) else t2).
  assert (P3 : pgeo t3 = pgeo t).
  { subst t3. destruct (pgeo_inv _ _ P2) as (Hg2 & _ & H10). destruct (geo_inv _ _ Hg2) as (_ & _ & _ & H4 & _).
    destruct (cy t2 + 1 >? bh t2) eqn:E; [|exact P2]. apply Z.gtb_lt in E. rewrite H10, H4 in E. lia. }
  set (t4 := layer_set t3 (cx t3) (cy t3) c).
  assert (P4 : pgeo t4 = pgeo t) by (subst t4; rewrite pgeo_layer_set; exact P3).
  set (t5 := set_cx t4 (cx t4 + 1)).
  assert (G5 : geo t5 = geo t /\ cx t5 = cx t + 1 /\ cy t5 = cy t).
  { destruct (pgeo_inv _ _ P4) as (Hg & Hx & Hy). subst t5. split; [exact Hg|]. split; [change (cx t4 + 1 = cx t + 1); rewrite Hx; reflexivity|exact Hy]. }
  destruct G5 as (G5 & X5 & Y5).
  assert (HG5 : InvG t5) by (eapply InvG_geo; eauto).
  assert (W5 : tw t5 = tw t) by (apply (geo_inv _ _ G5)).
  destruct (cx t5 >=? tw t5) eqn:EW.
  - destruct (awrap t5).
    + intro H. eapply caret_lf_09; [exact HG5| |exact H].
      unfold InvY. rewrite (first_geo _ _ G5), Y5. destruct (geo_inv _ _ G5) as (H1 & H2 & _). rewrite H2. exact HY.
    + intro H. inversion H. subst t'. eapply Inv09_pgeo; [|split; [exact HG|split; [exact HX|exact HY]]].
      change ((geo t5, cx t5 - 1, cy t5) = (geo t, cx t, cy t)). rewrite G5, X5, Y5. f_equal. f_equal. lia.
  - intro H. inversion H. subst t'.
    assert (cx t5 < tw t5) by (destruct (Z.geb_spec (cx t5) (tw t5)); [discriminate|lia]).
    split; [exact HG5|]. unfold InvC09, InvX, InvY. rewrite (first_geo _ _ G5), Y5, X5.
    destruct (geo_inv _ _ G5) as (H1 & H2 & _). rewrite H1, H2 in *. rewrite X5 in H0. unfold InvY in HY. lia.
Qed.

(* ---- resets ------------------------------------------------------------------------------------------------------------ *)
Lemma reset_tabs_n_nonneg : forall n i w, 0 <= i -> Forall (fun x => 0 <= x) (reset_tabs_n i w n).
Proof. induction n; intros i w Hi; cbn; [constructor|]. destruct (i <? w); [constructor; [exact Hi|apply IHn; lia]|constructor]. Qed.
Lemma reset_tabs_nonneg : forall w, Forall (fun x => 0 <= x) (reset_tabs w).
Proof. intro w. apply reset_tabs_n_nonneg. lia. Qed.

Lemma caret_ff_09 : forall t, InvG t -> Inv09 (caret_ff t).
Proof.
  intros t (Htw & Hth & Hbh & Hbw & Ho & Hm & Hl & Ht).
  unfold Inv09, InvG, InvC09, InvX, InvY, first, caret_ff; cbn. repeat split; try lia; auto using reset_tabs_nonneg.
Qed.
Lemma clear_screen_09 : forall t, InvG t -> Inv09 (clear_screen t).
Proof.
  intros t (Htw & Hth & Hbh & Hbw & Ho & Hm & Hl & Ht).
  unfold Inv09, InvG, InvC09, InvX, InvY, first, clear_screen; cbn. repeat split; try lia; auto.
Qed.
Lemma reset_terminal_G : forall t, InvG t -> InvG (reset_terminal t).
Proof.
  intros t (Htw & Hth & Hbh & Hbw & Ho & Hm & Hl & Ht).
  unfold InvG, reset_terminal; cbn. repeat split; try lia; auto using reset_tabs_nonneg.
Qed.
Lemma ris_09 : forall t, InvG t -> Inv09 (reset_terminal (caret_reset (caret_ff t))).
Proof.
  intros t (Htw & Hth & Hbh & Hbw & Ho & Hm & Hl & Ht).
  unfold Inv09, InvG, InvC09, InvX, InvY, first, caret_ff; cbn. repeat split; try lia; auto using reset_tabs_nonneg.
Qed.

(* ---- simple cursor moves --------------------------------------------------------------------------------------------------- *)
Lemma caret_cr_09 : forall t, Inv09 t -> Inv09 (caret_cr t).
Proof. intros t [HG [HX HY]]. split; [eapply InvG_geo; [|exact HG]; reflexivity|]. pose proof HG as (Htw & _). unfold InvC09, InvX, InvY in *. cbn. change (first (caret_cr t)) with (first t). lia. Qed.
Lemma caret_eol_09 : forall t, Inv09 t -> Inv09 (caret_eol t).
Proof. intros t [HG [HX HY]]. split; [eapply InvG_geo; [|exact HG]; reflexivity|]. pose proof HG as (Htw & _). unfold InvC09, InvX, InvY in *. cbn. change (first (caret_eol t)) with (first t). lia. Qed.
Lemma caret_home_09 : forall t, InvG t -> Inv09 (caret_home t).
Proof.
  intros t HG. split; [eapply InvG_geo; [|exact HG]; reflexivity|]. pose proof HG as (Htw & Hth & Hbh & Hbw & Ho & _).
  unfold InvC09, InvX, InvY, caret_home, upper_left_y. rewrite Ho. cbn. change (first (set_pos t 0 (first t))) with (first t). lia.
Qed.
Lemma set_x0_09 : forall t, Inv09 t -> Inv09 (set_cx t 0).
Proof. exact caret_cr_09. Qed.
Lemma caret_bs_09 : forall t, Inv09 t -> Inv09 (caret_bs t).
Proof.
  intros t [HG [HX HY]]. split; [eapply InvG_geo; [|exact HG]; reflexivity|].
  unfold InvC09, InvX, InvY in *. change (first (caret_bs t)) with (first t). cbn. lia.
Qed.
(* home position after a margin / region command: (0, first) *)
Lemma upper_left_09 : forall t, InvG t -> Inv09 (set_pos t 0 (upper_left_y t)).
Proof. exact caret_home_09. Qed.

(* ---- margins ------------------------------------------------------------------------------------------------------------------ *)
Lemma clip_margins_ok : forall lo hi limit, margins_ok (clip_margins lo hi limit) limit.
Proof.
  intros. unfold clip_margins. destruct (Z.max lo 0 >? Z.min hi (limit - 1)) eqn:E; cbn; [exact I|].
  assert (Z.max lo 0 <= Z.min hi (limit - 1)) by (destruct (Z.gtb_spec (Z.max lo 0) (Z.min hi (limit - 1))); [discriminate|lia]).
  lia.
Qed.
Lemma set_margins_tb_G : forall t a b, InvG t -> InvG (set_margins_tb t a b).
Proof.
  intros t a b (Htw & Hth & Hbh & Hbw & Ho & Hm & Hl & Ht). unfold InvG, set_margins_tb; cbn.
  repeat split; try lia; auto. apply clip_margins_ok.
Qed.
Lemma set_margins_lr_G : forall t a b, InvG t -> InvG (set_margins_lr t a b).
Proof.
  intros t a b (Htw & Hth & Hbh & Hbw & Ho & Hm & Hl & Ht). unfold InvG, set_margins_lr; cbn.
  repeat split; try lia; auto. apply clip_margins_ok.
Qed.
Lemma set_margins_tb_09 : forall t a b, Inv09 t -> Inv09 (set_margins_tb t a b).
Proof. intros t a b [HG HC]. split; [apply set_margins_tb_G; exact HG|exact HC]. Qed.
Lemma set_margins_lr_09 : forall t a b, Inv09 t -> Inv09 (set_margins_lr t a b).
Proof. intros t a b [HG HC]. split; [apply set_margins_lr_G; exact HG|exact HC]. Qed.
Lemma clear_margins_09 : forall t, Inv09 t -> Inv09 (set_mtb (set_mlr t None) None).
Proof.
  intros t [(Htw & Hth & Hbh & Hbw & Ho & Hm & Hl & Ht) HC]. split; [|exact HC].
  unfold InvG; cbn. repeat split; try lia; auto.
Qed.
Lemma declr_off_09 : forall t, Inv09 t -> Inv09 (set_mlr (set_declr t false) None).
Proof.
  intros t [(Htw & Hth & Hbh & Hbw & Ho & Hm & Hl & Ht) HC]. split; [|exact HC].
  unfold InvG; cbn. repeat split; try lia; auto.
Qed.
Lemma set_origin_false_09 : forall t, Inv09 t -> Inv09 (set_origin t false).
Proof.
  intros t [(Htw & Hth & Hbh & Hbw & Ho & Hm & Hl & Ht) HC]. split; [|exact HC].
  unfold InvG; cbn. repeat split; try lia; auto.
Qed.

(* ---- tab stops ------------------------------------------------------------------------------------------------------------------- *)
Lemma insert_sorted_nonneg : forall x l, 0 <= x -> Forall (fun a => 0 <= a) l -> Forall (fun a => 0 <= a) (insert_sorted x l).
Proof.
  intros x l Hx Hl. induction Hl; cbn; [repeat constructor; exact Hx|].
  destruct (x <=? x0); repeat (constructor; auto).
Qed.
Lemma sort_nonneg : forall l, Forall (fun a => 0 <= a) l -> Forall (fun a => 0 <= a) (sort l).
Proof. intros l Hl. induction Hl; cbn; [constructor|]. apply insert_sorted_nonneg; auto. Qed.
Lemma set_tab_at_09 : forall t, Inv09 t -> Inv09 (set_tab_at t (cx t)).
Proof.
  intros t HI. unfold set_tab_at. destruct (existsb _ _); [exact HI|].
  destruct HI as [(Htw & Hth & Hbh & Hbw & Ho & Hm & Hl & Ht) [HX HY]]. split; [|split; [exact HX|exact HY]].
  unfold InvG; cbn. repeat split; try lia; auto. apply sort_nonneg. apply Forall_app. split; [exact Ht|].
  repeat constructor. unfold InvX in HX. lia.
Qed.
Lemma set_tabs_09 : forall t l, Forall (fun a => 0 <= a) l -> Inv09 t -> Inv09 (set_tabs t l).
Proof.
  intros t l Hl [(Htw & Hth & Hbh & Hbw & Ho & Hm & Hl' & Ht) HC]. split; [|exact HC].
  unfold InvG; cbn. repeat split; try lia; auto.
Qed.
Lemma remove_tab_stop_09 : forall t x, Inv09 t -> Inv09 (remove_tab_stop t x).
Proof.
  intros t x HI. unfold remove_tab_stop. apply set_tabs_09; [|exact HI].
  destruct HI as [(_ & _ & _ & _ & _ & _ & _ & Ht) _].
  rewrite Forall_forall in *. intros a Ha. apply filter_In in Ha. apply Ht. tauto.
Qed.
Lemma drop_ge_head : forall x l a r, drop_ge x l = a :: r -> In a l /\ a < x.
Proof.
  intros x l. induction l as [|b l IH]; cbn; intros a r H; [discriminate|].
  destruct (b >=? x) eqn:E.
  - destruct (IH _ _ H). split; [right|]; auto.
  - inversion H; subst. split; [left; reflexivity|]. destruct (Z.geb_spec a x); [discriminate|lia].
Qed.
Lemma prev_tab_stop_range : forall t x, Forall (fun a => 0 <= a) (tabs t) -> 0 <= x -> 0 <= prev_tab_stop t x <= x.
Proof.
  intros t x Ht Hx. unfold prev_tab_stop. destruct (drop_ge x (rev (tabs t))) as [|a r] eqn:E; [lia|].
  destruct (drop_ge_head _ _ _ _ E) as [Hi Hl]. apply in_rev in Hi. rewrite Forall_forall in Ht. specialize (Ht _ Hi). lia.
Qed.
Lemma cbt_step_09 : forall t, Inv09 t -> Inv09 (set_cx t (prev_tab_stop t (cx t))).
Proof.
  intros t [HG [HX HY]]. split; [eapply InvG_geo; [|exact HG]; reflexivity|].
  pose proof HG as (_ & _ & _ & _ & _ & _ & _ & Ht). unfold InvX in HX.
  pose proof (prev_tab_stop_range t (cx t) Ht (proj1 HX)).
  unfold InvC09, InvX, InvY in *. change (first (set_cx t (prev_tab_stop t (cx t)))) with (first t). cbn. lia.
Qed.
Lemma iter_09 : forall (f : term -> term), (forall t, Inv09 t -> Inv09 (f t)) -> forall n t, Inv09 t -> Inv09 (N.iter n f t).
Proof. intros f Hf n t Ht. apply (N.iter_invariant n _ f Inv09); auto. Qed.
Lemma iter_G : forall (f : term -> term), (forall t, geo (f t) = geo t) -> forall n t, geo (N.iter n f t) = geo t.
Proof.
  intros f Hf n t. apply (N.iter_invariant n _ f (fun x => geo x = geo t)); [|reflexivity].
  intros x Hx. rewrite Hf. exact Hx.
Qed.

(* iterating a res-valued operation that preserves Inv09 *)
Lemma iter_res_09 : forall (f : term -> res term), (forall t t', Inv09 t -> f t = ROk t' -> Inv09 t') ->
  forall n t t', Inv09 t -> N.iter n (fun r => bind r f) (ROk t) = ROk t' -> Inv09 t'.
Proof.
  intros f Hf n t t' Ht.
  assert (H : match N.iter n (fun r => bind r f) (ROk t) with ROk x => Inv09 x | RPanic _ => True end).
  { apply (N.iter_invariant n _ (fun r => bind r f) (fun r => match r with ROk x => Inv09 x | RPanic _ => True end)); [|exact Ht].
    intros [x|s] Hx; cbn; [|exact I]. destruct (f x) eqn:E; [|exact I]. eapply Hf; eauto. }
  intro E. rewrite E in H. exact H.
Qed.
