(* C16, part 3: export_palette followed by load_palette returns the colour sequence (Model/PaletteFiles.v over the
   line printers generated in Gen/PaletteSrc.v), for palettes of any length.

   Structure: the exporters print title / author / description / colour names through `single_line` (generated:
   line breaks become a blank).  `verbatim_export_*` are the same exporters over the `exp_*_verbatim` printers
   (same format strings, text copied as it is = the code before the fix of the finding
   metadata-line-feed-roundtrip-colours-differ).  The round trip is proved for the verbatim exporters under
   `wf_meta` (no line feed in a text the format writes), then `export f p = verbatim_export f (clean p)` with
   `clean` = single_line on every text, and `wf_meta f (clean p)` always holds. *)
From Coq Require Import NArith List Bool Lia Arith.
From IE Require Import Lib.Tbl Lib.Bits Lib.C16Lib Gen.PaletteSrc Model.Palette Model.PaletteFiles Proofs.PaletteProofs.
Import ListNotations.
Local Open Scope N_scope.

(* ================================================================================================ *)
(* str::lines()                                                                                       *)

Definition no_nl (s : str) : Prop := Forall (fun c => c <> 10) s.

(* a line without the '\r' that preceded its '\n' *)
Fixpoint chomp (s : str) : str :=
  match s with
  | [] => []
  | c :: t => match t with [] => if c =? 13 then [] else [c] | _ => c :: chomp t end
  end.

Lemma chomp_cons c x t : chomp (c :: x :: t) = c :: chomp (x :: t).
Proof. reflexivity. Qed.

Lemma chomp_last l z : chomp (l ++ [z]) = if z =? 13 then l else l ++ [z].
Proof.
  induction l as [|c l IH]; [reflexivity|].
  cbn [app]. destruct (l ++ [z]) as [|x t] eqn:E; [destruct l; discriminate|].
  rewrite chomp_cons, IH. destruct (z =? 13); reflexivity.
Qed.

Lemma rev_strip_cr l : rev (strip_cr (rev l)) = chomp l.
Proof.
  destruct l as [|c l] using rev_ind; [reflexivity|].
  rewrite rev_unit, chomp_last. unfold strip_cr. destruct (c =? 13).
  - apply rev_involutive.
  - cbn [rev]. rewrite rev_involutive. reflexivity.
Qed.

Lemma chomp_app_cons a x b : x <> 13 -> chomp (a ++ x :: b) = a ++ x :: chomp b.
Proof.
  intro Hx. induction a as [|c a IH].
  - cbn [app]. destruct b as [|y b]; [|reflexivity]. cbn [chomp].
    destruct (N.eqb_spec x 13); [contradiction|reflexivity].
  - cbn [app]. destruct (a ++ x :: b) as [|y t] eqn:E; [destruct a; discriminate|].
    rewrite chomp_cons, IH. reflexivity.
Qed.

Lemma chomp_no_cr s : Forall (fun c => c <> 13) s -> chomp s = s.
Proof.
  induction s as [|c s IH]; intro H; [reflexivity|]. inversion H; subst.
  destruct s as [|x t].
  - cbn [chomp]. destruct (N.eqb_spec c 13); [contradiction|reflexivity].
  - rewrite chomp_cons, IH by assumption. reflexivity.
Qed.

Lemma lines_aux_line l : forall cur rest, no_nl l ->
  lines_aux (l ++ 10 :: rest) cur = rev (strip_cr (rev l ++ cur)) :: lines_aux rest [].
Proof.
  induction l as [|c l IH]; intros cur rest H.
  - reflexivity.
  - inversion H; subst. cbn [app lines_aux]. destruct (N.eqb_spec c 10); [contradiction|].
    rewrite IH by assumption. cbn [rev]. rewrite <- app_assoc. reflexivity.
Qed.

Lemma lines_line l rest : no_nl l -> lines ((l ++ [10]) ++ rest) = chomp l :: lines rest.
Proof.
  intro H. unfold lines. rewrite <- app_assoc. cbn [app]. rewrite lines_aux_line by exact H.
  rewrite app_nil_r, rev_strip_cr. reflexivity.
Qed.

Lemma no_nl_app a b : no_nl a -> no_nl b -> no_nl (a ++ b).
Proof. intros. apply Forall_app. split; assumption. Qed.

Lemma no_nl_forallb s : forallb (fun c => negb (c =? 10)) s = true -> no_nl s.
Proof.
  intro H. apply Forall_forall. intros c Hc. rewrite forallb_forall in H. specialize (H c Hc).
  destruct (N.eqb_spec c 10); [discriminate|assumption].
Qed.

(* ================================================================================================ *)
(* segments of an exported file and what the line handler f collects from them                       *)

Definition seg_ok (f : str -> option (list rgb)) (s : str) (cs : list rgb) : Prop :=
  forall rest r, collect f (lines rest) = Some r -> collect f (lines (s ++ rest)) = Some (cs ++ r).

Definition line_ok (f : str -> option (list rgb)) (s : str) (cs : list rgb) : Prop :=
  exists body, s = body ++ [10] /\ no_nl body /\ f (chomp body) = Some cs.

Lemma line_seg f s cs : line_ok f s cs -> seg_ok f s cs.
Proof.
  intros (body & -> & Hn & Hf) rest r Hr. rewrite lines_line by exact Hn.
  cbn [collect]. rewrite Hf, Hr. reflexivity.
Qed.

Lemma seg_nil f : seg_ok f [] [].
Proof. intros rest r Hr. exact Hr. Qed.

Lemma seg_app f s1 c1 s2 c2 : seg_ok f s1 c1 -> seg_ok f s2 c2 -> seg_ok f (s1 ++ s2) (c1 ++ c2).
Proof.
  intros H1 H2 rest r Hr. rewrite <- !app_assoc. apply H1, H2, Hr.
Qed.

Lemma seg_flat_map f (g : color -> str) (cols : list color) :
  (forall c, In c cols -> seg_ok f (g c) [crgb c]) ->
  forall rest r, collect f (lines rest) = Some r ->
  collect f (lines (flat_map g cols ++ rest)) = Some (map crgb cols ++ r).
Proof.
  induction cols as [|c cols IH]; intros H rest r Hr; [exact Hr|].
  cbn [flat_map map]. rewrite <- app_assoc.
  change ((crgb c :: map crgb cols) ++ r) with ([crgb c] ++ (map crgb cols ++ r)).
  apply (H c); [left; reflexivity|]. apply IH; [|exact Hr]. intros c' Hc'. apply H. right. exact Hc'.
Qed.

Lemma lines_nil : lines [] = [].
Proof. reflexivity. Qed.

(* a comment line: the handler skips every line that starts with the comment character *)
Definition skips (f : str -> option (list rgb)) (cm : N) : Prop :=
  forall l, starts_with cm l = true -> f l = Some [].

Lemma comment_seg f cm pre t : skips f cm -> cm <> 13 -> no_nl pre -> no_nl t -> starts_with cm pre = true ->
  seg_ok f ((pre ++ t) ++ [10]) [].
Proof.
  intros Hs Hcm Hp Ht Hst. apply line_seg. exists (pre ++ t). split; [reflexivity|]. split; [apply no_nl_app; assumption|].
  apply Hs. destruct pre as [|c pre]; [discriminate|]. cbn [starts_with] in Hst. apply N.eqb_eq in Hst. subst c.
  change ((cm :: pre) ++ t) with ([] ++ cm :: (pre ++ t)). rewrite chomp_app_cons by exact Hcm.
  cbn [app starts_with]. apply N.eqb_refl.
Qed.

(* ================================================================================================ *)
(* numbers                                                                                            *)

Definition is_dec_char (c : N) : Prop := 48 <= c /\ c <= 57.

Lemma digits_aux_dec fuel : forall n acc, Forall is_dec_char acc -> Forall is_dec_char (digits_aux 10 dec_digit fuel n acc).
Proof.
  induction fuel as [|f IH]; intros n acc H; cbn [digits_aux]; [exact H|].
  assert (Hd : is_dec_char (dec_digit (n mod 10))).
  { unfold is_dec_char, dec_digit. assert (Hm : n mod 10 < 10) by (apply N.mod_lt; discriminate).
    revert Hm. generalize (n mod 10). intros m Hm. lia. }
  destruct (n / 10 =? 0); [constructor; assumption|]. apply IH. constructor; assumption.
Qed.

Lemma fmt_dec_chars n : Forall is_dec_char (fmt_dec n).
Proof. apply digits_aux_dec. constructor. Qed.

Lemma dec_chars_no_nl s : Forall is_dec_char s -> no_nl s.
Proof. apply Forall_impl. unfold is_dec_char. intros c H. lia. Qed.

Definition opt_eqb (a : option N) (b : N) : bool := match a with Some x => x =? b | None => false end.

(* print/parse of the 256 channel values through `{}`: a complete sweep *)
Lemma dec_sweep :
  forallb (fun n => let ds := fmt_dec n in
                    negb (is_nil ds) && forallb is_adigit ds && opt_eqb (parse_u32 ds) n && (length ds <=? 3)%nat)
          (nrange 256) = true.
Proof. vm_compute. reflexivity. Qed.

(* … and through `{:02x}` *)
Lemma hex2_sweep :
  forallb (fun n => match fmt_hex2 n with
                    | [a; b] => is_hex a && is_hex b && (hex2 a b =? n)
                    | _ => false
                    end) (nrange 256) = true.
Proof. vm_compute. reflexivity. Qed.

(* character classes (the generated Unicode tables) on the characters the exporters write *)
Lemma class_sweep :
  forallb (fun c => implb (is_adigit c) (is_nd c && negb (is_ws c) && negb (c =? ld_gpl_comment) && negb (c =? 13))
                    && implb (is_hex c) (negb (c =? 10) && negb (c =? 13) && negb (c =? ld_ice_comment) && negb (c =? ld_txt_comment)))
          (nrange 103) = true.
Proof. vm_compute. reflexivity. Qed.

Lemma blank_class : is_ws 32 = true /\ is_nd 32 = false /\ (32 =? ld_gpl_comment) = false.
Proof. vm_compute. auto. Qed.

Lemma adigit_lt c : is_adigit c = true -> c < 103.
Proof. unfold is_adigit. rewrite andb_true_iff, !N.leb_le. lia. Qed.

Lemma hex_lt c : is_hex c = true -> c < 103.
Proof. unfold is_hex, is_adigit. rewrite !orb_true_iff, !andb_true_iff, !N.leb_le. lia. Qed.

Lemma adigit_class c : is_adigit c = true ->
  is_nd c = true /\ is_ws c = false /\ (c =? ld_gpl_comment) = false /\ c <> 13.
Proof.
  intro H. pose proof (nrange_forallb _ 103 class_sweep c (adigit_lt c H)) as S. cbv beta in S.
  rewrite H in S. cbn [implb] in S. rewrite !andb_true_iff, !negb_true_iff in S.
  destruct S as [[[[S1 S2] S3] S4] _]. repeat split; try assumption. apply N.eqb_neq. exact S4.
Qed.

Lemma hex_class c : is_hex c = true ->
  c <> 10 /\ c <> 13 /\ (c =? ld_ice_comment) = false /\ (c =? ld_txt_comment) = false.
Proof.
  intro H. pose proof (nrange_forallb _ 103 class_sweep c (hex_lt c H)) as S. cbv beta in S.
  rewrite H in S. rewrite andb_true_iff in S. destruct S as [_ S]. cbn [implb] in S.
  rewrite !andb_true_iff, !negb_true_iff in S. destruct S as [[[S1 S2] S3] S4].
  repeat split; try assumption; apply N.eqb_neq; assumption.
Qed.

(* decimal digit strings of channel values *)
Record dec_token (n : N) (ds : str) : Prop := {
  dt_nonnil : ds <> [];
  dt_digits : forallb is_adigit ds = true;
  dt_parse : parse_u32 ds = Some n;
  dt_len : (length ds <= 3)%nat }.

Lemma fmt_dec_token n : n < 256 -> dec_token n (fmt_dec n).
Proof.
  intro H. pose proof (nrange_forallb _ 256 dec_sweep n H) as S. cbv beta zeta in S.
  rewrite !andb_true_iff in S. destruct S as [[[S1 S2] S3] S4]. constructor.
  - destruct (fmt_dec n); [discriminate|discriminate].
  - exact S2.
  - destruct (parse_u32 (fmt_dec n)) as [x|]; [|discriminate]. cbn [opt_eqb] in S3. apply N.eqb_eq in S3. subst. reflexivity.
  - apply Nat.leb_le. exact S4.
Qed.

Lemma fmt_hex2_shape n : n < 256 ->
  exists a b, fmt_hex2 n = [a; b] /\ is_hex a = true /\ is_hex b = true /\ hex2 a b = n.
Proof.
  intro H. pose proof (nrange_forallb _ 256 hex2_sweep n H) as S. cbv beta in S.
  destruct (fmt_hex2 n) as [|a [|b [|c t]]]; try discriminate.
  rewrite !andb_true_iff, N.eqb_eq in S. exists a, b. tauto.
Qed.

(* ================================================================================================ *)
(* the matcher for (\d+)\s+(\d+)\s+(\d+) on what the exporters print                                  *)

Lemma span_app f ds rest : forallb f ds = true ->
  match rest with [] => True | c :: _ => f c = false end -> span f (ds ++ rest) = (ds, rest).
Proof.
  intros Hd Hr. induction ds as [|a ds IH].
  - cbn [app]. destruct rest as [|c t]; [reflexivity|]. cbn [span]. rewrite Hr. reflexivity.
  - cbn [forallb] in Hd. apply andb_true_iff in Hd. destruct Hd as [Ha Hd].
    cbn [app span]. rewrite Ha, IH by exact Hd. reflexivity.
Qed.

Definition head_not (f : N -> bool) (s : str) : Prop := match s with [] => True | c :: _ => f c = false end.

Lemma head_not_app f x y : x <> [] -> forallb (fun c => negb (f c)) x = true -> head_not f (x ++ y).
Proof.
  intros Hx H. destruct x as [|c x]; [contradiction|]. cbn [forallb] in H. apply andb_true_iff in H.
  destruct H as [H _]. apply negb_true_iff in H. exact H.
Qed.

Lemma digits_nd ds : forallb is_adigit ds = true ->
  forallb is_nd ds = true /\ forallb (fun c => negb (is_ws c)) ds = true.
Proof.
  induction ds as [|c ds IH]; intro H; [split; reflexivity|].
  cbn [forallb] in *. apply andb_true_iff in H. destruct H as [Hc H].
  destruct (adigit_class c Hc) as (H1 & H2 & _). destruct (IH H) as [I1 I2].
  rewrite H1, H2, I1, I2. split; reflexivity.
Qed.

Lemma blanks_ws k : forallb is_ws (32 :: repeat 32 k) = true /\ forallb (fun c => negb (is_nd c)) (32 :: repeat 32 k) = true.
Proof.
  destruct blank_class as (W & D & _).
  induction k as [|k [I1 I2]]; cbn [repeat forallb] in *; rewrite ?W, ?D; cbn [negb andb]; [split; reflexivity|].
  rewrite W in I1. rewrite D in I2. cbn [negb andb] in I1, I2. rewrite I1, I2. split; reflexivity.
Qed.

Lemma is_nil_false {A} (l : list A) : l <> [] -> is_nil l = false.
Proof. destruct l; [contradiction|reflexivity]. Qed.

Lemma match3_tokens r k1 g k2 b rest :
  r <> [] -> forallb is_adigit r = true -> g <> [] -> forallb is_adigit g = true ->
  b <> [] -> forallb is_adigit b = true -> head_not is_nd rest ->
  match3_at (r ++ (32 :: repeat 32 k1) ++ g ++ (32 :: repeat 32 k2) ++ b ++ rest) = Some (r, g, b, rest).
Proof.
  intros Hr0 Hr Hg0 Hg Hb0 Hb Hrest.
  destruct (digits_nd r Hr) as [Rn Rw]. destruct (digits_nd g Hg) as [Gn Gw]. destruct (digits_nd b Hb) as [Bn Bw].
  destruct (blanks_ws k1) as [W1 N1]. destruct (blanks_ws k2) as [W2 N2].
  unfold match3_at.
  rewrite (span_app is_nd r _ Rn) by (apply head_not_app; [discriminate|exact N1]).
  rewrite (is_nil_false r Hr0).
  rewrite (span_app is_ws (32 :: repeat 32 k1) _ W1) by (apply head_not_app; [exact Hg0|exact Gw]).
  cbn [is_nil].
  rewrite (span_app is_nd g _ Gn) by (apply head_not_app; [discriminate|exact N2]).
  rewrite (is_nil_false g Hg0).
  rewrite (span_app is_ws (32 :: repeat 32 k2) _ W2) by (apply head_not_app; [exact Hb0|exact Bw]).
  cbn [is_nil].
  rewrite (span_app is_nd b _ Bn) by exact Hrest.
  rewrite (is_nil_false b Hb0). reflexivity.
Qed.

Lemma search3_blank s : search3 (32 :: s) = search3 s.
Proof.
  cbn [search3]. unfold match3_at. cbn [span]. destruct blank_class as (_ & D & _). rewrite D. reflexivity.
Qed.

Lemma search3_blanks k s : search3 (repeat 32 k ++ s) = search3 s.
Proof. induction k as [|k IH]; [reflexivity|]. cbn [repeat app]. rewrite search3_blank. exact IH. Qed.

Lemma search3_hit s m : match3_at s = Some m -> search3 s = Some m.
Proof.
  intro H. destruct s as [|c s]; [cbv in H; discriminate|]. cbn [search3]. rewrite H. reflexivity.
Qed.

Lemma search3_line k0 r k1 g k2 b rest :
  r <> [] -> forallb is_adigit r = true -> g <> [] -> forallb is_adigit g = true ->
  b <> [] -> forallb is_adigit b = true -> head_not is_nd rest ->
  search3 (repeat 32 k0 ++ r ++ (32 :: repeat 32 k1) ++ g ++ (32 :: repeat 32 k2) ++ b ++ rest) = Some (r, g, b, rest).
Proof.
  intros. rewrite search3_blanks. apply search3_hit. apply match3_tokens; assumption.
Qed.

Lemma rgb_of_dec_tokens r g b dr dg db : r < 256 -> g < 256 -> b < 256 ->
  dec_token r dr -> dec_token g dg -> dec_token b db -> rgb_of_dec dr dg db = Some (r, g, b).
Proof.
  intros Hr Hg Hb [_ _ Pr _] [_ _ Pg _] [_ _ Pb _]. unfold rgb_of_dec. rewrite Pr, Pg, Pb.
  unfold u8. rewrite !N.mod_small by assumption. reflexivity.
Qed.

(* ================================================================================================ *)
(* Hex                                                                                                *)

Lemma hex6_at_nonhex a s : is_hex a = false -> hex6_at (a :: s) = None.
Proof.
  intro H. destruct s as [|b [|c [|d [|e [|f t]]]]]; try reflexivity. cbn [hex6_at]. rewrite H. reflexivity.
Qed.

Lemma hex_color_shape r g b : r < 256 -> g < 256 -> b < 256 ->
  exists a1 a2 b1 b2 c1 c2,
    fmt_hex2 r = [a1; a2] /\ fmt_hex2 g = [b1; b2] /\ fmt_hex2 b = [c1; c2] /\
    is_hex a1 = true /\ is_hex a2 = true /\ is_hex b1 = true /\ is_hex b2 = true /\ is_hex c1 = true /\ is_hex c2 = true /\
    hex6_at [a1; a2; b1; b2; c1; c2] = Some ((r, g, b), []) /\
    (forall t, hex6_at (a1 :: a2 :: b1 :: b2 :: c1 :: c2 :: t) = Some ((r, g, b), t)).
Proof.
  intros Hr Hg Hb.
  destruct (fmt_hex2_shape r Hr) as (a1 & a2 & E1 & A1 & A2 & V1).
  destruct (fmt_hex2_shape g Hg) as (b1 & b2 & E2 & B1 & B2 & V2).
  destruct (fmt_hex2_shape b Hb) as (c1 & c2 & E3 & C1 & C2 & V3).
  exists a1, a2, b1, b2, c1, c2. repeat split; try assumption;
    try intro t; cbn [hex6_at]; rewrite A1, A2, B1, B2, C1, C2, V1, V2, V3; reflexivity.
Qed.

Lemma hex_scan_color r g b rest : r < 256 -> g < 256 -> b < 256 ->
  hex_scan 0 (exp_hex_color r g b ++ rest) = (r, g, b) :: hex_scan 0 rest.
Proof.
  intros Hr Hg Hb.
  destruct (hex_color_shape r g b Hr Hg Hb) as (a1 & a2 & b1 & b2 & c1 & c2 & E1 & E2 & E3 & _ & _ & _ & _ & _ & _ & _ & H6).
  unfold exp_hex_color. rewrite E1, E2, E3. cbn [app]. cbn [hex_scan]. rewrite H6.
  rewrite hex6_at_nonhex by reflexivity. reflexivity.
Qed.

Lemma export_import_hex_proof p : bytes_pal p -> load_hex (export_hex p) = Some (map crgb (pcolors p)).
Proof.
  intro Hb. unfold load_hex, export_hex. f_equal. unfold bytes_pal in Hb.
  induction (pcolors p) as [|c l IH]; [reflexivity|]. inversion Hb; subst.
  cbn [flat_map map]. unfold on_rgb at 1. destruct (crgb c) as [[r g] b] eqn:E. destruct H1 as (Hr & Hg & Hb').
  rewrite hex_scan_color by assumption. f_equal. apply IH. assumption.
Qed.

(* ================================================================================================ *)
(* JASC PAL                                                                                           *)

Lemma pal_color_line r g b : r < 256 -> g < 256 -> b < 256 -> line_ok pal_line (exp_pal_color r g b) [(r, g, b)].
Proof.
  intros Hr Hg Hb.
  pose proof (fmt_dec_token r Hr) as Tr. pose proof (fmt_dec_token g Hg) as Tg. pose proof (fmt_dec_token b Hb) as Tb.
  exists (fmt_dec r ++ [32] ++ fmt_dec g ++ [32] ++ fmt_dec b). split; [|split].
  - unfold exp_pal_color. rewrite <- !app_assoc. reflexivity.
  - repeat apply no_nl_app; try (apply dec_chars_no_nl, fmt_dec_chars); repeat constructor; discriminate.
  - rewrite chomp_no_cr.
    2:{ repeat (apply Forall_app; split); try (repeat constructor; discriminate);
        (eapply Forall_impl; [|apply fmt_dec_chars]); unfold is_dec_char; intros; lia. }
    unfold pal_line.
    assert (S3 : search3 (fmt_dec r ++ [32] ++ fmt_dec g ++ [32] ++ fmt_dec b) = Some (fmt_dec r, fmt_dec g, fmt_dec b, [])).
    { pose proof (search3_line 0 (fmt_dec r) 0 (fmt_dec g) 0 (fmt_dec b) []) as S.
      cbn [repeat app] in S. rewrite app_nil_r in S. cbn [app]. apply S; try apply Tr; try apply Tg; try apply Tb. exact I. }
    destruct (length (fmt_dec r ++ [32] ++ fmt_dec g ++ [32] ++ fmt_dec b)) as [|fuel] eqn:L.
    { destruct Tr as [Hn _ _ _]. destruct (fmt_dec r); [contradiction|discriminate]. }
    cbn [pal_matches]. rewrite S3, (rgb_of_dec_tokens r g b) by assumption.
    destruct fuel; reflexivity.
Qed.

Lemma plain_line (f : str -> option (list rgb)) body rest : no_nl body -> lines ((body ++ [10]) ++ rest) = chomp body :: lines rest.
Proof. apply lines_line. Qed.

Lemma export_import_pal_proof p : bytes_pal p -> load_pal (export_pal p) = Some (map crgb (pcolors p)).
Proof.
  intro Hb. unfold load_pal, with_magic, export_pal.
  (* magic line: what the exporter writes is what the loader expects *)
  assert (M : exp_pal_l0 = ld_pal_magic ++ [10]) by reflexivity.
  assert (Mn : no_nl ld_pal_magic) by (apply no_nl_forallb; reflexivity).
  assert (Mc : chomp ld_pal_magic = ld_pal_magic) by reflexivity.
  rewrite M, lines_line, Mc, list_eqb_refl by exact Mn.
  (* version line *)
  assert (V : exists v, exp_pal_l1 = v ++ [10] /\ no_nl v).
  { exists (removelast exp_pal_l1). split; [reflexivity|]. apply no_nl_forallb. reflexivity. }
  destruct V as (v & -> & Vn). rewrite lines_line by exact Vn.
  (* count line *)
  assert (C : exp_pal_count (plen p) = fmt_dec (plen p) ++ [10]) by reflexivity.
  rewrite C, lines_line by (apply dec_chars_no_nl, fmt_dec_chars). cbn [skipn].
  rewrite <- (app_nil_r (flat_map _ _)), <- (app_nil_r (map crgb _)).
  apply seg_flat_map; [|reflexivity].
  intros c Hc. unfold bytes_pal in Hb. rewrite Forall_forall in Hb. specialize (Hb c Hc).
  unfold on_rgb. destruct (crgb c) as [[r g] b]. destruct Hb as (Hr & Hg & Hb). apply line_seg, pal_color_line; assumption.
Qed.

(* ================================================================================================ *)
(* the exporters over the verbatim printers (the code before the sanitising step)                    *)

Definition verbatim_export_gpl (p : palette) : str :=
  exp_gpl_l0 ++ exp_gpl_title_verbatim (ptitle p) ++ exp_gpl_author_verbatim (pauthor p)
  ++ exp_gpl_description_verbatim (pdescription p) ++ exp_gpl_count (plen p)
  ++ flat_map (on_rgb (fun r g b => exp_gpl_color_verbatim r g b (pdescription p))) (pcolors p).

Definition verbatim_ice_color_lines (c : color) : str :=
  match cname c with Some name => exp_ice_name_verbatim name | None => [] end ++ on_rgb exp_ice_color c.
Definition verbatim_export_ice (p : palette) : str :=
  exp_ice_l0 ++ exp_ice_title_verbatim (ptitle p) ++ exp_ice_author_verbatim (pauthor p)
  ++ exp_ice_description_verbatim (pdescription p) ++ exp_ice_count (plen p)
  ++ flat_map verbatim_ice_color_lines (pcolors p).

Definition verbatim_export_txt (p : palette) : str :=
  exp_txt_l0 ++ exp_txt_title_verbatim (ptitle p) ++ exp_txt_author_verbatim (pauthor p)
  ++ exp_txt_description_verbatim (pdescription p) ++ exp_txt_count (plen p)
  ++ flat_map (on_rgb exp_txt_color) (pcolors p).

Definition verbatim_export (f : format) (p : palette) : str :=
  match f with Hex => export_hex p | Pal => export_pal p | Gpl => verbatim_export_gpl p
             | Ice => verbatim_export_ice p | Txt => verbatim_export_txt p end.

(* ================================================================================================ *)
(* GIMP GPL                                                                                           *)

Lemma gpl_skips : skips gpl_line ld_gpl_comment.
Proof. intros l H. unfold gpl_line. rewrite H. reflexivity. Qed.

Lemma w3_shape n : fmt_dec_w3 n = repeat 32 (3 - length (fmt_dec n)) ++ fmt_dec n.
Proof. reflexivity. Qed.

Lemma repeat_no_nl k : no_nl (repeat 32 k).
Proof. induction k; constructor; [discriminate|assumption]. Qed.

Lemma gpl_color_line_verbatim r g b d : r < 256 -> g < 256 -> b < 256 -> no_nl d ->
  line_ok gpl_line (exp_gpl_color_verbatim r g b d) [(r, g, b)].
Proof.
  intros Hr Hg Hb Hd.
  pose proof (fmt_dec_token r Hr) as Tr. pose proof (fmt_dec_token g Hg) as Tg. pose proof (fmt_dec_token b Hb) as Tb.
  set (kr := (3 - length (fmt_dec r))%nat). set (kg := (3 - length (fmt_dec g))%nat). set (kb := (3 - length (fmt_dec b))%nat).
  exists ((repeat 32 kr ++ fmt_dec r ++ (32 :: repeat 32 kg) ++ fmt_dec g ++ (32 :: repeat 32 kb) ++ fmt_dec b) ++ 32 :: d).
  split; [|split].
  - unfold exp_gpl_color_verbatim, fmt_str. rewrite !w3_shape. fold kr kg kb. rewrite <- ?app_assoc. cbn [app]. rewrite <- ?app_assoc. reflexivity.
  - repeat apply no_nl_app; try apply repeat_no_nl; try (apply dec_chars_no_nl, fmt_dec_chars);
      try (constructor; [discriminate|]); try apply repeat_no_nl; try exact Hd.
  - rewrite chomp_app_cons by discriminate.
    unfold gpl_line.
    assert (St : starts_with ld_gpl_comment
                   ((repeat 32 kr ++ fmt_dec r ++ (32 :: repeat 32 kg) ++ fmt_dec g ++ (32 :: repeat 32 kb) ++ fmt_dec b) ++ 32 :: chomp d) = false).
    { destruct blank_class as (_ & _ & B). destruct kr as [|kr'].
      - cbn [repeat app]. destruct Tr as [Hn Hdig _ _]. destruct (fmt_dec r) as [|c t]; [contradiction|].
        cbn [forallb] in Hdig. apply andb_true_iff in Hdig. destruct Hdig as [Hc _].
        destruct (adigit_class c Hc) as (_ & _ & Hcm & _). cbn [app starts_with]. exact Hcm.
      - cbn [repeat app starts_with]. exact B. }
    rewrite St. rewrite <- !app_assoc.
    rewrite (search3_line kr (fmt_dec r) kg (fmt_dec g) kb (fmt_dec b) (32 :: chomp d));
      try apply Tr; try apply Tg; try apply Tb.
    + rewrite (rgb_of_dec_tokens r g b) by assumption. reflexivity.
    + cbn [head_not]. apply blank_class.
Qed.

Lemma count_line_seg f cm pre n : skips f cm -> cm <> 13 -> no_nl pre -> starts_with cm pre = true ->
  seg_ok f ((pre ++ fmt_dec n) ++ [10]) [].
Proof. intros. apply (comment_seg f cm); try assumption. apply dec_chars_no_nl, fmt_dec_chars. Qed.

Ltac lit_facts := first [ apply no_nl_forallb; reflexivity | reflexivity | discriminate ].

Lemma verbatim_export_import_gpl p : bytes_pal p ->
  no_nl (ptitle p) -> no_nl (pauthor p) -> no_nl (pdescription p) ->
  load_gpl (verbatim_export_gpl p) = Some (map crgb (pcolors p)).
Proof.
  intros Hb Ht Ha Hd. unfold load_gpl, with_magic, verbatim_export_gpl.
  assert (M : exp_gpl_l0 = ld_gpl_magic ++ [10]) by reflexivity.
  assert (Mn : no_nl ld_gpl_magic) by (apply no_nl_forallb; reflexivity).
  assert (Mc : chomp ld_gpl_magic = ld_gpl_magic) by reflexivity.
  rewrite M, lines_line, Mc, list_eqb_refl by exact Mn.
  change (map crgb (pcolors p)) with ([] ++ [] ++ [] ++ [] ++ map crgb (pcolors p)).
  assert (S1 : seg_ok gpl_line (exp_gpl_title_verbatim (ptitle p)) []).
  { unfold exp_gpl_title_verbatim, fmt_str. rewrite app_assoc. apply (comment_seg gpl_line ld_gpl_comment); try lit_facts; try assumption. apply gpl_skips. }
  assert (S2 : seg_ok gpl_line (exp_gpl_author_verbatim (pauthor p)) []).
  { unfold exp_gpl_author_verbatim, fmt_str. rewrite app_assoc. apply (comment_seg gpl_line ld_gpl_comment); try lit_facts; try assumption. apply gpl_skips. }
  assert (S3 : seg_ok gpl_line (exp_gpl_description_verbatim (pdescription p)) []).
  { unfold exp_gpl_description_verbatim, fmt_str. rewrite app_assoc. apply (comment_seg gpl_line ld_gpl_comment); try lit_facts; try assumption. apply gpl_skips. }
  assert (S4 : seg_ok gpl_line (exp_gpl_count (plen p)) []).
  { unfold exp_gpl_count. rewrite app_assoc. apply (count_line_seg gpl_line ld_gpl_comment); try lit_facts. apply gpl_skips. }
  apply S1, S2, S3, S4.
  rewrite <- (app_nil_r (flat_map _ _)), <- (app_nil_r (map crgb _)).
  apply seg_flat_map; [|reflexivity].
  intros c Hc. unfold bytes_pal in Hb. rewrite Forall_forall in Hb. specialize (Hb c Hc).
  unfold on_rgb. destruct (crgb c) as [[r g] b]. destruct Hb as (Hr & Hg & Hb). apply line_seg, gpl_color_line_verbatim; assumption.
Qed.

(* ================================================================================================ *)
(* ICE                                                                                                *)

Lemma ice_skips : skips ice_line ld_ice_comment.
Proof. intros l H. unfold ice_line. rewrite H. reflexivity. Qed.

Lemma ice_color_line r g b : r < 256 -> g < 256 -> b < 256 -> line_ok ice_line (exp_ice_color r g b) [(r, g, b)].
Proof.
  intros Hr Hg Hb.
  destruct (hex_color_shape r g b Hr Hg Hb) as (a1 & a2 & b1 & b2 & c1 & c2 & E1 & E2 & E3 & A1 & A2 & B1 & B2 & C1 & C2 & H6 & _).
  exists [a1; a2; b1; b2; c1; c2].
  destruct (hex_class a1 A1) as (N1 & R1 & I1 & _). destruct (hex_class a2 A2) as (N2 & R2 & _).
  destruct (hex_class b1 B1) as (N3 & R3 & _). destruct (hex_class b2 B2) as (N4 & R4 & _).
  destruct (hex_class c1 C1) as (N5 & R5 & _). destruct (hex_class c2 C2) as (N6 & R6 & _).
  split; [|split].
  - unfold exp_ice_color. rewrite E1, E2, E3. reflexivity.
  - repeat constructor; assumption.
  - rewrite chomp_no_cr by (repeat constructor; assumption).
    unfold ice_line. cbn [starts_with]. rewrite I1. cbn [hex6_search]. rewrite H6. reflexivity.
Qed.

Definition names_ok (p : palette) : Prop :=
  Forall (fun c => match cname c with Some n => no_nl n | None => True end) (pcolors p).

Lemma verbatim_export_import_ice p : bytes_pal p ->
  no_nl (ptitle p) -> no_nl (pauthor p) -> no_nl (pdescription p) -> names_ok p ->
  load_ice (verbatim_export_ice p) = Some (map crgb (pcolors p)).
Proof.
  intros Hb Ht Ha Hd Hn. unfold load_ice, with_magic, verbatim_export_ice.
  assert (M : exp_ice_l0 = ld_ice_magic ++ [10]) by reflexivity.
  assert (Mn : no_nl ld_ice_magic) by (apply no_nl_forallb; reflexivity).
  assert (Mc : chomp ld_ice_magic = ld_ice_magic) by reflexivity.
  rewrite M, lines_line, Mc, list_eqb_refl by exact Mn.
  change (map crgb (pcolors p)) with ([] ++ [] ++ [] ++ [] ++ map crgb (pcolors p)).
  assert (S1 : seg_ok ice_line (exp_ice_title_verbatim (ptitle p)) []).
  { unfold exp_ice_title_verbatim, fmt_str. rewrite app_assoc. apply (comment_seg ice_line ld_ice_comment); try lit_facts; try assumption. apply ice_skips. }
  assert (S2 : seg_ok ice_line (exp_ice_author_verbatim (pauthor p)) []).
  { unfold exp_ice_author_verbatim, fmt_str. rewrite app_assoc. apply (comment_seg ice_line ld_ice_comment); try lit_facts; try assumption. apply ice_skips. }
  assert (S3 : seg_ok ice_line (exp_ice_description_verbatim (pdescription p)) []).
  { unfold exp_ice_description_verbatim, fmt_str. rewrite app_assoc. apply (comment_seg ice_line ld_ice_comment); try lit_facts; try assumption. apply ice_skips. }
  assert (S4 : seg_ok ice_line (exp_ice_count (plen p)) []).
  { unfold exp_ice_count. rewrite app_assoc. apply (count_line_seg ice_line ld_ice_comment); try lit_facts. apply ice_skips. }
  apply S1, S2, S3, S4.
  rewrite <- (app_nil_r (flat_map _ _)), <- (app_nil_r (map crgb _)).
  apply seg_flat_map; [|reflexivity].
  intros c Hc. unfold bytes_pal in Hb. rewrite Forall_forall in Hb. specialize (Hb c Hc).
  unfold names_ok in Hn. rewrite Forall_forall in Hn. specialize (Hn c Hc).
  unfold verbatim_ice_color_lines. change [crgb c] with ([] ++ [crgb c]). apply seg_app.
  - destruct (cname c) as [name|]; [|apply seg_nil].
    unfold exp_ice_name_verbatim, fmt_str. rewrite app_assoc. apply (comment_seg ice_line ld_ice_comment); try lit_facts; try assumption. apply ice_skips.
  - unfold on_rgb. destruct (crgb c) as [[r g] b]. destruct Hb as (Hr & Hg & Hb). apply line_seg, ice_color_line; assumption.
Qed.

(* ================================================================================================ *)
(* Paint.NET TXT                                                                                      *)

Lemma txt_skips : skips txt_line ld_txt_comment.
Proof. intros l H. unfold txt_line. rewrite H. reflexivity. Qed.

Lemma txt_color_line r g b : r < 256 -> g < 256 -> b < 256 -> line_ok txt_line (exp_txt_color r g b) [(r, g, b)].
Proof.
  intros Hr Hg Hb.
  destruct (hex_color_shape r g b Hr Hg Hb) as (a1 & a2 & b1 & b2 & c1 & c2 & E1 & E2 & E3 & A1 & A2 & B1 & B2 & C1 & C2 & H6 & _).
  exists [70; 70; a1; a2; b1; b2; c1; c2].
  destruct (hex_class a1 A1) as (N1 & R1 & _). destruct (hex_class a2 A2) as (N2 & R2 & _).
  destruct (hex_class b1 B1) as (N3 & R3 & _). destruct (hex_class b2 B2) as (N4 & R4 & _).
  destruct (hex_class c1 C1) as (N5 & R5 & _). destruct (hex_class c2 C2) as (N6 & R6 & _).
  split; [|split].
  - unfold exp_txt_color. rewrite E1, E2, E3. reflexivity.
  - repeat constructor; try assumption; discriminate.
  - rewrite chomp_no_cr by (repeat constructor; try assumption; discriminate).
    unfold txt_line. cbn [starts_with]. replace (70 =? ld_txt_comment) with false by reflexivity.
    cbn [hex8_search hex8_at]. replace (is_hex 70) with true by reflexivity. cbn [andb]. rewrite H6. reflexivity.
Qed.

Lemma verbatim_export_import_txt p : bytes_pal p ->
  no_nl (ptitle p) -> no_nl (pauthor p) -> no_nl (pdescription p) ->
  load_txt (verbatim_export_txt p) = Some (map crgb (pcolors p)).
Proof.
  intros Hb Ht Ha Hd. unfold load_txt, verbatim_export_txt.
  change (map crgb (pcolors p)) with ([] ++ [] ++ [] ++ [] ++ [] ++ map crgb (pcolors p)).
  assert (S0 : seg_ok txt_line exp_txt_l0 []).
  { change exp_txt_l0 with ((removelast exp_txt_l0 ++ []) ++ [10]).
    apply (comment_seg txt_line ld_txt_comment); try lit_facts. apply txt_skips. }
  assert (S1 : seg_ok txt_line (exp_txt_title_verbatim (ptitle p)) []).
  { unfold exp_txt_title_verbatim, fmt_str. rewrite app_assoc. apply (comment_seg txt_line ld_txt_comment); try lit_facts; try assumption. apply txt_skips. }
  assert (S2 : seg_ok txt_line (exp_txt_author_verbatim (pauthor p)) []).
  { unfold exp_txt_author_verbatim, fmt_str. rewrite app_assoc. apply (comment_seg txt_line ld_txt_comment); try lit_facts; try assumption. apply txt_skips. }
  assert (S3 : seg_ok txt_line (exp_txt_description_verbatim (pdescription p)) []).
  { unfold exp_txt_description_verbatim, fmt_str. rewrite app_assoc. apply (comment_seg txt_line ld_txt_comment); try lit_facts; try assumption. apply txt_skips. }
  assert (S4 : seg_ok txt_line (exp_txt_count (plen p)) []).
  { unfold exp_txt_count. rewrite app_assoc. apply (count_line_seg txt_line ld_txt_comment); try lit_facts. apply txt_skips. }
  apply S0, S1, S2, S3, S4.
  rewrite <- (app_nil_r (flat_map _ _)), <- (app_nil_r (map crgb _)).
  apply seg_flat_map; [|reflexivity].
  intros c Hc. unfold bytes_pal in Hb. rewrite Forall_forall in Hb. specialize (Hb c Hc).
  unfold on_rgb. destruct (crgb c) as [[r g] b]. destruct Hb as (Hr & Hg & Hb). apply line_seg, txt_color_line; assumption.
Qed.

(* ================================================================================================ *)
(* all five formats, verbatim exporters                                                               *)

(* what a palette must satisfy for a line-oriented format to be able to carry it when its texts are copied verbatim:
   no line feed in the texts the format writes on lines of their own *)
Definition wf_meta (f : format) (p : palette) : Prop :=
  match f with
  | Hex | Pal => True
  | Gpl | Txt => no_nl (ptitle p) /\ no_nl (pauthor p) /\ no_nl (pdescription p)
  | Ice => no_nl (ptitle p) /\ no_nl (pauthor p) /\ no_nl (pdescription p) /\ names_ok p
  end.

Definition colours (p : palette) : list rgb := map crgb (pcolors p).

Lemma verbatim_export_import_proof f p : bytes_pal p -> wf_meta f p -> load f (verbatim_export f p) = Some (colours p).
Proof.
  intros Hb Hw. destruct f; cbn [load verbatim_export wf_meta] in *.
  - apply export_import_hex_proof, Hb.
  - apply export_import_pal_proof, Hb.
  - destruct Hw as (H1 & H2 & H3). apply verbatim_export_import_gpl; assumption.
  - destruct Hw as (H1 & H2 & H3 & H4). apply verbatim_export_import_ice; assumption.
  - destruct Hw as (H1 & H2 & H3). apply verbatim_export_import_txt; assumption.
Qed.

(* ================================================================================================ *)
(* single_line and the exporters of the code                                                          *)

Lemma single_line_no_nl s : no_nl (single_line s).
Proof.
  unfold single_line, str_replace_chars, no_nl. induction s as [|c s IH]; [constructor|].
  cbn [flat_map]. apply Forall_app. split; [|exact IH].
  unfold single_line_chars, single_line_to. cbn [existsb].
  destruct (N.eqb_spec c 13) as [->|H13]; [repeat constructor; discriminate|].
  destruct (N.eqb_spec c 10) as [->|H10]; [repeat constructor; discriminate|].
  cbn [orb]. repeat constructor. exact H10.
Qed.

(* a text without carriage return and line feed is printed as it is *)
Definition no_breaks (s : str) : Prop := Forall (fun c => c <> 13 /\ c <> 10) s.

Lemma single_line_id s : no_breaks s -> single_line s = s.
Proof.
  unfold single_line, str_replace_chars, no_breaks. induction s as [|c s IH]; intro H; [reflexivity|].
  inversion H as [|? ? [H13 H10] Ht]; subst. cbn [flat_map]. rewrite IH by exact Ht.
  unfold single_line_chars. cbn [existsb].
  destruct (N.eqb_spec c 13); [contradiction|]. destruct (N.eqb_spec c 10); [contradiction|]. reflexivity.
Qed.

(* the palette whose texts went through single_line *)
Definition clean_color (c : color) : color := mkColor (option_map single_line (cname c)) (crgb c).
Definition clean (p : palette) : palette :=
  mkPal (single_line (ptitle p)) (single_line (pdescription p)) (single_line (pauthor p)) (map clean_color (pcolors p)).

Lemma flat_map_map {A B C} (g : A -> B) (f : B -> list C) l : flat_map f (map g l) = flat_map (fun x => f (g x)) l.
Proof. induction l as [|x l IH]; [reflexivity|]. cbn [map flat_map]. rewrite IH. reflexivity. Qed.

Lemma plen_clean p : plen (clean p) = plen p.
Proof. unfold plen, clean. cbn [pcolors]. rewrite map_length. reflexivity. Qed.

Lemma colours_clean p : colours (clean p) = colours p.
Proof. unfold colours, clean. cbn [pcolors]. rewrite map_map. reflexivity. Qed.

Lemma bytes_pal_clean p : bytes_pal p -> bytes_pal (clean p).
Proof.
  unfold bytes_pal, clean. cbn [pcolors]. intro H. apply Forall_map. exact H.
Qed.

Lemma wf_meta_clean f p : wf_meta f (clean p).
Proof.
  destruct f; cbn [wf_meta clean ptitle pauthor pdescription]; try exact I;
    repeat split; try apply single_line_no_nl.
  unfold names_ok. cbn [pcolors]. apply Forall_map. apply Forall_forall. intros c _.
  unfold clean_color. cbn [cname]. destruct (cname c); cbn [option_map]; [apply single_line_no_nl|exact I].
Qed.

(* the exporters of the code are the verbatim exporters on the cleaned palette *)
Lemma export_clean f p : export f p = verbatim_export f (clean p).
Proof.
  destruct f; cbn [export verbatim_export].
  - unfold export_hex, clean. cbn [pcolors]. rewrite flat_map_map. reflexivity.
  - unfold export_pal. rewrite plen_clean. unfold clean. cbn [pcolors]. rewrite flat_map_map. reflexivity.
  - unfold export_gpl, verbatim_export_gpl. rewrite plen_clean. unfold clean. cbn [pcolors ptitle pauthor pdescription].
    rewrite flat_map_map. reflexivity.
  - unfold export_ice, verbatim_export_ice. rewrite plen_clean. unfold clean. cbn [pcolors ptitle pauthor pdescription].
    rewrite flat_map_map. do 5 f_equal. apply flat_map_ext. intro c.
    unfold ice_color_lines, verbatim_ice_color_lines, clean_color. cbn [cname]. destruct (cname c); reflexivity.
  - unfold export_txt, verbatim_export_txt. rewrite plen_clean. unfold clean. cbn [pcolors ptitle pauthor pdescription].
    rewrite flat_map_map. reflexivity.
Qed.

(* the property, for EVERY palette: no condition on title / author / description / colour names *)
Lemma export_import_proof f p : bytes_pal p -> load f (export f p) = Some (colours p).
Proof.
  intro Hb. rewrite export_clean, <- colours_clean.
  apply verbatim_export_import_proof; [apply bytes_pal_clean, Hb|apply wf_meta_clean].
Qed.

Lemma export_import_gpl_proof p : bytes_pal p -> load_gpl (export_gpl p) = Some (map crgb (pcolors p)).
Proof. exact (export_import_proof Gpl p). Qed.
Lemma export_import_ice_proof p : bytes_pal p -> load_ice (export_ice p) = Some (map crgb (pcolors p)).
Proof. exact (export_import_proof Ice p). Qed.
Lemma export_import_txt_proof p : bytes_pal p -> load_txt (export_txt p) = Some (map crgb (pcolors p)).
Proof. exact (export_import_proof Txt p). Qed.

(* files of palettes whose texts have no line break are byte for byte what the verbatim exporters wrote *)
Definition no_breaks_meta (p : palette) : Prop :=
  no_breaks (ptitle p) /\ no_breaks (pauthor p) /\ no_breaks (pdescription p) /\
  Forall (fun c => match cname c with Some n => no_breaks n | None => True end) (pcolors p).

Lemma clean_id p : no_breaks_meta p -> clean p = p.
Proof.
  intros (Ht & Ha & Hd & Hn). destruct p as [t d a cs]. unfold clean. cbn [ptitle pauthor pdescription pcolors] in *.
  rewrite !single_line_id by assumption. f_equal.
  induction cs as [|c cs IH]; [reflexivity|]. inversion Hn as [|? ? Hc Hcs]; subst. cbn [map]. rewrite IH by exact Hcs. f_equal.
  destruct c as [[n|] v]; unfold clean_color; cbn [cname crgb option_map] in *; [rewrite single_line_id by exact Hc|]; reflexivity.
Qed.

Lemma export_unchanged_without_breaks_proof f p : no_breaks_meta p -> export f p = verbatim_export f p.
Proof. intro H. rewrite export_clean, clean_id by exact H. reflexivity. Qed.

(* ================================================================================================ *)
(* the FIXED finding metadata-line-feed-roundtrip-colours-differ (class KnownC16_1): a line feed inside a text the
   format writes on a line of its own.  The exporters used to copy title/author/description/colour names verbatim
   (verbatim_export), so such a text became several lines of the file and the loader read colours out of them.  The
   statements below are about verbatim_export, i.e. about the code before the fix. *)

Definition nl_free (s : str) : bool := forallb (fun c => negb (c =? 10)) s.
Definition meta_nl_free (f : format) (p : palette) : bool :=
  match f with
  | Hex | Pal => true
  | Gpl | Txt => nl_free (ptitle p) && nl_free (pauthor p) && nl_free (pdescription p)
  | Ice => nl_free (ptitle p) && nl_free (pauthor p) && nl_free (pdescription p)
           && forallb (fun c => match cname c with Some n => nl_free n | None => true end) (pcolors p)
  end.
Definition KnownC16_1 (f : format) (p : palette) : Prop := meta_nl_free f p = false.

Lemma names_ok_b p :
  forallb (fun c => match cname c with Some n => nl_free n | None => true end) (pcolors p) = true -> names_ok p.
Proof.
  intro H. apply Forall_forall. intros c Hc. rewrite forallb_forall in H. specialize (H c Hc).
  destruct (cname c); [apply no_nl_forallb, H|exact I].
Qed.

Lemma meta_nl_free_wf f p : meta_nl_free f p = true -> wf_meta f p.
Proof.
  destruct f; cbn [meta_nl_free wf_meta]; intro H; try exact I.
  - apply andb_true_iff in H. destruct H as [H H3]. apply andb_true_iff in H. destruct H as [H1 H2].
    repeat split; apply no_nl_forallb; assumption.
  - apply andb_true_iff in H. destruct H as [H H4]. apply andb_true_iff in H. destruct H as [H H3].
    apply andb_true_iff in H. destruct H as [H1 H2].
    repeat split; try (apply no_nl_forallb; assumption). apply names_ok_b, H4.
  - apply andb_true_iff in H. destruct H as [H H3]. apply andb_true_iff in H. destruct H as [H1 H2].
    repeat split; apply no_nl_forallb; assumption.
Qed.

Lemma verbatim_export_import_outside_known_proof f p :
  bytes_pal p -> ~ KnownC16_1 f p -> load f (verbatim_export f p) = Some (colours p).
Proof.
  intros Hb Hk. apply verbatim_export_import_proof; [exact Hb|]. apply meta_nl_free_wf. unfold KnownC16_1 in Hk.
  destruct (meta_nl_free f p); [reflexivity|]. exfalso. apply Hk. reflexivity.
Qed.

(* title "x\n1 2 3 y", one colour (9,9,9): the verbatim GPL file reads back as two colours; the file the code writes
   now has the title on one line and reads back as the palette *)
Definition known_1_pal : palette := mkPal [120; 10; 49; 32; 50; 32; 51; 32; 121] [] [] [unnamed (9, 9, 9)].

Lemma known_1_witness_proof :
  bytes_pal known_1_pal /\ KnownC16_1 Gpl known_1_pal /\
  load Gpl (verbatim_export Gpl known_1_pal) = Some [(1, 2, 3); (9, 9, 9)] /\ colours known_1_pal = [(9, 9, 9)] /\
  load Gpl (export Gpl known_1_pal) = Some [(9, 9, 9)].
Proof. split; [repeat constructor|]. split; [reflexivity|]. repeat split; vm_compute; reflexivity. Qed.

(* ================================================================================================ *)
(* the defect that was fixed in the repository: GPL_COLOR_REGEX used to end in \s+(.+)                *)
(* (historical matcher, not tied to the current source; kept so that the refutation stays checked)    *)

(* after the third number: at least one blank, then at least one more character *)
Definition old_tail_ok (s5 : str) : bool :=
  let '(w, s6) := span is_ws s5 in negb (is_nil w) && (negb (is_nil s6) || (2 <=? length w)%nat).
Definition old_match_at (s : str) : option (str * str * str) :=
  match match3_at s with
  | Some (r, g, b, s5) => if old_tail_ok s5 then Some (r, g, b) else None
  | None => None
  end.
Fixpoint old_search (s : str) : option (str * str * str) :=
  match s with
  | [] => None
  | _ :: t => match old_match_at s with Some m => Some m | None => old_search t end
  end.
Definition old_gpl_line (l : str) : option (list rgb) :=
  if starts_with ld_gpl_comment l then Some []
  else match old_search l with
       | None => Some []
       | Some (r, g, b) => match rgb_of_dec r g b with Some c => Some [c] | None => None end
       end.
Definition old_load_gpl (s : str) : option (list rgb) := with_magic ld_gpl_magic (collect old_gpl_line) s.

Definition gpl_witness : palette := mkPal [] [] [] [unnamed (1, 2, 3); unnamed (40, 50, 60)].

Lemma gpl_unfixed_regex_refuted_proof :
  bytes_pal gpl_witness /\ wf_meta Gpl gpl_witness /\
  old_load_gpl (export_gpl gpl_witness) = Some [] /\ colours gpl_witness = [(1, 2, 3); (40, 50, 60)].
Proof.
  split; [repeat constructor|]. split; [repeat constructor|]. split; vm_compute; reflexivity.
Qed.
