(* C14 (b): bookkeeping of the sixel decode queue, for every event sequence. *)
From Coq Require Import ZArith List Bool Arith Lia Sorted.
From IE Require Import Model.SixelQueue.
Import ListNotations.

Section Q.
Variable outcome_of : nat -> outcome.

Definition consistent_p (e : nat * outcome) : Prop := snd e = outcome_of (fst e).
Definition consistent_q (e : nat * status) : Prop := snd e = Running \/ snd e = Done (outcome_of (fst e)).

Record Inv (s : qstate) : Prop := {
  inv_order : map fst (popped s) ++ map fst (queue s) = seq 0 (next s);
  inv_screen : screen s = fold_left spec_step (popped s) [];
  inv_p : Forall consistent_p (popped s);
  inv_q : Forall consistent_q (queue s) }.

(* ---- one poll ---- *)
Lemma poll_loop_spec q : forall scr pp upd r q' scr' pp',
  Forall consistent_q q ->
  poll_loop q scr pp upd = (r, q', scr', pp') ->
  r <> PBlocked /\
  exists d, pp' = pp ++ d /\ scr' = fold_left spec_step d scr /\ Forall consistent_p d /\
            map fst d ++ map fst q' = map fst q /\ Forall consistent_q q' /\ (length q' <= length q)%nat /\
            (q <> [] -> is_finished (snd (hd (O, Running) q)) = true -> (length q' < length q)%nat).
Proof.
  induction q as [|[id stt] q IH]; intros scr pp upd r q' scr' pp' Hq H; cbn [poll_loop] in H.
  - inversion H; subst. split; [discriminate|]. exists []. rewrite app_nil_r. cbn. repeat split; auto. intro C; contradiction.
  - inversion Hq as [|? ? Hc Hq']; subst. destruct stt as [|o]; cbn [is_finished negb join] in H.
    + inversion H; subst. split; [discriminate|]. exists []. rewrite app_nil_r. cbn. repeat split; auto. intros _ C; discriminate.
    + destruct o as [rc| |].
      * destruct (IH _ _ _ _ _ _ _ Hq' H) as (Hb & d & -> & -> & Hd & Ho & Hq'' & Hl & _).
        split; [exact Hb|]. exists ((id, OOk rc) :: d). rewrite <- app_assoc. cbn [app fold_left spec_step fst snd map length].
        repeat split; auto; try lia.
        -- constructor; [|exact Hd]. destruct Hc as [Hc|Hc]; [discriminate|]. unfold consistent_p. cbn in *. congruence.
        -- f_equal. exact Ho.
      * inversion H; subst. split; [discriminate|]. exists [(id, OErr)]. cbn [app fold_left spec_step fst snd map length].
        repeat split; auto; try lia.
        constructor; [|constructor]. destruct Hc as [Hc|Hc]; [discriminate|]. unfold consistent_p. cbn in *. congruence.
      * destruct (IH _ _ _ _ _ _ _ Hq' H) as (Hb & d & -> & -> & Hd & Ho & Hq'' & Hl & _).
        split; [exact Hb|]. exists ((id, OPanicked) :: d). rewrite <- app_assoc. cbn [app fold_left spec_step fst snd map length].
        repeat split; auto; try lia.
        -- constructor; [|exact Hd]. destruct Hc as [Hc|Hc]; [discriminate|]. unfold consistent_p. cbn in *. congruence.
        -- f_equal. exact Ho.
Qed.

Lemma poll_inv s : Inv s -> fst (poll s) <> PBlocked /\ Inv (snd (poll s)) /\ next (snd (poll s)) = next s.
Proof.
  intros [Ho Hs Hp Hq]. unfold poll.
  destruct (poll_loop (queue s) (screen s) (popped s) false) as [[[r q'] scr'] pp'] eqn:E. cbn [fst snd].
  destruct (poll_loop_spec _ _ _ _ _ _ _ _ Hq E) as (Hb & d & -> & -> & Hd & Hord & Hq' & _).
  split; [exact Hb|]. split; [|reflexivity]. constructor; cbn [next queue screen popped].
  - rewrite map_app, <- app_assoc, Hord. exact Ho.
  - rewrite fold_left_app, <- Hs. reflexivity.
  - apply Forall_app. split; assumption.
  - exact Hq'.
Qed.

Lemma finish_map_fst id q : map fst (finish outcome_of id q) = map fst q.
Proof. unfold finish. rewrite map_map. apply map_ext. intros [i st]. cbn. destruct (Nat.eqb i id); reflexivity. Qed.

Lemma step_inv s e : Inv s -> Inv (step outcome_of s e).
Proof.
  intros HI. destruct e as [|id|]; cbn [step].
  - destruct HI as [Ho Hs Hp Hq]. constructor; cbn [next queue screen popped]; auto.
    + rewrite map_app, app_assoc, Ho. cbn [map fst]. rewrite seq_S. reflexivity.
    + apply Forall_app. split; [exact Hq|]. constructor; [left; reflexivity|constructor].
  - destruct HI as [Ho Hs Hp Hq]. constructor; cbn [next queue screen popped]; auto.
    + rewrite finish_map_fst. exact Ho.
    + unfold finish. apply Forall_forall. intros x Hx. apply in_map_iff in Hx. destruct Hx as ([i st] & <- & Hin).
      rewrite Forall_forall in Hq. specialize (Hq _ Hin). cbn [fst snd] in *.
      destruct (Nat.eqb_spec i id) as [->|Hne]; [|exact Hq].
      unfold consistent_q. cbn [fst snd]. destruct st; [right; reflexivity|]. destruct Hq as [Hq|Hq]; [discriminate|right; exact Hq].
  - apply poll_inv, HI.
Qed.

Lemma init_inv : Inv init.
Proof. constructor; cbn; auto. Qed.

Lemma run_from_inv evs : forall s, Inv s -> Inv (fold_left (step outcome_of) evs s).
Proof. induction evs as [|e evs IH]; intros s HI; cbn [fold_left]; [exact HI|]. apply IH, step_inv, HI. Qed.

Lemma run_inv evs : Inv (run outcome_of evs).
Proof. apply run_from_inv, init_inv. Qed.

(* ---- polling never blocks ---- *)
Lemma poll_never_blocks_proof evs : fst (poll (run outcome_of evs)) <> PBlocked.
Proof. apply poll_inv, run_inv. Qed.

(* ---- arrival order, no loss, no duplicate ---- *)
Lemma arrival_order_proof evs :
  map fst (popped (run outcome_of evs)) ++ map fst (queue (run outcome_of evs)) = seq 0 (next (run outcome_of evs)).
Proof. apply inv_order, run_inv. Qed.

Lemma never_twice_proof evs : NoDup (map fst (popped (run outcome_of evs)) ++ map fst (queue (run outcome_of evs))).
Proof. rewrite arrival_order_proof. apply seq_NoDup. Qed.

Lemma screen_is_spec_proof evs :
  screen (run outcome_of evs) = fold_left spec_step (popped (run outcome_of evs)) [].
Proof. apply inv_screen, run_inv. Qed.

(* ---- completion ---- *)
Definition all_done (q : list (nat * status)) : Prop := Forall (fun e => is_finished (snd e) = true) q.

Lemma poll_loop_suffix q : forall scr pp upd r q' scr' pp',
  poll_loop q scr pp upd = (r, q', scr', pp') -> exists pre, q = pre ++ q'.
Proof.
  induction q as [|[id stt] q IH]; intros scr pp upd r q' scr' pp' H; cbn [poll_loop] in H.
  - inversion H; subst. exists []. reflexivity.
  - destruct stt as [|o]; cbn [is_finished negb join] in H.
    + inversion H; subst. exists []. reflexivity.
    + destruct o as [rc| |].
      * destruct (IH _ _ _ _ _ _ _ H) as [pre ->]. exists ((id, Done (OOk rc)) :: pre). reflexivity.
      * inversion H; subst. exists [(id, Done OErr)]. reflexivity.
      * destruct (IH _ _ _ _ _ _ _ H) as [pre ->]. exists ((id, Done OPanicked) :: pre). reflexivity.
Qed.

Lemma drain_empties fuel : forall s, Inv s -> all_done (queue s) -> (length (queue s) <= fuel)%nat ->
  Inv (drain fuel s) /\ queue (drain fuel s) = [] /\ next (drain fuel s) = next s.
Proof.
  induction fuel as [|f IH]; intros s HI Hd Hl; cbn [drain].
  - destruct (queue s) eqn:E; [auto|cbn in Hl; lia].
  - destruct (poll_inv s HI) as (_ & HI' & Hn).
    unfold poll in *. destruct (poll_loop (queue s) (screen s) (popped s) false) as [[[r q'] scr'] pp'] eqn:E.
    cbn [fst snd] in *.
    destruct (poll_loop_spec _ _ _ _ _ _ _ _ (inv_q s HI) E) as (_ & d & _ & _ & _ & _ & _ & Hle & Hlt).
    destruct (poll_loop_suffix _ _ _ _ _ _ _ _ E) as [pre Hpre].
    set (s' := {| next := next s; queue := q'; screen := scr'; popped := pp' |}) in *.
    destruct (IH s' HI') as (A & B & C).
    + cbn [queue s']. unfold all_done in *. rewrite Hpre in Hd. apply Forall_app in Hd. apply Hd.
    + cbn [queue s']. destruct (queue s) as [|e q] eqn:Eq.
      * cbn in Hle. lia.
      * assert (length q' < length (e :: q))%nat; [|cbn [length] in *; lia].
        apply Hlt; [discriminate|]. inversion Hd; subst. cbn [hd]. assumption.
    + split; [exact A|split; [exact B|rewrite C; reflexivity]].
Qed.

Lemma popped_all ids pp : map fst pp = ids -> Forall consistent_p pp -> pp = map (fun id => (id, outcome_of id)) ids.
Proof.
  revert ids. induction pp as [|[i o] pp IH]; intros ids Hm Hc; subst ids; [reflexivity|].
  inversion Hc as [|? ? H1 H2]; subst. cbn [map fst]. unfold consistent_p in H1. cbn in H1. subst o.
  f_equal. apply IH; [reflexivity|exact H2].
Qed.

(* after every decode has finished, polling (at most |queue| times) delivers everything, and the final
   screen depends on the arrivals only *)
Lemma complete_spec_proof evs :
  let s := run outcome_of evs in
  all_done (queue s) ->
  let s' := drain (length (queue s)) s in
  queue s' = [] /\ popped s' = map (fun id => (id, outcome_of id)) (seq 0 (next s)) /\
  screen s' = spec_screen outcome_of (next s).
Proof.
  intros s Hd s'. destruct (drain_empties (length (queue s)) s (run_inv evs) Hd (le_n _)) as (HI & Hq & Hn).
  fold s' in HI, Hq, Hn. split; [exact Hq|].
  assert (Hp : popped s' = map (fun id => (id, outcome_of id)) (seq 0 (next s))).
  { apply popped_all; [|apply (inv_p s' HI)].
    pose proof (inv_order s' HI) as Ho. rewrite Hq, app_nil_r, Hn in Ho. exact Ho. }
  split; [exact Hp|]. rewrite (inv_screen s' HI), Hp. reflexivity.
Qed.

Lemma schedule_independent_proof evs1 evs2 :
  let s1 := run outcome_of evs1 in let s2 := run outcome_of evs2 in
  next s1 = next s2 -> all_done (queue s1) -> all_done (queue s2) ->
  screen (drain (length (queue s1)) s1) = screen (drain (length (queue s2)) s2).
Proof.
  intros s1 s2 Hn H1 H2.
  destruct (complete_spec_proof evs1 H1) as (_ & _ & E1).
  destruct (complete_spec_proof evs2 H2) as (_ & _ & E2).
  fold s1 in E1. fold s2 in E2. rewrite E1, E2, Hn. reflexivity.
Qed.

(* ---- shadowing ---- *)
Lemma deliver_shadow_proof id r scr e :
  In e (deliver id r scr) -> e = (id, r) \/ (In e scr /\ contains_rect r (snd e) = false).
Proof.
  unfold deliver. intro H. apply in_app_or in H. destruct H as [H|[H|[]]]; [right|left; auto].
  apply filter_In in H. destruct H as [H1 H2]. split; [exact H1|]. apply negb_true_iff. exact H2.
Qed.

(* ---- images on the screen are in arrival order ---- *)
Lemma deliver_ids id r scr : forall i, In i (map fst (deliver id r scr)) -> i = id \/ In i (map fst scr).
Proof.
  intros i H. apply in_map_iff in H. destruct H as (e & <- & He).
  apply deliver_shadow_proof in He. destruct He as [->|[He _]]; [left; reflexivity|right; apply in_map; exact He].
Qed.

Inductive subseq {A} : list A -> list A -> Prop :=
| ss_nil : subseq [] []
| ss_skip x l1 l2 : subseq l1 l2 -> subseq l1 (x :: l2)
| ss_keep x l1 l2 : subseq l1 l2 -> subseq (x :: l1) (x :: l2).

Lemma subseq_refl {A} (l : list A) : subseq l l.
Proof. induction l; [constructor|apply ss_keep; assumption]. Qed.

Lemma subseq_trans {A} (l1 l2 l3 : list A) : subseq l1 l2 -> subseq l2 l3 -> subseq l1 l3.
Proof.
  intros H12 H23. revert l1 H12. induction H23 as [|x l2 l3 H IH|x l2 l3 H IH]; intros l1 H12.
  - exact H12.
  - apply ss_skip. apply IH, H12.
  - inversion H12; subst; [apply ss_skip; apply IH; assumption|apply ss_keep; apply IH; assumption].
Qed.

Lemma subseq_app {A} (a b c d : list A) : subseq a b -> subseq c d -> subseq (a ++ c) (b ++ d).
Proof. induction 1; intros Hcd; cbn [app]; [exact Hcd|apply ss_skip; auto|apply ss_keep; auto]. Qed.

Lemma subseq_map_filter {A B} (g : A -> B) f (l : list A) : subseq (map g (filter f l)) (map g l).
Proof. induction l as [|x l IH]; cbn [filter map]; [constructor|]. destruct (f x); cbn [map]; [apply ss_keep|apply ss_skip]; exact IH. Qed.

Lemma subseq_In {A} (l1 l2 : list A) x : subseq l1 l2 -> In x l1 -> In x l2.
Proof. induction 1; intro Hx; [exact Hx|right; auto|destruct Hx as [->|Hx]; [left; reflexivity|right; auto]]. Qed.

Lemma subseq_sorted {A} (R : A -> A -> Prop) l1 l2 : subseq l1 l2 -> StronglySorted R l2 -> StronglySorted R l1.
Proof.
  induction 1 as [|x l1 l2 H IH|x l1 l2 H IH]; intro Hs; [constructor| |].
  - inversion Hs; subst. auto.
  - inversion Hs as [|? ? Hs' Ha]; subst. constructor; [auto|].
    apply Forall_forall. intros y Hy. rewrite Forall_forall in Ha. apply Ha. eapply subseq_In; eassumption.
Qed.

Lemma spec_subseq pp : forall scr, subseq (map fst (fold_left spec_step pp scr)) (map fst scr ++ map fst pp).
Proof.
  induction pp as [|[id o] pp IH]; intro scr; cbn [fold_left map].
  - rewrite app_nil_r. apply subseq_refl.
  - eapply subseq_trans; [apply IH|]. unfold spec_step at 1. cbn [fst snd].
    replace (map fst scr ++ id :: map fst pp) with ((map fst scr ++ [id]) ++ map fst pp) by (rewrite <- app_assoc; reflexivity).
    apply subseq_app; [|apply subseq_refl].
    destruct o as [r| |].
    + unfold deliver. rewrite map_app. cbn [map fst]. apply subseq_app; [apply subseq_map_filter|apply subseq_refl].
    + replace (map fst scr) with (map fst scr ++ []) at 1 by apply app_nil_r. apply subseq_app; [apply subseq_refl|apply ss_skip; constructor].
    + replace (map fst scr) with (map fst scr ++ []) at 1 by apply app_nil_r. apply subseq_app; [apply subseq_refl|apply ss_skip; constructor].
Qed.

Lemma seq_sorted n : forall a, StronglySorted lt (seq a n).
Proof.
  induction n as [|n IH]; intro a; cbn [seq]; constructor; [apply IH|].
  apply Forall_forall. intros x Hx. apply in_seq in Hx. lia.
Qed.

(* the images on the screen are always in arrival order (a subsequence of 0,1,2,...) *)
Lemma subseq_prefix {A} (l m : list A) : subseq l (l ++ m).
Proof.
  replace l with (l ++ []) at 1 by apply app_nil_r. apply subseq_app; [apply subseq_refl|].
  induction m; [constructor|apply ss_skip; assumption].
Qed.

Lemma screen_in_arrival_order_proof evs : StronglySorted lt (map fst (screen (run outcome_of evs))).
Proof.
  rewrite screen_is_spec_proof.
  eapply subseq_sorted; [apply spec_subseq|]. cbn [map app].
  eapply subseq_sorted; [apply (subseq_prefix _ (map fst (queue (run outcome_of evs))))|].
  rewrite arrival_order_proof. apply seq_sorted.
Qed.

End Q.
