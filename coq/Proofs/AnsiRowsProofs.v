(* C04 layer 2, part 4: all rows.  Row trimming, the row separators / `CSI y H` positioning, screen preparation,
   crop_loaded_file, and the round-trip theorem for the ANSI writer (before the colour optimiser). *)
From Coq Require Import NArith ZArith Bool List Lia.
From IE Require Import Lib.Tbl Lib.C04Lib Gen.Codepage Gen.AnsiConsts Model.Attr Model.AnsiWriter Model.AnsiParser
  Proofs.AnsiPalProofs Proofs.AnsiSgrProofs Proofs.AnsiScreenProofs Proofs.AnsiBytesProofs Proofs.AnsiLayoutProofs.
Import ListNotations.
Local Open Scope N_scope.

(* ---------------------------------------------------------------- trimming *)
Lemma attr_eqb_spec a b : attr_eqb a b = true ->
  foreground_color a = foreground_color b /\ background_color a = background_color b /\ attr a = attr b.
Proof.
  unfold attr_eqb. intro H. apply andb_prop in H as [H H3]. apply andb_prop in H as [H1 H2].
  apply N.eqb_eq in H1, H2, H3. auto.
Qed.

Lemma nth_error_rev_idx {A} (l : list A) i : (i < length l)%nat ->
  nth_error (rev l) (length l - 1 - i) = nth_error l i.
Proof.
  revert i. induction l as [|x r IH]; intros i Hi; [cbn in Hi; lia|].
  cbn [rev length]. destruct i as [|i].
  - rewrite nth_error_app2 by (rewrite rev_length; lia). rewrite rev_length.
    replace (S (length r) - 1 - 0 - length r)%nat with 0%nat by lia. reflexivity.
  - cbn [length] in Hi. rewrite nth_error_app1 by (rewrite rev_length; lia).
    replace (S (length r) - 1 - S i)%nat with (length r - 1 - i)%nat by lia. cbn [nth_error]. apply IH. lia.
Qed.

(* trim_scan on the reversed row: it drops j leading cells (the right end of the row), all blank with the attribute of
   the last cell, and answers the index of the first cell it keeps *)
Lemma trim_scan_spec la : forall rrow, rrow <> [] ->
  exists j, (j < length rrow)%nat /\ trim_scan rrow la = N.of_nat (length rrow - 1 - j) /\
    forall i c, (i < j)%nat -> nth_error rrow i = Some c -> is_blank_char (fst c) = true /\ attr_eqb (snd c) la = true.
Proof.
  induction rrow as [|c r IH]; intro NE; [congruence|].
  destruct r as [|c2 r2].
  - exists 0%nat. cbn. repeat split; try lia.
  - set (r := c2 :: r2) in *.
    change (trim_scan (c :: r) la) with
      (if negb (is_blank_char (fst c)) then N.of_nat (length r)
       else if negb (attr_eqb (snd c) la) then N.of_nat (length r) else trim_scan r la).
    destruct (negb (is_blank_char (fst c))) eqn:B.
    + exists 0%nat. cbn [length]. split; [lia|]. split; [f_equal; lia|]. intros i0 c0 Hi. lia.
    + destruct (negb (attr_eqb (snd c) la)) eqn:A.
      * exists 0%nat. cbn [length]. split; [lia|]. split; [f_equal; lia|]. intros i0 c0 Hi. lia.
      * destruct (IH ltac:(discriminate)) as (j & Hj & E & F).
        exists (S j). cbn [length]. split; [lia|]. split; [rewrite E; f_equal; lia|].
        intros i c0 Hi Hn. destruct i as [|i]; cbn [nth_error] in Hn.
        -- inversion Hn; subst c0. apply negb_false_iff in B, A. auto.
        -- apply (F i c0); [lia|exact Hn].
Qed.

Lemma row_len_spec o W row : 0 < W -> length row = N.to_nat W ->
  let len := row_len o W row in
  1 <= len /\ len <= W /\ (o_compress o = true -> len = W \/ len + 1 < W) /\
  (forall k s, (N.to_nat len <= k)%nat -> nth_error row k = Some s ->
     is_blank_char (fst s) = true /\ background_color (snd s) = 0 /\ is_blinking (snd s) = false).
Proof.
  intros W0 LR. unfold row_len.
  destruct (o_compress o && negb (o_preserve o)) eqn:CP.
  2:{ cbn zeta. split; [lia|]. split; [lia|]. split; [auto|]. intros k s Hk Hn.
      assert (k < length row)%nat by (apply nth_error_Some; congruence). lia. }
  assert (NE : rev row <> []).
  { intro E. assert (L : length (rev row) = 0%nat) by (rewrite E; reflexivity). rewrite rev_length in L. lia. }
  destruct (rev row) as [|c rr] eqn:ER; [congruence|]. cbn zeta.
  set (la := snd c).
  destruct ((background_color la =? 0) && negb (is_blinking la)) eqn:C0.
  2:{ (* no trimming: last = W - 1 *)
      assert (E : (W - 1 <=? W - 1 + 1) = true) by (apply N.leb_le; lia). rewrite E.
      split; [lia|]. split; [lia|]. split; [auto|]. intros k s Hk Hn.
      assert (k < length row)%nat by (apply nth_error_Some; congruence). lia. }
  apply andb_prop in C0 as [BG0 BL0]. apply N.eqb_eq in BG0. apply negb_true_iff in BL0.
  destruct (trim_scan_spec la (c :: rr) ltac:(discriminate)) as (j & Hj & E & F).
  assert (LRR : length (c :: rr) = N.to_nat W) by (rewrite <- ER, rev_length; exact LR).
  rewrite E, LRR.
  set (last := N.of_nat (N.to_nat W - 1 - j)).
  assert (FACT : forall k s, (N.to_nat last < k)%nat -> nth_error row k = Some s ->
            is_blank_char (fst s) = true /\ background_color (snd s) = 0 /\ is_blinking (snd s) = false).
  { intros k s Hk Hn.
    assert (Kl : (k < length row)%nat) by (apply nth_error_Some; congruence).
    assert (Hr : nth_error (c :: rr) (length row - 1 - k) = Some s).
    { rewrite <- ER, nth_error_rev_idx by exact Kl. exact Hn. }
    destruct (F (length row - 1 - k)%nat s) as [B A]; [unfold last in Hk; lia|exact Hr|].
    apply attr_eqb_spec in A as (_ & A2 & A3). split; [exact B|]. split; [congruence|].
    unfold is_blinking. rewrite A3. exact BL0. }
  destruct (W - 1 <=? last + 1) eqn:CW.
  - split; [lia|]. split; [lia|]. split; [auto|]. intros k s Hk Hn.
    assert (k < length row)%nat by (apply nth_error_Some; congruence). lia.
  - apply N.leb_gt in CW. split; [lia|]. split; [lia|]. split; [intros _; right; lia|].
    intros k s Hk Hn. apply (FACT k s); [lia|exact Hn].
Qed.

(* ---------------------------------------------------------------- rows *)
Section Rows.
  Variables (o : SaveOptions) (ice : IceMode) (bpal : palette) (W H : N).
  Hypothesis PO : pal_ok bpal.
  Hypothesis PU : pal_u8 bpal.
  Hypothesis W0 : 0 < W.
  Hypothesis WB : W < 1073741824.
  Hypothesis H0 : 0 < H.
  Hypothesis HB : H < 1073741824.

  Notation cice := (cice_of ice).
  Notation PInv := (PInv ice W).
  Notation CellOK := (CellOK bpal).

  Definition row_ok (row : list cell) : Prop := length row = N.to_nat W /\ Forall (cell_dom o ice) row.

  (* the screen before row number `length done` is written *)
  Record RowsInv (done : list (list cell)) (st : AnsiState) (p : pst) : Prop := mkRowsInv {
    ri_inv : PInv st p;
    ri_done : forall y' row k s, nth_error done y' = Some row -> nth_error row k = Some s ->
              CellOK (p_pal p) (raw_cell (p_lines p) k y') s;
    ri_unset : forall y' k, (length done <= y')%nat -> raw_cell (p_lines p) k y' = invisible_cell;
    ri_tail : tail_ok (p_lines p) (length done);
    ri_vis : forall y', (y' < length done)%nat -> exists k, cell_visible (raw_cell (p_lines p) k y') = true }.

  Definition header (first : bool) (yn : nat) : list cmd :=
    if o_longer o then (if first then [CSgr [0]] else []) ++ [CGoto (N.of_nat yn + 1)] else [].

  Lemma PInv_fields st p q : PInv st p ->
    p_unmodelled q = p_unmodelled p -> p_mode q = PDefault -> p_w q = p_w p -> p_cice q = p_cice p ->
    p_attr q = p_attr p -> p_pal q = p_pal p -> PInv st q.
  Proof.
    intros [[D0 D1] D2 D3 D4 D5] E1 E2 E3 E4 E5 E6.
    constructor; [split; congruence|congruence|congruence|rewrite E5, E6; exact D4|rewrite E5; exact D5].
  Qed.

  Lemma header_sim first yn st p : PInv st p -> (N.of_nat yn < H) ->
    (o_longer o = false -> p_x p = 0%Z /\ p_y p = Z.of_nat yn) ->
    (first = true -> st = init_state) ->
    let q := exec_all (header first yn) p in
    Forall cmd_valid (header first yn) /\ PInv st q /\ p_x q = 0%Z /\ p_y q = Z.of_nat yn /\
    p_lines q = p_lines p /\ p_pal q = p_pal p /\ p_bice q = p_bice p.
  Proof.
    intros PI HY POS FS. unfold header. destruct (o_longer o) eqn:OL.
    2:{ destruct (POS eq_refl) as [A B]. cbn. split; [constructor|]. split; [exact PI|]. repeat split; assumption. }
    cbn zeta. rewrite exec_all_app.
    set (p0 := exec_all (if first then [CSgr [0]] else []) p).
    assert (P0 : Forall cmd_valid (if first then [CSgr [0]] else []) /\ PInv st p0 /\ p_lines p0 = p_lines p /\ p_pal p0 = p_pal p /\ p_bice p0 = p_bice p).
    { unfold p0. destruct first.
      - cbn [exec_all fold_left]. split; [constructor; [|constructor]; split; [discriminate|repeat constructor; unfold nbound; lia]|].
        split; [|repeat split].
        rewrite (FS eq_refl). destruct PI as [[D0 D1] D2 D3 D4 D5].
        constructor; [split; [exact D0|reflexivity]|exact D2|exact D3| |].
        + cbn [exec p_attr p_pal upd_attr_pal upd_mode_nums select_graphic_rendition zl map sgr_loop fst snd].
          change (Z.of_N 0) with 0%Z. change ((0 =? 38)%Z || (0 =? 48)%Z) with false. cbv iota.
          change (sgr_plain 0 (p_attr p)) with (Some (reset_color_attribute (p_attr p))). cbn [fst snd].
          rewrite abs_reset. apply rel_init. exact (r_pal _ _ _ _ D4).
        + reflexivity.
      - cbn. split; [constructor|]. split; [exact PI|repeat split]. }
    destruct P0 as (V0 & PI0 & L0 & A0 & B0).
    cbn [exec_all fold_left exec].
    split; [apply Forall_app; split; [exact V0|constructor; [cbn [cmd_valid]; unfold nbound; lia|constructor]]|].
    split; [eapply PInv_fields; [exact PI0| | | | | |]; try reflexivity; exact (proj1 (pi_def _ _ _ _ PI0))|].
    cbn [p_x p_y p_lines p_pal p_bice upd_pos upd_mode_nums].
    split; [unfold limit_x; rewrite (pi_w _ _ _ _ PI0); lia|]. split; [lia|]. repeat split; assumption.
  Qed.

  Definition separator (len : N) (yn : nat) : list cmd :=
    if o_longer o then []
    else if (len <? W) && (N.of_nat yn + 1 <? H)
         then (if o_compress o && (W <=? len + 1) then [CSpace] else [CCrLf])
         else [].

  Lemma firstn_nth {A} (l : list A) n k : (k < n)%nat -> nth_error (firstn n l) k = nth_error l k.
  Proof.
    revert l k. induction n as [|n IH]; intros l k Hk; [lia|].
    destruct l as [|x r]; [reflexivity|]. destruct k as [|k]; [reflexivity|]. cbn [firstn nth_error]. apply IH. lia.
  Qed.

  Lemma one_row done st p row first :
    RowsInv done st p -> row_ok row -> N.of_nat (length done) < H ->
    (o_longer o = false -> p_x p = 0%Z /\ p_y p = Z.of_nat (length done)) ->
    (first = true -> st = init_state) ->
    let yn := length done in
    let len := row_len o W row in
    let g := gen ice bpal (o_ext o) st (firstn (N.to_nat len) row) in
    let cs := snd g in
    let cmds := header first yn ++ emit_row (length cs) o (len_N cs) 0 cs ++ separator (len_N cs) yn in
    Forall cmd_valid cmds /\
    RowsInv (done ++ [row]) (fst g) (exec_all cmds p) /\
    (o_longer o = false -> N.of_nat yn + 1 < H -> p_x (exec_all cmds p) = 0%Z /\ p_y (exec_all cmds p) = Z.of_nat (yn + 1)) /\
    p_bice (exec_all cmds p) = p_bice p.
  Proof.
    intros RI [LR FD] HY POS FS. cbn zeta.
    set (yn := length done). set (len := row_len o W row).
    destruct (row_len_spec o W row W0 LR) as (L1 & L2 & L3 & L4). cbn zeta in L1, L2, L3, L4. fold len in L1, L2, L3, L4.
    set (row' := firstn (N.to_nat len) row).
    assert (LR' : length row' = N.to_nat len) by (unfold row'; rewrite firstn_length; lia).
    set (g := gen ice bpal (o_ext o) st row'). set (cs := snd g).
    assert (LCS : length cs = N.to_nat len) by (unfold cs, g; rewrite gen_length; exact LR').
    assert (LNC : len_N cs = len) by (unfold len_N; rewrite LCS; lia).
    rewrite LNC.
    destruct RI as [RI1 RI2 RI3 RI4 RI5].
    (* header *)
    destruct (header_sim first yn st p RI1 HY POS FS) as (VH & PIh & XH & YH & LH & AH & BH). cbn zeta in *.
    set (ph := exec_all (header first yn) p) in *.
    (* the row *)
    assert (FD' : Forall (cell_dom o ice) row').
    { rewrite Forall_forall in FD |- *. intros s Hs. apply FD. unfold row' in Hs. rewrite <- (firstn_skipn (N.to_nat len) row). apply in_or_app. left. exact Hs. }
    assert (UNh : forall k, (0 <= k)%nat -> raw_cell (p_lines ph) k yn = invisible_cell) by (intros; rewrite LH; apply RI3; unfold yn; lia).
    assert (LWr : N.of_nat (0 + length row') <= W) by (rewrite LR'; lia).
    destruct (row_sim o ice bpal W PO PU W0 WB yn (length cs) row' 0%nat st ph ltac:(rewrite LCS, LR'; lia) PIh XH YH LWr FD' UNh) as (VR & RP).
    cbn zeta in VR, RP. fold g in VR, RP. fold cs in VR, RP.
    replace (N.of_nat (0 + length row')) with len in VR, RP by (rewrite LR'; lia). change (N.of_nat 0) with 0 in VR, RP.
    set (pr := exec_all (emit_row (length cs) o len 0 cs) ph) in *.
    destruct RP as (PIr & STr & PSr & _).
    assert (NE' : row' <> []) by (intro E; rewrite E in LR'; cbn in LR'; lia).
    destruct (PSr NE') as [POSr VISr]. rewrite Nat.add_0_l, LR', N2Nat.id in POSr. rewrite Nat.add_0_l, LR' in VISr.
    destruct STr as (_ & _ & CELLr & FRr & EXr & TLr & BIr). rewrite Nat.add_0_l, LR' in FRr.
    (* the separator *)
    rewrite !exec_all_app. fold ph. fold pr.
    assert (SEP : let q := exec_all (separator len yn) pr in
              Forall cmd_valid (separator len yn) /\ PInv (fst g) q /\
              (forall k y', raw_cell (p_lines q) k y' = raw_cell (p_lines pr) k y') /\
              p_pal q = p_pal pr /\ p_bice q = p_bice pr /\
              (tail_ok (p_lines pr) (S yn) -> tail_ok (p_lines q) (S yn)) /\
              (o_longer o = false -> N.of_nat yn + 1 < H -> p_x q = 0%Z /\ p_y q = Z.of_nat (yn + 1))).
    { cbn zeta. unfold separator. destruct (o_longer o) eqn:OL.
      { cbn. split; [constructor|]. split; [exact PIr|]. repeat split; auto; discriminate. }
      destruct ((len <? W) && (N.of_nat yn + 1 <? H)) eqn:C.
      - apply andb_prop in C as [C1 C2]. apply N.ltb_lt in C1, C2.
        assert (NS : o_compress o && (W <=? len + 1) = false).
        { destruct (o_compress o) eqn:OC; [|reflexivity]. cbn [andb]. apply N.leb_gt. destruct (L3 eq_refl); lia. }
        rewrite NS. cbn [exec_all fold_left exec].
        assert (C1' : len <? W = true) by (apply N.ltb_lt; exact C1). rewrite C1' in POSr. destruct POSr as [XR YR].
        set (q0 := upd_pos pr 0 (p_y pr)).
        assert (Hy0 : (0 <= p_y q0)%Z) by (cbn [q0 p_y upd_pos]; lia).
        destruct (caret_lf_spec q0 Hy0) as (RC & LX & LY & _ & _ & LM). cbn zeta in *.
        split; [constructor; [exact I|constructor]|].
        split; [eapply PInv_misc; [|exact LM]; eapply PInv_fields; [exact PIr| | | | | |]; try reflexivity; exact (proj2 (pi_def _ _ _ _ PIr))|].
        split; [intros; rewrite RC; reflexivity|].
        destruct LM as (_ & _ & _ & _ & _ & M6 & M7 & _).
        split; [exact M6|]. split; [exact M7|]. split; [intro T; apply caret_lf_tail; exact T|].
        intros _ _. split; [exact LX|]. rewrite LY. cbn [q0 p_y upd_pos]. lia.
      - cbn [exec_all fold_left]. split; [constructor|]. split; [exact PIr|].
        split; [reflexivity|]. split; [reflexivity|]. split; [reflexivity|]. split; [auto|].
        intros _ HL. apply andb_false_iff in C as [C|C].
        + apply N.ltb_ge in C. assert (E : len <? W = false) by (apply N.ltb_ge; lia). rewrite E in POSr.
          destruct POSr as [A B]. split; [exact A|lia].
        + apply N.ltb_ge in C. lia. }
    cbn zeta in SEP. destruct SEP as (VS & PIq & RCq & PAq & BIq & TLq & POSq).
    set (q := exec_all (separator len yn) pr) in *.
    split; [apply Forall_app; split; [exact VH|apply Forall_app; split; [exact VR|exact VS]]|].
    split; [|split; [exact POSq|congruence]].
    (* the new invariant *)
    assert (EXq : pal_extends (p_pal p) (p_pal q)) by (rewrite PAq, <- AH; exact EXr).
    constructor.
    - exact PIq.
    - intros y' rw k s Hy' Hk.
      destruct (Nat.lt_ge_cases y' (length done)) as [Ly|Gy].
      + rewrite nth_error_app1 in Hy' by exact Ly. rewrite RCq, FRr by (fold yn in Ly; lia). rewrite LH.
        eapply CellOK_extends; [exact EXq|]. exact (RI2 y' rw k s Hy' Hk).
      + rewrite nth_error_app2 in Hy' by exact Gy.
        assert (y' = yn) by (destruct (y' - length done)%nat as [|d] eqn:E; [unfold yn; lia|destruct d; discriminate]). subst y'.
        replace (yn - length done)%nat with 0%nat in Hy' by (unfold yn; lia). cbn [nth_error] in Hy'. inversion Hy'; subst rw.
        rewrite RCq.
        destruct (Nat.lt_ge_cases k (N.to_nat len)) as [Lk|Gk].
        * rewrite PAq. replace k with (0 + k)%nat by lia. apply CELLr. unfold row'. rewrite firstn_nth by exact Lk. exact Hk.
        * rewrite FRr by lia. rewrite LH, RI3 by (unfold yn; lia). right.
          destruct (L4 k s Gk Hk) as (B1 & B2 & B3).
          split; [reflexivity|]. split; [exact B1|]. split; [rewrite B2; exact (proj1 PO)|exact B3].
    - intros y' k Hy'. rewrite app_length in Hy'. cbn [length] in Hy'.
      rewrite RCq, FRr by (fold yn in Hy'; lia). rewrite LH. apply RI3. lia.
    - rewrite app_length. cbn [length]. replace (length done + 1)%nat with (S yn) by (unfold yn; lia).
      apply TLq, TLr. rewrite LH. eapply tail_ok_weaken; [|exact RI4]. unfold yn. lia.
    - intros y' Hy'. rewrite app_length in Hy'. cbn [length] in Hy'.
      destruct (Nat.lt_ge_cases y' (length done)) as [Ly|Gy].
      + destruct (RI5 y' Ly) as [k Vk]. exists k. rewrite RCq, FRr by (fold yn in Ly; lia). rewrite LH. exact Vk.
      + assert (y' = yn) by (unfold yn; lia). subst y'. exists (N.to_nat len - 1)%nat. rewrite RCq. exact VISr.
  Qed.

  (* ---------------------------------------------------------------- all rows *)
  Lemma emit_rows_cons y first cs rest :
    emit_rows o W H (N.of_nat y) first (cs :: rest) =
    (header first y ++ emit_row (length cs) o (len_N cs) 0 cs ++ separator (len_N cs) y) ++
    emit_rows o W H (N.of_nat (S y)) false rest.
  Proof.
    cbn [emit_rows]. cbn zeta. unfold header, separator.
    replace (N.of_nat y + 1) with (N.of_nat (S y)) by lia.
    rewrite <- !app_assoc. reflexivity.
  Qed.

  Lemma all_rows : forall rows done st p first,
    RowsInv done st p -> Forall row_ok rows -> N.of_nat (length done + length rows) = H ->
    (o_longer o = false -> p_x p = 0%Z /\ p_y p = Z.of_nat (length done)) ->
    (first = true -> st = init_state) ->
    let cmds := emit_rows o W H (N.of_nat (length done)) first (generate_cells_from o ice bpal W st rows) in
    Forall cmd_valid cmds /\
    exists st', RowsInv (done ++ rows) st' (exec_all cmds p) /\ p_bice (exec_all cmds p) = p_bice p.
  Proof.
    induction rows as [|row rows IH]; intros done st p first RI FR LH POS FS.
    - cbn. split; [constructor|]. exists st. rewrite app_nil_r. split; [exact RI|reflexivity].
    - pose proof (Forall_inv FR) as RO. pose proof (Forall_inv_tail FR) as FR'. cbn [length] in LH.
      cbn [generate_cells_from]. cbn zeta.
      pose proof (one_row done st p row first RI RO ltac:(lia) POS FS) as OR. cbn zeta in OR.
      set (len := row_len o W row) in *.
      change (generate_row_cells ice bpal (o_ext o) st (firstn (N.to_nat len) row)) with (gen ice bpal (o_ext o) st (firstn (N.to_nat len) row)).
      set (g := gen ice bpal (o_ext o) st (firstn (N.to_nat len) row)) in *.
      destruct g as [st1 cs] eqn:EG. cbn [fst snd] in OR.
      rewrite emit_rows_cons.
      destruct OR as (V1 & RI1 & POS1 & B1).
      set (c1 := header first (length done) ++ emit_row (length cs) o (len_N cs) 0 cs ++ separator (len_N cs) (length done)) in *.
      set (p1 := exec_all c1 p) in *.
      assert (LD : length (done ++ [row]) = S (length done)) by (rewrite app_length; cbn; lia).
      destruct rows as [|row2 rows2].
      + cbn [generate_cells_from emit_rows]. rewrite app_nil_r.
        split; [exact V1|]. exists st1. split; [exact RI1|exact B1].
      + assert (POS1' : o_longer o = false -> p_x p1 = 0%Z /\ p_y p1 = Z.of_nat (length (done ++ [row]))).
        { intro OL. rewrite LD. replace (S (length done)) with (length done + 1)%nat by lia. apply POS1; [exact OL|]. cbn [length] in LH. lia. }
        destruct (IH (done ++ [row]) st1 p1 false RI1 FR' ltac:(rewrite LD; lia) POS1' ltac:(discriminate)) as (V2 & st' & RI2 & B2).
        cbn zeta in V2, RI2, B2. rewrite LD in V2, RI2, B2.
        split; [apply Forall_app; split; assumption|].
        exists st'. rewrite exec_all_app. fold p1. rewrite <- app_assoc in RI2. cbn [app] in RI2.
        split; [exact RI2|congruence].
  Qed.

  (* ---------------------------------------------------------------- crop_loaded_file *)
  Lemma crop_rev_spec : forall (E K : list (list cell)), Forall (fun r => r = []) E -> K <> [] -> hd [] K <> [] ->
    crop_rev (E ++ K) = K.
  Proof.
    induction E as [|e E IH]; intros K FE NK HK.
    - cbn [app]. destruct K as [|x [|y r]]; [congruence|reflexivity|].
      cbn [crop_rev]. cbn [hd] in HK. destruct x; [congruence|reflexivity].
    - inversion FE as [|? ? Ee FE']; subst. cbn [app].
      destruct (E ++ K) as [|z zs] eqn:EZ.
      + apply app_eq_nil in EZ as [_ EZ]. congruence.
      + change (crop_rev ([] :: z :: zs)) with (crop_rev (z :: zs)). rewrite <- EZ. apply IH; assumption.
  Qed.

  Lemma nth_error_skipn' {A} (l : list A) : forall n i, nth_error (skipn n l) i = nth_error l (n + i).
  Proof.
    induction l as [|x r IH]; intros n i.
    - destruct n; destruct i; reflexivity.
    - destruct n; [reflexivity|]. cbn [skipn Nat.add nth_error]. apply IH.
  Qed.
  Lemma firstn_snoc {A} (l : list A) : forall n r, nth_error l n = Some r -> firstn (S n) l = firstn n l ++ [r].
  Proof.
    induction l as [|x t IH]; intros n r E; [destruct n; discriminate|].
    destruct n as [|n]; cbn [nth_error] in E.
    - inversion E. reflexivity.
    - cbn [firstn app]. f_equal. apply IH, E.
  Qed.

  Lemma crop_lines_spec lines n : (0 < n)%nat -> tail_ok lines n ->
    (exists r, nth_error lines (n - 1) = Some r /\ r <> []) -> crop_lines lines = firstn n lines.
  Proof.
    intros N0 T (r & Er & NEr). unfold crop_lines.
    rewrite <- (firstn_skipn n lines) at 1. rewrite rev_app_distr.
    assert (LN : (n <= length lines)%nat) by (assert (n - 1 < length lines)%nat by (apply nth_error_Some; congruence); lia).
    rewrite crop_rev_spec; [apply rev_involutive| | |].
    - apply Forall_rev. apply Forall_forall. intros x Hx. apply In_nth_error in Hx as [i Hi].
      rewrite nth_error_skipn' in Hi. exact (T (n + i)%nat x ltac:(lia) Hi).
    - intro E. assert (L : length (rev (firstn n lines)) = 0%nat) by (rewrite E; reflexivity).
      rewrite rev_length, firstn_length in L. lia.
    - (* the head of the reversed kept part is row n-1 *)
      assert (EL : firstn n lines = firstn (n - 1) lines ++ [r]).
      { replace n with (S (n - 1)) at 1 by lia. apply firstn_snoc, Er. }
      rewrite EL, rev_app_distr. cbn [rev app hd]. exact NEr.
  Qed.

  (* ---------------------------------------------------------------- screen preparation and the whole file *)
  Lemma prun_ice_on p : pdefault p -> prun p ESC_ICE_ON = upd_ice (upd_mode_nums p PDefault [33%Z]) true true.
  Proof. intros [U M]. destruct p. cbn in U, M. subst. reflexivity. Qed.
  Lemma prun_ice_off p : pdefault p -> prun p ESC_ICE_OFF = upd_ice (upd_mode_nums p PDefault [33%Z]) false (p_bice p).
  Proof. intros [U M]. destruct p. cbn in U, M. subst. reflexivity. Qed.
  Lemma prun_clear p : pdefault p ->
    prun p ESC_CLEAR_SCREEN = upd_pos (upd_lines (upd_mode_nums p PDefault [2%Z]) [] (p_h p)) 0 0.
  Proof. intros [U M]. destruct p. cbn in U, M. subst. reflexivity. Qed.
  Lemma prun_home p : pdefault p ->
    prun p ESC_HOME = upd_pos (upd_mode_nums p PDefault [1%Z; 1%Z]) (limit_x (p_w p) 0) 0.
  Proof. intros [U M]. destruct p. cbn in U, M. subst. reflexivity. Qed.

  Variable rows : list (list cell).
  Hypothesis ROWS : Forall row_ok rows.
  Hypothesis LROWS : N.of_nat (length rows) = H.
  Hypothesis WS : if o_sauce o then W <= 1000 else W = 80.

  Definition sauce_of : option (N * N * bool) :=
    if o_sauce o then Some (W, H, match ice with Ice => true | _ => false end) else None.

  Lemma init_width : p_w (init_parser sauce_of) = Z.of_N W.
  Proof.
    unfold sauce_of, init_parser. destruct (o_sauce o).
    - assert (E : (W =? 0) || (1000 <? W) = false).
      { apply orb_false_iff. split; [apply N.eqb_neq; lia|apply N.ltb_ge; exact WS]. }
      rewrite E. reflexivity.
    - rewrite WS. reflexivity.
  Qed.

  Lemma prep_sim :
    let p' := exec_all (screen_prep o ice) (init_parser sauce_of) in
    Forall cmd_valid (screen_prep o ice) /\ RowsInv [] init_state p' /\ p_x p' = 0%Z /\ p_y p' = 0%Z /\
    p_bice p' = cice.
  Proof.
    cbn zeta. pose proof init_width as IW.
    set (p0 := init_parser sauce_of) in *.
    assert (F0 : pdefault p0 /\ p_lines p0 = [] /\ p_x p0 = 0%Z /\ p_y p0 = 0%Z /\ p_attr p0 = default_attribute /\
                 p_pal p0 = DOS_DEFAULT_PALETTE /\ p_cice p0 = p_bice p0 /\ (p_bice p0 = true -> ice = Ice) /\
                 (o_sauce o = true -> p_bice p0 = cice)).
    { unfold p0, sauce_of, init_parser. destruct (o_sauce o); cbn.
      - destruct ((W =? 0) || (1000 <? W)); cbn; repeat split; destruct ice; try reflexivity; try discriminate.
      - repeat split; discriminate. }
    destruct F0 as (PD0 & L0 & X0 & Y0 & A0 & P0 & C0 & B0 & S0).
    (* after the optional ?33h *)
    set (c1 := match ice with Ice => [CRaw ESC_ICE_ON] | _ => [] end).
    set (p1 := exec_all c1 p0).
    assert (F1 : Forall cmd_valid c1 /\ pdefault p1 /\ p_lines p1 = [] /\ p_x p1 = 0%Z /\ p_y p1 = 0%Z /\
                 p_attr p1 = default_attribute /\ p_pal p1 = DOS_DEFAULT_PALETTE /\ p_cice p1 = cice /\ p_bice p1 = cice /\
                 p_w p1 = Z.of_N W).
    { unfold p1, c1. destruct ice eqn:EI; cbn [exec_all fold_left exec cice_of].
      - split; [constructor|]. repeat split; try assumption; try (apply PD0).
        + rewrite C0. destruct (p_bice p0) eqn:E; [specialize (B0 eq_refl); discriminate|reflexivity].
        + destruct (p_bice p0) eqn:E; [specialize (B0 eq_refl); discriminate|reflexivity].
      - split; [constructor|]. repeat split; try assumption; try (apply PD0).
        + rewrite C0. destruct (p_bice p0) eqn:E; [specialize (B0 eq_refl); discriminate|reflexivity].
        + destruct (p_bice p0) eqn:E; [specialize (B0 eq_refl); discriminate|reflexivity].
      - rewrite (prun_ice_on p0 PD0). split; [constructor; [left; reflexivity|constructor]|].
        destruct PD0 as [U M]. repeat split; assumption. }
    destruct F1 as (V1 & PD1 & L1 & X1 & Y1 & A1 & P1 & C1 & B1 & W1).
    unfold screen_prep. rewrite exec_all_app. fold c1. fold p1.
    set (c2 := match o_prep o with PrepNone => [] | PrepClear => [CRaw ESC_CLEAR_SCREEN] | PrepHome => [CRaw ESC_HOME] end).
    set (p2 := exec_all c2 p1).
    assert (F2 : Forall cmd_valid c2 /\ pdefault p2 /\ p_lines p2 = [] /\ p_x p2 = 0%Z /\ p_y p2 = 0%Z /\
                 p_attr p2 = default_attribute /\ p_pal p2 = DOS_DEFAULT_PALETTE /\ p_cice p2 = cice /\ p_bice p2 = cice /\
                 p_w p2 = Z.of_N W).
    { unfold p2, c2. destruct (o_prep o); cbn [exec_all fold_left exec].
      - split; [constructor|]. repeat split; try assumption; apply PD1.
      - rewrite (prun_clear p1 PD1). split; [constructor; [right; right; left; reflexivity|constructor]|].
        destruct PD1 as [U M]. repeat split; assumption.
      - rewrite (prun_home p1 PD1). split; [constructor; [right; right; right; reflexivity|constructor]|].
        destruct PD1 as [U M]. repeat split; try assumption.
        cbn [p_x upd_pos]. unfold limit_x. rewrite W1. lia. }
    destruct F2 as (V2 & PD2 & L2 & X2 & Y2 & A2 & P2 & C2 & B2 & W2).
    split; [apply Forall_app; split; assumption|].
    split; [|repeat split; assumption].
    constructor.
    - constructor; [exact PD2|exact W2|exact C2| |].
      + rewrite A2, P2, abs_default. apply rel_init, palinv_dos_default.
      + rewrite A2. reflexivity.
    - intros y' row k s E. destruct y'; discriminate.
    - intros y' k _. rewrite L2. unfold raw_cell. destruct y'; reflexivity.
    - rewrite L2. apply tail_ok_nil.
    - intros y' Hy. cbn in Hy. lia.
  Qed.

  (* what the source buffer shows in a cell against what the reloaded buffer shows there:
     same character (or two blank glyphs), same foreground unless the glyph is blank, same background, same blink *)
  Definition cell_match (s : cell) (obs : N * rgb * rgb * bool) : Prop :=
    let '(ch, fg, bg, bl) := obs in
    (ch = fst s \/ (is_blank_char (fst s) = true /\ is_blank_char ch = true)) /\
    (fg = pal_rgb bpal (shown_fg (snd s)) \/ is_blank_char (fst s) = true) /\
    bg = pal_rgb bpal (background_color (snd s)) /\ bl = is_blinking (snd s).

  Lemma shown_fg_fold_bold a : shown_fg (fold_bold a) = shown_fg a /\ background_color (fold_bold a) = background_color a /\
    is_blinking (fold_bold a) = is_blinking a.
  Proof.
    unfold fold_bold. destruct (is_bold a) eqn:B; [|repeat split].
    assert (G : forall x, is_bold (set_is_bold x false) = false /\ is_blinking (set_is_bold x false) = is_blinking x).
    { intro x. pose proof (abs_set_flag x 0 false eq_refl) as E. cbn zeta in E.
      split.
      - change (is_bold (set_is_bold x false)) with (pa_bold (abs (set_is_bold x false))).
        change (set_is_bold x false) with (with_attr x (set_flag (attr x) (2 ^ 0) false)). rewrite E. reflexivity.
      - change (is_blinking (set_is_bold x false)) with (pa_blink (abs (set_is_bold x false))).
        change (set_is_bold x false) with (with_attr x (set_flag (attr x) (2 ^ 0) false)). rewrite E. reflexivity. }
    destruct (foreground_color a <? 8) eqn:F.
    - destruct (G (set_fg a (foreground_color a + 8))) as [G1 G2].
      unfold shown_fg, shown_fg_core. rewrite G1, B, F. cbn [andb].
      split; [reflexivity|]. split; [reflexivity|]. rewrite G2. reflexivity.
    - destruct (G a) as [G1 G2]. unfold shown_fg, shown_fg_core. rewrite G1, B, F. cbn [andb].
      split; [reflexivity|]. split; [reflexivity|exact G2].
  Qed.

  Theorem layout_roundtrip :
    let bytes := ansi_to_bytes o ice bpal W H rows in
    starts_with_bom bytes = false ->
    let b := load bytes sauce_of in
    ld_unmodelled b = false /\ ld_width b = Z.of_N W /\ ld_height b = Z.of_N H /\ ld_ice b = cice /\
    forall x y row s, nth_error rows y = Some row -> nth_error row x = Some s ->
      cell_match s (shown_cell (ld_pal b) (loaded_cell b (Z.of_nat x) (Z.of_nat y))).
  Proof.
    cbn zeta. intro BOM.
    destruct prep_sim as (VP & RI0 & X0 & Y0 & B0). cbn zeta in *.
    set (pinit := init_parser sauce_of) in *.
    set (p0 := exec_all (screen_prep o ice) pinit) in *.
    destruct (all_rows rows [] init_state p0 true RI0 ROWS ltac:(cbn [length]; lia) ltac:(intros _; split; [exact X0|exact Y0]) ltac:(reflexivity))
      as (VR & st' & RI1 & B1). cbn zeta in VR, RI1, B1. cbn [app length] in VR, RI1, B1.
    change (N.of_nat 0) with 0 in VR, RI1, B1.
    fold (generate_cells o ice bpal W rows) in VR, RI1, B1.
    set (p1 := exec_all (emit_rows o W H 0 true (generate_cells o ice bpal W rows)) p0) in *.
    (* screen_end *)
    set (p2 := exec_all (screen_end ice) p1).
    assert (F2 : Forall cmd_valid (screen_end ice) /\ p_lines p2 = p_lines p1 /\ p_pal p2 = p_pal p1 /\ p_w p2 = p_w p1 /\
                 p_bice p2 = p_bice p1 /\ pdefault p2).
    { unfold p2, screen_end. pose proof (pi_def _ _ _ _ (ri_inv _ _ _ RI1)) as PD1. destruct ice; cbn [exec_all fold_left exec].
      - split; [constructor|]. repeat split; apply PD1.
      - split; [constructor|]. repeat split; apply PD1.
      - rewrite (prun_ice_off p1 PD1). split; [constructor; [right; left; reflexivity|constructor]|].
        destruct PD1 as [U M]. repeat split; assumption. }
    destruct F2 as (VE & L2 & A2 & W2 & B2 & PD2).
    (* the bytes *)
    assert (VALL : Forall cmd_valid (ansi_cmds o ice bpal W H rows)).
    { unfold ansi_cmds. apply Forall_app. split; [exact VP|]. apply Forall_app. split; [exact VR|exact VE]. }
    assert (PDI : pdefault pinit).
    { unfold pinit, sauce_of, init_parser. destruct (o_sauce o); [destruct ((W =? 0) || (1000 <? W))|]; split; reflexivity. }
    destruct (exec_all_valid _ VALL pinit PDI) as [EB _].
    assert (EP : prun pinit (ansi_to_bytes o ice bpal W H rows) = p2).
    { unfold ansi_to_bytes. rewrite EB. unfold ansi_cmds. rewrite !exec_all_app. reflexivity. }
    unfold load. fold pinit. rewrite EP.
    destruct RI1 as [PI1 DONE1 UNSET1 TAIL1 VIS1].
    assert (HN : (0 < length rows)%nat) by lia.
    assert (CROP : crop_lines (p_lines p2) = firstn (length rows) (p_lines p2)).
    { apply crop_lines_spec; [exact HN|rewrite L2; exact TAIL1|].
      destruct (VIS1 (length rows - 1)%nat ltac:(lia)) as [k Vk]. rewrite L2. apply raw_cell_visible_row in Vk. exact Vk. }
    assert (LEN2 : (length rows <= length (p_lines p2))%nat).
    { destruct (VIS1 (length rows - 1)%nat ltac:(lia)) as [k Vk]. apply raw_cell_visible_row in Vk as (r & Er & _).
      rewrite L2. assert (length rows - 1 < length (p_lines p1))%nat by (apply nth_error_Some; congruence). lia. }
    rewrite CROP. cbn [ld_unmodelled ld_width ld_height ld_ice ld_pal ld_lines].
    rewrite firstn_length, Nat.min_l by exact LEN2.
    split; [destruct PD2 as [U _]; rewrite U, BOM; reflexivity|].
    split; [rewrite W2; exact (pi_w _ _ _ _ PI1)|]. split; [lia|]. split; [rewrite B2, B1; exact B0|].
    intros x y row s Hy Hx.
    assert (Ly : (y < length rows)%nat) by (apply nth_error_Some; congruence).
    assert (Lx : (x < length row)%nat) by (apply nth_error_Some; congruence).
    assert (LRW : length row = N.to_nat W).
    { rewrite Forall_forall in ROWS. apply (ROWS row). eapply nth_error_In, Hy. }
    unfold loaded_cell. cbn [ld_width ld_height ld_lines].
    assert (IN : (0 <=? Z.of_nat x)%Z && (Z.of_nat x <? p_w p2)%Z && (0 <=? Z.of_nat y)%Z && (Z.of_nat y <? Z.of_nat (length rows))%Z = true).
    { rewrite W2, (pi_w _ _ _ _ PI1). rewrite !andb_true_iff. repeat split; [apply Z.leb_le|apply Z.ltb_lt|apply Z.leb_le|apply Z.ltb_lt]; lia. }
    rewrite IN, !Nat2Z.id.
    assert (RCF : raw_cell (firstn (length rows) (p_lines p2)) x y = raw_cell (p_lines p1) x y).
    { unfold raw_cell. rewrite firstn_nth by exact Ly. rewrite L2. reflexivity. }
    rewrite RCF. rewrite A2.
    destruct (DONE1 y row x s Hy Hx) as [(V & C & S & WF)|(C & B & K & BL)].
    - rewrite V. unfold shown_cell. cbn [fst snd].
      destruct (shown_fg_fold_bold (snd (raw_cell (p_lines p1) x y))) as (F1 & F2 & F3).
      rewrite F1, F2, F3. unfold shows, src_shows in S. inversion S as [[S1 S2 S3]].
      unfold cell_match. rewrite S1, S2, S3. split; [left; exact C|]. split; [left; reflexivity|]. split; reflexivity.
    - rewrite C. change (cell_visible invisible_cell) with false. cbv iota.
      unfold shown_cell, default_cell. cbn [fst snd].
      assert (PI : PalInv (p_pal p1)) by exact (r_pal _ _ _ _ (pi_rel _ _ _ _ PI1)).
      change (shown_fg default_attribute) with 7. change (background_color default_attribute) with 0.
      change (is_blinking default_attribute) with false.
      rewrite (palinv_dos _ 0 PI) by lia.
      unfold cell_match. split; [right; split; [exact B|reflexivity]|]. split; [right; exact B|].
      split; [rewrite K; reflexivity|symmetry; exact BL].
  Qed.
End Rows.
