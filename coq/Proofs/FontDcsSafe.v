(* C01: the `CTerm:Font:` branch of execute_dcs returns an action or an error value for EVERY collected string.
   The functions are C17's models (Model/Font.v: load_custom_font, from_bytes, load_psf2, load_plain_font, load_psf1);
   C17 states the same totality as Props/C17.v from_bytes_total / dcs_total.  It is re-proved here (same argument: the
   length checks of the fixed code cover every slice) so that C01 and C09 do not depend on Proofs/FontProofs.v, whose
   round-trip proofs take minutes to compile. *)
From Coq Require Import NArith ZArith List Bool Lia.
From IE Require Import Lib.C17Lib Gen.FontConsts Model.Font.
Import ListNotations.
Local Open Scope N_scope.

Lemma c01_u32_at_ok site data k : (k + 4 <= length data)%nat -> exists v, u32_at site data k = Ok v.
Proof.
  intro H. unfold u32_at. rewrite take_ok by (rewrite skipn_length; lia). cbn [bind fst]. eauto.
Qed.

Lemma c01_load_psf2_total data : safe (load_psf2 data).
Proof.
  unfold load_psf2. destruct (N.ltb_spec (lenN data) 32) as [H|H]; [exact I|].
  assert (L : (32 <= length data)%nat) by (unfold lenN in H; lia).
  destruct (c01_u32_at_ok 1 data 4) as [v E]; [lia|]. rewrite E. cbn [bind].
  destruct (PSF2_MAXVERSION <? v); [exact I|].
  destruct (c01_u32_at_ok 1 data 8) as [hs Ehs]; [lia|]. rewrite Ehs. cbn [bind].
  destruct (c01_u32_at_ok 1 data 16) as [ln Eln]; [lia|]. rewrite Eln. cbn [bind].
  destruct (c01_u32_at_ok 1 data 20) as [cs Ecs]; [lia|]. rewrite Ecs. cbn [bind].
  destruct (negb (ln * cs + hs =? lenN data) || (MAX_GLYPHS <? ln)) eqn:C; [exact I|].
  apply orb_false_iff in C. destruct C as [C _]. apply negb_false_iff, N.eqb_eq in C.
  destruct (c01_u32_at_ok 1 data 24) as [hh Ehh]; [lia|]. rewrite Ehh. cbn [bind].
  destruct (c01_u32_at_ok 1 data 28) as [ww Eww]; [lia|]. rewrite Eww. cbn [bind].
  (* fix fB: the glyph size test and `charsize != height` are two more error returns *)
  destruct (_ || _); [exact I|]. destruct (negb (cs =? hh)); [exact I|].
  unfold drop. replace (lenN data <? hs) with false by (symmetry; apply N.ltb_ge; lia).
  exact I.
Qed.

Lemma c01_from_bytes_total data : safe (from_bytes data).
Proof.
  unfold from_bytes. destruct (N.ltb_spec (lenN data) 4) as [H|H]; [exact I|].
  destruct data as [|a [|b [|c [|d rest]]]]; try (cbn in H; lia).
  destruct (le16 [a; b] =? PSF1_MAGIC); [unfold load_psf1; destruct (_ || _); exact I|].
  destruct (le32 [a; b; c; d] =? PSF2_MAGIC); [apply c01_load_psf2_total|].
  unfold load_plain_font. destruct (_ || _); exact I.
Qed.

(* for any base64 decoder *)
Lemma font_dcs_total (b64_dec : list N -> option (list N)) s : safe (load_custom_font b64_dec s).
Proof.
  unfold load_custom_font.
  destruct (strip_prefix CTERM_FONT s); [|exact I].
  destruct (split_colon l) as [[num payload]|]; [|exact I].
  destruct (parse_usize num); [|exact I].
  destruct (b64_dec payload) as [data|]; [|exact I].
  pose proof (c01_from_bytes_total data) as T. destruct (from_bytes data); try exact I; exact T.
Qed.
