(* C12 tied to the compositing model of C13 (Model/Composite.v):
   (1) what Buffer::get_char returns for the single opaque Normal layer built by flat_clone is [reflat] of the
       stored cell;  (2) the cells Buffer::get_char yields for documents in C12's quantifier (Normal-mode layers
       made by Layer::new, no transparent colours) satisfy [wf_cell]. *)
From Coq Require Import ZArith NArith List Bool Lia.
From IE Require Gen.Comp Model.Composite.
From IE Require Import Gen.Codepage Model.Attr Model.ColorOpt Model.ColorOptDoc.
Import ListNotations.

Module C := IE.Model.Composite.

Definition conv (c : C.cell) : cell :=
  mkCell (C.c_ch c) (mkAttr (C.a_fpage (C.c_at c)) (C.a_fg (C.c_at c)) (C.a_bg (C.c_at c)) (C.a_flags (C.c_at c))).

Lemma conv_visible c : is_visible (conv c) = C.is_visible c.
Proof. reflexivity. Qed.

Lemma cell_eta (c : C.cell) : C.mkCell (C.c_ch c) (C.c_at c) = c.
Proof. destruct c. reflexivity. Qed.

Lemma merge_none c : C.merge c None None = c.
Proof. unfold C.merge. destruct (negb (C.is_visible c)); [reflexivity|apply cell_eta]. Qed.

(* ---- (1) the flattened layer ---- *)
Definition flat_layer (w h : Z) (rows : list (list C.cell)) : C.layer :=
  C.mkLayer true false C.MNormal (0, 0)%Z None w h 0%N rows.
Definition flat_buffer (term : bool) (fonts : N -> option C.font) (w h : Z) (rows : list (list C.cell)) : C.buffer :=
  C.mkBuffer term fonts [flat_layer w h rows].

Definition creflat (c : C.cell) : C.cell := if C.is_visible c then c else C.default_cell.

Lemma conv_creflat c : conv (creflat c) = reflat (conv c).
Proof. unfold creflat, reflat. rewrite conv_visible. destruct (C.is_visible c); reflexivity. Qed.

Lemma flat_get_char_proof term fonts w h rows x y line c :
  (0 <= x < w)%Z -> (0 <= y < h)%Z -> (w <= 2147483647)%Z -> (h <= 2147483647)%Z ->
  nth_error rows (Z.to_nat y) = Some line -> nth_error line (Z.to_nat x) = Some c ->
  (C.is_visible c = true -> C.has_transparent_colour c = false) ->
  C.get_char (flat_buffer term fonts w h rows) x y = Some (creflat c).
Proof.
  intros Hx Hy Hw Hh Hl Hc Ht.
  unfold C.get_char, flat_buffer. cbn [C.b_layers C.b_fonts rev app C.run].
  unfold C.step. cbn [flat_layer C.l_visible negb C.get_offset C.l_preview C.l_offset fst snd C.l_w C.l_h C.l_mode C.l_alpha C.l_dfp].
  unfold C.i32_sub. rewrite !Z.sub_0_r.
  replace ((C.i32_min <=? x)%Z && (x <=? C.i32_max)%Z) with true
    by (symmetry; apply andb_true_iff; unfold C.i32_min, C.i32_max; split; apply Z.leb_le; lia).
  replace ((C.i32_min <=? y)%Z && (y <=? C.i32_max)%Z) with true
    by (symmetry; apply andb_true_iff; unfold C.i32_min, C.i32_max; split; apply Z.leb_le; lia).
  replace ((x <? 0)%Z || (y <? 0)%Z || (x >=? w)%Z || (y >=? h)%Z) with false.
  2:{ symmetry. repeat (apply orb_false_iff; split); try (apply Z.ltb_ge; lia); rewrite Z.geb_leb; apply Z.leb_gt; lia. }
  unfold C.layer_get_char. cbn [flat_layer C.l_w C.l_h C.l_lines C.l_dfp].
  replace ((x <? 0)%Z || (y <? 0)%Z || (x >=? w)%Z || (y >=? h)%Z) with false.
  2:{ symmetry. repeat (apply orb_false_iff; split); try (apply Z.ltb_ge; lia); rewrite Z.geb_leb; apply Z.leb_gt; lia. }
  rewrite Hl, Hc. unfold creflat. cbn [C.init_st C.s_ch C.s_attr C.s_tc C.is_some orb].
  destruct (C.is_visible c) eqn:Ev.
  - rewrite merge_none, (Ht eq_refl). reflexivity.
  - rewrite merge_none. reflexivity.
Qed.

(* ---- (2) composited cells of Normal-mode documents are well-formed ---- *)
Definition plain_layer (L : C.layer) : Prop :=
  C.l_mode L = C.MNormal /\ C.l_dfp L = 0%N /\
  Forall (Forall (fun c => C.is_visible c = true -> C.has_transparent_colour c = false)) (C.l_lines L).

Definition st0 (s : C.st) : Prop := C.s_ch s = None /\ C.s_attr s = None /\ C.s_tc s = None /\ C.s_dfp s = 0%N.

Lemma conv_wf_visible c : C.is_visible c = true -> C.has_transparent_colour c = false -> wf_cell (conv c).
Proof.
  intros Hv Ht. left. split; [rewrite conv_visible; exact Hv|].
  unfold C.has_transparent_colour in Ht. apply orb_false_iff in Ht. destruct Ht as [H1 H2].
  apply N.eqb_neq in H1, H2. split; assumption.
Qed.

Lemma layer_cell_ok L x y : plain_layer L ->
  let c := C.layer_get_char L x y in C.is_visible c = true -> C.has_transparent_colour c = false.
Proof.
  intros (_ & Hd & Hcells). unfold C.layer_get_char. rewrite Hd.
  assert (Hinv : C.is_visible (C.with_font_page C.invisible_cell 0) = true -> C.has_transparent_colour (C.with_font_page C.invisible_cell 0) = false)
    by (intro; reflexivity).
  destruct ((x <? 0)%Z || (y <? 0)%Z || (x >=? C.l_w L)%Z || (y >=? C.l_h L)%Z); [exact Hinv|].
  destruct (nth_error (C.l_lines L) (Z.to_nat y)) as [line|] eqn:El; [|exact Hinv].
  destruct (nth_error line (Z.to_nat x)) as [c|] eqn:Ec; [|exact Hinv].
  rewrite Forall_forall in Hcells. specialize (Hcells line (nth_error_In _ _ El)).
  rewrite Forall_forall in Hcells. apply Hcells, (nth_error_In _ _ Ec).
Qed.

Lemma step_plain fonts L px py s : plain_layer L -> st0 s ->
  match C.step fonts L px py s with
  | C.Ret c => wf_cell (conv c)
  | C.Cont s' => st0 s'
  | C.Pan => True
  end.
Proof.
  intros HL (H1 & H2 & H3 & H4). pose proof HL as (Hm & Hd & _). unfold C.step.
  destruct (negb (C.l_visible L)); [repeat split; assumption|].
  destruct (C.i32_sub px (fst (C.get_offset L))) as [qx|]; [|exact I].
  destruct (C.i32_sub py (snd (C.get_offset L))) as [qy|]; [|exact I].
  destruct ((qx <? 0)%Z || (qy <? 0)%Z || (qx >=? C.l_w L)%Z || (qy >=? C.l_h L)%Z); [repeat split; assumption|].
  rewrite Hm, H1, H2, H3, Hd. cbn [C.is_some orb].
  pose proof (layer_cell_ok L qx qy HL) as Hc. cbv zeta in Hc.
  destruct (C.is_visible (C.layer_get_char L qx qy)) eqn:Ev.
  - rewrite merge_none, (Hc eq_refl). cbn [C.solid]. apply conv_wf_visible; [exact Ev|apply Hc; reflexivity].
  - destruct (negb (C.l_alpha L)).
    + rewrite merge_none. cbn [C.solid]. apply conv_wf_visible; reflexivity.
    + repeat split; reflexivity.
Qed.

Lemma run_plain fonts px py ls : forall s, Forall plain_layer ls -> st0 s ->
  match C.run fonts px py ls s with
  | C.Ret c => wf_cell (conv c)
  | C.Cont s' => st0 s'
  | C.Pan => True
  end.
Proof.
  induction ls as [|L t IH]; intros s Hls Hs; cbn [C.run]; [exact Hs|].
  inversion Hls as [|? ? HL Ht]; subst.
  pose proof (step_plain fonts L px py s HL Hs) as Hst.
  destruct (C.step fonts L px py s) as [c|s'|]; [exact Hst|apply IH; assumption|exact I].
Qed.

Lemma composite_cells_wf_proof B px py c :
  Forall plain_layer (C.b_layers B) -> C.get_char B px py = Some c -> wf_cell (conv c).
Proof.
  intros Hls H. unfold C.get_char in H.
  assert (Hrev : Forall plain_layer (rev (C.b_layers B))).
  { apply Forall_forall. intros L HL. apply in_rev in HL. rewrite Forall_forall in Hls. apply Hls, HL. }
  pose proof (run_plain (C.b_fonts B) px py _ C.init_st Hrev ltac:(repeat split; reflexivity)) as Hr.
  destruct (C.run (C.b_fonts B) px py (rev (C.b_layers B)) C.init_st) as [c'|s'|]; [| |discriminate].
  - injection H as <-. exact Hr.
  - injection H as <-. destruct Hr as (H1 & H2 & H3 & H4). unfold C.finish. rewrite H3, H1, H2, H4. cbn [C.is_some orb].
    destruct (C.b_term B); cbn [orb].
    + rewrite merge_none. apply conv_wf_visible; reflexivity.
    + right. reflexivity.
Qed.
