(* C03 (extension c): conditional bounds for hex-macro repeat groups (parse_hex_macro_sequence) and for the macro replay (invoke_macro_by_id). *)
From Coq Require Import ZArith NArith List Bool Lia.
From IE Require Import Model.TermCore Model.AnsiTok Model.Cost Proofs.CostProofs Gen.MacroLimit.
Import ListNotations.
Local Open Scope Z_scope.

(* ---- repeat groups ---------------------------------------------------------------------------------------------------------------------- *)
Lemma zlen_app' {A} (a b : list A) : zlen (a ++ b) = zlen a + zlen b.
Proof. unfold zlen. rewrite app_length. lia. Qed.
Lemma zlen_cons' {A} (a : A) l : zlen (a :: l) = 1 + zlen l.
Proof. unfold zlen. cbn [length]. lia. Qed.
Lemma zlen_repeat_str n s : zlen (repeat_str n s) = Z.max 0 n * zlen s.
Proof.
  unfold repeat_str. rewrite N2Nat.inj_iter. replace (Z.max 0 n) with (Z.of_nat (N.to_nat (Z.to_N n))) by lia.
  induction (N.to_nat (Z.to_N n)) as [|k IH]; [reflexivity|]. rewrite iter_S, zlen_app', IH. lia.
Qed.
Lemma hex_reps_mono : forall s stt rr m m', m <= m' -> hex_reps s stt rr m <= hex_reps s stt rr m'.
Proof.
  induction s as [|ch r IH]; intros stt rr m m' H; cbn [hex_reps]; [exact H|]. destruct stt.
  - destruct ((ch =? 59) && rr); [apply IH; exact H|]. destruct (ch =? 33); apply IH; exact H.
  - destruct (hex_val c); [|exact H]. destruct (hex_val (to_upper ch)); [apply IH; exact H|exact H].
  - destruct (is_digit ch); [apply IH; exact H|]. destruct (ch =? 59); [apply IH; lia|exact H].
Qed.
Lemma hex_reps_ge : forall s stt rr m, m <= hex_reps s stt rr m.
Proof.
  induction s as [|ch r IH]; intros stt rr m; cbn [hex_reps]; [lia|]. destruct stt.
  - destruct ((ch =? 59) && rr); [apply IH|]. destruct (ch =? 33); apply IH.
  - destruct (hex_val c); [|lia]. destruct (hex_val (to_upper ch)); [apply IH|lia].
  - destruct (is_digit ch); [apply IH|]. destruct (ch =? 59); [|lia]. pose proof (IH HFirst true (Z.max m n)). lia.
Qed.

Definition pend (rr : bool) (rep_n : Z) : Z := if rr then Z.max 0 rep_n else 0.
Definition glen (rr : bool) (rep_rec : list Z) : Z := if rr then zlen rep_rec else 0.
Lemma hex_bound_gen : forall s stt rr rep_rec rep_n rec k M, 0 <= M -> hex_reps s stt rr (pend rr rep_n) <= M ->
  k <= snd (hex_macro_t_before_fix s stt rr rep_rec rep_n rec k) <= k + zlen s + M * (zlen s + glen rr rep_rec) /\
  (forall mac, fst (hex_macro_t_before_fix s stt rr rep_rec rep_n rec k) = Some mac -> zlen mac <= zlen rec + (snd (hex_macro_t_before_fix s stt rr rep_rec rep_n rec k) - k)).
Proof.
  induction s as [|ch r IH]; intros stt rr rep_rec rep_n rec k M HM H; cbn [hex_macro_t_before_fix hex_reps] in *.
  - pose proof (zlen_nonneg rep_rec). destruct rr; cbn [fst snd pend glen] in *; unfold repeat_cost.
    + split; [change (zlen (@nil Z)) with 0; nia|]. intros mac E. inversion E. rewrite zlen_app', zlen_repeat_str. lia.
    + split; [change (zlen (@nil Z)) with 0; lia|]. intros mac E. inversion E. lia.
  - rewrite zlen_cons'. pose proof (zlen_nonneg r) as Hr. pose proof (zlen_nonneg rep_rec) as Hg. destruct stt.
    + destruct ((ch =? 59) && rr) eqn:E1.
      * apply andb_true_iff in E1. destruct E1 as [_ ->]. cbn [pend glen] in *.
        assert (HP : Z.max 0 rep_n <= M) by (pose proof (hex_reps_ge r HFirst false (Z.max 0 rep_n)); lia).
        assert (H0 : hex_reps r HFirst false (pend false rep_n) <= M) by (cbn [pend]; pose proof (hex_reps_mono r HFirst false 0 (Z.max 0 rep_n) ltac:(lia)); lia).
        destruct (IH HFirst false rep_rec rep_n (rec ++ repeat_str rep_n rep_rec) (k + 1 + repeat_cost rep_n rep_rec) M HM H0) as [I1 I2]. cbn [glen] in I1.
        unfold repeat_cost in *. split; [nia|]. intros mac E. specialize (I2 mac E). rewrite zlen_app', zlen_repeat_str in I2. lia.
      * destruct (ch =? 33).
        -- destruct (IH (HRepeat 0) rr rep_rec rep_n rec (k + 1) M HM H) as [I1 I2]. assert (0 <= glen rr rep_rec) by (destruct rr; cbn; lia).
           split; [nia|]. intros mac E. specialize (I2 mac E). lia.
        -- destruct (IH (HSecond ch) rr rep_rec rep_n rec (k + 1) M HM H) as [I1 I2]. assert (0 <= glen rr rep_rec) by (destruct rr; cbn; lia).
           split; [nia|]. intros mac E. specialize (I2 mac E). lia.
    + assert (0 <= glen rr rep_rec) by (destruct rr; cbn; lia).
      destruct (hex_val c) as [a|]; [|cbn [fst snd]; split; [nia|discriminate]].
      destruct (hex_val (to_upper ch)) as [b|]; [|cbn [fst snd]; split; [nia|discriminate]].
      destruct rr.
      * destruct (IH HFirst true (rep_rec ++ [a * 16 + b]) rep_n rec (k + 1) M HM H) as [I1 I2]. cbn [glen] in *. rewrite zlen_app' in I1. change (zlen [a * 16 + b]) with 1 in I1.
        split; [nia|]. intros mac E. specialize (I2 mac E). lia.
      * destruct (IH HFirst false rep_rec rep_n (rec ++ [a * 16 + b]) (k + 1) M HM H) as [I1 I2]. cbn [glen] in *.
        split; [nia|]. intros mac E. specialize (I2 mac E). rewrite zlen_app' in I2. change (zlen [a * 16 + b]) with 1 in I2. lia.
    + assert (0 <= glen rr rep_rec) by (destruct rr; cbn; lia).
      destruct (is_digit ch).
      * destruct (IH (HRepeat (parse_next_number n ch)) rr rep_rec rep_n rec (k + 1) M HM H) as [I1 I2]. split; [nia|]. intros mac E. specialize (I2 mac E). lia.
      * destruct (ch =? 59); [|cbn [fst snd]; split; [nia|discriminate]].
        assert (H1 : hex_reps r HFirst true (pend true n) <= M).
        { cbn [pend]. pose proof (hex_reps_mono r HFirst true (Z.max 0 n) (Z.max (pend rr rep_n) n)). assert (0 <= pend rr rep_n) by (destruct rr; cbn; lia). lia. }
        destruct (IH HFirst true [] n rec (k + 1) M HM H1) as [I1 I2]. cbn [glen] in I1. change (zlen (@nil Z)) with 0 in I1.
        split; [nia|]. intros mac E. specialize (I2 mac E). lia.
Qed.
(* hexmacro_bound: work and expansion are at most (1 + largest repeat count) x length of the definition; the known class is the unclamped count *)
Lemma hexmacro_bound_l : forall s,
  snd (hex_macro_t_before_fix s HFirst false [] 0 [] 0) <= zlen s * (1 + hex_reps s HFirst false 0) /\
  (forall mac, fst (hex_macro_t_before_fix s HFirst false [] 0 [] 0) = Some mac -> zlen mac <= zlen s * (1 + hex_reps s HFirst false 0)).
Proof.
  intro s. pose proof (hex_reps_ge s HFirst false 0) as H0.
  destruct (hex_bound_gen s HFirst false [] 0 [] 0 (hex_reps s HFirst false 0) H0 ltac:(cbn [pend]; lia)) as [I1 I2]. cbn [glen] in I1.
  change (zlen (@nil Z)) with 0 in *. pose proof (zlen_nonneg s). split; [nia|]. intros mac E. specialize (I2 mac E). nia.
Qed.
Lemma hexmacro_bound_cond_l : forall s B, hex_reps s HFirst false 0 <= B -> snd (hex_macro_t_before_fix s HFirst false [] 0 [] 0) <= zlen s * (1 + B).
Proof. intros s B H. destruct (hexmacro_bound_l s) as [H1 _]. pose proof (zlen_nonneg s). nia. Qed.
Lemma hexmacro_bound_known_l : forall s B, ~ KnownC03_hexrep s B -> snd (hex_macro_t_before_fix s HFirst false [] 0 [] 0) <= zlen s * (1 + B).
Proof. intros s B H. apply hexmacro_bound_cond_l. unfold KnownC03_hexrep in H. lia. Qed.
(* without a repeat group the scan is linear *)
Lemma hexmacro_linear_l : forall s, hex_reps s HFirst false 0 = 0 -> snd (hex_macro_t_before_fix s HFirst false [] 0 [] 0) <= zlen s.
Proof. intros s H. pose proof (hexmacro_bound_cond_l s 0 ltac:(lia)). lia. Qed.

(* ---- after the fix (MAX_MACRO_SIZE, Parser::push_repeat_group): unconditional ------------------------------------------------------------- *)
Lemma push_group_len rec rep_rec rep_n rec' : push_group rec rep_rec rep_n = Some rec' ->
  zlen rec' = zlen rec + repeat_cost rep_n rep_rec /\ zlen rec' <= MAX_MACRO_SIZE.
Proof.
  unfold push_group. destruct (_ <? _) eqn:E; [discriminate|]. intro H; inversion H; subst. apply Z.ltb_ge in E.
  rewrite zlen_app'. unfold repeat_cost in *. destruct rep_rec as [|c0 r0]; [change (zlen (@nil Z)) with 0 in *; lia|]. rewrite zlen_repeat_str. lia.
Qed.
Lemma repeat_cost_nonneg n s : 0 <= repeat_cost n s.
Proof. unfold repeat_cost. pose proof (zlen_nonneg s). nia. Qed.
Lemma group_cost_le rec rep_rec rep_n : 0 <= group_cost rec rep_rec rep_n <= Z.max 0 (MAX_MACRO_SIZE - zlen rec).
Proof.
  unfold group_cost. destruct (push_group rec rep_rec rep_n) as [rec'|] eqn:E; [|lia].
  destruct (push_group_len _ _ _ _ E) as [H1 H2]. pose proof (repeat_cost_nonneg rep_n rep_rec). lia.
Qed.
Lemma hex_bound_fix : forall s stt rr rep_rec rep_n rec k,
  k <= snd (hex_macro_t s stt rr rep_rec rep_n rec k) <= k + zlen s + Z.max 0 (MAX_MACRO_SIZE - zlen rec).
Proof.
  induction s as [|ch r IH]; intros stt rr rep_rec rep_n rec k; cbn [hex_macro_t].
  - cbn [snd]. change (zlen (@nil Z)) with 0. pose proof (group_cost_le rec rep_rec rep_n). destruct rr; lia.
  - rewrite zlen_cons'. pose proof (zlen_nonneg r) as Hr. destruct stt.
    + destruct ((ch =? 59) && rr).
      * destruct (push_group rec rep_rec rep_n) as [rec'|] eqn:E; [|cbn [snd]; lia].
        destruct (push_group_len _ _ _ _ E) as [H1 H2]. pose proof (repeat_cost_nonneg rep_n rep_rec).
        specialize (IH HFirst false rep_rec rep_n rec' (k + 1 + repeat_cost rep_n rep_rec)). lia.
      * destruct (ch =? 33); [specialize (IH (HRepeat 0) rr rep_rec rep_n rec (k + 1))|specialize (IH (HSecond ch) rr rep_rec rep_n rec (k + 1))]; lia.
    + destruct (hex_val c) as [a|]; [|cbn [snd]; lia]. destruct (hex_val (to_upper ch)) as [b|]; [|cbn [snd]; lia]. cbv zeta.
      destruct rr; [specialize (IH HFirst true (rep_rec ++ [a * 16 + b]) rep_n rec (k + 1)); lia|].
      specialize (IH HFirst false rep_rec rep_n (rec ++ [a * 16 + b]) (k + 1)). rewrite zlen_app' in IH. change (zlen [a * 16 + b]) with 1 in IH. lia.
    + destruct (is_digit ch); [specialize (IH (HRepeat (parse_next_number n ch)) rr rep_rec rep_n rec (k + 1)); lia|].
      destruct (ch =? 59); [specialize (IH HFirst true [] n rec (k + 1)); lia|cbn [snd]; lia].
Qed.
Lemma hex_size_fix : forall s stt rr rep_rec rep_n rec k mac, fst (hex_macro_t s stt rr rep_rec rep_n rec k) = Some mac -> zlen mac <= MAX_MACRO_SIZE.
Proof.
  induction s as [|ch r IH]; intros stt rr rep_rec rep_n rec k mac; cbn [hex_macro_t].
  - cbn [fst]. unfold hex_finish. destruct (if rr then push_group rec rep_rec rep_n else Some rec) as [m|]; [|discriminate].
    destruct (MAX_MACRO_SIZE <? zlen m) eqn:E; [discriminate|]. intro H; inversion H; subst. apply Z.ltb_ge in E. exact E.
  - destruct stt.
    + destruct ((ch =? 59) && rr); [destruct (push_group rec rep_rec rep_n); [apply IH|discriminate]|]. destruct (ch =? 33); apply IH.
    + destruct (hex_val c); [|discriminate]. destruct (hex_val (to_upper ch)); [|discriminate]. cbv zeta. destruct rr; apply IH.
    + destruct (is_digit ch); [apply IH|]. destruct (ch =? 59); [apply IH|discriminate].
Qed.
(* hexmacro_bound (after the fix): work <= characters read + MAX_MACRO_SIZE appended, the stored macro holds at most MAX_MACRO_SIZE characters - whatever the counts *)
Lemma hexmacro_bound_fix_l : forall s,
  0 <= snd (hex_macro_t s HFirst false [] 0 [] 0) <= zlen s + MAX_MACRO_SIZE /\
  (forall mac, fst (hex_macro_t s HFirst false [] 0 [] 0) = Some mac -> zlen mac <= MAX_MACRO_SIZE).
Proof.
  intro s. split; [|intros mac H; exact (hex_size_fix _ _ _ _ _ _ _ _ H)].
  pose proof (hex_bound_fix s HFirst false [] 0 [] 0) as H. change (zlen (@nil Z)) with 0 in H. unfold MAX_MACRO_SIZE in *. lia.
Qed.
(* the regression inputs: `!2147483647;41;` and `!3000;41;` are refused after 1 + digits + 2 + 1 steps; `!3000;41;` was 3009 steps before *)
Lemma hexmacro_refused_l :
  hex_macro_t [33; 50; 49; 52; 55; 52; 56; 51; 54; 52; 55; 59; 52; 49; 59] HFirst false [] 0 [] 0 = (None, 15) /\
  hex_macro_t [33; 54; 53; 53; 51; 55; 59; 52; 49; 59] HFirst false [] 0 [] 0 = (None, 10) /\
  hex_macro_t [33; 51; 48; 48; 48; 59; 52; 49; 59] HFirst false [] 0 [] 0 = (Some (repeat_str 3000 [65]), 3009).
Proof. repeat split; vm_compute; reflexivity. Qed.


(* ---- macro replay --------------------------------------------------------------------------------------------------------------------------- *)
Lemma geom_nonneg c d : 0 <= c -> 0 <= geom c d.
Proof. intro H. induction d; cbn [geom]; nia. Qed.
Definition astep_abort (g : Z -> Z * bool) (acc : Z * bool) (i : Z) : Z * bool :=
  if snd acc then acc else let r := g i in (fst acc + fst r, snd r).
Lemma astep_abort_true g a i : astep_abort g (a, true) i = (a, true). Proof. reflexivity. Qed.
Lemma astep_abort_false g a i : astep_abort g (a, false) i = (a + fst (g i), snd (g i)). Proof. reflexivity. Qed.
Lemma fold_abort_sticky (g : Z -> Z * bool) : forall l a, fold_left (astep_abort g) l (a, true) = (a, true).
Proof. induction l as [|i l IH]; intro a; cbn [fold_left]; [reflexivity|]. rewrite astep_abort_true. apply IH. Qed.
Lemma fold_abort_sum (g : Z -> Z * bool) X : forall l a0 b0, 0 <= X -> (forall i, In i l -> 0 <= fst (g i) <= X) ->
  a0 <= fst (fold_left (astep_abort g) l (a0, b0)) <= a0 + zlen l * X.
Proof.
  induction l as [|i l IH]; intros a0 b0 HX Hg; cbn [fold_left].
  - cbn [fst]. change (zlen (@nil Z)) with 0. lia.
  - rewrite zlen_cons'. pose proof (zlen_nonneg l). destruct b0.
    + rewrite astep_abort_true, fold_abort_sticky. cbn [fst]. nia.
    + rewrite astep_abort_false. destruct (Hg i (or_introl eq_refl)).
      pose proof (IH (a0 + fst (g i)) (snd (g i)) HX (fun j Hin => Hg j (or_intror Hin))). nia.
Qed.
Lemma macro_chars_S k ms id body : lookup id ms = Some body ->
  macro_chars (S k) ms id = fold_left (astep_abort (macro_chars k ms)) (find_invokes body) (zlen body, false).
Proof. intro E. cbn [macro_chars]. rewrite E. reflexivity. Qed.
(* characters replayed by ONE invocation, whatever the macro table holds (recursive or not): the nesting counter of the code bounds the depth *)
Lemma macro_replay_bound_l : forall fuel ms id B c, 0 <= B -> 0 <= c -> macros_ok ms B c -> 0 <= fst (macro_chars fuel ms id) <= B * geom c fuel.
Proof.
  induction fuel as [|k IH]; intros ms id B c HB Hc Hok.
  - cbn [macro_chars]. destruct (lookup id ms); cbn [fst geom]; lia.
  - destruct (lookup id ms) as [body|] eqn:EL.
    + rewrite (macro_chars_S k ms id body EL). destruct (Hok id body EL) as [L1 L2]. pose proof (geom_nonneg c k Hc) as HG.
      assert (HX : 0 <= B * geom c k) by nia.
      pose proof (fold_abort_sum (macro_chars k ms) (B * geom c k) (find_invokes body) (zlen body) false HX (fun i _ => IH ms i B c HB Hc Hok)) as HS.
      pose proof (zlen_nonneg body). pose proof (zlen_nonneg (find_invokes body)). cbn [geom]. nia.
    + cbn [macro_chars]. rewrite EL. cbn [fst]. pose proof (geom_nonneg c (S k) Hc). nia.
Qed.
(* a macro that invokes only itself: the first invocation inside the body goes down to the limit and abandons the chain, nothing after it
   is replayed: at most one body per nesting level *)
Lemma macro_self_aborts : forall body r k, find_invokes body = 1 :: r -> snd (macro_chars k [(1, body)] 1) = true.
Proof.
  intros body r k E. induction k as [|k IH]; [reflexivity|].
  rewrite (macro_chars_S k [(1, body)] 1 body eq_refl), E. cbn [fold_left]. rewrite astep_abort_false.
  destruct (macro_chars k [(1, body)] 1) as [x b]. cbn [snd] in IH. subst b. cbn [fst snd]. rewrite fold_abort_sticky. reflexivity.
Qed.
Lemma macro_self_bound_l : forall body n, (forall i, In i (find_invokes body) -> i = 1) -> fst (macro_chars n [(1, body)] 1) <= Z.of_nat n * zlen body.
Proof.
  intros body n H. pose proof (zlen_nonneg body) as HB. induction n as [|k IH]; [cbn; lia|].
  rewrite (macro_chars_S k [(1, body)] 1 body eq_refl). destruct (find_invokes body) as [|i r] eqn:E.
  - cbn [fold_left fst]. nia.
  - assert (i = 1) by (apply H; left; reflexivity). subst i.
    cbn [fold_left]. rewrite astep_abort_false. pose proof (macro_self_aborts body r k E) as HA.
    destruct (macro_chars k [(1, body)] 1) as [x b]. cbn [fst snd] in *. subst b. rewrite fold_abort_sticky. cbn [fst]. nia.
Qed.
(* the limit only cuts: a nesting that the code before the fix replayed to the end within [fuel] levels is replayed the same way *)
Lemma fold_opt_none (g : Z -> option Z) : forall l, fold_left (fun acc i => match acc, g i with Some a, Some b => Some (a + b) | _, _ => None end) l None = None.
Proof. induction l as [|i l IH]; cbn [fold_left]; [reflexivity|exact IH]. Qed.
Lemma macro_chars_conservative_l : forall fuel ms id n, macro_chars_nolimit fuel ms id = Some n -> macro_chars fuel ms id = (n, false).
Proof.
  induction fuel as [|k IH]; intros ms id n H; cbn [macro_chars_nolimit macro_chars] in *.
  - destruct (lookup id ms); [discriminate|]. inversion H. reflexivity.
  - destruct (lookup id ms) as [body|]; [|inversion H; reflexivity].
    fold (astep_abort (macro_chars k ms)). revert H. generalize (zlen body) as a. induction (find_invokes body) as [|i l IHl]; intros a H; cbn [fold_left] in *.
    + inversion H. reflexivity.
    + destruct (macro_chars_nolimit k ms i) as [b|] eqn:E; [|rewrite fold_opt_none in H; discriminate].
      rewrite astep_abort_false, (IH ms i b E). cbn [fst snd]. apply IHl. exact H.
Qed.
(* an invocation needs at least `ESC [`: a body holds at most half as many invocations as characters *)
Lemma find_invokes_len : forall n body, (length body <= n)%nat -> 2 * zlen (find_invokes body) <= zlen body.
Proof.
  induction n as [|n IH]; intros body H.
  - destruct body; [cbn; lia|cbn in H; lia].
  - destruct body as [|a r]; [cbn; lia|]. cbn [length] in H.
    assert (D : forall l acc any, zlen ((fix digits (l : list Z) (acc : Z) (any : bool) {struct l} : list Z :=
       match l with
       | c :: r' => if is_digit c then digits r' (parse_next_number acc c) true
                    else match l with
                         | 42 :: 122 :: _ => if any then [acc] else []
                         | _ => []
                         end
       | [] => []
       end) l acc any) <= 1).
    { induction l as [|c l IHl]; intros acc any; [cbn; lia|]. destruct (is_digit c); [apply IHl|].
      destruct c as [|pc|pc]; try (cbn; lia). repeat (destruct pc as [pc|pc|]; try (cbn; lia)).
      destruct l as [|d l']; [cbn; lia|]. destruct d as [|pd|pd]; try (cbn; lia). repeat (destruct pd as [pd|pd|]; try (cbn; lia)). destruct any; cbn; lia. }
    assert (G : 2 * zlen (find_invokes r) <= zlen r) by (apply IH; lia).
    destruct (Z.eq_dec a 27) as [->|Ha].
    + destruct r as [|b r2]; [cbn; lia|]. destruct (Z.eq_dec b 91) as [->|Hb].
      * cbn [find_invokes]. rewrite zlen_app'. specialize (D r2 0 false). assert (G2 : 2 * zlen (find_invokes r2) <= zlen r2) by (apply IH; cbn [length] in H; lia).
        rewrite !zlen_cons'. lia.
      * assert (E : find_invokes (27 :: b :: r2) = find_invokes (b :: r2)).
        { cbn [find_invokes]. destruct b as [|pb|pb]; try reflexivity. repeat (destruct pb as [pb|pb|]; try reflexivity). exfalso. apply Hb. reflexivity. }
        rewrite E. rewrite (zlen_cons' 27). lia.
    + assert (E : find_invokes (a :: r) = find_invokes r).
      { cbn [find_invokes]. destruct a as [|pa|pa]; try reflexivity. repeat (destruct pa as [pa|pa|]; try reflexivity). exfalso. apply Ha. reflexivity. }
      rewrite E, zlen_cons'. lia.
Qed.
Lemma find_invokes_half body : 2 * zlen (find_invokes body) <= zlen body.
Proof. apply (find_invokes_len (length body)). lia. Qed.
(* the executable B and c of stage C satisfy macros_ok *)
Lemma macros_max_ok ms : macros_ok ms (macros_maxlen ms) (macros_maxinv ms).
Proof.
  induction ms as [|[k v] ms IH]; intros id body H; cbn [lookup] in H; [discriminate|]. cbn [macros_maxlen macros_maxinv fold_right snd].
  destruct (k =? id).
  - inversion H. subst. split; lia.
  - destruct (IH id body H). fold (macros_maxlen ms). fold (macros_maxinv ms). split; lia.
Qed.
(* no hypothesis at all: the executable B and c of a table *)
Lemma macro_replay_total_l : forall fuel ms id, 0 <= fst (macro_chars fuel ms id) <= macros_maxlen ms * geom (macros_maxinv ms) fuel.
Proof.
  intros fuel ms id. apply macro_replay_bound_l; [| |apply macros_max_ok].
  - induction ms as [|kv ms IH]; cbn [macros_maxlen fold_right]; [lia|]. fold (macros_maxlen ms). lia.
  - induction ms as [|kv ms IH]; cbn [macros_maxinv fold_right]; [lia|]. fold (macros_maxinv ms). lia.
Qed.
