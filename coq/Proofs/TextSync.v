(* The generic half of the round-trip argument (DESIGN.md section 7, C15):
   from a per-row SYNC LAW between a writer and a parser
       "after the parser has consumed what the writer emitted for a row, it has printed one cell per source cell,
        each related to its source cell, and writer and parser are in sync again"
   to "parsing the written file lays the rows out as the abstract loader `lay` does", and from there, with the
   layout theorem of Proofs/TextBufProofs.v, to the picture after crop_loaded_file. *)
From Coq Require Import NArith Bool List Arith Lia.
From IE Require Import Lib.Tbl Gen.Codepage Gen.TextFmt Model.Attr Model.TextBuf Model.TextWriters Model.TextParsers
                       Proofs.TextBufProofs.
Import ListNotations.

Section Machine.
  Variable PS : Type.
  Variable astep : PS -> TextAttribute -> N -> option (PS * TextAttribute).
  Variable bstep : PS -> pbuf -> N -> option (PS * pbuf).
  Notation run := (run PS astep bstep).
  Notation arun := (arun PS astep).

  Lemma run_app ps p a b :
    run ps p (a ++ b) = match run ps p a with Some (ps', p') => run ps' p' b | None => None end.
  Proof.
    revert ps p; induction a as [|ch t IH]; intros ps p; [reflexivity|].
    cbn [app TextParsers.run]. destruct (step PS astep bstep ps p ch) as [[ps' p']|]; [apply IH|reflexivity].
  Qed.

  Lemma set_attr_same p : set_attr p (pattr p) = p.
  Proof. destruct p; reflexivity. Qed.

  Lemma arun_run bs : forall ps p ps' a',
    arun ps (pattr p) bs = Some (ps', a') -> run ps p bs = Some (ps', set_attr p a').
  Proof.
    induction bs as [|ch t IH]; intros ps p ps' a' H; cbn [TextParsers.arun TextParsers.run] in *.
    - inversion H; subst. rewrite set_attr_same. reflexivity.
    - unfold step. destruct (astep ps (pattr p) ch) as [[ps1 a1]|]; [|discriminate].
      rewrite (IH ps1 (set_attr p a1) ps' a') by exact H. reflexivity.
  Qed.

  (* code bytes that only touch the attribute, then one byte that prints *)
  Lemma run_code_then bs ch : forall ps p ps1 a1 r,
    arun ps (pattr p) bs = Some (ps1, a1) ->
    step PS astep bstep ps1 (set_attr p a1) ch = r ->
    run ps p (bs ++ [ch]) = match r with Some (ps', p') => Some (ps', p') | None => None end.
  Proof.
    intros ps p ps1 a1 r H1 H2. rewrite run_app, (arun_run _ _ _ _ _ H1). cbn [TextParsers.run]. rewrite H2.
    destruct r as [[? ?]|]; reflexivity.
  Qed.
End Machine.

Lemma Forall2_len {A B} (R : A -> B -> Prop) l l' : Forall2 R l l' -> length l = length l'.
Proof. induction 1; cbn; congruence. Qed.

Definition good (c : cell) : Prop := is_visible c = true /\ is_bold (cat c) = false.

Section Sync.
  Variable w : nat.
  Hypothesis Hw : 0 < w.
  Variables PS WS : Type.
  Variable astep : PS -> TextAttribute -> N -> option (PS * TextAttribute).
  Variable bstep : PS -> pbuf -> N -> option (PS * pbuf).
  Variable emit_row : WS -> srow -> option (list N * WS * nat).
  Variable eol : list N.
  Variable R : WS -> PS -> TextAttribute -> Prop.
  Variable dom_row : srow -> Prop.
  Variable rel : cell -> cell -> Prop.
  Notation run := (run PS astep bstep).

  Definition row_sync : Prop :=
    forall ws ps p r bs ws' x, R ws ps (pattr p) -> dom_row r -> emit_row ws r = Some (bs, ws', x) ->
      x = line_length w r /\
      exists ps' cs', run ps p bs = Some (ps', puts w p cs') /\ R ws' ps' (pattr (puts w p cs')) /\
                      Forall2 rel cs' (row_cells w r) /\ Forall good cs'.
  Definition eol_sync : Prop :=
    forall ws ps p, R ws ps (pattr p) -> run ps p eol = Some (ps, lf p).

  Hypothesis Hrow : row_sync.
  Hypothesis Heol : eol_sync.

  Theorem rows_sync : forall rows ws ps p y h bs,
    R ws ps (pattr p) -> Forall dom_row rows ->
    rows_loop WS emit_row eol w h ws rows y = Some bs ->
    exists ps' stored, run ps p bs = Some (ps', lay w h p stored y) /\
                       Forall2 (Forall2 rel) stored (map (row_cells w) rows) /\ Forall (Forall good) stored.
  Proof.
    induction rows as [|r rest IH]; intros ws ps p y h bs HR Hdom Hloop; cbn [rows_loop] in Hloop.
    - inversion Hloop; subst. exists ps, []. cbn [lay map TextParsers.run]. repeat split; constructor.
    - inversion Hdom as [|? ? Hd Hdrest]; subst.
      destruct (emit_row ws r) as [[[b1 ws1] x]|] eqn:E1; [|discriminate].
      destruct (rows_loop WS emit_row eol w h ws1 rest (S y)) as [t|] eqn:E2; [|discriminate].
      inversion Hloop; subst bs; clear Hloop.
      destruct (Hrow ws ps p r b1 ws1 x HR Hd E1) as (Hx & ps1 & cs1 & Hrun1 & HR1 & Hrel1 & Hgood1).
      set (p1 := puts w p cs1) in *.
      assert (Hlen : length cs1 = x).
      { rewrite (Forall2_len _ _ _ Hrel1), row_cells_length. symmetry. exact Hx. }
      set (p2 := if (length cs1 <? w) && (S y <? h) then lf p1 else p1).
      assert (HR2 : R ws1 ps1 (pattr p2)) by (unfold p2; destruct (_ && _); exact HR1).
      destruct (IH ws1 ps1 p2 (S y) h t HR2 Hdrest E2) as (ps' & stored & Hrun2 & Hrel2 & Hgood2).
      exists ps', (cs1 :: stored). split; [|split].
      + rewrite run_app, Hrun1. fold p1. rewrite run_app. cbn [lay]. fold p1. fold p2. rewrite <- Hrun2.
        unfold p2. rewrite Hlen. destruct ((x <? w) && (S y <? h)).
        * rewrite (Heol ws1 ps1 p1 HR1). reflexivity.
        * reflexivity.
      + cbn [map]. constructor; assumption.
      + constructor; assumption.
  Qed.

  (* cell-wise writers *)
  Variable emit : WS -> cell -> option (list N * WS).
  Variable dom_cell : cell -> Prop.
  Definition cell_sync : Prop :=
    forall ws ps p c bs ws', R ws ps (pattr p) -> dom_cell c -> emit ws c = Some (bs, ws') ->
      exists ps' c', run ps p bs = Some (ps', put w p c') /\ R ws' ps' (cat c') /\ rel c' c /\ good c'.

  Lemma cells_sync : cell_sync -> forall cs ws ps p bs ws',
    R ws ps (pattr p) -> Forall dom_cell cs -> emit_cells WS emit ws cs = Some (bs, ws') ->
    exists ps' cs', run ps p bs = Some (ps', puts w p cs') /\ R ws' ps' (pattr (puts w p cs')) /\
                    Forall2 rel cs' cs /\ Forall good cs'.
  Proof.
    intro Hcell. induction cs as [|c t IH]; intros ws ps p bs ws' HR Hdom Hem; cbn [emit_cells] in Hem.
    - inversion Hem; subst. exists ps, []. cbn. repeat split; try constructor. exact HR.
    - inversion Hdom as [|? ? Hd Hdt]; subst.
      destruct (emit ws c) as [[b1 ws1]|] eqn:E1; [|discriminate].
      destruct (emit_cells WS emit ws1 t) as [[b2 ws2]|] eqn:E2; [|discriminate].
      inversion Hem; subst; clear Hem.
      destruct (Hcell ws ps p c b1 ws1 HR Hd E1) as (ps1 & c' & Hrun1 & HR1 & Hrel1 & Hg1).
      assert (HR1' : R ws1 ps1 (pattr (put w p c'))) by (rewrite put_attr; exact HR1).
      destruct (IH ws1 ps1 (put w p c') b2 ws' HR1' Hdt E2) as (ps2 & cs' & Hrun2 & HR2 & Hrel2 & Hg2).
      exists ps2, (c' :: cs'). split; [|split; [|split]].
      + rewrite run_app, Hrun1. exact Hrun2.
      + exact HR2.
      + constructor; assumption.
      + constructor; assumption.
  Qed.
End Sync.

(* ---------- from the layout to the loaded picture ---------- *)
Lemma fold_bold_id p :
  (forall x y c, view (lines p) x y = Some c -> is_bold (cat c) = false) -> fold_bold p = p.
Proof.
  intro H. unfold fold_bold. replace (map (map fold_bold_cell) (lines p)) with (lines p); [destruct p; reflexivity|].
  symmetry. rewrite <- (map_id (lines p)) at 2. apply map_ext_in. intros l Hl.
  rewrite <- (map_id l) at 2. apply map_ext_in. intros c Hc.
  unfold fold_bold_cell. destruct (is_visible c) eqn:Ev; [|reflexivity].
  apply In_nth_error in Hl as (y & Hy). apply In_nth_error in Hc as (x & Hx).
  rewrite (H x y c); [reflexivity|]. unfold view. rewrite Hy, Hx, Ev. reflexivity.
Qed.

Lemma spec_view_good stored x y c : Forall (Forall good) stored -> spec_view stored x y = Some c -> good c.
Proof.
  intros HG H. unfold spec_view in H. destruct (nth_error stored y) as [r|] eqn:Er; [|discriminate].
  destruct (nth_error r x) as [d|] eqn:Ed; [|discriminate].
  assert (good d).
  { rewrite Forall_forall in HG. specialize (HG r (nth_error_In _ _ Er)). rewrite Forall_forall in HG.
    apply HG. exact (nth_error_In _ _ Ed). }
  unfold vis in H. destruct (is_visible d); inversion H; subst; assumption.
Qed.

Lemma nth_error_last {A} (l : list A) d : l <> [] -> nth_error l (length l - 1) = Some (last l d).
Proof.
  induction l as [|a t IH]; [congruence|]. intros _. destruct t as [|b t']; [reflexivity|].
  specialize (IH ltac:(discriminate)). cbn [length] in *.
  replace (S (S (length t')) - 1) with (S (S (length t') - 1)) by lia.
  change (last (a :: b :: t') d) with (last (b :: t') d). exact IH.
Qed.

(* the loaded buffer after `finish` (crop + bold folding), when the last row is not empty *)
Theorem finish_lay w h stored p0 : 0 < w ->
  h = length stored -> stored <> [] -> Forall (fun r => length r <= w) stored -> last stored [] <> [] ->
  Forall (Forall good) stored ->
  lines p0 = [] -> px p0 = 0 -> py p0 = 0 ->
  let q := fold_bold (crop (lay w h p0 stored 0)) in
  length (lines q) = h /\ lh q = h /\
  forall x y, y < h -> view (lines q) x y = spec_view stored x y.
Proof.
  intros Hw Hh Hne Hlen Hlast HG Hl0 Hx0 Hy0.
  assert (Hnone : forall x y, 0 <= y -> view (lines p0) x y = None).
  { intros. unfold view. rewrite Hl0. destruct y; reflexivity. }
  pose proof (lay_view w h stored Hw p0 0 Hh Hlen Hx0 Hy0 Hnone) as Hv.
  assert (HK : length (lines p0) <= 1) by (rewrite Hl0; cbn; lia).
  destruct (lay_length w h stored Hw p0 0 Hh Hne Hlen Hlast Hx0 Hy0 HK) as (Hcase & _).
  set (p := lay w h p0 stored 0) in *.
  assert (Hh0 : 0 < h) by (destruct stored; [congruence|cbn in Hh; lia]).
  assert (Hline : exists l, nth_error (lines p) (h - 1) = Some l /\ l <> []).
  { (* the last stored row has a first cell, which is visible *)
    assert (Hlr : nth_error stored (h - 1) = Some (last stored [])).
    { rewrite Hh. apply nth_error_last. exact Hne. }
    destruct (last stored []) as [|c0 r0] eqn:El; [congruence|].
    specialize (Hv 0 (h - 1)). cbn [Nat.ltb Nat.leb] in Hv. rewrite Nat.sub_0_r in Hv.
    unfold spec_view in Hv. rewrite Hlr in Hv. cbn [nth_error] in Hv.
    assert (good c0) as (Hvis & _).
    { rewrite Forall_forall in HG. specialize (HG _ (nth_error_In _ _ Hlr)). inversion HG; assumption. }
    unfold vis in Hv. rewrite Hvis in Hv. unfold view in Hv.
    destruct (nth_error (lines p) (h - 1)) as [l|]; [|discriminate].
    exists l. split; [reflexivity|]. destruct l; [discriminate|discriminate]. }
  assert (Hlenp : length (lines p) = h \/ length (lines p) = S h /\ nth_error (lines p) h = Some []).
  { destruct Hcase as [(_ & A)|(_ & A & B)]; [left|right]; auto. }
  destruct (crop_spec p h Hh0 Hlenp Hline) as (Hcl & Hch).
  assert (Hvc : forall x y, y < h -> view (lines (crop p)) x y = spec_view stored x y).
  { intros x y Hy. rewrite Hcl. unfold view. rewrite nth_error_firstn by exact Hy.
    specialize (Hv x y). cbn [Nat.ltb Nat.leb] in Hv. rewrite Nat.sub_0_r in Hv. exact Hv. }
  assert (Hfb : fold_bold (crop p) = crop p).
  { apply fold_bold_id. intros x y c Hc.
    destruct (Nat.lt_ge_cases y h) as [Hy|Hy].
    - rewrite Hvc in Hc by exact Hy. apply (spec_view_good stored x y c HG Hc).
    - unfold view in Hc. rewrite (proj2 (nth_error_None _ y)) in Hc; [discriminate|].
      rewrite Hcl, firstn_length. lia. }
  cbv zeta. rewrite Hfb. split; [|split].
  - rewrite Hcl, firstn_length. destruct Hlenp as [A|(A & _)]; lia.
  - exact Hch.
  - exact Hvc.
Qed.

Lemma cellwise_row_sync w PS WS astep bstep R rel emit dom_cell :
  cell_sync w PS WS astep bstep R rel emit dom_cell ->
  row_sync w PS WS astep bstep (cellwise WS emit w) R (fun r => Forall dom_cell (row_cells w r)) rel.
Proof.
  intros Hcell ws ps p r bs ws' x HR Hdom Hem. unfold cellwise in Hem.
  destruct (emit_cells WS emit ws (row_cells w r)) as [[b1 ws1]|] eqn:E; [|discriminate].
  inversion Hem; subst. split; [reflexivity|].
  exact (cells_sync w PS WS astep bstep R rel emit dom_cell Hcell (row_cells w r) ws ps p bs ws' HR Hdom E).
Qed.
