(* Lemmas about the IGS tokenizer model (Model/IgsTok.v): the loop-header invariant; no panic site of the tokenizer is reached,
   for every executor and fallback parser (since the fix commits Loop::new rejects a step <= 0 and Loop::next_step saturates
   its counter and the +n / -n / !n parameter arithmetic); every loop ends after at most |to - from| steps. *)
From Coq Require Import NArith ZArith List Bool Lia Arith.
From IE Require Import Gen.IgsGen Model.RipTok Model.BgiKernel Proofs.RipTokProofs Proofs.BgiProofs.
From IE Require Import Model.IgsTok.
Import ListNotations.
Local Open Scope Z_scope.

(* ---------- Vec helpers ---------- *)
Lemma unsnoc_spec {A} (l : list A) : match unsnoc l with None => l = [] | Some (r, x) => l = r ++ [x] end.
Proof.
  induction l as [|a t IH]; simpl; [reflexivity|].
  destruct (unsnoc t) as [[r y]|]; [rewrite IH; reflexivity|rewrite IH; reflexivity].
Qed.

Lemma unsnoc_app {A} (r : list A) x : unsnoc (r ++ [x]) = Some (r, x).
Proof. induction r as [|a t IH]; simpl; [reflexivity|rewrite IH; reflexivity]. Qed.

Lemma unsnoc_nonempty {A} (l : list A) : l <> [] -> exists r x, unsnoc l = Some (r, x) /\ l = r ++ [x].
Proof.
  intros H. pose proof (unsnoc_spec l) as S. destruct (unsnoc l) as [[r x]|]; [eauto|contradiction].
Qed.

Lemma push_digit_length nums ch : nums <> [] -> length (push_digit nums ch) = length nums.
Proof.
  intros H. unfold push_digit. destruct (unsnoc_nonempty nums H) as (r & x & E & ->). rewrite E. rewrite !app_length. reflexivity.
Qed.

Lemma push_digit_nth nums ch k : (S k < length nums)%nat -> nth_error (push_digit nums ch) k = nth_error nums k.
Proof.
  intros H. assert (NE : nums <> []) by (destruct nums; simpl in H; [lia|discriminate]).
  unfold push_digit. destruct (unsnoc_nonempty nums NE) as (r & x & E & ->). rewrite E.
  rewrite app_length in H. simpl in H. rewrite !nth_error_app1 by lia. reflexivity.
Qed.

(* ---------- the invariant ---------- *)
(* every number the tokenizer accumulates lies in 0 ..= i32::MAX - 48 (parse_next_number saturates, then subtracts '0') *)
Definition NUM_MAX : Z := 2147483599.
Definition NumOk (v : Z) : Prop := 0 <= v <= NUM_MAX.
Definition NumsOk (p : ipars) : Prop := Forall NumOk (i_nums p).
Definition InI32 (v : Z) : Prop := I32_MIN <= v <= I32_MAX.

Definition LoopHdr (p : ipars) : Prop :=
  nth_error (i_nums p) 3 = Some 0 /\
  match i_lstate p with
  | LStart | LReadCommand => length (i_nums p) = 4%nat
  | LReadCount => length (i_nums p) = 5%nat
  | LReadParameter => length (i_nums p) = 5%nat /\ i_lparams p <> [] /\ Forall (fun g => g <> []) (i_lparams p)
  end.

(* a loop as Loop::new builds it from tokenizer numbers and next_step keeps it: at least one parameter group, delay 0, a
   positive step, header numbers from the tokenizer, the counter on the `from` side of its range (it may have run past `to`,
   saturated at the i32 limits) *)
Definition LoopOk (l : iloop) : Prop :=
  l_params l <> [] /\ l_delay l = 0 /\ 1 <= l_step l <= NUM_MAX /\ 0 <= l_from l <= NUM_MAX /\ 0 <= l_to l <= NUM_MAX /\
  (if l_from l <? l_to l then l_from l <= l_i l <= I32_MAX else I32_MIN <= l_i l <= l_from l).

Definition IgsInv (p : ipars) : Prop :=
  (i_state p = IReadCommand CH_LOOP -> (4 <= length (i_nums p))%nat -> LoopHdr p) /\
  (i_state p = IReadCommand CH_LOOP -> (length (i_nums p) < 4)%nat -> i_lstate p = LStart) /\
  match i_loop p with Some l => LoopOk l | None => True end.

(* the invariant of the stream theorems *)
Definition IgsInvN (p : ipars) : Prop := IgsInv p /\ NumsOk p.

Lemma ipars_new_inv : IgsInv ipars_new.
Proof. split; [intros H; discriminate H|split; [intros H; discriminate H|exact I]]. Qed.

Lemma ipars_new_invN : IgsInvN ipars_new.
Proof. split; [exact ipars_new_inv|constructor]. Qed.

(* ---------- the numbers of the tokenizer ---------- *)
Lemma sat_range z : I32_MIN <= sat z <= I32_MAX.
Proof. unfold sat, I32_MIN, I32_MAX. lia. Qed.

Lemma sat_id z : I32_MIN <= z <= I32_MAX -> sat z = z.
Proof. unfold sat. lia. Qed.

Lemma parse_next_number_ok d ch : 0 <= d -> is_digit ch = true -> NumOk (parse_next_number d ch).
Proof.
  unfold is_digit, parse_next_number, sat, NumOk, NUM_MAX, I32_MIN, I32_MAX. intros Hd H.
  apply andb_true_iff in H. destruct H as [H1 H2]. apply N.leb_le in H1, H2. lia.
Qed.

Lemma push_digit_ok nums ch : Forall NumOk nums -> is_digit ch = true -> Forall NumOk (push_digit nums ch).
Proof.
  intros F D. unfold push_digit. pose proof (unsnoc_spec nums) as SP. destruct (unsnoc nums) as [[r d]|].
  - subst nums. apply Forall_app in F. destruct F as [F1 F2]. inversion F2 as [|? ? Hd _]; subst.
    apply Forall_app. split; [exact F1|constructor; [apply parse_next_number_ok; [unfold NumOk in Hd; lia|exact D]|constructor]].
  - constructor; [apply parse_next_number_ok; [lia|exact D]|constructor].
Qed.

Lemma NumOk_i32 v : NumOk v -> InI32 v.
Proof. unfold NumOk, InI32, NUM_MAX, I32_MIN, I32_MAX. lia. Qed.

Lemma NumsOk_i32 p : NumsOk p -> Forall InI32 (i_nums p).
Proof. unfold NumsOk. apply Forall_impl. exact NumOk_i32. Qed.

Lemma nums_nth p k v : NumsOk p -> nth_error (i_nums p) k = Some v -> NumOk v.
Proof. intros F E. unfold NumsOk in F. rewrite Forall_forall in F. apply F. eapply nth_error_In; eauto. Qed.

(* a parser whose state is not "reading a loop command" satisfies the invariant as soon as its running loop does *)
Lemma IgsInv_idle p : i_state p <> IReadCommand CH_LOOP -> match i_loop p with Some l => LoopOk l | None => True end -> IgsInv p.
Proof. intros H L. split; [intros E; contradiction|split; [intros E; contradiction|exact L]]. Qed.

Definition PostI {X FS} (r : res (iworld X FS * bool)) : Prop :=
  match r with Ok (w', _) => IgsInv (w_p X FS w') | Panic _ => False end.

Section IgsProofs.
  Variable X : Type.
  Variable exec : X -> N -> list Z -> str -> X * bool.
  Variable FS : Type.
  Variable fb_print : FS -> N -> FS * bool.

  Lemma chkl_ok z : I32_MIN <= z <= I32_MAX -> chkl z = Ok z.
  Proof. intros H. unfold chkl. replace (in_i32 z) with true; [reflexivity|]. symmetry. apply in_i32_iff. exact H. Qed.

  Ltac chkl1 := rewrite chkl_ok by (unfold I32_MIN, I32_MAX, NUM_MAX in *; lia); cbn [bind].

  Lemma parse_i32_range s v : parse_i32 s = Some v -> InI32 v.
  Proof.
    unfold parse_i32. intros H.
    assert (B : forall (neg : bool) t,
              match t with
              | [] => None
              | _ => match digits_val t 0 with
                     | Some n => let v := if neg then - n else n in if in_i32 v then Some v else None
                     | None => None
                     end
              end = Some v -> InI32 v).
    { intros neg t. destruct t as [|c0 t0]; [discriminate|]. destruct (digits_val (c0 :: t0) 0) as [n|]; [|discriminate]. cbv zeta.
      destruct (in_i32 (if neg then - n else n)) eqn:E; [|discriminate]. intros Q. inversion Q; subst. apply in_i32_iff. exact E. }
    destruct s as [|c t]; [discriminate|].
    destruct (c =? 43)%N; [exact (B false t H)|]. destruct (c =? 45)%N; [exact (B true t H)|exact (B false (c :: t) H)].
  Qed.

  (* the plain i32 operations of a parameter evaluation (|i|, to - 1, to - 1 - i and its abs) are in range *)
  Definition RunRange (l : iloop) : Prop :=
    I32_MIN < l_i l <= I32_MAX /\ I32_MIN < l_to l <= I32_MAX /\ I32_MIN < l_to l - 1 - l_i l <= I32_MAX.

  Lemma eval_param_ok l p : RunRange l -> exists v, eval_param l p = Ok v /\ match v with Some z => InI32 z | None => True end.
  Proof.
    intros (RI & RT & RY). unfold eval_param. destruct (param_mode p) as [mode p'].
    chkl1. chkl1. chkl1. chkl1.
    destruct (param_base p' (Z.abs (l_i l)) (Z.abs (l_to l - 1 - l_i l))) as [v|] eqn:EB; [|exists None; split; [reflexivity|exact I]].
    eexists. split; [reflexivity|]. cbv beta.
    assert (BV : InI32 v).
    { unfold param_base in EB.
      destruct p' as [|c [|c2 t]]; try (apply parse_i32_range in EB; exact EB).
      destruct (c =? 120)%N; [inversion EB; subst; unfold InI32, I32_MIN, I32_MAX in *; lia|]. destruct (c =? 121)%N; [inversion EB; subst; unfold InI32, I32_MIN, I32_MAX in *; lia|].
      apply parse_i32_range in EB. exact EB. }
    destruct (mode =? 1); [apply sat_range|]. destruct (mode =? 2); [apply sat_range|]. destruct (mode =? 3); [apply sat_range|exact BV].
  Qed.

  Lemma eval_params_ok l ps : RunRange l -> exists vals, eval_params l ps = Ok vals /\ Forall InI32 vals.
  Proof.
    intros RR. induction ps as [|p t IH]; simpl; [eauto|].
    destruct (eval_param_ok l p RR) as (v & E & HV). rewrite E. cbn [bind].
    destruct IH as (r & E2 & F2). rewrite E2. cbn [bind]. eexists. split; [reflexivity|].
    destruct v; [constructor; assumption|exact F2].
  Qed.

  (* whatever the loop record, the values handed to the executor are i32 values *)
  Lemma eval_params_range l ps vals : eval_params l ps = Ok vals -> Forall InI32 vals.
  Proof.
    revert vals. induction ps as [|p t IH]; intros vals H; simpl in H; [inversion H; constructor|].
    destruct (eval_param l p) as [v|] eqn:E; cbn [bind] in H; [|discriminate].
    destruct (eval_params l t) as [r|]; cbn [bind] in H; [|discriminate]. inversion H; subst. specialize (IH r eq_refl).
    destruct v as [z|]; [|exact IH]. constructor; [|exact IH].
    unfold eval_param in E. destruct (param_mode p) as [mode p'].
    unfold chkl in E.
    destruct (in_i32 (Z.abs (l_i l))) eqn:E1; cbn [bind] in E; [|discriminate].
    destruct (in_i32 (l_to l - 1)) eqn:E2; cbn [bind] in E; [|discriminate].
    destruct (in_i32 (l_to l - 1 - l_i l)) eqn:E3; cbn [bind] in E; [|discriminate].
    destruct (in_i32 (Z.abs (l_to l - 1 - l_i l))) eqn:E4; cbn [bind] in E; [|discriminate].
    apply in_i32_iff in E1, E4.
    destruct (param_base p' (Z.abs (l_i l)) (Z.abs (l_to l - 1 - l_i l))) as [v|] eqn:EB; [|discriminate].
    inversion E; subst.
    assert (BV : InI32 v).
    { unfold param_base in EB.
      destruct p' as [|c [|c2 t']]; try (apply parse_i32_range in EB; exact EB).
      destruct (c =? 120)%N; [inversion EB; subst; exact E1|]. destruct (c =? 121)%N; [inversion EB; subst; exact E4|].
      apply parse_i32_range in EB. exact EB. }
    destruct (mode =? 1); [apply sat_range|]. destruct (mode =? 2); [apply sat_range|]. destruct (mode =? 3); [apply sat_range|exact BV].
  Qed.

  Lemma LoopOk_running l : LoopOk l -> loop_running l = true -> RunRange l /\ I32_MIN <= l_i l - l_from l <= I32_MAX.
  Proof.
    intros (NP & D0 & HS & HF & HT & HI). unfold loop_running, RunRange.
    destruct (l_from l <? l_to l) eqn:EFT; [apply Z.ltb_lt in EFT|apply Z.ltb_ge in EFT]; intros ER;
      [apply Z.ltb_lt in ER|apply Z.ltb_lt in ER]; unfold I32_MIN, I32_MAX, NUM_MAX in *; lia.
  Qed.

  (* Loop::next_step never panics on such a loop, and the loop it returns is such a loop again *)
  Lemma next_step_post x l : LoopOk l ->
    match next_step X exec x l with
    | Ok (Some (_, l', _)) => LoopOk l'
    | Ok None => True
    | Panic _ => False
    end.
  Proof.
    intros LO. pose proof LO as (NP & D0 & HS & HF & HT & HI). unfold next_step.
    destruct (loop_running l) eqn:RUN; cbn [negb]; [|exact I].
    destruct (LoopOk_running l LO RUN) as [RR RD]. chkl1.
    destruct (Nat.eqb (length (l_params l)) 0) eqn:EL; [apply Nat.eqb_eq in EL; destruct (l_params l); [contradiction|discriminate]|].
    apply Nat.eqb_neq in EL.
    assert (U : 0 <= i32_as_usize (l_i l - l_from l)).
    { unfold i32_as_usize. destruct (l_i l - l_from l <? 0) eqn:E1; [apply Z.ltb_lt in E1; unfold I32_MIN in *; lia|apply Z.ltb_ge in E1; lia]. }
    pose proof (Z.rem_bound_pos (i32_as_usize (l_i l - l_from l)) (Z.of_nat (length (l_params l))) U ltac:(lia)) as B.
    destruct (idx_ok SITE_IGS_LOOP_INDEX (l_params l) _ B) as [ps [E _]]. rewrite E. cbn [bind].
    destruct (eval_params_ok l ps RR) as (vals & EV & _). rewrite EV. cbn [bind].
    destruct (exec x (l_cmd l) vals (l_str l)) as [x' ok].
    rewrite D0. cbn [Z.eqb negb]. cbv zeta.
    unfold LoopOk. cbn [l_i l_from l_to l_step l_delay l_params].
    unfold loop_running in RUN.
    destruct (l_from l <? l_to l) eqn:EFT; [apply Z.ltb_lt in EFT; apply Z.ltb_lt in RUN|apply Z.ltb_ge in EFT; apply Z.ltb_lt in RUN];
      (split; [exact NP|split; [reflexivity|split; [exact HS|split; [exact HF|split; [exact HT|]]]]]);
      unfold sat, I32_MIN, I32_MAX, NUM_MAX in *; lia.
  Qed.
  Ltac norm := unfold LoopHdr; cbn [w_p mkw p_state p_nums p_str p_lstate p_lcmd p_lparams p_gdc p_loop mkp i_state i_nums i_str i_lstate i_lcmd i_lparams i_gdc i_loop length].

  (* ---------- progress: every executed step brings the counter at least one (and, unless it saturates, `step`) closer to `to` ---------- *)
  Definition loop_measure (l : iloop) : Z := if l_from l <? l_to l then l_to l - l_i l else l_i l - l_to l.

  Lemma next_step_fields x l x' l' ok : next_step X exec x l = Ok (Some (x', l', ok)) ->
    loop_running l = true /\
    l' = {| l_i := if l_from l <? l_to l then sat (l_i l + l_step l) else sat (l_i l - l_step l); l_from := l_from l; l_to := l_to l;
            l_step := l_step l; l_delay := l_delay l; l_cmd := l_cmd l; l_str := l_str l; l_params := l_params l |}.
  Proof.
    unfold next_step. intros H.
    destruct (loop_running l); cbn [negb] in H; [|discriminate H]. split; [reflexivity|].
    destruct (chkl (l_i l - l_from l)); [|discriminate H]. cbn [bind] in H.
    destruct (Nat.eqb (length (l_params l)) 0); [discriminate H|].
    destruct (idx SITE_IGS_LOOP_INDEX (l_params l) _); [|discriminate H]. cbn [bind] in H.
    destruct (eval_params l a0); [|discriminate H]. cbn [bind] in H.
    destruct (exec x (l_cmd l) a1 (l_str l)). destruct (negb (l_delay l =? 0)); [discriminate H|].
    cbv zeta in H. inversion H; subst. reflexivity.
  Qed.

  Lemma next_step_progress x l x' l' ok : LoopOk l -> next_step X exec x l = Ok (Some (x', l', ok)) ->
    0 < loop_measure l /\ loop_measure l' <= loop_measure l - 1 /\
    (loop_measure l' = loop_measure l - l_step l \/ loop_measure l' <= 0) /\
    l_from l' = l_from l /\ l_to l' = l_to l /\ l_step l' = l_step l.
  Proof.
    intros (NP & D0 & HS & HF & HT & HI) H. destruct (next_step_fields _ _ _ _ _ H) as [RUN ->].
    unfold loop_measure, loop_running in *. cbn [l_i l_from l_to l_step].
    destruct (l_from l <? l_to l) eqn:EFT; apply Z.ltb_lt in RUN; unfold sat, I32_MIN, I32_MAX, NUM_MAX in *;
      (split; [lia|split; [lia|split; [lia|auto]]]).
  Qed.

  (* the old behaviour (documentation of what Loop::new now rejects): with step 0 a step leaves the loop as it is *)
  Lemma next_step_stuck x l x' l' ok : I32_MIN <= l_i l <= I32_MAX -> next_step X exec x l = Ok (Some (x', l', ok)) -> l_step l = 0 -> l' = l.
  Proof.
    intros RI H HS. destruct (next_step_fields _ _ _ _ _ H) as [_ ->]. rewrite HS, Z.add_0_r, Z.sub_0_r, sat_id by exact RI.
    destruct l as [li lf lt ls ld lc lst lp]. cbn [l_i l_from l_to l_step l_delay l_cmd l_str l_params] in *. subst ls.
    destruct (lf <? lt); reflexivity.
  Qed.

  (* termination: a loop runs at most max(0, its measure) steps, then next_step answers None *)
  Inductive LoopEnds : nat -> X -> iloop -> Prop :=
  | LE_done x l : next_step X exec x l = Ok None -> LoopEnds 0 x l
  | LE_step k x l x' l' ok : next_step X exec x l = Ok (Some (x', l', ok)) -> LoopEnds k x' l' -> LoopEnds (S k) x l.

  Lemma loop_ends n : forall x l, LoopOk l -> loop_measure l <= Z.of_nat n -> exists k, (k <= n)%nat /\ LoopEnds k x l.
  Proof.
    induction n as [|n IH]; intros x l LO HM.
    - pose proof (next_step_post x l LO) as Q. destruct (next_step X exec x l) as [[[[x' l'] ok]|]|s] eqn:E; [| |contradiction].
      + destruct (next_step_progress _ _ _ _ _ LO E) as (P & _). simpl in HM. lia.
      + exists 0%nat. split; [lia|constructor; exact E].
    - pose proof (next_step_post x l LO) as Q. destruct (next_step X exec x l) as [[[[x' l'] ok]|]|s] eqn:E; [| |contradiction].
      + destruct (next_step_progress _ _ _ _ _ LO E) as (P & D & _).
        destruct (IH x' l' Q ltac:(lia)) as (k & Hk & LE). exists (S k). split; [lia|econstructor; eauto].
      + exists 0%nat. split; [lia|constructor; exact E].
  Qed.

  Lemma idx5 (nums : list Z) k : length nums = 5%nat -> (k < 5)%nat -> exists v, idx SITE_IGS_NUMS nums (Z.of_nat k) = Ok v /\ nth_error nums k = Some v.
  Proof.
    intros L K. destruct (idx_ok SITE_IGS_NUMS nums (Z.of_nat k)) as [v [E N]]; [lia|]. rewrite Nat2Z.id in N. eauto.
  Qed.

  (* the `,` / `:` arms of ReadParameter *)
  Lemma loop_sep_post w colon : IgsInv (w_p X FS w) -> NumsOk (w_p X FS w) -> i_state (w_p X FS w) = IReadCommand CH_LOOP -> (4 <= length (i_nums (w_p X FS w)))%nat ->
    i_lstate (w_p X FS w) = LReadParameter -> PostI (loop_sep X exec FS w colon).
  Proof.
    intros (H1 & H2 & H3) NO ST L4 LS. destruct (H1 ST L4) as (N3 & HL). rewrite LS in HL. destruct HL as (L5 & NE & FA).
    unfold loop_sep.
    destruct (idx5 _ 4 L5 ltac:(lia)) as (n4 & E4 & _). change (Z.of_nat 4) with 4 in E4. rewrite E4. cbn [bind].
    destruct (n4 <=? total_params (i_lparams (w_p X FS w))).
    - destruct (idx5 _ 0 L5 ltac:(lia)) as (a & Ea & Na). change (Z.of_nat 0) with 0 in Ea. rewrite Ea. cbn [bind].
      destruct (idx5 _ 1 L5 ltac:(lia)) as (b & Eb & Nb). change (Z.of_nat 1) with 1 in Eb. rewrite Eb. cbn [bind].
      destruct (idx5 _ 2 L5 ltac:(lia)) as (c & Ec & Nc). change (Z.of_nat 2) with 2 in Ec. rewrite Ec. cbn [bind].
      destruct (idx5 _ 3 L5 ltac:(lia)) as (d & Ed & Nd). change (Z.of_nat 3) with 3 in Ed. rewrite Ed. cbn [bind].
      assert (d = 0) by congruence. subst d.
      pose proof (nums_nth _ _ _ NO Na) as Ra. pose proof (nums_nth _ _ _ NO Nb) as Rb. pose proof (nums_nth _ _ _ NO Nc) as Rc.
      unfold NumOk in Ra, Rb, Rc.
      destruct (from_char (i_lcmd (w_p X FS w))) as [cmd|].
      + destruct (c <=? 0) eqn:EC0; [cbn [PostI]; apply IgsInv_idle; [simpl; discriminate|simpl; exact H3]|]. apply Z.leb_gt in EC0.
        set (l := {| l_i := a; l_from := a; l_to := b; l_step := c; l_delay := 0; l_cmd := cmd; l_str := i_str (w_p X FS w); l_params := i_lparams (w_p X FS w) |}).
        assert (LO : LoopOk l).
        { unfold LoopOk, l. cbn [l_i l_from l_to l_step l_delay l_params].
          split; [exact NE|split; [reflexivity|split; [lia|split; [lia|split; [lia|]]]]].
          destruct (a <? b); unfold I32_MIN, I32_MAX, NUM_MAX in *; lia. }
        pose proof (next_step_post (w_x X FS w) l LO) as Q.
        destruct (next_step X exec (w_x X FS w) l) as [[[[x' l'] ok]|]|s]; cbn [bind PostI]; [| |exact Q].
        * apply IgsInv_idle; [simpl; discriminate|simpl; exact Q].
        * apply IgsInv_idle; [simpl; discriminate|simpl; exact H3].
      + cbn [PostI]. apply IgsInv_idle; [simpl; discriminate|simpl; exact H3].
    - destruct colon.
      + cbn [PostI]. split; [|split; [|exact H3]]; norm.
        * intros _ _. split; [exact N3|]. rewrite LS. split; [exact L5|split; [destruct (i_lparams (w_p X FS w)); discriminate|]].
          apply Forall_app. split; [exact FA|constructor; [discriminate|constructor]].
        * intros _ C. lia.
      + destruct (unsnoc_nonempty _ NE) as (r & g & EU & EQ). rewrite EU. cbn [PostI].
        split; [|split; [|exact H3]]; norm.
        * intros _ _. split; [exact N3|]. rewrite LS. split; [exact L5|split; [destruct r; discriminate|]].
          rewrite EQ in FA. apply Forall_app in FA. destruct FA as [FA1 FA2]. apply Forall_app. split; [exact FA1|].
          constructor; [destruct g; discriminate|constructor].
        * intros _ C. lia.
  Qed.

  (* the LoopCommand sub-machine *)
  Lemma loop_char_post w ch : IgsInv (w_p X FS w) -> NumsOk (w_p X FS w) -> i_state (w_p X FS w) = IReadCommand CH_LOOP -> (4 <= length (i_nums (w_p X FS w)))%nat ->
    PostI (loop_char X exec FS w ch).
  Proof.
    intros HI NO ST L4. pose proof HI as (H1 & H2 & H3). destruct (H1 ST L4) as (N3 & HL).
    unfold loop_char. destruct (i_lstate (w_p X FS w)) eqn:LS.
    - (* Start *)
      cbn [PostI]. destruct (ch =? 44)%N; [|exact HI].
      split; [|split; [|exact H3]]; norm; [intros _ _; split; [exact N3|exact HL]|intros _ C; lia].
    - (* ReadCommand *)
      destruct ((ch =? 64)%N || (ch =? 124)%N || (ch =? 44)%N); cbn [PostI].
      + split; [|split; [|exact H3]]; norm.
        * intros _ _. split; [rewrite nth_error_app1 by lia; exact N3|rewrite app_length; simpl; lia].
        * intros _ C. rewrite app_length in C. simpl in C. lia.
      + split; [|split; [|exact H3]]; norm;
          [intros _ _; split; [exact N3|rewrite LS; exact HL]|intros _ C; lia].
    - (* ReadCount *)
      assert (NE : i_nums (w_p X FS w) <> []) by (destruct (i_nums (w_p X FS w)); [simpl in HL; discriminate|discriminate]).
      destruct (is_digit ch); cbn [PostI].
      + split; [|split; [|exact H3]]; norm.
        * intros _ _. split; [rewrite push_digit_nth by lia; exact N3|rewrite LS, push_digit_length by exact NE; exact HL].
        * intros _ C. rewrite push_digit_length in C by exact NE. lia.
      + destruct (ch =? 44)%N; cbn [PostI].
        * split; [|split; [|exact H3]]; norm.
          -- intros _ _. split; [exact N3|]. split; [exact HL|split; [discriminate|constructor; [discriminate|constructor]]].
          -- intros _ C. lia.
        * apply IgsInv_idle; [simpl; discriminate|simpl; exact H3].
    - (* ReadParameter *)
      destruct HL as (L5 & NE & FA).
      destruct ((ch =? 95)%N || (ch =? 10)%N || (ch =? 13)%N); [exact HI|].
      destruct (ch =? 44)%N; [apply loop_sep_post; assumption|].
      destruct (ch =? 58)%N; [apply loop_sep_post; assumption|].
      destruct (unsnoc_nonempty _ NE) as (r & g & EU & EQ). rewrite EU.
      rewrite EQ in FA. apply Forall_app in FA. destruct FA as [FA1 FA2]. inversion FA2 as [|? ? NG _]; subst.
      destruct (unsnoc_nonempty _ NG) as (r2 & s & EU2 & EQ2). rewrite EU2. cbn [PostI].
      split; [|split; [|exact H3]]; norm.
      + intros _ _. split; [exact N3|]. rewrite LS. split; [exact L5|split; [destruct r; discriminate|]].
        apply Forall_app. split; [exact FA1|constructor; [destruct r2; discriminate|constructor]].
      + intros _ C. lia.
  Qed.

  Lemma state_neq_loop c : (c =? CH_LOOP)%N = false -> IReadCommand c <> IReadCommand CH_LOOP.
  Proof. intros E H. inversion H; subst. rewrite N.eqb_refl in E. discriminate. Qed.

  (* print_char *)
  Lemma igs_step_post w ch : IgsInv (w_p X FS w) -> NumsOk (w_p X FS w) -> PostI (igs_step X exec FS fb_print w ch).
  Proof.
    intros HI NO. pose proof HI as (H1 & H2 & H3). unfold igs_step.
    destruct (i_state (w_p X FS w)) as [| | | |c] eqn:ST.
    - (* Default *)
      destruct (ch =? 71)%N; cbn [PostI]; [apply IgsInv_idle; [simpl; discriminate|simpl; exact H3]|].
      destruct (fb_print (w_fb X FS w) ch) as [f ok]. cbn [PostI w_p mkw]. exact HI.
    - (* GotIgsStart *)
      destruct (ch =? 35)%N; cbn [PostI]; [apply IgsInv_idle; [simpl; discriminate|simpl; exact H3]|].
      destruct (fb_print (w_fb X FS w) 71%N) as [f1 o1]. destruct (fb_print f1 ch) as [f2 ok]. cbn [PostI].
      apply IgsInv_idle; [simpl; discriminate|simpl; exact H3].
    - (* ReadCommandStart *)
      destruct (ch =? 13)%N; cbn [PostI]; [apply IgsInv_idle; [simpl; rewrite ST; discriminate|simpl; exact H3]|].
      destruct (ch =? 10)%N; cbn [PostI]; [apply IgsInv_idle; [simpl; discriminate|simpl; exact H3]|].
      destruct (ch =? 38)%N; cbn [PostI].
      + split; [|split; [|exact H3]]; norm; [intros _ C; lia|intros _ _; reflexivity].
      + destruct (from_char ch) as [c|] eqn:FC; cbn [PostI]; [|apply IgsInv_idle; [simpl; discriminate|simpl; exact H3]].
        apply IgsInv_idle; [|simpl; exact H3]. simpl. intros E. inversion E; subst c.
        unfold from_char in FC. destruct (existsb (N.eqb ch) IGS_LETTERS) eqn:EX; [|discriminate]. inversion FC; subst ch.
        vm_compute in EX. discriminate.
    - (* SkipNewLine *)
      destruct (ch =? 13)%N; cbn [PostI]; [apply IgsInv_idle; [simpl; discriminate|simpl; exact H3]|].
      destruct (ch =? 71)%N; cbn [PostI]; [apply IgsInv_idle; [simpl; discriminate|simpl; exact H3]|].
      destruct (fb_print (w_fb X FS w) ch) as [f ok]. cbn [PostI]. apply IgsInv_idle; [simpl; discriminate|simpl; exact H3].
    - (* ReadCommand c *)
      destruct ((c =? IGS_WRITETEXT)%N && Nat.leb 3 (length (i_nums (w_p X FS w)))) eqn:EW.
      { apply andb_true_iff in EW. destruct EW as [EW _]. apply N.eqb_eq in EW.
        assert (NL : IReadCommand c <> IReadCommand CH_LOOP) by (subst c; intros E; inversion E).
        destruct (ch =? 64)%N.
        - destruct (exec (w_x X FS w) c (i_nums (w_p X FS w)) (i_str (w_p X FS w))) as [x' ok]. cbn [PostI].
          apply IgsInv_idle; [simpl; discriminate|simpl; exact H3].
        - destruct (ch =? 10)%N; cbn [PostI]; [apply IgsInv_idle; [simpl; discriminate|simpl; exact H3]|].
          apply IgsInv_idle; [simpl; rewrite ST; exact NL|simpl; exact H3]. }
      destruct ((c =? CH_LOOP)%N && Nat.leb 4 (length (i_nums (w_p X FS w)))) eqn:EL.
      { apply andb_true_iff in EL. destruct EL as [EL L4]. apply N.eqb_eq in EL. apply Nat.leb_le in L4. subst c.
        apply loop_char_post; assumption. }
      (* the general path: numbers, separators, the command end *)
      assert (KEEP : forall p', i_state p' = i_state (w_p X FS w) -> i_nums p' = i_nums (w_p X FS w) -> i_lstate p' = i_lstate (w_p X FS w) ->
                                i_lparams p' = i_lparams (w_p X FS w) -> i_loop p' = i_loop (w_p X FS w) -> IgsInv p').
      { intros p' E1 E2 E3 E4 E5. unfold IgsInv, LoopHdr. rewrite E1, E2, E3, E4, E5. exact HI. }
      destruct ((ch =? 32)%N || (ch =? 62)%N || (ch =? 13)%N); [exact HI|].
      destruct (ch =? 95)%N; [cbn [PostI]; apply KEEP; reflexivity|].
      destruct (ch =? 10)%N.
      { cbn [PostI]. destruct (i_gdc (w_p X FS w)); [apply IgsInv_idle; [simpl; discriminate|simpl; exact H3]|exact HI]. }
      (* a loop command still below four numbers stays in LoopState::Start; reaching four numbers happens only through `,` *)
      assert (GROW : forall nums', (length nums' <= S (length (i_nums (w_p X FS w))))%nat ->
                      (length nums' = 4%nat -> c = CH_LOOP -> nth_error nums' 3 = Some 0) ->
                      IgsInv (p_nums (p_gdc (w_p X FS w) false) nums')).
      { intros nums' LN N3. split; [|split; [|exact H3]]; norm; rewrite ST.
        - intros E L4'. inversion E; subst c.
          assert (LT : (length (i_nums (w_p X FS w)) < 4)%nat).
          { rewrite N.eqb_refl in EL. cbn [andb] in EL. apply Nat.leb_gt in EL. exact EL. }
          assert (L4e : length nums' = 4%nat) by lia.
          split; [apply N3; auto|]. rewrite (H2 eq_refl LT). exact L4e.
        - intros E LT'. inversion E; subst c. apply H2; [reflexivity|].
          rewrite N.eqb_refl in EL. cbn [andb] in EL. apply Nat.leb_gt in EL. exact EL. }
      destruct (is_digit ch).
      { cbn [PostI]. apply GROW.
        - unfold push_digit. destruct (unsnoc (i_nums (w_p X FS w))) as [[r d]|] eqn:EU.
          + pose proof (unsnoc_spec (i_nums (w_p X FS w))) as SP. rewrite EU in SP. rewrite SP, !app_length. simpl. lia.
          + simpl. lia.
        - intros L4' EC. subst c. exfalso.
          rewrite N.eqb_refl in EL. cbn [andb] in EL. apply Nat.leb_gt in EL.
          unfold push_digit in L4'. destruct (unsnoc (i_nums (w_p X FS w))) as [[r d]|] eqn:EU.
          + pose proof (unsnoc_spec (i_nums (w_p X FS w))) as SP. rewrite EU in SP. rewrite SP in EL. rewrite app_length in *. simpl in *. lia.
          + simpl in L4'. discriminate. }
      destruct (ch =? 44)%N.
      { cbn [PostI]. apply GROW.
        - rewrite app_length. simpl. lia.
        - intros L4' _. rewrite app_length in L4'. simpl in L4'. rewrite nth_error_app2 by lia.
          replace (3 - length (i_nums (w_p X FS w)))%nat with 0%nat by lia. reflexivity. }
      destruct (ch =? 58)%N.
      { destruct (exec (w_x X FS w) c (i_nums (w_p X FS w)) (i_str (w_p X FS w))) as [x' ok]. cbn [PostI].
        apply IgsInv_idle; [simpl; discriminate|simpl; exact H3]. }
      cbn [PostI]. apply IgsInv_idle; [simpl; discriminate|simpl; exact H3].
  Qed.

  (* get_next_action *)
  Lemma igs_next_action_post w : IgsInv (w_p X FS w) -> PostI (igs_next_action X exec FS w).
  Proof.
    intros HI. pose proof HI as (H1 & H2 & H3). unfold igs_next_action.
    destruct (i_loop (w_p X FS w)) as [l|] eqn:EL; [|exact HI].
    pose proof (next_step_post (w_x X FS w) l H3) as Q.
    destruct (next_step X exec (w_x X FS w) l) as [[[[x' l'] ok]|]|s]; cbn [bind PostI]; [| |exact Q].
    - split; [exact H1|split; [exact H2|exact Q]].
    - split; [exact H1|split; [exact H2|exact I]].
  Qed.

  (* ---------- the numbers stay tokenizer numbers (independent of the loop-header invariant) ---------- *)
  Definition PostN (r : res (iworld X FS * bool)) : Prop := match r with Ok (w', _) => NumsOk (w_p X FS w') | Panic _ => True end.

  Lemma loop_sep_N w colon : NumsOk (w_p X FS w) -> PostN (loop_sep X exec FS w colon).
  Proof.
    intros NO. unfold loop_sep.
    destruct (idx SITE_IGS_NUMS (i_nums (w_p X FS w)) 4); cbn [bind PostN]; [|exact I].
    destruct (a <=? total_params (i_lparams (w_p X FS w))).
    - destruct (idx SITE_IGS_NUMS (i_nums (w_p X FS w)) 0); cbn [bind PostN]; [|exact I].
      destruct (idx SITE_IGS_NUMS (i_nums (w_p X FS w)) 1); cbn [bind PostN]; [|exact I].
      destruct (idx SITE_IGS_NUMS (i_nums (w_p X FS w)) 2); cbn [bind PostN]; [|exact I].
      destruct (idx SITE_IGS_NUMS (i_nums (w_p X FS w)) 3); cbn [bind PostN]; [|exact I].
      destruct (from_char (i_lcmd (w_p X FS w))) as [cmd|]; cbn [PostN]; [|exact NO].
      destruct (a2 <=? 0); cbn [PostN]; [exact NO|].
      match goal with |- context [next_step X exec ?x ?l] => destruct (next_step X exec x l) as [[[[x' l'] ok]|]|s] end; cbn [bind PostN]; [exact NO|exact NO|exact I].
    - destruct colon; cbn [PostN]; [exact NO|]. destruct (unsnoc (i_lparams (w_p X FS w))) as [[r g]|]; cbn [PostN]; [exact NO|exact I].
  Qed.

  Lemma igs_step_N w ch : NumsOk (w_p X FS w) -> PostN (igs_step X exec FS fb_print w ch).
  Proof.
    intros NO. assert (N0 : forall p', i_nums p' = [] -> NumsOk p') by (intros p' E; unfold NumsOk; rewrite E; constructor).
    unfold igs_step.
    destruct (i_state (w_p X FS w)) as [| | | |c].
    - destruct (ch =? 71)%N; cbn [PostN]; [exact NO|]. destruct (fb_print (w_fb X FS w) ch). exact NO.
    - destruct (ch =? 35)%N; cbn [PostN]; [exact NO|]. destruct (fb_print (w_fb X FS w) 71%N). destruct (fb_print f ch). exact NO.
    - destruct (ch =? 13)%N; cbn [PostN]; [apply N0; reflexivity|]. destruct (ch =? 10)%N; cbn [PostN]; [apply N0; reflexivity|].
      destruct (ch =? 38)%N; cbn [PostN]; [apply N0; reflexivity|]. destruct (from_char ch); apply N0; reflexivity.
    - destruct (ch =? 13)%N; cbn [PostN]; [exact NO|]. destruct (ch =? 71)%N; cbn [PostN]; [exact NO|]. destruct (fb_print (w_fb X FS w) ch). exact NO.
    - destruct ((c =? IGS_WRITETEXT)%N && Nat.leb 3 (length (i_nums (w_p X FS w)))).
      { destruct (ch =? 64)%N.
        - destruct (exec (w_x X FS w) c (i_nums (w_p X FS w)) (i_str (w_p X FS w))). apply N0. reflexivity.
        - destruct (ch =? 10)%N; exact NO. }
      destruct ((c =? CH_LOOP)%N && Nat.leb 4 (length (i_nums (w_p X FS w)))).
      { unfold loop_char. destruct (i_lstate (w_p X FS w)).
        - destruct (ch =? 44)%N; exact NO.
        - destruct ((ch =? 64)%N || (ch =? 124)%N || (ch =? 44)%N); cbn [PostN]; [|exact NO].
          unfold NumsOk. norm. apply Forall_app. split; [exact NO|constructor; [unfold NumOk, NUM_MAX; lia|constructor]].
        - destruct (is_digit ch) eqn:ED; [cbn [PostN]; unfold NumsOk; norm; apply push_digit_ok; assumption|]. destruct (ch =? 44)%N; exact NO.
        - destruct ((ch =? 95)%N || (ch =? 10)%N || (ch =? 13)%N); [exact NO|].
          destruct (ch =? 44)%N; [apply loop_sep_N; exact NO|]. destruct (ch =? 58)%N; [apply loop_sep_N; exact NO|].
          destruct (unsnoc (i_lparams (w_p X FS w))) as [[r g]|]; [|exact I]. destruct (unsnoc g) as [[r2 s]|]; [exact NO|exact I]. }
      destruct ((ch =? 32)%N || (ch =? 62)%N || (ch =? 13)%N); [exact NO|].
      destruct (ch =? 95)%N; [exact NO|]. destruct (ch =? 10)%N; [destruct (i_gdc (w_p X FS w)); exact NO|].
      destruct (is_digit ch) eqn:ED; [cbn [PostN]; unfold NumsOk; norm; apply push_digit_ok; assumption|].
      destruct (ch =? 44)%N; [cbn [PostN]; unfold NumsOk; norm; apply Forall_app; split; [exact NO|constructor; [unfold NumOk, NUM_MAX; lia|constructor]]|].
      destruct (ch =? 58)%N; [|exact NO].
      destruct (exec (w_x X FS w) c (i_nums (w_p X FS w)) (i_str (w_p X FS w))). apply N0. reflexivity.
  Qed.

  Lemma igs_next_action_N w : NumsOk (w_p X FS w) -> PostN (igs_next_action X exec FS w).
  Proof.
    intros NO. unfold igs_next_action. destruct (i_loop (w_p X FS w)) as [l|]; [|exact NO].
    destruct (next_step X exec (w_x X FS w) l) as [[[[x' l'] ok]|]|s]; cbn [bind PostN]; [exact NO|exact NO|exact I].
  Qed.

  (* ---------- one event, the whole run ---------- *)
  Lemma igs_event_post w e : IgsInvN (w_p X FS w) ->
    match igs_event X exec FS fb_print w e with Ok (w', _) => IgsInvN (w_p X FS w') | Panic _ => False end.
  Proof.
    intros [HI NO].
    assert (A : PostI (igs_event X exec FS fb_print w e)) by (destruct e; [apply igs_step_post|apply igs_next_action_post]; assumption).
    assert (B : PostN (igs_event X exec FS fb_print w e)) by (destruct e; [apply igs_step_N|apply igs_next_action_N]; assumption).
    destruct (igs_event X exec FS fb_print w e) as [[w' ok]|s]; cbn [PostI PostN] in *; [split; assumption|exact A].
  Qed.

  Lemma igs_run_post es : forall w, IgsInvN (w_p X FS w) ->
    match igs_run X exec FS fb_print w es with Ok w' => IgsInvN (w_p X FS w') | Panic _ => False end.
  Proof.
    induction es as [|e t IH]; intros w HI; cbn [igs_run]; [exact HI|].
    pose proof (igs_event_post w e HI) as Q.
    destruct (igs_event X exec FS fb_print w e) as [[w' ok]|s]; cbn [bind fst] in *; [apply IH; exact Q|exact Q].
  Qed.
End IgsProofs.

(* ---------- an invariant of the executor state is an invariant of the whole parser ---------- *)
(* the executor only ever sees i32 parameters: tokenizer numbers, or loop parameter values (parsed i32s, |i|, saturated sums) *)
Section ExecInv.
  Variable X : Type.
  Variable exec : X -> N -> list Z -> str -> X * bool.
  Variable FS : Type.
  Variable fb_print : FS -> N -> FS * bool.
  Variable Q : X -> Prop.
  Hypothesis exec_Q : forall x c ps s, Forall InI32 ps -> Q x -> Q (fst (exec x c ps s)).

  Definition PostQ (r : res (iworld X FS * bool)) : Prop := match r with Ok (w', _) => Q (w_x X FS w') | Panic _ => True end.

  Lemma next_step_Q x l : Q x -> match next_step X exec x l with Ok (Some (x', _, _)) => Q x' | _ => True end.
  Proof.
    intros HQ. unfold next_step. destruct (negb (loop_running l)); [exact I|].
    destruct (chkl (l_i l - l_from l)); cbn [bind]; [|exact I].
    destruct (Nat.eqb (length (l_params l)) 0); [exact I|].
    destruct (idx SITE_IGS_LOOP_INDEX (l_params l) _); cbn [bind]; [|exact I].
    destruct (eval_params l a0) as [vals|] eqn:EV; cbn [bind]; [|exact I].
    pose proof (exec_Q x (l_cmd l) vals (l_str l) (eval_params_range l a0 vals EV) HQ) as E. destruct (exec x (l_cmd l) vals (l_str l)) as [x' ok]. cbn [fst] in E.
    destruct (negb (l_delay l =? 0)); [exact I|]. cbv zeta. exact E.
  Qed.

  Lemma loop_sep_Q w colon : Q (w_x X FS w) -> PostQ (loop_sep X exec FS w colon).
  Proof.
    intros HQ. unfold loop_sep.
    destruct (idx SITE_IGS_NUMS (i_nums (w_p X FS w)) 4); cbn [bind PostQ]; [|exact I].
    destruct (a <=? total_params (i_lparams (w_p X FS w))).
    - destruct (idx SITE_IGS_NUMS (i_nums (w_p X FS w)) 0); cbn [bind PostQ]; [|exact I].
      destruct (idx SITE_IGS_NUMS (i_nums (w_p X FS w)) 1); cbn [bind PostQ]; [|exact I].
      destruct (idx SITE_IGS_NUMS (i_nums (w_p X FS w)) 2); cbn [bind PostQ]; [|exact I].
      destruct (idx SITE_IGS_NUMS (i_nums (w_p X FS w)) 3); cbn [bind PostQ]; [|exact I].
      destruct (from_char (i_lcmd (w_p X FS w))) as [cmd|]; cbn [PostQ]; [|exact HQ].
      destruct (a2 <=? 0); cbn [PostQ]; [exact HQ|].
      match goal with |- context [next_step X exec ?x ?l] => pose proof (next_step_Q x l HQ) as E; destruct (next_step X exec x l) as [[[[x' l'] ok]|]|s] end;
        cbn [bind PostQ]; [exact E|exact HQ|exact I].
    - destruct colon; cbn [PostQ]; [exact HQ|]. destruct (unsnoc (i_lparams (w_p X FS w))) as [[r g]|]; cbn [PostQ]; [exact HQ|exact I].
  Qed.

  Lemma igs_step_Q w ch : NumsOk (w_p X FS w) -> Q (w_x X FS w) -> PostQ (igs_step X exec FS fb_print w ch).
  Proof.
    intros NO HQ. pose proof (NumsOk_i32 _ NO) as NI. unfold igs_step.
    destruct (i_state (w_p X FS w)) as [| | | |c].
    - destruct (ch =? 71)%N; cbn [PostQ]; [exact HQ|]. destruct (fb_print (w_fb X FS w) ch). exact HQ.
    - destruct (ch =? 35)%N; cbn [PostQ]; [exact HQ|]. destruct (fb_print (w_fb X FS w) 71%N). destruct (fb_print f ch). exact HQ.
    - destruct (ch =? 13)%N; cbn [PostQ]; [exact HQ|]. destruct (ch =? 10)%N; cbn [PostQ]; [exact HQ|]. destruct (ch =? 38)%N; cbn [PostQ]; [exact HQ|].
      destruct (from_char ch); exact HQ.
    - destruct (ch =? 13)%N; cbn [PostQ]; [exact HQ|]. destruct (ch =? 71)%N; cbn [PostQ]; [exact HQ|]. destruct (fb_print (w_fb X FS w) ch). exact HQ.
    - destruct ((c =? IGS_WRITETEXT)%N && Nat.leb 3 (length (i_nums (w_p X FS w)))).
      { destruct (ch =? 64)%N.
        - pose proof (exec_Q (w_x X FS w) c (i_nums (w_p X FS w)) (i_str (w_p X FS w)) NI HQ) as E.
          destruct (exec (w_x X FS w) c (i_nums (w_p X FS w)) (i_str (w_p X FS w))). exact E.
        - destruct (ch =? 10)%N; exact HQ. }
      destruct ((c =? CH_LOOP)%N && Nat.leb 4 (length (i_nums (w_p X FS w)))).
      { unfold loop_char. destruct (i_lstate (w_p X FS w)).
        - exact HQ.
        - destruct ((ch =? 64)%N || (ch =? 124)%N || (ch =? 44)%N); exact HQ.
        - destruct (is_digit ch); [exact HQ|]. destruct (ch =? 44)%N; exact HQ.
        - destruct ((ch =? 95)%N || (ch =? 10)%N || (ch =? 13)%N); [exact HQ|].
          destruct (ch =? 44)%N; [apply loop_sep_Q; exact HQ|]. destruct (ch =? 58)%N; [apply loop_sep_Q; exact HQ|].
          destruct (unsnoc (i_lparams (w_p X FS w))) as [[r g]|]; [|exact I]. destruct (unsnoc g) as [[r2 s]|]; [exact HQ|exact I]. }
      destruct ((ch =? 32)%N || (ch =? 62)%N || (ch =? 13)%N); [exact HQ|].
      destruct (ch =? 95)%N; [exact HQ|]. destruct (ch =? 10)%N; [exact HQ|]. destruct (is_digit ch); [exact HQ|].
      destruct (ch =? 44)%N; [exact HQ|].
      destruct (ch =? 58)%N; [|exact HQ].
      pose proof (exec_Q (w_x X FS w) c (i_nums (w_p X FS w)) (i_str (w_p X FS w)) NI HQ) as E.
      destruct (exec (w_x X FS w) c (i_nums (w_p X FS w)) (i_str (w_p X FS w))). exact E.
  Qed.

  Lemma igs_next_action_Q w : Q (w_x X FS w) -> PostQ (igs_next_action X exec FS w).
  Proof.
    intros HQ. unfold igs_next_action. destruct (i_loop (w_p X FS w)) as [l|]; [|exact HQ].
    pose proof (next_step_Q (w_x X FS w) l HQ) as E.
    destruct (next_step X exec (w_x X FS w) l) as [[[[x' l'] ok]|]|s]; cbn [bind PostQ]; [exact E|exact HQ|exact I].
  Qed.

  Lemma igs_run_Q es : forall w, NumsOk (w_p X FS w) -> Q (w_x X FS w) ->
    match igs_run X exec FS fb_print w es with Ok w' => Q (w_x X FS w') | Panic _ => True end.
  Proof.
    induction es as [|e t IH]; intros w NO HQ; cbn [igs_run]; [exact HQ|].
    assert (E : PostQ (igs_event X exec FS fb_print w e)) by (destruct e; [apply igs_step_Q; assumption|apply igs_next_action_Q; assumption]).
    assert (B : PostN X FS (igs_event X exec FS fb_print w e)) by (destruct e; [apply igs_step_N|apply igs_next_action_N]; assumption).
    destruct (igs_event X exec FS fb_print w e) as [[w' ok]|s]; cbn [bind PostQ PostN fst] in *; [apply IH; assumption|exact I].
  Qed.
End ExecInv.
