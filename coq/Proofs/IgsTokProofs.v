(* Lemmas about the IGS tokenizer model (Model/IgsTok.v): the loop-header invariant, no panic site of the tokenizer is reached
   except the i32 arithmetic of Loop::next_step (known finding igs-panic:next_step), for every executor and fallback parser. *)
From Coq Require Import NArith ZArith List Bool Lia Arith.
From IE Require Import Gen.IgsGen Model.RipTok Model.BgiKernel Proofs.RipTokProofs Proofs.BgiProofs.
From IE Require Import Model.IgsTok.
Import ListNotations.
Local Open Scope Z_scope.

(* ---------- Vec helpers ---------- *)
Lemma unsnoc_spec {A} (l : list A) : match unsnoc l with None => l = [] | Some (r, x) => l = r ++ [x] end.
Proof.
  induction l as [|a t IH]; simpl; [reflexivity|].
  destruct (unsnoc t) as [[r y]|]; [rewrite IH; reflexivity|rewrite IH; reflexivity].
Qed.

Lemma unsnoc_app {A} (r : list A) x : unsnoc (r ++ [x]) = Some (r, x).
Proof. induction r as [|a t IH]; simpl; [reflexivity|rewrite IH; reflexivity]. Qed.

Lemma unsnoc_nonempty {A} (l : list A) : l <> [] -> exists r x, unsnoc l = Some (r, x) /\ l = r ++ [x].
Proof.
  intros H. pose proof (unsnoc_spec l) as S. destruct (unsnoc l) as [[r x]|]; [eauto|contradiction].
Qed.

Lemma push_digit_length nums ch : nums <> [] -> length (push_digit nums ch) = length nums.
Proof.
  intros H. unfold push_digit. destruct (unsnoc_nonempty nums H) as (r & x & E & ->). rewrite E. rewrite !app_length. reflexivity.
Qed.

Lemma push_digit_nth nums ch k : (S k < length nums)%nat -> nth_error (push_digit nums ch) k = nth_error nums k.
Proof.
  intros H. assert (NE : nums <> []) by (destruct nums; simpl in H; [lia|discriminate]).
  unfold push_digit. destruct (unsnoc_nonempty nums NE) as (r & x & E & ->). rewrite E.
  rewrite app_length in H. simpl in H. rewrite !nth_error_app1 by lia. reflexivity.
Qed.

(* ---------- the invariant ---------- *)
Definition LoopHdr (p : ipars) : Prop :=
  nth_error (i_nums p) 3 = Some 0 /\
  match i_lstate p with
  | LStart | LReadCommand => length (i_nums p) = 4%nat
  | LReadCount => length (i_nums p) = 5%nat
  | LReadParameter => length (i_nums p) = 5%nat /\ i_lparams p <> [] /\ Forall (fun g => g <> []) (i_lparams p)
  end.

Definition LoopOk (l : iloop) : Prop := l_params l <> [] /\ l_delay l = 0.

Definition IgsInv (p : ipars) : Prop :=
  (i_state p = IReadCommand CH_LOOP -> (4 <= length (i_nums p))%nat -> LoopHdr p) /\
  (i_state p = IReadCommand CH_LOOP -> (length (i_nums p) < 4)%nat -> i_lstate p = LStart) /\
  match i_loop p with Some l => LoopOk l | None => True end.

Lemma ipars_new_inv : IgsInv ipars_new.
Proof. split; [intros H; discriminate H|split; [intros H; discriminate H|exact I]]. Qed.

(* a parser whose state is not "reading a loop command" satisfies the invariant as soon as its running loop does *)
Lemma IgsInv_idle p : i_state p <> IReadCommand CH_LOOP -> match i_loop p with Some l => LoopOk l | None => True end -> IgsInv p.
Proof. intros H L. split; [intros E; contradiction|split; [intros E; contradiction|exact L]]. Qed.

Definition PostI {X FS} (r : res (iworld X FS * bool)) : Prop :=
  match r with Ok (w', _) => IgsInv (w_p X FS w') | Panic s => s = SITE_IGS_LOOP_ARITH end.

Section IgsProofs.
  Variable X : Type.
  Variable exec : X -> N -> list Z -> str -> X * bool.
  Variable FS : Type.
  Variable fb_print : FS -> N -> FS * bool.

  Lemma chkl_cases z : (chkl z = Ok z /\ I32_MIN <= z <= I32_MAX) \/ chkl z = Panic SITE_IGS_LOOP_ARITH.
  Proof. unfold chkl. destruct (in_i32 z) eqn:E; [left; split; [reflexivity|apply in_i32_iff; exact E]|right; reflexivity]. Qed.

  Ltac chkl_tac := match goal with |- context [chkl ?z] => destruct (chkl_cases z) as [[-> ?] | ->]; cbn [bind]; [|reflexivity] end.

  Lemma eval_param_post l p : match eval_param l p with Ok _ => True | Panic s => s = SITE_IGS_LOOP_ARITH end.
  Proof.
    unfold eval_param. destruct (param_mode p) as [mode p'].
    repeat chkl_tac.
    destruct (param_base p' (Z.abs (l_i l)) (Z.abs (l_to l - 1 - l_i l))) as [v|]; [|exact I].
    destruct (mode =? 1); [chkl_tac; exact I|]. destruct (mode =? 2); [chkl_tac; exact I|]. destruct (mode =? 3); [chkl_tac; exact I|exact I].
  Qed.

  Lemma eval_params_post l ps : match eval_params l ps with Ok _ => True | Panic s => s = SITE_IGS_LOOP_ARITH end.
  Proof.
    induction ps as [|p t IH]; simpl; [exact I|].
    pose proof (eval_param_post l p) as Q. destruct (eval_param l p) as [v|s]; cbn [bind]; [|exact Q].
    destruct (eval_params l t) as [r|s]; cbn [bind]; [exact I|exact IH].
  Qed.

  (* Loop::next_step: with at least one parameter group and delay 0, only the i32 arithmetic can panic; the loop it returns
     keeps that shape *)
  Lemma next_step_post x l : LoopOk l ->
    match next_step X exec x l with
    | Ok (Some (_, l', _)) => LoopOk l'
    | Ok None => True
    | Panic s => s = SITE_IGS_LOOP_ARITH
    end.
  Proof.
    intros [NP D0]. unfold next_step. destruct (negb (loop_running l)); [exact I|].
    chkl_tac.
    destruct (Nat.eqb (length (l_params l)) 0) eqn:EL; [apply Nat.eqb_eq in EL; destruct (l_params l); [contradiction|discriminate]|].
    apply Nat.eqb_neq in EL.
    set (d := l_i l - l_from l) in *.
    assert (U : 0 <= i32_as_usize d).
    { unfold i32_as_usize. destruct (d <? 0) eqn:E1; [apply Z.ltb_lt in E1; unfold I32_MIN in *; lia|apply Z.ltb_ge in E1; lia]. }
    pose proof (Z.rem_bound_pos (i32_as_usize d) (Z.of_nat (length (l_params l))) U ltac:(lia)) as B.
    destruct (idx_ok SITE_IGS_LOOP_INDEX (l_params l) _ B) as [ps [E _]]. rewrite E. cbn [bind].
    pose proof (eval_params_post l ps) as Q. destruct (eval_params l ps) as [vals|s]; cbn [bind]; [|exact Q].
    destruct (exec x (l_cmd l) vals (l_str l)) as [x' ok].
    rewrite D0. cbn [Z.eqb negb].
    destruct (l_from l <? l_to l); chkl_tac; (split; [exact NP|reflexivity]).
  Qed.
  Ltac norm := unfold LoopHdr; cbn [w_p mkw p_state p_nums p_str p_lstate p_lcmd p_lparams p_gdc p_loop mkp i_state i_nums i_str i_lstate i_lcmd i_lparams i_gdc i_loop length].

  (* ---------- Loop::next_step outside the known class: header and parameter values up to 10^9 ---------- *)
  Definition LB : Z := 1000000000.

  Definition ParamSmall (p : str) : Prop := forall v, parse_i32 (snd (param_mode p)) = Some v -> - LB <= v <= LB.

  Definition LoopSmall (l : iloop) : Prop :=
    0 <= l_from l <= LB /\ 0 <= l_to l <= LB /\ 0 <= l_step l <= LB /\
    (if l_from l <? l_to l then l_from l <= l_i l <= 2 * LB else - LB <= l_i l <= l_from l) /\
    Forall (Forall ParamSmall) (l_params l).

  Lemma chkl_ok z : I32_MIN <= z <= I32_MAX -> chkl z = Ok z.
  Proof. intros H. unfold chkl. replace (in_i32 z) with true; [reflexivity|]. symmetry. apply in_i32_iff. exact H. Qed.

  Ltac chkl1 := rewrite chkl_ok by (unfold I32_MIN, I32_MAX, LB in *; lia); cbn [bind].

  Lemma eval_param_small l p : 0 <= l_i l <= LB -> 0 <= l_to l <= LB -> ParamSmall p -> exists v, eval_param l p = Ok v.
  Proof.
    intros HI HT PS. unfold eval_param. unfold ParamSmall in PS. destruct (param_mode p) as [mode p']. cbn [snd] in PS.
    repeat chkl1.
    destruct (param_base p' (Z.abs (l_i l)) (Z.abs (l_to l - 1 - l_i l))) as [v|] eqn:EB; [|eauto].
    assert (BV : - LB - 1 <= v <= LB + 1).
    { unfold param_base in EB.
      destruct p' as [|c [|c2 t]]; try (specialize (PS v EB); lia).
      destruct (c =? 120)%N; [inversion EB; lia|]. destruct (c =? 121)%N; [inversion EB; lia|]. specialize (PS v EB). lia. }
    destruct (mode =? 1); [chkl1; eauto|]. destruct (mode =? 2); [chkl1; eauto|]. destruct (mode =? 3); [chkl1; eauto|cbn [bind]; eauto].
  Qed.

  Lemma eval_params_small l ps : 0 <= l_i l <= LB -> 0 <= l_to l <= LB -> Forall ParamSmall ps -> exists v, eval_params l ps = Ok v.
  Proof.
    intros HI HT. induction ps as [|p t IH]; intros F; simpl; [eauto|].
    inversion F as [|? ? P1 F1]; subst. destruct (eval_param_small l p HI HT P1) as [v E]. rewrite E. cbn [bind].
    destruct (IH F1) as [r E2]. rewrite E2. cbn [bind]. eauto.
  Qed.

  (* with a header and parameter values of at most 10^9 a loop step never panics, and the next state is again such a loop *)
  Lemma next_step_small x l : LoopOk l -> LoopSmall l ->
    match next_step X exec x l with
    | Ok (Some (_, l', _)) => LoopOk l' /\ LoopSmall l'
    | Ok None => True
    | Panic _ => False
    end.
  Proof.
    intros [NP D0] (HF & HT & HS & HI & HP). unfold next_step, loop_running.
    destruct (l_from l <? l_to l) eqn:EFT; [apply Z.ltb_lt in EFT|apply Z.ltb_ge in EFT].
    - destruct (l_i l <? l_to l) eqn:ER; [apply Z.ltb_lt in ER|exact I]. cbn [negb]. chkl1.
      destruct (Nat.eqb (length (l_params l)) 0) eqn:EL; [apply Nat.eqb_eq in EL; destruct (l_params l); [contradiction|discriminate]|].
      apply Nat.eqb_neq in EL.
      assert (U : 0 <= i32_as_usize (l_i l - l_from l)) by (unfold i32_as_usize; destruct (l_i l - l_from l <? 0) eqn:E1; [apply Z.ltb_lt in E1|apply Z.ltb_ge in E1]; lia).
      pose proof (Z.rem_bound_pos _ (Z.of_nat (length (l_params l))) U ltac:(lia)) as B.
      destruct (idx_ok SITE_IGS_LOOP_INDEX (l_params l) _ B) as [ps [E NE]]. rewrite E. cbn [bind].
      assert (PS : Forall ParamSmall ps) by (rewrite Forall_forall in HP; apply HP; eapply nth_error_In; eauto).
      destruct (eval_params_small l ps ltac:(lia) HT PS) as [vals EV]. rewrite EV. cbn [bind].
      destruct (exec x (l_cmd l) vals (l_str l)) as [x' ok]. rewrite D0. cbn [Z.eqb negb]. chkl1.
      split; [split; [exact NP|reflexivity]|]. unfold LoopSmall. cbn [l_i l_from l_to l_step l_params].
      replace (l_from l <? l_to l) with true by (symmetry; apply Z.ltb_lt; lia). repeat split; try lia; assumption.
    - destruct (l_to l <? l_i l) eqn:ER; [apply Z.ltb_lt in ER|exact I]. cbn [negb]. chkl1.
      destruct (Nat.eqb (length (l_params l)) 0) eqn:EL; [apply Nat.eqb_eq in EL; destruct (l_params l); [contradiction|discriminate]|].
      apply Nat.eqb_neq in EL.
      assert (U : 0 <= i32_as_usize (l_i l - l_from l)) by (unfold i32_as_usize; destruct (l_i l - l_from l <? 0) eqn:E1; [apply Z.ltb_lt in E1|apply Z.ltb_ge in E1]; unfold LB in *; lia).
      pose proof (Z.rem_bound_pos _ (Z.of_nat (length (l_params l))) U ltac:(lia)) as B.
      destruct (idx_ok SITE_IGS_LOOP_INDEX (l_params l) _ B) as [ps [E NE]]. rewrite E. cbn [bind].
      assert (PS : Forall ParamSmall ps) by (rewrite Forall_forall in HP; apply HP; eapply nth_error_In; eauto).
      destruct (eval_params_small l ps ltac:(lia) HT PS) as [vals EV]. rewrite EV. cbn [bind].
      destruct (exec x (l_cmd l) vals (l_str l)) as [x' ok]. rewrite D0. cbn [Z.eqb negb]. chkl1.
      split; [split; [exact NP|reflexivity]|]. unfold LoopSmall. cbn [l_i l_from l_to l_step l_params].
      replace (l_from l <? l_to l) with false by (symmetry; apply Z.ltb_ge; lia). repeat split; try lia; assumption.
  Qed.

  (* ---------- progress: a loop with step >= 1 ends after at most |to - from| steps; with step 0 it never ends ---------- *)
  Definition loop_measure (l : iloop) : Z := if l_from l <? l_to l then l_to l - l_i l else l_i l - l_to l.

  Lemma next_step_progress x l x' l' ok : next_step X exec x l = Ok (Some (x', l', ok)) -> 1 <= l_step l ->
    0 < loop_measure l /\ loop_measure l' <= loop_measure l - l_step l /\
    l_from l' = l_from l /\ l_to l' = l_to l /\ l_step l' = l_step l.
  Proof.
    unfold next_step, loop_running, loop_measure. intros H HS.
    destruct (l_from l <? l_to l) eqn:EFT.
    - destruct (l_i l <? l_to l) eqn:ER; [apply Z.ltb_lt in ER|discriminate H]. cbn [negb] in H.
      destruct (chkl (l_i l - l_from l)); [|discriminate H]. cbn [bind] in H.
      destruct (Nat.eqb (length (l_params l)) 0); [discriminate H|].
      destruct (idx SITE_IGS_LOOP_INDEX (l_params l) _); [|discriminate H]. cbn [bind] in H.
      destruct (eval_params l a0); [|discriminate H]. cbn [bind] in H.
      destruct (exec x (l_cmd l) a1 (l_str l)). destruct (negb (l_delay l =? 0)); [discriminate H|].
      unfold chkl in H. destruct (in_i32 (l_i l + l_step l)); [|discriminate H]. cbn [bind] in H. inversion H; subst. simpl. rewrite EFT. lia.
    - destruct (l_to l <? l_i l) eqn:ER; [apply Z.ltb_lt in ER|discriminate H]. cbn [negb] in H.
      destruct (chkl (l_i l - l_from l)); [|discriminate H]. cbn [bind] in H.
      destruct (Nat.eqb (length (l_params l)) 0); [discriminate H|].
      destruct (idx SITE_IGS_LOOP_INDEX (l_params l) _); [|discriminate H]. cbn [bind] in H.
      destruct (eval_params l a0); [|discriminate H]. cbn [bind] in H.
      destruct (exec x (l_cmd l) a1 (l_str l)). destruct (negb (l_delay l =? 0)); [discriminate H|].
      unfold chkl in H. destruct (in_i32 (l_i l - l_step l)); [|discriminate H]. cbn [bind] in H. inversion H; subst. simpl. rewrite EFT. lia.
  Qed.

  Lemma next_step_stuck x l x' l' ok : next_step X exec x l = Ok (Some (x', l', ok)) -> l_step l = 0 -> l' = l.
  Proof.
    unfold next_step. intros H HS.
    destruct (negb (loop_running l)); [discriminate H|].
    destruct (chkl (l_i l - l_from l)); [|discriminate H]. cbn [bind] in H.
    destruct (Nat.eqb (length (l_params l)) 0); [discriminate H|].
    destruct (idx SITE_IGS_LOOP_INDEX (l_params l) _); [|discriminate H]. cbn [bind] in H.
    destruct (eval_params l a0); [|discriminate H]. cbn [bind] in H.
    destruct (exec x (l_cmd l) a1 (l_str l)). destruct (negb (l_delay l =? 0)) eqn:ED; [discriminate H|].
    rewrite HS in H. rewrite Z.add_0_r, Z.sub_0_r in H.
    destruct (l_from l <? l_to l); unfold chkl in H; (destruct (in_i32 (l_i l)); [|discriminate H]); cbn [bind] in H; inversion H; subst; destruct l; simpl in *; subst; reflexivity.
  Qed.

  Lemma idx5 (nums : list Z) k : length nums = 5%nat -> (k < 5)%nat -> exists v, idx SITE_IGS_NUMS nums (Z.of_nat k) = Ok v /\ nth_error nums k = Some v.
  Proof.
    intros L K. destruct (idx_ok SITE_IGS_NUMS nums (Z.of_nat k)) as [v [E N]]; [lia|]. rewrite Nat2Z.id in N. eauto.
  Qed.

  (* the `,` / `:` arms of ReadParameter *)
  Lemma loop_sep_post w colon : IgsInv (w_p X FS w) -> i_state (w_p X FS w) = IReadCommand CH_LOOP -> (4 <= length (i_nums (w_p X FS w)))%nat ->
    i_lstate (w_p X FS w) = LReadParameter -> PostI (loop_sep X exec FS w colon).
  Proof.
    intros (H1 & H2 & H3) ST L4 LS. destruct (H1 ST L4) as (N3 & HL). rewrite LS in HL. destruct HL as (L5 & NE & FA).
    unfold loop_sep.
    destruct (idx5 _ 4 L5 ltac:(lia)) as (n4 & E4 & _). change (Z.of_nat 4) with 4 in E4. rewrite E4. cbn [bind].
    destruct (n4 <=? total_params (i_lparams (w_p X FS w))).
    - destruct (idx5 _ 0 L5 ltac:(lia)) as (a & Ea & _). change (Z.of_nat 0) with 0 in Ea. rewrite Ea. cbn [bind].
      destruct (idx5 _ 1 L5 ltac:(lia)) as (b & Eb & _). change (Z.of_nat 1) with 1 in Eb. rewrite Eb. cbn [bind].
      destruct (idx5 _ 2 L5 ltac:(lia)) as (c & Ec & _). change (Z.of_nat 2) with 2 in Ec. rewrite Ec. cbn [bind].
      destruct (idx5 _ 3 L5 ltac:(lia)) as (d & Ed & Nd). change (Z.of_nat 3) with 3 in Ed. rewrite Ed. cbn [bind].
      assert (d = 0) by congruence. subst d.
      destruct (from_char (i_lcmd (w_p X FS w))) as [cmd|].
      + set (l := {| l_i := a; l_from := a; l_to := b; l_step := c; l_delay := 0; l_cmd := cmd; l_str := i_str (w_p X FS w); l_params := i_lparams (w_p X FS w) |}).
        assert (LO : LoopOk l) by (split; [exact NE|reflexivity]).
        pose proof (next_step_post (w_x X FS w) l LO) as Q.
        destruct (next_step X exec (w_x X FS w) l) as [[[[x' l'] ok]|]|s]; cbn [bind PostI]; [| |exact Q].
        * apply IgsInv_idle; [simpl; discriminate|simpl; exact Q].
        * apply IgsInv_idle; [simpl; discriminate|simpl; exact H3].
      + cbn [PostI]. apply IgsInv_idle; [simpl; discriminate|simpl; exact H3].
    - destruct colon.
      + cbn [PostI]. split; [|split; [|exact H3]]; norm.
        * intros _ _. split; [exact N3|]. rewrite LS. split; [exact L5|split; [destruct (i_lparams (w_p X FS w)); discriminate|]].
          apply Forall_app. split; [exact FA|constructor; [discriminate|constructor]].
        * intros _ C. lia.
      + destruct (unsnoc_nonempty _ NE) as (r & g & EU & EQ). rewrite EU. cbn [PostI].
        split; [|split; [|exact H3]]; norm.
        * intros _ _. split; [exact N3|]. rewrite LS. split; [exact L5|split; [destruct r; discriminate|]].
          rewrite EQ in FA. apply Forall_app in FA. destruct FA as [FA1 FA2]. apply Forall_app. split; [exact FA1|].
          constructor; [destruct g; discriminate|constructor].
        * intros _ C. lia.
  Qed.

  (* the LoopCommand sub-machine *)
  Lemma loop_char_post w ch : IgsInv (w_p X FS w) -> i_state (w_p X FS w) = IReadCommand CH_LOOP -> (4 <= length (i_nums (w_p X FS w)))%nat ->
    PostI (loop_char X exec FS w ch).
  Proof.
    intros HI ST L4. pose proof HI as (H1 & H2 & H3). destruct (H1 ST L4) as (N3 & HL).
    unfold loop_char. destruct (i_lstate (w_p X FS w)) eqn:LS.
    - (* Start *)
      cbn [PostI]. destruct (ch =? 44)%N; [|exact HI].
      split; [|split; [|exact H3]]; norm; [intros _ _; split; [exact N3|exact HL]|intros _ C; lia].
    - (* ReadCommand *)
      destruct ((ch =? 64)%N || (ch =? 124)%N || (ch =? 44)%N); cbn [PostI].
      + split; [|split; [|exact H3]]; norm.
        * intros _ _. split; [rewrite nth_error_app1 by lia; exact N3|rewrite app_length; simpl; lia].
        * intros _ C. rewrite app_length in C. simpl in C. lia.
      + split; [|split; [|exact H3]]; norm;
          [intros _ _; split; [exact N3|rewrite LS; exact HL]|intros _ C; lia].
    - (* ReadCount *)
      assert (NE : i_nums (w_p X FS w) <> []) by (destruct (i_nums (w_p X FS w)); [simpl in HL; discriminate|discriminate]).
      destruct (is_digit ch); cbn [PostI].
      + split; [|split; [|exact H3]]; norm.
        * intros _ _. split; [rewrite push_digit_nth by lia; exact N3|rewrite LS, push_digit_length by exact NE; exact HL].
        * intros _ C. rewrite push_digit_length in C by exact NE. lia.
      + destruct (ch =? 44)%N; cbn [PostI].
        * split; [|split; [|exact H3]]; norm.
          -- intros _ _. split; [exact N3|]. split; [exact HL|split; [discriminate|constructor; [discriminate|constructor]]].
          -- intros _ C. lia.
        * apply IgsInv_idle; [simpl; discriminate|simpl; exact H3].
    - (* ReadParameter *)
      destruct HL as (L5 & NE & FA).
      destruct ((ch =? 95)%N || (ch =? 10)%N || (ch =? 13)%N); [exact HI|].
      destruct (ch =? 44)%N; [apply loop_sep_post; assumption|].
      destruct (ch =? 58)%N; [apply loop_sep_post; assumption|].
      destruct (unsnoc_nonempty _ NE) as (r & g & EU & EQ). rewrite EU.
      rewrite EQ in FA. apply Forall_app in FA. destruct FA as [FA1 FA2]. inversion FA2 as [|? ? NG _]; subst.
      destruct (unsnoc_nonempty _ NG) as (r2 & s & EU2 & EQ2). rewrite EU2. cbn [PostI].
      split; [|split; [|exact H3]]; norm.
      + intros _ _. split; [exact N3|]. rewrite LS. split; [exact L5|split; [destruct r; discriminate|]].
        apply Forall_app. split; [exact FA1|constructor; [destruct r2; discriminate|constructor]].
      + intros _ C. lia.
  Qed.

  Lemma state_neq_loop c : (c =? CH_LOOP)%N = false -> IReadCommand c <> IReadCommand CH_LOOP.
  Proof. intros E H. inversion H; subst. rewrite N.eqb_refl in E. discriminate. Qed.

  (* print_char *)
  Lemma igs_step_post w ch : IgsInv (w_p X FS w) -> PostI (igs_step X exec FS fb_print w ch).
  Proof.
    intros HI. pose proof HI as (H1 & H2 & H3). unfold igs_step.
    destruct (i_state (w_p X FS w)) as [| | | |c] eqn:ST.
    - (* Default *)
      destruct (ch =? 71)%N; cbn [PostI]; [apply IgsInv_idle; [simpl; discriminate|simpl; exact H3]|].
      destruct (fb_print (w_fb X FS w) ch) as [f ok]. cbn [PostI w_p mkw]. exact HI.
    - (* GotIgsStart *)
      destruct (ch =? 35)%N; cbn [PostI]; [apply IgsInv_idle; [simpl; discriminate|simpl; exact H3]|].
      destruct (fb_print (w_fb X FS w) 71%N) as [f1 o1]. destruct (fb_print f1 ch) as [f2 ok]. cbn [PostI].
      apply IgsInv_idle; [simpl; discriminate|simpl; exact H3].
    - (* ReadCommandStart *)
      destruct (ch =? 13)%N; cbn [PostI]; [apply IgsInv_idle; [simpl; rewrite ST; discriminate|simpl; exact H3]|].
      destruct (ch =? 10)%N; cbn [PostI]; [apply IgsInv_idle; [simpl; discriminate|simpl; exact H3]|].
      destruct (ch =? 38)%N; cbn [PostI].
      + split; [|split; [|exact H3]]; norm; [intros _ C; lia|intros _ _; reflexivity].
      + destruct (from_char ch) as [c|] eqn:FC; cbn [PostI]; [|apply IgsInv_idle; [simpl; discriminate|simpl; exact H3]].
        apply IgsInv_idle; [|simpl; exact H3]. simpl. intros E. inversion E; subst c.
        unfold from_char in FC. destruct (existsb (N.eqb ch) IGS_LETTERS) eqn:EX; [|discriminate]. inversion FC; subst ch.
        vm_compute in EX. discriminate.
    - (* SkipNewLine *)
      destruct (ch =? 13)%N; cbn [PostI]; [apply IgsInv_idle; [simpl; discriminate|simpl; exact H3]|].
      destruct (ch =? 71)%N; cbn [PostI]; [apply IgsInv_idle; [simpl; discriminate|simpl; exact H3]|].
      destruct (fb_print (w_fb X FS w) ch) as [f ok]. cbn [PostI]. apply IgsInv_idle; [simpl; discriminate|simpl; exact H3].
    - (* ReadCommand c *)
      destruct ((c =? IGS_WRITETEXT)%N && Nat.leb 3 (length (i_nums (w_p X FS w)))) eqn:EW.
      { apply andb_true_iff in EW. destruct EW as [EW _]. apply N.eqb_eq in EW.
        assert (NL : IReadCommand c <> IReadCommand CH_LOOP) by (subst c; intros E; inversion E).
        destruct (ch =? 64)%N.
        - destruct (exec (w_x X FS w) c (i_nums (w_p X FS w)) (i_str (w_p X FS w))) as [x' ok]. cbn [PostI].
          apply IgsInv_idle; [simpl; discriminate|simpl; exact H3].
        - destruct (ch =? 10)%N; cbn [PostI]; [apply IgsInv_idle; [simpl; discriminate|simpl; exact H3]|].
          apply IgsInv_idle; [simpl; rewrite ST; exact NL|simpl; exact H3]. }
      destruct ((c =? CH_LOOP)%N && Nat.leb 4 (length (i_nums (w_p X FS w)))) eqn:EL.
      { apply andb_true_iff in EL. destruct EL as [EL L4]. apply N.eqb_eq in EL. apply Nat.leb_le in L4. subst c.
        apply loop_char_post; assumption. }
      (* the general path: numbers, separators, the command end *)
      assert (KEEP : forall p', i_state p' = i_state (w_p X FS w) -> i_nums p' = i_nums (w_p X FS w) -> i_lstate p' = i_lstate (w_p X FS w) ->
                                i_lparams p' = i_lparams (w_p X FS w) -> i_loop p' = i_loop (w_p X FS w) -> IgsInv p').
      { intros p' E1 E2 E3 E4 E5. unfold IgsInv, LoopHdr. rewrite E1, E2, E3, E4, E5. exact HI. }
      destruct ((ch =? 32)%N || (ch =? 62)%N || (ch =? 13)%N); [exact HI|].
      destruct (ch =? 95)%N; [cbn [PostI]; apply KEEP; reflexivity|].
      destruct (ch =? 10)%N.
      { cbn [PostI]. destruct (i_gdc (w_p X FS w)); [apply IgsInv_idle; [simpl; discriminate|simpl; exact H3]|exact HI]. }
      (* a loop command still below four numbers stays in LoopState::Start; reaching four numbers happens only through `,` *)
      assert (GROW : forall nums', (length nums' <= S (length (i_nums (w_p X FS w))))%nat ->
                      (length nums' = 4%nat -> c = CH_LOOP -> nth_error nums' 3 = Some 0) ->
                      IgsInv (p_nums (p_gdc (w_p X FS w) false) nums')).
      { intros nums' LN N3. split; [|split; [|exact H3]]; norm; rewrite ST.
        - intros E L4'. inversion E; subst c.
          assert (LT : (length (i_nums (w_p X FS w)) < 4)%nat).
          { rewrite N.eqb_refl in EL. cbn [andb] in EL. apply Nat.leb_gt in EL. exact EL. }
          assert (L4e : length nums' = 4%nat) by lia.
          split; [apply N3; auto|]. rewrite (H2 eq_refl LT). exact L4e.
        - intros E LT'. inversion E; subst c. apply H2; [reflexivity|].
          rewrite N.eqb_refl in EL. cbn [andb] in EL. apply Nat.leb_gt in EL. exact EL. }
      destruct (is_digit ch).
      { cbn [PostI]. apply GROW.
        - unfold push_digit. destruct (unsnoc (i_nums (w_p X FS w))) as [[r d]|] eqn:EU.
          + pose proof (unsnoc_spec (i_nums (w_p X FS w))) as SP. rewrite EU in SP. rewrite SP, !app_length. simpl. lia.
          + simpl. lia.
        - intros L4' EC. subst c. exfalso.
          rewrite N.eqb_refl in EL. cbn [andb] in EL. apply Nat.leb_gt in EL.
          unfold push_digit in L4'. destruct (unsnoc (i_nums (w_p X FS w))) as [[r d]|] eqn:EU.
          + pose proof (unsnoc_spec (i_nums (w_p X FS w))) as SP. rewrite EU in SP. rewrite SP in EL. rewrite app_length in *. simpl in *. lia.
          + simpl in L4'. discriminate. }
      destruct (ch =? 44)%N.
      { cbn [PostI]. apply GROW.
        - rewrite app_length. simpl. lia.
        - intros L4' _. rewrite app_length in L4'. simpl in L4'. rewrite nth_error_app2 by lia.
          replace (3 - length (i_nums (w_p X FS w)))%nat with 0%nat by lia. reflexivity. }
      destruct (ch =? 58)%N.
      { destruct (exec (w_x X FS w) c (i_nums (w_p X FS w)) (i_str (w_p X FS w))) as [x' ok]. cbn [PostI].
        apply IgsInv_idle; [simpl; discriminate|simpl; exact H3]. }
      cbn [PostI]. apply IgsInv_idle; [simpl; discriminate|simpl; exact H3].
  Qed.

  (* get_next_action *)
  Lemma igs_next_action_post w : IgsInv (w_p X FS w) -> PostI (igs_next_action X exec FS w).
  Proof.
    intros HI. pose proof HI as (H1 & H2 & H3). unfold igs_next_action.
    destruct (i_loop (w_p X FS w)) as [l|] eqn:EL; [|exact HI].
    pose proof (next_step_post (w_x X FS w) l H3) as Q.
    destruct (next_step X exec (w_x X FS w) l) as [[[[x' l'] ok]|]|s]; cbn [bind PostI]; [| |exact Q].
    - split; [exact H1|split; [exact H2|exact Q]].
    - split; [exact H1|split; [exact H2|exact I]].
  Qed.

  Lemma igs_run_post es : forall w, IgsInv (w_p X FS w) ->
    match igs_run X exec FS fb_print w es with Ok w' => IgsInv (w_p X FS w') | Panic s => s = SITE_IGS_LOOP_ARITH end.
  Proof.
    induction es as [|e t IH]; intros w HI; cbn [igs_run]; [exact HI|].
    assert (Q : PostI (igs_event X exec FS fb_print w e)) by (destruct e; [apply igs_step_post|apply igs_next_action_post]; exact HI).
    destruct (igs_event X exec FS fb_print w e) as [[w' ok]|s]; cbn [bind PostI fst] in *; [apply IH; exact Q|exact Q].
  Qed.
End IgsProofs.

(* ---------- an invariant of the executor state is an invariant of the whole parser ---------- *)
Section ExecInv.
  Variable X : Type.
  Variable exec : X -> N -> list Z -> str -> X * bool.
  Variable FS : Type.
  Variable fb_print : FS -> N -> FS * bool.
  Variable Q : X -> Prop.
  Hypothesis exec_Q : forall x c ps s, Q x -> Q (fst (exec x c ps s)).

  Definition PostQ (r : res (iworld X FS * bool)) : Prop := match r with Ok (w', _) => Q (w_x X FS w') | Panic _ => True end.

  Lemma next_step_Q x l : Q x -> match next_step X exec x l with Ok (Some (x', _, _)) => Q x' | _ => True end.
  Proof.
    intros HQ. unfold next_step. destruct (negb (loop_running l)); [exact I|].
    destruct (chkl (l_i l - l_from l)); cbn [bind]; [|exact I].
    destruct (Nat.eqb (length (l_params l)) 0); [exact I|].
    destruct (idx SITE_IGS_LOOP_INDEX (l_params l) _); cbn [bind]; [|exact I].
    destruct (eval_params l a0); cbn [bind]; [|exact I].
    pose proof (exec_Q x (l_cmd l) a1 (l_str l) HQ) as E. destruct (exec x (l_cmd l) a1 (l_str l)) as [x' ok]. cbn [fst] in E.
    destruct (negb (l_delay l =? 0)); [exact I|].
    destruct (l_from l <? l_to l); (destruct (chkl _); cbn [bind]; [exact E|exact I]).
  Qed.

  Lemma loop_sep_Q w colon : Q (w_x X FS w) -> PostQ (loop_sep X exec FS w colon).
  Proof.
    intros HQ. unfold loop_sep.
    destruct (idx SITE_IGS_NUMS (i_nums (w_p X FS w)) 4); cbn [bind PostQ]; [|exact I].
    destruct (a <=? total_params (i_lparams (w_p X FS w))).
    - destruct (idx SITE_IGS_NUMS (i_nums (w_p X FS w)) 0); cbn [bind PostQ]; [|exact I].
      destruct (idx SITE_IGS_NUMS (i_nums (w_p X FS w)) 1); cbn [bind PostQ]; [|exact I].
      destruct (idx SITE_IGS_NUMS (i_nums (w_p X FS w)) 2); cbn [bind PostQ]; [|exact I].
      destruct (idx SITE_IGS_NUMS (i_nums (w_p X FS w)) 3); cbn [bind PostQ]; [|exact I].
      destruct (from_char (i_lcmd (w_p X FS w))) as [cmd|]; cbn [PostQ]; [|exact HQ].
      match goal with |- context [next_step X exec ?x ?l] => pose proof (next_step_Q x l HQ) as E; destruct (next_step X exec x l) as [[[[x' l'] ok]|]|s] end;
        cbn [bind PostQ]; [exact E|exact HQ|exact I].
    - destruct colon; cbn [PostQ]; [exact HQ|]. destruct (unsnoc (i_lparams (w_p X FS w))) as [[r g]|]; cbn [PostQ]; [exact HQ|exact I].
  Qed.

  Lemma igs_step_Q w ch : Q (w_x X FS w) -> PostQ (igs_step X exec FS fb_print w ch).
  Proof.
    intros HQ. unfold igs_step.
    destruct (i_state (w_p X FS w)) as [| | | |c].
    - destruct (ch =? 71)%N; cbn [PostQ]; [exact HQ|]. destruct (fb_print (w_fb X FS w) ch). exact HQ.
    - destruct (ch =? 35)%N; cbn [PostQ]; [exact HQ|]. destruct (fb_print (w_fb X FS w) 71%N). destruct (fb_print f ch). exact HQ.
    - destruct (ch =? 13)%N; cbn [PostQ]; [exact HQ|]. destruct (ch =? 10)%N; cbn [PostQ]; [exact HQ|]. destruct (ch =? 38)%N; cbn [PostQ]; [exact HQ|].
      destruct (from_char ch); exact HQ.
    - destruct (ch =? 13)%N; cbn [PostQ]; [exact HQ|]. destruct (ch =? 71)%N; cbn [PostQ]; [exact HQ|]. destruct (fb_print (w_fb X FS w) ch). exact HQ.
    - destruct ((c =? IGS_WRITETEXT)%N && Nat.leb 3 (length (i_nums (w_p X FS w)))).
      { destruct (ch =? 64)%N.
        - pose proof (exec_Q (w_x X FS w) c (i_nums (w_p X FS w)) (i_str (w_p X FS w)) HQ) as E.
          destruct (exec (w_x X FS w) c (i_nums (w_p X FS w)) (i_str (w_p X FS w))). exact E.
        - destruct (ch =? 10)%N; exact HQ. }
      destruct ((c =? CH_LOOP)%N && Nat.leb 4 (length (i_nums (w_p X FS w)))).
      { unfold loop_char. destruct (i_lstate (w_p X FS w)).
        - exact HQ.
        - destruct ((ch =? 64)%N || (ch =? 124)%N || (ch =? 44)%N); exact HQ.
        - destruct (is_digit ch); [exact HQ|]. destruct (ch =? 44)%N; exact HQ.
        - destruct ((ch =? 95)%N || (ch =? 10)%N || (ch =? 13)%N); [exact HQ|].
          destruct (ch =? 44)%N; [apply loop_sep_Q; exact HQ|]. destruct (ch =? 58)%N; [apply loop_sep_Q; exact HQ|].
          destruct (unsnoc (i_lparams (w_p X FS w))) as [[r g]|]; [|exact I]. destruct (unsnoc g) as [[r2 s]|]; [exact HQ|exact I]. }
      destruct ((ch =? 32)%N || (ch =? 62)%N || (ch =? 13)%N); [exact HQ|].
      destruct (ch =? 95)%N; [exact HQ|]. destruct (ch =? 10)%N; [exact HQ|]. destruct (is_digit ch); [exact HQ|].
      destruct (ch =? 44)%N; [exact HQ|].
      destruct (ch =? 58)%N; [|exact HQ].
      pose proof (exec_Q (w_x X FS w) c (i_nums (w_p X FS w)) (i_str (w_p X FS w)) HQ) as E.
      destruct (exec (w_x X FS w) c (i_nums (w_p X FS w)) (i_str (w_p X FS w))). exact E.
  Qed.

  Lemma igs_next_action_Q w : Q (w_x X FS w) -> PostQ (igs_next_action X exec FS w).
  Proof.
    intros HQ. unfold igs_next_action. destruct (i_loop (w_p X FS w)) as [l|]; [|exact HQ].
    pose proof (next_step_Q (w_x X FS w) l HQ) as E.
    destruct (next_step X exec (w_x X FS w) l) as [[[[x' l'] ok]|]|s]; cbn [bind PostQ]; [exact E|exact HQ|exact I].
  Qed.

  Lemma igs_run_Q es : forall w, Q (w_x X FS w) -> match igs_run X exec FS fb_print w es with Ok w' => Q (w_x X FS w') | Panic _ => True end.
  Proof.
    induction es as [|e t IH]; intros w HQ; cbn [igs_run]; [exact HQ|].
    assert (E : PostQ (igs_event X exec FS fb_print w e)) by (destruct e; [apply igs_step_Q|apply igs_next_action_Q]; exact HQ).
    destruct (igs_event X exec FS fb_print w e) as [[w' ok]|s]; cbn [bind PostQ fst] in *; [apply IH; exact E|exact I].
  Qed.
End ExecInv.
