(* C01 extension: the nesting bound of the macro replay is ONLY a bound: raising it never changes an outcome that was not
   the overflow.  Hence the streams that end in a state with bound MACRO_FUEL end in the same state with every larger bound
   (the real code has none), and a stream diverges for every bound iff the real recursion is unbounded. *)
From Coq Require Import ZArith NArith List Bool Lia.
From IE Require Import Model.TermCore Model.AnsiTok.
Import ListNotations.
Local Open Scope Z_scope.

Definition le_out (o1 o2 : outcome) : Prop := o1 = ODiverge \/ o1 = o2.
Lemma le_refl : forall o, le_out o o. Proof. right; reflexivity. Qed.

Lemma astep_gen_mono : forall inv1 inv2, (forall t p id, le_out (inv1 t p id) (inv2 t p id)) ->
  forall m ch, le_out (astep_gen inv1 m ch) (astep_gen inv2 m ch).
Proof.
  intros inv1 inv2 H [t p] ch. unfold astep_gen. cbn [tm ps].
  destruct (st p); try apply le_refl.
  - (* SEndCsi *)
    repeat match goal with |- le_out (if ?c then _ else _) (if ?c then _ else _) => destruct c end; try apply le_refl.
    destruct (nums p) as [|id r]; [apply le_refl|].
    destruct (H t (dflt p) id) as [E|E]; rewrite E; [left; reflexivity|apply le_refl].
  - (* SDcsMacro *)
    repeat match goal with |- le_out (if ?c then _ else _) (if ?c then _ else _) => destruct c end; try apply le_refl.
    repeat match goal with |- le_out (match ?l with _ => _ end) (match ?l with _ => _ end) => destruct l end; try apply le_refl.
    apply H.
Qed.

Lemma feed_diverge : forall (stepf : amach -> Z -> outcome) (body : list Z), fold_left (fun acc c => match acc with
                          | OOk m1 | OErr m1 => match stepf m1 c with OErr m2 => OOk m2 | o => o end
                          | o => o end) body ODiverge = ODiverge.
Proof. intros stepf body. induction body as [|c r IH]; cbn; auto. Qed.
Lemma feed_macro_mono : forall s1 s2, (forall m c, le_out (s1 m c) (s2 m c)) ->
  forall body t0 p0, le_out (feed_macro s1 body t0 p0) (feed_macro s2 body t0 p0).
Proof.
  intros s1 s2 H body t0 p0. unfold feed_macro. generalize (ok t0 p0) as o.
  induction body as [|c r IH]; intro o; cbn; [apply le_refl|].
  destruct o as [m1|m1|s|]; try apply IH.
  - destruct (H m1 c) as [E|E]; rewrite E; [left; apply feed_diverge|apply IH].
  - destruct (H m1 c) as [E|E]; rewrite E; [left; apply feed_diverge|apply IH].
Qed.

Lemma astep_mono : forall fuel m ch, le_out (astep fuel m ch) (astep (S fuel) m ch).
Proof.
  induction fuel as [|k IH]; intros m ch.
  - cbn [astep]. apply astep_gen_mono. intros t p id. destruct (lookup id (macros p)); [left; reflexivity|apply le_refl].
  - change (astep (S k) m ch) with (astep_gen (fun t0 p0 id => match lookup id (macros p0) with None => ok t0 p0 | Some body => feed_macro (astep k) body t0 p0 end) m ch).
    change (astep (S (S k)) m ch) with (astep_gen (fun t0 p0 id => match lookup id (macros p0) with None => ok t0 p0 | Some body => feed_macro (astep (S k)) body t0 p0 end) m ch).
    apply astep_gen_mono. intros t p id. destruct (lookup id (macros p)); [|apply le_refl]. apply feed_macro_mono. exact IH.
Qed.
(* an outcome that is not the overflow is the outcome for every larger bound *)
Lemma astep_fuel_irrelevant : forall k fuel m ch, astep fuel m ch <> ODiverge -> astep (fuel + k) m ch = astep fuel m ch.
Proof.
  induction k as [|k IH]; intros fuel m ch N; [rewrite Nat.add_0_r; reflexivity|].
  rewrite Nat.add_succ_r. destruct (astep_mono (fuel + k) m ch) as [E|E].
  - rewrite (IH fuel m ch N) in E. contradiction.
  - rewrite <- E. apply IH. exact N.
Qed.
