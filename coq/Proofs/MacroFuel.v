(* C01: the nesting limit of the macro replay (MAX_MACRO_NESTING) only CUTS: an outcome that is not the error
   MacroNestingTooDeep is the outcome for every larger limit, i.e. the outcome of the code before the limit existed (which
   behaved like "every limit").  And the old defect, stated on the same model: a macro that invokes itself reaches every
   limit - without one the recursion does not end. *)
From Coq Require Import ZArith NArith List Bool Lia.
From IE Require Import Model.TermCore Model.AnsiTok.
Import ListNotations.
Local Open Scope Z_scope.

Definition le_out (o1 o2 : outcome) : Prop := (exists d, o1 = ODeep d) \/ o1 = o2.
Lemma le_refl : forall o, le_out o o. Proof. right; reflexivity. Qed.

Lemma astep_gen_mono : forall inv1 inv2, (forall t p id, le_out (inv1 t p id) (inv2 t p id)) ->
  forall m ch, le_out (astep_gen inv1 m ch) (astep_gen inv2 m ch).
Proof.
  intros inv1 inv2 H [t p] ch. unfold astep_gen. cbn [tm ps].
  destruct (st p); try apply le_refl.
  - (* SEndCsi *)
    repeat match goal with |- le_out (if ?c then _ else _) (if ?c then _ else _) => destruct c end; try apply le_refl.
    destruct (nums p) as [|id r]; [apply le_refl|]. apply H.
  - (* SDcsMacro *)
    repeat match goal with |- le_out (if ?c then _ else _) (if ?c then _ else _) => destruct c end; try apply le_refl.
    repeat match goal with |- le_out (match ?l with _ => _ end) (match ?l with _ => _ end) => destruct l end; try apply le_refl.
    apply H.
Qed.

Lemma feed_deep : forall (stepf : amach -> Z -> outcome) (body : list Z) d, fold_left (fun acc c => match acc with
                          | OOk m1 => match stepf m1 c with OErr m2 => OOk m2 | o => o end
                          | o => o end) body (ODeep d) = ODeep d.
Proof. intros stepf body d. induction body as [|c r IH]; cbn; auto. Qed.
Lemma feed_macro_mono : forall s1 s2, (forall m c, le_out (s1 m c) (s2 m c)) ->
  forall body t0 p0, le_out (feed_macro s1 body t0 p0) (feed_macro s2 body t0 p0).
Proof.
  intros s1 s2 H body t0 p0. unfold feed_macro. generalize (ok t0 p0) as o.
  induction body as [|c r IH]; intro o; cbn; [apply le_refl|].
  destruct o as [m1|m1|s|d]; try apply IH.
  destruct (H m1 c) as [[d E]|E]; rewrite E; [left; exists d; apply feed_deep|apply IH].
Qed.

Lemma astep_mono : forall fuel m ch, le_out (astep fuel m ch) (astep (S fuel) m ch).
Proof.
  induction fuel as [|k IH]; intros m ch.
  - cbn [astep]. apply astep_gen_mono. intros t p id. destruct (lookup id (macros p)); [left; eexists; reflexivity|apply le_refl].
  - change (astep (S k) m ch) with (astep_gen (fun t0 p0 id => match lookup id (macros p0) with None => ok t0 p0 | Some body => feed_macro (astep k) body t0 p0 end) m ch).
    change (astep (S (S k)) m ch) with (astep_gen (fun t0 p0 id => match lookup id (macros p0) with None => ok t0 p0 | Some body => feed_macro (astep (S k)) body t0 p0 end) m ch).
    apply astep_gen_mono. intros t p id. destruct (lookup id (macros p)); [|apply le_refl]. apply feed_macro_mono. exact IH.
Qed.
(* an outcome that is not the nesting error is the outcome for every larger limit *)
Lemma astep_fuel_irrelevant : forall k fuel m ch, (forall d, astep fuel m ch <> ODeep d) -> astep (fuel + k) m ch = astep fuel m ch.
Proof.
  induction k as [|k IH]; intros fuel m ch N; [rewrite Nat.add_0_r; reflexivity|].
  rewrite Nat.add_succ_r. destruct (astep_mono (fuel + k) m ch) as [[d E]|E].
  - rewrite (IH fuel m ch N) in E. exfalso. exact (N d E).
  - rewrite <- E. apply IH. exact N.
Qed.

(* ---- the old defect on the same model: a self-invoking macro reaches every limit ------------------------------------------------ *)
(* a character other than z never reaches the macro invoker: its outcome does not depend on the budget *)
Lemma astep_gen_not_z : forall inv1 inv2 m ch, ch <> 122 -> astep_gen inv1 m ch = astep_gen inv2 m ch.
Proof.
  intros inv1 inv2 [t p] ch N. unfold astep_gen. cbn [tm ps]. destruct (Z.eqb_spec ch 122) as [E|_]; [contradiction|].
  destruct (st p); reflexivity.
Qed.
Lemma astep_not_z : forall k m ch, ch <> 122 -> astep k m ch = astep 0 m ch.
Proof. intros k m ch N. destruct k; [reflexivity|]. cbn [astep]. apply astep_gen_not_z. exact N. Qed.
Lemma feed_macro_ext_in : forall (s1 s2 : amach -> Z -> outcome) body, (forall m c, In c body -> s1 m c = s2 m c) ->
  forall t0 p0, feed_macro s1 body t0 p0 = feed_macro s2 body t0 p0.
Proof.
  intros s1 s2 body H t0 p0. unfold feed_macro. generalize (ok t0 p0) as o.
  induction body as [|c r IH]; intro o; cbn [fold_left]; [reflexivity|].
  rewrite IH by (intros m c' Hin; apply H; right; exact Hin).
  destruct o as [m1|m1|s|d]; try reflexivity. rewrite (H m1 c (or_introl eq_refl)). reflexivity.
Qed.
Lemma feed_macro_snoc : forall stepf pre c t0 p0,
  feed_macro stepf (pre ++ [c]) t0 p0 =
  match feed_macro stepf pre t0 p0 with OOk m1 => match stepf m1 c with OErr m2 => OOk m2 | o => o end | o => o end.
Proof. intros. unfold feed_macro. rewrite fold_left_app. cbn [fold_left]. destruct (fold_left _ pre (ok t0 p0)); reflexivity. Qed.
(* `CSI id * z` (the state is EndCSI('*') with a parameter): print_char is the invocation of macro id from state Default *)
Lemma astep_gen_invoke : forall inv m id r, st (ps m) = SEndCsi 42 -> nums (ps m) = id :: r ->
  astep_gen inv m 122 = inv (tm m) (dflt (ps m)) id.
Proof. intros inv [t p] id r H1 H2. cbn [tm ps] in *. unfold astep_gen. cbn [tm ps]. rewrite H1, H2. reflexivity. Qed.

(* ESC P 1;0;1!z 1B5B312A7A ESC \  defines macro 1 = `ESC [ 1 * z`;  then  ESC [ 1 *  : the next character z invokes it *)
Definition SELF_DEF : list Z := [27; 80; 49; 59; 48; 59; 49; 33; 122; 49; 66; 53; 66; 51; 49; 50; 65; 55; 65; 27; 92].
Definition SELF_BODY : list Z := [27; 91; 49; 42; 122].
Definition feed0 (m : amach) (cs : list Z) : amach :=
  fold_left (fun a c => match astep 0 a c with OOk a1 | OErr a1 | ODeep a1 => a1 | OPanic _ => a end) cs m.
Definition self_state : amach := feed0 (ansi_init 0 false 80 25) (SELF_DEF ++ [27; 91; 49; 42]).
Definition self_after : amach := mkA (tm self_state) (dflt (ps self_state)).
Lemma self_state_facts :
  st (ps self_state) = SEndCsi 42 /\ nums (ps self_state) = [1] /\ lookup 1 (macros (ps self_after)) = Some SELF_BODY /\
  feed_macro (astep 0) [27; 91; 49; 42] (tm self_state) (dflt (ps self_state)) = OOk self_state.
Proof. vm_compute. repeat split; reflexivity. Qed.
(* whatever the limit n: the invocation nests n deep and ends in the nesting error (with no limit it would not end at all:
   the stack overflow of the code before the fix) *)
Lemma macro_self_reaches_every_limit : forall n, astep n self_state 122 = ODeep self_after.
Proof.
  destruct self_state_facts as (F1 & F2 & F3 & F4).
  assert (U : forall k, astep k self_state 122 =
                        match lookup 1 (macros (ps self_after)) with
                        | None => ok (tm self_state) (dflt (ps self_state))
                        | Some body => match k with O => ODeep self_after | S k' => feed_macro (astep k') body (tm self_state) (dflt (ps self_state)) end
                        end).
  { intro k. destruct k; cbn [astep]; rewrite (astep_gen_invoke _ self_state 1 [] F1 F2); reflexivity. }
  induction n as [|k IH]; rewrite U, F3; [reflexivity|].
  change SELF_BODY with ([27; 91; 49; 42] ++ [122]). rewrite feed_macro_snoc.
  rewrite (feed_macro_ext_in (astep k) (astep 0) [27; 91; 49; 42]).
  - rewrite F4, IH. reflexivity.
  - intros m c Hin. apply astep_not_z. cbn in Hin. lia.
Qed.
