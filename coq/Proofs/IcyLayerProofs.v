(* Proofs about Model/IcyLayer.v: the LAYER_n record decodes back to an observationally equal layer. *)
From Coq Require Import ZArith NArith List Bool Lia.
From IE Require Import Lib.Tbl Lib.Bits Gen.IcyGen Model.IcyLayer.
From IE Require Model.Unicode Proofs.UnicodeProofs.     (* C10: char::from_u32 and String::from_utf8_lossy; used qualified *)
Import ListNotations.
Local Open Scope N_scope.

(* ------------------------------------------------------------------ generated constants *)
Lemma consts_ok :
  INVISIBLE = 32768 /\ SHORT_DATA = 16384 /\ INVISIBLE_SHORT = 49152 /\
  L_IS_VISIBLE = 1 /\ L_POS_LOCK = 2 /\ L_EDIT_LOCK = 4 /\ L_HAS_ALPHA = 8 /\ L_ALPHA_LOCKED = 16 /\ MAX_CHUNK = 3000000.
Proof. repeat split; reflexivity. Qed.

(* ------------------------------------------------------------------ little-endian bytes *)
Lemma le_length n v : length (le n v) = n.
Proof. revert v; induction n; intro v; cbn [le length]; [reflexivity | now rewrite IHn]. Qed.

Lemma unle_le n : forall v, v < 256 ^ N.of_nat n -> unle (le n v) = v.
Proof.
  induction n as [|n IH]; intros v Hv.
  - cbn in *. lia.
  - cbn [le unle]. rewrite IH.
    + pose proof (N.div_mod' v 256). lia.
    + rewrite Nat2N.inj_succ, N.pow_succ_r' in Hv.
      apply N.div_lt_upper_bound; lia.
Qed.

Lemma takeN_app a : forall r, takeN (N.of_nat (length a)) (a ++ r) = Some (a, r).
Proof.
  induction a as [|x a IH]; intro r.
  - cbn [length app]. destruct r; reflexivity.
  - cbn [length app takeN]. rewrite Nat2N.inj_succ.
    destruct (N.eqb_spec (N.succ (N.of_nat (length a))) 0) as [E|_]; [lia|].
    rewrite N.pred_succ, IH. reflexivity.
Qed.

Lemma takeN_le n v r : takeN (N.of_nat n) (le n v ++ r) = Some (le n v, r).
Proof. rewrite <- (le_length n v) at 1. apply takeN_app. Qed.

Lemma take_app a r : take (N.of_nat (length a)) (a ++ r) = Ok (a, r).
Proof. unfold take. now rewrite takeN_app. Qed.

Lemma take_le n v r : take (N.of_nat n) (le n v ++ r) = Ok (le n v, r).
Proof. unfold take. now rewrite takeN_le. Qed.

Definition i32 (z : Z) : Prop := (-2147483648 <= z < 2147483648)%Z.

Lemma as_i32_bytes z : i32 z -> as_i32 (unle (i32_bytes z)) = z.
Proof.
  intro Hz. unfold i32 in Hz. unfold i32_bytes.
  assert (Hm : (0 <= z mod 4294967296 < 4294967296)%Z) by (apply Z.mod_pos_bound; lia).
  rewrite unle_le by (change (256 ^ N.of_nat 4) with 4294967296; lia).
  unfold as_i32.
  destruct (N.ltb_spec (Z.to_N (z mod 4294967296)) 2147483648) as [H|H]; rewrite Z2N.id by lia.
  - assert (H' : (z mod 4294967296 < 2147483648)%Z) by lia. clear H.
    pose proof (Z.div_mod z 4294967296 ltac:(lia)). nia.
  - assert (H' : (2147483648 <= z mod 4294967296)%Z) by lia. clear H.
    pose proof (Z.div_mod z 4294967296 ltac:(lia)). nia.
Qed.

(* ------------------------------------------------------------------ the cell record *)
(* what the proof needs of a cell the writer looks at.  scalar / < 2^32 are Rust type invariants (char, u32);
   attr < 2^14 (bits 14 and 15 clear) and page < 2^16 are forced by the format. *)
Definition cell_ok (c : cell) : Prop :=
  is_visible c = true ->
  scalar (ch c) = true /\ fg c < 4294967296 /\ bg c < 4294967296 /\ attr c < 16384 /\ page c < 65536.

Lemma short_word_sweep :
  forallb (fun a => let w := N.lor a SHORT_DATA in
                    negb (w =? INVISIBLE_SHORT) && negb (N.land w SHORT_DATA =? 0)
                    && (N.land w (N.lxor 65535 SHORT_DATA) =? a) && negb (a =? INVISIBLE) && (w <? 65536)
                    && negb (a =? INVISIBLE_SHORT) && (N.land a SHORT_DATA =? 0) && (N.land a INVISIBLE =? 0))
          (nrange 16384) = true.
Proof. vm_compute. reflexivity. Qed.

Lemma word_facts a : a < 16384 ->
  (N.lor a SHORT_DATA =? INVISIBLE_SHORT) = false /\ (N.land (N.lor a SHORT_DATA) SHORT_DATA =? 0) = false /\
  N.land (N.lor a SHORT_DATA) (N.lxor 65535 SHORT_DATA) = a /\ (a =? INVISIBLE) = false /\ N.lor a SHORT_DATA < 65536 /\
  (a =? INVISIBLE_SHORT) = false /\ (N.land a SHORT_DATA =? 0) = true /\ (N.land a INVISIBLE =? 0) = true.
Proof.
  intro H. pose proof (nrange_forallb _ _ short_word_sweep a H) as S. cbv beta zeta in S.
  repeat (apply andb_prop in S; destruct S as [S ?]).
  repeat match goal with H : negb _ = true |- _ => apply negb_true_iff in H end.
  repeat split; try assumption.
  - now apply N.eqb_eq.
  - now apply N.ltb_lt.
Qed.

Lemma take2 w r : w < 65536 -> takeN 2 (le 2 w ++ r) = Some (le 2 w, r) /\ unle (le 2 w) = w.
Proof.
  intro H. split.
  - change 2 with (N.of_nat 2). apply takeN_le.
  - apply unle_le. exact H.
Qed.

Lemma dec_cell_end r : dec_cell (le 2 INVISIBLE_SHORT ++ r) = Ok (CEnd r).
Proof.
  destruct (take2 INVISIBLE_SHORT r eq_refl) as [T U].
  unfold dec_cell. rewrite T. cbv beta iota zeta. rewrite U. reflexivity.
Qed.

Lemma dec_cell_invisible r : dec_cell (le 2 INVISIBLE ++ r) = Ok (CSkip r).
Proof.
  destruct (take2 INVISIBLE r eq_refl) as [T U].
  unfold dec_cell. rewrite T. cbv beta iota zeta. rewrite U. reflexivity.
Qed.

(* the loader's new check (char::from_u32) never fires on a scalar value — and fires on everything else *)
Lemma checked_cell_scalar c f b p a r : scalar c = true -> checked_cell c f b p a r = Ok (CSet (mkc c f b p a) r).
Proof. intro H. unfold checked_cell, Unicode.char_from_u32. fold (scalar c). rewrite H. reflexivity. Qed.

Lemma checked_cell_rejects c f b p a r : scalar c = false -> checked_cell c f b p a r = Err 10.
Proof. intro H. unfold checked_cell, Unicode.char_from_u32. fold (scalar c). rewrite H. reflexivity. Qed.

Lemma scalar_byte c : c <= 255 -> scalar c = true.
Proof. intro H. unfold scalar, Unicode.scalarb. apply orb_true_intro. left. apply N.ltb_lt. lia. Qed.

Lemma takeN_0 (r : list N) : takeN 0 r = Some ([], r).
Proof. destruct r; reflexivity. Qed.

Lemma dec_cell_short c f b p a r : a < 16384 -> scalar c = true ->
  dec_cell (le 2 (N.lor a SHORT_DATA) ++ [c; f; b; p] ++ r) = Ok (CSet (mkc c f b p a) r).
Proof.
  intros Ha Hs. destruct (word_facts a Ha) as (E1 & E2 & E3 & E4 & E5 & _).
  destruct (take2 _ ([c; f; b; p] ++ r) E5) as [T U].
  unfold dec_cell. rewrite T. cbv beta iota zeta. rewrite U, E1, E2. cbn [negb]. cbv iota. rewrite E3, E4.
  cbn [app takeN N.eqb N.pred Pos.pred_N Pos.pred_double]. rewrite takeN_0. apply checked_cell_scalar. exact Hs.
Qed.

Lemma long_fields (a b c e x : list N) :
  length a = 4%nat -> length b = 4%nat -> length c = 4%nat -> length e = 2%nat ->
  let d := a ++ b ++ c ++ e in
  takeN 14 (d ++ x) = Some (d, x) /\ firstn 4 d = a /\ firstn 4 (skipn 4 d) = b /\ firstn 4 (skipn 8 d) = c /\ skipn 12 d = e.
Proof.
  intros Ha Hb Hc He. cbv zeta. split.
  { replace 14 with (N.of_nat (length (a ++ b ++ c ++ e))); [apply takeN_app|].
    rewrite !app_length, Ha, Hb, Hc, He. reflexivity. }
  destruct a as [|a0 [|a1 [|a2 [|a3 [|]]]]]; try discriminate.
  destruct b as [|b0 [|b1 [|b2 [|b3 [|]]]]]; try discriminate.
  destruct c as [|c0 [|c1 [|c2 [|c3 [|]]]]]; try discriminate.
  destruct e as [|e0 [|e1 [|]]]; try discriminate.
  repeat split; reflexivity.
Qed.

Lemma dec_cell_long c r :
  scalar (ch c) = true -> ch c < 4294967296 -> fg c < 4294967296 -> bg c < 4294967296 -> attr c < 16384 -> page c < 65536 ->
  dec_cell (le 2 (attr c) ++ (le 4 (ch c) ++ le 4 (fg c) ++ le 4 (bg c) ++ le 2 (page c)) ++ r) = Ok (CSet c r).
Proof.
  intros Hs Hc Hf Hb Ha Hp. destruct (word_facts _ Ha) as (_ & _ & _ & E4 & _ & E6 & E7 & _).
  assert (A16 : attr c < 65536) by lia.
  destruct (take2 _ ((le 4 (ch c) ++ le 4 (fg c) ++ le 4 (bg c) ++ le 2 (page c)) ++ r) A16) as [T U].
  unfold dec_cell. rewrite T. cbv beta iota zeta. rewrite U, E6, E7. cbn [negb]. cbv iota. rewrite E4.
  destruct (long_fields (le 4 (ch c)) (le 4 (fg c)) (le 4 (bg c)) (le 2 (page c)) r
              (le_length _ _) (le_length _ _) (le_length _ _) (le_length _ _)) as (T14 & F1 & F2 & F3 & F4).
  cbv zeta in T14, F1, F2, F3, F4. rewrite T14. cbv beta iota zeta.
  rewrite F1, F2, F3, F4.
  rewrite !unle_le by (first [ change (256 ^ N.of_nat 4) with 4294967296 | change (256 ^ N.of_nat 2) with 65536 ]; assumption).
  rewrite checked_cell_scalar by exact Hs. destruct c; reflexivity.
Qed.

Lemma scalar_u32 c : scalar c = true -> c < 4294967296.
Proof.
  unfold scalar, Unicode.scalarb. intro H. apply orb_prop in H as [H|H].
  - apply N.ltb_lt in H. lia.
  - apply andb_prop in H as [_ H]. apply N.ltb_lt in H. lia.
Qed.

Lemma enc_cell_length c : (2 <= length (enc_cell c) <= 16)%nat.
Proof.
  unfold enc_cell. destruct (negb (is_visible c)); [cbn; lia|].
  destruct (is_short c); rewrite ?app_length, ?le_length; cbn [length]; lia.
Qed.

(* the decoder undoes the (fixed) cell encoder *)
Lemma dec_enc_cell c r : cell_ok c ->
  dec_cell (enc_cell c ++ r) = Ok (if is_visible c then CSet c r else CSkip r).
Proof.
  intro Hok. unfold enc_cell. destruct (is_visible c) eqn:V; cbn [negb].
  2:{ apply dec_cell_invisible. }
  destruct (Hok V) as (Hs & Hf & Hb & Ha & Hp).
  destruct (is_short c) eqn:S.
  - unfold is_short in S. rewrite V in S. cbn [andb] in S.
    repeat (apply andb_prop in S; destruct S as [S ?]).
    repeat match goal with H : (_ <=? _) = true |- _ => apply N.leb_le in H end.
    rewrite !N.mod_small by lia. rewrite <- app_assoc.
    rewrite dec_cell_short by assumption. destruct c; reflexivity.
  - rewrite <- !app_assoc.
    pose proof (dec_cell_long c r Hs (scalar_u32 _ Hs) Hf Hb Ha Hp) as D.
    rewrite <- !app_assoc in D. exact D.
Qed.

(* ------------------------------------------------------------------ Vec::resize + index assignment *)
Lemma nth_upd_same {A} (f : A -> A) : forall l n, nth_error (upd_nth n f l) n = option_map f (nth_error l n).
Proof. induction l as [|a l IH]; intros [|n]; cbn; auto. Qed.

Lemma nth_upd_other {A} (f : A -> A) : forall l n m, n <> m -> nth_error (upd_nth n f l) m = nth_error l m.
Proof.
  induction l as [|a l IH]; intros [|n] [|m] H; cbn; auto; try congruence.
Qed.

Definition pad {A} (v : A) (n : nat) (l : list A) : list A :=
  if (length l <=? n)%nat then l ++ repeat v (S n - length l) else l.

Lemma pad_length {A} (v : A) n l : (n < length (pad v n l))%nat.
Proof.
  unfold pad. destruct (Nat.leb_spec (length l) n); [|lia].
  rewrite app_length, repeat_length. lia.
Qed.

Lemma pad_keep {A} (v : A) n l m c : nth_error l m = Some c -> nth_error (pad v n l) m = Some c.
Proof.
  intro H. unfold pad. destruct (length l <=? n)%nat; [|exact H].
  rewrite nth_error_app1; [exact H|]. apply nth_error_Some. congruence.
Qed.

Lemma pad_new {A} (v : A) n l m c : nth_error (pad v n l) m = Some c -> nth_error l m = Some c \/ c = v.
Proof.
  unfold pad. destruct (length l <=? n)%nat; [|auto].
  intro H. destruct (Nat.lt_ge_cases m (length l)) as [Hl|Hl].
  - rewrite nth_error_app1 in H by exact Hl. auto.
  - rewrite nth_error_app2 in H by exact Hl. right.
    apply nth_error_In, repeat_spec in H. exact H.
Qed.

Lemma line_set_pad x c l : line_set x c l = upd_nth x (fun _ => c) (pad (invisible_cell 0) x l).
Proof. reflexivity. Qed.

Lemma set_char_pad w x y c ls : set_char_lines w x y c ls = upd_nth y (line_set x c) (pad (line_create w) y ls).
Proof. reflexivity. Qed.

Lemma line_set_same x c l : nth_error (line_set x c l) x = Some c.
Proof.
  rewrite line_set_pad, nth_upd_same.
  destruct (nth_error (pad (invisible_cell 0) x l) x) eqn:E; [reflexivity|].
  apply nth_error_None in E. pose proof (pad_length (invisible_cell 0) x l). lia.
Qed.

Lemma line_set_keep x c l x' c' : x' <> x -> nth_error l x' = Some c' -> nth_error (line_set x c l) x' = Some c'.
Proof. intros Hne H. rewrite line_set_pad, nth_upd_other by congruence. now apply pad_keep. Qed.

Lemma line_set_inv x c l x' c' : nth_error (line_set x c l) x' = Some c' ->
  (x' = x /\ c' = c) \/ nth_error l x' = Some c' \/ c' = invisible_cell 0.
Proof.
  intro H. destruct (Nat.eq_dec x' x) as [->|Hne].
  - rewrite line_set_same in H. left. split; congruence.
  - right. rewrite line_set_pad, nth_upd_other in H by congruence. now apply pad_new in H.
Qed.

Definition lget (ls : list (list cell)) (x y : nat) : option cell :=
  match nth_error ls y with Some l => nth_error l x | None => None end.

Lemma set_char_same w x y c ls : lget (set_char_lines w x y c ls) x y = Some c.
Proof.
  unfold lget. rewrite set_char_pad, nth_upd_same.
  destruct (nth_error (pad (line_create w) y ls) y) eqn:E.
  - cbn [option_map]. apply line_set_same.
  - apply nth_error_None in E. pose proof (pad_length (line_create w) y ls). lia.
Qed.

Lemma set_char_keep w x y c ls x' y' c' : (x' <> x \/ y' <> y) -> lget ls x' y' = Some c' ->
  lget (set_char_lines w x y c ls) x' y' = Some c'.
Proof.
  intros Hne H. unfold lget in *. rewrite set_char_pad.
  destruct (nth_error ls y') as [l|] eqn:E; [|discriminate].
  destruct (Nat.eq_dec y' y) as [->|Hy].
  - rewrite nth_upd_same, (pad_keep _ _ _ _ _ E). cbn [option_map].
    apply line_set_keep; [|exact H]. destruct Hne; congruence.
  - rewrite nth_upd_other by congruence. rewrite (pad_keep _ _ _ _ _ E). exact H.
Qed.

Lemma line_create_all w x c : nth_error (line_create w) x = Some c -> c = invisible_cell 0.
Proof. intro H. apply nth_error_In, repeat_spec in H. exact H. Qed.

Lemma set_char_inv w x y c ls x' y' c' : lget (set_char_lines w x y c ls) x' y' = Some c' ->
  (x' = x /\ y' = y /\ c' = c) \/ lget ls x' y' = Some c' \/ c' = invisible_cell 0.
Proof.
  unfold lget. rewrite set_char_pad. intro H.
  destruct (Nat.eq_dec y' y) as [->|Hy].
  - rewrite nth_upd_same in H.
    destruct (nth_error (pad (line_create w) y ls) y) as [l|] eqn:E; [|discriminate].
    cbn [option_map] in H. apply line_set_inv in H as [[-> ->]|[H|H]]; auto.
    apply pad_new in E as [E| ->].
    + rewrite E. auto.
    + apply line_create_all in H. auto.
  - rewrite nth_upd_other in H by congruence.
    destruct (nth_error (pad (line_create w) y ls) y') as [l|] eqn:E; [|discriminate].
    apply pad_new in E as [E| ->].
    + rewrite E. auto.
    + apply line_create_all in H. auto.
Qed.

(* ------------------------------------------------------------------ rows *)
Section Rows.
Variable L : layer.
Let gc (x y : nat) : cell := get_char L (Z.of_nat x) (Z.of_nat y).
Let wn : nat := Z.to_nat (lw L).
Let rl (y : nat) : nat := real_length L (Z.of_nat y).

Lemma gc_outside x y : (wn <= x)%nat -> is_visible (gc x y) = false.
Proof.
  intro H. unfold gc, get_char.
  destruct (lw L <=? Z.of_nat x)%Z eqn:E.
  - rewrite !orb_true_r. cbn [orb]. reflexivity.
  - apply Z.leb_gt in E. unfold wn in H. lia.
Qed.

Lemma inv_len_le y n : (inv_len L y n <= n)%nat.
Proof. induction n; cbn [inv_len]; [lia|]. destruct (is_visible _); lia. Qed.

Lemma inv_len_invisible y : forall n x, (inv_len L (Z.of_nat y) n <= x < n)%nat -> is_visible (gc x y) = false.
Proof.
  induction n as [|n IH]; intros x Hx; [lia|].
  cbn [inv_len] in Hx. destruct (is_visible (get_char L (Z.of_nat n) (Z.of_nat y))) eqn:V; [lia|].
  destruct (Nat.eq_dec x n) as [->|Hne]; [exact V|]. apply IH. lia.
Qed.

Lemma rl_le y : (rl y <= wn)%nat.
Proof. apply inv_len_le. Qed.

Lemma rl_invisible y x : (rl y <= x)%nat -> is_visible (gc x y) = false.
Proof.
  intro H. destruct (Nat.lt_ge_cases x wn) as [Hw|Hw].
  - apply (inv_len_invisible y wn). unfold rl, real_length in H. fold wn in H. lia.
  - now apply gc_outside.
Qed.

(* invariant of the loading loop: [ls] holds nothing but cells of L (or filler), and every visible cell of the
   positions processed so far *)
Record Inv (ls : list (list cell)) (P : nat -> nat -> Prop) : Prop := {
  inv_sound : forall x y c, lget ls x y = Some c -> c = invisible_cell 0 \/ (c = gc x y /\ is_visible c = true);
  inv_complete : forall x y, P x y -> is_visible (gc x y) = true -> lget ls x y = Some (gc x y) }.

Lemma Inv_weaken ls (P Q : nat -> nat -> Prop) :
  Inv ls P -> (forall x y, Q x y -> is_visible (gc x y) = true -> P x y) -> Inv ls Q.
Proof. intros [S C] H. split; [exact S|]. intros x y Hq V. apply C; auto. Qed.

Lemma Inv_set w ls x y :
  Inv ls (fun x' y' => (y' < y \/ (y' = y /\ x' < x))%nat) -> is_visible (gc x y) = true ->
  Inv (set_char_lines w x y (gc x y) ls) (fun x' y' => (y' < y \/ (y' = y /\ x' < S x))%nat).
Proof.
  intros [S C] V. split.
  - intros x' y' c' H. apply set_char_inv in H as [(-> & -> & ->)|[H| ->]]; auto.
  - intros x' y' Hp V'.
    destruct (Nat.eq_dec x' x) as [->|Hx]; [destruct (Nat.eq_dec y' y) as [->|Hy]|].
    + apply set_char_same.
    + apply set_char_keep; [auto|]. apply C; [lia|exact V'].
    + apply set_char_keep; [auto|]. apply C; [lia|exact V'].
Qed.

Hypothesis cells_ok : forall x y, cell_ok (gc x y).

Definition term (y : nat) : list N := if (Z.of_nat (rl y) <? lw L)%Z then le 2 INVISIBLE_SHORT else [].

Lemma dec_row_spec y : forall k x ls rest,
  (x + k = rl y)%nat ->
  Inv ls (fun x' y' => (y' < y \/ (y' = y /\ x' < x))%nat) ->
  exists ls',
    dec_row (lw L) (wn - x) x y ls (flat_map (fun x => enc_cell (gc x y)) (seq x k) ++ term y ++ rest) = Ok (ls', rest)
    /\ Inv ls' (fun _ y' => (y' < S y)%nat).
Proof.
  induction k as [|k IH]; intros x ls rest Hk HI.
  - cbn [seq flat_map app]. assert (Hx : x = rl y) by lia. subst x.
    assert (HI' : Inv ls (fun _ y' => (y' < S y)%nat)).
    { apply (Inv_weaken _ _ _ HI). intros x' y' Hy V.
      destruct (Nat.eq_dec y' y) as [->|Hne]; [|lia]. right. split; [reflexivity|].
      destruct (Nat.lt_ge_cases x' (rl y)) as [Hl|Hl]; [exact Hl|].
      rewrite (rl_invisible y x' Hl) in V. discriminate. }
    unfold term. destruct (Z.of_nat (rl y) <? lw L)%Z eqn:E.
    + apply Z.ltb_lt in E. assert (Hn : (wn - rl y = S (wn - S (rl y)))%nat) by (unfold wn; lia).
      rewrite Hn. cbn [dec_row]. rewrite dec_cell_end. cbn [bind]. eauto.
    + apply Z.ltb_ge in E. pose proof (rl_le y). assert (Hn : (wn - rl y = 0)%nat) by (unfold wn in *; lia).
      rewrite Hn. cbn [dec_row app]. eauto.
  - pose proof (rl_le y) as Hle.
    assert (Hn : (wn - x = S (wn - S x))%nat) by lia. rewrite Hn.
    cbn [seq flat_map]. rewrite <- app_assoc. cbn [dec_row].
    rewrite dec_enc_cell by apply cells_ok. cbn [bind].
    destruct (is_visible (gc x y)) eqn:V.
    + apply IH; [lia|]. now apply Inv_set.
    + apply IH; [lia|]. apply (Inv_weaken _ _ _ HI). intros x' y' Hp V'.
      destruct Hp as [Hp|[-> Hp]]; [auto|]. right. split; [reflexivity|].
      destruct (Nat.eq_dec x' x) as [->|Hne]; [congruence|lia].
Qed.

Lemma enc_row_eq y : enc_row enc_cell L (Z.of_nat y) = flat_map (fun x => enc_cell (gc x y)) (seq 0 (rl y)) ++ term y.
Proof. reflexivity. Qed.

Lemma flat_map_nil_first {A B} (f : A -> list B) a l : flat_map f (a :: l) = [] -> f a = [].
Proof. cbn [flat_map]. intro H. now apply app_eq_nil in H. Qed.

Lemma enc_row_nil y : enc_row enc_cell L (Z.of_nat y) = [] -> forall x, is_visible (gc x y) = false.
Proof.
  rewrite enc_row_eq. intros H x. apply app_eq_nil in H as [H _].
  destruct (rl y) as [|r] eqn:E.
  - apply rl_invisible. lia.
  - cbn [seq] in H. apply flat_map_nil_first in H. pose proof (enc_cell_length (gc 0 y)). rewrite H in *. cbn in *. lia.
Qed.

Definition rows_bytes (y n : nat) : list N := flat_map (fun k => enc_row enc_cell L (Z.of_nat k)) (seq y n).

Lemma rows_bytes_nil : forall n y, rows_bytes y n = [] -> forall x y', (y <= y' < y + n)%nat -> is_visible (gc x y') = false.
Proof.
  induction n as [|n IH]; intros y H x y' Hy; [lia|].
  unfold rows_bytes in H. cbn [seq flat_map] in H. apply app_eq_nil in H as [H1 H2].
  destruct (Nat.eq_dec y' y) as [->|Hne].
  - now apply enc_row_nil.
  - apply (IH (S y) H2). lia.
Qed.

Lemma dec_rows_spec : forall n y ls rest,
  Inv ls (fun _ y' => (y' < y)%nat) ->
  exists ls', dec_rows (lw L) n y ls (rows_bytes y n ++ rest) = Ok ls' /\ Inv ls' (fun _ y' => (y' < y + n)%nat).
Proof.
  induction n as [|n IH]; intros y ls rest HI.
  - cbn [dec_rows]. exists ls. split; [reflexivity|]. apply (Inv_weaken _ _ _ HI). intros; lia.
  - cbn [dec_rows].
    destruct (rows_bytes y (S n) ++ rest) as [|b0 bs0] eqn:E.
    + exists ls. split; [reflexivity|]. apply app_eq_nil in E as [E _].
      apply (Inv_weaken _ _ _ HI). intros x y' Hy V.
      destruct (Nat.lt_ge_cases y' y) as [Hl|Hl]; [exact Hl|].
      rewrite (rows_bytes_nil _ _ E x y') in V by lia. discriminate.
    + rewrite <- E. unfold rows_bytes. cbn [seq flat_map]. rewrite enc_row_eq, <- !app_assoc.
      fold (rows_bytes (S y) n).
      destruct (dec_row_spec y (rl y) 0 ls (rows_bytes (S y) n ++ rest)) as (ls' & D & HI').
      * lia.
      * apply (Inv_weaken _ _ _ HI). intros x' y' [H|[_ H]] _; lia.
      * rewrite Nat.sub_0_r in D. fold wn. rewrite D. cbn [bind fst snd].
        destruct (IH (S y) ls' rest HI') as (ls'' & D' & HI'').
        exists ls''. split; [exact D'|]. apply (Inv_weaken _ _ _ HI''). intros; lia.
Qed.
End Rows.

(* ------------------------------------------------------------------ size of the record, continuation chunks *)
Lemma flat_map_length_le {A B} (f : A -> list B) k : (forall a, length (f a) <= k)%nat ->
  forall l, (length (flat_map f l) <= k * length l)%nat.
Proof.
  intros H l. induction l as [|a l IH]; cbn [flat_map length]; [lia|].
  rewrite app_length. specialize (H a). lia.
Qed.

Section Size.
Variable ec : cell -> list N.
Hypothesis ec_len : forall c, (length (ec c) <= 16)%nat.
Variable L : layer.

Lemma enc_row_length y : N.of_nat (length (enc_row ec L y)) <= Z.to_N (lw L) * 16.
Proof.
  unfold enc_row. rewrite app_length.
  pose proof (flat_map_length_le (fun x => ec (get_char L (Z.of_nat x) y)) 16 (fun a => ec_len _) (seq 0 (real_length L y))) as H.
  rewrite seq_length in H.
  pose proof (inv_len_le L y (Z.to_nat (lw L))) as Hl. fold (real_length L y) in Hl.
  destruct (Z.of_nat (real_length L y) <? lw L)%Z eqn:E.
  - apply Z.ltb_lt in E. rewrite le_length. lia.
  - cbn [length]. lia.
Qed.

Lemma enc_rows_bound : forall n y len bs, enc_rows ec L n y len = (bs, O) -> n <> O ->
  len + N.of_nat (length bs) <= MAX_CHUNK.
Proof.
  induction n as [|n IH]; intros y len bs H Hn; [congruence|].
  cbn [enc_rows] in H.
  destruct (MAX_CHUNK <? len + Z.to_N (lw L) * 16) eqn:E; [discriminate|]. apply N.ltb_ge in E.
  destruct (enc_rows ec L n (y + 1) (len + N.of_nat (length (enc_row ec L y)))) as [rest todo] eqn:R.
  injection H as <- ->. rewrite app_length, Nat2N.inj_add.
  pose proof (enc_row_length y).
  destruct n as [|n].
  - cbn [enc_rows] in R. injection R as <-. cbn [length]. lia.
  - specialize (IH _ _ _ R ltac:(discriminate)). lia.
Qed.

Lemma enc_rows_fit : forall n y len, len + N.of_nat n * (Z.to_N (lw L) * 16) <= MAX_CHUNK -> snd (enc_rows ec L n y len) = O.
Proof.
  induction n as [|n IH]; intros y len H; [reflexivity|].
  cbn [enc_rows]. rewrite Nat2N.inj_succ in H.
  destruct (MAX_CHUNK <? len + Z.to_N (lw L) * 16) eqn:E.
  - apply N.ltb_lt in E. lia.
  - pose proof (enc_row_length y).
    specialize (IH (y + 1)%Z (len + N.of_nat (length (enc_row ec L y))) ltac:(lia)).
    destruct (enc_rows ec L n (y + 1) (len + N.of_nat (length (enc_row ec L y)))) as [rest todo]. exact IH.
Qed.
End Size.

Lemma enc_rows_concat ec L : forall n y len bs, enc_rows ec L n (Z.of_nat y) len = (bs, O) ->
  bs = flat_map (fun k => enc_row ec L (Z.of_nat k)) (seq y n).
Proof.
  induction n as [|n IH]; intros y len bs H.
  - cbn in H. injection H as <-. reflexivity.
  - cbn [enc_rows] in H.
    destruct (MAX_CHUNK <? len + Z.to_N (lw L) * 16); [discriminate|].
    replace (Z.of_nat y + 1)%Z with (Z.of_nat (S y)) in H by lia.
    destruct (enc_rows ec L n (Z.of_nat (S y)) (len + N.of_nat (length (enc_row ec L (Z.of_nat y))))) as [rest todo] eqn:R.
    injection H as <- ->. cbn [seq flat_map]. f_equal. exact (IH _ _ _ R).
Qed.

(* ------------------------------------------------------------------ the layer record *)
Definition fits (L : layer) : Prop :=
  snd (enc_rows enc_cell L (Z.to_nat (lh L)) 0%Z (N.of_nat (length (enc_header L)) + 8)) = O.

(* the loader's other new check: from_utf8_lossy leaves a valid string as it is (C10: lossy_fuel_id) *)
Lemma lossy_valid bs : Unicode.utf8_valid bs = true -> Unicode.utf8_lossy bs = bs.
Proof. exact (UnicodeProofs.lossy_fuel_id (length bs) bs). Qed.

(* Rust type invariants of the fields (String, u8, i32).  utf8_valid is core::str::from_utf8(..).is_ok(), proved equivalent
   to "the bytes are the UTF-8 encoding of a list of scalar values" in Proofs/UnicodeProofs.v (utf8_valid_spec_proof) *)
Record ty_layer (L : layer) : Prop := {
  ty_title : Unicode.utf8_valid (title L) = true;
  ty_transparency : transparency L < 256;
  ty_color : match color L with Some (r, g, b) => r < 256 /\ g < 256 /\ b < 256 | None => True end;
  ty_off : i32 (fst (get_offset L)) /\ i32 (snd (get_offset L));
  ty_size : i32 (lw L) /\ i32 (lh L) }.

(* what the round trip needs beyond the types; every clause has a counterexample in Props/C07.v or is an explicit limit of the model *)
Record wf_layer (L : layer) : Prop := {
  wf_role : role L <> RImage;                                   (* image layers: not modelled *)
  wf_size : (0 <= lw L \/ lh L <= 0)%Z;                         (* a negative width with a positive height panics in the writer *)
  wf_title : N.of_nat (length (title L)) < 4294967296;          (* length prefix is u32 *)
  wf_dfp : dfp L < 65536;                                       (* default_font_page as u16 *)
  wf_cells : forall x y, (0 <= x < lw L)%Z -> (0 <= y < lh L)%Z -> cell_ok (get_char L x y);
  wf_fits : fits L }.                                           (* no `~k` continuation chunk: not modelled *)

Definition cell_equiv (a b : cell) : Prop := (is_visible a = false /\ is_visible b = false) \/ a = b.

(* observational equality: size, effective offset, and get_char everywhere (invisible cells compared as invisible only) *)
Definition layer_equiv (L' L : layer) : Prop :=
  lw L' = lw L /\ lh L' = lh L /\ get_offset L' = get_offset L /\
  forall x y, cell_equiv (get_char L' x y) (get_char L x y).

(* struct Properties without `offset`, plus transparency and default_font_page *)
Definition props_eq (L' L : layer) : Prop :=
  title L' = title L /\ color L' = color L /\ vis L' = vis L /\ locked L' = locked L /\ pos_locked L' = pos_locked L /\
  alpha L' = alpha L /\ alpha_locked L' = alpha_locked L /\ mode L' = mode L /\
  transparency L' = transparency L /\ dfp L' = dfp L.

Lemma flags_ok L :
  unle (le 4 (flags_word L)) = flags_word L /\
  has (flags_word L) L_IS_VISIBLE = vis L /\ has (flags_word L) L_EDIT_LOCK = locked L /\ has (flags_word L) L_POS_LOCK = pos_locked L /\
  has (flags_word L) L_HAS_ALPHA = alpha L /\ has (flags_word L) L_ALPHA_LOCKED = alpha_locked L.
Proof.
  unfold flags_word. destruct (vis L), (locked L), (pos_locked L), (alpha L), (alpha_locked L); repeat split; reflexivity.
Qed.

Lemma take4_le v r : take 4 (le 4 v ++ r) = Ok (le 4 v, r). Proof. exact (take_le 4 v r). Qed.
Lemma take_e4_le v r : take_e 4 (le 4 v ++ r) = Ok (le 4 v, r).
Proof. unfold take_e. change 4 with (N.of_nat 4). now rewrite takeN_le. Qed.
Lemma take_e_app a r : take_e (N.of_nat (length a)) (a ++ r) = Ok (a, r).
Proof. unfold take_e. now rewrite takeN_app. Qed.
Lemma guard_len_ok n (bs : list N) {A} (k : res A) : n <= N.of_nat (length bs) -> guard_len n bs k = k.
Proof. intro H. unfold guard_len. destruct (N.ltb_spec (N.of_nat (length bs)) n); [lia|reflexivity]. Qed.
Lemma take2_le v r : take 2 (le 2 v ++ r) = Ok (le 2 v, r). Proof. exact (take_le 2 v r). Qed.
Lemma take8_le v r : take 8 (le 8 v ++ r) = Ok (le 8 v, r). Proof. exact (take_le 8 v r). Qed.
Lemma take4_i32 z r : take 4 (i32_bytes z ++ r) = Ok (i32_bytes z, r). Proof. apply take4_le. Qed.

Lemma cells_ok_all L : (forall x y, (0 <= x < lw L)%Z -> (0 <= y < lh L)%Z -> cell_ok (get_char L x y)) ->
  forall x y : nat, cell_ok (get_char L (Z.of_nat x) (Z.of_nat y)).
Proof.
  intros H x y. destruct (Z_lt_dec (Z.of_nat x) (lw L)) as [Hx|Hx]; [destruct (Z_lt_dec (Z.of_nat y) (lh L)) as [Hy|Hy]|].
  - apply H; lia.
  - intro V. exfalso. unfold get_char in V. assert (E : (lh L <=? Z.of_nat y)%Z = true) by (apply Z.leb_le; lia).
    rewrite E, !orb_true_r in V. discriminate.
  - intro V. exfalso. unfold get_char in V. assert (E : (lw L <=? Z.of_nat x)%Z = true) by (apply Z.leb_le; lia).
    rewrite E, !orb_true_r in V. cbn in V. discriminate.
Qed.

(* get_char of a layer in terms of lget *)
Lemma get_char_lget L (x y : nat) : (Z.of_nat x < lw L)%Z -> (Z.of_nat y < lh L)%Z ->
  get_char L (Z.of_nat x) (Z.of_nat y) = match lget (lines L) x y with Some c => c | None => invisible_cell (dfp L) end.
Proof.
  intros Hx Hy. unfold get_char, lget.
  assert (E : ((Z.of_nat x <? 0) || (Z.of_nat y <? 0) || (lw L <=? Z.of_nat x) || (lh L <=? Z.of_nat y))%Z = false).
  { repeat (apply orb_false_intro); first [apply Z.ltb_ge | apply Z.leb_gt]; lia. }
  rewrite E, !Nat2Z.id. destruct (nth_error (lines L) y); reflexivity.
Qed.

Lemma get_char_outside L x y : ~ ((0 <= x < lw L)%Z /\ (0 <= y < lh L)%Z) -> get_char L x y = invisible_cell (dfp L).
Proof.
  intro H. unfold get_char.
  destruct ((x <? 0) || (y <? 0) || (lw L <=? x) || (lh L <=? y))%Z eqn:E; [reflexivity|].
  exfalso. apply H. repeat (apply orb_false_elim in E; destruct E as [E ?]).
  repeat match goal with H : (_ <? _)%Z = false |- _ => apply Z.ltb_ge in H | H : (_ <=? _)%Z = false |- _ => apply Z.leb_gt in H end. lia.
Qed.

Theorem layer_roundtrip_full L : ty_layer L -> wf_layer L ->
  exists bs L', encode L = Ok bs /\ decode bs = Ok L' /\ layer_equiv L' L /\ props_eq L' L /\ role L' = RNormal /\
                preview L' = None /\ (ox L', oy L') = get_offset L.
Proof.
  intros [Tttl Ttr Tcol [Tox Toy] [Tw Th]] [Wrole Wsize Wtitle Wdfp Wcells Wfits].
  (* the encoding *)
  unfold fits in Wfits.
  destruct (enc_rows enc_cell L (Z.to_nat (lh L)) 0%Z (N.of_nat (length (enc_header L)) + 8)) as [rows todo] eqn:ER.
  cbn [snd] in Wfits. subst todo.
  assert (Hrows : rows = rows_bytes L 0 (Z.to_nat (lh L))) by (apply (enc_rows_concat enc_cell L _ 0%nat _ _ ER)).
  assert (Hlen : N.of_nat (length rows) <= MAX_CHUNK).
  { destruct (Z.to_nat (lh L)) as [|n] eqn:En.
    - cbn in ER. injection ER as <-. cbn. unfold MAX_CHUNK. lia.
    - pose proof (enc_rows_bound enc_cell (fun c => proj2 (enc_cell_length c)) L _ _ _ _ ER ltac:(discriminate)). lia. }
  assert (Enc : encode L = Ok (enc_header L ++ le 8 (N.of_nat (length rows)) ++ rows)).
  { unfold encode, encode_with.
    assert (Eneg : ((lw L <? 0) && (0 <? lh L))%Z = false).
    { destruct Wsize; [apply andb_false_intro1, Z.ltb_ge | apply andb_false_intro2, Z.ltb_ge]; lia. }
    rewrite Eneg, ER. destruct (role L); try reflexivity. congruence. }
  assert (Dec : exists ls,
            decode (enc_header L ++ le 8 (N.of_nat (length rows)) ++ rows)
            = Ok (mkLayer (title L) RNormal (mode L) (color L) (vis L) (locked L) (pos_locked L) (alpha L) (alpha_locked L)
                          (transparency L) (fst (get_offset L)) (snd (get_offset L)) None (lw L) (lh L) (dfp L) ls)
            /\ Inv L ls (fun _ y' => (y' < 0 + Z.to_nat (lh L))%nat)).
  { (* the decoding: header *)
    destruct (flags_ok L) as (Fu & F1 & F2 & F3 & F4 & F5).
    unfold decode, enc_header. rewrite <- !app_assoc. cbn [app].
    rewrite take_e4_le. cbn [bind fst snd]. rewrite unle_le by (change (256 ^ N.of_nat 4) with 4294967296; exact Wtitle).
    rewrite take_e_app. cbn [bind fst snd].
    rewrite guard_len_ok.
    2:{ repeat (rewrite ?app_length, ?le_length; cbn [length]). unfold i32_bytes. rewrite ?le_length.
        destruct (color L) as [[[? ?] ?]|]; cbn [length]; lia. }
    cbn [bind fst snd byte skipn]. rewrite (lossy_valid _ Tttl).
    assert (Erole : (role_byte (role L) =? 1) = false) by (destruct (role L); try reflexivity; congruence).
    assert (Emode : match mode_byte (mode L) with 0 => Some MNormal | 1 => Some MChars | 2 => Some MAttributes | _ => None end = Some (mode L))
      by (destruct (mode L); reflexivity).
    rewrite Emode.
    assert (Ecol : exists r g b a, (match color L with Some (r, g, b) => [r mod 256; g mod 256; b mod 256; 255] | None => [0; 0; 0; 0] end) = [r; g; b; a]
                                  /\ (if a =? 0 then None else Some (r, g, b)) = color L).
    { destruct (color L) as [[[r g] b]|].
      - destruct Tcol as (Hr & Hg & Hb). exists r, g, b, 255. rewrite !N.mod_small by assumption. split; reflexivity.
      - exists 0, 0, 0, 0. split; reflexivity. }
    destruct Ecol as (r & g & b & a & -> & Ecol). cbn [app bind fst snd byte].
    rewrite take4_le. cbn [bind fst snd byte]. rewrite Fu.
    rewrite !take4_i32. cbn [bind fst snd]. rewrite !take4_i32. cbn [bind fst snd]. rewrite !take4_i32. cbn [bind fst snd].
    rewrite !take4_i32. cbn [bind fst snd].
    rewrite take2_le. cbn [bind fst snd]. rewrite take8_le. cbn [bind fst snd].
    rewrite !as_i32_bytes by assumption.
    rewrite (unle_le 2) by (change (256 ^ N.of_nat 2) with 65536; exact Wdfp).
    rewrite (unle_le 8) by (change (256 ^ N.of_nat 8) with 18446744073709551616; unfold MAX_CHUNK in Hlen; lia).
    rewrite Erole.
    rewrite N.ltb_irrefl.
    (* rows *)
    pose proof (cells_ok_all L Wcells) as Cok.
    assert (I0 : Inv L [] (fun _ y' => (y' < 0)%nat)).
    { split; [intros x y c H; unfold lget in H; destruct y; discriminate | intros; lia]. }
    destruct (dec_rows_spec L Cok (Z.to_nat (lh L)) 0 [] [] I0) as (ls & D & HI).
    rewrite app_nil_r, <- Hrows in D. rewrite D. cbn [bind].
    rewrite N.mod_small by exact Ttr. rewrite Ecol, F1, F2, F3, F4, F5.
    exists ls. split; [reflexivity|exact HI]. }
  destruct Dec as (ls & Dec & [Isound Icompl]).
  eexists. eexists. split; [exact Enc|]. split; [exact Dec|].
  split; [|split; [|split; [reflexivity|split; [reflexivity|]]]].
  - (* layer_equiv *)
    unfold layer_equiv. cbn [lw lh]. split; [reflexivity|]. split; [reflexivity|]. split.
    { unfold get_offset at 1. cbn [preview ox oy]. destruct (get_offset L); reflexivity. }
    intros x y.
    match goal with |- cell_equiv (get_char ?L1 x y) _ => set (L' := L1) end.
    destruct (Z_lt_dec x 0) as [Hx0|Hx0]; [|destruct (Z_lt_dec y 0) as [Hy0|Hy0];
      [|destruct (Z_lt_dec x (lw L)) as [Hxw|Hxw]; [destruct (Z_lt_dec y (lh L)) as [Hyh|Hyh]|]]];
      try (right; rewrite (get_char_outside L') by (subst L'; cbn [lw lh]; lia);
           rewrite (get_char_outside L) by lia; reflexivity).
    rewrite <- (Z2Nat.id x), <- (Z2Nat.id y) by lia.
    set (xn := Z.to_nat x). set (yn := Z.to_nat y).
    assert (Hxn : (Z.of_nat xn < lw L)%Z) by (subst xn; lia).
    assert (Hyn : (Z.of_nat yn < lh L)%Z) by (subst yn; lia).
    rewrite (get_char_lget L') by (subst L'; cbn [lw lh]; assumption).
    subst L'. cbn [lines dfp].
    destruct (is_visible (get_char L (Z.of_nat xn) (Z.of_nat yn))) eqn:V.
    + rewrite (Icompl xn yn) by (first [exact V | lia]). right. reflexivity.
    + destruct (lget ls xn yn) as [c|] eqn:G.
      * destruct (Isound _ _ _ G) as [-> | [-> _]]; [left; split; [reflexivity|exact V] | right; reflexivity].
      * left. split; [reflexivity|exact V].
  - unfold props_eq. cbn. repeat split; reflexivity.
  - cbn [ox oy]. destruct (get_offset L); reflexivity.
Qed.

Lemma enc_header_length L : length (enc_header L) = (length (title L) + 37)%nat.
Proof.
  unfold enc_header, i32_bytes. rewrite !app_length, !le_length.
  destruct (color L) as [[[r g] b]|]; cbn [length]; lia.
Qed.

(* every layer of the quantified size range is written into a single chunk *)
Lemma fits_small L : (lw L <= 200)%Z -> (lh L <= 120)%Z -> N.of_nat (length (title L)) <= 2600000 -> fits L.
Proof.
  intros Hw Hh Ht. unfold fits. apply (enc_rows_fit enc_cell (fun c => proj2 (enc_cell_length c))).
  rewrite enc_header_length, Nat2N.inj_add. unfold MAX_CHUNK.
  change (N.of_nat 37) with 37.
  assert (Ha : N.of_nat (Z.to_nat (lh L)) <= 120) by lia.
  assert (Hb : Z.to_N (lw L) <= 200) by lia.
  generalize dependent (N.of_nat (Z.to_nat (lh L))). generalize dependent (Z.to_N (lw L)).
  generalize dependent (N.of_nat (length (title L))). intros t Ht b Hb a Ha.
  assert (a * b <= 120 * 200) by (apply N.mul_le_mono; assumption).
  lia.
Qed.

Corollary layer_roundtrip L : ty_layer L -> wf_layer L ->
  exists bs L', encode L = Ok bs /\ decode bs = Ok L' /\ layer_equiv L' L /\ props_eq L' L /\
                (preview L = None -> (ox L', oy L') = (ox L, oy L)).
Proof.
  intros T W. destruct (layer_roundtrip_full L T W) as (bs & L' & E & D & Q & P & _ & _ & O).
  exists bs, L'. split; [exact E|]. split; [exact D|]. split; [exact Q|]. split; [exact P|].
  intro Hp. rewrite O. unfold get_offset. now rewrite Hp.
Qed.

Corollary layer_roundtrip_role L : ty_layer L -> wf_layer L -> role L = RNormal ->
  exists bs L', encode L = Ok bs /\ decode bs = Ok L' /\ role L' = role L.
Proof.
  intros T W R. destruct (layer_roundtrip_full L T W) as (bs & L' & E & D & _ & _ & R' & _).
  exists bs, L'. split; [exact E|]. split; [exact D|]. congruence.
Qed.

(* ------------------------------------------------------------------ counterexamples: what each hypothesis is for *)
Definition A_cell : cell := mkc 65 7 0 0 0.
Definition lay (r : role_t) (pv : option (Z * Z)) (d : N) (ls : list (list cell)) : layer :=
  mkLayer [116] r MNormal None true false false false false 0 1 2 pv 3 2 d ls.

(* the role is written as 0 unless it is Image: the two paste roles come back as Normal *)
Lemma role_not_stored :
  exists bs L', encode (lay RPastePreview None 0 [[A_cell]]) = Ok bs /\ decode bs = Ok L' /\ role L' = RNormal.
Proof. eexists. eexists. split; [vm_compute; reflexivity|]. split; [vm_compute; reflexivity|reflexivity]. Qed.

(* bit 14 (SHORT_DATA) on a visible cell: dropped for a short cell … *)
Lemma bit14_short_lost :
  exists bs L', encode (lay RNormal None 0 [[mkc 65 7 0 0 16384]]) = Ok bs /\ decode bs = Ok L' /\
                get_char L' 0 0 = mkc 65 7 0 0 0.
Proof. eexists. eexists. split; [vm_compute; reflexivity|]. split; [vm_compute; reflexivity|reflexivity]. Qed.

(* … and a long cell is then read as a short one: the row desynchronises *)
Lemma bit14_long_desync :
  exists bs L', encode (lay RNormal None 0 [[mkc 128512 7 0 0 16384; A_cell]]) = Ok bs /\ decode bs = Ok L' /\
                get_char L' 0 0 = mkc 0 246 1 0 0 /\ get_char L' 1 0 = mkc 0 0 121716736 0 7.
Proof. eexists. eexists. split; [vm_compute; reflexivity|]. split; [vm_compute; reflexivity|split; reflexivity]. Qed.

(* font page of a cell / default font page are written `as u16` *)
Lemma font_page_truncated :
  exists bs L', encode (lay RNormal None 0 [[mkc 65 7 0 65536 0]]) = Ok bs /\ decode bs = Ok L' /\ get_char L' 0 0 = mkc 65 7 0 0 0.
Proof. eexists. eexists. split; [vm_compute; reflexivity|]. split; [vm_compute; reflexivity|reflexivity]. Qed.

Lemma default_font_page_truncated :
  exists bs L', encode (lay RNormal None 65537 [[A_cell]]) = Ok bs /\ decode bs = Ok L' /\ dfp L' = 1.
Proof. eexists. eexists. split; [vm_compute; reflexivity|]. split; [vm_compute; reflexivity|reflexivity]. Qed.

(* a preview offset replaces the base offset in the file *)
Lemma preview_offset_replaces_base :
  exists bs L', encode (lay RNormal (Some (5, 6)%Z) 0 [[A_cell]]) = Ok bs /\ decode bs = Ok L' /\
                (ox L', oy L') = (5, 6)%Z /\ (ox (lay RNormal (Some (5, 6)%Z) 0 [[A_cell]]), oy (lay RNormal (Some (5, 6)%Z) 0 [[A_cell]])) = (1, 2)%Z.
Proof. eexists. eexists. split; [vm_compute; reflexivity|]. split; [vm_compute; reflexivity|split; reflexivity]. Qed.

(* a negative width with a positive height makes the writer overflow *)
Lemma negative_width_panics :
  encode (mkLayer [] RNormal MNormal None true false false false false 0 0 0 None (-1) 1 0 []) = Panic 3.
Proof. reflexivity. Qed.

(* the two checks the merged loader makes (char::from_u32, from_utf8_lossy) are what `scalar (ch c)` in cell_ok and
   ty_title are for: a model layer outside the Rust types does not come back *)
Lemma non_scalar_char_rejected :
  (exists bs, encode (lay RNormal None 0 [[mkc 55296 7 0 0 0]]) = Ok bs /\ decode bs = Err 10) /\
  (exists bs, encode (lay RNormal None 0 [[A_cell; mkc 1114112 7 0 0 0]]) = Ok bs /\ decode bs = Err 10).
Proof. split; eexists; (split; [vm_compute; reflexivity | vm_compute; reflexivity]). Qed.

Lemma invalid_title_replaced :
  exists bs L', encode (mkLayer [65; 255] RNormal MNormal None true false false false false 0 0 0 None 1 1 0 [[A_cell]]) = Ok bs /\
                decode bs = Ok L' /\ title L' = [65; 239; 191; 189].
Proof. eexists. eexists. split; [vm_compute; reflexivity|]. split; [vm_compute; reflexivity|reflexivity]. Qed.

(* … and they never fire on what the writer produces from a Rust layer: every cell record of a cell_ok cell decodes to
   that cell (dec_enc_cell above), every valid title is left alone *)
Lemma new_checks_silent :
  (forall c r, cell_ok c -> dec_cell (enc_cell c ++ r) = Ok (if is_visible c then CSet c r else CSkip r)) /\
  (forall t, Unicode.utf8_valid t = true -> Unicode.utf8_lossy t = t) /\
  (forall c f b p a r, scalar c = false -> checked_cell c f b p a r = Err 10).
Proof. exact (conj dec_enc_cell (conj lossy_valid checked_cell_rejects)). Qed.

(* the defect that was fixed: before the fix an invisible cell kept its extra flag bits in the file *)
Definition encode_before_fix : layer -> res (list N) := encode_with enc_cell_before_fix.

Lemma before_fix_invisible_bold :
  exists bs, encode_before_fix (lay RNormal None 0 [[mkc 32 7 0 0 32769; A_cell]]) = Ok bs /\ decode bs = Err 2.
Proof. eexists. split; [vm_compute; reflexivity | vm_compute; reflexivity]. Qed.

Lemma before_fix_invisible_short_bit :
  exists bs L', encode_before_fix (lay RNormal None 0 [[mkc 32 7 0 0 49152; A_cell]; [A_cell]]) = Ok bs /\ decode bs = Ok L' /\
                is_visible (get_char L' 1 0) = false /\ get_char L' 0 1 = A_cell /\ is_visible (get_char L' 1 1) = false.
Proof. eexists. eexists. split; [vm_compute; reflexivity|]. split; [vm_compute; reflexivity|repeat split; reflexivity]. Qed.

Lemma after_fix_same_inputs :
  (exists bs L', encode (lay RNormal None 0 [[mkc 32 7 0 0 32769; A_cell]]) = Ok bs /\ decode bs = Ok L' /\ get_char L' 1 0 = A_cell) /\
  (exists bs L', encode (lay RNormal None 0 [[mkc 32 7 0 0 49152; A_cell]; [A_cell]]) = Ok bs /\ decode bs = Ok L' /\
                 get_char L' 1 0 = A_cell /\ get_char L' 0 1 = A_cell).
Proof.
  split; eexists; eexists; (split; [vm_compute; reflexivity|]); (split; [vm_compute; reflexivity|]); repeat split; reflexivity.
Qed.

(* the fix changes nothing for visible cells and for invisible cells that carry the bare marker *)
Lemma enc_cell_fix_local c : is_visible c = true \/ attr c = INVISIBLE -> enc_cell_before_fix c = enc_cell c.
Proof.
  intros [V|A]; unfold enc_cell_before_fix, enc_cell.
  - rewrite V. reflexivity.
  - destruct (is_visible c); cbn [negb]; [reflexivity|]. rewrite A. reflexivity.
Qed.

(* ------------------------------------------------------------------ the known finding C07-role-not-stored *)
Definition KnownC07_1 (L : layer) : Prop := role L = RPastePreview \/ role L = RPasteImage.

Lemma layer_role_outside_known L : ty_layer L -> wf_layer L -> ~ KnownC07_1 L ->
  exists bs L', encode L = Ok bs /\ decode bs = Ok L' /\ role L' = role L.
Proof.
  intros T W K. apply layer_roundtrip_role; try assumption.
  destruct (role L) eqn:R; try reflexivity.
  - exfalso. apply K. now left.
  - exfalso. apply K. now right.
  - exfalso. now apply (wf_role L W).
Qed.

Lemma known_1_in_class : KnownC07_1 (lay RPastePreview None 0 [[A_cell]]).
Proof. now left. Qed.

(* a concrete layer that satisfies every hypothesis: short, long and invisible cells, a ragged row, a terminator *)
Definition sample_layer : layer :=
  mkLayer [226; 152; 186] RNormal MChars (Some (1, 2, 3)) true true false true false 128 (-50) 50 None 3 2 7
          [[mkc 65 7 0 0 1; mkc 32 7 0 9 32769; mkc 128512 2147483648 300 256 1023]; [mkc 255 255 255 255 16383]].

Lemma sample_layer_ok : ty_layer sample_layer /\ wf_layer sample_layer.
Proof.
  split.
  - split; [vm_compute; reflexivity | | | |]; cbn; unfold i32; repeat split; lia.
  - split.
    + discriminate.
    + left. cbn. lia.
    + cbn. lia.
    + cbn. lia.
    + intros x y Hx Hy. cbn [lw lh sample_layer] in Hx, Hy.
      assert (Ex : x = 0%Z \/ x = 1%Z \/ x = 2%Z) by lia. assert (Ey : y = 0%Z \/ y = 1%Z) by lia.
      destruct Ex as [->|[->| ->]], Ey as [->| ->]; intro V; vm_compute in V; try discriminate;
        vm_compute; repeat split; reflexivity.
    + apply fits_small; cbn; lia.
Qed.

(* the length prefix of the title is a u32: a title of 2^32 bytes is stored with the prefix of the empty title
   (the witness is 4 GiB, so it is stated symbolically) *)
Lemma title_length_wraps L : N.of_nat (length (title L)) = 4294967296 -> firstn 4 (enc_header L) = [0; 0; 0; 0].
Proof. intro H. unfold enc_header. rewrite H. reflexivity. Qed.
