(* C05 extension: iCE Draw files wider than the loader's 80-column layer.
   The IDF loader takes any header width up to 65536 but stores cells only in its 80-column layer; the writer has no width
   limit.  What lies right of column 79 reads as the invisible cell, is written as (32, 7) and dropped again by the loader:
   the re-save is stable.  This removes the side condition `b_w b <= 80` of idf_resave (it was an artefact of the proof);
   `b_h b <= 200` stays: the writer really refuses more rows (known finding 1). *)
From Coq Require Import NArith ZArith Bool List Lia PeanoNat.
From IE Require Import Lib.Tbl Lib.Bits Lib.C18Lib Lib.C05Lib Gen.Codepage Gen.Formats Model.Attr Model.C05Buf Model.C05Bin
  Model.C05XBin Model.C05Idf Model.C05Spec Proofs.AttrProofs Proofs.C05BufProofs Proofs.C05BinProofs Proofs.C05AdfProofs
  Proofs.C05XBinProofs Proofs.C05IdfProofs.
Import ListNotations.
Local Open Scope Z_scope.

(* what Buffer::get_char returns outside the layer *)
Definition invis0 : cell := cell_with_page invisible_cell 0.

(* a row of a picture the IDF loader can give back: the first 80 cells are 8-bit cells, the rest is not stored *)
Definition idf_row_ok (r : list cell) : Prop :=
  Forall (cell8_page0 Ice) (firstn 80 r) /\ skipn 80 r = repeat invis0 (length r - 80).

Definition representable_idf_wide (p : pic) : Prop :=
  rect p /\ 1 <= p_w p <= 65536 /\ 1 <= p_h p <= 200 /\ p_ice p = Ice /\
  Forall idf_row_ok (p_rows p) /\
  length (p_pal p) = 16%nat /\ Forall six_bit (p_pal p) /\
  (exists f, get_font (p_fonts p) 0 = Some f /\ font_wf 16 f).

Lemma invis0_page0 : cell8_page0 Ice invis0.
Proof. split; [split|]; vm_compute; reflexivity. Qed.

Lemma idf_row_ok_cells r : idf_row_ok r -> Forall (cell8_page0 Ice) r.
Proof.
  intros (H1 & H2). rewrite <- (firstn_skipn 80 r). apply Forall_app. split; [exact H1|].
  rewrite H2. apply Forall_forall. intros c Hc. apply repeat_spec in Hc. subst c. apply invis0_page0.
Qed.

Lemma representable_idf_is_wide p : representable_idf p -> representable_idf_wide p.
Proof.
  intros (Hrect & Hw & Hh & Hice & Hcells & Hrest).
  split; [exact Hrect|]. split; [lia|]. split; [exact Hh|]. split; [exact Hice|]. split; [|exact Hrest].
  destruct Hrect as (_ & _ & _ & Hrows). apply Forall_forall. intros r Hr.
  unfold all_pic_cells in Hcells. rewrite Forall_forall in Hrows, Hcells. specialize (Hrows r Hr). specialize (Hcells r Hr).
  assert (Hl : (length r <= 80)%nat) by lia.
  split; [rewrite firstn_all2 by exact Hl; exact Hcells|].
  rewrite skipn_all2 by exact Hl. replace (length r - 80)%nat with 0%nat by lia. reflexivity.
Qed.

(* ------------------------------------------------------------------ filling a layer with rows wider than it is *)
Lemma put_true_out L x y c : l_w L <= x -> put true L x y c = mkLayer (l_w L) (y + 1) (l_lines L).
Proof.
  intro H. unfold put, layer_set_char, out_of_layer, layer_set_height. cbn [l_w l_h l_lines].
  destruct (x <? 0), (y <? 0); cbn [orb]; try reflexivity.
  destruct (Z.geb_spec x (l_w L)); [reflexivity|lia].
Qed.

Lemma fill_row_out : forall cells L x y, l_w L <= x ->
  fill_row true L x y cells = match cells with [] => L | _ => mkLayer (l_w L) (y + 1) (l_lines L) end.
Proof.
  induction cells as [|c t IH]; intros L x y H; [reflexivity|].
  cbn [fill_row]. rewrite put_true_out by exact H. rewrite IH by (cbn [l_w]; lia).
  destruct t; reflexivity.
Qed.

Lemma fill_row_wide cells L x y : 0 <= x -> 0 <= y -> cells <> [] ->
  fill_row true L x y cells =
  mkLayer (l_w L) (y + 1) (lfill_row (l_w L) (l_lines L) (Z.to_nat x) (Z.to_nat y) (firstn (Z.to_nat (l_w L - x)) cells)).
Proof.
  intros Hx Hy Hne. set (k := Z.to_nat (l_w L - x)).
  rewrite <- (firstn_skipn k cells) at 1. rewrite fill_row_app.
  assert (Hk : (length (firstn k cells) <= k)%nat) by apply firstn_le_length.
  assert (H1 : fill_row true L x y (firstn k cells) =
               mkLayer (l_w L) (match firstn k cells with [] => l_h L | _ => y + 1 end)
                       (lfill_row (l_w L) (l_lines L) (Z.to_nat x) (Z.to_nat y) (firstn k cells))).
  { destruct (firstn k cells) as [|c1 t1] eqn:E1; [destruct L; reflexivity|].
    rewrite fill_row_spec; [reflexivity|lia|lia| |left; reflexivity]. cbn [length] in Hk |- *. unfold k in Hk. lia. }
  rewrite H1. clear H1.
  destruct (skipn k cells) as [|d tl] eqn:Esk.
  - cbn [fill_row]. assert (E : firstn k cells = cells).
    { rewrite <- (firstn_skipn k cells) at 2. rewrite Esk, app_nil_r. reflexivity. }
    rewrite E. destruct cells; [congruence|reflexivity].
  - rewrite fill_row_out; cbn [l_w l_h l_lines].
    + destruct (firstn k cells); reflexivity.
    + assert (Hlen : length (firstn k cells) = k).
      { apply firstn_length_le. pose proof (skipn_length k cells) as Hs. rewrite Esk in Hs. cbn [length] in Hs. lia. }
      rewrite Hlen. unfold k. lia.
Qed.

Lemma fill_rows_wide rows : forall L y, 0 <= y -> Forall (fun r => r <> []) rows ->
  fill_rows true L y rows =
  mkLayer (l_w L) (match rows with [] => l_h L | _ => y + Z.of_nat (length rows) end)
          (lfill_rows (l_w L) (l_lines L) (Z.to_nat y) (map (firstn (Z.to_nat (l_w L))) rows)).
Proof.
  induction rows as [|r t IH]; intros L y Hy Hall; cbn [fill_rows lfill_rows map].
  - destruct L; reflexivity.
  - inversion Hall as [|? ? Hr Ht]; subst.
    rewrite fill_row_wide by (try assumption; lia). rewrite Z.sub_0_r. cbn [Z.to_nat].
    rewrite IH by (try assumption; lia). cbn [l_w l_h l_lines].
    replace (Z.to_nat (y + 1)) with (S (Z.to_nat y)) by lia.
    destruct t; cbn [length]; f_equal; lia.
Qed.

(* ------------------------------------------------------------------ the picture of a buffer wider than its layer *)
Lemma pic_rows_wide b rows w lw :
  b_w b = Z.of_nat w -> b_h b = Z.of_nat (length rows) -> l_w (b_layer b) = Z.of_nat lw -> b_h b <= l_h (b_layer b) ->
  Forall (fun r => length r = w) rows ->
  (forall x y r c, nth_error rows y = Some r -> nth_error (firstn lw r) x = Some c -> cell_at (l_lines (b_layer b)) x y = c) ->
  p_rows (pic_of b) = map (fun r => map seen (firstn lw r) ++ repeat invis0 (w - lw)) rows.
Proof.
  intros Hw Hh Hlw Hlh Hall Hcell. unfold pic_of. cbn [p_rows].
  rewrite Hh, Hw, !Nat2Z.id.
  rewrite <- (map_length (fun r => map seen (firstn lw r) ++ repeat invis0 (w - lw)) rows) at 1.
  apply map_seq_nth_error. intros y r' Hr'.
  rewrite nth_error_map in Hr'. destruct (nth_error rows y) as [r|] eqn:Er; [|discriminate].
  injection Hr' as <-.
  assert (Hlen : length r = w).
  { rewrite Forall_forall in Hall. apply Hall. eapply nth_error_In, Er. }
  assert (Hy : (y < length rows)%nat) by (apply nth_error_Some; congruence).
  assert (Hl' : length (map seen (firstn lw r) ++ repeat invis0 (w - lw)) = w).
  { rewrite app_length, map_length, firstn_length, repeat_length. lia. }
  rewrite <- Hl' at 1. apply map_seq_nth_error. intros x c' Hc'.
  unfold buffer_get_char, layer_get_char, out_of_layer. rewrite Hlw.
  destruct (Nat.ltb_spec x (length (map seen (firstn lw r)))) as [Hx|Hx].
  - rewrite nth_error_app1 in Hc' by exact Hx. rewrite nth_error_map in Hc'.
    destruct (nth_error (firstn lw r) x) as [c|] eqn:Ec; [|discriminate]. injection Hc' as <-.
    rewrite map_length, firstn_length in Hx.
    destruct (Z.ltb_spec (Z.of_nat x) 0); [lia|]. destruct (Z.ltb_spec (Z.of_nat y) 0); [lia|].
    destruct (Z.geb_spec (Z.of_nat x) (Z.of_nat lw)); [lia|].
    destruct (Z.geb_spec (Z.of_nat y) (l_h (b_layer b))); [lia|].
    cbn [orb]. rewrite !Nat2Z.id. rewrite (Hcell x y r c Er Ec). reflexivity.
  - rewrite nth_error_app2 in Hc' by exact Hx. rewrite nth_error_repeat in Hc'.
    destruct (_ <? _)%nat eqn:E in Hc'; [|discriminate]. injection Hc' as <-.
    apply Nat.ltb_lt in E. rewrite map_length, firstn_length in Hx, E.
    destruct (Z.ltb_spec (Z.of_nat x) 0); [lia|]. destruct (Z.ltb_spec (Z.of_nat y) 0); [lia|].
    destruct (Z.geb_spec (Z.of_nat x) (Z.of_nat lw)); [reflexivity|lia].
Qed.

(* ------------------------------------------------------------------ round trip for every width the header can carry *)
Lemma Forall2_repeat {A B} (R : A -> B -> Prop) a b n : R a b -> Forall2 R (repeat a n) (repeat b n).
Proof. intro H. induction n; cbn; constructor; assumption. Qed.

Lemma idf_roundtrip_wide_proof : forall compress p, representable_idf_wide p ->
  exists data b, save_idf compress p = Ok data /\ load_idf data = Ok b /\ same_picture true [0%N] p (pic_of b).
Proof.
  intros compress p (Hrect & Hw & Hh & Hice & Hrowsok & Hpl & Hp6 & (f & Hf & Hwf)).
  assert (Hcells : Forall (Forall (cell8_page0 Ice)) (p_rows p)).
  { eapply Forall_impl; [|exact Hrowsok]. intros r Hr. apply idf_row_ok_cells, Hr. }
  assert (Hch : Forall (Forall (fun c => (c_ch c < 256)%N)) (p_rows p)).
  { eapply Forall_impl; [|exact Hcells]. intros r Hr. eapply Forall_impl; [|exact Hr]. intros c ((Hc & _) & _). exact Hc. }
  assert (Hpg : Forall (Forall (fun c => font_page (c_attr c) = 0%N)) (p_rows p)).
  { eapply Forall_impl; [|exact Hcells]. intros r Hr. eapply Forall_impl; [|exact Hr]. intros c (_ & Hc). exact Hc. }
  destruct (idf_rows_ok compress (p_rows p) Hch) as (cells & Hcellsb).
  set (hdr := IDF_V1_4_HEADER ++ [0; 0; 0; 0]%N ++ [lo8 (p_w p - 1); hi8 (p_w p - 1); lo8 (p_h p - 1); hi8 (p_h p - 1)]).
  set (data := hdr ++ cells ++ convert_to_u8_data f ++ as_vec_63 (p_pal p)).
  set (rows' := map (map idf_rt) (p_rows p)).
  set (ls0 := l_lines (layer_new 80 25)).
  set (lines' := lfill_rows 80 ls0 0 (map (firstn 80) rows')).
  set (nd := font_named_default (mkFont 16 256 false (f_glyphs f))).
  set (b1 := set_width (set_ice (buffer_new 80 25) Ice) (p_w p)).
  set (bfin := set_pal (set_fonts (set_height (set_layer b1 (mkLayer 80 (p_h p) lines')) (p_h p)) [(0%N, nd)]) (p_pal p)).
  exists data, bfin.
  destruct Hrect as (Hw0 & Hh0 & Hlen & Hrows).
  assert (Hrowsw : Forall (fun r => Z.of_nat (length r) = (p_w p - 1) + 1) (p_rows p)).
  { eapply Forall_impl; [|exact Hrows]. cbv beta. intros r Hr. rewrite Hr. lia. }
  assert (Hrows'ne : Forall (fun r => r <> []) rows').
  { unfold rows'. apply Forall_forall. intros r' Hr'. apply in_map_iff in Hr'. destruct Hr' as (r & <- & Hr).
    rewrite Forall_forall in Hrowsw. specialize (Hrowsw r Hr).
    intro E. apply map_eq_nil in E. subst r. cbn in Hrowsw. lia. }
  assert (Hne : p_rows p <> []) by (intro E; rewrite E in Hlen; cbn in Hlen; lia).
  assert (Hlen' : length rows' = Z.to_nat (p_h p)) by (unfold rows'; rewrite map_length; exact Hlen).
  assert (Hfontlen : length (convert_to_u8_data f) = 4096%nat) by (rewrite (convert_wf_length 16 f Hwf); reflexivity).
  assert (Hpallen : length (as_vec_63 (p_pal p)) = 48%nat) by (rewrite as_vec_63_length, Hpl; reflexivity).
  split; [|split].
  - (* save *)
    unfold save_idf. rewrite Hice. cbn [is_ice negb].
    destruct (Z.ltb_spec 200 (p_h p)); [lia|].
    rewrite used_pages_page0 by exact Hpg. cbn [length Nat.ltb Nat.leb].
    rewrite Hpl. cbn [Nat.eqb negb]. rewrite Hcellsb. cbn [bind].
    unfold font0_height. rewrite Hf. cbn [bind]. destruct Hwf as (Hfh & _). rewrite Hfh. cbn [N.eqb Pos.eqb negb].
    reflexivity.
  - (* load *)
    unfold load_idf.
    assert (Hdl : length data = (12 + length cells + 4096 + 48)%nat).
    { unfold data, hdr. rewrite !app_length, Hfontlen, Hpallen. cbn [length]. change (length IDF_V1_4_HEADER) with 4%nat. lia. }
    change (N.to_nat IDF_HEADER_SIZE + N.to_nat IDF_FONT_SIZE + N.to_nat IDF_PALETTE_SIZE)%nat with 4156%nat.
    destruct (Nat.ltb_spec (length data) 4156); [lia|].
    unfold data at 1. unfold hdr, IDF_V1_4_HEADER. cbn [app].
    destruct (list_eq_dec N.eq_dec [4; 49; 46; 52]%N IDF_V1_4_HEADER) as [_|Hn]; [|exfalso; apply Hn; reflexivity].
    rewrite orb_true_r. cbn [negb].
    unfold u16le. change (Z.of_N (0 + 0 * 256)) with 0. rewrite lo_hi8 by lia.
    destruct (Z.ltb_spec (p_w p - 1) 0); [lia|].
    replace (p_w p - 1 - 0 + 1) with (p_w p) by lia. fold b1.
    replace (length data - 4156)%nat with (length cells) by lia.
    rewrite firstn_app_exact by reflexivity.
    change (b_layer b1) with (mkLayer 80 25 ls0). change (b_h b1) with 25.
    assert (Hloop : idf_loop 0 (p_w p - 1) (mkLayer 80 25 ls0) 25 0 0 cells = (mkLayer 80 (p_h p) lines', p_h p, 0%nat)).
    { rewrite <- (app_nil_r cells).
      rewrite (idf_rows_loop compress (p_w p - 1) (p_rows p) cells) by (try assumption; lia).
      fold rows'. rewrite fill_rows_wide by (try exact Hrows'ne; lia). cbn [l_w l_h l_lines].
      assert (Hne' : rows' <> []) by (unfold rows'; intro E; apply map_eq_nil in E; congruence).
      rewrite !match_nonempty by assumption.
      cbn [idf_loop length]. rewrite Hlen', Hlen. unfold lines'. cbn [Z.to_nat].
      change (Z.to_nat 80) with 80%nat.
      replace (0 + Z.of_nat (Z.to_nat (p_h p))) with (p_h p) by lia. reflexivity. }
    rewrite Hloop. rewrite Nat.sub_0_r.
    rewrite skipn_app_exact by reflexivity.
    change (N.to_nat IDF_FONT_SIZE) with 4096%nat. change (N.to_nat IDF_PALETTE_SIZE) with 48%nat.
    rewrite firstn_app_exact by exact Hfontlen.
    rewrite (font_create_8_convert 16 f) by (try exact Hwf; lia). cbn [bind].
    rewrite skipn_app_exact by exact Hfontlen.
    rewrite firstn_all2 by lia.
    rewrite from_63_as_vec_63 by exact Hp6. cbn [bind]. reflexivity.
  - (* picture *)
    assert (Hpic : p_rows (pic_of bfin) = map (fun r => map seen (firstn 80 r) ++ repeat invis0 (Z.to_nat (p_w p) - 80)) rows').
    { apply pic_rows_wide; unfold bfin; cbn [b_w b_h b_layer set_pal set_fonts set_height set_layer l_w l_h l_lines].
      - change (b_w b1) with (p_w p). lia.
      - rewrite Hlen'. lia.
      - reflexivity.
      - lia.
      - unfold rows'. apply Forall_forall. intros r' Hr'. apply in_map_iff in Hr'. destruct Hr' as (r & <- & Hr).
        rewrite map_length. rewrite Forall_forall in Hrows. apply Hrows, Hr.
      - intros x y r c Hr Hc. unfold lines'. rewrite cell_at_lfill_rows. cbn [Nat.leb]. rewrite Nat.sub_0_r.
        rewrite nth_error_map, Hr. cbn [option_map]. rewrite Hc. reflexivity. }
    unfold same_picture. rewrite Hpic.
    unfold bfin. cbn [pic_of p_w p_h p_ice p_pal p_fonts b_w b_h b_ice b_pal b_fonts set_pal set_fonts set_height set_layer].
    split; [reflexivity|]. split; [reflexivity|]. split; [|split; [|split]].
    + unfold same_mode. rewrite Hice. reflexivity.
    + unfold rows'. rewrite map_map.
      assert (Hboth : Forall (fun r => idf_row_ok r /\ length r = Z.to_nat (p_w p)) (p_rows p)).
      { apply Forall_forall. intros r Hr. rewrite Forall_forall in Hrowsok, Hrows. auto. }
      clear -Hboth. induction Hboth as [|r t (Hr & Hl) _ IH]; cbn [map]; constructor; [|exact IH].
      destruct Hr as (H80 & Hrest).
      rewrite <- (firstn_skipn 80 r) at 1. rewrite Hrest, Hl. apply Forall2_app.
      * rewrite firstn_map, map_map.
        apply Forall2_map_r with (P := cell8_page0 Ice); [exact H80|].
        intros c ((Hch & Hex) & Hpg). unfold idf_rt. rewrite seen_from_u8 by apply as_u8_range_proof.
        split; [reflexivity|]. cbn [c_attr]. split.
        -- symmetry. apply attr_encode_decode_proof, Hex.
        -- intros _. rewrite Hpg. symmetry. apply (from_u8_visible Ice _ 0%N), as_u8_range_proof.
      * apply Forall2_repeat. repeat split.
    + reflexivity.
    + unfold same_fonts. constructor; [|constructor]. rewrite Hf.
      cbn [pic_of p_fonts b_fonts set_pal set_fonts set_height set_layer get_font N.eqb]. unfold nd, same_font.
      cbn [font_named_default f_h f_len f_glyphs]. destruct Hwf as (H1 & H2 & _). auto.
Qed.

(* ------------------------------------------------------------------ what any accepted file loads as, any width *)
Lemma map_seq_split {A} (f : nat -> A) n w :
  map f (seq 0 w) = map f (seq 0 (Nat.min n w)) ++ map f (seq (Nat.min n w) (w - n)).
Proof.
  rewrite <- map_app, <- seq_app. f_equal. f_equal. lia.
Qed.

Lemma idf_load_representable_wide : forall data b,
  is_bytes data -> load_idf data = Ok b -> b_h b <= 200 -> representable_idf_wide (pic_of b).
Proof.
  intros data b Hbytes Hload Hh200. unfold load_idf in Hload.
  change (N.to_nat IDF_HEADER_SIZE + N.to_nat IDF_FONT_SIZE + N.to_nat IDF_PALETTE_SIZE)%nat with 4156%nat in Hload.
  destruct (Nat.ltb_spec (length data) 4156) as [|Hlen]; [discriminate|].
  destruct data as [|v0 [|v1 [|v2 [|v3 [|x1l [|x1h [|y1l [|y1h [|x2l [|x2h [|y2l [|y2h rest]]]]]]]]]]]]; try discriminate.
  match type of Hload with (if negb ?c then _ else _) = _ => destruct c end; cbn [negb] in Hload; [|discriminate].
  set (x1 := u16le x1l x1h) in *. set (y1 := u16le y1l y1h) in *. set (x2 := u16le x2l x2h) in *.
  destruct (Z.ltb_spec x2 x1) as [|Hx]; [discriminate|].
  assert (Hbs : is_bytes rest /\ (x1l < 256)%N /\ (x1h < 256)%N /\ (x2l < 256)%N /\ (x2h < 256)%N).
  { unfold is_bytes in Hbytes. repeat match goal with H : Forall _ (_ :: _) |- _ => inversion H; clear H; subst end. auto. }
  destruct Hbs as (Hrest & Hb1 & Hb2 & Hb3 & Hb4).
  assert (Hx1 : 0 <= x1) by (unfold x1, u16le; lia).
  assert (Hx2 : x2 <= 65535) by (unfold x2, u16le; lia).
  assert (Hy1 : 0 <= y1) by (unfold y1, u16le; lia).
  cbn [length] in Hlen.
  set (area_len := (length (v0 :: v1 :: v2 :: v3 :: x1l :: x1h :: y1l :: y1h :: x2l :: x2h :: y2l :: y2h :: rest) - 4156)%nat) in *.
  assert (Hal : (area_len + 4144 = length rest)%nat) by (unfold area_len; cbn [length]; lia).
  set (b1 := set_width (set_ice (buffer_new 80 25) Ice) (x2 - x1 + 1)) in *.
  assert (Hinv0 : idf_inv (b_layer b1) (b_h b1)).
  { unfold idf_inv. cbn. repeat split; try lia. apply (layer_new_all_cells (stored8 Ice) 80 25). left. reflexivity. }
  destruct (idf_loop_inv x1 x2 _ (firstn area_len rest) (le_n _) (is_bytes_firstn _ _ Hrest) (b_layer b1) (b_h b1) x1 y1 Hy1 Hinv0) as (Hinv & Hun).
  destruct (idf_loop x1 x2 (b_layer b1) (b_h b1) x1 y1 (firstn area_len rest)) as [[L bh] unread]. cbn [fst snd] in Hinv, Hun.
  rewrite firstn_length in Hun.
  set (tail := skipn (area_len - unread) rest) in *.
  assert (Htl : (4144 <= length tail)%nat) by (unfold tail; rewrite skipn_length; lia).
  change (N.to_nat IDF_FONT_SIZE) with 4096%nat in Hload. change (N.to_nat IDF_PALETTE_SIZE) with 48%nat in Hload.
  destruct (font_create_8 16 (firstn 4096 tail)) as [font| |] eqn:Ef; cbn [bind] in Hload; try discriminate.
  destruct (from_63 (firstn 48 (skipn 4096 tail))) as [pal| |] eqn:Ep; cbn [bind] in Hload; try discriminate.
  injection Hload as <-.
  assert (Htb : is_bytes tail) by (apply is_bytes_skipn, Hrest).
  assert (Hfl : length (firstn 4096 tail) = (256 * N.to_nat 16)%nat).
  { rewrite firstn_length. change (256 * N.to_nat 16)%nat with 4096%nat. apply Nat.min_l. lia. }
  assert (H16 : (1 <= 16)%N) by lia.
  destruct (font_create_8_wf 16 _ _ H16 Hfl Ef) as (Hwf & _).
  destruct (from_63_shape _ _ (is_bytes_firstn _ 48 (is_bytes_skipn _ 4096 Htb)) Ep) as (Hp3 & Hp6).
  rewrite firstn_length, skipn_length in Hp3.
  destruct Hinv as (HLw & HLh & Hbh & Hcells).
  cbn [b_w b_h set_pal set_fonts set_height set_layer] in Hh200.
  unfold representable_idf_wide.
  cbn [pic_of p_w p_h p_ice p_pal p_fonts b_w b_h b_ice b_pal b_fonts set_pal set_fonts set_height set_layer].
  change (b_w b1) with (x2 - x1 + 1). change (b_ice b1) with Ice.
  split; [|split; [|split; [|split; [|split; [|split; [|split]]]]]].
  - unfold rect.
    apply (pic_of_rect (set_pal (set_fonts (set_height (set_layer b1 L) bh) [(0%N, font_named_default font)]) pal));
      cbn [b_w b_h set_pal set_fonts set_height set_layer]; [change (b_w b1) with (x2 - x1 + 1)|]; lia.
  - lia.
  - lia.
  - reflexivity.
  - (* rows *)
    set (bf := set_pal (set_fonts (set_height (set_layer b1 L) bh) [(0%N, font_named_default font)]) pal).
    change (Forall idf_row_ok (p_rows (pic_of bf))).
    assert (Hbw : b_w bf = x2 - x1 + 1) by reflexivity. assert (Hbh' : b_h bf = bh) by reflexivity.
    assert (HbL : b_layer bf = L) by reflexivity.
    clearbody bf. clear - HLw HLh Hcells Hbh Hbw Hbh' HbL.
    unfold pic_of. cbn [p_rows]. rewrite Hbh'.
    apply Forall_forall. intros r Hr. apply in_map_iff in Hr. destruct Hr as (y & <- & Hy). apply in_seq in Hy.
    set (W := Z.to_nat (b_w bf)) in *.
    set (g := fun x : nat => buffer_get_char bf (Z.of_nat x) (Z.of_nat y)).
    unfold idf_row_ok. rewrite map_length, seq_length.
    rewrite (map_seq_split g 80 W).
    assert (Hl1 : length (map g (seq 0 (Nat.min 80 W))) = Nat.min 80 W) by (rewrite map_length, seq_length; reflexivity).
    split.
    + destruct (Nat.le_ge_cases 80 W) as [Hc|Hc].
      * rewrite firstn_app_exact by (rewrite Hl1; lia).
        apply Forall_forall. intros c Hc'. apply in_map_iff in Hc'. destruct Hc' as (x & <- & Hxs). apply in_seq in Hxs.
        unfold g, buffer_get_char, layer_get_char, out_of_layer. rewrite HbL, HLw, HLh.
        destruct (Z.ltb_spec (Z.of_nat x) 0); [lia|]. destruct (Z.ltb_spec (Z.of_nat y) 0); [lia|].
        destruct (Z.geb_spec (Z.of_nat x) 80); [lia|]. destruct (Z.geb_spec (Z.of_nat y) bh); [lia|].
        cbn [orb]. apply stored8_seen. apply cell_at_all_cells; [left; reflexivity|exact Hcells].
      * replace (W - 80)%nat with 0%nat by lia. cbn [seq map]. rewrite app_nil_r.
        rewrite firstn_all2 by (rewrite Hl1; lia).
        apply Forall_forall. intros c Hc'. apply in_map_iff in Hc'. destruct Hc' as (x & <- & Hxs). apply in_seq in Hxs.
        unfold g, buffer_get_char, layer_get_char, out_of_layer. rewrite HbL, HLw, HLh.
        destruct (Z.ltb_spec (Z.of_nat x) 0); [lia|]. destruct (Z.ltb_spec (Z.of_nat y) 0); [lia|].
        destruct (Z.geb_spec (Z.of_nat x) 80); [lia|]. destruct (Z.geb_spec (Z.of_nat y) bh); [lia|].
        cbn [orb]. apply stored8_seen. apply cell_at_all_cells; [left; reflexivity|exact Hcells].
    + destruct (Nat.le_ge_cases 80 W) as [Hc|Hc].
      * rewrite skipn_app_exact by (rewrite Hl1; lia).
        replace (Nat.min 80 W) with 80%nat by lia.
        rewrite <- (seq_length (W - 80) 80) at 2. rewrite <- (map_length g (seq 80 (W - 80))).
        generalize (seq 80 (W - 80)) (fun x => proj1 (in_seq (W - 80) 80 x)). intros l Hl.
        induction l as [|x l IHl]; [reflexivity|]. cbn [map length repeat]. f_equal.
        -- specialize (Hl x (or_introl eq_refl)).
           unfold g, buffer_get_char, out_of_layer. rewrite HbL, HLw.
           destruct (Z.ltb_spec (Z.of_nat x) 0); [lia|]. destruct (Z.ltb_spec (Z.of_nat y) 0); [lia|].
           destruct (Z.geb_spec (Z.of_nat x) 80); [reflexivity|lia].
        -- apply IHl. intros x' Hx'. apply Hl. right. exact Hx'.
      * replace (W - 80)%nat with 0%nat by lia. cbn [seq map repeat]. rewrite app_nil_r.
        apply skipn_all2. rewrite Hl1. lia.
  - lia.
  - exact Hp6.
  - cbn [get_font N.eqb]. eexists. split; [reflexivity|].
    destruct Hwf as (H1 & H2 & H3 & H4). unfold font_wf. cbn [font_named_default f_h f_len f_glyphs]. auto.
Qed.

(* every IDF file the loader accepts, of any width, unless it has more rows than the writer takes (known finding 1) *)
Lemma idf_resave_wide_proof : forall data b,
  is_bytes data -> load_idf data = Ok b -> b_h b <= 200 ->
  forall compress, exists data' b', save_idf compress (pic_of b) = Ok data' /\ load_idf data' = Ok b' /\
                                    same_picture true [0%N] (pic_of b) (pic_of b').
Proof.
  intros data b Hd Hl Hh compress. apply idf_roundtrip_wide_proof. exact (idf_load_representable_wide data b Hd Hl Hh).
Qed.

(* the remaining condition is exact: the writer refuses iff the picture has more than 200 rows *)
Lemma idf_refused_iff_known : forall data b compress,
  is_bytes data -> load_idf data = Ok b ->
  ((exists e, save_idf compress (pic_of b) = Err e) <-> KnownC05_idf_size (pic_of b)).
Proof.
  intros data b compress Hd Hl. split.
  - intros (e & He). unfold KnownC05_idf_size. cbn [pic_of p_h].
    destruct (Z.le_gt_cases (b_h b) 200) as [Hle|Hgt]; [|lia].
    destruct (idf_resave_wide_proof data b Hd Hl Hle compress) as (d' & b' & Hs & _). congruence.
  - intro Hk. exists 2%N. apply idf_known_size_refused; [exact Hk|].
    (* every loaded IDF buffer is in ice mode *)
    unfold load_idf in Hl.
    destruct (length data <? _)%nat; [discriminate|].
    destruct data as [|v0 [|v1 [|v2 [|v3 [|x1l [|x1h [|y1l [|y1h [|x2l [|x2h [|y2l [|y2h rest]]]]]]]]]]]]; try discriminate.
    destruct (negb _); [discriminate|]. destruct (_ <? _); [discriminate|].
    destruct (idf_loop _ _ _ _ _ _ _) as [[L bh] unread].
    destruct (font_create_8 _ _); cbn [bind] in Hl; try discriminate.
    destruct (from_63 _); cbn [bind] in Hl; try discriminate.
    injection Hl as <-. reflexivity.
Qed.
