(* C05 proofs for ArtWorx ADF (Model/C05Bin.v): palette and font blocks, round trip, re-save. *)
From Coq Require Import NArith ZArith Bool List Lia PeanoNat.
From IE Require Import Lib.Tbl Lib.Bits Lib.C18Lib Lib.C05Lib Gen.Codepage Gen.Formats Model.Attr Model.C05Buf Model.C05Bin
  Model.C05Spec Proofs.AttrProofs Proofs.C05BufProofs Proofs.C05BinProofs.
Import ListNotations.
Local Open Scope Z_scope.

(* ------------------------------------------------------------------ 6-bit colour channels *)
Lemma six_bit_sweep : forallb (fun r => (reduce6 (expand6 r) =? r)%N) (nrange 64) = true.
Proof. vm_compute. reflexivity. Qed.
Lemma reduce_expand6 r : (r < 64)%N -> reduce6 (expand6 r) = r.
Proof. intro H. apply N.eqb_eq. exact (nrange_forallb _ _ six_bit_sweep r H). Qed.

(* ------------------------------------------------------------------ as_vec_63 *)
Lemma as_vec_63_length p : length (as_vec_63 p) = (3 * length p)%nat.
Proof.
  unfold as_vec_63. induction p as [|[[r g] b] p IH]; [reflexivity|].
  cbn [flat_map length app]. rewrite IH. lia.
Qed.

Lemma nth_error_as_vec_63 p : forall i r g b,
  nth_error p i = Some (r, g, b) ->
  nth_error (as_vec_63 p) (3 * i) = Some (reduce6 r) /\
  nth_error (as_vec_63 p) (3 * i + 1) = Some (reduce6 g) /\
  nth_error (as_vec_63 p) (3 * i + 2) = Some (reduce6 b).
Proof.
  induction p as [|[[r0 g0] b0] p IH]; intros i r g b H.
  - destruct i; discriminate.
  - destruct i as [|i].
    + injection H as -> -> ->. repeat split.
    + cbn [nth_error] in H. destruct (IH i r g b H) as (H1 & H2 & H3).
      unfold as_vec_63 in *. cbn [flat_map app].
      replace (3 * S i)%nat with (S (S (S (3 * i)))) by lia.
      cbn [Nat.add nth_error]. auto.
Qed.

Lemma from_63_as_vec_63 p : Forall six_bit p -> from_63 (as_vec_63 p) = Ok p.
Proof.
  induction 1 as [|[[r g] b] p (Hr & Hg & Hb) _ IH]; [reflexivity|].
  unfold as_vec_63 in *. cbn [flat_map app from_63]. rewrite IH. cbn [bind]. rewrite Hr, Hg, Hb. reflexivity.
Qed.

(* ------------------------------------------------------------------ EGA register block *)
Lemma ega_offsets_sweep :
  forallb (fun o => (o <? 64)%N) EGA_COLOR_OFFSETS = true /\ length EGA_COLOR_OFFSETS = 16%nat /\
  length EGA_PALETTE = 64%nat /\
  (if list_eq_dec N.eq_dec (nodup N.eq_dec EGA_COLOR_OFFSETS) EGA_COLOR_OFFSETS then true else false) = true.
Proof. vm_compute. repeat split. Qed.

Lemma ega_offsets_nodup : NoDup EGA_COLOR_OFFSETS.
Proof.
  destruct ega_offsets_sweep as (_ & _ & _ & H).
  destruct (list_eq_dec N.eq_dec (nodup N.eq_dec EGA_COLOR_OFFSETS) EGA_COLOR_OFFSETS) as [E|]; [|discriminate].
  rewrite <- E. apply NoDup_nodup.
Qed.

Lemma write_at_length offs : forall cols ega, length (write_at offs cols ega) = length ega.
Proof.
  induction offs as [|o os IH]; intros [|c cs] ega; cbn [write_at]; try reflexivity.
  rewrite IH, updf_length. reflexivity.
Qed.

Lemma write_at_other offs : forall cols ega j,
  ~ In (N.of_nat j) offs -> nth_error (write_at offs cols ega) j = nth_error ega j.
Proof.
  induction offs as [|o os IH]; intros [|c cs] ega j Hj; cbn [write_at]; try reflexivity.
  rewrite IH by (intro; apply Hj; right; assumption).
  rewrite nth_error_updf. destruct (Nat.eqb_spec j (N.to_nat o)) as [E|]; [|reflexivity].
  exfalso. apply Hj. left. subst j. symmetry. apply N2Nat.id.
Qed.

Lemma read_write_at offs : forall cols ega,
  NoDup offs -> length cols = length offs -> Forall (fun o => (N.to_nat o < length ega)%nat) offs ->
  Forall six_bit cols ->
  read_at offs (as_vec_63 (write_at offs cols ega)) = Ok cols.
Proof.
  induction offs as [|o os IH]; intros cols ega Hnd Hlen Hb H6.
  - destruct cols; [reflexivity|discriminate].
  - destruct cols as [|c cs]; [discriminate|].
    inversion Hnd as [|? ? Hnotin Hnd']; subst. inversion Hb as [|? ? Ho Hb']; subst.
    inversion H6 as [|? ? Hc H6']; subst. cbn [length] in Hlen.
    cbn [write_at read_at].
    assert (Hnth : nth_error (write_at os cs (updf ega (N.to_nat o) (fun _ => c))) (N.to_nat o) = Some c).
    { rewrite write_at_other by (rewrite N2Nat.id; exact Hnotin).
      rewrite nth_error_updf, Nat.eqb_refl.
      destruct (nth_error ega (N.to_nat o)) eqn:E; [reflexivity|]. apply nth_error_None in E. lia. }
    destruct c as [[r g] b].
    destruct (nth_error_as_vec_63 _ _ _ _ _ Hnth) as (H1 & H2 & H3).
    rewrite H1, H2, H3.
    rewrite IH; try assumption; try lia.
    + cbn [bind]. destruct Hc as (-> & -> & ->). reflexivity.
    + eapply Forall_impl; [|exact Hb']. cbv beta. intros a Ha. rewrite updf_length. exact Ha.
Qed.

Lemma ega_roundtrip pal : length pal = 16%nat -> Forall six_bit pal -> from_ega_data (to_ega_data pal) = Ok pal.
Proof.
  intros Hlen H6. unfold from_ega_data, to_ega_data.
  destruct ega_offsets_sweep as (Hlt & Hl16 & Hl64 & _).
  apply read_write_at; try assumption.
  - apply ega_offsets_nodup.
  - rewrite forallb_forall in Hlt. apply Forall_forall. intros o Ho. specialize (Hlt o Ho).
    apply N.ltb_lt in Hlt. cbv beta. try rewrite Hl64. change (length EGA_PALETTE) with 64%nat. lia.
Qed.

Lemma to_ega_data_length pal : length (to_ega_data pal) = 192%nat.
Proof.
  unfold to_ega_data. rewrite as_vec_63_length, write_at_length. reflexivity.
Qed.

(* ------------------------------------------------------------------ font blocks *)
Lemma nrange_aux_seq k : forall s, nrange_aux k s = map N.of_nat (seq (N.to_nat s) k).
Proof.
  induction k as [|k IH]; intro s; cbn [nrange_aux seq map]; [reflexivity|].
  rewrite IH, N2Nat.inj_succ, N2Nat.id. reflexivity.
Qed.

Lemma flat_map_nth_seq {A} (g : list (list A)) (d : list A) :
  flat_map (fun i => match nth_error g i with Some x => x | None => d end) (seq 0 (length g)) = concat g.
Proof.
  rewrite flat_map_concat_map. f_equal. apply map_seq_nth_error. intros i a H. rewrite H. reflexivity.
Qed.

Lemma convert_wf h f : font_wf h f -> convert_to_u8_data f = concat (f_glyphs f).
Proof.
  intros (_ & Hlen & Hg & _). unfold convert_to_u8_data, nrange. rewrite Hlen.
  rewrite nrange_aux_seq. change (N.to_nat 0) with 0%nat. change (N.to_nat 256) with 256%nat.
  rewrite flat_map_concat_map, map_map, <- flat_map_concat_map.
  rewrite <- Hg.
  erewrite flat_map_ext; [apply flat_map_nth_seq|].
  intro i. cbv beta. rewrite Nat2N.id. reflexivity.
Qed.

Lemma convert_wf_length h f : font_wf h f -> length (convert_to_u8_data f) = (256 * N.to_nat h)%nat.
Proof.
  intros Hwf. rewrite (convert_wf h f Hwf). destruct Hwf as (_ & _ & Hg & Hall).
  rewrite (concat_length_const _ (N.to_nat h)) by exact Hall. rewrite Hg. reflexivity.
Qed.

Lemma font_create_8_convert h f :
  (1 <= h)%N -> font_wf h f -> font_create_8 h (convert_to_u8_data f) = Ok (mkFont h 256 false (f_glyphs f)).
Proof.
  intros Hh Hwf. unfold font_create_8, glyphs_from.
  rewrite (convert_wf h f Hwf). destruct Hwf as (_ & _ & Hg & Hall).
  rewrite chunks_aux_concat; [reflexivity|lia|exact Hall|].
  rewrite (concat_length_const _ (N.to_nat h)) by exact Hall. rewrite Hg. nia.
Qed.

(* ------------------------------------------------------------------ writer helpers *)
Lemma enc_cells_chk_ok enc e cells :
  Forall (fun c => (c_ch c < 256)%N) cells -> enc_cells_chk enc e cells = Ok (concat (map enc cells)).
Proof.
  induction 1 as [|c t Hc _ IH]; [reflexivity|].
  cbn [enc_cells_chk map concat]. destruct (N.ltb_spec 255 (c_ch c)); [lia|]. rewrite IH. reflexivity.
Qed.

Lemma save_rows_chk_ok enc e rows :
  Forall (Forall (fun c => (c_ch c < 256)%N)) rows -> save_rows_chk enc e rows = Ok (save_rows enc rows).
Proof.
  intro H. unfold save_rows_chk, save_rows. rewrite enc_cells_chk_ok.
  - f_equal. induction rows as [|r t IH]; [reflexivity|]. cbn [concat map]. rewrite map_app, concat_app.
    inversion H; subst. rewrite IH by assumption. reflexivity.
  - apply Forall_concat. exact H.
Qed.

Lemma insert_sorted_same x : insert_sorted x [x] = [x].
Proof. cbn. rewrite N.ltb_irrefl, N.eqb_refl. reflexivity. Qed.

Lemma used_pages_single pg rows :
  Forall (Forall (fun c => font_page (c_attr c) = pg)) rows -> concat rows <> [] -> used_pages rows = [pg].
Proof.
  intros H Hne. unfold used_pages.
  assert (Hall : Forall (fun c => font_page (c_attr c) = pg) (concat rows)) by (apply Forall_concat; exact H).
  destruct (concat rows) as [|c t]; [congruence|].
  inversion Hall as [|? ? Hc Ht]; subst. cbn [fold_left insert_sorted].
  assert (E : fold_left (fun acc c0 => insert_sorted (font_page (c_attr c0)) acc) t [font_page (c_attr c)] = [font_page (c_attr c)]).
  { clear -Ht. induction Ht as [|d t Hd _ IH]; [reflexivity|].
    cbn [fold_left]. rewrite Hd, insert_sorted_same. exact IH. }
  rewrite E. reflexivity.
Qed.

Lemma used_pages_page0 rows :
  Forall (Forall (fun c => font_page (c_attr c) = 0%N)) rows -> used_pages rows = [0%N].
Proof.
  intro H. destruct (concat rows) eqn:E.
  - unfold used_pages. rewrite E. reflexivity.
  - apply used_pages_single; [exact H|congruence].
Qed.

Lemma concat_rows_nonempty p : rect p -> 1 <= p_w p -> 1 <= p_h p -> concat (p_rows p) <> [].
Proof.
  intros (_ & _ & Hl & Hr) Hw Hh E.
  destruct (p_rows p) as [|r t]; [cbn in Hl; lia|].
  inversion Hr as [|? ? Hr1 _]; subst. cbn [concat] in E. apply app_eq_nil in E. destruct E as [E _].
  subst r. cbn in Hr1. lia.
Qed.

(* ------------------------------------------------------------------ ADF round trip *)
(* no SAUCE record, or one that gives the width the format has anyway *)
Definition adf_sauce_like (s : option sauce) : Prop :=
  match s with None => True | Some s => s_w s = 80 end.

Definition adf_bytes (p : pic) (f : font) : list N :=
  [ADF_VERSION] ++ to_ega_data (p_pal p) ++ convert_to_u8_data f ++ save_rows enc_adf (p_rows p).

Lemma cells_lt_256 m p : all_pic_cells (cell8_page0 m) p -> Forall (Forall (fun c => (c_ch c < 256)%N)) (p_rows p).
Proof.
  intro H. eapply Forall_impl; [|exact H]. intros r Hr. eapply Forall_impl; [|exact Hr].
  intros c ((Hc & _) & _). exact Hc.
Qed.

Lemma cells_page0 m p : all_pic_cells (cell8_page0 m) p -> Forall (Forall (fun c => font_page (c_attr c) = 0%N)) (p_rows p).
Proof.
  intro H. eapply Forall_impl; [|exact H]. intros r Hr. eapply Forall_impl; [|exact Hr].
  intros c (_ & Hc). exact Hc.
Qed.

Lemma save_adf_ok p f :
  representable_adf p -> get_font (p_fonts p) 0 = Some f -> save_adf p = Ok (adf_bytes p f).
Proof.
  intros (Hrect & Hw & Hice & Hcells & Hpl & _ & (f' & Hf' & Hwf)) Hf.
  rewrite Hf in Hf'. injection Hf' as <-.
  unfold save_adf. rewrite Hice. cbn [is_ice negb]. rewrite Hw. cbn [Z.eqb Pos.eqb negb].
  rewrite Hpl. cbn [Nat.eqb negb].
  rewrite used_pages_page0 by apply (cells_page0 Ice), Hcells.
  cbn [length Nat.ltb Nat.leb]. unfold font0_height. rewrite Hf. cbn [bind].
  destruct Hwf as (Hfh & Hwf'). rewrite Hfh. cbn [N.eqb Pos.eqb negb].
  rewrite save_rows_chk_ok by (apply (cells_lt_256 Ice), Hcells). cbn [bind]. reflexivity.
Qed.

Lemma adf_decode_enc c : (c_ch c < 256)%N ->
  seen (adf_decode (c_ch c) (as_u8 (c_attr c) Ice)) = mkCell (c_ch c) (from_u8 (as_u8 (c_attr c) Ice) Ice).
Proof. intros _. unfold adf_decode. apply seen_from_u8, as_u8_range_proof. Qed.

Lemma adf_roundtrip_proof : forall p s, representable_adf p -> adf_sauce_like s ->
  exists data b, save_adf p = Ok data /\ load_adf data s = Ok b /\ same_picture true [0%N] p (pic_of b).
Proof.
  intros p s Hrep Hs.
  pose proof Hrep as (Hrect & Hw & Hice & Hcells & Hpl & Hp6 & (f & Hf & Hwf)).
  exists (adf_bytes p f). rewrite (save_adf_ok p f Hrep Hf).
  set (rows := p_rows p). set (rows' := map (map (fun c => adf_decode (c_ch c) (as_u8 (c_attr c) Ice))) rows).
  set (lines' := lfill_rows 80 [] 0 rows').
  set (n := Z.of_nat (length rows')).
  (* the buffer before the cell loop *)
  set (b1 := set_modes (set_ice (set_width (set_sauce (buffer_new 80 25) s) 80) Ice) 3 2).
  assert (Hb1 : exists h0 ls0, b_layer b1 = mkLayer 80 h0 ls0 /\ b_w b1 = 80).
  { unfold b1. destruct s as [s|].
    - cbn in Hs. destruct s as [sw sh si]. cbn in Hs. subst sw. rewrite set_sauce_some by lia.
      exists sh, (l_lines (layer_new 80 25)). destruct si; split; reflexivity.
    - exists 25, (l_lines (layer_new 80 25)). split; reflexivity. }
  destruct Hb1 as (h0 & ls0 & Hb1l & Hb1w).
  set (font' := font_named_default (mkFont 16 256 false (f_glyphs f))).
  set (b2 := set_fonts (set_pal b1 (p_pal p)) [(0%N, font')]).
  set (bfin := set_height (set_layer b2 (mkLayer 80 n lines')) n).
  exists bfin.
  destruct Hrect as (Hw0 & Hh0 & Hlen & Hrows).
  assert (Hrows80 : Forall (fun r => Z.of_nat (length r) = 80) rows).
  { eapply Forall_impl; [|exact Hrows]. cbv beta. intros r Hr. rewrite Hr, Hw. reflexivity. }
  assert (Hrows'ne : Forall (fun r => Z.of_nat (length r) <= 80 /\ r <> []) rows').
  { unfold rows'. apply Forall_forall. intros r' Hr'. apply in_map_iff in Hr'. destruct Hr' as (r & <- & Hr).
    rewrite map_length. rewrite Forall_forall in Hrows80. specialize (Hrows80 r Hr). split; [lia|].
    intro E. apply map_eq_nil in E. subst r. cbn in Hrows80. lia. }
  assert (Hlenr' : length rows' = length rows) by (unfold rows'; apply map_length).
  split; [reflexivity|]. split.
  { unfold load_adf. fold b1.
    assert (Hlenb : length (adf_bytes p f) = (1 + 192 + 4096 + length (save_rows enc_adf (p_rows p)))%nat).
    { unfold adf_bytes. rewrite !app_length, to_ega_data_length, (convert_wf_length 16 f Hwf). reflexivity. }
    destruct (Nat.ltb_spec (length (adf_bytes p f)) (N.to_nat ADF_HEADER_LENGTH)) as [Hlt|_].
    { rewrite Hlenb in Hlt. change (N.to_nat ADF_HEADER_LENGTH) with 4289%nat in Hlt. lia. }
    unfold adf_bytes. cbn [app]. rewrite N.eqb_refl. cbn [negb].
    rewrite (firstn_app_exact (to_ega_data (p_pal p))) by apply to_ega_data_length.
    rewrite (ega_roundtrip _ Hpl Hp6). cbn [bind].
    rewrite (skipn_app_exact (to_ega_data (p_pal p))) by apply to_ega_data_length.
    rewrite (firstn_app_exact (convert_to_u8_data f)) by apply (convert_wf_length 16 f Hwf).
    rewrite (font_create_8_convert 16 f) by (try exact Hwf; lia). cbn [bind].
    rewrite (skipn_app_exact (convert_to_u8_data f)) by apply (convert_wf_length 16 f Hwf).
    fold font' b2.
    assert (Hb2w : b_w b2 = 80) by exact Hb1w. assert (Hb2l : b_layer b2 = mkLayer 80 h0 ls0) by exact Hb1l.
    rewrite Hb2w, Hb2l.
    assert (Hloop : exists hx, adf_loop 80 (layer_clear_lines (mkLayer 80 h0 ls0)) 0 0 (save_rows enc_adf (p_rows p)) = mkLayer 80 hx lines').
    { unfold adf_loop. change enc_adf with (fun c : cell => [c_ch c; as_u8 (c_attr c) Ice]).
      rewrite (pair_loop_rows true adf_decode (fun c => c_ch c) (fun c => as_u8 (c_attr c) Ice) 80 (p_rows p)) by (try assumption; lia).
      fold rows rows'. rewrite fill_rows_spec; cbn [l_w l_h l_lines layer_clear_lines].
      - eexists. reflexivity.
      - lia.
      - exact Hrows'ne.
      - left. reflexivity. }
    destruct Hloop as (hx & Hloop). rewrite Hloop.
    rewrite crop_nonempty; cbn [b_layer set_layer l_lines l_w].
    - unfold bfin, n, lines'. rewrite length_lfill_rows by (eapply Forall_impl; [|exact Hrows'ne]; cbv beta; tauto).
      destruct rows' eqn:E; [reflexivity|]. rewrite <- E.
      cbn [length Nat.max Nat.add]. reflexivity.
    - unfold lines'. apply lfill_rows_nonempty; [lia|constructor]. }
  (* the picture *)
  assert (Hpic : p_rows (pic_of bfin) = map (map seen) rows').
  { apply pic_rows_of_lines with (w := 80%nat); unfold bfin; cbn [b_w b_h b_layer set_height set_layer l_w l_h l_lines].
    - exact Hb1w.
    - reflexivity.
    - change (b_w b2) with (b_w b1). rewrite Hb1w. lia.
    - lia.
    - unfold rows'. apply Forall_forall. intros r' Hr'. apply in_map_iff in Hr'. destruct Hr' as (r & <- & Hr).
      rewrite map_length. rewrite Forall_forall in Hrows80. specialize (Hrows80 r Hr). lia.
    - intros x y r c Hr Hc. unfold lines'. rewrite cell_at_lfill_rows. cbn [Nat.leb]. rewrite Nat.sub_0_r, Hr, Hc. reflexivity. }
  unfold same_picture. rewrite Hpic.
  unfold bfin. cbn [pic_of p_w p_h p_ice p_pal p_fonts b_w b_h b_ice b_pal b_fonts set_height set_layer].
  repeat split.
  - rewrite Hw. symmetry. exact Hb1w.
  - unfold n. rewrite Hlenr'. unfold rows. rewrite Hlen. lia.
  - unfold same_mode. rewrite Hice. reflexivity.
  - unfold rows'. rewrite map_map_rows. apply Forall2_rows_map with (P := cell8_page0 Ice); [exact Hcells|].
    intros c ((Hch & Hex) & Hpg). rewrite adf_decode_enc by exact Hch.
    split; [reflexivity|]. cbn [c_attr]. split.
    + symmetry. apply attr_encode_decode_proof, Hex.
    + intros _. rewrite Hpg. symmetry. apply (from_u8_visible Ice _ 0%N), as_u8_range_proof.
  - constructor; [|constructor]. rewrite Hf. unfold b2.
    cbn [pic_of p_fonts b_fonts set_height set_layer set_fonts get_font N.eqb]. unfold font', same_font.
    cbn [font_named_default f_h f_len f_glyphs].
    destruct Hwf as (Hfh & Hfl & _). auto.
Qed.

(* ------------------------------------------------------------------ ADF: every loaded file is representable *)
Lemma expand6_idem_sweep : forallb (fun r => (expand6 (reduce6 (expand6 r)) =? expand6 r)%N) (nrange 256) = true.
Proof. vm_compute. reflexivity. Qed.
Lemma expand6_six_bit r : (r < 256)%N -> expand6 (reduce6 (expand6 r)) = expand6 r.
Proof. intro H. apply N.eqb_eq. exact (nrange_forallb _ _ expand6_idem_sweep r H). Qed.

Lemma nth_error_bytes l i b : is_bytes l -> nth_error l i = Some b -> (b < 256)%N.
Proof. intros H E. apply nth_error_In in E. unfold is_bytes in H. rewrite Forall_forall in H. apply H, E. Qed.

Lemma read_at_shape offs : forall bytes pal,
  is_bytes bytes -> read_at offs bytes = Ok pal -> length pal = length offs /\ Forall six_bit pal.
Proof.
  induction offs as [|o os IH]; intros bytes pal Hb H; cbn [read_at] in H.
  - injection H as <-. split; [reflexivity|constructor].
  - destruct (nth_error bytes (3 * N.to_nat o)) as [r|] eqn:Er; [|discriminate].
    destruct (nth_error bytes (3 * N.to_nat o + 1)) as [g|] eqn:Eg; [|discriminate].
    destruct (nth_error bytes (3 * N.to_nat o + 2)) as [b|] eqn:Eb; [|discriminate].
    destruct (read_at os bytes) as [t| |] eqn:Et; cbn [bind] in H; try discriminate.
    injection H as <-. destruct (IH bytes t Hb Et) as (Hl & H6). split; [cbn [length]; congruence|].
    constructor; [|exact H6]. unfold six_bit.
    repeat split; apply expand6_six_bit; eapply nth_error_bytes; eassumption.
Qed.

Lemma from_63_shape : forall bytes pal,
  is_bytes bytes -> from_63 bytes = Ok pal -> (3 * length pal = length bytes)%nat /\ Forall six_bit pal.
Proof.
  assert (Hind : forall n bytes, (length bytes <= n)%nat -> forall pal, is_bytes bytes -> from_63 bytes = Ok pal ->
                 (3 * length pal = length bytes)%nat /\ Forall six_bit pal).
  { induction n as [|n IH]; intros bytes Hn pal Hb H.
    - destruct bytes; [|cbn in Hn; lia]. injection H as <-. split; [reflexivity|constructor].
    - destruct bytes as [|r [|g [|b t]]]; cbn [from_63] in H; try discriminate.
      + injection H as <-. split; [reflexivity|constructor].
      + destruct (from_63 t) as [p| |] eqn:Et; cbn [bind] in H; try discriminate. injection H as <-.
        inversion Hb as [|? ? Hr Hb1]; subst. inversion Hb1 as [|? ? Hg Hb2]; subst. inversion Hb2 as [|? ? Hbb Hb3]; subst.
        cbn [length] in Hn. destruct (IH t ltac:(lia) p Hb3 Et) as (Hl & H6).
        split; [cbn [length]; lia|]. constructor; [|exact H6].
        unfold six_bit. repeat split; apply expand6_six_bit; assumption. }
  intros bytes pal. apply (Hind (length bytes)). lia.
Qed.

Lemma font_create_8_wf h data f :
  (1 <= h)%N -> length data = (256 * N.to_nat h)%nat -> font_create_8 h data = Ok f -> font_wf h f /\ f_default f = false.
Proof.
  intros Hh Hlen H. unfold font_create_8, glyphs_from in H.
  destruct (chunks_aux (length data) (N.to_nat h) data) as [g|] eqn:E.
  - cbn [bind] in H. injection H as <-. destruct (chunks_aux_spec _ _ _ _ E) as (Hall & Hcat).
    split; [|reflexivity]. unfold font_wf. cbn [f_h f_len f_glyphs]. repeat split; try assumption.
    pose proof (concat_length_const g (N.to_nat h) Hall) as Hc. rewrite Hcat, Hlen in Hc. nia.
  - destruct (h =? 0)%N; discriminate.
Qed.

Lemma is_bytes_firstn l n : is_bytes l -> is_bytes (firstn n l).
Proof. intro H. unfold is_bytes in *. rewrite <- (firstn_skipn n l) in H. apply Forall_app in H. apply H. Qed.
Lemma is_bytes_skipn l n : is_bytes l -> is_bytes (skipn n l).
Proof. intro H. unfold is_bytes in *. rewrite <- (firstn_skipn n l) in H. apply Forall_app in H. apply H. Qed.

Lemma adf_load_representable : forall data s b,
  is_bytes data -> adf_sauce_like s -> load_adf data s = Ok b -> representable_adf (pic_of b).
Proof.
  intros data s b Hbytes Hs Hload. unfold load_adf in Hload.
  set (b1 := set_modes (set_ice (set_width (set_sauce (buffer_new 80 25) s) 80) Ice) 3 2) in *.
  assert (Hb1 : exists h0 ls0, b_layer b1 = mkLayer 80 h0 ls0 /\ b_w b1 = 80 /\ b_ice b1 = Ice).
  { unfold b1. destruct s as [s|].
    - cbn in Hs. destruct s as [sw sh si]. cbn in Hs. subst sw. rewrite set_sauce_some by lia.
      exists sh, (l_lines (layer_new 80 25)). destruct si; repeat split; reflexivity.
    - exists 25, (l_lines (layer_new 80 25)). repeat split; reflexivity. }
  destruct Hb1 as (h0 & ls0 & Hb1l & Hb1w & Hb1i).
  destruct (Nat.ltb_spec (length data) (N.to_nat ADF_HEADER_LENGTH)) as [|Hlen]; [discriminate|].
  change (N.to_nat ADF_HEADER_LENGTH) with 4289%nat in Hlen.
  destruct data as [|version rest]; [discriminate|]. cbn [length] in Hlen.
  destruct (negb (version =? ADF_VERSION)%N); [discriminate|].
  inversion Hbytes as [|? ? _ Hrest]; subst.
  destruct (from_ega_data (firstn 192 rest)) as [pal| |] eqn:Epal; cbn [bind] in Hload; try discriminate.
  destruct (font_create_8 16 (firstn 4096 (skipn 192 rest))) as [font| |] eqn:Efont; cbn [bind] in Hload; try discriminate.
  destruct (read_at_shape _ _ _ (is_bytes_firstn _ 192 Hrest) Epal) as (Hpl & Hp6).
  assert (Hfl : length (firstn 4096 (skipn 192 rest)) = (256 * N.to_nat 16)%nat).
  { rewrite firstn_length, skipn_length. change (256 * N.to_nat 16)%nat with 4096%nat. lia. }
  destruct (font_create_8_wf 16 _ _ ltac:(lia) Hfl Efont) as (Hwf & _).
  set (b2 := set_fonts (set_pal b1 pal) [(0%N, font_named_default font)]) in *.
  assert (Hb2w : b_w b2 = 80) by exact Hb1w. assert (Hb2l : b_layer b2 = mkLayer 80 h0 ls0) by exact Hb1l.
  rewrite Hb2w, Hb2l in Hload.
  remember (adf_loop 80 (layer_clear_lines (mkLayer 80 h0 ls0)) 0 0 (skipn 4096 (skipn 192 rest))) as L eqn:EL.
  assert (HLw : l_w L = 80) by (rewrite EL; unfold adf_loop; rewrite pair_loop_width; reflexivity).
  assert (HLne : lines_nonempty (l_lines L)).
  { rewrite EL. unfold adf_loop. apply pair_loop_nonempty; cbn [l_w l_lines layer_clear_lines]; [lia|constructor]. }
  assert (HLcells : all_cells (stored8 Ice) (l_lines L)).
  { rewrite EL. unfold adf_loop. apply pair_loop_all_cells with (Q := fun b => (b < 256)%N).
    - left. reflexivity.
    - intros ch a Hch Ha. right. exists ch, a. repeat split; assumption.
    - apply is_bytes_skipn, is_bytes_skipn, Hrest.
    - cbn [l_lines layer_clear_lines]. constructor. }
  rewrite crop_nonempty in Hload by exact HLne. cbn [b_layer set_layer l_w l_lines] in Hload. rewrite HLw in Hload.
  set (n := Z.of_nat (length (l_lines L))) in *.
  injection Hload as <-.
  unfold representable_adf.
  cbn [pic_of p_w p_h p_ice p_pal p_fonts b_w b_h b_ice b_pal b_fonts set_height set_layer].
  split; [|split; [|split; [|split; [|split; [|split]]]]].
  - unfold rect. apply (pic_of_rect (set_height (set_layer b2 (mkLayer 80 n (l_lines L))) n)); cbn [b_w b_h set_height set_layer]; [rewrite Hb2w|unfold n]; lia.
  - exact Hb2w.
  - exact Hb1i.
  - unfold all_pic_cells.
    apply (pic_of_all_cells (stored8 Ice) (cell8_page0 Ice)); cbn [b_w b_h b_layer set_height set_layer l_w l_h l_lines].
    + rewrite Hb2w. lia.
    + lia.
    + left. reflexivity.
    + exact HLcells.
    + intros c Hc. apply stored8_seen, Hc.
  - unfold b2. cbn [b_pal set_fonts set_pal]. rewrite Hpl. reflexivity.
  - unfold b2. cbn [b_pal set_fonts set_pal]. exact Hp6.
  - unfold b2. cbn [b_fonts set_fonts get_font N.eqb]. eexists. split; [reflexivity|].
    destruct Hwf as (H1 & H2 & H3 & H4). unfold font_wf. cbn [font_named_default f_h f_len f_glyphs]. auto.
Qed.

Lemma adf_resave_proof : forall data s b,
  is_bytes data -> adf_sauce_like s -> load_adf data s = Ok b ->
  forall s', adf_sauce_like s' ->
  exists data' b', save_adf (pic_of b) = Ok data' /\ load_adf data' s' = Ok b' /\
                   same_picture true [0%N] (pic_of b) (pic_of b').
Proof.
  intros data s b Hd Hs Hl s' Hs'. apply adf_roundtrip_proof; [|exact Hs']. exact (adf_load_representable data s b Hd Hs Hl).
Qed.
