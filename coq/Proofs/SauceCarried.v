(* C11, part 3: what `carried` means for the fields the property lists; font names; dates; the CP437 sweep. *)
From Coq Require Import NArith ZArith List Bool Arith Lia.
From IE Require Import Lib.Tbl Lib.Bits Gen.Sauce Model.Sauce Model.SauceSpec Proofs.SauceStrings Proofs.SauceProofs.
Import ListNotations.
Local Open Scope nat_scope.

(* ---- strings through append_to and read, as one statement per kind ------------------------------------ *)
Theorem strings_roundtrip_blank_proof LEN s rest : length s <= LEN ->
  exists r, ss_read LEN 32%N (ss_append LEN 32%N s [] ++ rest) = Ok r /\
            r = norm_blank LEN s /\ ss_eq r s = true /\ length r <= LEN.
Proof.
  intro H. exists (norm_blank LEN s). rewrite ss_append_pad. cbn [app].
  split; [now apply read_pad_blank|]. split; [reflexivity|]. split; [apply norm_blank_eq|].
  unfold norm_blank. destruct (forallb is32 s).
  - now rewrite repeat_length.
  - etransitivity; [apply strip_end_length|exact H].
Qed.

Theorem strings_roundtrip_nul_proof LEN s rest : length s <= LEN ->
  exists r, ss_read LEN 0%N (ss_append LEN 0%N s [] ++ rest) = Ok r /\
            r = norm_nul s /\ (ss_eq r s = true <-> ~ In 0%N (strip_end blank s)) /\
            (~ In 0%N s -> r = s).
Proof.
  intro H. exists (norm_nul s). rewrite ss_append_pad. cbn [app].
  split; [now apply read_pad_nul|]. split; [reflexivity|]. split; [apply norm_nul_eq_iff|].
  intro Hn. unfold norm_nul. apply take_while_all. apply forallb_forall. intros x Hx.
  unfold nz. destruct (N.eqb_spec x 0); [subst; contradiction|reflexivity].
Qed.

(* ---- the fields the property lists -------------------------------------------------------------------- *)
Definition variant_has_flags (ft : sft) : bool :=
  match ft with FtUndefined | FtAscii | FtAnsi => true | _ => false end.
Definition variant_has_ice (ft : sft) : bool :=
  match ft with FtUndefined | FtAscii | FtAnsi | FtANSiMation | FtBin => true | _ => false end.

Theorem carried_listed_fields_proof ft b name date :
  let m := carried ft b name date in
  let '(t, a, g, cs) := w_strings b in
  let '(ls, ar) := w_flags b in
  ss_eq (s_title m) t = true /\ ss_eq (s_author m) a = true /\ ss_eq (s_group m) g = true /\
  s_comments m = map norm_nul cs /\
  (forall c, In c cs -> ~ In 0%N (strip_end blank c) -> ss_eq (norm_nul c) c = true) /\
  s_ice m = (variant_has_ice ft && b_ice b) /\
  s_ls m = (variant_has_flags ft && ls) /\ s_ar m = (variant_has_flags ft && ar) /\
  s_font m = (if variant_has_ice ft then Some (carried_font name) else None) /\
  ((1 <= b_width b <= 1000)%Z ->
     match ft with
     | FtBin => (b_width b <= 511)%Z -> s_width m = (2 * (b_width b / 2))%Z     (* wider: the writer returns Err *)
     | _ => s_width m = b_width b
     end) /\
  s_date m = date.
Proof.
  cbv zeta. unfold carried. destruct (w_strings b) as [[[t a] g] cs]. destruct (w_flags b) as [ls ar].
  assert (HW : (1 <= b_width b <= 1000)%Z -> (b_width b mod 65536 = b_width b)%Z) by (intro; apply Z.mod_small; lia).
  assert (HB : (1 <= b_width b <= 1000)%Z -> (b_width b <= 511)%Z ->
               (Z.quot (b_width b) 2 mod 256 * 2 = 2 * (b_width b / 2))%Z).
  { intros Hw Hb. rewrite Z.quot_div_nonneg by lia.
    assert (0 <= b_width b / 2 < 256)%Z by (split; [apply Z.div_pos; lia|apply Z.div_lt_upper_bound; lia]).
    rewrite Z.mod_small by assumption. lia. }
  assert (HC : forall c : list N, In c cs -> ~ In 0%N (strip_end blank c) -> ss_eq (norm_nul c) c = true)
    by (intros c _ Hc; now apply norm_nul_eq_iff).
  destruct ft; cbn [s_title s_author s_group s_comments s_ice s_ls s_ar s_font s_width s_date variant_has_flags variant_has_ice andb];
    repeat split; try apply norm_blank_eq; try exact HC; try exact HW; try exact HB; try (now rewrite andb_false_r).
Qed.

(* ---- header length -------------------------------------------------------------------------------------- *)
Theorem header_len_formula_proof ft b name date :
  s_header_len (carried ft b name date) =
  let n := length (let '(_, _, _, cs) := w_strings b in cs) in
  match n with O => 129 | _ => 129 + 5 + 64 * n end.
Proof.
  rewrite carried_header_len. cbv zeta. destruct (w_strings b) as [[[t a] g] cs].
  unfold comment_block_len. unfold_consts. destruct (length cs); lia.
Qed.

(* ---- CP437 <-> Unicode as used by SauceString::from / Display ------------------------------------------------ *)
Lemma find_idx_spec T c : forall i j, find_idx T c i = Some j ->
  (i <= j)%N /\ nth (N.to_nat (j - i)) T 0%N = c.
Proof.
  induction T as [|x T IH]; intros i j; cbn [find_idx]; [discriminate|].
  destruct (N.eqb_spec x c) as [->|Hne].
  - intro H. inversion H; subst. split; [lia|]. now rewrite N.sub_diag.
  - intro H. apply IH in H as [H1 H2]. split; [lia|].
    replace (N.to_nat (j - i)) with (S (N.to_nat (j - N.succ i))) by lia. exact H2.
Qed.

Lemma find_idx_in T c : forall i, In c T -> exists j, find_idx T c i = Some j.
Proof.
  induction T as [|x T IH]; intros i Hin; [contradiction|]. cbn [find_idx].
  destruct (N.eqb_spec x c); [eexists; reflexivity|]. destruct Hin as [E|Hin]; [contradiction|]. now apply IH.
Qed.

(* Display after from gives the character back, for every character of the table *)
Lemma decode_encode c : In c CP437_TO_UNICODE -> tget CP437_TO_UNICODE (cp437_encode c) = c.
Proof.
  intro Hin. unfold cp437_encode. destruct (find_idx_in _ c 0%N Hin) as (j & Hj). rewrite Hj.
  apply find_idx_spec in Hj as [_ Hj]. rewrite N.sub_0_r in Hj. exact Hj.
Qed.

(* the table has no duplicate code point: from inverts Display on all 256 bytes (complete sweep) *)
Lemma cp437_decode_encode_sweep :
  forallb (fun b => N.eqb (cp437_encode (tget CP437_TO_UNICODE b)) b) (nrange 256) = true.
Proof. vm_compute. reflexivity. Qed.

(* hence SauceString::from (Display characters of bytes) gives the bytes back, for all 256 byte values *)
Theorem from_inverts_display_proof bs : Forall (fun b => (b < 256)%N) bs ->
  ss_from (length bs) (map (tget CP437_TO_UNICODE) bs) = bs.
Proof.
  induction 1 as [|b bs Hb _ IH]; [reflexivity|]. cbn [length map ss_from]. rewrite IH. f_equal.
  apply N.eqb_eq. exact (nrange_forallb _ 256%N cp437_decode_encode_sweep b Hb).
Qed.

Lemma ss_from_map LEN : forall chars, length chars <= LEN -> ss_from LEN chars = map cp437_encode chars.
Proof.
  induction LEN as [|l IH]; intros [|c t] H; cbn [ss_from map length] in *; try reflexivity; try lia.
  f_equal. apply IH. lia.
Qed.

Lemma encode_zero c : In c CP437_TO_UNICODE -> cp437_encode c = 0%N -> c = 0%N.
Proof. intros Hin E. apply decode_encode in Hin. rewrite E in Hin. now rewrite <- Hin. Qed.
Lemma encode_blank c : In c CP437_TO_UNICODE -> blank (cp437_encode c) = true -> c = 0%N \/ c = 32%N.
Proof.
  intros Hin B. apply decode_encode in Hin. unfold blank in B. apply orb_true_iff in B as [B|B]; apply N.eqb_eq in B;
    rewrite B in Hin; [left|right]; now rewrite <- Hin.
Qed.

(* a font name made of CP437 characters, without NUL, at most 22 long, not ending in a blank, comes back unchanged *)
Theorem font_name_roundtrip_proof name :
  Forall (fun c => In c CP437_TO_UNICODE /\ c <> 0%N) name -> length name <= TINFOS_LEN ->
  (forall u c, name = u ++ [c] -> c <> 32%N) ->
  carried_font name = name.
Proof.
  intros Hall Hlen Hlast. unfold carried_font. rewrite ss_from_map by exact Hlen.
  assert (Hnz : forallb nz (map cp437_encode name) = true).
  { apply forallb_forall. intros x Hx. apply in_map_iff in Hx as (c & <- & Hc).
    rewrite Forall_forall in Hall. destruct (Hall c Hc) as [Hin Hne]. unfold nz.
    destruct (N.eqb_spec (cp437_encode c) 0) as [E|]; [|reflexivity]. now apply encode_zero in E. }
  unfold norm_nul. rewrite take_while_all by exact Hnz.
  unfold ss_to_string, ss_len.
  assert (Hstrip : strip_end blank (map cp437_encode name) = map cp437_encode name).
  { destruct (list_eq_dec N.eq_dec name []) as [->|Hne]; [reflexivity|].
    destruct (exists_last Hne) as (u & c & ->). rewrite map_app. cbn [map].
    assert (Hb : blank (cp437_encode c) = false).
    { destruct (blank (cp437_encode c)) eqn:B; [|reflexivity]. exfalso.
      rewrite Forall_forall in Hall. destruct (Hall c) as [Hin Hne0]; [apply in_or_app; right; now left|].
      destruct (encode_blank c Hin B) as [E|E]; [contradiction|]. now apply (Hlast u c). }
    rewrite strip_end_app_keep; cbn [strip_end]; rewrite Hb; [reflexivity|discriminate]. }
  rewrite Hstrip, firstn_all2 by (rewrite !map_length; lia).
  rewrite map_map. rewrite <- (map_id name) at 2. apply map_ext_in. intros c Hc.
  rewrite Forall_forall in Hall. now apply decode_encode, Hall.
Qed.

(* ---- the date the writer produces is accepted by the chrono model ---------------------------------------------- *)
Lemma lex_digit a fuel r : (a <= 9)%N -> lex (S fuel) ((48 + a)%N :: r) = TDigit (Z.of_N a) :: lex fuel r.
Proof.
  intro H.
  assert (E : (a = 0 \/ a = 1 \/ a = 2 \/ a = 3 \/ a = 4 \/ a = 5 \/ a = 6 \/ a = 7 \/ a = 8 \/ a = 9)%N) by lia.
  repeat (destruct E as [->|E]; [reflexivity|]). subst. reflexivity.
Qed.

Theorem chrono_accepts_proof (a b c e f g h i : N) :
  (a <= 9)%N -> (b <= 9)%N -> (c <= 9)%N -> (e <= 9)%N -> (f <= 9)%N -> (g <= 9)%N -> (h <= 9)%N -> (i <= 9)%N ->
  let y := Z.of_N (1000 * a + 100 * b + 10 * c + e) in
  let m := Z.of_N (10 * f + g) in
  let dd := Z.of_N (10 * h + i) in
  (1 <= m <= 12)%Z -> (1 <= dd <= days_in_month y m)%Z ->
  chrono_parse [48 + a; 48 + b; 48 + c; 48 + e; 48 + f; 48 + g; 48 + h; 48 + i]%N = Some (y, m, dd).
Proof.
  intros Ha Hb Hc He Hf Hg Hh Hi y m dd Hm Hd. unfold chrono_parse.
  change 32 with (S (S (S (S (S (S (S (S 24)))))))).
  rewrite !lex_digit by assumption. cbn [lex app repeat].
  cbn [year_item trim digits Nat.ltb Nat.leb opt_bind num].
  set (Y := ((((0 * 10 + Z.of_N a) * 10 + Z.of_N b) * 10 + Z.of_N c) * 10 + Z.of_N e)%Z).
  set (M := ((0 * 10 + Z.of_N f) * 10 + Z.of_N g)%Z).
  set (D := ((0 * 10 + Z.of_N h) * 10 + Z.of_N i)%Z).
  assert (HY : Y = y) by (unfold Y, y; lia).
  assert (HM : M = m) by (unfold M, m; lia).
  assert (HD : D = dd) by (unfold D, dd; lia).
  rewrite HY, HM, HD.
  assert (Hdm : (days_in_month y m <= 31)%Z).
  { unfold days_in_month. destruct (m =? 2)%Z; [destruct (leap y); lia|]. destruct (_ || _); lia. }
  replace ((-262143 <=? y) && (y <=? 262142) && (1 <=? m) && (m <=? 12) && (1 <=? dd) && (dd <=? days_in_month y m)
           && ((0 * 10 + 0) * 10 + 0 <=? 23) && ((0 * 10 + 0) * 10 + 0 <=? 59) && ((0 * 10 + 0) * 10 + 0 <=? 60))%Z with true; [reflexivity|].
  assert (Hy : (0 <= y <= 9999)%Z) by (unfold y; lia).
  symmetry. repeat (apply andb_true_iff; split); apply Z.leb_le; lia.
Qed.
