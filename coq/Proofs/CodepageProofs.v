(* Proofs about the code-page converters (Model/Codepage.v over the tables of Gen/Codepage.v).
   Round trips over the finite code domains are complete vm_compute sweeps of the regenerated tables;
   the structural facts (a reverse map is the identity off its keys, newest insertion wins, lookups past
   the table return the character) are proved for every character by induction. *)
From Coq Require Import NArith Bool List Lia.
From IE Require Import Lib.Tbl Lib.Bits Lib.C18Lib Gen.Codepage Model.Codepage.
Import ListNotations.
Local Open Scope N_scope.

Lemma all_convs_forallb (P : Conv -> bool) : forallb P all_convs = true -> forall c, P c = true.
Proof.
  cbn [forallb all_convs]. intros H c.
  apply andb_prop in H as [H1 H]. apply andb_prop in H as [H2 H]. apply andb_prop in H as [H3 H].
  apply andb_prop in H as [H4 H]. apply andb_prop in H as [H5 _].
  destruct c; assumption.
Qed.

(* ---------------------------------------------------------------- the maps exist *)

Lemma rev_built_sweep : forallb (fun c => match rev_of c with Some _ => true | None => false end) all_convs = true.
Proof. vm_compute. reflexivity. Qed.

Lemma rev_built : forall c, exists m, rev_of c = Some m.
Proof.
  intro c. pose proof (all_convs_forallb _ rev_built_sweep c) as H. cbv beta in H.
  destruct (rev_of c) as [m|]; [exists m; reflexivity | discriminate].
Qed.

Lemma from_unicode_total_proof : forall c ch, exists v, from_unicode c ch = Some v.
Proof.
  intros c ch. destruct (rev_built c) as [m Hm].
  destruct c; unfold from_unicode; try rewrite Hm; try (destruct (ch =? 32)); eexists; reflexivity.
Qed.

(* ---------------------------------------------------------------- code -> unicode -> code *)

Definition code_rt (c : Conv) (x : N) : bool :=
  match from_unicode c (to_unicode c x) with Some v => v =? x | None => false end.

Lemma cp437_sweep : forallb (code_rt CP437) (nrange 256) = true.
Proof. vm_compute. reflexivity. Qed.

Lemma atascii_sweep : forallb (code_rt Atascii) (nrange 128) = true.
Proof. vm_compute. reflexivity. Qed.

Lemma code_rt_eq c x : code_rt c x = true -> from_unicode c (to_unicode c x) = Some x.
Proof.
  unfold code_rt. destruct (from_unicode c (to_unicode c x)) as [v|]; [|discriminate].
  intro H. apply N.eqb_eq in H. subst. reflexivity.
Qed.

Lemma cp437_roundtrip_proof : forall x, x < 256 -> from_unicode CP437 (to_unicode CP437 x) = Some x.
Proof. intros x Hx. apply code_rt_eq. exact (nrange_forallb _ _ cp437_sweep x Hx). Qed.

Lemma atascii_roundtrip_proof : forall x, x < 128 -> from_unicode Atascii (to_unicode Atascii x) = Some x.
Proof. intros x Hx. apply code_rt_eq. exact (nrange_forallb _ _ atascii_sweep x Hx). Qed.

Lemma cp437_injective_proof : forall x y, x < 256 -> y < 256 ->
  to_unicode CP437 x = to_unicode CP437 y -> x = y.
Proof.
  intros x y Hx Hy H.
  pose proof (cp437_roundtrip_proof x Hx) as H1. pose proof (cp437_roundtrip_proof y Hy) as H2.
  rewrite H in H1. rewrite H1 in H2. injection H2. auto.
Qed.

Lemma atascii_injective_proof : forall x y, x < 128 -> y < 128 ->
  to_unicode Atascii x = to_unicode Atascii y -> x = y.
Proof.
  intros x y Hx Hy H.
  pose proof (atascii_roundtrip_proof x Hx) as H1. pose proof (atascii_roundtrip_proof y Hy) as H2.
  rewrite H in H1. rewrite H1 in H2. injection H2. auto.
Qed.

(* unicode -> code -> unicode for every character of the CP437 table *)
Definition uni_rt (c : Conv) (u : N) : bool :=
  match from_unicode c u with Some x => (x <? 256) && (to_unicode c x =? u) | None => false end.

Lemma cp437_uni_sweep : forallb (uni_rt CP437) CP437_TO_UNICODE = true.
Proof. vm_compute. reflexivity. Qed.

Lemma uni_rt_eq c u : uni_rt c u = true ->
  exists x, from_unicode c u = Some x /\ x < 256 /\ to_unicode c x = u.
Proof.
  unfold uni_rt. destruct (from_unicode c u) as [x|]; [|discriminate].
  intro H. apply andb_prop in H as [H1 H2]. apply N.ltb_lt in H1. apply N.eqb_eq in H2.
  exists x. auto.
Qed.

Lemma cp437_unicode_roundtrip_proof : forall u, In u CP437_TO_UNICODE ->
  exists x, from_unicode CP437 u = Some x /\ x < 256 /\ to_unicode CP437 x = u.
Proof. intros u Hu. apply uni_rt_eq. exact (forallb_In _ _ cp437_uni_sweep u Hu). Qed.

(* the bound 128 of the ATASCII statement is tight: code 128 (inverse-video heart) shares its
   character with code 0, and the reverse map is only built from codes 0..127 *)
Lemma atascii_bound_tight_proof :
  to_unicode Atascii 128 = to_unicode Atascii 0 /\ from_unicode Atascii (to_unicode Atascii 128) = Some 0.
Proof. vm_compute. split; reflexivity. Qed.

(* ---------------------------------------------------------------- typed characters *)

Definition typed_rt (c : Conv) (ch : N) : bool :=
  implb (is_typed ch) (uni_rt c ch).

Lemma typed_sweep : forallb (fun c => forallb (typed_rt c) (nrange 128)) all_convs = true.
Proof. vm_compute. reflexivity. Qed.

Lemma is_typed_bound ch : is_typed ch = true -> ch < 128.
Proof.
  unfold is_typed. intro H.
  repeat (apply orb_prop in H as [H|H]).
  - apply andb_prop in H as [_ H]. apply N.leb_le in H. lia.
  - apply andb_prop in H as [_ H]. apply N.leb_le in H. lia.
  - apply andb_prop in H as [_ H]. apply N.leb_le in H. lia.
  - apply N.eqb_eq in H. lia.
Qed.

Lemma typed_roundtrip_proof : forall c ch, is_typed ch = true ->
  exists code, from_unicode c ch = Some code /\ code < 256 /\ to_unicode c code = ch.
Proof.
  intros c ch Ht.
  pose proof (all_convs_forallb _ typed_sweep c) as H. cbv beta in H.
  pose proof (nrange_forallb _ _ H ch (is_typed_bound ch Ht)) as H1.
  unfold typed_rt in H1. rewrite Ht in H1. cbn [implb] in H1.
  apply uni_rt_eq. exact H1.
Qed.

(* is_typed is the 63-element set: 26 + 26 letters, 10 digits, space *)
Lemma is_typed_count : length (filter is_typed (nrange 1000)) = 63%nat.
Proof. vm_compute. reflexivity. Qed.

(* ---------------------------------------------------------------- structure, every character *)

Lemma assoc_notin k (m : revmap) : ~ In k (map fst m) -> assoc k m = None.
Proof.
  induction m as [|[k' v] r IH]; intro H; [reflexivity|].
  cbn [assoc]. cbn [map fst In] in H.
  destruct (N.eqb_spec k' k) as [->|Hne]; [exfalso; apply H; left; reflexivity|].
  apply IH. intro Hin. apply H. right. exact Hin.
Qed.

(* newest insertion wins *)
Lemma assoc_cons_same k v (m : revmap) : assoc k ((k, v) :: m) = Some v.
Proof. cbn [assoc]. rewrite N.eqb_refl. reflexivity. Qed.

(* off the keys of its reverse map a converter returns the character it was given *)
Lemma from_unicode_off_keys_proof : forall c ch, c <> Petscii ->
  ~ In ch (rev_keys c) -> from_unicode c ch = Some ch.
Proof.
  intros c ch Hc Hk. destruct (rev_built c) as [m Hm].
  unfold rev_keys in Hk. rewrite Hm in Hk.
  destruct c; try (exfalso; apply Hc; reflexivity); unfold from_unicode; rewrite Hm;
    try (destruct (N.eqb_spec ch 32) as [->|_]; [reflexivity|]);
    rewrite (assoc_notin _ _ Hk); reflexivity.
Qed.

Lemma petscii_from_unicode_off_keys_proof : forall ch,
  ~ In (ch mod 256) (map fst unicode_to_petscii) -> from_unicode Petscii ch = Some ch.
Proof. intros ch Hk. unfold from_unicode. rewrite (assoc_notin _ _ Hk). reflexivity. Qed.

Lemma fwd_table_length_sweep :
  forallb (fun c => match c with Petscii => true | _ => N.of_nat (length (fwd_table c)) =? 256 end) all_convs = true.
Proof. vm_compute. reflexivity. Qed.

(* past the 256-entry table convert_to_unicode returns the character unchanged *)
Lemma to_unicode_beyond_table_proof : forall c ch, c <> Petscii -> 256 <= ch -> to_unicode c ch = ch.
Proof.
  intros c ch Hc Hch.
  pose proof (all_convs_forallb _ fwd_table_length_sweep c) as H. cbv beta in H.
  destruct c; try (exfalso; apply Hc; reflexivity); apply N.eqb_eq in H;
    unfold to_unicode, tbl_get; rewrite H;
    (destruct (N.ltb_spec ch 256) as [Hlt|_]; [lia | reflexivity]).
Qed.

(* ---------------------------------------------------------------- the reverse map is "greatest code wins"
   (what HashMap::insert in increasing key order gives) *)
Lemma build_rev_aux_spec : forall t n a m m', build_rev_aux t n a m = Some m' ->
  forall u,
   (forall i, a <= i < a + N.of_nat n -> tbl_get t i = Some u ->
      (forall j, i < j < a + N.of_nat n -> tbl_get t j <> Some u) -> assoc u m' = Some i) /\
   ((forall j, a <= j < a + N.of_nat n -> tbl_get t j <> Some u) -> assoc u m' = assoc u m).
Proof.
  intros t n. induction n as [|n IH]; intros a m m' Hb u.
  - cbn [build_rev_aux] in Hb. injection Hb as <-. split; [intros i Hi; lia | reflexivity].
  - cbn [build_rev_aux] in Hb. destruct (tbl_get t a) as [u0|] eqn:Ha; [|discriminate].
    destruct (IH _ _ _ Hb u) as [IH1 IH2].
    assert (Hn : a + N.of_nat (S n) = N.succ a + N.of_nat n) by lia.
    split.
    + intros i Hi Hu Hlast. rewrite Hn in *.
      destruct (N.eq_dec i a) as [->|Hne].
      * rewrite IH2.
        -- rewrite Ha in Hu. injection Hu as ->. apply assoc_cons_same.
        -- intros j Hj. apply Hlast. lia.
      * apply IH1; [lia | exact Hu | intros j Hj; apply Hlast; lia].
    + intro Hnone. rewrite Hn in *. rewrite IH2.
      * cbn [assoc]. destruct (N.eqb_spec u0 u) as [->|_]; [|reflexivity].
        exfalso. apply (Hnone a); [lia | exact Ha].
      * intros j Hj. apply Hnone. lia.
Qed.

Lemma rev_map_last_wins_proof : forall t lo hi m, lo <= hi -> build_rev t lo hi = Some m ->
  forall u i, lo <= i < hi -> tbl_get t i = Some u ->
   (forall j, i < j < hi -> tbl_get t j <> Some u) -> assoc u m = Some i.
Proof.
  intros t lo hi m Hle Hb u i Hi Hu Hlast. unfold build_rev in Hb.
  destruct (build_rev_aux_spec _ _ _ _ _ Hb u) as [H1 _].
  assert (Hn : lo + N.of_nat (N.to_nat (hi - lo)) = hi) by lia.
  apply H1; rewrite ?Hn; assumption.
Qed.
