(* Proofs about Model/TextSites.v: at every conversion site whatever is stored is a scalar value / UTF-8,
   for all inputs.  The site theorems are proved for an arbitrary [checked] conversion and then instantiated with
   the conversion Gen/TextSitesGen.v read from the source; the instantiation lemmas (conv_*_checked) are the
   place where a re-opened unchecked conversion breaks the build. *)
From Coq Require Import NArith ZArith List Bool Lia.
From IE Require Model.Sixel.
From IE Require Import Lib.Tbl Lib.Bits Model.Unicode Gen.TextSitesGen Model.TextSites Proofs.UnicodeProofs.
Import ListNotations.
Local Open Scope N_scope.

Definition ev_scalar (e : event) : Prop := scalar (ev_char e).

(* ---- which conversion each site calls (from the source, via Gen/TextSitesGen.v) *)
Lemma kind_checked : forall conv, conv = char_from_u32 -> checked conv.
Proof. intros conv ->. exact char_from_u32_checked. Qed.

Lemma conv_fill_checked : checked conv_fill. Proof. apply kind_checked. reflexivity. Qed.
Lemma conv_clipboard_checked : checked conv_clipboard. Proof. apply kind_checked. reflexivity. Qed.
Lemma conv_icy_first_checked : checked conv_icy_first. Proof. apply kind_checked. reflexivity. Qed.
Lemma conv_icy_cont_checked : checked conv_icy_cont. Proof. apply kind_checked. reflexivity. Qed.
Lemma conv_checksum_checked : checked conv_checksum. Proof. apply kind_checked. reflexivity. Qed.
Lemma conv_u8data_checked : checked conv_u8data. Proof. apply kind_checked. reflexivity. Qed.
Lemma conv_psf2_checked : checked conv_psf2. Proof. apply kind_checked. reflexivity. Qed.
Lemma str_icy_lossy : str_icy = str_lossy. Proof. reflexivity. Qed.

(* ---- take / shorter *)
Lemma take_some : forall n l f s, take n l = Some (f, s) -> f = firstn n l /\ s = skipn n l /\ (n <= length l)%nat.
Proof.
  induction n as [|n IH]; intros l f s H.
  - cbn in H. injection H as <- <-. cbn. repeat split. lia.
  - destruct l as [|a r]; [discriminate|]. cbn [take] in H.
    destruct (take n r) as [[f' s']|] eqn:E; [|discriminate]. injection H as <- <-.
    destruct (IH _ _ _ E) as [-> [-> L]]. cbn. repeat split. lia.
Qed.

Lemma take_none : forall n l, take n l = None -> (length l < n)%nat.
Proof.
  induction n as [|n IH]; intros l H; [discriminate|].
  destruct l as [|a r]; [cbn; lia|]. cbn [take] in H.
  destruct (take n r) as [[f' s']|] eqn:E; [discriminate|]. apply IH in E. cbn. lia.
Qed.

Lemma take_rest_length : forall n l f s, take n l = Some (f, s) -> (length s + n = length l)%nat.
Proof.
  intros n l f s H. apply take_some in H. destruct H as [_ [-> L]]. rewrite skipn_length. lia.
Qed.

Lemma shorter_spec : forall n l, shorter l n = (length l <? n)%nat.
Proof.
  induction n as [|n IH]; intro l; [reflexivity|].
  destruct l as [|a r]; [reflexivity|]. cbn [shorter length]. rewrite IH. reflexivity.
Qed.

Lemma omap_done : forall A B (f : A -> B) o b, omap f o = Done b -> exists a, o = Done a /\ b = f a.
Proof. intros A B f o b H. destruct o; try discriminate. injection H as <-. eauto. Qed.

Lemma omap_not_diverge : forall A B (f : A -> B) o, o <> Diverge -> omap f o <> Diverge.
Proof. intros A B f o H. destruct o; cbn; congruence. Qed.

(* ------------------------------------------------------------------ CSI numbers and fill *)
Local Open Scope Z_scope.

Definition i32_nonneg (n : Z) : Prop := 0 <= n <= Sixel.I32_MAX.

Lemma parse_next_number_range : forall d ch, i32_nonneg d -> Sixel.is_digit ch = true ->
  i32_nonneg (Sixel.parse_next_number d ch).
Proof.
  intros d ch [D0 D1] H. unfold Sixel.is_digit in H. apply andb_true_iff in H. destruct H as [H0 H1].
  apply Z.leb_le in H0, H1. unfold i32_nonneg, Sixel.parse_next_number, Sixel.sat, Sixel.I32_MAX in *. lia.
Qed.

Lemma push_digit_range : forall ns ch, Forall i32_nonneg ns -> Sixel.is_digit ch = true ->
  Forall i32_nonneg (Sixel.push_digit ns ch).
Proof.
  intros ns ch F H. unfold Sixel.push_digit.
  apply Forall_rev in F. destruct (rev ns) as [|d r] eqn:E.
  - constructor; [|constructor]. apply parse_next_number_range; [|exact H].
    unfold i32_nonneg, Sixel.I32_MAX. lia.
  - inversion F as [|? ? Fd Fr]; subst. apply Forall_app. split.
    + apply Forall_rev. exact Fr.
    + constructor; [|constructor]. apply parse_next_number_range; assumption.
Qed.

Lemma csi_step_range : forall ns ch, Forall i32_nonneg ns -> Forall i32_nonneg (csi_step ns ch).
Proof.
  intros ns ch F. unfold csi_step.
  destruct (Sixel.is_digit ch) eqn:D; [apply push_digit_range; assumption|].
  destruct (ch =? 59); [|exact F].
  apply Forall_app. split; [exact F|]. constructor; [|constructor]. unfold i32_nonneg, Sixel.I32_MAX. lia.
Qed.

(* every parameter the CSI accumulator can produce is a non-negative i32, whatever the text *)
Lemma csi_numbers_range_proof : forall text, Forall i32_nonneg (csi_numbers text).
Proof.
  intro text. unfold csi_numbers.
  assert (G : forall ns, Forall i32_nonneg ns -> Forall i32_nonneg (fold_left csi_step text ns)).
  { induction text as [|c t IH]; intros ns F; [exact F|]. cbn [fold_left]. apply IH. apply csi_step_range. exact F. }
  apply G. constructor.
Qed.

Lemma i32_as_u32_id : forall n, i32_nonneg n -> i32_as_u32 n = Z.to_N n.
Proof.
  intros n [H0 H1]. unfold i32_as_u32. unfold Sixel.I32_MAX in H1. rewrite Z.mod_small by lia. reflexivity.
Qed.

Lemma fill_events_char : forall r e, In e (fill_events r) -> ev_char e = f_char r.
Proof.
  intros r e H. unfold fill_events in H. apply in_flat_map in H. destruct H as [dy [_ H]].
  apply in_map_iff in H. destruct H as [dx [<- _]]. reflexivity.
Qed.

Lemma stored_scalar_fill_gen : forall conv, checked conv -> forall rows cols ns r,
  fill conv rows cols ns = Done r -> scalar (f_char r) /\ Forall ev_scalar (fill_events r).
Proof.
  intros conv CK rows cols ns r H. unfold fill in H.
  destruct ns as [|pch [|pt [|pl [|pb [|pr [|x ns]]]]]]; try discriminate.
  destruct (conv (i32_as_u32 pch)) as [c|] eqn:E; [|discriminate]. injection H as <-. cbn [f_char].
  assert (SC : scalar c) by (eapply CK; exact E).
  split; [exact SC|]. apply Forall_forall. intros e He. unfold ev_scalar.
  rewrite (fill_events_char _ _ He). exact SC.
Qed.

Lemma stored_scalar_fill_proof : forall rows cols text r,
  fill conv_fill rows cols (csi_numbers text) = Done r -> scalar (f_char r) /\ Forall ev_scalar (fill_events r).
Proof. intros. eapply stored_scalar_fill_gen; [exact conv_fill_checked|eassumption]. Qed.

(* exactly the sequences with five parameters whose first one is a scalar value store something, and they store it *)
Lemma fill_stores_iff_proof : forall rows cols text c,
  (exists r, fill conv_fill rows cols (csi_numbers text) = Done r /\ f_char r = c) <->
  (exists pt pl pb pr, csi_numbers text = [Z.of_N c; pt; pl; pb; pr] /\ scalar c).
Proof.
  intros rows cols text c. pose proof (csi_numbers_range_proof text) as R.
  change conv_fill with char_from_u32. split.
  - intros [r [H <-]]. unfold fill in H.
    destruct (csi_numbers text) as [|pch [|pt [|pl [|pb [|pr [|x ns]]]]]]; try discriminate.
    destruct (char_from_u32 (i32_as_u32 pch)) as [c|] eqn:E; [|discriminate]. injection H as <-. cbn [f_char].
    apply char_from_u32_some in E. destruct E as [-> SC].
    inversion R as [|? ? Rp _]; subst. rewrite i32_as_u32_id in * by exact Rp.
    exists pt, pl, pb, pr. split; [|exact SC]. destruct Rp as [P0 _]. rewrite Z2N.id by lia. reflexivity.
  - intros [pt [pl [pb [pr [E SC]]]]]. rewrite E. unfold fill.
    assert (I : i32_as_u32 (Z.of_N c) = c).
    { unfold i32_as_u32. unfold scalar in SC. rewrite Z.mod_small by lia. apply N2Z.id. }
    rewrite I. rewrite (char_from_u32_scalar c SC). eexists. split; reflexivity.
Qed.

Lemma fill_before_fix_refuted_proof :
  exists text r, fill char_from_u32_unchecked 25 80 (csi_numbers text) = Done r /\ ~ scalar (f_char r).
Proof.
  (* "55296;1;1;2;2" *)
  exists [53; 53; 50; 57; 54; 59; 49; 59; 49; 59; 50; 59; 50]. eexists. split; [vm_compute; reflexivity|].
  cbn [f_char]. unfold scalar. lia.
Qed.

Local Open Scope N_scope.

(* ------------------------------------------------------------------ clipboard *)
Lemma clip_cells_scalar : forall conv, checked conv -> forall fuel k total w data ev,
  clip_cells conv fuel k total w data = Done ev -> Forall ev_scalar ev.
Proof.
  intros conv CK. induction fuel as [|f IH]; intros k total w data ev H; cbn [clip_cells] in H.
  - destruct (total <=? k); [injection H as <-; constructor|discriminate].
  - destruct (total <=? k); [injection H as <-; constructor|].
    destruct data as [|d0 [|d1 rest0]]; try discriminate.
    destruct (conv (le16 d0 d1)) as [c|] eqn:E; [|discriminate].
    destruct (take 14 (d0 :: d1 :: rest0)) as [[rec rest]|]; [|discriminate].
    apply omap_done in H. destruct H as [ev' [H ->]]. constructor.
    + unfold ev_scalar, ev_char. cbn. eapply CK. exact E.
    + eapply IH. exact H.
Qed.

Lemma stored_scalar_clipboard_gen : forall conv, checked conv -> forall data r,
  clipboard conv data = Done r -> Forall ev_scalar (c_cells r).
Proof.
  intros conv CK data r H. unfold clipboard in H.
  destruct data as [|tag rest]; [discriminate|].
  destruct (negb (tag =? 0)); [discriminate|].
  destruct (take 17 (tag :: rest)) as [[hd rest']|]; [|discriminate].
  apply omap_done in H. destruct H as [ev [H ->]]. cbn [c_cells].
  eapply clip_cells_scalar; eassumption.
Qed.

Lemma stored_scalar_clipboard_proof : forall data r,
  clipboard conv_clipboard data = Done r -> Forall ev_scalar (c_cells r).
Proof. apply stored_scalar_clipboard_gen. exact conv_clipboard_checked. Qed.

Lemma clip_cells_total : forall conv fuel k total w data, (length data < fuel)%nat ->
  clip_cells conv fuel k total w data <> Diverge.
Proof.
  intro conv. induction fuel as [|f IH]; intros k total w data L; [lia|].
  cbn [clip_cells]. destruct (total <=? k); [discriminate|].
  destruct data as [|d0 [|d1 rest0]]; try discriminate.
  destruct (conv (le16 d0 d1)); [|discriminate].
  destruct (take 14 (d0 :: d1 :: rest0)) as [[rec rest]|] eqn:T; [|discriminate].
  apply omap_not_diverge. apply IH. apply take_rest_length in T. lia.
Qed.

(* the fuel the entry point passes is enough: the model never reports Diverge for clipboard data *)
Lemma clipboard_total_proof : forall conv data, clipboard conv data <> Diverge.
Proof.
  intros conv data. unfold clipboard.
  destruct data as [|tag rest]; [discriminate|].
  destruct (negb (tag =? 0)); [discriminate|].
  destruct (take 17 (tag :: rest)) as [[hd rest']|]; [|discriminate].
  apply omap_not_diverge. apply clip_cells_total. lia.
Qed.

Lemma clipboard_before_fix_refuted_proof :
  exists data r, Forall byte data /\ clipboard char_from_u32_unchecked data = Done r /\ ~ Forall ev_scalar (c_cells r).
Proof.
  (* tag 0, offset (0,0), size 1x1, one cell: char 0xD800 *)
  exists [0;0;0;0;0;0;0;0;0;1;0;0;0;1;0;0;0; 0;0xD8;0;0;0;0;0;0;0;0;7;0;0;0]. eexists.
  split; [repeat constructor; unfold byte; lia|].
  split; [vm_compute; reflexivity|].
  cbn [c_cells]. intro F. inversion F as [|? ? S _]; subst. unfold ev_scalar, ev_char, scalar in S. cbn in S. lia.
Qed.

(* ------------------------------------------------------------------ IcyDraw cells *)
Lemma cells_loop_scalar : forall conv, checked conv -> forall chk fuel x y w h bs ev,
  cells_loop conv chk fuel x y w h bs = Done ev -> Forall ev_scalar ev.
Proof.
  intros conv CK chk. induction fuel as [|f IH]; intros x y w h bs ev H; [discriminate|].
  cbn [cells_loop] in H.
  destruct (h <=? y)%Z; [injection H as <-; constructor|].
  destruct ((x =? 0)%Z && match bs with [] => true | _ => false end); [injection H as <-; constructor|].
  destruct (w <=? x)%Z; [eapply IH; exact H|].
  destruct (decode_cell chk bs) as [r|r|ch r| |]; try discriminate; try (eapply IH; exact H).
  destruct (conv ch) as [c|] eqn:E; [|discriminate].
  apply omap_done in H. destruct H as [ev' [H ->]]. constructor.
  - unfold ev_scalar, ev_char. cbn. eapply CK. exact E.
  - eapply IH. exact H.
Qed.

Lemma cells_scalar : forall conv, checked conv -> forall chk y0 w h bs ev,
  cells conv chk y0 w h bs = Done ev -> Forall ev_scalar ev.
Proof.
  intros conv CK chk y0 w h bs ev H. unfold cells in H.
  destruct (w <=? 0)%Z; [injection H as <-; constructor|]. eapply cells_loop_scalar; eassumption.
Qed.

Lemma icy_layer_cells : forall sconv conv bytes r, icy_layer sconv conv bytes = Done r ->
  (l_image r = true /\ l_cells r = []) \/
  (exists body, l_cells r = l_cells r /\ cells conv true 0 (l_width r) (l_height r) body = Done (l_cells r)).
Proof.
  intros sconv conv bytes r H. unfold icy_layer in H.
  destruct (read_string sconv bytes) as [[title rs]| | |]; try discriminate.
  destruct (shorter rs 41); [discriminate|].
  destruct (2 <? byte_at rs 5); [discriminate|].
  destruct (take 41 rs) as [[hd body]|]; [|discriminate].
  cbv zeta in H.
  destruct (byte_at hd 0 =? 1).
  - destruct (shorter body 16); [discriminate|]. injection H as <-. left. split; reflexivity.
  - destruct (N.of_nat (length body) <? _); [discriminate|].
    apply omap_done in H. destruct H as [ev [H ->]]. right. exists body. cbn. split; [reflexivity|exact H].
Qed.

Lemma stored_scalar_icy_first_gen : forall sconv conv, checked conv -> forall bytes r,
  icy_layer sconv conv bytes = Done r -> Forall ev_scalar (l_cells r).
Proof.
  intros sconv conv CK bytes r H. apply icy_layer_cells in H. destruct H as [[_ ->]|[body [_ H]]]; [constructor|].
  eapply cells_scalar; eassumption.
Qed.

Lemma stored_scalar_icy_first_proof : forall bytes r,
  icy_layer str_icy conv_icy_first bytes = Done r -> Forall ev_scalar (l_cells r).
Proof. apply stored_scalar_icy_first_gen. exact conv_icy_first_checked. Qed.

Lemma stored_scalar_icy_cont_proof : forall w h lines bytes ev,
  icy_continue conv_icy_cont w h lines bytes = Done ev -> Forall ev_scalar ev.
Proof. intros w h lines bytes ev H. unfold icy_continue in H. eapply cells_scalar; [exact conv_icy_cont_checked|exact H]. Qed.

(* a decoded record consumes at least its two attribute bytes *)
Lemma decode_cell_len : forall chk bs,
  match decode_cell chk bs with
  | CEnd r | CSkip r | CCell _ r => (length r + 2 <= length bs)%nat
  | _ => True
  end.
Proof.
  intros chk bs. unfold decode_cell.
  destruct bs as [|a0 [|a1 r]]; [destruct chk; exact I|destruct chk; exact I|].
  cbv zeta.
  destruct (le16 a0 a1 =? INVISIBLE_SHORT); [cbn; lia|].
  match goal with |- context [if ?c =? INVISIBLE then _ else _] => destruct (c =? INVISIBLE) end; [cbn; lia|].
  destruct (negb (N.land (le16 a0 a1) SHORT_DATA =? 0)).
  - destruct (chk && shorter r 4); [exact I|].
    destruct (take 4 r) as [[f r']|] eqn:T; [|exact I]. apply take_rest_length in T. cbn [length]. lia.
  - destruct (chk && shorter r 14); [exact I|].
    destruct (take 14 r) as [[f r']|] eqn:T; [|exact I]. apply take_rest_length in T. cbn [length]. lia.
Qed.

Lemma cells_loop_total : forall conv chk fuel x y w h bs, (0 < w)%Z -> (0 <= x)%Z ->
  (2 * length bs + (if (x =? 0)%Z then 0 else 1) < fuel)%nat ->
  cells_loop conv chk fuel x y w h bs <> Diverge.
Proof.
  intros conv chk. induction fuel as [|f IH]; intros x y w h bs W X L; [lia|].
  cbn [cells_loop].
  destruct (h <=? y)%Z; [discriminate|].
  destruct ((x =? 0)%Z && match bs with [] => true | _ => false end); [discriminate|].
  destruct (w <=? x)%Z eqn:WX.
  { apply Z.leb_le in WX. apply IH; [exact W|lia|].
    destruct (x =? 0)%Z eqn:X0; [apply Z.eqb_eq in X0; lia|]. cbn. lia. }
  pose proof (decode_cell_len chk bs) as DL.
  assert (X1 : ((x + 1 =? 0)%Z = false)) by (apply Z.eqb_neq; lia).
  destruct (decode_cell chk bs) as [r|r|ch r| |]; try discriminate.
  - apply IH; [exact W|lia|]. cbn. destruct (x =? 0)%Z; lia.
  - apply IH; [exact W|lia|]. rewrite X1. destruct (x =? 0)%Z; lia.
  - destruct (conv ch); [|discriminate]. apply omap_not_diverge.
    apply IH; [exact W|lia|]. rewrite X1. destruct (x =? 0)%Z; lia.
Qed.

(* the fuel of the cell decoders is enough, for every payload and every announced size *)
Lemma icy_cells_total_proof : forall conv chk y0 w h bs, cells conv chk y0 w h bs <> Diverge.
Proof.
  intros conv chk y0 w h bs. unfold cells.
  destruct (w <=? 0)%Z eqn:W; [discriminate|]. apply Z.leb_gt in W.
  apply cells_loop_total; [exact W|lia|]. unfold cells_fuel. cbn. lia.
Qed.

Lemma icy_before_fix_refuted_proof :
  (exists bytes r, Forall byte bytes /\ icy_layer str_lossy char_from_u32_unchecked bytes = Done r /\ ~ Forall ev_scalar (l_cells r)) /\
  (exists bytes ev, Forall byte bytes /\ icy_continue char_from_u32_unchecked 1 2 1 bytes = Done ev /\ ~ Forall ev_scalar ev).
Proof.
  split.
  - (* title "x", role 0, mode 0, 1x1, length 16, one long cell with character 0x110000 *)
    exists [1;0;0;0;120; 0; 0;0;0;0; 0; 0;0;0;0; 1;0;0;0; 0; 0;0;0;0; 0;0;0;0; 1;0;0;0; 1;0;0;0; 0;0; 16;0;0;0;0;0;0;0;
            0;0; 0;0;0x11;0; 7;0;0;0; 0;0;0;0; 0;0].
    eexists. split; [repeat constructor; unfold byte; lia|]. split; [vm_compute; reflexivity|].
    cbn [l_cells]. intro F. inversion F as [|? ? S _]; subst. unfold ev_scalar, ev_char, scalar in S. cbn in S. lia.
  - (* one long cell with character 0xDC00 *)
    exists [0;0; 0;0xDC;0;0; 7;0;0;0; 0;0;0;0; 0;0]. eexists.
    split; [repeat constructor; unfold byte; lia|]. split; [vm_compute; reflexivity|].
    intro F. inversion F as [|? ? S _]; subst. unfold ev_scalar, ev_char, scalar in S. cbn in S. lia.
Qed.

(* ------------------------------------------------------------------ IcyDraw strings *)
Lemma read_string_done : forall sconv data s rest, read_string sconv data = Done (s, rest) ->
  exists raw, s = sconv raw.
Proof.
  intros sconv data s rest H. unfold read_string in H.
  destruct (take 4 data) as [[p r]|]; [|discriminate]. cbv zeta in H.
  destruct (take _ r) as [[raw rest']|]; [|discriminate]. injection H as <- <-. eauto.
Qed.

Lemma strings_utf8_icy_proof :
  (forall data s rest, read_string str_icy data = Done (s, rest) -> is_utf8 s) /\
  (forall conv bytes r, icy_layer str_icy conv bytes = Done r -> is_utf8 (l_title r)).
Proof.
  split.
  - intros data s rest H. apply read_string_done in H. destruct H as [raw ->].
    rewrite str_icy_lossy. apply str_lossy_is_utf8_proof.
  - intros conv bytes r H. unfold icy_layer in H.
    destruct (read_string str_icy bytes) as [[title rs]| | |] eqn:RS; try discriminate.
    apply read_string_done in RS. destruct RS as [raw ->].
    assert (U : is_utf8 (str_icy raw)) by (rewrite str_icy_lossy; apply str_lossy_is_utf8_proof).
    destruct (shorter rs 41); [discriminate|].
    destruct (2 <? byte_at rs 5); [discriminate|].
    destruct (take 41 rs) as [[hd body]|]; [|discriminate].
    cbv zeta in H.
    destruct (byte_at hd 0 =? 1).
    + destruct (shorter body 16); [discriminate|]. injection H as <-. exact U.
    + destruct (N.of_nat (length body) <? _); [discriminate|].
      apply omap_done in H. destruct H as [ev [_ ->]]. exact U.
Qed.

(* a title or font name that was UTF-8 in the file is stored unchanged *)
Lemma strings_utf8_icy_identity_proof : forall s, is_utf8 s -> str_icy s = s.
Proof. intros s H. rewrite str_icy_lossy. apply utf8_lossy_id_proof. exact H. Qed.

(* ------------------------------------------------------------------ fonts *)
Definition key_scalar (kg : N * list N) : Prop := scalar (fst kg).
Definition key_below_max (kg : N * list N) : Prop := fst kg < MAX_GLYPHS.
(* one of the two std conversions: what Gen/TextSitesGen.v can say about a site (conv_*_kind) *)
Definition std_conv (conv : N -> option N) : Prop := conv = char_from_u32 \/ conv = char_from_u32_unchecked.

(* the regenerated constant: everything below it is a char (a larger MAX_GLYPHS breaks this lemma) *)
Lemma max_glyphs_le : MAX_GLYPHS <= 0xD800.
Proof. apply N.leb_le. reflexivity. Qed.

Lemma max_glyphs_eq : MAX_GLYPHS = 0xD800.
Proof. reflexivity. Qed.

Lemma below_max_scalar : forall c, c < MAX_GLYPHS -> scalar c.
Proof. intros c H. pose proof max_glyphs_le. left. lia. Qed.

Lemma std_conv_some : forall conv, std_conv conv -> forall x c, conv x = Some c -> c = x.
Proof.
  intros conv [-> | ->] x c H.
  - apply char_from_u32_some in H. tauto.
  - unfold char_from_u32_unchecked in H. injection H as <-. reflexivity.
Qed.

Lemma std_conv_below : forall conv, std_conv conv -> forall x, x < MAX_GLYPHS -> conv x = Some x.
Proof.
  intros conv [-> | ->] x H; [|reflexivity]. apply char_from_u32_scalar. apply below_max_scalar. exact H.
Qed.

(* the loop test `font_height > 0 && data.len() >= font_height && ch < MAX_GLYPHS`, negated *)
Definition glyphs_stop (h : nat) (ch : N) (data : list N) : bool :=
  Nat.eqb h 0 || shorter data h || (MAX_GLYPHS <=? ch).

Lemma glyphs_loop_eq : forall conv fuel h ch data, glyphs_loop conv fuel h ch data =
  if glyphs_stop h ch data then Done [] else
  match fuel with
  | O => Diverge
  | S f => match take h data with
           | None => Panic
           | Some (g, rest) => let tl := glyphs_loop conv f h (ch + 1) rest in
                               match conv ch with Some c => omap (cons (c, g)) tl | None => tl end
           end
  end.
Proof. intros conv fuel h ch data. destruct fuel; reflexivity. Qed.

Lemma glyphs_stop_false : forall h ch data, glyphs_stop h ch data = false ->
  (0 < h)%nat /\ (h <= length data)%nat /\ ch < MAX_GLYPHS.
Proof.
  intros h ch data H. unfold glyphs_stop in H.
  apply orb_false_iff in H. destruct H as [H H3]. apply orb_false_iff in H. destruct H as [H1 H2].
  rewrite shorter_spec in H2. apply Nat.eqb_neq in H1. apply Nat.ltb_ge in H2. apply N.leb_gt in H3. lia.
Qed.

Lemma glyphs_stop_false_intro : forall h ch data, (0 < h)%nat -> (h <= length data)%nat -> ch < MAX_GLYPHS ->
  glyphs_stop h ch data = false.
Proof.
  intros h ch data H1 H2 H3. unfold glyphs_stop. rewrite shorter_spec.
  apply orb_false_iff. split; [apply orb_false_iff; split|].
  - apply Nat.eqb_neq. lia.
  - apply Nat.ltb_ge. exact H2.
  - apply N.leb_gt. exact H3.
Qed.

(* whatever a checked conversion yields is scalar (any loop bound) *)
Lemma glyphs_loop_scalar : forall conv, checked conv -> forall fuel h ch data g,
  glyphs_loop conv fuel h ch data = Done g -> Forall key_scalar g.
Proof.
  intros conv CK. induction fuel as [|f IH]; intros h ch data g H; rewrite glyphs_loop_eq in H;
    (destruct (glyphs_stop h ch data); [injection H as <-; constructor|]); [discriminate|].
  destruct (take h data) as [[gl rest]|]; [|discriminate]. cbv zeta in H.
  destruct (conv ch) as [c|] eqn:E.
  - apply omap_done in H. destruct H as [g' [H ->]]. constructor.
    + unfold key_scalar. cbn. eapply CK. exact E.
    + eapply IH. exact H.
  - eapply IH. exact H.
Qed.

(* the loop bound alone keeps every key below MAX_GLYPHS, with either conversion *)
Lemma glyphs_loop_below : forall conv, std_conv conv -> forall fuel h ch data g,
  glyphs_loop conv fuel h ch data = Done g -> Forall key_below_max g.
Proof.
  intros conv SC. induction fuel as [|f IH]; intros h ch data g H; rewrite glyphs_loop_eq in H;
    (destruct (glyphs_stop h ch data) eqn:G; [injection H as <-; constructor|]); [discriminate|].
  apply glyphs_stop_false in G. destruct G as [_ [_ G]].
  destruct (take h data) as [[gl rest]|]; [|discriminate]. cbv zeta in H.
  destruct (conv ch) as [c|] eqn:E.
  - apply omap_done in H. destruct H as [g' [H ->]]. constructor.
    + unfold key_below_max. cbn. rewrite (std_conv_some _ SC _ _ E). exact G.
    + eapply IH. exact H.
  - eapply IH. exact H.
Qed.

Lemma below_max_keys_scalar : forall g, Forall key_below_max g -> Forall key_scalar g.
Proof. intros g H. eapply Forall_impl; [|exact H]. intros kg K. apply below_max_scalar. exact K. Qed.

Lemma conv_glyphs_std : std_conv conv_glyphs. Proof. exact conv_glyphs_kind. Qed.

Lemma glyphs_keys_below_max_proof : forall conv, std_conv conv -> forall h data g,
  glyphs conv h data = Done g -> Forall key_below_max g.
Proof. intros conv SC h data g H. eapply glyphs_loop_below; [exact SC|exact H]. Qed.

(* proved from the loop bound (so for whichever conversion the site calls) *)
Lemma stored_scalar_glyphs_proof : forall h data g,
  glyphs conv_glyphs h data = Done g -> Forall key_scalar g.
Proof.
  intros h data g H. apply below_max_keys_scalar. eapply glyphs_keys_below_max_proof; [exact conv_glyphs_std|exact H].
Qed.

(* and from the conversion alone (for whatever loop bound), when the site calls the checked one *)
Lemma stored_scalar_glyphs_checked_proof : forall conv, checked conv -> forall h data g,
  glyphs conv h data = Done g -> Forall key_scalar g.
Proof. intros conv CK h data g H. eapply glyphs_loop_scalar; [exact CK|exact H]. Qed.

Lemma skipn_add : forall A (l : list A) a b, skipn a (skipn b l) = skipn (b + a) l.
Proof.
  intros A l a b. revert l. induction b as [|b IH]; intro l; [reflexivity|].
  destruct l as [|x r]; [cbn; destruct a; reflexivity|]. cbn [skipn Nat.add]. apply IH.
Qed.

(* every entry of the glyph map is (i, i-th chunk of the data) for a glyph index i below MAX_GLYPHS *)
Lemma glyphs_loop_keys : forall conv, std_conv conv -> forall fuel h ch data g,
  glyphs_loop conv fuel h ch data = Done g ->
  forall k gl, In (k, gl) g ->
  ch <= k /\ k < MAX_GLYPHS /\ gl = firstn h (skipn (N.to_nat (k - ch) * h) data) /\
  ((N.to_nat (k - ch) + 1) * h <= length data)%nat.
Proof.
  intros conv SC. induction fuel as [|f IH]; intros h ch data g H k gl I; rewrite glyphs_loop_eq in H;
    (destruct (glyphs_stop h ch data) eqn:G; [injection H as <-; destruct I|]); [discriminate|].
  apply glyphs_stop_false in G. destruct G as [_ [_ G]].
  destruct (take h data) as [[g0 rest]|] eqn:T; [|discriminate]. cbv zeta in H.
  apply take_some in T. destruct T as [-> [-> L]].
  assert (TL : forall g', glyphs_loop conv f h (ch + 1) (skipn h data) = Done g' -> In (k, gl) g' ->
               ch <= k /\ k < MAX_GLYPHS /\ gl = firstn h (skipn (N.to_nat (k - ch) * h) data) /\
               ((N.to_nat (k - ch) + 1) * h <= length data)%nat).
  { intros g' Hg' I'. destruct (IH _ _ _ _ Hg' _ _ I') as [LE [KM [EQ LEN]]].
    assert (S1 : N.to_nat (k - ch) = S (N.to_nat (k - (ch + 1)))) by lia.
    split; [lia|]. split; [exact KM|]. rewrite S1. split.
    - rewrite EQ. rewrite skipn_add. cbn [Nat.mul]. reflexivity.
    - rewrite skipn_length in LEN. lia. }
  destruct (conv ch) as [c|] eqn:E.
  - apply omap_done in H. destruct H as [g' [H ->]].
    destruct I as [I|I].
    + injection I as <- <-. rewrite (std_conv_some _ SC _ _ E).
      split; [lia|]. split; [exact G|]. rewrite N.sub_diag. cbn [N.to_nat Nat.mul skipn]. split; [reflexivity|lia].
    + exact (TL _ H I).
  - exact (TL _ H I).
Qed.

Lemma glyphs_keys_are_indices_proof : forall h data g, glyphs conv_glyphs h data = Done g ->
  forall k gl, In (k, gl) g ->
  k < MAX_GLYPHS /\ scalar k /\ gl = firstn h (skipn (N.to_nat k * h) data) /\
  ((N.to_nat k + 1) * h <= length data)%nat.
Proof.
  intros h data g H k gl I.
  destruct (glyphs_loop_keys _ conv_glyphs_std _ _ _ _ _ H _ _ I) as [_ [KM [EQ LEN]]].
  rewrite N.sub_0_r in EQ, LEN. split; [exact KM|]. split; [apply below_max_scalar; exact KM|]. auto.
Qed.

(* the loop always ends normally: the slice behind the loop test cannot fail, the fuel is enough *)
Lemma glyphs_loop_done : forall conv fuel h ch data, (length data <= fuel)%nat ->
  exists g, glyphs_loop conv fuel h ch data = Done g.
Proof.
  intro conv. induction fuel as [|f IH]; intros h ch data L; rewrite glyphs_loop_eq;
    (destruct (glyphs_stop h ch data) eqn:G; [eexists; reflexivity|]);
    apply glyphs_stop_false in G; destruct G as [G1 [G2 _]]; [lia|].
  destruct (take h data) as [[g0 rest]|] eqn:T; [|apply take_none in T; lia]. cbv zeta.
  apply take_rest_length in T.
  destruct (IH h (ch + 1) rest) as [g' Hg']; [lia|]. rewrite Hg'.
  destruct (conv ch); eexists; reflexivity.
Qed.

(* glyphs_from_u8_data returns for every height and all data: no endless loop (height 0), no slice panic
   (incomplete last glyph) -- both were possible at the snapshot commit (glyphs_v0) *)
Lemma glyphs_total_proof : forall conv h data, exists g, glyphs conv h data = Done g.
Proof. intros conv h data. apply glyphs_loop_done. apply le_n. Qed.

(* every glyph index below MAX_GLYPHS that has a complete chunk in the data IS a key *)
Lemma glyphs_loop_complete : forall conv, std_conv conv -> forall fuel h ch data g, (0 < h)%nat ->
  glyphs_loop conv fuel h ch data = Done g ->
  forall k, ch <= k -> k < MAX_GLYPHS -> ((N.to_nat (k - ch) + 1) * h <= length data)%nat ->
  In (k, firstn h (skipn (N.to_nat (k - ch) * h) data)) g.
Proof.
  intros conv SC. induction fuel as [|f IH]; intros h ch data g Hh H k LE KM LEN; rewrite glyphs_loop_eq in H;
    (rewrite glyphs_stop_false_intro in H; [|exact Hh|nia|lia]); [discriminate|].
  destruct (take h data) as [[g0 rest]|] eqn:T; [|discriminate]. cbv zeta in H.
  apply take_some in T. destruct T as [-> [-> L0]].
  destruct (N.eq_dec k ch) as [->|NE].
  - rewrite (std_conv_below _ SC _ KM) in H. apply omap_done in H. destruct H as [g' [_ ->]].
    left. rewrite N.sub_diag. reflexivity.
  - assert (S1 : N.to_nat (k - ch) = S (N.to_nat (k - (ch + 1)))) by lia.
    assert (TLK : forall g', glyphs_loop conv f h (ch + 1) (skipn h data) = Done g' ->
                   In (k, firstn h (skipn (N.to_nat (k - ch) * h) data)) g').
    { intros g' Hg'. rewrite S1. cbn [Nat.mul]. rewrite <- skipn_add.
      assert (A2 : ((N.to_nat (k - (ch + 1)) + 1) * h <= length (skipn h data))%nat).
      { rewrite skipn_length. rewrite S1 in LEN. lia. }
      assert (A3 : ch + 1 <= k) by lia.
      exact (IH h (ch + 1) (skipn h data) g' Hh Hg' k A3 KM A2). }
    destruct (conv ch).
    + apply omap_done in H. destruct H as [g' [H ->]]. right. apply TLK. exact H.
    + apply TLK. exact H.
Qed.

Lemma glyphs_complete_proof : forall h data g, (0 < h)%nat -> glyphs conv_glyphs h data = Done g ->
  forall k, k < MAX_GLYPHS -> ((N.to_nat k + 1) * h <= length data)%nat ->
  In (k, firstn h (skipn (N.to_nat k * h) data)) g.
Proof.
  intros h data g Hh H k KM LEN.
  pose proof (glyphs_loop_complete _ conv_glyphs_std (length data) h 0 data g Hh H k (N.le_0_l k) KM) as P.
  rewrite N.sub_0_r in P. apply P. exact LEN.
Qed.

Lemma lookup_keys_scalar : forall conv, checked conv -> forall len, Forall scalar (lookup_keys conv len).
Proof.
  intros conv CK len. unfold lookup_keys. apply Forall_flat_map. apply Forall_forall. intros i _.
  destruct (conv i) as [c|] eqn:E; [|constructor]. constructor; [|constructor]. eapply CK. exact E.
Qed.

Lemma stored_scalar_font_lookups_proof : forall len,
  Forall scalar (lookup_keys conv_checksum len) /\ Forall scalar (lookup_keys conv_u8data len) /\
  Forall scalar (lookup_keys conv_psf2 len).
Proof.
  intro len. repeat split; apply lookup_keys_scalar;
    [exact conv_checksum_checked|exact conv_u8data_checked|exact conv_psf2_checked].
Qed.

(* the loop of the snapshot commit with the conversion of the snapshot commit *)
Lemma glyphs_before_fix_refuted_proof :
  exists h data, match glyphs_v0 char_from_u32_unchecked h data with
                 | Done g => forallb (fun kg => scalarb (fst kg)) g = false
                 | _ => False
                 end.
Proof. exists 1%nat, (repeat 0 (N.to_nat 55297)). vm_compute. reflexivity. Qed.

(* ---- the loaders: BitFont::from_bytes / create_8 / from_basic *)
Lemma mk_font_done : forall len o f, mk_font len o = Done f -> exists g, o = Done g /\ f = {| ft_length := len; ft_glyphs := g |}.
Proof. intros len o f H. unfold mk_font in H. apply omap_done in H. exact H. Qed.

Lemma glyphs_n_eq : forall conv h data, glyphs_n conv h data = glyphs conv (N.to_nat h) data.
Proof.
  intros conv h data. unfold glyphs_n. destruct (N.ltb_spec (N.of_nat (length data)) h) as [L|L]; [|reflexivity].
  unfold glyphs. rewrite glyphs_loop_eq. unfold glyphs_stop.
  assert (S1 : shorter data (N.to_nat h) = true) by (rewrite shorter_spec; apply Nat.ltb_lt; lia).
  rewrite S1. rewrite orb_true_r. reflexivity.
Qed.

Lemma drop_some : forall n l, n <= N.of_nat (length l) -> exists r, drop n l = Some r.
Proof.
  intros n l H. unfold drop. destruct (N.ltb_spec (N.of_nat (length l)) n) as [L|L]; [lia|]. eexists. reflexivity.
Qed.

(* what load_psf2 has established when it passes its header tests *)
Lemma usize_checked_some : forall x y, usize_checked x = Some y -> y = x.
Proof. intros x y H. unfold usize_checked in H. destruct (x <? _); [injection H as <-; reflexivity|discriminate]. Qed.

Lemma load_psf2_done : forall conv data f, load_psf2 conv data = Done f ->
  ft_length f <= MAX_GLYPHS /\
  exists body, drop (le32_at data 8) data = Some body /\
               glyphs conv (N.to_nat (le32_at data 24)) body = Done (ft_glyphs f).
Proof.
  intros conv data f H. unfold load_psf2 in H. cbv zeta in H.
  destruct (N.of_nat (length data) <? 32); [discriminate|].
  destruct (PSF2_MAXVERSION <? le32_at data 4); [discriminate|].
  destruct (negb _ || (MAX_GLYPHS <? le32_at data 16)) eqn:T; [discriminate|].
  apply orb_false_iff in T. destruct T as [_ T]. apply N.ltb_ge in T.
  destruct (_ || (MAX_FONT_HEIGHT <? le32_at data 24)); [discriminate|].
  destruct (negb (le32_at data 20 =? le32_at data 24)); [discriminate|].
  destruct (drop (le32_at data 8) data) as [body|]; [|discriminate].
  apply mk_font_done in H. destruct H as [g [H ->]]. rewrite glyphs_n_eq in H. cbn [ft_length ft_glyphs].
  split; [exact T|]. exists body. split; [reflexivity|exact H].
Qed.

(* load_psf2 never panics on `&data[headersize..]`: the length test implies headersize <= data.len() *)
Lemma load_psf2_total : forall conv data, load_psf2 conv data = Rejected \/ exists f, load_psf2 conv data = Done f.
Proof.
  intros conv data. unfold load_psf2. cbv zeta.
  destruct (N.of_nat (length data) <? 32); [left; reflexivity|].
  destruct (PSF2_MAXVERSION <? le32_at data 4); [left; reflexivity|].
  destruct (negb _ || (MAX_GLYPHS <? le32_at data 16)) eqn:T; [left; reflexivity|].
  apply orb_false_iff in T. destruct T as [T _]. apply negb_false_iff in T.
  destruct (usize_checked (le32_at data 16 * le32_at data 20)) as [size|] eqn:U1; [|discriminate].
  destruct (usize_checked (size + le32_at data 8)) as [e|] eqn:U2; [|discriminate].
  apply N.eqb_eq in T. apply usize_checked_some in U2.
  destruct (_ || (MAX_FONT_HEIGHT <? le32_at data 24)); [left; reflexivity|].
  destruct (negb (le32_at data 20 =? le32_at data 24)); [left; reflexivity|].
  destruct (drop_some (le32_at data 8) data) as [body B]; [lia|]. rewrite B.
  rewrite glyphs_n_eq. destruct (glyphs_total_proof conv (N.to_nat (le32_at data 24)) body) as [g G]. rewrite G.
  right. eexists. reflexivity.
Qed.

Lemma shorter_false : forall l n, shorter l n = false -> (n <= length l)%nat.
Proof. intros l n H. rewrite shorter_spec in H. apply Nat.ltb_ge in H. exact H. Qed.

(* BitFont::from_bytes returns Ok or Err for EVERY byte string (no panic, no endless loop) *)
Lemma font_from_bytes_total_proof : forall conv data,
  font_from_bytes conv data = Rejected \/ exists f, font_from_bytes conv data = Done f.
Proof.
  intros conv data. unfold font_from_bytes.
  destruct (shorter data 4) eqn:S4; [left; reflexivity|]. apply shorter_false in S4.
  destruct (_ =? PSF1_MAGIC).
  - destruct data as [|a [|b [|c [|d rest]]]]; cbn [length] in S4; try lia. unfold load_psf1.
    destruct (_ || _); [left; reflexivity|].
    destruct (glyphs_total_proof conv (N.to_nat d) rest) as [g G]. rewrite G. right. eexists. reflexivity.
  - destruct (_ =? PSF2_MAGIC); [apply load_psf2_total|].
    unfold load_plain. cbv zeta. destruct (_ || _); [left; reflexivity|].
    destruct (glyphs_total_proof conv (N.to_nat (N.of_nat (length data) / 256)) data) as [g G]. rewrite G.
    right. eexists. reflexivity.
Qed.

Lemma font_create_total_proof : forall conv h data, exists f, font_create conv h data = Done f.
Proof.
  intros conv h data. unfold font_create. destruct (glyphs_total_proof conv (N.to_nat h) data) as [g G]. rewrite G.
  eexists. reflexivity.
Qed.

(* a loaded font: every key of the glyph map AND the bound of the lookup loops stay below MAX_GLYPHS *)
Lemma font_from_bytes_bounds : forall conv, std_conv conv -> forall data f, font_from_bytes conv data = Done f ->
  Forall key_below_max (ft_glyphs f) /\ ft_length f <= MAX_GLYPHS.
Proof.
  intros conv SC data f H. unfold font_from_bytes in H.
  destruct (shorter data 4); [discriminate|].
  destruct (_ =? PSF1_MAGIC).
  - unfold load_psf1 in H. destruct data as [|a [|b [|c [|d rest]]]]; try discriminate.
    destruct (_ || _); [discriminate|].
    apply mk_font_done in H. destruct H as [g [H ->]]. cbn [ft_length ft_glyphs]. split.
    + eapply glyphs_keys_below_max_proof; [exact SC|exact H].
    + rewrite max_glyphs_eq. destruct (_ =? _); lia.
  - destruct (_ =? PSF2_MAGIC).
    + apply load_psf2_done in H. destruct H as [L [body [_ G]]]. split; [|exact L].
      eapply glyphs_keys_below_max_proof; [exact SC|exact G].
    + unfold load_plain in H. cbv zeta in H. destruct (_ || _); [discriminate|].
      apply mk_font_done in H. destruct H as [g [H ->]]. cbn [ft_length ft_glyphs]. split.
      * eapply glyphs_keys_below_max_proof; [exact SC|exact H].
      * rewrite max_glyphs_eq. lia.
Qed.

Lemma font_create_bounds : forall conv, std_conv conv -> forall h data f, font_create conv h data = Done f ->
  Forall key_below_max (ft_glyphs f) /\ ft_length f <= MAX_GLYPHS.
Proof.
  intros conv SC h data f H. unfold font_create in H. apply mk_font_done in H. destruct H as [g [H ->]].
  cbn [ft_length ft_glyphs]. split; [eapply glyphs_keys_below_max_proof; [exact SC|exact H]|rewrite max_glyphs_eq; lia].
Qed.

Lemma nrange_aux_In_inv : forall k s i, In i (nrange_aux k s) -> s <= i /\ i < s + N.of_nat k.
Proof.
  induction k as [|k IH]; intros s i H; [destruct H|].
  cbn [nrange_aux] in H. destruct H as [<-|H]; [lia|]. apply IH in H. lia.
Qed.

Lemma flat_map_singletons : forall (f : N -> list N) l, (forall i, In i l -> f i = [i]) -> flat_map f l = l.
Proof.
  intros f l. induction l as [|a r IH]; intro H; [reflexivity|].
  cbn [flat_map]. rewrite (H a (or_introl eq_refl)). rewrite IH; [reflexivity|]. intros i I. apply H. right. exact I.
Qed.

(* below MAX_GLYPHS the `0..length` loops look up exactly the chars 0, 1, .., length-1, with either conversion *)
Lemma lookup_keys_below : forall conv, std_conv conv -> forall len, len <= MAX_GLYPHS ->
  lookup_keys conv len = nrange len.
Proof.
  intros conv SC len L. unfold lookup_keys. apply flat_map_singletons. intros i I.
  unfold nrange in I. apply nrange_aux_In_inv in I. rewrite (std_conv_below _ SC i); [reflexivity|lia].
Qed.

Lemma stored_scalar_loaded_font_proof : forall data f, font_from_bytes conv_glyphs data = Done f ->
  Forall key_scalar (ft_glyphs f) /\ Forall key_below_max (ft_glyphs f) /\ ft_length f <= MAX_GLYPHS /\
  (forall conv, std_conv conv -> lookup_keys conv (ft_length f) = nrange (ft_length f)).
Proof.
  intros data f H. destruct (font_from_bytes_bounds _ conv_glyphs_std _ _ H) as [K L].
  split; [apply below_max_keys_scalar; exact K|]. split; [exact K|]. split; [exact L|].
  intros conv SC. apply lookup_keys_below; assumption.
Qed.

Lemma stored_scalar_created_font_proof : forall h data f, font_create conv_glyphs h data = Done f ->
  Forall key_scalar (ft_glyphs f) /\ Forall key_below_max (ft_glyphs f) /\ ft_length f = 256.
Proof.
  intros h data f H. destruct (font_create_bounds _ conv_glyphs_std _ _ _ H) as [K _].
  split; [apply below_max_keys_scalar; exact K|]. split; [exact K|].
  unfold font_create in H. apply mk_font_done in H. destruct H as [g [_ ->]]. reflexivity.
Qed.

(* ------------------------------------------------------------------ hex macros *)
Definition latin1 (c : N) : Prop := c < 256.

Lemma position_lt : forall v t i, position v t = Some i -> i < N.of_nat (length t).
Proof.
  intros v t. induction t as [|x r IH]; intros i H; [discriminate|].
  cbn [position] in H. destruct (x =? v); [injection H as <-; cbn [length]; lia|].
  destruct (position v r) as [j|]; [|discriminate]. injection H as <-.
  specialize (IH j eq_refl). cbn [length]. lia.
Qed.

(* the regenerated table has 16 entries, so every position found in it is a hex digit value *)
Lemma hex_table_positions : forall v i, position v HEX_TABLE = Some i -> i < 16.
Proof. intros v i H. apply position_lt in H. exact H. Qed.

Lemma conv_small : forall conv, (conv = char_from_u32 \/ conv = char_from_u32_unchecked) ->
  forall x c, x < 256 -> conv x = Some c -> c = x.
Proof.
  intros conv [-> | ->] x c L H.
  - apply char_from_u32_some in H. tauto.
  - injection H as <-. reflexivity.
Qed.

Lemma repeat_str_latin1 : forall n s, Forall latin1 s -> Forall latin1 (repeat_str n s).
Proof.
  intros n s F. unfold repeat_str. apply Forall_concat. apply Forall_forall. intros x I.
  apply repeat_spec in I. subst x. exact F.
Qed.

Definition hm_ok (s : hm) : Prop := Forall latin1 (h_macro s) /\ Forall latin1 (h_repeat_rec s).

Lemma hex_step_ok : forall conv, (conv = char_from_u32 \/ conv = char_from_u32_unchecked) ->
  forall s ch s', hm_ok s -> hex_step conv s ch = Done s' -> hm_ok s'.
Proof.
  intros conv K s ch s' [M R] H. unfold hex_step in H.
  destruct (h_state s) as [|first|n].
  - destruct ((ch =? 59) && h_read_repeat s).
    + injection H as <-. split; cbn; [apply Forall_app; split; [exact M|apply repeat_str_latin1; exact R]|exact R].
    + destruct (ch =? 33); injection H as <-; split; assumption.
  - destruct (position (as_u8 first) HEX_TABLE) as [a|] eqn:PA; [|discriminate].
    destruct (position (as_u8 (to_ascii_uppercase ch)) HEX_TABLE) as [b|] eqn:PB; [|discriminate].
    apply hex_table_positions in PA, PB.
    destruct (conv (a * 16 + b)) as [cc|] eqn:E; [|discriminate].
    assert (CC : latin1 cc).
    { unfold latin1. rewrite (conv_small conv K (a * 16 + b) cc) by (try exact E; lia). lia. }
    destruct (h_read_repeat s); injection H as <-; split; cbn; try assumption;
      apply Forall_app; (split; [assumption|constructor; [exact CC|constructor]]).
  - destruct (is_ascii_digit ch); [injection H as <-; split; assumption|].
    destruct (ch =? 59); [|discriminate]. injection H as <-. split; cbn; [exact M|constructor].
Qed.

Lemma hex_run_ok : forall conv, (conv = char_from_u32 \/ conv = char_from_u32_unchecked) ->
  forall cs s s', hm_ok s -> hex_run conv s cs = Done s' -> hm_ok s'.
Proof.
  intros conv K. induction cs as [|c r IH]; intros s s' OK H.
  - injection H as <-. exact OK.
  - cbn [hex_run] in H. destruct (hex_step conv s c) as [s1| | |] eqn:E; try discriminate.
    eapply IH; [|exact H]. eapply hex_step_ok; eassumption.
Qed.

Lemma latin1_scalar : forall c, latin1 c -> scalar c.
Proof. unfold latin1, scalar. intros. lia. Qed.

(* every character of a stored hex macro is below 256, for every text, whichever conversion the site calls *)
Lemma stored_scalar_hexmacro_proof : forall cs body, hexmacro conv_hexmacro cs = Done body ->
  Forall latin1 body /\ Forall scalar body.
Proof.
  intros cs body H. unfold hexmacro in H. apply omap_done in H. destruct H as [s [H ->]].
  assert (OK : hm_ok s).
  { eapply hex_run_ok; [exact conv_hexmacro_kind| |exact H]. split; constructor. }
  destruct OK as [M R].
  assert (L : Forall latin1 (if h_read_repeat s then h_macro s ++ repeat_str (h_repeat_number s) (h_repeat_rec s) else h_macro s)).
  { destruct (h_read_repeat s); [apply Forall_app; split; [exact M|apply repeat_str_latin1; exact R]|exact M]. }
  split; [exact L|]. eapply Forall_impl; [|exact L]. exact latin1_scalar.
Qed.

(* the String that is stored (String::push of each char) is UTF-8 *)
Lemma strings_utf8_hexmacro_proof : forall cs body, hexmacro conv_hexmacro cs = Done body -> is_utf8 (utf8_encode body).
Proof. intros cs body H. apply is_utf8_encode. apply (stored_scalar_hexmacro_proof cs body H). Qed.

Lemma char_from_u32_spec_proof : forall x,
  (scalar x -> char_from_u32 x = Some x) /\ (~ scalar x -> char_from_u32 x = None).
Proof. intro x. split; [apply char_from_u32_scalar|apply char_from_u32_none]. Qed.

(* ------------------------------------------------------------------ the fixes are local *)
(* On every input on which the unchecked conversion only ever produced scalar values, the checked code does
   exactly what the unchecked code did: the fix commits change the outcome only where a non-scalar value
   was being materialised. *)

Lemma omap_done_intro : forall A B (f : A -> B) o a, o = Done a -> omap f o = Done (f a).
Proof. intros A B f o a ->. reflexivity. Qed.

Lemma clip_cells_local : forall fuel k total w data ev,
  clip_cells char_from_u32_unchecked fuel k total w data = Done ev -> Forall ev_scalar ev ->
  clip_cells char_from_u32 fuel k total w data = Done ev.
Proof.
  induction fuel as [|f IH]; intros k total w data ev H F; cbn [clip_cells] in *.
  - destruct (total <=? k); [exact H|discriminate].
  - destruct (total <=? k); [exact H|].
    destruct data as [|d0 [|d1 rest0]]; try discriminate.
    unfold char_from_u32_unchecked in H at 1.
    destruct (take 14 (d0 :: d1 :: rest0)) as [[rec rest]|]; [|discriminate].
    apply omap_done in H. destruct H as [ev' [H ->]].
    inversion F as [|? ? S F']; subst. unfold ev_scalar, ev_char in S. cbn in S.
    rewrite (char_from_u32_scalar _ S). apply omap_done_intro. apply IH; assumption.
Qed.

Lemma fix_is_local_clipboard_proof : forall data r,
  clipboard char_from_u32_unchecked data = Done r -> Forall ev_scalar (c_cells r) ->
  clipboard conv_clipboard data = Done r.
Proof.
  intros data r H F. change conv_clipboard with char_from_u32. unfold clipboard in *.
  destruct data as [|tag rest]; [discriminate|].
  destruct (negb (tag =? 0)); [discriminate|].
  destruct (take 17 (tag :: rest)) as [[hd rest']|]; [|discriminate].
  apply omap_done in H. destruct H as [ev [H ->]]. cbn [c_cells] in F.
  apply omap_done_intro. apply clip_cells_local; assumption.
Qed.

Lemma cells_loop_local : forall chk fuel x y w h bs ev,
  cells_loop char_from_u32_unchecked chk fuel x y w h bs = Done ev -> Forall ev_scalar ev ->
  cells_loop char_from_u32 chk fuel x y w h bs = Done ev.
Proof.
  intro chk. induction fuel as [|f IH]; intros x y w h bs ev H F; [discriminate|].
  cbn [cells_loop] in *.
  destruct (h <=? y)%Z; [exact H|].
  destruct ((x =? 0)%Z && match bs with [] => true | _ => false end); [exact H|].
  destruct (w <=? x)%Z; [apply IH; assumption|].
  destruct (decode_cell chk bs) as [r|r|ch r| |]; try discriminate; try (apply IH; assumption).
  unfold char_from_u32_unchecked in H at 1.
  apply omap_done in H. destruct H as [ev' [H ->]].
  inversion F as [|? ? S F']; subst. unfold ev_scalar, ev_char in S. cbn in S.
  rewrite (char_from_u32_scalar _ S). apply omap_done_intro. apply IH; assumption.
Qed.

Lemma fix_is_local_icy_proof : forall chk y0 w h bs ev,
  cells char_from_u32_unchecked chk y0 w h bs = Done ev -> Forall ev_scalar ev ->
  cells char_from_u32 chk y0 w h bs = Done ev.
Proof.
  intros chk y0 w h bs ev H F. unfold cells in *. destruct (w <=? 0)%Z; [exact H|].
  apply cells_loop_local; assumption.
Qed.

(* the snapshot loop with the snapshot (unchecked) conversion against the merged function: wherever the old code
   returned and had stored only scalar values, the merged code returns the very same map *)
Lemma glyphs_loop_local : forall conv, std_conv conv -> forall fuel h ch data g, (0 < h)%nat -> ch <= MAX_GLYPHS ->
  glyphs_loop_v0 char_from_u32_unchecked fuel h ch data = Done g -> Forall key_scalar g ->
  glyphs_loop conv fuel h ch data = Done g.
Proof.
  intros conv SC. induction fuel as [|f IH]; intros h ch data g Hh CM H F; rewrite glyphs_loop_eq.
  - destruct data; [|discriminate]. injection H as <-. unfold glyphs_stop.
    destruct h; [lia|]. reflexivity.
  - destruct data as [|a r].
    + injection H as <-. unfold glyphs_stop. destruct h; [lia|]. reflexivity.
    + cbn [glyphs_loop_v0] in H.
      destruct (take h (a :: r)) as [[g0 rest]|] eqn:T; [|discriminate].
      unfold char_from_u32_unchecked in H at 1.
      apply omap_done in H. destruct H as [g' [H ->]].
      inversion F as [|? ? S F']; subst. unfold key_scalar in S. cbn in S.
      assert (KM : ch < MAX_GLYPHS).
      { rewrite max_glyphs_eq in *. destruct S as [S|S]; lia. }
      pose proof (take_some _ _ _ _ T) as [_ [_ L]].
      rewrite glyphs_stop_false_intro; [|exact Hh|exact L|exact KM].
      rewrite (std_conv_below _ SC _ KM). apply omap_done_intro. apply IH; [exact Hh|lia|exact H|exact F'].
Qed.

Lemma fix_is_local_glyphs_proof : forall h data g,
  glyphs_v0 char_from_u32_unchecked h data = Done g -> Forall key_scalar g -> glyphs conv_glyphs h data = Done g.
Proof.
  intros h data g H F. unfold glyphs_v0 in H. unfold glyphs. destruct h as [|h].
  - destruct data; [|discriminate]. cbn in H. injection H as <-. reflexivity.
  - apply (glyphs_loop_local _ conv_glyphs_std); [lia|lia|exact H|exact F].
Qed.
