(* Proofs for C06 (XBin compression).  Statements are re-exported, closed by `exact`, in Props/C06.v. *)
From Coq Require Import NArith ZArith List Bool Lia.
From IE Require Import Lib.Tbl Lib.Bits Gen.XBinConst Model.XBin Model.XBinLegacy.
Import ListNotations.
Local Open Scope N_scope.

(* ------------------------------------------------------------------------------------------------------------ *)
(* 1. finite sweeps over the generated constants                                                                   *)

Definition tyidx (m : comp) : N := match m with MOff => 0 | MChar => 1 | MAttr => 2 | MFull => 3 end.

(* the writer's run byte `(run_mode as u8) | (run_count - 1)` against the specification's bit fields *)
Lemma hdr_sweep :
  forallb (fun m => forallb (fun c =>
     let h := N.lor (comp_byte m) c in (h <? 256) && (h / 64 =? tyidx m) && (h mod 64 =? c)) (nrange 64))
    [MOff; MChar; MAttr; MFull] = true.
Proof. vm_compute. reflexivity. Qed.

Lemma hdr_spec m c : c < 64 ->
  let h := N.lor (comp_byte m) c in is_byte h = true /\ h / 64 = tyidx m /\ h mod 64 = c.
Proof.
  intros Hc h. pose proof hdr_sweep as H. rewrite forallb_forall in H.
  assert (Hm : In m [MOff; MChar; MAttr; MFull]) by (destruct m; simpl; tauto).
  specialize (H m Hm). pose proof (nrange_forallb _ 64 H c Hc) as Hb. cbv beta zeta in Hb.
  apply andb_prop in Hb. destruct Hb as [Hb H3]. apply andb_prop in Hb. destruct Hb as [H1 H2].
  apply N.eqb_eq in H2, H3. unfold is_byte. subst h. auto.
Qed.

(* the reader's split of the run byte (TYPE_MASK / COUNT_MASK / COUNT_BIAS, enum discriminants) against the specification's *)
Definition reader_type (h : N) : option comp :=
  let ty := N.land h TYPE_MASK in
  if ty =? COMP_OFF then Some MOff else if ty =? COMP_CHAR then Some MChar
  else if ty =? COMP_ATTR then Some MAttr else if ty =? COMP_FULL then Some MFull else None.

Lemma header_sweep :
  forallb (fun h => (N.land h COUNT_MASK + COUNT_BIAS =? h mod 64 + 1)
                    && match reader_type h with Some m => tyidx m =? h / 64 | None => false end) (nrange 256) = true.
Proof. vm_compute. reflexivity. Qed.

Lemma header_spec h : is_byte h = true ->
  N.to_nat (N.land h COUNT_MASK + COUNT_BIAS) = S (N.to_nat (h mod 64)) /\ exists m, reader_type h = Some m /\ tyidx m = h / 64.
Proof.
  unfold is_byte. intro Hb. apply N.ltb_lt in Hb.
  pose proof (nrange_forallb _ 256 header_sweep h Hb) as H. cbv beta in H.
  apply andb_prop in H. destruct H as [H1 H2]. apply N.eqb_eq in H1. split.
  - rewrite H1. lia.
  - destruct (reader_type h) as [m|]; [|discriminate]. exists m. apply N.eqb_eq in H2. auto.
Qed.

(* encode_attr yields a byte *)
Lemma enc_mask_sweep :
  forallb (fun x => (N.lor (N.land x ENC_MASK) ENC_PAGE_BIT <? 256) && (N.lor (N.land x ENC_MASK) ENC_NOPAGE_BIT <? 256)) (nrange 256) = true.
Proof. vm_compute. reflexivity. Qed.

Lemma as_u8_lt a m : as_u8 a m < 256.
Proof. unfold as_u8. apply N.mod_lt. discriminate. Qed.

Lemma encode_attr_lt fonts ic c : encode_attr fonts ic c < 256.
Proof.
  unfold encode_attr. pose proof (as_u8_lt (attr c) ic) as Hlt.
  pose proof (nrange_forallb _ 256 enc_mask_sweep _ Hlt) as H. cbv beta in H.
  apply andb_prop in H. destruct H as [H1 H2]. apply N.ltb_lt in H1, H2.
  destruct (N.of_nat (length fonts) =? ENC_FONTS_LEN); [|exact Hlt].
  destruct fonts as [|f0 [|f1 r]]; try exact Hlt.
  destruct (fpage (attr c) =? f1); assumption.
Qed.

(* ------------------------------------------------------------------------------------------------------------ *)
(* 2. the specification decoder                                                                                    *)

Definition pair_ok (p : N * N) : bool := is_byte (fst p) && is_byte (snd p).

Lemma spec_cells_0 f bs : spec_cells f 0 bs = Some ([], bs).
Proof. destruct f; reflexivity. Qed.

Lemma spec_cells_S f need' h t :
  spec_cells (S f) (S need') (h :: t) =
  if is_byte h then
    let n := S (N.to_nat (h mod 64)) in
    if (S need' <? n)%nat then None
    else match spec_run (h / 64) n t with
         | Some (cells, t') =>
             if forallb pair_ok cells then
               match spec_cells f (S need' - n) t' with
               | Some (cs, r) => Some (cells ++ cs, r)
               | None => None
               end
             else None
         | None => None
         end
  else None.
Proof. reflexivity. Qed.

Lemma spec_cells_fuel : forall f1 f2 need bs, (need <= f1)%nat -> (need <= f2)%nat ->
  spec_cells f1 need bs = spec_cells f2 need bs.
Proof.
  induction f1 as [|f1 IH]; intros f2 need bs H1 H2.
  - assert (need = O) by lia. subst. rewrite !spec_cells_0. reflexivity.
  - destruct need as [|need']; [rewrite !spec_cells_0; reflexivity|].
    destruct f2 as [|f2]; [lia|].
    destruct bs as [|h t]; [reflexivity|].
    rewrite !spec_cells_S.
    destruct (is_byte h); [|reflexivity]. cbv zeta.
    generalize (N.to_nat (h mod 64)). intro k.
    destruct (S need' <? S k)%nat eqn:Hlt; [reflexivity|].
    destruct (spec_run (h / 64) (S k) t) as [[cells t']|]; [|reflexivity].
    destruct (forallb pair_ok cells); [|reflexivity].
    rewrite (IH f2 (S need' - S k)%nat t') by lia. reflexivity.
Qed.

Definition srow (need : nat) (bs : list N) := spec_cells need need bs.

(* payload of one run, as the writer lays it out *)
Definition buf_of (m : comp) (pend : list (N * N)) : list N :=
  match m with
  | MOff => flat_map (fun p => [fst p; snd p]) pend
  | MChar => match pend with [] => [] | p :: t => fst p :: snd p :: map snd t end
  | MAttr => match pend with [] => [] | p :: t => snd p :: fst p :: map fst t end
  | MFull => match pend with [] => [] | p :: _ => [fst p; snd p] end
  end.

Definition valid_run (m : comp) (pend : list (N * N)) : Prop :=
  match pend with
  | [] => False
  | p :: t =>
      match m with
      | MOff => True
      | MChar => Forall (fun q => fst q = fst p) t
      | MAttr => Forall (fun q => snd q = snd p) t
      | MFull => Forall (fun q => q = p) t
      end
  end.

Lemma take_pairs_flat pend rest :
  take_pairs (length pend) (flat_map (fun p => [fst p; snd p]) pend ++ rest) = Some (pend, rest).
Proof.
  induction pend as [|[c a] t IH]; [reflexivity|].
  cbn [length flat_map fst snd app take_pairs]. rewrite IH. reflexivity.
Qed.

Lemma take_bytes_app xs rest : take_bytes (length xs) (xs ++ rest) = Some (xs, rest).
Proof. induction xs as [|x t IH]; [reflexivity|]. cbn [length app take_bytes]. rewrite IH. reflexivity. Qed.

Lemma spec_run_buf m pend rest : valid_run m pend ->
  spec_run (tyidx m) (length pend) (buf_of m pend ++ rest) = Some (pend, rest).
Proof.
  destruct pend as [|[c a] t]; [intros []|]. destruct m; cbn [valid_run tyidx buf_of fst snd]; intro Hv.
  - unfold spec_run. apply (take_pairs_flat ((c, a) :: t)).
  - unfold spec_run. cbn [app]. cbn [length].
    change (a :: map snd t ++ rest) with ((a :: map snd t) ++ rest).
    replace (S (length t)) with (length (a :: map snd t)) by (cbn [length]; rewrite map_length; reflexivity).
    rewrite take_bytes_app. f_equal. f_equal. cbn [map]. f_equal.
    induction t as [|[c' a'] t IH]; [reflexivity|]. inversion Hv; subst. cbn [map fst snd] in *. subst. f_equal. auto.
  - unfold spec_run. cbn [app]. cbn [length].
    change (c :: map fst t ++ rest) with ((c :: map fst t) ++ rest).
    replace (S (length t)) with (length (c :: map fst t)) by (cbn [length]; rewrite map_length; reflexivity).
    rewrite take_bytes_app. f_equal. f_equal. cbn [map]. f_equal.
    induction t as [|[c' a'] t IH]; [reflexivity|]. inversion Hv; subst. cbn [map fst snd] in *. subst. f_equal. auto.
  - unfold spec_run. cbn [app length repeat]. f_equal. f_equal. f_equal.
    induction t as [|q t IH]; [reflexivity|]. inversion Hv; subst. cbn [length repeat]. f_equal. auto.
Qed.

(* one run in front of a row remainder *)
Lemma srow_run m pend rest need :
  valid_run m pend -> (length pend <= 64)%nat -> (length pend <= need)%nat -> forallb pair_ok pend = true ->
  srow need (N.lor (comp_byte m) (N.of_nat (length pend) - 1) :: buf_of m pend ++ rest) =
  match srow (need - length pend) rest with
  | Some (cs, r) => Some (pend ++ cs, r)
  | None => None
  end.
Proof.
  intros Hv H64 Hneed Hb.
  assert (Hpos : (1 <= length pend)%nat) by (destruct pend; [destruct Hv|cbn [length]; lia]).
  unfold srow. destruct need as [|need']; [lia|].
  rewrite spec_cells_S.
  destruct (hdr_spec m (N.of_nat (length pend) - 1)) as (Hbyte & Hty & Hcnt); [lia|].
  rewrite Hbyte, Hty, Hcnt. cbv zeta.
  replace (S (N.to_nat (N.of_nat (length pend) - 1))) with (length pend) by lia.
  destruct (S need' <? length pend)%nat eqn:Hlt; [apply Nat.ltb_lt in Hlt; lia|].
  rewrite spec_run_buf by assumption. rewrite Hb.
  rewrite (spec_cells_fuel need' (S need' - length pend)) by lia. reflexivity.
Qed.

(* run lengths seen by the specification decoder: between 1 and 64, and they add up to the row width *)
Lemma spec_run_lengths_ok : forall f need bs cells rest,
  spec_cells f need bs = Some (cells, rest) ->
  Forall (fun l => 1 <= l <= 64) (spec_run_lengths f need bs) /\
  fold_right N.add 0 (spec_run_lengths f need bs) = N.of_nat need.
Proof.
  induction f as [|f IH]; intros need bs cells rest H.
  - destruct need; [|discriminate]. split; [constructor|reflexivity].
  - destruct need as [|need']; [split; [constructor|reflexivity]|].
    destruct bs as [|h t]; [discriminate|].
    rewrite spec_cells_S in H.
    destruct (is_byte h); [|discriminate]. cbv zeta in H.
    cbn [spec_run_lengths].
    assert (Hm : h mod 64 < 64) by (apply N.mod_lt; discriminate).
    set (k := h mod 64) in *. clearbody k.
    destruct (S need' <? S (N.to_nat k))%nat eqn:Hlt; [discriminate|].
    apply Nat.ltb_ge in Hlt.
    destruct (spec_run (h / 64) (S (N.to_nat k)) t) as [[c1 t']|]; [|discriminate].
    destruct (forallb pair_ok c1); [|discriminate].
    destruct (spec_cells f (S need' - S (N.to_nat k)) t') as [[cs r]|] eqn:Hrec; [|discriminate].
    destruct (IH _ _ _ _ Hrec) as [Hall Hsum].
    split.
    + constructor; [lia|exact Hall].
    + cbn [fold_right]. rewrite Hsum. lia.
Qed.

(* ------------------------------------------------------------------------------------------------------------ *)
(* 3. the compressor, for every look-ahead oracle                                                                  *)

(* all the proofs need from the run limit of compress_backtrack: a count fits the 6-bit field *)
Lemma RUN_MAX_le_64 : RUN_MAX <= 64.
Proof. vm_compute. discriminate. Qed.

Lemma byte_lt b : is_byte b = true <-> b < 256.
Proof. unfold is_byte. apply N.ltb_lt. Qed.

Lemma buf_bytes m pend : forallb pair_ok pend = true -> Forall (fun b => b < 256) (buf_of m pend).
Proof.
  intro H. assert (Hp : Forall (fun p => fst p < 256 /\ snd p < 256) pend).
  { apply Forall_forall. intros p Hin. rewrite forallb_forall in H. specialize (H p Hin).
    apply andb_prop in H. destruct H as [H1 H2]. apply byte_lt in H1, H2. auto. }
  clear H. destruct m; cbn [buf_of].
  - induction Hp as [|p t [H1 H2] _ IH]; cbn [flat_map app]; auto.
  - destruct Hp as [|p t [H1 H2] Ht]; [constructor|]. constructor; [exact H1|]. constructor; [exact H2|].
    apply Forall_map. eapply Forall_impl; [|exact Ht]. cbv beta. tauto.
  - destruct Hp as [|p t [H1 H2] Ht]; [constructor|]. constructor; [exact H2|]. constructor; [exact H1|].
    apply Forall_map. eapply Forall_impl; [|exact Ht]. cbv beta. tauto.
  - destruct Hp as [|p t [H1 H2] Ht]; [constructor|]. auto.
Qed.

Lemma buf_of_snoc m pend e : pend <> [] ->
  buf_of m (pend ++ [e]) =
  buf_of m pend ++ match m with MOff => [fst e; snd e] | MChar => [snd e] | MAttr => [fst e] | MFull => [] end.
Proof.
  intro Hne. destruct pend as [|p t]; [contradiction|]. destruct m; cbn [buf_of app].
  - change (p :: t ++ [e]) with ((p :: t) ++ [e]). rewrite flat_map_app. cbn [flat_map app]. reflexivity.
  - rewrite map_app. reflexivity.
  - rewrite map_app. reflexivity.
  - reflexivity.
Qed.

Section Compressor.
  Variable o : oracle.
  Variable fonts : list N.
  Variable ic : ice_mode.

  Definition mode_facts (m : comp) (rc : cell) (pend : list (N * N)) : Prop :=
    match m with
    | MOff => True
    | MChar => Forall (fun q => fst q = ch rc) pend
    | MAttr => Forall (fun q => snd q = encode_attr fonts ic rc) pend
    | MFull => Forall (fun q => q = enc fonts ic rc) pend
    end.

  (* the run being assembled: pend = encodings of the cells already taken into it *)
  Definition inv (s : cstate) (pend : list (N * N)) : Prop :=
    run_count s = N.of_nat (length pend) /\ (1 <= length pend <= 64)%nat /\
    run_buf s = buf_of (run_mode s) pend /\ mode_facts (run_mode s) (run_ch s) pend /\
    forallb pair_ok pend = true.

  Lemma mode_facts_valid m rc pend : pend <> [] -> mode_facts m rc pend -> valid_run m pend.
  Proof.
    destruct pend as [|p t]; [contradiction|]. intros _ H. destruct m; cbn [mode_facts valid_run] in *.
    - exact I.
    - inversion H as [|? ? Hp Ht]; subst. eapply Forall_impl; [|exact Ht]. cbv beta. congruence.
    - inversion H as [|? ? Hp Ht]; subst. eapply Forall_impl; [|exact Ht]. cbv beta. congruence.
    - inversion H as [|? ? Hp Ht]; subst. eapply Forall_impl; [|exact Ht]. cbv beta. congruence.
  Qed.

  Lemma enc_pair_ok c : ch c <= 255 -> pair_ok (enc fonts ic c) = true.
  Proof.
    intro H. unfold pair_ok, enc. cbn [fst snd]. apply andb_true_intro. split; apply byte_lt.
    - lia.
    - apply encode_attr_lt.
  Qed.

  Lemma inv_start cur rest : ch cur <= 255 -> inv (start_run fonts ic cur rest) [enc fonts ic cur].
  Proof.
    intro H. unfold inv, start_run. cbn [run_count run_mode run_ch run_buf length].
    split; [reflexivity|]. split; [lia|]. split; [|split].
    - destruct (start_mode cur rest); reflexivity.
    - destruct (start_mode cur rest); cbn [mode_facts]; auto.
    - cbn [forallb]. rewrite enc_pair_ok by assumption. reflexivity.
  Qed.

  (* Rust equality plus equal font page is Leibniz equality of the attribute *)
  Lemma attr_eq_intro a b : attr_eqb a b = true -> fpage a =? fpage b = true -> a = b.
  Proof.
    unfold attr_eqb. intros H Hp. apply andb_prop in H. destruct H as [H H3]. apply andb_prop in H. destruct H as [H1 H2].
    apply N.eqb_eq in H1, H2, H3, Hp. destruct a, b. cbn in *. congruence.
  Qed.

  Lemma end_run_false_facts s cs cur :
    end_run_of o s cs cur = false ->
    run_count s < 64 /\
    match run_mode s with
    | MOff => True
    | MChar => ch cur = ch (run_ch s)
    | MAttr => attr cur = attr (run_ch s)
    | MFull => ch cur = ch (run_ch s) /\ attr cur = attr (run_ch s)
    end.
  Proof.
    unfold end_run_of. pose proof RUN_MAX_le_64 as Hle.
    destruct (RUN_MAX <=? run_count s) eqn:Hmax; [discriminate|]. apply N.leb_gt in Hmax.
    intro H. split; [lia|]. destruct (run_mode s).
    - exact I.
    - destruct (negb (ch cur =? ch (run_ch s)) || negb (page_eqb cur (run_ch s))) eqn:E; [discriminate|].
      apply orb_false_elim in E. destruct E as [E _]. apply negb_false_iff in E. apply N.eqb_eq in E. exact E.
    - destruct (negb (attr_eqb (attr cur) (attr (run_ch s))) || negb (page_eqb cur (run_ch s))) eqn:E; [discriminate|].
      apply orb_false_elim in E. destruct E as [E1 E2]. apply negb_false_iff in E1, E2.
      apply attr_eq_intro; assumption.
    - apply orb_false_elim in H. destruct H as [E1 E2]. apply negb_false_iff in E1, E2.
      unfold cell_eqb in E1. apply andb_prop in E1. destruct E1 as [Ec Ea]. apply N.eqb_eq in Ec.
      split; [exact Ec|]. apply attr_eq_intro; assumption.
  Qed.

  Lemma encode_attr_attr c1 c2 : attr c1 = attr c2 -> encode_attr fonts ic c1 = encode_attr fonts ic c2.
  Proof. unfold encode_attr. intros ->. reflexivity. Qed.

  Lemma inv_push s pend cs cur :
    inv s pend -> end_run_of o s cs cur = false -> ch cur <= 255 ->
    inv (push_cell fonts ic s cur) (pend ++ [enc fonts ic cur]).
  Proof.
    intros (Hc & Hl & Hb & Hm & Hok) He Hch.
    destruct (end_run_false_facts _ _ _ He) as [Hlt Hfacts].
    assert (Hne : pend <> []) by (destruct pend; [cbn in Hl; lia|discriminate]).
    unfold inv, push_cell. cbn [run_count run_mode run_ch run_buf].
    rewrite app_length. cbn [length].
    split; [lia|]. split; [lia|]. split; [|split].
    - rewrite buf_of_snoc by assumption. rewrite Hb. unfold enc. cbn [fst snd].
      destruct (run_mode s); reflexivity.
    - destruct (run_mode s); cbn [mode_facts] in *.
      + exact I.
      + apply Forall_app. split; [exact Hm|]. constructor; [|constructor]. exact Hfacts.
      + apply Forall_app. split; [exact Hm|]. constructor; [|constructor]. cbn [enc snd].
        apply encode_attr_attr. exact Hfacts.
      + apply Forall_app. split; [exact Hm|]. constructor; [|constructor]. unfold enc.
        destruct Hfacts as [Hc1 Ha1]. rewrite Hc1. f_equal. apply encode_attr_attr. exact Ha1.
    - rewrite forallb_app, Hok. cbn [forallb]. rewrite enc_pair_ok by assumption. reflexivity.
  Qed.

  Lemma flush_bytes s pend : inv s pend -> Forall (fun b => b < 256) (flush s).
  Proof.
    intros (Hc & Hl & Hb & Hm & Hok). unfold flush. constructor.
    - destruct (hdr_spec (run_mode s) (run_count s - 1)) as (H1 & _); [lia|]. apply byte_lt in H1. exact H1.
    - rewrite Hb. apply buf_bytes. exact Hok.
  Qed.

  Lemma srow_flush s pend need rest : inv s pend -> (length pend <= need)%nat ->
    srow need (flush s ++ rest) =
    match srow (need - length pend) rest with Some (cs, r) => Some (pend ++ cs, r) | None => None end.
  Proof.
    intros (Hc & Hl & Hb & Hm & Hok) Hn. unfold flush. rewrite Hc, Hb. cbn [app].
    apply srow_run; try assumption; try lia.
    apply mode_facts_valid with (rc := run_ch s); [|exact Hm]. destruct pend; [cbn in Hl; lia|discriminate].
  Qed.

  Lemma crow_cons cur rest s :
    crow o fonts ic (cur :: rest) s =
    let ended := (0 <? run_count s) && end_run_of o s (cur :: rest) cur in
    if 255 <? ch cur then ErrOnly8Bit
    else
      let s' := if (0 <? run_count s) && negb ended then push_cell fonts ic s cur
                else start_run fonts ic cur rest in
      match crow o fonts ic rest s' with
      | Ok bs => Ok (if ended then flush s ++ bs else bs)
      | ErrOnly8Bit => ErrOnly8Bit
      end.
  Proof. reflexivity. Qed.

  Lemma crow_sound : forall cs s pend bs,
    crow o fonts ic cs s = Ok bs ->
    (run_count s = 0 /\ pend = [] \/ inv s pend) ->
    Forall (fun b => b < 256) bs /\
    forall tail, srow (length pend + length cs) (bs ++ tail) = Some (pend ++ map (enc fonts ic) cs, tail).
  Proof.
    induction cs as [|cur rest IH]; intros s pend bs H Hs.
    - cbn [crow] in H. inversion H; subst bs; clear H. destruct Hs as [[Hc ->]|Hinv].
      + rewrite Hc. cbn [N.ltb N.compare]. split; [constructor|]. intro tail. reflexivity.
      + pose proof Hinv as (Hc & Hl & _).
        replace (0 <? run_count s) with true by (symmetry; apply N.ltb_lt; lia).
        split; [eapply flush_bytes; eassumption|]. intro tail.
        rewrite (srow_flush _ _ _ _ Hinv) by (cbn [length]; lia).
        replace (length pend + length (@nil cell) - length pend)%nat with O by (cbn [length]; lia).
        unfold srow. rewrite spec_cells_0. reflexivity.
    - rewrite crow_cons in H. cbv zeta in H.
      destruct (255 <? ch cur) eqn:Hch; [discriminate|]. apply N.ltb_ge in Hch.
      destruct Hs as [[Hc ->]|Hinv].
      + (* first cell of the row *)
        rewrite Hc in H. cbn [N.ltb N.compare andb negb] in H.
        destruct (crow o fonts ic rest (start_run fonts ic cur rest)) as [bs'|] eqn:Hrec; [|discriminate].
        inversion H; subst bs; clear H.
        destruct (IH _ [enc fonts ic cur] _ Hrec) as [Hby Hdec]; [right; apply inv_start; exact Hch|].
        split; [exact Hby|]. intro tail. cbn [length app map Nat.add]. exact (Hdec tail).
      + pose proof Hinv as (Hc & Hl & _).
        replace (0 <? run_count s) with true in H by (symmetry; apply N.ltb_lt; lia).
        cbn [andb] in H.
        destruct (end_run_of o s (cur :: rest) cur) eqn:He; cbn [negb] in H.
        * (* the run ends before this cell *)
          destruct (crow o fonts ic rest (start_run fonts ic cur rest)) as [bs'|] eqn:Hrec; [|discriminate].
          inversion H; subst bs; clear H.
          destruct (IH _ [enc fonts ic cur] _ Hrec) as [Hby Hdec]; [right; apply inv_start; exact Hch|].
          change (N.lor (comp_byte (run_mode s)) (run_count s - 1) :: run_buf s ++ bs') with (flush s ++ bs').
          split; [apply Forall_app; split; [eapply flush_bytes; eassumption|exact Hby]|].
          intro tail. rewrite <- app_assoc.
          rewrite (srow_flush _ _ _ _ Hinv) by lia.
          replace (length pend + length (cur :: rest) - length pend)%nat with (length [enc fonts ic cur] + length rest)%nat
            by (cbn [length]; lia).
          rewrite Hdec. reflexivity.
        * (* the cell joins the run *)
          destruct (crow o fonts ic rest (push_cell fonts ic s cur)) as [bs'|] eqn:Hrec; [|discriminate].
          inversion H; subst bs; clear H.
          destruct (IH _ (pend ++ [enc fonts ic cur]) _ Hrec) as [Hby Hdec]; [right; eapply inv_push; eassumption|].
          split; [exact Hby|]. intro tail. specialize (Hdec tail).
          rewrite app_length in Hdec. cbn [length map] in *.
          replace (length pend + S (length rest))%nat with (length pend + 1 + length rest)%nat by lia.
          rewrite Hdec. rewrite <- app_assoc. reflexivity.
  Qed.
End Compressor.

(* ------------------------------------------------------------------------------------------------------------ *)
(* 4. whole images                                                                                                  *)

Lemma compress_with_sound_gen o fonts ic w : forall rows cb,
  Forall (fun r => length r = w) rows -> compress_with o fonts ic rows = Ok cb ->
  Forall (fun b => b < 256) cb /\
  forall tail, xb_spec_rows w (length rows) (cb ++ tail) = Some (map (map (enc fonts ic)) rows, tail).
Proof.
  induction rows as [|r rs IH]; intros cb Hw H.
  - cbn [compress_with] in H. inversion H; subst. split; [constructor|]. intro tail. reflexivity.
  - cbn [compress_with] in H.
    destruct (crow o fonts ic r init_state) as [b|] eqn:Hr; [|discriminate].
    destruct (compress_with o fonts ic rs) as [bs|] eqn:Hrs; [|discriminate].
    inversion H; subst cb; clear H. inversion Hw as [|? ? Hlen Hw']; subst.
    destruct (crow_sound o fonts ic r init_state [] b Hr) as [Hb1 Hd1]; [left; split; reflexivity|].
    destruct (IH bs Hw' eq_refl) as [Hb2 Hd2].
    split; [apply Forall_app; split; assumption|]. intro tail.
    cbn [length xb_spec_rows map]. unfold xb_spec_row. rewrite <- app_assoc.
    specialize (Hd1 (bs ++ tail)). cbn [length Nat.add app] in Hd1. unfold srow in Hd1. rewrite Hd1.
    rewrite Hd2. reflexivity.
Qed.

Definition all8 (cs : list cell) : bool := forallb (fun c => negb (255 <? ch c)) cs.

Lemma crow_ok_iff o fonts ic : forall cs s, (exists bs, crow o fonts ic cs s = Ok bs) <-> all8 cs = true.
Proof.
  induction cs as [|cur rest IH]; intro s.
  - cbn [crow all8 forallb]. split; [reflexivity|]. intros _. eexists. reflexivity.
  - rewrite crow_cons. cbv zeta. cbn [all8 forallb].
    destruct (255 <? ch cur); cbn [negb andb].
    + split; [intros [bs H]; discriminate|discriminate].
    + fold (all8 rest). rewrite <- (IH (if (0 <? run_count s) && negb ((0 <? run_count s) && end_run_of o s (cur :: rest) cur)
                                         then push_cell fonts ic s cur else start_run fonts ic cur rest)).
      destruct (crow o fonts ic rest _) as [bs'|].
      * split; intros _; eexists; reflexivity.
      * split; intros [bs H]; discriminate.
Qed.

Lemma plain_cells_ok_iff fonts ic : forall cs, (exists bs, plain_cells fonts ic cs = Ok bs) <-> all8 cs = true.
Proof.
  induction cs as [|c t IH].
  - cbn [plain_cells all8 forallb]. split; [reflexivity|]. intros _. eexists. reflexivity.
  - cbn [plain_cells all8 forallb]. destruct (255 <? ch c); cbn [negb andb].
    + split; [intros [bs H]; discriminate|discriminate].
    + fold (all8 t). rewrite <- IH. destruct (plain_cells fonts ic t) as [bs'|].
      * split; intros _; eexists; reflexivity.
      * split; intros [bs H]; discriminate.
Qed.

Lemma compress_with_ok_iff o fonts ic : forall rows,
  (exists cb, compress_with o fonts ic rows = Ok cb) <-> all8 (concat rows) = true.
Proof.
  induction rows as [|r rs IH].
  - cbn. split; [reflexivity|]. intros _. eexists. reflexivity.
  - cbn [compress_with concat]. unfold all8 in *. rewrite forallb_app.
    pose proof (crow_ok_iff o fonts ic r init_state) as Hr. unfold all8 in Hr.
    destruct (crow o fonts ic r init_state) as [b|].
    + assert (H1 : forallb (fun c => negb (255 <? ch c)) r = true) by (apply Hr; eexists; reflexivity).
      rewrite H1. cbn [andb]. rewrite <- IH.
      destruct (compress_with o fonts ic rs) as [bs|].
      * split; intros _; eexists; reflexivity.
      * split; intros [x H]; discriminate.
    + destruct (forallb (fun c => negb (255 <? ch c)) r) eqn:E.
      * destruct Hr as [_ Hr]. destruct (Hr eq_refl) as [x Hx]. discriminate.
      * cbn [andb]. split; [intros [x H]; discriminate|discriminate].
Qed.

Lemma res_err_iff {A} (x : res A) : x = ErrOnly8Bit <-> ~ exists a, x = Ok a.
Proof.
  destruct x as [a|]; split.
  - discriminate.
  - intro H. exfalso. apply H. exists a. reflexivity.
  - intros _ [a H]. discriminate.
  - reflexivity.
Qed.

Lemma compress_fails_iff_plain_fails_proof : forall o fonts ic rows,
  compress_with o fonts ic rows = ErrOnly8Bit <-> plain_rows fonts ic rows = ErrOnly8Bit.
Proof.
  intros. rewrite !res_err_iff. unfold plain_rows. rewrite compress_with_ok_iff, plain_cells_ok_iff. reflexivity.
Qed.

(* ------------------------------------------------------------------------------------------------------------ *)
(* 5. the Rust readers                                                                                              *)

Section ReaderProofs.
  Variable il : ice_mode.
  Variable fixed : bool.
  Variable width : Z.

  (* set_char calls that store the given (character, attribute) pairs from position p on *)
  Fixpoint trace (p : Z * Z) (cells : list (N * N)) : list wr :=
    match cells with
    | [] => []
    | q :: t => put il fixed p (fst q) (snd q) :: trace (advance width p) t
    end.
  Fixpoint advn (p : Z * Z) (n : nat) : Z * Z :=
    match n with O => p | S k => advn (advance width p) k end.

  Lemma advn_add p a b : advn p (a + b) = advn (advn p a) b.
  Proof. revert p. induction a as [|a IH]; intro p; [reflexivity|]. cbn [Nat.add advn]. apply IH. Qed.

  Lemma trace_app p a b : trace p (a ++ b) = trace p a ++ trace (advn p (length a)) b.
  Proof.
    revert p. induction a as [|q a IH]; intro p; [reflexivity|].
    cbn [app trace length advn]. rewrite IH. reflexivity.
  Qed.

  Lemma rd_off_len : forall n p bs ws p' r, rd_off il fixed width n p bs = (ws, p', r) -> (length r <= length bs)%nat.
  Proof.
    induction n as [|n IH]; intros p bs ws p' r H.
    - cbn [rd_off] in H. inversion H; subst. lia.
    - cbn [rd_off] in H. destruct bs as [|c [|a t]]; try (inversion H; subst; lia).
      destruct (rd_off il fixed width n (advance width p) t) as [[ws1 p1] r1] eqn:E.
      inversion H; subst. apply IH in E. cbn [length]. lia.
  Qed.
  Lemma rd_char_len code : forall n p bs ws p' r, rd_char il fixed width code n p bs = (ws, p', r) -> (length r <= length bs)%nat.
  Proof.
    induction n as [|n IH]; intros p bs ws p' r H.
    - cbn [rd_char] in H. inversion H; subst. lia.
    - cbn [rd_char] in H. destruct bs as [|a t]; try (inversion H; subst; lia).
      destruct (rd_char il fixed width code n (advance width p) t) as [[ws1 p1] r1] eqn:E.
      inversion H; subst. apply IH in E. cbn [length]. lia.
  Qed.
  Lemma rd_attr_len a : forall n p bs ws p' r, rd_attr il fixed width a n p bs = (ws, p', r) -> (length r <= length bs)%nat.
  Proof.
    induction n as [|n IH]; intros p bs ws p' r H.
    - cbn [rd_attr] in H. inversion H; subst. lia.
    - cbn [rd_attr] in H. destruct bs as [|c t]; try (inversion H; subst; lia).
      destruct (rd_attr il fixed width a n (advance width p) t) as [[ws1 p1] r1] eqn:E.
      inversion H; subst. apply IH in E. cbn [length]. lia.
  Qed.

  Lemma rdc_S f p h t :
    rdc il fixed width (S f) p (h :: t) =
    let n := N.to_nat (N.land h COUNT_MASK + COUNT_BIAS) in
    match reader_type h with
    | Some MOff =>
        let '(ws, p', r) := rd_off il fixed width n p t in
        let '(ws2, oc) := rdc il fixed width f p' r in (ws ++ ws2, oc)
    | Some MChar =>
        match t with
        | [] => ([], ROk)
        | code :: t' =>
            let '(ws, p', r) := rd_char il fixed width code n p t' in
            let '(ws2, oc) := rdc il fixed width f p' r in (ws ++ ws2, oc)
        end
    | Some MAttr =>
        match t with
        | [] => ([], ROk)
        | a :: t' =>
            let '(ws, p', r) := rd_attr il fixed width a n p t' in
            let '(ws2, oc) := rdc il fixed width f p' r in (ws ++ ws2, oc)
        end
    | Some MFull =>
        match t with
        | [] => ([], ROk)
        | [_] => ([], ROk)
        | code :: a :: r =>
            let '(ws, p') := rd_full il fixed width code a n p in
            let '(ws2, oc) := rdc il fixed width f p' r in (ws ++ ws2, oc)
        end
    | None => ([], RPanicTransmute)
    end.
  Proof.
    cbn [rdc]. unfold reader_type.
    destruct (N.land h TYPE_MASK =? COMP_OFF); [reflexivity|].
    destruct (N.land h TYPE_MASK =? COMP_CHAR); [reflexivity|].
    destruct (N.land h TYPE_MASK =? COMP_ATTR); [reflexivity|].
    destruct (N.land h TYPE_MASK =? COMP_FULL); reflexivity.
  Qed.

  (* the fuel given by read_data_compressed (the number of bytes) is never exhausted *)
  Lemma rdc_fuel : forall f1 f2 p bs, (length bs <= f1)%nat -> (length bs <= f2)%nat ->
    rdc il fixed width f1 p bs = rdc il fixed width f2 p bs.
  Proof.
    induction f1 as [|f1 IH]; intros f2 p bs H1 H2.
    - destruct bs; [|cbn [length] in H1; lia]. destruct f2; reflexivity.
    - destruct bs as [|h t]; [destruct f2; reflexivity|].
      destruct f2 as [|f2]; [cbn [length] in H2; lia|]. cbn [length] in H1, H2.
      rewrite !rdc_S. cbv zeta. generalize (N.to_nat (N.land h COUNT_MASK + COUNT_BIAS)). intro n.
      destruct (reader_type h) as [[| | |]|]; try reflexivity.
      + destruct (rd_off il fixed width n p t) as [[ws p'] r] eqn:E. apply rd_off_len in E.
        rewrite (IH f2 p' r) by lia. reflexivity.
      + destruct t as [|code t']; [reflexivity|].
        destruct (rd_char il fixed width code n p t') as [[ws p'] r] eqn:E. apply rd_char_len in E.
        cbn [length] in H1, H2. rewrite (IH f2 p' r) by lia. reflexivity.
      + destruct t as [|a t']; [reflexivity|].
        destruct (rd_attr il fixed width a n p t') as [[ws p'] r] eqn:E. apply rd_attr_len in E.
        cbn [length] in H1, H2. rewrite (IH f2 p' r) by lia. reflexivity.
      + destruct t as [|code [|a r]]; try reflexivity.
        destruct (rd_full il fixed width code a n p) as [ws p'].
        cbn [length] in H1, H2. rewrite (IH f2 p' r) by lia. reflexivity.
  Qed.

  Lemma rd_off_take : forall n p bs ps r, take_pairs n bs = Some (ps, r) ->
    rd_off il fixed width n p bs = (trace p ps, advn p n, r) /\ length ps = n /\ (length r <= length bs)%nat.
  Proof.
    induction n as [|n IH]; intros p bs ps r H.
    - cbn [take_pairs] in H. inversion H; subst. cbn. auto.
    - cbn [take_pairs] in H. destruct bs as [|c [|a t]]; try discriminate.
      destruct (take_pairs n t) as [[ps1 r1]|] eqn:E; [|discriminate]. inversion H; subst.
      destruct (IH (advance width p) _ _ _ E) as (H1 & H2 & H3).
      cbn [rd_off]. rewrite H1. cbn [trace fst snd advn length]. split; [reflexivity|]. split; lia.
  Qed.

  Lemma rd_char_take code : forall n p bs xs r, take_bytes n bs = Some (xs, r) ->
    rd_char il fixed width code n p bs = (trace p (map (fun a => (code, a)) xs), advn p n, r)
    /\ length xs = n /\ (length r <= length bs)%nat.
  Proof.
    induction n as [|n IH]; intros p bs xs r H.
    - cbn [take_bytes] in H. inversion H; subst. cbn. auto.
    - cbn [take_bytes] in H. destruct bs as [|a t]; try discriminate.
      destruct (take_bytes n t) as [[xs1 r1]|] eqn:E; [|discriminate]. inversion H; subst.
      destruct (IH (advance width p) _ _ _ E) as (H1 & H2 & H3).
      cbn [rd_char]. rewrite H1. cbn [map trace fst snd advn length]. split; [reflexivity|]. split; lia.
  Qed.

  Lemma rd_attr_take a : forall n p bs xs r, take_bytes n bs = Some (xs, r) ->
    rd_attr il fixed width a n p bs = (trace p (map (fun c => (c, a)) xs), advn p n, r)
    /\ length xs = n /\ (length r <= length bs)%nat.
  Proof.
    induction n as [|n IH]; intros p bs xs r H.
    - cbn [take_bytes] in H. inversion H; subst. cbn. auto.
    - cbn [take_bytes] in H. destruct bs as [|c t]; try discriminate.
      destruct (take_bytes n t) as [[xs1 r1]|] eqn:E; [|discriminate]. inversion H; subst.
      destruct (IH (advance width p) _ _ _ E) as (H1 & H2 & H3).
      cbn [rd_attr]. rewrite H1. cbn [map trace fst snd advn length]. split; [reflexivity|]. split; lia.
  Qed.

  Lemma rd_full_rep code a : forall n p, rd_full il fixed width code a n p = (trace p (repeat (code, a) n), advn p n).
  Proof.
    induction n as [|n IH]; intro p; [reflexivity|].
    cbn [rd_full]. rewrite IH. reflexivity.
  Qed.

  (* on a stream the specification decoder accepts, the Rust reader stores exactly the decoded cells *)
  Lemma reader_spec_cells : forall f need bs cells rest p,
    spec_cells f need bs = Some (cells, rest) ->
    (length rest <= length bs)%nat /\
    rdc il fixed width (length bs) p bs =
    let '(ws2, oc) := rdc il fixed width (length rest) (advn p (length cells)) rest in (trace p cells ++ ws2, oc).
  Proof.
    induction f as [|f IH]; intros need bs cells rest p H.
    - destruct need; [|discriminate]. cbn [spec_cells] in H. inversion H; subst.
      split; [lia|]. cbn [length advn trace app]. destruct (rdc il fixed width (length rest) p rest). reflexivity.
    - destruct need as [|need'].
      { cbn [spec_cells] in H. inversion H; subst.
        split; [lia|]. cbn [length advn trace app]. destruct (rdc il fixed width (length rest) p rest). reflexivity. }
      destruct bs as [|h t]; [discriminate|].
      rewrite spec_cells_S in H. destruct (is_byte h) eqn:Hb; [|discriminate]. cbv zeta in H.
      destruct (header_spec h Hb) as (Hn & m & Hrt & Hty).
      destruct (S need' <? S (N.to_nat (h mod 64)))%nat; [discriminate|].
      destruct (spec_run (h / 64) (S (N.to_nat (h mod 64))) t) as [[c1 t']|] eqn:Hrun; [|discriminate].
      destruct (forallb pair_ok c1); [|discriminate].
      destruct (spec_cells f (S need' - S (N.to_nat (h mod 64))) t') as [[cs r]|] eqn:Hrec; [|discriminate].
      inversion H; subst cells rest; clear H.
      cbn [length]. rewrite rdc_S. cbv zeta. rewrite Hrt, Hn. rewrite <- Hty in Hrun.
      set (n := S (N.to_nat (h mod 64))) in *. clearbody n.
      rewrite app_length, advn_add, trace_app.
      destruct m; cbn [tyidx] in Hrun; unfold spec_run in Hrun.
      + destruct (rd_off_take n p t c1 t' Hrun) as (E & Hl & Hlen). rewrite E.
        destruct (IH _ _ _ _ (advn p n) Hrec) as (Hlen2 & IHr).
        rewrite (rdc_fuel (length t) (length t')) by lia. rewrite IHr, Hl.
        split; [lia|]. destruct (rdc il fixed width (length r) (advn (advn p n) (length cs)) r).
        rewrite app_assoc. reflexivity.
      + destruct t as [|code t1]; [discriminate|].
        destruct (take_bytes n t1) as [[xs r1]|] eqn:Et; [|discriminate]. inversion Hrun; subst c1 t'; clear Hrun.
        destruct (rd_char_take code n p t1 xs r1 Et) as (E & Hl & Hlen). rewrite E.
        destruct (IH _ _ _ _ (advn p n) Hrec) as (Hlen2 & IHr).
        cbn [length]. rewrite (rdc_fuel (S (length t1)) (length r1)) by lia. rewrite IHr, map_length, Hl.
        split; [lia|]. destruct (rdc il fixed width (length r) (advn (advn p n) (length cs)) r).
        rewrite app_assoc. reflexivity.
      + destruct t as [|a t1]; [discriminate|].
        destruct (take_bytes n t1) as [[xs r1]|] eqn:Et; [|discriminate]. inversion Hrun; subst c1 t'; clear Hrun.
        destruct (rd_attr_take a n p t1 xs r1 Et) as (E & Hl & Hlen). rewrite E.
        destruct (IH _ _ _ _ (advn p n) Hrec) as (Hlen2 & IHr).
        cbn [length]. rewrite (rdc_fuel (S (length t1)) (length r1)) by lia. rewrite IHr, map_length, Hl.
        split; [lia|]. destruct (rdc il fixed width (length r) (advn (advn p n) (length cs)) r).
        rewrite app_assoc. reflexivity.
      + destruct t as [|code [|a r1]]; try discriminate. inversion Hrun; subst c1 t'; clear Hrun.
        rewrite rd_full_rep.
        destruct (IH _ _ _ _ (advn p n) Hrec) as (Hlen2 & IHr).
        cbn [length]. rewrite (rdc_fuel (S (S (length r1))) (length r1)) by lia. rewrite IHr, repeat_length.
        split; [cbn [length] in *; lia|]. destruct (rdc il fixed width (length r) (advn (advn p n) (length cs)) r).
        rewrite app_assoc. reflexivity.
  Qed.

  Lemma reader_spec_rows w : forall h bs rows rest p,
    xb_spec_rows w h bs = Some (rows, rest) ->
    (length rest <= length bs)%nat /\
    rdc il fixed width (length bs) p bs =
    let '(ws2, oc) := rdc il fixed width (length rest) (advn p (length (concat rows))) rest in
    (trace p (concat rows) ++ ws2, oc).
  Proof.
    induction h as [|h IH]; intros bs rows rest p H.
    - cbn [xb_spec_rows] in H. inversion H; subst. split; [lia|].
      cbn [concat length advn trace app]. destruct (rdc il fixed width (length rest) p rest). reflexivity.
    - cbn [xb_spec_rows] in H. unfold xb_spec_row in H.
      destruct (spec_cells w w bs) as [[r1 rest1]|] eqn:E1; [|discriminate].
      destruct (xb_spec_rows w h rest1) as [[rs rest2]|] eqn:E2; [|discriminate].
      inversion H; subst rows rest; clear H.
      destruct (reader_spec_cells _ _ _ _ _ p E1) as (L1 & R1).
      destruct (IH _ _ _ (advn p (length r1)) E2) as (L2 & R2).
      split; [lia|]. rewrite R1, R2. cbn [concat]. rewrite app_length, advn_add, trace_app.
      destruct (rdc il fixed width (length rest2) (advn (advn p (length r1)) (length (concat rs))) rest2).
      rewrite app_assoc. reflexivity.
  Qed.

  Lemma reader_refines_spec_proof : forall w h bs rows,
    xb_spec_rows w h bs = Some (rows, []) ->
    read_data_compressed il fixed width bs = (trace (0%Z, 0%Z) (concat rows), ROk).
  Proof.
    intros w h bs rows H. unfold read_data_compressed.
    destruct (reader_spec_rows w h bs rows [] (0%Z, 0%Z) H) as [_ R]. rewrite R.
    cbn [length rdc]. rewrite app_nil_r. reflexivity.
  Qed.

  Lemma plain_trace fonts ic : forall cs pb p,
    plain_cells fonts ic cs = Ok pb -> rdu il fixed width p pb = trace p (map (enc fonts ic) cs).
  Proof.
    induction cs as [|c t IH]; intros pb p H.
    - cbn [plain_cells] in H. inversion H; subst. reflexivity.
    - cbn [plain_cells] in H. destruct (255 <? ch c); [discriminate|].
      destruct (plain_cells fonts ic t) as [bs|] eqn:E; [|discriminate]. inversion H; subst.
      cbn [rdu map trace enc fst snd]. rewrite (IH bs _ eq_refl). reflexivity.
  Qed.

  Lemma impl_decoder_agrees_with_proof : forall o fonts ic w rows cb pb,
    Forall (fun r => length r = w) rows ->
    compress_with o fonts ic rows = Ok cb -> plain_rows fonts ic rows = Ok pb ->
    read_data_compressed il fixed width cb = (read_data_uncompressed il fixed width pb, ROk).
  Proof.
    intros o fonts ic w rows cb pb Hw Hc Hp.
    destruct (compress_with_sound_gen o fonts ic w rows cb Hw Hc) as [_ Hd].
    specialize (Hd []). rewrite app_nil_r in Hd.
    rewrite (reader_refines_spec_proof _ _ _ _ Hd).
    unfold read_data_uncompressed, plain_rows in *.
    rewrite (plain_trace fonts ic _ _ _ Hp). rewrite concat_map. reflexivity.
  Qed.
End ReaderProofs.

(* ------------------------------------------------------------------------------------------------------------ *)
(* 6. count_length never overflows its u8 run counter                                                              *)

Lemma RUN_MAX_CL_le_254 : RUN_MAX_CL <= 254.
Proof. vm_compute. discriminate. Qed.

Lemma count_length_cons m rc er cnt cur rest acc ovf :
  count_length m rc er cnt (cur :: rest) acc ovf =
  let ended := (0 <? cnt) && match cl_end_run m rc er cnt cur rest with Some true => true | _ => false end in
  let acc1 := if ended then acc + 1 else acc in
  let cnt1 := if ended then 0 else cnt in
  let go := 0 <? cnt1 in
  count_length (if go then m else start_mode cur rest) (if go then rc else cur) None (cnt1 + 1) rest
    (if go then match m with MOff => acc1 + 2 | MChar | MAttr => acc1 + 1 | MFull => acc1 end else acc1 + 2)
    (ovf || (255 <? cnt1 + 1)).
Proof. reflexivity. Qed.

Lemma cl_no_ovf_none : forall cs m rc cnt acc, cnt <= 255 ->
  snd (count_length m rc None cnt cs acc false) = false.
Proof.
  induction cs as [|cur rest IH]; intros m rc cnt acc Hc; [reflexivity|].
  rewrite count_length_cons. cbv zeta.
  set (e := (0 <? cnt) && match cl_end_run m rc None cnt cur rest with Some true => true | _ => false end).
  pose proof RUN_MAX_CL_le_254 as Hle.
  assert (He : RUN_MAX_CL <= cnt -> 0 < cnt -> e = true).
  { intros H H0. unfold e, cl_end_run.
    replace (RUN_MAX_CL <=? cnt) with true by (symmetry; apply N.leb_le; exact H).
    replace (0 <? cnt) with true by (symmetry; apply N.ltb_lt; lia). reflexivity. }
  assert (Hn : (if e then 0 else cnt) + 1 <= 255).
  { destruct e; [lia|]. destruct (N.le_gt_cases RUN_MAX_CL cnt) as [H|H]; [|lia].
    destruct (N.eq_dec cnt 0) as [->|Hz]; [lia|]. assert (H0 : 0 < cnt) by lia.
    specialize (He H H0). discriminate. }
  replace (255 <? (if e then 0 else cnt) + 1) with false by (symmetry; apply N.ltb_ge; lia).
  cbn [orb]. apply IH. lia.
Qed.

Lemma count_length_no_overflow_proof : forall m rc er cnt cs acc, cnt <= 254 ->
  snd (count_length m rc er cnt cs acc false) = false.
Proof.
  intros m rc er cnt cs acc Hc. destruct cs as [|cur rest]; [reflexivity|].
  rewrite count_length_cons. cbv zeta.
  set (e := (0 <? cnt) && match cl_end_run m rc er cnt cur rest with Some true => true | _ => false end).
  assert (Hn : (if e then 0 else cnt) + 1 <= 255) by (destruct e; lia).
  replace (255 <? (if e then 0 else cnt) + 1) with false by (symmetry; apply N.ltb_ge; lia).
  cbn [orb]. apply cl_no_ovf_none. exact Hn.
Qed.

(* run lengths of one compressed row *)
Lemma compress_row_runs_proof : forall o fonts ic r b,
  crow o fonts ic r init_state = Ok b ->
  Forall (fun l => 1 <= l <= 64) (spec_run_lengths (length r) (length r) b) /\
  fold_right N.add 0 (spec_run_lengths (length r) (length r) b) = N.of_nat (length r).
Proof.
  intros o fonts ic r b H.
  destruct (crow_sound o fonts ic r init_state [] b H) as [_ Hd]; [left; split; reflexivity|].
  specialize (Hd []). rewrite app_nil_r in Hd. cbn [length Nat.add] in Hd. unfold srow in Hd.
  eapply spec_run_lengths_ok. exact Hd.
Qed.

(* ------------------------------------------------------------------------------------------------------------ *)
(* 7. statements in the form Props/C06.v exports                                                                   *)

Lemma compress_with_sound_proof : forall o fonts ic w rows cb,
  Forall (fun r => length r = w) rows -> compress_with o fonts ic rows = Ok cb ->
  xb_spec_rows w (length rows) cb = Some (map (map (enc fonts ic)) rows, []).
Proof.
  intros o fonts ic w rows cb Hw H.
  destruct (compress_with_sound_gen o fonts ic w rows cb Hw H) as [_ Hd].
  specialize (Hd []). rewrite app_nil_r in Hd. exact Hd.
Qed.

Lemma compress_output_is_bytes_proof : forall o fonts ic w rows cb,
  Forall (fun r => length r = w) rows -> compress_with o fonts ic rows = Ok cb -> Forall (fun b => b < 256) cb.
Proof. intros o fonts ic w rows cb Hw H. exact (proj1 (compress_with_sound_gen o fonts ic w rows cb Hw H)). Qed.

(* the compressor as pinned, before the fix, on pages 0000 1111: one run of eight, every cell loads with page 0 *)
Lemma legacy_refuted :
  exists cb pb, legacy_crow bt_oracle [0; 1] Ice row_0000_1111 init_state = Ok cb /\
                plain_rows [0; 1] Ice [row_0000_1111] = Ok pb /\
                read_data_compressed Ice true 8 cb <> (read_data_uncompressed Ice true 8 pb, ROk).
Proof.
  exists [199; 65; 7]. exists [65; 7; 65; 7; 65; 7; 65; 7; 65; 15; 65; 15; 65; 15; 65; 15].
  split; [vm_compute; reflexivity|]. split; [vm_compute; reflexivity|].
  vm_compute. intro H. discriminate H.
Qed.

(* ------------------------------------------------------------------------------------------------------------ *)
(* 8. where the reader puts the cells: the i-th set_char goes to column i mod width, line i / width                *)
Local Open Scope Z_scope.

Lemma advn_closed w : (1 <= w) -> forall n, advn w (0, 0) n = (Z.of_nat n mod w, Z.of_nat n / w).
Proof.
  intros Hw. 
  assert (G : forall n p k, 0 <= k -> p = (k mod w, k / w) -> advn w p n = ((k + Z.of_nat n) mod w, (k + Z.of_nat n) / w)).
  { induction n as [|n IH]; intros p k Hk ->.
    - cbn [advn]. rewrite Z.add_0_r. reflexivity.
    - cbn [advn]. rewrite (IH _ (k + 1)); [| lia |].
      + f_equal; f_equal; lia.
      + unfold advance. cbn [fst snd].
        pose proof (Z.mod_pos_bound k w ltac:(lia)) as Hb.
        destruct (k mod w + 1 >=? w) eqn:E.
        * apply Z.geb_le in E. assert (Hm : k mod w = w - 1) by lia.
          pose proof (Z.div_mod k w ltac:(lia)) as Hd.
          assert (k + 1 = w * (k / w + 1) + 0) by lia.
          f_equal.
          -- apply (Z.mod_unique_pos _ _ (k / w + 1) 0); lia.
          -- apply (Z.div_unique_pos _ _ (k / w + 1) 0); lia.
        * rewrite Z.geb_leb in E. apply Z.leb_gt in E.
          pose proof (Z.div_mod k w ltac:(lia)) as Hd.
          f_equal.
          -- apply (Z.mod_unique_pos _ _ (k / w) (k mod w + 1)); lia.
          -- apply (Z.div_unique_pos _ _ (k / w) (k mod w + 1)); lia. }
  intro n. rewrite (G n (0,0) 0); [reflexivity|lia|]. rewrite Z.mod_0_l, Z.div_0_l by lia. reflexivity.
Qed.

Lemma trace_nth il fixed w : forall cells p i q, nth_error cells i = Some q ->
  nth_error (trace il fixed w p cells) i = Some (put il fixed (advn w p i) (fst q) (snd q)).
Proof.
  induction cells as [|c t IH]; intros p i q H; [destruct i; discriminate|].
  destruct i as [|i]; cbn [nth_error trace advn] in *.
  - inversion H; subst. reflexivity.
  - apply IH. exact H.
Qed.

Lemma compressed_load_positions_proof : forall il fixed o fonts ic w rows cb,
  Forall (fun r => length r = w) rows -> (1 <= w)%nat -> compress_with o fonts ic rows = Ok cb ->
  snd (read_data_compressed il fixed (Z.of_nat w) cb) = ROk /\
  forall i c, nth_error (concat rows) i = Some c ->
    nth_error (fst (read_data_compressed il fixed (Z.of_nat w) cb)) i =
    Some (mkwr (Z.of_nat i mod Z.of_nat w) (Z.of_nat i / Z.of_nat w) (decode_char il fixed (ch c) (encode_attr fonts ic c))).
Proof.
  intros il fixed o fonts ic w rows cb Hw H1 Hc.
  pose proof (compress_with_sound_proof o fonts ic w rows cb Hw Hc) as Hd.
  rewrite (reader_refines_spec_proof il fixed (Z.of_nat w) _ _ _ _ Hd). cbn [fst snd]. split; [reflexivity|].
  intros i c Hi. rewrite <- concat_map.
  rewrite (trace_nth il fixed (Z.of_nat w) _ (0, 0) i (enc fonts ic c)).
  - rewrite advn_closed by lia. reflexivity.
  - rewrite nth_error_map, Hi. reflexivity.
Qed.
