(* C04 layer 2, part 3: the layout.  generate_cells / emit_row / emit_rows against the parser's cursor, auto-wrap and
   line bookkeeping, on top of the rendition refinement (AnsiSgrProofs), the command semantics (AnsiBytesProofs) and
   the screen lemmas (AnsiScreenProofs). *)
From Coq Require Import NArith ZArith Bool List Lia.
From IE Require Import Lib.Tbl Lib.C04Lib Gen.Codepage Gen.AnsiConsts Model.Attr Model.AnsiWriter Model.AnsiParser
  Proofs.AnsiPalProofs Proofs.AnsiSgrProofs Proofs.AnsiScreenProofs Proofs.AnsiBytesProofs.
Import ListNotations.
Local Open Scope N_scope.

(* ---------------------------------------------------------------- writer-side facts *)
Lemma orb_false_self b : b || false = b.
Proof. apply orb_false_r. Qed.

Lemma app_nil_both {A} (l1 l2 : list A) : l1 ++ l2 = [] -> l1 = [] /\ l2 = [].
Proof. apply app_eq_nil. Qed.

(* nothing emitted => the writer's state did not change *)
Lemma get_color_silent ice bpal ext a w :
  snd (fst (get_color ice bpal ext a w)) = [] -> snd (get_color ice bpal ext a w) = [] ->
  fst (fst (get_color ice bpal ext a w)) = w.
Proof.
  unfold get_color. set (t := gc_target ice bpal a).
  destruct (gc_reset t w) as [s1 l1] eqn:E1.
  destruct (gc_flags t s1) as [s2 l2] eqn:E2.
  destruct (gc_fg ext t s2) as [[s3 l3] c3] eqn:E3.
  destruct (gc_bg ext t s3) as [[s4 l4] c4] eqn:E4.
  cbn [fst snd]. intros HS HT.
  apply app_eq_nil in HS as [H1 HS]. apply app_eq_nil in HS as [H2 HS]. apply app_eq_nil in HS as [H3 H4].
  apply app_eq_nil in HT as [T3 T4]. subst.
  (* reset *)
  unfold gc_reset in E1. destruct (needs_reset t w); [discriminate|]. inversion E1; subst s1. clear E1.
  (* flags *)
  unfold gc_flags in E2. inversion E2 as [[ES EL]]. clear E2.
  repeat match type of EL with
  | (if ?b then _ else _) ++ _ = [] => destruct b eqn:?; [discriminate|]; cbn [app] in EL
  | (if ?b then _ else _) = [] => destruct b eqn:?; [discriminate|]
  end.
  assert (S2 : s2 = w).
  { rewrite <- ES. destruct w as [b1 b2 b3 b4 b5 b6 b7 b8 fi f bi b]. cbn [st_bold st_blink st_faint st_italic st_ul st_dul st_crossed st_concealed st_fg_idx st_fg st_bg_idx st_bg andb].
    rewrite !orb_false_r. reflexivity. }
  clear ES. rewrite S2 in E3. clear S2 s2.
  (* colours *)
  unfold gc_fg in E3. destruct (rgb_eqb (tg_fore t) (st_fg w)).
  - assert (S3 : s3 = w) by (inversion E3; reflexivity). subst s3.
    unfold gc_bg in E4. destruct (rgb_eqb (tg_back t) (st_bg w)).
    + inversion E4; reflexivity.
    + destruct (tg_back_idx t); [inversion E4|]. destruct (ext_lookup ext (tg_back t)); [inversion E4|].
      destruct (tg_back t) as [[r g] b]. inversion E4.
  - destruct (tg_fore_idx t); [inversion E3|]. destruct (ext_lookup ext (tg_fore t)); [inversion E3|].
    destruct (tg_fore t) as [[r g] b]. inversion E3.
Qed.

(* every number get_color emits fits a byte *)
Definition tc_small (t : tc4) : Prop := let '(k, r, g, b) := t in k < 256 /\ r < 256 /\ g < 256 /\ b < 256.

Lemma get_color_small ice bpal ext a w : pal_u8 bpal ->
  Forall (fun n => n < 256) (snd (fst (get_color ice bpal ext a w))) /\ Forall tc_small (snd (get_color ice bpal ext a w)).
Proof.
  intro PU. unfold get_color. set (t := gc_target ice bpal a).
  pose proof (gc_target_ok ice bpal a) as TG. fold t in TG.
  assert (UF : rgb_u8 (tg_fore t)) by (rewrite (t_fore _ _ _ _ TG); apply pal_u8_rgb, PU).
  assert (UB : rgb_u8 (tg_back t)) by (rewrite (t_back _ _ _ _ TG); apply pal_u8_rgb, PU).
  destruct (gc_reset t w) as [s1 l1] eqn:E1.
  destruct (gc_flags t s1) as [s2 l2] eqn:E2.
  destruct (gc_fg ext t s2) as [[s3 l3] c3] eqn:E3.
  destruct (gc_bg ext t s3) as [[s4 l4] c4] eqn:E4.
  cbn [fst snd].
  assert (A1 : Forall (fun n => n < 256) l1).
  { unfold gc_reset in E1. destruct (needs_reset t w); inversion E1; repeat constructor. }
  assert (A2 : Forall (fun n => n < 256) l2).
  { unfold gc_flags in E2. inversion E2.
    repeat (apply Forall_app; split); match goal with |- Forall _ (if ?b then _ else _) => destruct b end;
      repeat constructor. }
  assert (A3 : Forall (fun n => n < 256) l3 /\ Forall tc_small c3).
  { unfold gc_fg in E3. destruct (rgb_eqb _ _); [inversion E3; split; constructor|].
    destruct (tg_fore_idx t) as [i|] eqn:EI.
    - inversion E3. split; [|constructor]. constructor; [|constructor].
      pose proof (fore_idx_lt _ _ _ _ _ TG EI) as Hi. destruct (color_offsets_involution i Hi) as [_ L].
      change SGR_FG_BASE with 30. lia.
    - destruct (ext_lookup ext (tg_fore t)) as [e|] eqn:EE.
      + inversion E3. apply ext_lookup_some in EE as [He _]. split; [|constructor].
        repeat constructor. exact He.
      + destruct (tg_fore t) as [[r g] b]. inversion E3. split; [constructor|]. destruct UF as (U1 & U2 & U3).
        constructor; [|constructor]. cbn. repeat split; assumption. }
  assert (A4 : Forall (fun n => n < 256) l4 /\ Forall tc_small c4).
  { unfold gc_bg in E4. destruct (rgb_eqb _ _); [inversion E4; split; constructor|].
    destruct (tg_back_idx t) as [i|] eqn:EI.
    - inversion E4. split; [|constructor]. constructor; [|constructor].
      pose proof (back_idx_lt _ _ _ _ _ TG EI) as Hi. destruct (color_offsets_involution i Hi) as [_ L].
      change SGR_BG_BASE with 40. lia.
    - destruct (ext_lookup ext (tg_back t)) as [e|] eqn:EE.
      + inversion E4. apply ext_lookup_some in EE as [He _]. split; [|constructor].
        repeat constructor. exact He.
      + destruct (tg_back t) as [[r g] b]. inversion E4. split; [constructor|]. destruct UB as (U1 & U2 & U3).
        constructor; [|constructor]. cbn. repeat split; assumption. }
  destruct A3 as [A3 C3]. destruct A4 as [A4 C4].
  split; repeat (apply Forall_app; split); assumption.
Qed.

(* ---------------------------------------------------------------- runs *)
Section Runs.
  Variables (ice : IceMode) (bpal : palette) (ext : bool).

  Definition gen := generate_row_cells ice bpal ext.

  Lemma gen_cons w ch a rest :
    gen w ((ch, a) :: rest) =
    let r := get_color ice bpal ext a w in
    let g := gen (fst (fst r)) rest in
    (fst g, mkCC ch (snd (fst r)) (snd r) (fst (fst r)) :: snd g).
  Proof.
    unfold gen. cbn [generate_row_cells]. destruct (get_color ice bpal ext a w) as [[s l] c].
    cbn [fst snd]. destruct (generate_row_cells ice bpal ext s rest). reflexivity.
  Qed.

  Lemma gen_length w row : length (snd (gen w row)) = length row.
  Proof.
    revert w. induction row as [|[ch a] rest IH]; intro w; [reflexivity|].
    rewrite gen_cons. cbn zeta. cbn [snd length]. rewrite IH. reflexivity.
  Qed.

  (* the run that follows a cell: its cells carry the same character, emit nothing and leave the writer state alone *)
  Lemma run_prefix ch : forall rest w,
    let r := run_len ch (snd (gen w rest)) in
    (r <= length rest)%nat /\
    (forall k, (k < r)%nat -> exists s, nth_error rest k = Some s /\ fst s = ch /\
        get_color ice bpal ext (snd s) w = (w, [], [])) /\
    skipn r (snd (gen w rest)) = snd (gen w (skipn r rest)) /\
    fst (gen w rest) = fst (gen w (skipn r rest)).
  Proof.
    induction rest as [|[c a] rest IH]; intro w.
    - cbn. repeat split; try lia.
    - rewrite gen_cons. cbn zeta. cbn [snd run_len cc_ch cc_sgr cc_tc].
      set (g := get_color ice bpal ext a w).
      destruct ((c =? ch) && is_nil (snd (fst g)) && is_nil (snd g)) eqn:E.
      + apply andb_prop in E as [E E3]. apply andb_prop in E as [E1 E2]. apply N.eqb_eq in E1. subst c.
        assert (S1 : snd (fst g) = []) by (destruct (snd (fst g)); [reflexivity|discriminate]).
        assert (S2 : snd g = []) by (destruct (snd g); [reflexivity|discriminate]).
        pose proof (get_color_silent ice bpal ext a w S1 S2) as SW. fold g in SW.
        assert (G : g = (w, [], [])).
        { destruct g as [[s l] t]. cbn [fst snd] in *. subst. reflexivity. }
        rewrite SW. specialize (IH w). cbn zeta in IH. destruct IH as (I1 & I2 & I3 & I4).
        cbn [skipn fst snd length]. split; [lia|]. split; [|split; assumption].
        intros k Hk. destruct k as [|k].
        * exists (ch, a). cbn [nth_error fst snd]. repeat split. exact G.
        * cbn [nth_error]. apply I2. lia.
      + cbn [skipn]. split; [lia|]. split; [intros k Hk; lia|]. rewrite gen_cons. split; reflexivity.
  Qed.
End Runs.

(* ---------------------------------------------------------------- the invisible bit never reaches the caret *)
Definition vis (a : TextAttribute) : Prop := N.testbit (attr a) 15 = false.

Lemma set_flag_vis w F on : N.testbit F 15 = false -> N.testbit w 15 = false -> N.testbit (set_flag w F on) 15 = false.
Proof.
  intros HF Hw. unfold set_flag. destruct on.
  - rewrite N.lor_spec, HF, Hw. reflexivity.
  - rewrite N.land_spec, Hw. reflexivity.
Qed.

Lemma sgr_plain_vis n a a' : sgr_plain n a = Some a' -> vis a -> vis a'.
Proof.
  unfold sgr_plain, vis. intros H V.
  repeat match type of H with
  | (if ?c then _ else _) = Some _ => destruct c
  end; inversion H; subst; clear H;
  cbn [attr set_is_bold set_is_blinking set_attr_flag with_attr set_fg set_bg set_font_page reset_color_attribute default_attribute];
  repeat (apply set_flag_vis; [reflexivity|]); try exact V; reflexivity.
Qed.

Lemma sgr_loop_vis_n k : forall l, (length l <= k)%nat -> forall a pal, vis a -> vis (fst (sgr_loop l a pal)).
Proof.
  induction k as [|k IH]; intros l L a pal V.
  - destruct l; [exact V|cbn in L; lia].
  - destruct l as [|n rest]; [exact V|]. cbn [length] in L. cbn [sgr_loop].
    destruct ((n =? 38)%Z || (n =? 48)%Z).
    + destruct rest as [|sel rest1]; [exact V|]. cbn [length] in L.
      destruct (sel =? 5)%Z.
      * destruct rest1 as [|c rest2]; [exact V|]. cbn [length] in L. destruct (in_range 0 255 c); [|exact V].
        apply IH; [lia|]. unfold store_ext. destruct (n =? 38)%Z; exact V.
      * destruct (sel =? 2)%Z; [|exact V].
        destruct rest1 as [|r [|g [|b rest2]]]; try exact V. cbn [length] in L.
        destruct (in_range 0 255 r && in_range 0 255 g && in_range 0 255 b); [|exact V].
        apply IH; [lia|]. unfold store_ext. destruct (n =? 38)%Z; exact V.
    + destruct (sgr_plain n a) as [a'|] eqn:E; [|exact V]. apply IH; [lia|]. eapply sgr_plain_vis; eassumption.
Qed.

Lemma sgr_vis l a pal : vis a -> vis (fst (select_graphic_rendition l a pal)).
Proof.
  intro V. unfold select_graphic_rendition. destruct l as [|n r]; [reflexivity|].
  apply (sgr_loop_vis_n (length (n :: r))); [lia|exact V].
Qed.

Lemma tc_vis k r g b a pal : vis a -> vis (fst (select_24bit_color k r g b a pal)).
Proof.
  intro V. unfold select_24bit_color. destruct (pal_insert pal _) as [i p'].
  destruct (k =? 0)%Z; [exact V|]. destruct (k =? 1)%Z; exact V.
Qed.

Lemma get_attribute_vis cice a : vis a -> cell_visible (32, get_attribute cice a) = true.
Proof.
  intro V. unfold cell_visible. cbn [snd].
  assert (V' : vis (get_attribute cice a)).
  { unfold get_attribute. destruct cice; [|exact V].
    unfold vis, set_is_blinking, with_attr. cbn [attr]. apply set_flag_vis; [reflexivity|].
    destruct ((background_color a <? 8) && is_blinking a); exact V. }
  apply N.eqb_eq. apply N.bits_inj. intro k. rewrite N.land_spec, N.bits_0.
  change ATTR_INVISIBLE with (2 ^ 15). rewrite N.pow2_bits_eqb.
  destruct (N.eqb_spec 15 k) as [<-|]; [rewrite V'; reflexivity|apply andb_false_r].
Qed.

(* ---------------------------------------------------------------- cells on the screen against cells of the source *)
Definition shows (pal : palette) (a : TextAttribute) : rgb * rgb * bool :=
  (pal_rgb pal (shown_fg a), pal_rgb pal (background_color a), is_blinking a).
Definition cell_wf (pal : palette) (c : cell) : Prop :=
  foreground_color (snd c) < plen pal /\ background_color (snd c) < plen pal /\ 16 <= plen pal.

Lemma shows_extends pal pal' c : pal_extends pal pal' -> cell_wf pal c -> shows pal' (snd c) = shows pal (snd c) /\ cell_wf pal' c.
Proof.
  intros EX (F & B & L). pose proof (plen_extends _ _ EX) as LE. unfold shows.
  assert (SF : shown_fg (snd c) < plen pal).
  { unfold shown_fg, shown_fg_core. destruct (is_bold (snd c) && (foreground_color (snd c) <? 8)) eqn:E; [|exact F].
    apply andb_prop in E as [_ E]. apply N.ltb_lt in E. lia. }
  rewrite !(pal_extends_rgb _ _ _ EX) by assumption. split; [reflexivity|]. unfold cell_wf. lia.
Qed.

Section Layout.
  Variables (o : SaveOptions) (ice : IceMode) (bpal : palette) (W : N).
  Hypothesis PO : pal_ok bpal.
  Hypothesis PU : pal_u8 bpal.
  Hypothesis W0 : 0 < W.
  Hypothesis WB : W < 1073741824.

  Notation cice := (cice_of ice).
  Notation ext := (o_ext o).
  Notation cc := (o_cc o).

  (* the characters the chosen control-character mode can encode *)
  Definition char_ok (ch : N) : Prop :=
    is_control_char ch = true -> cc = CcIcyTerm \/ (cc = CcIgnore /\ plain_char ch = true).
  Definition cell_dom (s : cell) : Prop := char_ok (fst s) /\ attr_ok ice (snd s).

  Definition CellOK (pal : palette) (c s : cell) : Prop :=
    (cell_visible c = true /\ fst c = fst s /\ shows pal (snd c) = src_shows bpal (snd s) /\ cell_wf pal c) \/
    (c = invisible_cell /\ is_blank_char (fst s) = true /\ pal_rgb bpal (background_color (snd s)) = black /\
     is_blinking (snd s) = false).

  Lemma CellOK_extends pal pal' c s : pal_extends pal pal' -> CellOK pal c s -> CellOK pal' c s.
  Proof.
    intros EX [(V & C & S & WF)|H]; [|right; exact H].
    destruct (shows_extends _ _ _ EX WF) as [E WF']. left. split; [exact V|]. split; [exact C|]. split; [congruence|exact WF'].
  Qed.

  Lemma not_control_plain ch : is_control_char ch = false -> plain_char ch = true.
  Proof.
    unfold is_control_char, plain_char. cbn [existsb ANSI_CONTROL_CHARS]. intro H.
    repeat (apply orb_false_elim in H as [? H]).
    repeat match goal with E : (_ =? _) = false |- _ => rewrite E; clear E end. reflexivity.
  Qed.

  Lemma cell_char_exec ch p : char_ok ch -> pdefault p ->
    cmd_valid (CBytes (cell_char cc ch)) /\ exec (CBytes (cell_char cc ch)) p = print_char (upd_last p ch) ch.
  Proof.
    intros CO PD. unfold cell_char. destruct (is_control_char ch) eqn:E.
    - destruct (CO E) as [C|[C PL]]; rewrite C.
      + split; [split; [reflexivity|exact E]|]. cbn [exec]. rewrite (pdefault_record p PD). reflexivity.
      + split; [exact PL|reflexivity].
    - split; [apply not_control_plain, E|reflexivity].
  Qed.

  (* what holds of the parser between two commands of a row *)
  Record PInv (w0 : AnsiState) (p : pst) : Prop := mkPInv {
    pi_def : pdefault p;
    pi_w : p_w p = Z.of_N W;
    pi_cice : p_cice p = cice;
    pi_rel : Rel cice w0 (abs (p_attr p)) (p_pal p);
    pi_vis : vis (p_attr p) }.

  Definition same_screen (p q : pst) : Prop :=
    p_lines q = p_lines p /\ p_x q = p_x p /\ p_y q = p_y p /\ p_h q = p_h p /\ p_w q = p_w p /\ p_cice q = p_cice p /\
    p_last q = p_last p /\ p_bice q = p_bice p.

  Lemma exec_all_tc tc : forall p, pdefault p -> Forall tc_small tc ->
    let q := exec_all (map CTc tc) p in
    Forall cmd_valid (map CTc tc) /\ same_screen p q /\ pdefault q /\
    (p_attr q, p_pal q) = apply_tc tc (p_attr p, p_pal p).
  Proof.
    induction tc as [|t r IH]; intros p PD FS.
    - cbn. split; [constructor|]. split; [repeat split|]. split; [exact PD|reflexivity].
    - inversion FS as [|? ? S FR]; subst. cbn [map exec_all fold_left].
      destruct t as [[[k rr] g] b]. destruct S as (S1 & S2 & S3 & S4).
      set (p1 := exec (CTc (k, rr, g, b)) p).
      assert (PD1 : pdefault p1) by (destruct PD as [U M]; split; [exact U|reflexivity]).
      destruct (IH p1 PD1 FR) as (V & SS & PDq & AP). cbn zeta in *.
      split; [constructor; [cbn [cmd_valid]; unfold nbound; lia|exact V]|].
      split; [|split; [exact PDq|]].
      + destruct SS as (A1 & A2 & A3 & A4 & A5 & A6 & A7 & A8). repeat split; assumption.
      + fold (exec_all (map CTc r) p1). rewrite AP. unfold apply_tc. cbn [fold_left]. f_equal.
        unfold p1. cbn [exec p_attr p_pal upd_attr_pal upd_mode_nums apply_tc1 fst snd]. symmetry. apply surjective_pairing.
  Qed.

  Lemma prefix_sim w0 p a ch : PInv w0 p -> attr_ok ice a ->
    let r := get_color ice bpal ext a w0 in
    let c := mkCC ch (snd (fst r)) (snd r) (fst (fst r)) in
    let p1 := exec_all (cell_prefix c) p in
    Forall cmd_valid (cell_prefix c) /\ same_screen p p1 /\ PInv (fst (fst r)) p1 /\
    caret_shows cice (p_pal p1) (p_attr p1) = src_shows bpal a /\ pal_extends (p_pal p) (p_pal p1) /\
    st_bg (fst (fst r)) = pal_rgb bpal (background_color a) /\
    (st_blink (fst (fst r)) = false -> is_blinking a = false) /\
    (snd (fst r) = [] -> snd r = [] -> p1 = p).
  Proof.
    intros [PD PW PC PR PV] AO. cbn zeta.
    set (r := get_color ice bpal ext a w0).
    destruct (get_color_small ice bpal ext a w0 PU) as [SM TS]. fold r in SM, TS.
    pose proof (sgr_sync_step ice bpal ext a w0 (p_attr p) (p_pal p) PO PU AO PR) as ST. cbn zeta in ST. fold r in ST.
    destruct ST as (R' & SH & EX & BG & BL).
    unfold cell_prefix. cbn [cc_sgr cc_tc].
    rewrite exec_all_app.
    set (q := exec_all (if is_nil (snd (fst r)) then [] else [CSgr (snd (fst r))]) p).
    assert (Q : Forall cmd_valid (if is_nil (snd (fst r)) then [] else [CSgr (snd (fst r))]) /\ same_screen p q /\ pdefault q /\
                (p_attr q, p_pal q) = apply_sgr (snd (fst r)) (p_attr p, p_pal p) /\ (snd (fst r) = [] -> q = p)).
    { unfold q. destruct (snd (fst r)) as [|n l] eqn:E.
      - cbn. split; [constructor|]. split; [repeat split|]. split; [exact PD|]. split; reflexivity.
      - cbn [is_nil exec_all fold_left]. split.
        + constructor; [|constructor]. split; [discriminate|].
          eapply Forall_impl; [|exact SM]. intros x Hx. unfold nbound. cbn beta in Hx. lia.
        + split; [repeat split|]. split; [destruct PD as [U M]; split; [exact U|reflexivity]|].
          split; [|discriminate]. cbn [exec p_attr p_pal upd_attr_pal upd_mode_nums apply_sgr fst snd]. symmetry. apply surjective_pairing. }
    destruct Q as (V1 & SS1 & PD1 & AP1 & ID1).
    destruct (exec_all_tc (snd r) q PD1 TS) as (V2 & SS2 & PD2 & AP2). cbn zeta in *.
    set (p1 := exec_all (map CTc (snd r)) q) in *.
    assert (AP : (p_attr p1, p_pal p1) = apply_tc (snd r) (apply_sgr (snd (fst r)) (p_attr p, p_pal p))) by (rewrite AP2, AP1; reflexivity).
    assert (EA : p_attr p1 = fst (apply_tc (snd r) (apply_sgr (snd (fst r)) (p_attr p, p_pal p)))) by (rewrite <- AP; reflexivity).
    assert (EP : p_pal p1 = snd (apply_tc (snd r) (apply_sgr (snd (fst r)) (p_attr p, p_pal p)))) by (rewrite <- AP; reflexivity).
    assert (SS : same_screen p p1).
    { destruct SS1 as (A1 & A2 & A3 & A4 & A5 & A6 & A7 & A8). destruct SS2 as (B1 & B2 & B3 & B4 & B5 & B6 & B7 & B8).
      repeat split; congruence. }
    split; [apply Forall_app; split; assumption|]. split; [exact SS|].
    split; [|split; [rewrite EA, EP; exact SH|split; [rewrite EP; exact EX|split; [exact BG|split; [exact BL|]]]]].
    - destruct SS as (_ & _ & _ & _ & SW & SC & _). constructor.
      + exact PD2.
      + congruence.
      + congruence.
      + rewrite EA, EP. exact R'.
      + (* the invisible bit *)
        rewrite EA. unfold apply_sgr.
        assert (V0 : vis (fst (match snd (fst r) with [] => (p_attr p, p_pal p) | _ :: _ => select_graphic_rendition (zl (snd (fst r))) (fst (p_attr p, p_pal p)) (snd (p_attr p, p_pal p)) end))).
        { destruct (snd (fst r)); [exact PV|]. apply sgr_vis. exact PV. }
        revert V0. generalize (match snd (fst r) with [] => (p_attr p, p_pal p) | _ :: _ => select_graphic_rendition (zl (snd (fst r))) (fst (p_attr p, p_pal p)) (snd (p_attr p, p_pal p)) end).
        generalize (snd r). intro l. induction l as [|t l IH]; intros ap V0; [exact V0|].
        unfold apply_tc. cbn [fold_left]. apply IH. destruct t as [[[k rr] g] b]. unfold apply_tc1. apply tc_vis. exact V0.
    - intros E1 E2. unfold p1. rewrite E2. cbn [map exec_all fold_left]. apply ID1, E1.
  Qed.

  (* the cell the parser stores when it prints `ch` with its current attribute *)
  Lemma printed_cell_ok w1 p ch (s : cell) : PInv w1 p -> fst s = ch ->
    caret_shows cice (p_pal p) (p_attr p) = src_shows bpal (snd s) ->
    CellOK (p_pal p) (ch, get_attribute (p_cice p) (p_attr p)) s.
  Proof.
    intros [PD PW PC PR PV] E SH. left. rewrite PC.
    split; [exact (get_attribute_vis cice (p_attr p) PV)|]. split; [symmetry; exact E|]. split; [exact SH|].
    (* indices below the palette length *)
    pose proof (r_pal _ _ _ _ PR) as PI. pose proof (palinv_len _ PI) as L16.
    pose proof (r_fgv _ _ _ _ PR) as FV. pose proof (r_bgv _ _ _ _ PR) as BV.
    cbn [abs pa_fg pa_bg] in FV, BV.
    unfold cell_wf. cbn [snd]. unfold get_attribute. destruct cice.
    - change (foreground_color (set_is_blinking ?x false)) with (foreground_color x).
      change (background_color (set_is_blinking ?x false)) with (background_color x).
      destruct ((background_color (p_attr p) <? 8) && is_blinking (p_attr p)) eqn:C.
      + apply andb_prop in C as [C _]. apply N.ltb_lt in C. cbn [set_bg foreground_color background_color]. lia.
      + lia.
    - lia.
  Qed.

  (* a cell of the run that follows: nothing was emitted for it, so the parser state already shows it *)
  Lemma silent_cell w1 p (s : cell) : PInv w1 p -> attr_ok ice (snd s) ->
    get_color ice bpal ext (snd s) w1 = (w1, [], []) ->
    caret_shows cice (p_pal p) (p_attr p) = src_shows bpal (snd s) /\
    st_bg w1 = pal_rgb bpal (background_color (snd s)) /\ (st_blink w1 = false -> is_blinking (snd s) = false).
  Proof.
    intros [PD PW PC PR PV] AO G.
    pose proof (sgr_sync_step ice bpal ext (snd s) w1 (p_attr p) (p_pal p) PO PU AO PR) as ST. cbn zeta in ST.
    rewrite G in ST. cbn [fst snd apply_sgr apply_tc fold_left] in ST.
    destruct ST as (_ & SH & _ & BG & BL). auto.
  Qed.

  (* ---------------------------------------------------------------- one row *)
  Variable yn : nat.      (* the row being written *)

  (* between p and p' the cells [lo, hi) of row yn were produced for the source cells ss; nothing else changed *)
  Definition Stage (lo hi : nat) (ss : list cell) (p p' : pst) : Prop :=
    length ss = (hi - lo)%nat /\ (lo <= hi)%nat /\
    (forall k s, nth_error ss k = Some s -> CellOK (p_pal p') (raw_cell (p_lines p') (lo + k) yn) s) /\
    (forall k y', ~ (y' = yn /\ lo <= k < hi)%nat -> raw_cell (p_lines p') k y' = raw_cell (p_lines p) k y') /\
    pal_extends (p_pal p) (p_pal p') /\
    (tail_ok (p_lines p) (S yn) -> tail_ok (p_lines p') (S yn)) /\
    p_bice p' = p_bice p.

  Lemma Stage_comp lo mid hi ss1 ss2 p p1 p2 :
    Stage lo mid ss1 p p1 -> Stage mid hi ss2 p1 p2 -> Stage lo hi (ss1 ++ ss2) p p2.
  Proof.
    intros (L1 & O1 & C1 & F1 & E1 & T1 & B1) (L2 & O2 & C2 & F2 & E2 & T2 & B2).
    split; [rewrite app_length; lia|]. split; [lia|]. split; [|split; [|split; [|split]]].
    - intros k s H. destruct (Nat.lt_ge_cases k (length ss1)) as [Lk|Gk].
      + rewrite nth_error_app1 in H by exact Lk. rewrite F2 by lia.
        eapply CellOK_extends; [exact E2|]. apply C1, H.
      + rewrite nth_error_app2 in H by exact Gk. replace (lo + k)%nat with (mid + (k - length ss1))%nat by lia. apply C2, H.
    - intros k y' N. rewrite F2 by lia. apply F1. lia.
    - eapply pal_extends_trans; eassumption.
    - intro T. apply T2, T1, T.
    - congruence.
  Qed.

  Lemma Stage_id lo p p' : p_lines p' = p_lines p -> pal_extends (p_pal p) (p_pal p') -> p_bice p' = p_bice p -> Stage lo lo [] p p'.
  Proof.
    intros E X B. split; [cbn; lia|]. split; [lia|]. split; [intros k s H; destruct k; discriminate|].
    split; [intros; rewrite E; reflexivity|]. split; [exact X|]. split; [rewrite E; auto|exact B].
  Qed.

  Lemma PInv_misc w1 p q : PInv w1 p -> same_misc p q -> PInv w1 q.
  Proof.
    intros [PD PW PC PR PV] (M1 & M2 & M3 & M4 & M5 & M6 & M7 & M8).
    constructor.
    - eapply pdefault_misc; [|exact PD]. repeat split; assumption.
    - congruence.
    - congruence.
    - rewrite M3, M6. exact PR.
    - rewrite M3. exact PV.
  Qed.

  (* printing n copies of `ch` for n source cells that all show what the caret shows *)
  Lemma print_run n : forall q w1 ch xn (ss : list cell),
    PInv w1 q -> p_x q = Z.of_nat xn -> p_y q = Z.of_nat yn -> length ss = n -> (N.of_nat (xn + n) <= W) ->
    (forall s, In s ss -> fst s = ch /\ caret_shows cice (p_pal q) (p_attr q) = src_shows bpal (snd s)) ->
    let q' := repeat_print n q ch in
    PInv w1 q' /\ same_misc q q' /\ Stage xn (xn + n) ss q q' /\
    ((0 < n)%nat ->
       (if (N.of_nat (xn + n) <? W) then p_x q' = Z.of_nat (xn + n) /\ p_y q' = Z.of_nat yn
        else p_x q' = 0%Z /\ p_y q' = (Z.of_nat yn + 1)%Z) /\
       cell_visible (raw_cell (p_lines q') (xn + n - 1) yn) = true) /\
    (n = 0%nat -> q' = q).
  Proof.
    intros q w1 ch xn ss PI PX PY LS LW SS. cbn zeta.
    assert (Hx : (0 <= p_x q)%Z) by lia. assert (Hy : (0 <= p_y q)%Z) by lia.
    assert (Hw : (p_x q + Z.of_nat n <= p_w q)%Z) by (rewrite (pi_w _ _ PI); lia).
    destruct (repeat_print_spec n q ch Hx Hy Hw) as (RC & POS & M & T). cbn zeta in *.
    set (q' := repeat_print n q ch) in *.
    assert (PI' : PInv w1 q') by (eapply PInv_misc; eassumption).
    destruct M as (M1 & M2 & M3 & M4 & M5 & M6 & M7 & M8).
    rewrite PX, PY, !Nat2Z.id in RC.
    split; [exact PI'|]. split; [repeat split; assumption|]. split; [|split].
    - split; [lia|]. split; [lia|]. split; [|split; [|split; [|split]]].
      + intros k s H. rewrite RC, Nat.eqb_refl. cbn [andb].
        assert (Lk : (k < n)%nat) by (rewrite <- LS; apply nth_error_Some; congruence).
        assert (C1 : (xn <=? xn + k)%nat = true) by (apply Nat.leb_le; lia).
        assert (C2 : (xn + k <? xn + n)%nat = true) by (apply Nat.ltb_lt; lia). rewrite C1, C2. cbn [andb].
        destruct (SS s (nth_error_In _ _ H)) as [E SH].
        rewrite M6. exact (printed_cell_ok w1 q ch s PI E SH).
      + intros k y' N. rewrite RC.
        destruct (Nat.eqb_spec y' yn) as [->|]; cbn [andb]; [|reflexivity].
        destruct (xn <=? k)%nat eqn:C1; cbn [andb]; [|reflexivity]. apply Nat.leb_le in C1.
        destruct (k <? xn + n)%nat eqn:C2; [|reflexivity]. apply Nat.ltb_lt in C2. exfalso. apply N. lia.
      + rewrite M6. apply pal_extends_refl.
      + rewrite PY, Nat2Z.id in T. exact T.
      + exact M7.
    - intro NP. destruct POS as [[Z0 _]|[_ POS]]; [lia|]. rewrite PX, PY, (pi_w _ _ PI) in POS.
      split.
      + destruct (N.ltb_spec (N.of_nat (xn + n)) W) as [L|G].
        * assert (C : (Z.of_nat xn + Z.of_nat n <? Z.of_N W)%Z = true) by (apply Z.ltb_lt; lia). rewrite C in POS.
          destruct POS as [A B]. split; [rewrite A; lia|exact B].
        * assert (C : (Z.of_nat xn + Z.of_nat n <? Z.of_N W)%Z = false) by (apply Z.ltb_ge; lia). rewrite C in POS. exact POS.
      + rewrite RC, Nat.eqb_refl. cbn [andb].
        assert (C1 : (xn <=? xn + n - 1)%nat = true) by (apply Nat.leb_le; lia).
        assert (C2 : (xn + n - 1 <? xn + n)%nat = true) by (apply Nat.ltb_lt; lia). rewrite C1, C2. cbn [andb].
        exact (get_attribute_vis (p_cice q) (p_attr q) (pi_vis _ _ PI)).
    - intro Z0. destruct POS as [[_ E]|[NP _]]; [exact E|lia].
  Qed.

  Definition RowPost (row : list cell) (xn : nat) (p p' : pst) (wend : AnsiState) : Prop :=
    PInv wend p' /\ Stage xn (xn + length row) row p p' /\
    (row <> [] ->
       (if N.of_nat (xn + length row) <? W then p_x p' = Z.of_nat (xn + length row) /\ p_y p' = Z.of_nat yn
        else p_x p' = 0%Z /\ p_y p' = (Z.of_nat yn + 1)%Z) /\
       cell_visible (raw_cell (p_lines p') (xn + length row - 1) yn) = true) /\
    (row = [] -> p' = p).

  Lemma emit_row_nil f len x : emit_row f o len x [] = [].
  Proof. destruct f; reflexivity. Qed.

  Lemma enc_rep_len n : (2 < length (enc (CRep n)))%nat.
  Proof. cbn [enc]. unfold csi. rewrite !app_length. cbn [length]. lia. Qed.
  Lemma enc_cuf_len n : (2 < length (enc (CCuf n)))%nat.
  Proof. cbn [enc]. unfold csi. rewrite !app_length. cbn [length]. lia. Qed.

  Lemma in_firstn_nth {A} (l : list A) k s : In s (firstn k l) -> exists j, (j < k)%nat /\ nth_error l j = Some s.
  Proof.
    revert l. induction k as [|k IH]; intros l H; [destruct H|].
    destruct l as [|x r]; [destruct H|]. cbn [firstn] in H. destruct H as [->|H].
    - exists 0%nat. split; [lia|reflexivity].
    - destruct (IH r H) as (j & Hj & E). exists (S j). split; [lia|exact E].
  Qed.

  Lemma row_sim : forall fuel (row : list cell) (xn : nat) (w0 : AnsiState) (p : pst),
    (length row <= fuel)%nat ->
    PInv w0 p -> p_x p = Z.of_nat xn -> p_y p = Z.of_nat yn ->
    N.of_nat (xn + length row) <= W -> Forall cell_dom row ->
    (forall k, (xn <= k)%nat -> raw_cell (p_lines p) k yn = invisible_cell) ->
    let g := gen ice bpal ext w0 row in
    let cmds := emit_row fuel o (N.of_nat (xn + length row)) (N.of_nat xn) (snd g) in
    Forall cmd_valid cmds /\ RowPost row xn p (exec_all cmds p) (fst g).
  Proof.
    induction fuel as [|f IH]; intros row xn w0 p LF PI PX PY LW FD UN.
    - destruct row; [|cbn in LF; lia]. cbn. split; [constructor|].
      split; [exact PI|]. split; [rewrite Nat.add_0_r; apply Stage_id; [reflexivity|apply pal_extends_refl|reflexivity]|].
      split; [congruence|reflexivity].
    - destruct row as [|[ch a] rest].
      { cbn. split; [constructor|]. split; [exact PI|].
        split; [rewrite Nat.add_0_r; apply Stage_id; [reflexivity|apply pal_extends_refl|reflexivity]|]. split; [congruence|reflexivity]. }
      cbn [length] in LF, LW.
      inversion FD as [|? ? [CO AO] FR]; subst. cbn [fst snd] in CO, AO.
      rewrite gen_cons. cbn zeta.
      set (r := get_color ice bpal ext a w0). set (w1 := fst (fst r)).
      set (g' := gen ice bpal ext w1 rest).
      cbn [fst snd].
      (* the rendition prefix *)
      destruct (prefix_sim w0 p a ch PI AO) as (V1 & SS1 & PI1 & SH1 & EX1 & BG1 & BL1 & _). cbn zeta in *. fold r in V1, SS1, PI1, SH1, EX1, BG1, BL1. fold w1 in V1, SS1, PI1, SH1, EX1, BG1, BL1.
      set (c := mkCC ch (snd (fst r)) (snd r) w1) in *.
      set (p1 := exec_all (cell_prefix c) p) in *.
      destruct SS1 as (SL & SX & SY & _ & _ & _ & _ & SB).
      assert (S0 : Stage xn xn [] p p1) by (apply Stage_id; assumption).
      (* the run behind the cell *)
      destruct (run_prefix ice bpal ext ch rest w1) as (RL & RS & RSK & RF). cbn zeta in *. fold g' in RL, RS, RSK, RF.
      set (rl := run_len ch (snd g')) in *.
      assert (SIL : forall s, In s (firstn rl rest) -> fst s = ch /\
                caret_shows cice (p_pal p1) (p_attr p1) = src_shows bpal (snd s) /\
                st_bg w1 = pal_rgb bpal (background_color (snd s)) /\ (st_blink w1 = false -> is_blinking (snd s) = false)).
      { intros s Hs. apply in_firstn_nth in Hs as (j & Hj & Ej).
        destruct (RS j Hj) as (s' & Es & Ec & Eg). assert (s' = s) by congruence. subst s'.
        assert (AOs : attr_ok ice (snd s)).
        { rewrite Forall_forall in FR. apply (FR s). eapply nth_error_In, Ej. }
        split; [exact Ec|]. exact (silent_cell w1 p1 s PI1 AOs Eg). }
      (* finishing with the induction hypothesis once the cell and k cells of its run are done *)
      assert (FIN : forall k p2, (k <= length rest)%nat -> PInv w1 p2 ->
                Stage xn (xn + 1 + k) ((ch, a) :: firstn k rest) p p2 ->
                (skipn k rest = [] ->
                   (if N.of_nat (xn + S (length rest)) <? W then p_x p2 = Z.of_nat (xn + S (length rest)) /\ p_y p2 = Z.of_nat yn
                    else p_x p2 = 0%Z /\ p_y p2 = (Z.of_nat yn + 1)%Z) /\
                   cell_visible (raw_cell (p_lines p2) (xn + S (length rest) - 1) yn) = true) ->
                (skipn k rest <> [] -> p_x p2 = Z.of_nat (xn + 1 + k) /\ p_y p2 = Z.of_nat yn) ->
                skipn k (snd g') = snd (gen ice bpal ext w1 (skipn k rest)) ->
                fst g' = fst (gen ice bpal ext w1 (skipn k rest)) ->
                let cm := emit_row f o (N.of_nat (xn + S (length rest))) (N.of_nat (xn + 1 + k)) (skipn k (snd g')) in
                Forall cmd_valid cm /\ RowPost ((ch, a) :: rest) xn p (exec_all cm p2) (fst g')).
      { intros k p2 Hk PI2 ST2 PE PN ESK EF. cbn zeta.
        assert (LSK : length (skipn k rest) = (length rest - k)%nat) by apply skipn_length.
        assert (FRS : Forall cell_dom (skipn k rest)).
        { rewrite Forall_forall in FR |- *. intros s Hs. apply FR. rewrite <- (firstn_skipn k rest). apply in_or_app. right. exact Hs. }
        destruct (skipn k rest) as [|s0 rem] eqn:ESR.
        - (* nothing left *)
          rewrite ESK. cbn [gen generate_row_cells snd]. rewrite emit_row_nil. cbn [exec_all fold_left].
          split; [constructor|]. cbn [length] in LSK.
          assert (Kf : k = length rest) by lia. subst k.
          rewrite firstn_all in ST2. replace (xn + 1 + length rest)%nat with (xn + S (length rest))%nat in ST2 by lia.
          rewrite EF. cbn [gen generate_row_cells fst].
          split; [exact PI2|]. split; [exact ST2|]. split; [intros _; cbn [length]; exact (PE eq_refl)|discriminate].
        - (* the induction hypothesis on what remains *)
          destruct (PN ltac:(discriminate)) as [PX2 PY2].
          cbn [length] in LSK.
          assert (LF' : (length (s0 :: rem) <= f)%nat) by (cbn [length]; lia).
          assert (LW' : N.of_nat (xn + 1 + k + length (s0 :: rem)) <= W) by (cbn [length]; lia).
          assert (UN' : forall j, (xn + 1 + k <= j)%nat -> raw_cell (p_lines p2) j yn = invisible_cell).
          { intros j Hj. destruct ST2 as (_ & _ & _ & F2 & _). rewrite F2 by lia. apply UN. lia. }
          destruct (IH (s0 :: rem) (xn + 1 + k)%nat w1 p2 LF' PI2 PX2 PY2 LW' FRS UN') as (VC & RP). cbn zeta in *.
          replace (xn + 1 + k + length (s0 :: rem))%nat with (xn + S (length rest))%nat in VC, RP by (cbn [length]; lia).
          rewrite <- ESK in VC, RP.
          split; [exact VC|].
          destruct RP as (PI3 & ST3 & PS3 & _).
          set (p3 := exec_all (emit_row f o (N.of_nat (xn + S (length rest))) (N.of_nat (xn + 1 + k)) (skipn k (snd g'))) p2) in *.
          rewrite <- EF in PI3.
          split; [exact PI3|]. split; [|split; [|discriminate]].
          + pose proof (Stage_comp _ _ _ _ _ _ _ _ ST2 ST3) as SC.
            replace (xn + 1 + k + length (s0 :: rem))%nat with (xn + S (length rest))%nat in SC by (cbn [length]; lia).
            cbn [app] in SC. rewrite <- ESR, firstn_skipn in SC. cbn [length]. exact SC.
          + intros _. destruct (PS3 ltac:(discriminate)) as [A B].
            replace (xn + 1 + k + length (s0 :: rem))%nat with (xn + S (length rest))%nat in A, B by (cbn [length]; lia).
            cbn [length]. split; assumption. }
      (* the three ways of writing the cell *)
      cbn [emit_row]. cbn zeta. cbn [cc_ch cc_st c].
      fold rl.
      set (chb := cell_char cc ch).
      (* printing the cell itself *)
      set (q1 := upd_last p1 ch).
      assert (PIq : PInv w1 q1) by (destruct PI1 as [D1 D2 D3 D4 D5]; constructor; assumption).
      assert (SHq : forall s, In s [(ch, a)] -> fst s = ch /\ caret_shows cice (p_pal q1) (p_attr q1) = src_shows bpal (snd s)).
      { intros s [<-|[]]. split; [reflexivity|exact SH1]. }
      assert (LWq : N.of_nat (xn + 1) <= W) by lia.
      destruct (print_run 1 q1 w1 ch xn [(ch, a)] PIq ltac:(cbn; lia) ltac:(cbn; lia) eq_refl LWq SHq) as (PI2 & M2 & ST2 & PS2 & _).
      cbn zeta in PI2, M2, ST2, PS2. change (repeat_print 1 q1 ch) with (print_char q1 ch) in *.
      set (p2 := print_char q1 ch) in *.
      destruct (cell_char_exec ch p1 CO (pi_def _ _ PI1)) as [VCH ECH]. fold chb in VCH, ECH. fold q1 in ECH. fold p2 in ECH.
      assert (ST02 : Stage xn (xn + 1) [(ch, a)] p p2).
      { change [(ch, a)] with ([] ++ [(ch, a)]). eapply Stage_comp; [exact S0|]. exact ST2. }
      destruct (PS2 ltac:(lia)) as [POS2 VIS2].
      assert (PLAIN : let cm := cell_prefix c ++ [CBytes chb] ++ emit_row f o (N.of_nat (xn + S (length rest))) (N.of_nat xn + 1) (snd g') in
                Forall cmd_valid cm /\ RowPost ((ch, a) :: rest) xn p (exec_all cm p) (fst g')).
      { cbn zeta. rewrite !exec_all_app. fold p1. change (exec_all [CBytes chb] p1) with (exec (CBytes chb) p1). rewrite ECH.
        replace (N.of_nat xn + 1) with (N.of_nat (xn + 1 + 0)) by lia.
        change (snd g') with (skipn 0 (snd g')).
        assert (F0 := FIN 0%nat p2 ltac:(lia) PI2). cbn [firstn skipn] in F0. rewrite Nat.add_0_r in F0.
        destruct F0 as [VC RP].
        - exact ST02.
        - intro E. subst rest. cbn [length]. replace (xn + 1 - 1)%nat with xn in * by lia.
          replace (xn + 1)%nat with (xn + 1)%nat in POS2 by lia. split; [exact POS2|].
          replace (xn + 1 - 1)%nat with xn by lia. exact VIS2.
        - intro NE. assert (LT : (0 < length rest)%nat) by (destruct rest; [congruence|cbn; lia]).
          assert (C : N.of_nat (xn + 1) <? W = true) by (apply N.ltb_lt; lia). rewrite C in POS2. exact POS2.
        - reflexivity.
        - reflexivity.
        - cbn [skipn] in *. rewrite Nat.add_0_r in *. split; [|exact RP].
          apply Forall_app. split; [exact V1|]. constructor; [exact VCH|exact VC]. }
      destruct (o_compress o) eqn:OC; [|exact PLAIN].
      match goal with |- context [if ?cnd then _ else _] => destruct cnd eqn:CUF end.
      + (* cursor forward *)
        repeat (apply andb_prop in CUF as [CUF ?]).
        match goal with H : (ch =? 32) = true |- _ => apply N.eqb_eq in H; rename H into C32 end.
        match goal with H : (st_bg_idx w1 =? 0) = true |- _ => apply N.eqb_eq in H; rename H into CB0 end.
        match goal with H : negb (st_blink w1) = true |- _ => apply negb_true_iff in H; rename H into CBL end.
        match goal with H : (_ <? _) = true |- _ => apply N.ltb_lt in H; rename H into CLT end.
        cbn [length] in CLT |- *.
        assert (RLT : (rl < length rest)%nat) by lia.
        replace (N.of_nat xn + N.of_nat rl + 1) with (N.of_nat (xn + 1 + rl)) by lia.
        rewrite Nat2N.id.
        set (n1 := N.of_nat rl + 1).
        set (q := upd_mode_nums p1 PDefault [Z.of_N n1]).
        assert (Hq1 : (0 <= p_x q)%Z) by (cbn [q p_x upd_mode_nums]; lia).
        assert (Hq2 : (0 <= Z.of_N n1)%Z) by lia.
        assert (Hq3 : (p_x q + Z.of_N n1 < p_w q)%Z) by (cbn [q p_x p_w upd_mode_nums]; rewrite (pi_w _ _ PI1), SX, PX; unfold n1; lia).
        assert (Hq4 : (p_x q + Z.of_N n1 <= 2147483647)%Z) by (cbn [q p_x upd_mode_nums]; rewrite SX, PX; unfold n1; lia).
        destruct (caret_right_spec q (Z.of_N n1) Hq1 Hq2 Hq3 Hq4) as (CL & CX & CY & _ & CM). cbn zeta in *.
        set (p2c := caret_right q (Z.of_N n1)) in *.
        change (exec_all ?l p) with (exec_all l p).
        assert (E2 : exec (CCuf n1) p1 = p2c) by reflexivity.
        assert (PI2c : PInv w1 p2c).
        { destruct CM as (M1 & _ & M3 & M4 & M5 & M6 & _ & M8). destruct PI1 as [[D0 D1] D2 D3 D4 D5].
          constructor; [split; [rewrite M8; exact D0|rewrite M1; reflexivity]|rewrite M5; exact D2|rewrite M4; exact D3|rewrite M3, M6; exact D4|rewrite M3; exact D5]. }
        assert (BLK : st_bg w1 = black) by (exact (r_bg0 _ _ _ _ (pi_rel _ _ PI1) CB0 CBL)).
        assert (STc : Stage xn (xn + 1 + rl) ((ch, a) :: firstn rl rest) p p2c).
        { split; [cbn [length]; rewrite firstn_length; lia|]. split; [lia|]. split; [|split; [|split; [|split]]].
          - intros k s Hk. rewrite CL. cbn [q p_lines upd_mode_nums]. rewrite SL, UN by lia. right.
            split; [reflexivity|]. destruct k as [|k]; cbn [nth_error] in Hk.
            + inversion Hk; subst s. cbn [fst snd]. rewrite C32. split; [reflexivity|]. split; [rewrite <- BG1; exact BLK|exact (BL1 CBL)].
            + destruct (SIL s (nth_error_In _ _ Hk)) as (E1 & _ & E3 & E4).
              rewrite E1, C32. split; [reflexivity|]. split; [rewrite <- E3; exact BLK|exact (E4 CBL)].
          - intros k y' _. rewrite CL. cbn [q p_lines upd_mode_nums]. rewrite SL. reflexivity.
          - destruct CM as (_ & _ & _ & _ & _ & M6 & _). rewrite M6. exact EX1.
          - rewrite CL. cbn [q p_lines upd_mode_nums]. rewrite SL. auto.
          - destruct CM as (_ & _ & _ & _ & _ & _ & M7 & _). rewrite M7. exact SB. }
        destruct (FIN rl p2c RL PI2c STc) as [VC RP].
        * intro E. exfalso. assert (LL : length (skipn rl rest) = 0%nat) by (rewrite E; reflexivity). rewrite skipn_length in LL. lia.
        * intros _. split; [rewrite CX; cbn [q p_x upd_mode_nums]; rewrite SX, PX; unfold n1; lia|rewrite CY; cbn [q p_y upd_mode_nums]; rewrite SY, PY; reflexivity].
        * exact RSK.
        * exact RF.
        * cbn zeta in VC, RP. split.
          -- apply Forall_app. split; [exact V1|]. constructor; [cbn [cmd_valid]; unfold nbound, n1; lia|exact VC].
          -- rewrite !exec_all_app. fold p1. change (exec_all [CCuf n1] p1) with (exec (CCuf n1) p1). rewrite E2. exact RP.
      + match goal with |- context [if ?cnd then _ else _] => destruct cnd eqn:REP end; [|exact PLAIN].
        (* repeat sequence *)
        apply andb_prop in REP as [_ REP]. apply N.leb_le in REP. unfold len_N in REP.
        pose proof (enc_rep_len (N.of_nat rl)) as ERL. cbn [length] in |- *.
        assert (RL1 : (0 < rl)%nat) by lia.
        replace (N.of_nat xn + N.of_nat rl + 1) with (N.of_nat (xn + 1 + rl)) by lia.
        rewrite Nat2N.id.
        assert (C2 : N.of_nat (xn + 1) <? W = true) by (apply N.ltb_lt; lia). rewrite C2 in POS2. destruct POS2 as [PX2 PY2].
        set (q2 := upd_mode_nums p2 PDefault [Z.of_N (N.of_nat rl)]).
        assert (PIq2 : PInv w1 q2) by (destruct PI2 as [[D0 D1] D2 D3 D4 D5]; constructor; [split; [exact D0|reflexivity]|exact D2|exact D3|exact D4|exact D5]).
        destruct M2 as (_ & ML & MA & _ & _ & MP & _).
        assert (LST : p_last p2 = ch) by (rewrite ML; reflexivity).
        assert (SS2 : forall s, In s (firstn rl rest) -> fst s = ch /\ caret_shows cice (p_pal q2) (p_attr q2) = src_shows bpal (snd s)).
        { intros s Hs. destruct (SIL s Hs) as (E1 & E2 & _). split; [exact E1|].
          cbn [q2 p_pal p_attr upd_mode_nums]. rewrite MA, MP. exact E2. }
        assert (LF2 : length (firstn rl rest) = rl) by (rewrite firstn_length; lia).
        assert (LW2 : N.of_nat (xn + 1 + rl) <= W) by lia.
        destruct (print_run rl q2 w1 ch (xn + 1)%nat (firstn rl rest) PIq2 PX2 PY2 LF2 LW2 SS2) as (PI3 & _ & ST3 & PS3 & _).
        cbn zeta in PI3, ST3, PS3.
        set (p3 := repeat_print rl q2 ch) in *.
        assert (E3 : exec (CRep (N.of_nat rl)) p2 = p3) by (cbn [exec]; rewrite Nat2N.id, LST; reflexivity).
        assert (ST03 : Stage xn (xn + 1 + rl) ((ch, a) :: firstn rl rest) p p3).
        { change ((ch, a) :: firstn rl rest) with ([(ch, a)] ++ firstn rl rest). eapply Stage_comp; [exact ST02|exact ST3]. }
        destruct (PS3 RL1) as [POS3 VIS3].
        destruct (FIN rl p3 RL PI3 ST03) as [VC RP].
        * intro E. assert (LL : length (skipn rl rest) = 0%nat) by (rewrite E; reflexivity). rewrite skipn_length in LL.
          assert (RE : rl = length rest) by lia.
          replace (xn + S (length rest))%nat with (xn + 1 + rl)%nat by lia. split; [exact POS3|exact VIS3].
        * intro NE. assert (LL : (0 < length (skipn rl rest))%nat) by (destruct (skipn rl rest); [congruence|cbn; lia]).
          rewrite skipn_length in LL.
          assert (C3 : N.of_nat (xn + 1 + rl) <? W = true) by (apply N.ltb_lt; lia). rewrite C3 in POS3. exact POS3.
        * exact RSK.
        * exact RF.
        * cbn zeta in VC, RP. split.
          -- apply Forall_app. split; [exact V1|]. constructor; [exact VCH|]. constructor; [cbn [cmd_valid]; unfold nbound; lia|exact VC].
          -- rewrite !exec_all_app. fold p1.
             change (exec_all [CBytes chb; CRep (N.of_nat rl)] p1) with (exec (CRep (N.of_nat rl)) (exec (CBytes chb) p1)).
             rewrite ECH, E3. exact RP.
  Qed.
End Layout.
