(* C09 for the character-level ANSI parser: every character keeps InvA, for every parser state. *)
From Coq Require Import ZArith NArith List Bool Lia.
From IE Require Import Model.TermCore Model.AnsiTok Proofs.TermProofs.
Import ListNotations.
Local Open Scope Z_scope.

(* the invariant of the parser + screen: as long as no text-area resize was executed, the cursor is on the screen *)
Definition InvA (m : amach) : Prop := resized (ps m) = false -> Inv09 (tm m).
Definition Good (o : outcome) : Prop := match o with OOk m | OErr m | ODeep m => InvA m | OPanic _ => True end.

Lemma good_ok : forall t p t' p', resized p' = resized p -> (Inv09 t -> Inv09 t') -> InvA (mkA t p) -> Good (ok t' p').
Proof. intros t p t' p' Hr Hi HA. cbn. intro R. apply Hi, HA. cbn in *. congruence. Qed.
Lemma good_err : forall t p t' p', resized p' = resized p -> (Inv09 t -> Inv09 t') -> InvA (mkA t p) -> Good (err t' p').
Proof. intros t p t' p' Hr Hi HA. cbn. intro R. apply Hi, HA. cbn in *. congruence. Qed.
Lemma good_lift : forall t p r p', resized p' = resized p -> (forall t', Inv09 t -> r = ROk t' -> Inv09 t') -> InvA (mkA t p) -> Good (lift r p').
Proof. intros t p r p' Hr Hi HA. destruct r as [t'|s]; cbn; [|exact I]. intro R. eapply Hi; [|reflexivity]. apply HA. cbn in *. congruence. Qed.

(* the work-horse: close a goal [Inv09 t -> Inv09 t'] for the usual shapes (selected syntactically) *)
Ltac keep :=
  let HI := fresh "HI" in intro HI;
  lazymatch goal with
  | |- Inv09 (caret_cr _) => apply caret_cr_09; exact HI
  | |- Inv09 (caret_eol _) => apply caret_eol_09; exact HI
  | |- Inv09 (caret_bs _) => apply caret_bs_09; exact HI
  | |- Inv09 (clear_screen _) => apply clear_screen_09; apply HI
  | |- Inv09 (caret_ff _) => apply caret_ff_09; apply HI
  | |- Inv09 (reset_terminal (caret_reset (caret_ff _))) => apply ris_09; apply HI
  | |- Inv09 (caret_home _) => apply caret_home_09; apply HI
  | |- Inv09 (set_tab_at _ _) => apply set_tab_at_09; exact HI
  | |- Inv09 (remove_tab_stop _ _) => apply remove_tab_stop_09; exact HI
  | |- Inv09 (set_margins_tb _ _ _) => apply set_margins_tb_09; exact HI
  | |- Inv09 (set_margins_lr _ _ _) => apply set_margins_lr_09; exact HI
  | |- Inv09 (set_mtb (set_mlr _ None) None) => apply clear_margins_09; exact HI
  | |- Inv09 (set_mlr (set_declr _ false) None) => apply declr_off_09; exact HI
  | |- Inv09 (set_origin _ false) => apply set_origin_false_09; exact HI
  | |- Inv09 (set_tabs _ []) => apply set_tabs_09; [constructor|exact HI]
  | |- Inv09 (set_cx _ 0) => apply caret_cr_09; exact HI
  | |- Inv09 (caret_del _) => eapply Inv09_pgeo; [apply pgeo_caret_del|exact HI]
  | |- Inv09 (caret_ins _) => eapply Inv09_pgeo; [apply pgeo_caret_ins|exact HI]
  | |- Inv09 (iter_tot _ caret_del _) => eapply Inv09_pgeo; [apply pgeo_iter; apply pgeo_caret_del|exact HI]
  | |- Inv09 (iter_tot _ caret_ins _) => eapply Inv09_pgeo; [apply pgeo_iter; apply pgeo_caret_ins|exact HI]
  | |- Inv09 (iter_tot _ scroll_up _) => eapply Inv09_pgeo; [apply pgeo_iter; apply pgeo_scroll_up|exact HI]
  | |- Inv09 (iter_tot _ scroll_down _) => eapply Inv09_pgeo; [apply pgeo_iter; apply pgeo_scroll_down|exact HI]
  | |- Inv09 (iter_tot _ scroll_left _) => eapply Inv09_pgeo; [apply pgeo_iter; apply pgeo_scroll_left|exact HI]
  | |- Inv09 (iter_tot _ _ _) => fail "iter"
  | |- Inv09 ?x => first [ exact HI | eapply Inv09_pgeo; [|exact HI]; reflexivity ]
  end.
(* close a goal [forall t', Inv09 t -> r = ROk t' -> Inv09 t'] *)
Ltac lim :=
  let t' := fresh "t'" in let HI := fresh "HI" in let E := fresh "E" in
  intros t' HI E;
  lazymatch type of E with
  | limit_caret_pos _ = _ => eapply lim_after; [apply HI| |exact E]; reflexivity
  | caret_left _ _ = _ => eapply caret_left_09; [apply HI|exact E]
  | caret_right _ _ = _ => eapply caret_right_09; [apply HI|exact E]
  | caret_up _ _ = _ => eapply caret_up_09; [apply HI|exact E]
  | caret_down _ _ = _ => eapply caret_down_09; [apply HI|exact E]
  | caret_index _ = _ => eapply caret_index_09; [apply HI|exact E]
  | caret_reverse_index _ = _ => eapply caret_reverse_index_09; [apply HI|exact E]
  | caret_next_line _ = _ => eapply caret_next_line_09; [apply HI|exact E]
  | caret_lf _ = _ => eapply caret_lf_09; [apply HI|apply HI|exact E]
  | print_char _ _ = _ => eapply print_char_09; [exact HI|exact E]
  | caret_erase _ _ = _ => eapply Inv09_pgeo; [eapply caret_erase_pgeo; exact E|exact HI]
  | remove_terminal_line _ _ = _ => eapply Inv09_pgeo; [eapply remove_terminal_line_pgeo; exact E|exact HI]
  | insert_terminal_line _ _ = _ => eapply Inv09_pgeo; [eapply insert_terminal_line_pgeo; exact E|exact HI]
  | scroll_right _ = _ => eapply Inv09_pgeo; [eapply scroll_right_pgeo; exact E|exact HI]
  end.
Ltac gok := eapply good_ok; [reflexivity| |eassumption]; keep.
Ltac gerr := eapply good_err; [reflexivity| |eassumption]; keep.
Ltac glift := eapply good_lift; [reflexivity| |eassumption]; lim.
Ltac ifs := repeat match goal with |- Good (if ?c then _ else _) => destruct c end.

(* ---- SGR ------------------------------------------------------------------------------------------------------------- *)
Lemma sgr_loop_pgeo : forall fuel t l, pgeo (fst (sgr_loop fuel t l)) = pgeo t.
Proof.
  induction fuel as [|k IH]; intros t l; cbn [sgr_loop]; [reflexivity|].
  destruct l as [|n r]; [reflexivity|].
  repeat match goal with
         | |- pgeo (fst (if ?c then _ else _)) = _ => destruct c
         | |- pgeo (fst (match ext_color ?l with _ => _ end)) = _ => destruct (ext_color l) as [[? ?]|]
         end; try reflexivity; rewrite IH; reflexivity.
Qed.
Lemma cmd_sgr_good : forall t p, InvA (mkA t p) -> Good (cmd_sgr t p).
Proof.
  intros t p H. unfold cmd_sgr.
  set (t1 := match nums p with [] => caret_reset_color t | _ => t end).
  assert (P1 : pgeo t1 = pgeo t) by (subst t1; destruct (nums p); reflexivity).
  pose proof (sgr_loop_pgeo (S (length (nums p))) t1 (nums p)) as P2.
  destruct (sgr_loop (S (length (nums p))) t1 (nums p)) as [t2 e]. cbn [fst] in P2.
  assert (P3 : pgeo t2 = pgeo t) by (rewrite P2; exact P1).
  destruct e; [eapply good_err|eapply good_ok]; try reflexivity; try eassumption;
    intro HI; (eapply Inv09_pgeo; [|exact HI]); exact P3.
Qed.

(* ---- margins, rectangles, window ----------------------------------------------------------------------------------------- *)
Lemma cmd_decstbm_good : forall t p, InvA (mkA t p) -> Good (cmd_decstbm t p).
Proof.
  intros t p H. unfold cmd_decstbm. destruct (margins_args p (th t)) as [[a b]|]; [|gerr].
  eapply good_ok; [reflexivity| |eassumption]. intro HI. apply upper_left_09. apply set_margins_tb_G. apply HI.
Qed.
Lemma cmd_decslrm_good : forall t p, InvA (mkA t p) -> Good (cmd_decslrm t p).
Proof. intros t p H. unfold cmd_decslrm. destruct (margins_args p (th t)) as [[a b]|]; [gok|gerr]. Qed.
Lemma cmd_csr_good : forall t p, InvA (mkA t p) -> Good (cmd_csr t p).
Proof.
  intros t p H. unfold cmd_csr.
  destruct (nums p) as [|a [|b [|c [|d [|e r]]]]]; try gerr;
    (eapply good_ok; [reflexivity| |eassumption]; intro HI; apply set_margins_lr_09, set_margins_tb_09, upper_left_09; apply HI).
Qed.
Lemma cmd_ssm_good : forall t p, InvA (mkA t p) -> Good (cmd_ssm t p).
Proof.
  intros t p H. unfold cmd_ssm. destruct (nums p) as [|k [|v [|x r]]]; try exact I.
  ifs; try gok; gerr.
Qed.
Lemma cmd_ech_good : forall t p, InvA (mkA t p) -> Good (cmd_ech t p).
Proof.
  intros t p H. unfold cmd_ech. destruct (nums p) as [|n r]; [|glift].
  destruct (caret_erase t 1) as [t1|s] eqn:E; [|exact I].
  eapply good_err; [reflexivity| |eassumption]. intro HI. eapply Inv09_pgeo; [|exact HI]. eapply caret_erase_pgeo; exact E.
Qed.
Lemma cmd_fill_rect_good : forall t p, InvA (mkA t p) -> Good (cmd_fill_rect t p).
Proof.
  intros t p H. unfold cmd_fill_rect. destruct (nums p) as [|ch [|a [|b [|c [|d [|e r]]]]]]; try gerr.
  destruct (is_scalar ch); [|gerr]. destruct (rect_area t a b c d) as [[[tl lc] bl] rc]. gok.
Qed.
Lemma cmd_erase_rect_good : forall t p, InvA (mkA t p) -> Good (cmd_erase_rect t p).
Proof.
  intros t p H. unfold cmd_erase_rect. destruct (nums p) as [|a [|b [|c [|d [|e r]]]]]; try gerr.
  all: try (destruct (rect_area t a b c d) as [[[tl lc] bl] rc]; gok).
Qed.
Lemma cmd_sel_erase_rect_good : forall t p, InvA (mkA t p) -> Good (cmd_sel_erase_rect t p).
Proof.
  intros t p H. unfold cmd_sel_erase_rect. destruct (nums p) as [|a [|b [|c [|d [|e r]]]]]; try gerr.
  all: try (destruct (rect_area t a b c d) as [[[tl lc] bl] rc]; gok).
Qed.
Lemma cmd_window_good : forall t p, InvA (mkA t p) -> Good (cmd_window t p).
Proof.
  intros t p H. unfold cmd_window. destruct (nums p) as [|k [|h [|w [|b [|e r]]]]]; try gerr.
  - destruct (k =? 8); [|gerr]. cbn. intro R. discriminate.
  - ifs; try gok; gerr.
Qed.
Lemma cmd_font_selection_good : forall t p, InvA (mkA t p) -> Good (cmd_font_selection t p).
Proof. intros t p H. unfold cmd_font_selection. destruct (nums p) as [|a [|b [|c r]]]; try gerr. ifs; [gok|gerr]. Qed.
Lemma cmd_reset_margins_good : forall t p, InvA (mkA t p) -> Good (cmd_reset_margins t p).
Proof. intros t p H. unfold cmd_reset_margins. gok. Qed.

(* ---- DCS / OSC / music: the screen is not touched ----------------------------------------------------------------------------- *)
Lemma execute_dcs_good : forall t p p0, resized p = resized p0 -> InvA (mkA t p0) -> Good (execute_dcs t p).
Proof.
  intros t p p0 Hr H. unfold execute_dcs.
  assert (K : forall p', resized p' = resized p -> Good (ok t p') /\ Good (err t p')).
  { intros p' Hp. split; intro R; apply H; cbn in *; congruence. }
  destruct (starts_with _ _).
  { unfold load_custom_font. destruct (Font.load_custom_font _ _) as [[slot f]|e|s|]; try exact I; apply K; reflexivity. }
  destruct (lead_nums _ _) as [ns rest].
  destruct rest as [|c1 rest]; [apply K; reflexivity|].
  destruct c1; try (apply K; reflexivity).
  repeat (match goal with |- Good (match ?x with _ => _ end) => destruct x end; try (apply K; reflexivity)).
  all: try (apply K; repeat match goal with |- context [match ?x with _ => _ end] => destruct x end; reflexivity).
Qed.
Lemma parse_osc_good : forall t p p0, resized p = resized p0 -> InvA (mkA t p0) -> Good (parse_osc t p).
Proof.
  intros t p p0 Hr H. unfold parse_osc. destruct (lead_nums _ _) as [ns rest].
  assert (K : forall p', resized p' = resized p -> Good (ok t p') /\ Good (err t p')).
  { intros p' Hp. split; intro R; apply H; cbn in *; congruence. }
  repeat (match goal with
          | |- Good (match ?x with _ => _ end) => destruct x
          | |- Good (if ?x then _ else _) => destruct x
          end; try (apply K; reflexivity)).
Qed.
Lemma parse_default_music_good : forall t p p0 ch, resized p = resized p0 -> InvA (mkA t p0) -> Good (parse_default_music t p ch).
Proof.
  intros t p p0 ch Hr H. unfold parse_default_music.
  assert (K : forall p', resized p' = resized p -> Good (ok t p')).
  { intros p' Hp. intro R; apply H; cbn in *; congruence. }
  ifs; apply K; try reflexivity; destruct (_ >? _) || destruct (_ <? _); reflexivity.
Qed.
Lemma parse_music_good : forall t p ms ch, InvA (mkA t p) -> Good (parse_music t p ms ch).
Proof.
  intros t p ms ch H.
  assert (K : forall p', resized p' = resized p -> Good (ok t p') /\ Good (err t p')).
  { intros p' Hp. split; intro R; apply H; cbn in *; congruence. }
  destruct ms; cbn [parse_music]; ifs;
    try (apply K; reflexivity);
    try (eapply parse_default_music_good; [|exact H]; reflexivity).
  all: try (apply K; destruct (_ <? _) || destruct (_ >? _); reflexivity).
Qed.

(* ---- CSI without intermediate ---------------------------------------------------------------------------------------------------- *)
Lemma csi_final_good : forall t p is_start ch, InvA (mkA t p) -> Good (csi_final t p is_start ch).
Proof.
  intros t p is_start ch H. unfold csi_final.
  repeat match goal with
         | |- Good (if ?c then _ else _) => destruct c
         | |- Good (match nums p with _ => _ end) => destruct (nums p) as [|n1 [|n2 r]]
         | |- Good (match hpos_line t with _ => _ end) => destruct (hpos_line t)
         | |- Good (match ?l with [] => _ | _ :: _ => _ end) => destruct l
         end;
  first [ apply cmd_sgr_good; exact H | apply cmd_decslrm_good; exact H | apply cmd_ech_good; exact H
        | apply cmd_csr_good; exact H | apply cmd_decstbm_good; exact H | apply cmd_window_good; exact H
        | gok | gerr | glift | idtac ].
  (* what is left: iterated line / print operations and CVT / CBT *)
  all: try (repeat match goal with |- Good (match ?z with _ => _ end) => destruct z end; first [gok|gerr]).
  all: try (eapply good_lift; [reflexivity| |eassumption]; intros t' HI E; eapply lim_after; [apply HI| |exact E];
            repeat match goal with |- context [match ?x with _ => _ end] => destruct x end; reflexivity).
  all: try (eapply good_lift; [reflexivity| |eassumption]; intros t' HI E; unfold iter_res in E;
            first [ eapply Inv09_pgeo; [|exact HI]; eapply iter_res_pgeo; [|exact E]; intros ? ? HH; cbv beta in HH; exact (remove_terminal_line_pgeo _ _ _ HH)
                  | eapply Inv09_pgeo; [|exact HI]; eapply iter_res_pgeo; [|exact E]; intros ? ? HH; cbv beta in HH; exact (insert_terminal_line_pgeo _ _ _ HH)
                  | eapply iter_res_09; [|exact HI|exact E]; intros ? ? HI2 HH; cbv beta in HH; exact (print_char_09 _ _ _ HI2 HH)
                  | eapply limit_09; [|exact E]; eapply InvG_geo; [|apply HI]; apply iter_G; intro; reflexivity ]).
  all: try (eapply good_ok; [reflexivity| |eassumption]; intro HI;
            first [ apply iter_09; [apply cbt_step_09|exact HI] ]).
Qed.

Lemma csi_cmd_good : forall t p ch, InvA (mkA t p) -> Good (csi_cmd t p ch).
Proof.
  intros t p ch H. unfold csi_cmd.
  repeat match goal with
         | |- Good (if ?c then _ else _) => destruct c
         | |- Good (match ?l with [] => _ | _ :: _ => _ end) => destruct l
         end; first [ gok | gerr | idtac ].
  all: repeat match goal with |- Good (match ?z with _ => _ end) => destruct z end; first [gok|gerr].
Qed.
Lemma csi_req_good : forall t p ch, InvA (mkA t p) -> Good (csi_req t p ch).
Proof.
  intros t p ch H. unfold csi_req.
  repeat match goal with
         | |- Good (if ?c then _ else _) => destruct c
         | |- Good (match ?l with [] => _ | _ :: _ => _ end) => destruct l
         end; first [ apply cmd_reset_margins_good; exact H | apply cmd_ssm_good; exact H | gok | gerr ].
Qed.
Lemma csi_devattr_good : forall t p ch, InvA (mkA t p) -> Good (csi_devattr t p ch).
Proof. intros t p ch H. unfold csi_devattr. ifs; first [gok|gerr]. Qed.

Lemma step_default_good : forall t p p0 ch, resized p = resized p0 -> InvA (mkA t p0) -> Good (step_default t p ch).
Proof.
  intros t p p0 ch Hr H0.
  assert (H : InvA (mkA t p)) by (intro R; apply H0; cbn in *; congruence).
  unfold step_default. ifs; first [gok|glift].
Qed.

Lemma restore_saved_geo : forall t s, geo (restore_saved t s) = geo t.
Proof. intros t [[[[[[x y] fg] bg] bl] ice] i]. reflexivity. Qed.

(* ---- one character ------------------------------------------------------------------------------------------------------------------- *)
Lemma astep_gen_good : forall invoke,
  (forall t0 p0 id, InvA (mkA t0 p0) -> Good (invoke t0 p0 id)) ->
  forall m ch, InvA m -> Good (astep_gen invoke m ch).
Proof.
  intros invoke Hinv [t p] ch H. unfold astep_gen. cbn [tm ps].
  destruct (st p) eqn:ST.
  - (* SDefault *) eapply step_default_good; [|exact H]; reflexivity.
  - (* SEsc *)
    ifs; try (first [gok | glift | gerr]).
    all: try (destruct (saved_cur p) as [s|]; [|gok];
      eapply good_lift; [reflexivity| |eassumption]; intros t' HI E; eapply limit_09; [|exact E];
      eapply InvG_geo; [apply restore_saved_geo|apply HI]).
  - apply csi_final_good; exact H.
  - apply csi_cmd_good; exact H.
  - apply csi_req_good; exact H.
  - (* SRip *)
    destruct (ch =? 112).
    + eapply good_lift; [reflexivity| |eassumption]. intros t' HI E. eapply limit_09; [|exact E].
      eapply InvG_geo; [|apply reset_terminal_G; apply HI]. reflexivity.
    + eapply step_default_good; [|exact H]; reflexivity.
  - apply csi_devattr_good; exact H.
  - (* SEndCsi *)
    ifs; try (first [ gok | gerr | glift
                    | apply cmd_fill_rect_good; exact H | apply cmd_erase_rect_good; exact H
                    | apply cmd_sel_erase_rect_good; exact H | apply cmd_font_selection_good; exact H ]).
    all: try (destruct (nums p) as [|id r]; [gok|];
              assert (G : Good (invoke t (dflt p) id)) by (apply Hinv; intro R; apply H; exact R);
              destruct (invoke t (dflt p) id); exact G).
    all: try (eapply good_lift; [reflexivity| |eassumption]; intros t' HI E; unfold iter_res in E;
              eapply Inv09_pgeo; [|exact HI]; eapply iter_res_pgeo; [|exact E]; intros ? ? HH; exact (scroll_right_pgeo _ _ HH)).
    all: try (repeat match goal with |- Good (match ?l with _ => _ end) => destruct l end; try gerr; ifs; first [gok|gerr]).
  - (* SDcs *) ifs; gok.
  - (* SDcsEsc *) ifs; try gok. all: try (eapply execute_dcs_good; [|exact H]; reflexivity).
  - (* SDcsMacro *)
    ifs; try gok; try gerr.
    all: try (repeat match goal with |- Good (match ?l with _ => _ end) => destruct l end; try gerr).
    all: try (apply Hinv; intro R; apply H; exact R).
  - (* SMusic *) apply parse_music_good; exact H.
  - ifs; gok.
  - ifs; gok.
  - ifs; gok.
  - ifs; try gok. all: try (eapply parse_osc_good; [|exact H]; reflexivity).
Qed.

Lemma feed_macro_good : forall stepf, (forall m c, InvA m -> Good (stepf m c)) ->
  forall body t0 p0, InvA (mkA t0 p0) -> Good (feed_macro stepf body t0 p0).
Proof.
  intros stepf Hs body t0 p0 H. unfold feed_macro.
  assert (G0 : Good (ok t0 p0)) by exact H.
  generalize dependent (ok t0 p0). induction body as [|c r IH]; intros o Go; cbn; [exact Go|].
  apply IH. destruct o as [m1|m1|s|m1]; try exact Go.
  pose proof (Hs m1 c Go) as G. destruct (stepf m1 c); exact G.
Qed.

Lemma astep_good : forall fuel m ch, InvA m -> Good (astep fuel m ch).
Proof.
  induction fuel as [|k IH]; intros m ch H; cbn [astep]; apply astep_gen_good; try exact H.
  - intros t0 p0 id H0. destruct (lookup id (macros p0)); exact H0.
  - intros t0 p0 id H0. destruct (lookup id (macros p0)) as [body|]; [|exact H0]. apply feed_macro_good; [exact IH|exact H0].
Qed.

Lemma ansi_step_good : forall m ch, InvA m -> Good (ansi_step m ch).
Proof. intros. apply astep_good. assumption. Qed.

(* origin mode is never WithinMargins: part of Inv09 (InvG), hence of every reachable state without resize; the
   stand-alone statement over arbitrary states (resize or not) is in Proofs/C01Proofs.v (origin_never_margins). *)
