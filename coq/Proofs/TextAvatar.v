(* The Avatar instance of the row sync law: run scanner, ^V^A attr, ^Y c n. *)
From Coq Require Import NArith Bool List Arith Lia.
From IE Require Import Lib.Tbl Lib.Bits Lib.C15Lib Gen.Codepage Gen.TextFmt Model.Attr Model.TextBuf Model.TextWriters Model.TextParsers
                       Proofs.TextBufProofs Proofs.TextSync Proofs.TextRoundtrip Proofs.TextFormats.
Import ListNotations.
Local Open Scope N_scope.

Definition avt_char (ch : N) : bool := ansi_char ch && negb (memN ch [22; 25; 12]).
Definition avt_dom (c : cell) : Prop := avt_char (cch c) = true /\ colour_dom c.
Definition avt_R (ws : bool * TextAttribute) (ps : avt_ps) (a : TextAttribute) : Prop :=
  ps = AChars /\ agood a /\
  (fst ws = false -> foreground_color (snd ws) = foreground_color a /\ background_color (snd ws) = background_color a).

(* ---------- parser side ---------- *)
Lemma avt_arun_code a0 b :
  arun avt_ps avt_astep AChars a0 [22; 1; b] = Some (AChars, from_u8 (b mod 256) Unlimited).
Proof. reflexivity. Qed.

Lemma avt_attr_sweep :
  forallb (fun f => forallb (fun g =>
    attr_same (from_u8 ((as_u8_core f g false false Unlimited) mod 256) Unlimited) (cattr f g)) (nrange 8)) (nrange 16) = true.
Proof. vm_compute. reflexivity. Qed.

Lemma avt_attr_ok a : foreground_color a < 16 -> background_color a < 8 -> attr a = 0 ->
  from_u8 (as_u8 a Unlimited mod 256) Unlimited = cattr (foreground_color a) (background_color a).
Proof.
  intros Hf Hg Ha. unfold as_u8, is_bold, is_blinking, has_flag. rewrite Ha.
  change (N.land 0 ATTR_BOLD =? ATTR_BOLD) with false. change (N.land 0 ATTR_BLINK =? ATTR_BLINK) with false.
  pose proof (nrange_forallb _ _ avt_attr_sweep _ Hf) as H1. cbv beta in H1.
  pose proof (nrange_forallb _ _ H1 _ Hg) as H2. cbv beta in H2. apply attr_same_eq in H2. exact H2.
Qed.

Lemma avt_char_step w p ch : avt_char ch = true ->
  step avt_ps avt_astep (avt_bstep w) AChars p ch = Some (AChars, print_char w p (mkCell ch (pattr p))).
Proof.
  intro H. apply andb_prop in H as (Ha & Hn). unfold memN in Hn. cbn [existsb] in Hn.
  unfold step, avt_astep, avt_bstep, AVT_REP, AVT_CMD, AVT_CLR.
  apply negb_true_iff in Hn. apply orb_false_elim in Hn as (E1 & Hn). apply orb_false_elim in Hn as (E2 & Hn).
  apply orb_false_elim in Hn as (E3 & _). rewrite E1, E2, E3. rewrite (ansi_print_char w p ch Ha). reflexivity.
Qed.

Lemma put_set_attr w p a c : put w (set_attr p a) c = put w p c.
Proof. reflexivity. Qed.

Lemma print_is_put w p ch : print_char w p (mkCell ch (pattr p)) = put w p (mkCell ch (pattr p)).
Proof. unfold put. cbn [cat]. rewrite set_attr_same. reflexivity. Qed.

Lemma puts_repeat_attr w ch a n : forall p, pattr p = a -> pattr (puts w p (repeat (mkCell ch a) n)) = a.
Proof.
  induction n as [|n IH]; intros p Hp; [exact Hp|]. cbn [repeat]. unfold puts. cbn [fold_left].
  apply (IH (put w p (mkCell ch a))). apply put_attr.
Qed.

Lemma avt_run_chars w ch n : avt_char ch = true -> forall p,
  run avt_ps avt_astep (avt_bstep w) AChars p (repeat ch n) = Some (AChars, puts w p (repeat (mkCell ch (pattr p)) n)).
Proof.
  intro Hc. induction n as [|n IH]; intro p; [reflexivity|].
  cbn [repeat run]. rewrite (avt_char_step w p ch Hc), print_is_put.
  rewrite IH. rewrite put_attr. reflexivity.
Qed.

Lemma ansi_repeat_puts w ch n : ansi_char ch = true -> forall p,
  ansi_repeat w n p ch = Some (puts w p (repeat (mkCell ch (pattr p)) n)).
Proof.
  intro Hc. induction n as [|n IH]; intro p; [reflexivity|].
  cbn [ansi_repeat repeat]. rewrite (ansi_print_char w p ch Hc), print_is_put.
  rewrite IH. rewrite put_attr. reflexivity.
Qed.

Lemma avt_run_rep w p ch n : ansi_char ch = true ->
  run avt_ps avt_astep (avt_bstep w) AChars p [25; ch; n] =
  Some (AChars, puts w p (repeat (mkCell ch (pattr p)) (N.to_nat n))).
Proof.
  intro Hc.
  assert (H1 : arun avt_ps avt_astep AChars (pattr p) [25; ch] = Some (ARep2 ch, pattr p)) by reflexivity.
  change [25; ch; n] with ([25; ch] ++ [n]).
  rewrite (run_code_then avt_ps avt_astep (avt_bstep w) [25; ch] n AChars p (ARep2 ch) (pattr p) _ H1 eq_refl).
  rewrite set_attr_same. unfold step. cbn [avt_astep avt_bstep].
  rewrite (ansi_repeat_puts w ch (N.to_nat n) Hc). reflexivity.
Qed.

(* ---------- writer side: the run scanner ---------- *)
Lemma avt_scan_spec w r fuel : forall x rc,
  let '(x1, rc1) := avt_scan fuel w r x rc in
  (x <= x1)%nat /\ rc1 = (rc + (x1 - x))%nat /\
  forall i, (x <= i)%nat -> (i < x1)%nat -> cell_eqb (row_get r i) (row_get r (S i)) = true /\ (i + 3 < w)%nat.
Proof.
  induction fuel as [|fuel IH]; intros x rc; cbn [avt_scan].
  - split; [lia|]. split; [lia|]. intros; lia.
  - destruct ((x + AVT_LOOKAHEAD <? w)%nat && cell_eqb (row_get r x) (row_get r (S x))) eqn:E.
    + specialize (IH (S x) (S rc)). destruct (avt_scan fuel w r (S x) (S rc)) as [x1 rc1].
      destruct IH as (A & B & C). split; [lia|]. split; [lia|].
      intros i Hi1 Hi2. destruct (Nat.eq_dec i x) as [->|Hne].
      * apply andb_prop in E as (E1 & E2). apply Nat.ltb_lt in E1. unfold AVT_LOOKAHEAD in E1. split; [exact E2|lia].
      * apply C; lia.
    + split; [lia|]. split; [lia|]. intros; lia.
Qed.

Lemma cell_eqb_true c d : cell_eqb c d = true ->
  cch c = cch d /\ foreground_color (cat c) = foreground_color (cat d) /\
  background_color (cat c) = background_color (cat d) /\ attr (cat c) = attr (cat d).
Proof.
  unfold cell_eqb. intro H. apply andb_prop in H as (H1 & H2). apply N.eqb_eq in H1.
  destruct (attr_eqb_true _ _ H2) as (A & B & C). auto.
Qed.

Lemma cell_eqb_transparent c d : cell_eqb c d = true -> is_transparent c = is_transparent d.
Proof. intro H. destruct (cell_eqb_true _ _ H) as (A & _ & B & _). unfold is_transparent. rewrite A, B. reflexivity. Qed.

(* a run that starts before the end of the line stays before it *)
Lemma run_inside w r x x1 :
  (x < line_length w r)%nat -> (x <= x1)%nat ->
  (forall i, (x <= i)%nat -> (i < x1)%nat -> cell_eqb (row_get r i) (row_get r (S i)) = true /\ (i + 3 < w)%nat) ->
  (x1 < line_length w r)%nat.
Proof.
  intros Hx Hle Hrun. destruct (line_length_spec w r) as (HLw & Htr & Hlast).
  destruct (Nat.lt_ge_cases x1 (line_length w r)) as [H|H]; [exact H|exfalso].
  set (L := line_length w r) in *.
  assert (HL : (0 < L)%nat) by lia.
  destruct (Hrun (L - 1)%nat ltac:(lia) ltac:(lia)) as (Heq & Hw3).
  apply cell_eqb_transparent in Heq. rewrite (Hlast HL) in Heq.
  replace (S (L - 1)) with L in Heq by lia. rewrite (Htr L ltac:(lia) ltac:(lia)) in Heq. discriminate.
Qed.

Lemma run_cells_eq r x x1 :
  (forall i, (x <= i)%nat -> (i < x1)%nat -> cell_eqb (row_get r i) (row_get r (S i)) = true) ->
  forall i, (x <= i)%nat -> (i <= x1)%nat -> cell_eqb (row_get r i) (row_get r x1) = true \/ i = x1.
Proof.
  intros Hrun i Hi1 Hi2. remember (x1 - i)%nat as d eqn:Ed. revert i Hi1 Hi2 Ed.
  induction d as [|d IH]; intros i Hi1 Hi2 Ed; [right; lia|]. left.
  pose proof (Hrun i Hi1 ltac:(lia)) as E1.
  destruct (IH (S i) ltac:(lia) ltac:(lia) ltac:(lia)) as [E2|E2].
  - destruct (cell_eqb_true _ _ E1) as (A1 & A2 & A3 & A4). destruct (cell_eqb_true _ _ E2) as (B1 & B2 & B3 & B4).
    unfold cell_eqb, attr_eqb. rewrite A1, B1, A2, B2, A3, B3, A4, B4. rewrite !N.eqb_refl. reflexivity.
  - rewrite <- E2. exact E1.
Qed.

Lemma Forall2_repeat_seq {A B} (P : A -> B -> Prop) (d : A) (f : nat -> B) n : forall x,
  (forall i, (x <= i)%nat -> (i < x + n)%nat -> P d (f i)) -> Forall2 P (repeat d n) (map f (seq x n)).
Proof.
  induction n as [|n IH]; intros x H; cbn [repeat seq map]; constructor.
  - apply H; lia.
  - apply IH. intros i H1 H2. apply H; lia.
Qed.

Lemma avt_char_prop ch : avt_char ch = true ->
  ansi_char ch = true /\ (ch =? 22) = false /\ (ch =? 25) = false /\ (ch =? 12) = false.
Proof.
  intro H. apply andb_prop in H as (Ha & Hn). unfold memN in Hn. cbn [existsb] in Hn.
  apply negb_true_iff in Hn. apply orb_false_elim in Hn as (E1 & Hn). apply orb_false_elim in Hn as (E2 & Hn).
  apply orb_false_elim in Hn as (E3 & _). auto.
Qed.

Section AvtRow.
  Variable w : nat.
  Hypothesis Hw255 : (w <= 255)%nat.
  Variable r : srow.
  Let L := line_length w r.
  Hypothesis Hdom : Forall avt_dom (row_cells w r).

  Lemma avt_dom_at x : (x < L)%nat -> avt_dom (row_get r x).
  Proof.
    intro H. rewrite Forall_forall in Hdom. apply Hdom. apply (nth_error_In _ x). apply row_cells_nth. exact H.
  Qed.

  Lemma avt_row_acc fuel : forall st x acc,
    avt_row fuel w L r st x acc =
    let '(bs, st', x') := avt_row fuel w L r st x [] in (acc ++ bs, st', x').
  Proof.
    induction fuel as [|fuel IH]; intros st x acc; cbn [avt_row].
    - rewrite app_nil_r. reflexivity.
    - destruct (x <? L)%nat; [|rewrite app_nil_r; reflexivity].
      destruct (avt_scan w w r x 1) as [x1 rc]. destruct st as [first last].
      rewrite IH. rewrite (IH _ _ ([] ++ _)).
      destruct (avt_row fuel w L r _ (S x1) []) as [[bs st'] x']. cbn [app]. rewrite <- !app_assoc. reflexivity.
  Qed.

  (* the attribute code in front of a run *)
  Lemma avt_code_run first last c ps p :
    avt_R (first, last) ps (pattr p) -> avt_dom c ->
    exists a', run avt_ps avt_astep (avt_bstep w) ps p (avt_code first last (cat c)) = Some (AChars, set_attr p a') /\
               agood a' /\ foreground_color a' = foreground_color (cat c) /\ background_color a' = background_color (cat c) /\
               avt_R (false, if first || negb (attr_eqb (cat c) last) then cat c else last) AChars a'.
  Proof.
    intros (Hps & Hag & Hlast) (_ & Hf & Hg & Ha). subst ps. cbn [fst snd] in Hlast. unfold avt_code.
    destruct (first || negb (attr_eqb (cat c) last)) eqn:Ec.
    - exists (cattr (foreground_color (cat c)) (background_color (cat c))). split; [|split; [|split; [|split]]].
      + apply arun_run. rewrite avt_arun_code, (avt_attr_ok _ Hf Hg Ha). reflexivity.
      + apply cattr_agood.
      + reflexivity.
      + reflexivity.
      + split; [reflexivity|]. split; [apply cattr_agood|]. intros _. split; reflexivity.
    - apply orb_false_elim in Ec as (E1 & E2). subst first. apply negb_false_iff in E2.
      destruct (attr_eqb_true _ _ E2) as (A1 & A2 & A3). destruct (Hlast eq_refl) as (B1 & B2).
      exists (pattr p). split; [|split; [|split; [|split]]].
      + cbn [run]. rewrite set_attr_same. reflexivity.
      + exact Hag.
      + congruence.
      + congruence.
      + split; [reflexivity|]. split; [exact Hag|]. intros _. cbn [snd]. split; assumption.
  Qed.

  (* the body of a run: rc copies of the cell, printed with the attribute in force *)
  Lemma avt_body_run c rc p :
    avt_dom c -> (1 <= rc)%nat -> (rc <= w)%nat ->
    run avt_ps avt_astep (avt_bstep w) AChars p (avt_body c rc) =
    Some (AChars, puts w p (repeat (mkCell (cch c) (pattr p)) rc)).
  Proof.
    intros (Hch & _) H1 H2. destruct (avt_char_prop _ Hch) as (Hansi & E22 & E25 & E12).
    destruct (ansi_char_small _ Hansi) as (Hm & Hz).
    unfold avt_body, AVT_QUOTED, AVT_SHORT_RUN, memN. cbn [existsb]. rewrite E22, E25, E12. cbn [orb negb]. rewrite Hm, andb_true_r.
    destruct (Nat.ltb_spec 1 rc) as [Hgt|Hle].
    - destruct (rc <? 4)%nat.
      + apply avt_run_chars. exact Hch.
      + rewrite (avt_run_rep w p (cch c) _ Hansi).
        replace (N.to_nat (N.of_nat rc mod 256)) with rc; [reflexivity|].
        rewrite N.mod_small by lia. rewrite Nat2N.id. reflexivity.
    - assert (rc = 1%nat) by lia. subst rc. rewrite (out_ch_ansi c Hansi).
      cbn [run repeat]. rewrite (avt_char_step w p (cch c) Hch), print_is_put. reflexivity.
  Qed.

  Lemma avt_row_sync fuel : forall st x ps p,
    (L - x < fuel)%nat -> (x <= L)%nat -> avt_R st ps (pattr p) ->
    exists bs st', avt_row fuel w L r st x [] = (bs, st', L) /\
      exists ps' cs', run avt_ps avt_astep (avt_bstep w) ps p bs = Some (ps', puts w p cs') /\
                      avt_R st' ps' (pattr (puts w p cs')) /\
                      Forall2 colour_rel cs' (map (row_get r) (seq x (L - x))) /\ Forall good cs'.
  Proof.
    induction fuel as [|fuel IH]; intros st x ps p Hfuel HxL HR; [lia|]. cbn [avt_row].
    destruct (Nat.ltb_spec x L) as [Hlt|Hge].
    - pose proof (avt_scan_spec w r w x 1) as Hscan.
      destruct (avt_scan w w r x 1) as [x1 rc]. destruct Hscan as (Hx1 & Hrc & Hrun).
      assert (Hx1L : (x1 < L)%nat) by (apply (run_inside w r x x1 Hlt Hx1 Hrun)).
      set (c := row_get r x1). assert (Hc : avt_dom c) by (apply avt_dom_at; exact Hx1L).
      destruct st as [first last].
      destruct (avt_code_run first last c ps p HR Hc) as (a' & Hcode & Hag' & Hfg' & Hbg' & HR').
      set (last' := if first || negb (attr_eqb (cat c) last) then cat c else last) in *.
      assert (HLw : (L <= w)%nat) by apply line_length_spec.
      assert (Hbody := avt_body_run c rc (set_attr p a') Hc ltac:(lia) ltac:(lia)).
      cbn [pattr set_attr] in Hbody.
      set (cs1 := repeat (mkCell (cch c) a') rc) in *.
      assert (Hp1 : puts w (set_attr p a') cs1 = puts w p cs1).
      { unfold cs1. destruct rc as [|rc']; [lia|]. reflexivity. }
      rewrite Hp1 in Hbody. set (p1 := puts w p cs1) in *.
      assert (Ha1 : pattr p1 = a').
      { rewrite <- Hp1. apply puts_repeat_attr. reflexivity. }
      assert (HR1 : avt_R (false, last') AChars (pattr p1)) by (rewrite Ha1; exact HR').
      destruct (IH (false, last') (S x1) AChars p1 ltac:(lia) ltac:(lia) HR1) as (bs2 & st2 & Hrow2 & ps2 & cs2 & Hrun2 & HR2 & Hrel2 & Hg2).
      rewrite avt_row_acc, Hrow2. cbn [app].
      eexists. eexists. split; [reflexivity|].
      exists ps2, (cs1 ++ cs2). split; [|split; [|split]].
      + rewrite <- app_assoc. rewrite run_app, Hcode, run_app, Hbody. fold p1. rewrite Hrun2. unfold puts. rewrite fold_left_app. reflexivity.
      + unfold puts in *. rewrite fold_left_app. exact HR2.
      + replace (L - x)%nat with (rc + (L - S x1))%nat by lia. rewrite seq_app, map_app.
        replace (x + rc)%nat with (S x1) by lia.
        apply Forall2_app; [|exact Hrel2].
        unfold cs1. apply Forall2_repeat_seq. intros i Hi1 Hi2.
        assert (Hic : cch (row_get r i) = cch c /\ foreground_color (cat (row_get r i)) = foreground_color (cat c) /\
                      background_color (cat (row_get r i)) = background_color (cat c)).
        { destruct (run_cells_eq r x x1 (fun j A B => proj1 (Hrun j A B)) i Hi1 ltac:(lia)) as [E|E].
          - destruct (cell_eqb_true _ _ E) as (A & B & C & _). auto.
          - subst i. auto. }
        destruct Hic as (A & B & C). split; [cbn; congruence|]. cbn [cat]. split; congruence.
      + apply Forall_app. split; [|exact Hg2]. unfold cs1. apply Forall_forall. intros d Hd.
        apply repeat_spec in Hd. subst d. apply agood_cell, Hag'.
    - assert (x = L) by lia. subst x. exists [], st. split; [reflexivity|].
      exists ps, []. rewrite Nat.sub_diag. cbn [seq map run puts fold_left].
      split; [reflexivity|]. split; [exact HR|]. split; constructor.
  Qed.
End AvtRow.

Lemma avt_row_sync_law w : (w <= 255)%nat ->
  row_sync w avt_ps (bool * TextAttribute) avt_astep (avt_bstep w) (avt_emit_row w) avt_R
           (fun r => Forall avt_dom (row_cells w r)) colour_rel.
Proof.
  intros Hw ws ps p r bs ws' x HR Hdom Hem. unfold avt_emit_row in Hem.
  destruct (avt_row_sync w Hw r Hdom (S w) ws 0%nat ps p) as (bs2 & st2 & Hrow & ps' & cs' & Hrun & HR2 & Hrel & Hg).
  - pose proof (proj1 (line_length_spec w r)). lia.
  - lia.
  - exact HR.
  - rewrite Hrow in Hem. inversion Hem; subst. split; [reflexivity|].
    exists ps', cs'. rewrite Nat.sub_0_r in Hrel. auto.
Qed.

Lemma avt_eol_sync w : eol_sync avt_ps (bool * TextAttribute) avt_astep (avt_bstep w) EOL_CRLF avt_R.
Proof. intros ws ps p (Hps & _). subst ps. reflexivity. Qed.

Lemma avt_row_step f w L r st x acc :
  avt_row (S f) w L r st x acc =
  if (x <? L)%nat then
    let '(x1, rc) := avt_scan w w r x 1 in
    let c := row_get r x1 in
    let '(first, last) := st in
    let last' := if first || negb (attr_eqb (cat c) last) then cat c else last in
    avt_row f w L r (false, last') (S x1) (acc ++ avt_code first last (cat c) ++ avt_body c rc)
  else (acc, st, x).
Proof. reflexivity. Qed.

(* the first byte of an Avatar body is ^V or CR: never the first byte of a UTF-8 BOM *)
Lemma avt_body_head w b body :
  nonempty_last w b ->
  rows_loop _ (avt_emit_row w) EOL_CRLF w (length b) (true, default_attribute) b 0 = Some body ->
  exists t, body = 22 :: t \/ body = 13 :: t.
Proof.
  intros (Hne & Hlast) Hloop. destruct b as [|r rest]; [congruence|].
  cbn [rows_loop] in Hloop. unfold avt_emit_row at 1 in Hloop. rewrite avt_row_step in Hloop.
  destruct (Nat.ltb_spec 0 (line_length w r)) as [E0|E0].
  - destruct (avt_scan w w r 0 1) as [x1 rc].
    rewrite avt_row_acc in Hloop.
    destruct (avt_row w w (line_length w r) r _ (S x1) []) as [[bs st'] x'].
    destruct (rows_loop _ _ _ _ _ _ rest 1) as [t|]; [|discriminate]. inversion Hloop; subst.
    unfold avt_code. cbn [orb app]. eexists. left. reflexivity.
  - destruct (rows_loop _ _ _ _ _ _ rest 1) as [t|]; [|discriminate]. inversion Hloop; subst.
    destruct rest as [|r2 rest'].
    + exfalso. cbn [last] in Hlast. lia.
    + assert (Hw : (0 < w)%nat).
      { destruct w; [|lia]. exfalso. cbn [last] in Hlast. pose proof (proj1 (line_length_spec 0 (last (r2 :: rest') []))). cbn [last] in *. lia. }
      replace (0 <? w)%nat with true by (symmetry; apply Nat.ltb_lt; lia).
      cbn [length]. replace (1 <? S (S (length rest')))%nat with true by (symmetry; apply Nat.ltb_lt; lia).
      cbn [andb app]. unfold EOL_CRLF. cbn [app]. eexists. right. reflexivity.
Qed.

Theorem avt_roundtrip_proof : forall pr b,
  dom_rows 80 avt_dom b -> nonempty_last 80 b ->
  exists bytes, write AVT pr 80 b = WOk bytes /\
    (sauce_gate bytes = false ->
     exists q, load AVT bytes = Loaded q /\ picture 80 colour_rel b q).
Proof.
  intros pr b Hd Hl.
  destruct (rows_loop_total _ (avt_emit_row 80) EOL_CRLF 80 (fun _ => True)
              ltac:(intros; unfold avt_emit_row; eauto) b (length b) (true, default_attribute) 0%nat
              ltac:(apply Forall_forall; auto)) as (body & Hbody).
  exists (prep_bytes AVT pr ++ body). split.
  - unfold write, write_body. rewrite Hbody. reflexivity.
  - intros Hs. unfold load. rewrite Hs.
    destruct (avt_body_head 80 b body Hl Hbody) as (t & Ht).
    assert (Hb : bom_gate (prep_bytes AVT pr ++ body) = false).
    { destruct pr; cbn [prep_bytes app]; try reflexivity; destruct Ht as [-> | ->]; reflexivity. }
    rewrite Hb. unfold parse. change (load_width AVT) with 80%nat.
    refine (assemble 80 ltac:(lia) _ _ avt_astep (avt_bstep 80) (avt_emit_row 80) EOL_CRLF avt_R _ colour_rel
              (avt_row_sync_law 80 ltac:(lia)) (avt_eol_sync 80)
              (true, default_attribute) AChars (page0 AVT) (prep_bytes AVT pr) AChars (page0 AVT) b body
              _ eq_refl eq_refl eq_refl _ Hd Hl Hbody).
    + destruct pr; reflexivity.
    + split; [reflexivity|]. split; [apply default_agood|]. cbn [fst]. discriminate.
Qed.

(* the model's scanner fuel (= width) is never what stops the scan: the Rust `while` has no fuel *)
Lemma avt_scan_stops w r fuel : forall x rc, (w - x <= fuel)%nat ->
  ((fst (avt_scan fuel w r x rc) + AVT_LOOKAHEAD <? w)%nat &&
   cell_eqb (row_get r (fst (avt_scan fuel w r x rc))) (row_get r (S (fst (avt_scan fuel w r x rc))))) = false.
Proof.
  induction fuel as [|fuel IH]; intros x rc H; cbn [avt_scan].
  - cbn [fst]. replace (x + AVT_LOOKAHEAD <? w)%nat with false; [reflexivity|]. symmetry. apply Nat.ltb_ge. lia.
  - destruct ((x + AVT_LOOKAHEAD <? w)%nat && cell_eqb (row_get r x) (row_get r (S x))) eqn:E.
    + apply IH. apply andb_prop in E as (E1 & _). apply Nat.ltb_lt in E1. lia.
    + cbn [fst]. exact E.
Qed.

(* ---------- merged tree: every Avatar cursor command that can move right / set the column ends with
   TerminalState::limit_caret_pos, so the caret column never leaves the screen (the loaders' non-terminal buffer:
   the row is not limited).  Not needed for the round trip (the writer's only goto is ^V^H 1 1, on which the
   clamp is the identity: limit_caret_id), but it is what the merged fix commits establish. ---------- *)
Lemma limit_caret_px w p : (0 < w)%nat -> (px (limit_caret w p) < w)%nat.
Proof. intro H. unfold limit_caret, set_pos. cbn [px]. lia. Qed.

Lemma limit_caret_py w p : py (limit_caret w p) = py p.
Proof. reflexivity. Qed.

Lemma limit_caret_id w p : (px p < w)%nat -> limit_caret w p = p.
Proof. intro H. destruct p as [ls x y a h]. unfold limit_caret, set_pos. cbn [px py lines pattr lh] in *. f_equal. lia. Qed.

Lemma avt_home_goto w p : (0 < w)%nat ->
  run avt_ps avt_astep (avt_bstep w) AChars p [22; 8; 1; 1] = Some (AChars, set_pos p 0 0).
Proof.
  intro H. cbn [run step avt_astep avt_bstep]. cbn.
  rewrite limit_caret_id; [reflexivity|]. cbn [px set_pos set_attr]. exact H.
Qed.

Lemma print_char_px w p c : (0 < w)%nat -> (px p < w)%nat -> (px (print_char w p c) < w)%nat.
Proof.
  intros Hw Hp. unfold print_char. cbn [px].
  destruct (Nat.leb_spec w (S (px p))); [unfold lf; cbn [px]; exact Hw | cbn [px]; lia].
Qed.

Lemma ansi_print_px w p ch p' : (0 < w)%nat -> (px p < w)%nat -> ansi_print w p ch = Some p' -> (px p' < w)%nat.
Proof.
  intros Hw Hp. unfold ansi_print.
  destruct (ch =? 27); [discriminate|].
  destruct (ch =? C_LF); [intro E; inversion E; subst; exact Hw|].
  destruct (ch =? C_FF); [intro E; inversion E; subst; exact Hw|].
  destruct (ch =? C_CR); [intro E; inversion E; subst; exact Hw|].
  destruct (ch =? C_BEL); [intro E; inversion E; subst; exact Hp|].
  destruct (ch =? 127); [intro E; inversion E; subst; exact Hp|].
  intro E; inversion E; subst. apply print_char_px; assumption.
Qed.

Lemma ansi_repeat_px w ch n : (0 < w)%nat -> forall p p', (px p < w)%nat -> ansi_repeat w n p ch = Some p' -> (px p' < w)%nat.
Proof.
  intro Hw. induction n as [|n IH]; intros p p' Hp; cbn [ansi_repeat].
  - intro E; inversion E; subst; exact Hp.
  - destruct (ansi_print w p ch) as [p1|] eqn:E1; [|discriminate].
    apply IH. exact (ansi_print_px w p ch p1 Hw Hp E1).
Qed.

Lemma avt_step_column w : (0 < w)%nat -> forall ps p ch ps' p', (px p < w)%nat ->
  step avt_ps avt_astep (avt_bstep w) ps p ch = Some (ps', p') -> (px p' < w)%nat.
Proof.
  intros Hw ps p ch ps' p' Hp. unfold step.
  destruct (avt_astep ps (pattr p) ch) as [[ps1 a1]|] eqn:Ea.
  - intro E; inversion E; subst. exact Hp.
  - destruct ps; cbn [avt_bstep].
    + destruct (ch =? AVT_CLR); [intro E; inversion E; subst; exact Hw|].
      destruct (ansi_print w p ch) as [p1|] eqn:E1; cbn [lift_print]; [|discriminate].
      intro E; inversion E; subst. exact (ansi_print_px w p ch p' Hw Hp E1).
    + discriminate.
    + destruct (ansi_repeat w (N.to_nat ch) p c) as [p1|] eqn:E1; cbn [lift_print]; [|discriminate].
      intro E; inversion E; subst. exact (ansi_repeat_px w c _ Hw p p' Hp E1).
    + cbv zeta.
      destruct (ch mod 65536 =? 3); [intro E; inversion E; subst; apply limit_caret_px; exact Hw|].
      destruct (ch mod 65536 =? 4); [intro E; inversion E; subst; apply limit_caret_px; exact Hw|].
      destruct (ch mod 65536 =? 5); [intro E; inversion E; subst; cbn [px set_pos]; lia|].
      destruct (ch mod 65536 =? 6); [intro E; inversion E; subst; apply limit_caret_px; exact Hw|].
      discriminate.
    + discriminate.
    + discriminate.
    + intro E; inversion E; subst. apply limit_caret_px; exact Hw.
Qed.

Theorem avt_caret_column_proof : forall w bs ps p ps' p', (0 < w)%nat -> (px p < w)%nat ->
  run avt_ps avt_astep (avt_bstep w) ps p bs = Some (ps', p') -> (px p' < w)%nat.
Proof.
  intros w bs. induction bs as [|ch t IH]; intros ps p ps' p' Hw Hp; cbn [run].
  - intro E; inversion E; subst; exact Hp.
  - destruct (step avt_ps avt_astep (avt_bstep w) ps p ch) as [[ps1 p1]|] eqn:E1; [|discriminate].
    apply IH; [exact Hw|]. exact (avt_step_column w Hw ps p ch ps1 p1 Hp E1).
Qed.
