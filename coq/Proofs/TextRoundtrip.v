(* Assembly of the round-trip statement from a row sync law (generic), the per-cell reading of the loaded
   picture, and the six instances. *)
From Coq Require Import NArith Bool List Arith Lia.
From IE Require Import Lib.Tbl Lib.Bits Gen.Codepage Gen.TextFmt Model.Attr Model.TextBuf Model.TextWriters Model.TextParsers
                       Proofs.TextBufProofs Proofs.TextSync.
Import ListNotations.

Lemma Forall2_nth_error {A B} (R : A -> B -> Prop) l l' : Forall2 R l l' ->
  forall i a b, nth_error l i = Some a -> nth_error l' i = Some b -> R a b.
Proof.
  induction 1 as [|x y lx ly Hxy Hl IH]; intros i a b Ha Hb; [destruct i; discriminate|].
  destruct i; cbn [nth_error] in *; [inversion Ha; inversion Hb; subst; exact Hxy|exact (IH i a b Ha Hb)].
Qed.

(* what the loaded buffer q shows, relative to the source b: every significant cell is related to its source cell,
   everything after the end of a row reads as a blank *)
Definition cells_ok (w : nat) (rel : cell -> cell -> Prop) (b : sbuf) (q : pbuf) : Prop :=
  forall x y, y < length b -> x < w ->
    (x < line_length w (nth y b []) -> rel (lget w q x y) (row_get (nth y b []) x)) /\
    (line_length w (nth y b []) <= x -> lget w q x y = blank).

Definition picture (w : nat) (rel : cell -> cell -> Prop) (b : sbuf) (q : pbuf) : Prop :=
  length (lines q) = length b /\ lh q = length b /\ cells_ok w rel b q.

Definition nonempty_last (w : nat) (b : sbuf) : Prop := b <> [] /\ 0 < line_length w (last b []).

Lemma stored_rows w (rel : cell -> cell -> Prop) b stored :
  Forall2 (Forall2 rel) stored (map (row_cells w) b) ->
  length stored = length b /\
  forall y r s, nth_error stored y = Some s -> nth_error b y = Some r ->
                length s = line_length w r /\ Forall2 rel s (row_cells w r).
Proof.
  intro Hrel. split; [rewrite (Forall2_len _ _ _ Hrel), map_length; reflexivity|].
  intros y r s Hs Hr. revert y Hs Hr. remember (map (row_cells w) b) as m eqn:Em. revert b Em.
  induction Hrel as [|s0 m0 st mt H0 Ht IH]; intros b Em y Hs Hr; [destruct y; discriminate|].
  destruct b as [|r0 bt]; [discriminate|]. cbn [map] in Em. inversion Em; subst.
  destruct y as [|y]; cbn [nth_error] in *.
  - inversion Hs; inversion Hr; subst. split; [|exact H0]. rewrite (Forall2_len _ _ _ H0). apply row_cells_length.
  - exact (IH bt eq_refl y Hs Hr).
Qed.

Lemma stored_shape w (rel : cell -> cell -> Prop) b stored :
  Forall2 (Forall2 rel) stored (map (row_cells w) b) -> nonempty_last w b ->
  stored <> [] /\ Forall (fun r => length r <= w) stored /\ last stored [] <> [].
Proof.
  intros Hrel (Hne & Hlast). destruct (stored_rows w rel b stored Hrel) as (Hlens & Hrowlen).
  assert (Hsne : stored <> []) by (destruct stored; [destruct b; [congruence|discriminate]|discriminate]).
  split; [exact Hsne|]. split.
  - apply Forall_forall. intros s Hs. apply In_nth_error in Hs as (y & Hy).
    destruct (nth_error b y) as [r|] eqn:Er.
    + destruct (Hrowlen y r s Hy Er) as (E & _). rewrite E. apply line_length_spec.
    + apply nth_error_None in Er. assert (y < length stored) by (apply nth_error_Some; congruence). lia.
  - pose proof (nth_error_last stored [] Hsne) as A. pose proof (nth_error_last b [] Hne) as B.
    rewrite Hlens in A. destruct (Hrowlen _ _ _ A B) as (E & _).
    intro Z. rewrite Z in E. cbn in E. lia.
Qed.

Lemma cells_from_view w (rel : cell -> cell -> Prop) b stored q :
  Forall2 (Forall2 rel) stored (map (row_cells w) b) -> Forall (Forall good) stored ->
  (forall x y, y < length b -> view (lines q) x y = spec_view stored x y) ->
  length b <= lh q ->
  cells_ok w rel b q.
Proof.
  intros Hrel Hgood C Hlh x y Hyb Hxw.
  destruct (stored_rows w rel b stored Hrel) as (Hlens & Hrowlen).
  assert (Er : nth_error b y = Some (nth y b [])) by (apply nth_error_nth'; exact Hyb).
  destruct (nth_error stored y) as [s|] eqn:Es; [|apply nth_error_None in Es; lia].
  destruct (Hrowlen y _ s Es Er) as (Elen & Hrs).
  unfold lget.
  replace (x <? w) with true by (symmetry; apply Nat.ltb_lt; lia).
  replace (y <? lh q) with true by (symmetry; apply Nat.ltb_lt; lia). cbn [andb].
  rewrite C by exact Hyb. unfold spec_view. rewrite Es. split.
  - intro Hlt.
    destruct (nth_error s x) as [c'|] eqn:Ec; [|apply nth_error_None in Ec; lia].
    assert (Hg : good c').
    { rewrite Forall_forall in Hgood. specialize (Hgood s (nth_error_In _ _ Es)). rewrite Forall_forall in Hgood.
      exact (Hgood c' (nth_error_In _ _ Ec)). }
    destruct Hg as (Hv & _). unfold vis. rewrite Hv.
    exact (Forall2_nth_error _ _ _ Hrs x _ _ Ec (row_cells_nth w (nth y b []) x Hlt)).
  - intro Hge. rewrite (proj2 (nth_error_None s x)) by lia. reflexivity.
Qed.

Section Assemble.
  Variable w : nat.
  Hypothesis Hw : 0 < w.
  Variables PS WS : Type.
  Variable astep : PS -> TextAttribute -> N -> option (PS * TextAttribute).
  Variable bstep : PS -> pbuf -> N -> option (PS * pbuf).
  Variable emit_row : WS -> srow -> option (list N * WS * nat).
  Variable eol : list N.
  Variable R : WS -> PS -> TextAttribute -> Prop.
  Variable dom_row : srow -> Prop.
  Variable rel : cell -> cell -> Prop.
  Notation run := (run PS astep bstep).
  Hypothesis Hrow : row_sync w PS WS astep bstep emit_row R dom_row rel.
  Hypothesis Heol : eol_sync PS WS astep bstep eol R.

  (* loaders that go through parse_with_parser: empty page, crop, bold folding *)
  Theorem assemble ws0 ps0 p0 prefix ps1 p1 b body :
    run ps0 p0 prefix = Some (ps1, p1) -> lines p1 = [] -> px p1 = 0 -> py p1 = 0 -> R ws0 ps1 (pattr p1) ->
    Forall dom_row b -> nonempty_last w b ->
    rows_loop WS emit_row eol w (length b) ws0 b 0 = Some body ->
    exists q, finish (run ps0 p0 (prefix ++ body)) = Loaded q /\ picture w rel b q.
  Proof.
    intros Hpre Hl Hx0 Hy0 HR Hdom Hlast Hloop.
    destruct (rows_sync w PS WS astep bstep emit_row eol R dom_row rel Hrow Heol b ws0 ps1 p1 0 (length b) body HR Hdom Hloop)
      as (ps' & stored & Hrun & Hrel & Hgood).
    destruct (stored_rows w rel b stored Hrel) as (Hlens & _).
    destruct (stored_shape w rel b stored Hrel Hlast) as (Hsne & Hslen & Hslast).
    destruct (finish_lay w (length b) stored p1 Hw (eq_sym Hlens) Hsne Hslen Hslast Hgood Hl Hx0 Hy0) as (A & B & C).
    eexists. split.
    - rewrite run_app, Hpre, Hrun. unfold finish. reflexivity.
    - split; [exact A|]. split; [exact B|].
      apply (cells_from_view w rel b stored _ Hrel Hgood C). rewrite B. lia.
  Qed.

  (* a loader that prints onto a page of invisible cells and neither crops nor folds (ATASCII) *)
  Theorem assemble_page ps0 ws0 p0 b body :
    px p0 = 0 -> py p0 = 0 -> (forall x y, view (lines p0) x y = None) -> R ws0 ps0 (pattr p0) ->
    Forall dom_row b -> nonempty_last w b ->
    rows_loop WS emit_row eol w (length b) ws0 b 0 = Some body ->
    exists ps' q, run ps0 p0 body = Some (ps', q) /\ length b <= lh q /\ cells_ok w rel b q.
  Proof.
    intros Hx0 Hy0 Hnone HR Hdom Hlast Hloop.
    destruct (rows_sync w PS WS astep bstep emit_row eol R dom_row rel Hrow Heol b ws0 ps0 p0 0 (length b) body HR Hdom Hloop)
      as (ps' & stored & Hrun & Hrel & Hgood).
    destruct (stored_rows w rel b stored Hrel) as (Hlens & _).
    destruct (stored_shape w rel b stored Hrel Hlast) as (Hsne & Hslen & Hslast).
    pose proof (lay_view w (length b) stored Hw p0 0 (eq_sym Hlens) Hslen Hx0 Hy0 (fun x y _ => Hnone x y)) as Hv.
    pose proof (lay_lh w (length b) stored Hw p0 0 (eq_sym Hlens) Hsne Hslen Hslast Hx0 Hy0) as Hlh.
    exists ps', (lay w (length b) p0 stored 0). split; [exact Hrun|]. split; [exact Hlh|].
    apply (cells_from_view w rel b stored _ Hrel Hgood); [|exact Hlh].
    intros x y Hy. rewrite Hv. cbn [Nat.ltb Nat.leb]. rewrite Nat.sub_0_r. reflexivity.
  Qed.
End Assemble.
