(* C02 — IcyDraw chunk payload decoding (Model/C02Icy.v) never reaches a Panic result, for arbitrary payloads. *)
From Coq Require Import NArith ZArith Bool List Lia PeanoNat.
From IE Require Import Lib.Tbl Lib.C05Lib Lib.C02Lib Gen.IcyGen Model.C02Icy.
Import ListNotations.

Lemma take_ok n (bs : list N) : (n <= length bs)%nat -> take n bs = Ok (firstn n bs, skipn n bs).
Proof. intro H. unfold take. destruct (Nat.ltb_spec (length bs) n); [lia|reflexivity]. Qed.

Ltac take_step :=
  rewrite take_ok by (rewrite ?skipn_length in *; lia); cbn [bind].

Lemma read_str_total bs : total (read_str bs).
Proof.
  unfold read_str. destruct (Nat.ltb_spec (length bs) 4); [exact I|]. take_step.
  destruct (N.ltb_spec (N.of_nat (length bs - 4)) (unle (firstn 4 bs))); [exact I|]. take_step. exact I.
Qed.

(* what read_str hands on is what is left of the payload *)
Lemma read_str_some bs s r : read_str bs = Ok (Some (s, r)) -> (length r <= length bs)%nat.
Proof.
  unfold read_str. destruct (Nat.ltb_spec (length bs) 4); [discriminate|]. take_step.
  destruct (N.ltb_spec (N.of_nat (length bs - 4)) (unle (firstn 4 bs))); [discriminate|]. take_step.
  intro E. assert (Hr : skipn (N.to_nat (unle (firstn 4 bs))) (skipn 4 bs) = r) by congruence.
  rewrite <- Hr, !skipn_length. lia.
Qed.

Lemma dec_cell_total bs : total (dec_cell bs).
Proof.
  unfold dec_cell. destruct (Nat.ltb_spec (length bs) 2); [exact I|]. take_step.
  destruct (_ =? INVISIBLE_SHORT)%N; [exact I|].
  destruct (_ =? INVISIBLE)%N; [exact I|].
  destruct (negb _).
  - destruct (Nat.ltb_spec (length (skipn 2 bs)) 4); [exact I|]. take_step. exact I.
  - destruct (Nat.ltb_spec (length (skipn 2 bs)) 14); [exact I|]. take_step. destruct (is_scalar _); exact I.
Qed.

Lemma dec_row_total : forall n st bs, total (dec_row n st bs).
Proof.
  induction n as [|n IH]; intros st bs; cbn [dec_row]; [exact I|].
  apply total_bind; [apply dec_cell_total|]. intros [r|r|r] _; [exact I|apply IH|apply IH].
Qed.

Lemma dec_rows_total : forall n wn y lc bs, total (dec_rows n wn y lc bs).
Proof.
  induction n as [|n IH]; intros wn y lc bs; cbn [dec_rows]; [exact I|].
  destruct bs as [|b t]; [exact I|].
  apply total_bind; [apply dec_row_total|]. intros [stored r] _. apply IH.
Qed.

Lemma dec_layer_total bs : total (dec_layer bs).
Proof.
  unfold dec_layer. apply total_bind; [apply read_str_total|].
  intros [[s r]|] _; [|exact I].
  unfold LAYER_RECORD_SIZE. destruct (Nat.ltb_spec (length r) 41); [exact I|].
  take_step. take_step. take_step.
  destruct (2 <? _)%N; [exact I|].
  do 9 take_step.
  destruct (_ =? 1)%N.
  - match goal with |- context [Nat.ltb (length ?l) 16] => destruct (Nat.ltb_spec (length l) 16); [exact I|] end.
    take_step. exact I.
  - match goal with |- context [N.ltb ?a ?b] => destruct (N.ltb a b); [exact I|] end.
    apply total_bind; [apply dec_rows_total|]. intros; exact I.
Qed.

Lemma dec_cont_total layers n bs : total (dec_cont layers n bs).
Proof.
  unfold dec_cont. destruct (nth_error layers n) as [l|]; [|exact I].
  destruct (l_role l =? 1)%N; [exact I|].
  apply total_bind; [apply dec_rows_total|]. intros; exact I.
Qed.

Lemma dec_iced_total bs : total (dec_iced bs).
Proof.
  unfold dec_iced. change (N.to_nat ICED_HEADER_SIZE) with 19%nat.
  destruct (Nat.eqb_spec (length bs) 19) as [H|]; [|exact I]. cbn [negb].
  do 5 take_step. exact I.
Qed.

Section Doc.
  Variable font_ok pal_ok sauce_ok : list N -> bool.

  Lemma dec_font_total bs : total (dec_font font_ok bs).
  Proof.
    unfold dec_font. apply total_bind; [apply read_str_total|].
    intros [[s r]|] _; [|exact I]. destruct (font_ok r); exact I.
  Qed.

  Lemma step_total layers k bs : total (step font_ok pal_ok sauce_ok layers k bs).
  Proof.
    destruct k as [| | | |[slot|]| |[n|]|]; cbn [step]; try exact I.
    - apply total_bind; [apply dec_iced_total|]. intros; exact I.
    - destruct (pal_ok bs); exact I.
    - destruct (sauce_ok bs); exact I.
    - apply total_bind; [apply dec_font_total|]. intros; exact I.
    - apply total_bind; [apply dec_cont_total|]. intros; exact I.
    - apply total_bind; [apply dec_layer_total|]. intros; exact I.
  Qed.

  Lemma run_chunks_total : forall cs layers, total (run_chunks font_ok pal_ok sauce_ok layers cs).
  Proof.
    induction cs as [|[k bs] t IH]; intros layers; cbn [run_chunks]; [exact I|].
    apply total_bind; [apply step_total|]. intros [ls|] _; [apply IH|exact I].
  Qed.
End Doc.

(* the guards of the fixes are needed: without them the checked reads behind them fail *)
Example take_short : take 4 [1; 2; 3]%N = Panic 1.
Proof. reflexivity. Qed.
