(* C08, framework part: soundness of the undo machinery of Model/Undo.v for EVERY document type, operation type
   and observational equivalence.

   Undoable o a b  : o sits on the undo stack between the states a (before) and b (after): undoing it from ANY state
                     equivalent to b succeeds, lands in a state equivalent to a, and leaves an operation that is
                     Redoable a b.  Redoable is the mirror image.  Both are the greatest such relations (coinductive
                     reading, encoded with an explicit invariant pair so that no cofix is needed): the payload an
                     operation re-captures (Rust: &mut self) may differ at every round.
   Zip e past now fut : the zipper invariant: the undo stack links `past` (nearest first) to `now`, the redo stack
                     links `now` to `fut`, and the current document is equivalent to `now`. *)
From Coq Require Import List ZArith Arith Bool Lia.
From IE Require Import Gen.UndoGen Model.Undo.
Import ListNotations.

Section Framework.
  Context {st uop : Type}.
  Variable op_undo : uop -> st -> res (uop * st).
  Variable op_redo : uop -> st -> res (uop * st).
  Variable eqv : st -> st -> Prop.
  Hypothesis eqv_refl : forall a, eqv a a.
  Hypothesis eqv_sym : forall a b, eqv a b -> eqv b a.
  Hypothesis eqv_trans : forall a b c, eqv a b -> eqv b c -> eqv a c.

  Notation fop := (fop uop).
  Notation fundo := (f_undo op_undo).
  Notation fredo := (f_redo op_redo).
  Notation ulist := (undo_list op_undo).
  Notation rlist := (redo_list op_redo).
  Notation es := (@es st uop).

  Lemma f_undo_atomic l s : fundo (Atomic l) s = bind (ulist l s) (fun '(l', s') => Ok (Atomic l', s')).
  Proof.
    reflexivity.
  Qed.

  Lemma f_redo_atomic l s : fredo (Atomic l) s = bind (rlist l s) (fun '(l', s') => Ok (Atomic l', s')).
  Proof.
    reflexivity.
  Qed.

  Lemma f_undo_leaf u s : fundo (Leaf u) s = bind (op_undo u s) (fun '(u', s') => Ok (Leaf u', s')).
  Proof. reflexivity. Qed.
  Lemma f_redo_leaf u s : fredo (Leaf u) s = bind (op_redo u s) (fun '(u', s') => Ok (Leaf u', s')).
  Proof. reflexivity. Qed.

  (* ---------------------------------------------------------------- soundness of one stack entry *)
  Definition closed (U R : fop -> st -> st -> Prop) : Prop :=
    (forall o a b, U o a b -> forall t, eqv t b ->
       exists o' t', fundo o t = Ok (o', t') /\ eqv t' a /\ R o' a b) /\
    (forall o a b, R o a b -> forall t, eqv t a ->
       exists o' t', fredo o t = Ok (o', t') /\ eqv t' b /\ U o' a b).

  Definition Undoable (o : fop) (a b : st) : Prop := exists U R, closed U R /\ U o a b.
  Definition Redoable (o : fop) (a b : st) : Prop := exists U R, closed U R /\ R o a b.

  Lemma Undoable_step o a b : Undoable o a b -> forall t, eqv t b ->
    exists o' t', fundo o t = Ok (o', t') /\ eqv t' a /\ Redoable o' a b.
  Proof.
    intros (U & R & Hc & HU) t Ht. destruct (proj1 Hc _ _ _ HU t Ht) as (o' & t' & E & Ha & HR).
    exists o', t'. repeat split; auto. exists U, R. auto.
  Qed.

  Lemma Redoable_step o a b : Redoable o a b -> forall t, eqv t a ->
    exists o' t', fredo o t = Ok (o', t') /\ eqv t' b /\ Undoable o' a b.
  Proof.
    intros (U & R & Hc & HR) t Ht. destruct (proj2 Hc _ _ _ HR t Ht) as (o' & t' & E & Hb & HU).
    exists o', t'. repeat split; auto. exists U, R. auto.
  Qed.

  Lemma closed_Undoable_Redoable : closed Undoable Redoable.
  Proof. split; intros; [eapply Undoable_step|eapply Redoable_step]; eauto. Qed.

  Lemma Undoable_eqv o a b a' b' : Undoable o a b -> eqv a a' -> eqv b b' -> Undoable o a' b'.
  Proof.
    intros H Ha Hb.
    exists (fun o x y => exists a b, eqv a x /\ eqv b y /\ Undoable o a b),
           (fun o x y => exists a b, eqv a x /\ eqv b y /\ Redoable o a b).
    split; [|exists a, b; auto].
    split.
    - intros o0 x y (a0 & b0 & Hx & Hy & HU) t Ht.
      destruct (Undoable_step _ _ _ HU t) as (o' & t' & E & Ea & HR); [eauto|].
      exists o', t'. split; [exact E|]. split; [eauto|]. exists a0, b0. auto.
    - intros o0 x y (a0 & b0 & Hx & Hy & HR) t Ht.
      destruct (Redoable_step _ _ _ HR t) as (o' & t' & E & Eb & HU); [eauto|].
      exists o', t'. split; [exact E|]. split; [eauto|]. exists a0, b0. auto.
  Qed.

  Lemma Redoable_eqv o a b a' b' : Redoable o a b -> eqv a a' -> eqv b b' -> Redoable o a' b'.
  Proof.
    intros H Ha Hb.
    exists (fun o x y => exists a b, eqv a x /\ eqv b y /\ Undoable o a b),
           (fun o x y => exists a b, eqv a x /\ eqv b y /\ Redoable o a b).
    split; [|exists a, b; auto].
    split.
    - intros o0 x y (a0 & b0 & Hx & Hy & HU) t Ht.
      destruct (Undoable_step _ _ _ HU t) as (o' & t' & E & Ea & HR); [eauto|].
      exists o', t'. split; [exact E|]. split; [eauto|]. exists a0, b0. auto.
    - intros o0 x y (a0 & b0 & Hx & Hy & HR) t Ht.
      destruct (Redoable_step _ _ _ HR t) as (o' & t' & E & Eb & HU); [eauto|].
      exists o', t'. split; [exact E|]. split; [eauto|]. exists a0, b0. auto.
  Qed.

  (* ---------------------------------------------------------------- leaves *)
  Definition lclosed (U R : uop -> st -> st -> Prop) : Prop :=
    (forall o a b, U o a b -> forall t, eqv t b ->
       exists o' t', op_undo o t = Ok (o', t') /\ eqv t' a /\ R o' a b) /\
    (forall o a b, R o a b -> forall t, eqv t a ->
       exists o' t', op_redo o t = Ok (o', t') /\ eqv t' b /\ U o' a b).

  Lemma leaf_closed U R : lclosed U R ->
    closed (fun f a b => exists o, f = Leaf o /\ U o a b) (fun f a b => exists o, f = Leaf o /\ R o a b).
  Proof.
    intros [HU HR]. split.
    - intros f a b (o & -> & H) t Ht. destruct (HU _ _ _ H t Ht) as (o' & t' & E & Ea & H').
      exists (Leaf o'), t'. rewrite f_undo_leaf, E. cbn. repeat split; auto. exists o'. auto.
    - intros f a b (o & -> & H) t Ht. destruct (HR _ _ _ H t Ht) as (o' & t' & E & Eb & H').
      exists (Leaf o'), t'. rewrite f_redo_leaf, E. cbn. repeat split; auto. exists o'. auto.
  Qed.

  Lemma leaf_Undoable U R : lclosed U R -> forall o a b, U o a b -> Undoable (Leaf o) a b.
  Proof. intros Hc o a b H. eexists _, _. split; [apply (leaf_closed _ _ Hc)|]. exists o. auto. Qed.

  Lemma leaf_Redoable U R : lclosed U R -> forall o a b, R o a b -> Redoable (Leaf o) a b.
  Proof. intros Hc o a b H. eexists _, _. split; [apply (leaf_closed _ _ Hc)|]. exists o. auto. Qed.

  (* ---------------------------------------------------------------- atomic groups (they nest: the members are fops) *)
  Fixpoint UChain (l : list fop) (a b : st) : Prop :=
    match l with
    | [] => eqv a b
    | x :: r => exists c, Undoable x a c /\ UChain r c b
    end.
  Fixpoint RChain (l : list fop) (a b : st) : Prop :=
    match l with
    | [] => eqv a b
    | x :: r => exists c, Redoable x a c /\ RChain r c b
    end.

  Lemma undo_list_chain : forall l a b, UChain l a b -> forall t, eqv t b ->
    exists l' t', ulist l t = Ok (l', t') /\ eqv t' a /\ RChain l' a b.
  Proof.
    induction l as [|x r IH]; intros a b H t Ht.
    - exists [], t. cbn in *. repeat split; eauto.
    - destruct H as (c & Hx & Hr). destruct (IH _ _ Hr t Ht) as (r' & t1 & E1 & Ec & Hr').
      destruct (Undoable_step _ _ _ Hx t1 Ec) as (x' & t2 & E2 & Ea & Hx').
      exists (x' :: r'), t2. cbn [undo_list]. rewrite E1. cbn [bind]. rewrite E2. cbn [bind].
      repeat split; auto. exists c. auto.
  Qed.

  Lemma redo_list_chain : forall l a b, RChain l a b -> forall t, eqv t a ->
    exists l' t', rlist l t = Ok (l', t') /\ eqv t' b /\ UChain l' a b.
  Proof.
    induction l as [|x r IH]; intros a b H t Ht.
    - exists [], t. cbn in *. repeat split; eauto.
    - destruct H as (c & Hx & Hr). destruct (Redoable_step _ _ _ Hx t Ht) as (x' & t1 & E1 & Ec & Hx').
      destruct (IH _ _ Hr t1 Ec) as (r' & t2 & E2 & Eb & Hr').
      exists (x' :: r'), t2. cbn [redo_list]. rewrite E1. cbn [bind]. rewrite E2. cbn [bind].
      repeat split; auto. exists c. auto.
  Qed.

  Lemma atomic_closed :
    closed (fun f a b => exists l, f = Atomic l /\ UChain l a b) (fun f a b => exists l, f = Atomic l /\ RChain l a b).
  Proof.
    split.
    - intros f a b (l & -> & H) t Ht. destruct (undo_list_chain _ _ _ H t Ht) as (l' & t' & E & Ea & H').
      exists (Atomic l'), t'. rewrite f_undo_atomic, E. cbn. repeat split; auto. exists l'. auto.
    - intros f a b (l & -> & H) t Ht. destruct (redo_list_chain _ _ _ H t Ht) as (l' & t' & E & Eb & H').
      exists (Atomic l'), t'. rewrite f_redo_atomic, E. cbn. repeat split; auto. exists l'. auto.
  Qed.

  Lemma atomic_Undoable l a b : UChain l a b -> Undoable (Atomic l) a b.
  Proof. intro H. eexists _, _. split; [apply atomic_closed|]. exists l. auto. Qed.
  Lemma atomic_Redoable l a b : RChain l a b -> Redoable (Atomic l) a b.
  Proof. intro H. eexists _, _. split; [apply atomic_closed|]. exists l. auto. Qed.

  Lemma UChain_app : forall l1 l2 a b, UChain (l1 ++ l2) a b <-> exists c, UChain l1 a c /\ UChain l2 c b.
  Proof.
    induction l1 as [|x r IH]; intros l2 a b; cbn [app UChain].
    - split.
      + intro H. exists a. split; auto.
      + intros (c & Hac & H). clear - eqv_refl eqv_sym eqv_trans Hac H.
        destruct l2 as [|y l2]; cbn [UChain] in *; [eauto|].
        destruct H as (d & Hy & Hr). exists d. split; auto. eapply Undoable_eqv; eauto.
    - split.
      + intros (c & Hx & H). apply IH in H. destruct H as (d & H1 & H2). exists d. split; auto. exists c. auto.
      + intros (d & (c & Hx & H1) & H2). exists c. split; auto. apply IH. exists d. auto.
  Qed.

  Lemma UChain_eqv_r : forall l a b b', UChain l a b -> eqv b b' -> UChain l a b'.
  Proof.
    induction l as [|x r IH]; intros a b b' H Hb; cbn [UChain] in *; [eauto|].
    destruct H as (c & Hx & Hr). exists c. split; eauto.
  Qed.

  Lemma UChain_eqv_l : forall l a a' b, UChain l a b -> eqv a a' -> UChain l a' b.
  Proof.
    destruct l as [|x r]; intros a a' b H Ha; cbn [UChain] in *; [eauto|].
    destruct H as (c & Hx & Hr). exists c. split; auto. eapply Undoable_eqv; eauto.
  Qed.

  (* ---------------------------------------------------------------- the zipper *)
  Fixpoint Ulinked (u : list fop) (past : list st) (now : st) : Prop :=
    match u, past with
    | [], [] => True
    | o :: u', p :: past' => Undoable o p now /\ Ulinked u' past' p
    | _, _ => False
    end.
  Fixpoint Rlinked (r : list fop) (now : st) (fut : list st) : Prop :=
    match r, fut with
    | [], [] => True
    | o :: r', f :: fut' => Redoable o now f /\ Rlinked r' f fut'
    | _, _ => False
    end.

  Definition Zip (e : es) (past : list st) (now : st) (fut : list st) : Prop :=
    eqv (cur e) now /\ Ulinked (ustk e) past now /\ Rlinked (rstk e) now fut.

  Definition timeline (past : list st) (now : st) (fut : list st) : list st := rev past ++ now :: fut.

  Lemma Ulinked_length : forall u past now, Ulinked u past now -> length u = length past.
  Proof. induction u as [|o u IH]; destruct past; cbn; intros now H; try tauto. f_equal. eapply IH. apply H. Qed.
  Lemma Rlinked_length : forall r now fut, Rlinked r now fut -> length r = length fut.
  Proof. induction r as [|o r IH]; destruct fut; cbn; intros H; try tauto. f_equal. eapply IH. apply H. Qed.

  Lemma Ulinked_eqv u past now now' : Ulinked u past now -> eqv now now' -> Ulinked u past now'.
  Proof. destruct u, past; cbn; try tauto. intros [H1 H2] E. split; auto. eapply Undoable_eqv; eauto. Qed.
  Lemma Rlinked_eqv r now now' fut : Rlinked r now fut -> eqv now now' -> Rlinked r now' fut.
  Proof. destruct r, fut; cbn; try tauto. intros [H1 H2] E. split; auto. eapply Redoable_eqv; eauto. Qed.

  Lemma Zip_eqv e past now now' fut : Zip e past now fut -> eqv now now' -> Zip e past now' fut.
  Proof. intros (H1 & H2 & H3) E. repeat split; eauto using Ulinked_eqv, Rlinked_eqv. Qed.

  Lemma undo_zip_cons e p past now fut : Zip e (p :: past) now fut ->
    exists e', undo op_undo e = Ok e' /\ Zip e' past p (now :: fut).
  Proof.
    intros (Hc & Hu & Hr). unfold undo. destruct (ustk e) as [|o u]; cbn in Hu; [tauto|].
    destruct Hu as [Ho Hu]. destruct (Undoable_step _ _ _ Ho (cur e) Hc) as (o' & s' & E & Ep & HR).
    rewrite E. cbn [bind]. eexists. split; [reflexivity|]. repeat split; cbn; auto.
  Qed.

  Lemma undo_zip_nil e now fut : Zip e [] now fut -> undo op_undo e = Ok e.
  Proof. intros (Hc & Hu & Hr). unfold undo. destruct (ustk e); cbn in Hu; [reflexivity|tauto]. Qed.

  Lemma redo_zip_cons e past now f fut : Zip e past now (f :: fut) ->
    exists e', redo op_redo e = Ok e' /\ Zip e' (now :: past) f fut.
  Proof.
    intros (Hc & Hu & Hr). unfold redo. destruct (rstk e) as [|o r]; cbn in Hr; [tauto|].
    destruct Hr as [Ho Hr]. destruct (Redoable_step _ _ _ Ho (cur e) Hc) as (o' & s' & E & Ef & HU).
    rewrite E. cbn [bind]. eexists. split; [reflexivity|]. repeat split; cbn; auto.
  Qed.

  Lemma redo_zip_nil e past now : Zip e past now [] -> redo op_redo e = Ok e.
  Proof. intros (Hc & Hu & Hr). unfold redo. destruct (rstk e); cbn in Hr; [reflexivity|tauto]. Qed.

  Lemma timeline_undo p past now fut : timeline past p (now :: fut) = timeline (p :: past) now fut.
  Proof. unfold timeline. cbn [rev]. rewrite <- app_assoc. reflexivity. Qed.

  Lemma run_ur_unfold_undo w e :
    run_ur op_undo op_redo (true :: w) e = bind (undo op_undo e) (run_ur op_undo op_redo w).
  Proof. reflexivity. Qed.
  Lemma run_ur_unfold_redo w e :
    run_ur op_undo op_redo (false :: w) e = bind (redo op_redo e) (run_ur op_undo op_redo w).
  Proof. reflexivity. Qed.

  (* every interleaving of undo and redo steps: never fails, keeps the timeline, ends where the walk says *)
  Theorem interleaving_zip : forall w e past now fut, Zip e past now fut ->
    exists e' past' now' fut',
      run_ur op_undo op_redo w e = Ok e' /\ Zip e' past' now' fut' /\
      timeline past' now' fut' = timeline past now fut /\
      length past' = walk w (length past) (length past + length fut) /\
      (length past' + length fut' = length past + length fut)%nat.
  Proof.
    induction w as [|b w IH]; intros e past now fut HZ.
    - exists e, past, now, fut. cbn. auto.
    - destruct b.
      + destruct past as [|p past].
        * rewrite (run_ur_unfold_undo w e). rewrite (undo_zip_nil _ _ _ HZ). cbn [bind].
          destruct (IH _ _ _ _ HZ) as (e' & past' & now' & fut' & E & Z' & T & L & L2).
          exists e', past', now', fut'. cbn [walk length pred] in *. auto.
        * destruct (undo_zip_cons _ _ _ _ _ HZ) as (e1 & E1 & Z1).
          rewrite (run_ur_unfold_undo w e), E1. cbn [bind].
          destruct (IH _ _ _ _ Z1) as (e' & past' & now' & fut' & E & Z' & T & L & L2).
          exists e', past', now', fut'. rewrite timeline_undo in T. cbn [walk length pred] in *.
          replace (S (length past) + length fut)%nat with (length past + S (length fut))%nat by lia.
          split; [exact E|]. split; [exact Z'|]. split; [exact T|]. split; [exact L|exact L2].
      + destruct fut as [|f fut].
        * rewrite (run_ur_unfold_redo w e). rewrite (redo_zip_nil _ _ _ HZ). cbn [bind].
          destruct (IH _ _ _ _ HZ) as (e' & past' & now' & fut' & E & Z' & T & L & L2).
          exists e', past', now', fut'. cbn [walk length] in *. rewrite Nat.add_0_r in *.
          rewrite Nat.ltb_irrefl. auto.
        * destruct (redo_zip_cons _ _ _ _ _ HZ) as (e1 & E1 & Z1).
          rewrite (run_ur_unfold_redo w e), E1. cbn [bind].
          destruct (IH _ _ _ _ Z1) as (e' & past' & now' & fut' & E & Z' & T & L & L2).
          exists e', past', now', fut'. rewrite <- timeline_undo in T. cbn [walk length] in *.
          replace (length past <? length past + S (length fut))%nat with true by (symmetry; apply Nat.ltb_lt; lia).
          replace (S (length past) + length fut)%nat with (length past + S (length fut))%nat in * by lia.
          split; [exact E|]. split; [exact Z'|]. split; [exact T|]. split; [exact L|exact L2].
  Qed.

  (* the state a walk ends in is the entry of the timeline the walk points at *)
  Corollary interleaving_state : forall w e past now fut d, Zip e past now fut ->
    exists e', run_ur op_undo op_redo w e = Ok e' /\
      eqv (cur e') (nth (walk w (length past) (length past + length fut)) (timeline past now fut) d).
  Proof.
    intros w e past now fut d HZ.
    destruct (interleaving_zip w _ _ _ _ HZ) as (e' & past' & now' & fut' & E & Z' & T & L & _).
    exists e'. split; [exact E|]. rewrite <- L, <- T. unfold timeline.
    rewrite <- (rev_length past'). rewrite nth_middle. apply Z'.
  Qed.

  (* ---------------------------------------------------------------- edits *)
  (* what a public editing operation may do to the stacks: push a chain of sound operations (oldest last in `ops`),
     discarding the redo history; an operation that pushes nothing leaves an equivalent document *)
  Definition edit_chain (e e' : es) : Prop :=
    exists ops, ustk e' = ops ++ ustk e /\ UChain (rev ops) (cur e) (cur e') /\
                (rstk e' = [] \/ (ops = [] /\ rstk e' = rstk e)).

  Lemma edit_chain_refl e : edit_chain e e.
  Proof. exists []. cbn. auto. Qed.

  Lemma edit_chain_trans e1 e2 e3 : edit_chain e1 e2 -> edit_chain e2 e3 -> edit_chain e1 e3.
  Proof.
    intros (o1 & U1 & C1 & R1) (o2 & U2 & C2 & R2). exists (o2 ++ o1). split; [|split].
    - rewrite U2, U1, app_assoc. reflexivity.
    - rewrite rev_app_distr. apply UChain_app. eauto.
    - destruct R2 as [R2|[-> R2]]; [auto|]. cbn. rewrite R2. exact R1.
  Qed.

  Lemma set_cur_chain e c : eqv c (cur e) -> edit_chain e (set_cur e c).
  Proof. intro H. exists []. cbn. auto. Qed.

  Lemma begin_guard_chain e : edit_chain e (snd (begin_guard e)).
  Proof. exists []. cbn. auto. Qed.

  Lemma push_plain_chain e o c : Undoable o (cur e) c -> edit_chain e (push_plain o (set_cur e c)).
  Proof. intro H. exists [o]. cbn. split; [reflexivity|]. split; [|auto]. exists c. auto. Qed.

  Lemma push_action_chain e o s' : Redoable o (cur e) s' ->
    exists e', push_action op_redo o e = Ok e' /\ edit_chain e e' /\ eqv (cur e') s'.
  Proof.
    intro H. destruct (Redoable_step _ _ _ H (cur e) (eqv_refl _)) as (o' & t' & E & Es & HU).
    unfold push_action. rewrite E. cbn [bind]. eexists. split; [reflexivity|]. split; [|exact Es].
    exists [o']. cbn. split; [reflexivity|]. split; [|auto]. exists s'. auto.
  Qed.

  Lemma end_guard_chain e e2 : edit_chain e e2 -> edit_chain e (end_guard (length (ustk e)) e2).
  Proof.
    intros (ops & HU & HC & HR). unfold end_guard, guard_keeps. rewrite HU, app_length.
    destruct ops as [|o ops].
    - cbn [length Nat.add]. rewrite Nat.leb_refl. exists []. cbn. auto.
    - replace (length (o :: ops) + length (ustk e) <=? length (ustk e))%nat with false
        by (symmetry; apply Nat.leb_gt; cbn; lia).
      replace (length (o :: ops) + length (ustk e) - length (ustk e))%nat with (length (o :: ops)) by lia.
      rewrite firstn_app, Nat.sub_diag, firstn_all, firstn_O, app_nil_r.
      rewrite skipn_app, Nat.sub_diag, skipn_all, skipn_O. cbn [app].
      exists [Atomic (rev (o :: ops))]. cbn [app rev cur ustk rstk]. split; [reflexivity|]. split.
      + exists (cur e2). split; [|apply eqv_refl]. apply atomic_Undoable. exact HC.
      + destruct HR as [HR|[HR _]]; [auto|discriminate].
  Qed.

  Lemma with_guard_chain (body : es -> res es) e e' :
    (forall e1 e2, body e1 = Ok e2 -> edit_chain e1 e2) ->
    with_guard body e = Ok e' -> edit_chain e e'.
  Proof.
    intros Hb. unfold with_guard. cbn [begin_guard].
    destruct (body (mkEs (cur e) (ustk e) [])) as [e2| |] eqn:E; cbn [bind]; [|discriminate|discriminate].
    intro H. injection H as <-. apply Hb in E.
    eapply edit_chain_trans; [apply (begin_guard_chain e)|]. cbn [begin_guard snd].
    apply (end_guard_chain (mkEs (cur e) (ustk e) []) e2 E).
  Qed.



  (* a guard body may also be sound only as a whole (the members of the group need not be sound one by one:
     set_char in mirror mode on the centre column records the same old cell twice) *)
  Definition edit_joint (e e' : es) : Prop :=
    exists ops, ustk e' = ops ++ ustk e /\ Undoable (Atomic (rev ops)) (cur e) (cur e') /\
                (rstk e' = [] \/ (ops = [] /\ rstk e' = rstk e)).

  Lemma edit_chain_joint e e' : edit_chain e e' -> edit_joint e e'.
  Proof. intros (ops & HU & HC & HR). exists ops. split; [exact HU|]. split; [apply atomic_Undoable; exact HC|exact HR]. Qed.

  Lemma Undoable_atomic_nil a b : Undoable (Atomic []) a b -> eqv a b.
  Proof.
    intro H. destruct (Undoable_step _ _ _ H b (eqv_refl b)) as (o' & t' & E & Ea & _).
    rewrite f_undo_atomic in E. cbn in E. injection E as _ <-. apply eqv_sym. exact Ea.
  Qed.

  Lemma end_guard_joint e e2 : edit_joint e e2 -> edit_chain e (end_guard (length (ustk e)) e2).
  Proof.
    intros (ops & HU & HJ & HR). unfold end_guard, guard_keeps. rewrite HU, app_length.
    destruct ops as [|o ops].
    - cbn [length Nat.add]. rewrite Nat.leb_refl. exists []. cbn [app rev UChain]. split; [exact HU|].
      split; [apply Undoable_atomic_nil; exact HJ|exact HR].
    - replace (length (o :: ops) + length (ustk e) <=? length (ustk e))%nat with false
        by (symmetry; apply Nat.leb_gt; cbn; lia).
      replace (length (o :: ops) + length (ustk e) - length (ustk e))%nat with (length (o :: ops)) by lia.
      rewrite firstn_app, Nat.sub_diag, firstn_all, firstn_O, app_nil_r.
      rewrite skipn_app, Nat.sub_diag, skipn_all, skipn_O. cbn [app].
      exists [Atomic (rev (o :: ops))]. cbn [app rev cur ustk rstk]. split; [reflexivity|]. split.
      + exists (cur e2). split; [exact HJ|apply eqv_refl].
      + destruct HR as [HR|[HR _]]; [auto|discriminate].
  Qed.

  Lemma with_guard_joint (body : es -> res es) e e' :
    (forall e2, body (mkEs (cur e) (ustk e) []) = Ok e2 -> edit_joint (mkEs (cur e) (ustk e) []) e2) ->
    with_guard body e = Ok e' -> edit_chain e e'.
  Proof.
    intros Hb. unfold with_guard. cbn [begin_guard].
    destruct (body (mkEs (cur e) (ustk e) [])) as [e2| |] eqn:E; cbn [bind]; [|discriminate|discriminate].
    intro H. injection H as <-. specialize (Hb e2 eq_refl).
    eapply edit_chain_trans; [apply (begin_guard_chain e)|]. cbn [begin_guard snd].
    apply (end_guard_joint (mkEs (cur e) (ustk e) []) e2 Hb).
  Qed.

  Lemma end_guard_length (e e2 : es) : edit_chain e e2 ->
    (length (ustk (end_guard (length (ustk e)) e2)) <= S (length (ustk e)))%nat.
  Proof.
    intros (ops & HU & _ & _). unfold end_guard, guard_keeps. rewrite HU, app_length.
    destruct (length ops + length (ustk e) <=? length (ustk e))%nat eqn:E.
    - apply Nat.leb_le in E. rewrite HU, app_length. lia.
    - apply Nat.leb_gt in E.
      replace (length ops + length (ustk e) - length (ustk e))%nat with (length ops) by lia.
      rewrite skipn_app, Nat.sub_diag, skipn_all, skipn_O. cbn [ustk app length]. lia.
  Qed.

  Lemma with_guard_chain_le (body : es -> res es) e e' :
    (forall e1 e2, body e1 = Ok e2 -> edit_chain e1 e2) ->
    with_guard body e = Ok e' -> edit_chain e e' /\ (length (ustk e') <= S (length (ustk e)))%nat.
  Proof.
    intros Hb H. split; [eapply with_guard_chain; eauto|].
    unfold with_guard in H. cbn [begin_guard] in H.
    destruct (body (mkEs (cur e) (ustk e) [])) as [e2| |] eqn:E; cbn [bind] in H; [|discriminate|discriminate].
    injection H as <-. apply Hb in E. apply (end_guard_length (mkEs (cur e) (ustk e) []) e2 E).
  Qed.

  Lemma UChain_rev_Ulinked : forall ops a b u past, UChain (rev ops) a b -> Ulinked u past a ->
    exists mids, length mids = length ops /\ Ulinked (ops ++ u) (mids ++ past) b /\
                 forall d, eqv (nth 0 (rev mids ++ [b]) d) a.
  Proof.
    induction ops as [|o ops IH]; intros a b u past HC HU.
    - exists []. cbn in *. split; [reflexivity|]. split; [eapply Ulinked_eqv; eauto|]. intros _. auto.
    - cbn [rev] in HC. apply UChain_app in HC. destruct HC as (c & HC & (c' & Ho & Hc')). cbn [UChain] in Hc'.
      destruct (IH _ _ _ _ HC HU) as (mids & L & HL & H0).
      exists (c :: mids). cbn [length app]. split; [lia|]. split.
      + cbn. split; [|exact HL]. eapply Undoable_eqv; eauto.
      + intro d. cbn [rev]. rewrite app_nth1 by (rewrite app_length; cbn; lia). apply H0.
  Qed.

  (* an edit keeps the zipper: the states it went through are added to the past, the future is discarded *)
  Lemma edit_chain_zip e e' past now fut : Zip e past now fut -> edit_chain e e' ->
    exists mids fut', Zip e' (mids ++ past) (cur e') fut' /\
      length mids = (length (ustk e') - length (ustk e))%nat /\
      (fut' = [] \/ (mids = [] /\ fut' = fut)) /\
      forall d, eqv (nth 0 (rev mids ++ [cur e']) d) (cur e).
  Proof.
    intros (Hc & Hu & Hr) (ops & HU & HC & HR).
    assert (Hu' : Ulinked (ustk e) past (cur e)) by (eapply Ulinked_eqv; eauto).
    destruct (UChain_rev_Ulinked _ _ _ _ _ HC Hu') as (mids & L & HL & H0).
    assert (Llen : length mids = (length (ustk e') - length (ustk e))%nat) by (rewrite HU, app_length; lia).
    destruct HR as [HR|[-> HR]].
    - exists mids, []. split; [|auto]. split; [apply eqv_refl|]. split; [rewrite HU; exact HL|]. rewrite HR. exact I.
    - destruct mids; [|discriminate]. exists [], fut. split; [|auto]. cbn [rev UChain] in HC.
      split; [apply eqv_refl|]. split; [rewrite HU; exact HL|]. rewrite HR.
      eapply Rlinked_eqv; [exact Hr|]. eauto.
  Qed.

  (* a sequence of edits, each of which reports Ok *)
  Fixpoint run_edits (fs : list (es -> res es)) (e : es) : res es :=
    match fs with
    | [] => Ok e
    | f :: fs' => bind (f e) (run_edits fs')
    end.

  Definition sound_edit (f : es -> res es) : Prop := forall e e', f e = Ok e' -> edit_chain e e'.

  Lemma run_edits_chain : forall fs e e', Forall sound_edit fs -> run_edits fs e = Ok e' -> edit_chain e e'.
  Proof.
    induction fs as [|f fs IH]; intros e e' HF H.
    - injection H as <-. apply edit_chain_refl.
    - inversion HF as [|? ? Hf HF']; subst. cbn [run_edits] in H.
      destruct (f e) as [e1| |] eqn:E; cbn [bind] in H; [|discriminate|discriminate].
      eapply edit_chain_trans; [apply Hf; exact E|]. eapply IH; eauto.
  Qed.

  Definition fresh (e : es) : Prop := ustk e = [] /\ rstk e = [].

  Lemma fresh_zip e : fresh e -> Zip e [] (cur e) [].
  Proof. intros [Hu Hr]. unfold Zip. rewrite Hu, Hr. cbn. auto. Qed.

  (* k undo steps, then j redo steps *)
  Fixpoint iter_res {A} (f : A -> res A) (k : nat) (a : A) : res A :=
    match k with O => Ok a | S k' => bind (f a) (iter_res f k') end.

  Lemma run_ur_repeat_undo : forall k e, run_ur op_undo op_redo (repeat true k) e = iter_res (undo op_undo) k e.
  Proof.
    induction k as [|k IH]; intro e; [reflexivity|]. cbn [repeat]. rewrite run_ur_unfold_undo. cbn [iter_res].
    destruct (undo op_undo e); cbn [bind]; auto.
  Qed.
  Lemma run_ur_repeat_redo : forall k e, run_ur op_undo op_redo (repeat false k) e = iter_res (redo op_redo) k e.
  Proof.
    induction k as [|k IH]; intro e; [reflexivity|]. cbn [repeat]. rewrite run_ur_unfold_redo. cbn [iter_res].
    destruct (redo op_redo e); cbn [bind]; auto.
  Qed.

  Lemma walk_undos : forall k pos total, walk (repeat true k) pos total = (pos - k)%nat.
  Proof. induction k as [|k IH]; intros pos total; cbn [repeat walk]; [lia|]. rewrite IH. lia. Qed.
  Lemma walk_redos : forall k pos total, (pos <= total)%nat -> walk (repeat false k) pos total = Nat.min (pos + k) total.
  Proof.
    induction k as [|k IH]; intros pos total Hle; cbn [repeat walk]; [lia|].
    destruct (pos <? total)%nat eqn:E.
    - apply Nat.ltb_lt in E. rewrite IH by lia. lia.
    - apply Nat.ltb_ge in E. rewrite IH by lia. lia.
  Qed.

  (* k undo steps go k entries back in the timeline, never failing (k may exceed the stack: the surplus steps are no-ops) *)
  Theorem undo_k_restores : forall k e past now fut d, Zip e past now fut ->
    exists e', iter_res (undo op_undo) k e = Ok e' /\
      eqv (cur e') (nth (length past - k) (timeline past now fut) d).
  Proof.
    intros k e past now fut d HZ. rewrite <- run_ur_repeat_undo.
    destruct (interleaving_state (repeat true k) _ _ _ _ d HZ) as (e' & E & H).
    exists e'. split; [exact E|]. rewrite walk_undos in H. exact H.
  Qed.

  Theorem redo_k_restores : forall k e past now fut d, Zip e past now fut ->
    exists e', iter_res (redo op_redo) k e = Ok e' /\
      eqv (cur e') (nth (Nat.min (length past + k) (length past + length fut)) (timeline past now fut) d).
  Proof.
    intros k e past now fut d HZ. rewrite <- run_ur_repeat_redo.
    destruct (interleaving_state (repeat false k) _ _ _ _ d HZ) as (e' & E & H).
    exists e'. split; [exact E|]. rewrite walk_redos in H by lia. exact H.
  Qed.

  (* history_sound: a fresh editor, any sequence of sound edits that report Ok, then ANY interleaving of undo/redo
     steps: never an error, and the document is equivalent to the entry of ONE fixed timeline that the walk points at.
     The timeline has one entry per undo step, starts (equivalent to) the initial document and ends with the
     document the edits produced. *)
  Theorem history_sound : forall fs e0 en d, fresh e0 -> Forall sound_edit fs -> run_edits fs e0 = Ok en ->
    let n := length (ustk en) in
    exists tl, length tl = S n /\ rstk en = [] /\
      eqv (nth 0 tl d) (cur e0) /\ nth n tl d = cur en /\
      forall w, exists e', run_ur op_undo op_redo w en = Ok e' /\
        eqv (cur e') (nth (walk w n n) tl d).
  Proof.
    intros fs e0 en d Hf HF Hrun n.
    pose proof (run_edits_chain _ _ _ HF Hrun) as HC.
    destruct (edit_chain_zip _ _ _ _ _ (fresh_zip _ Hf) HC) as (mids & fut' & HZ & L & Hfut & H0).
    rewrite app_nil_r in HZ. destruct Hf as [Hu0 Hr0]. rewrite Hu0 in L. cbn [length] in L. rewrite Nat.sub_0_r in L.
    fold n in L.
    assert (fut' = []) as -> by (destruct Hfut as [|[_ ?]]; [auto|congruence]).
    assert (Hren : rstk en = []).
    { destruct HZ as (_ & _ & Hr). destruct (rstk en); [reflexivity|cbn in Hr; tauto]. }
    exists (timeline mids (cur en) []). unfold timeline.
    split; [rewrite app_length, rev_length; cbn; lia|]. split; [exact Hren|].
    split; [apply H0|]. split.
    - rewrite <- L, <- (rev_length mids). apply nth_middle.
    - intro w. destruct (interleaving_state w _ _ _ _ d HZ) as (e' & E & H).
      exists e'. split; [exact E|]. cbn [length] in H. rewrite Nat.add_0_r, L in H. exact H.
  Qed.

  (* in particular: undoing every step restores the initial document, redoing them the final one *)
  Corollary undo_all_redo_all : forall fs e0 en, fresh e0 -> Forall sound_edit fs -> run_edits fs e0 = Ok en ->
    let n := length (ustk en) in
    exists e1 e2, iter_res (undo op_undo) n en = Ok e1 /\ eqv (cur e1) (cur e0) /\ ustk e1 = [] /\
                  iter_res (redo op_redo) n e1 = Ok e2 /\ eqv (cur e2) (cur en).
  Proof.
    intros fs e0 en Hf HF Hrun n.
    pose proof (run_edits_chain _ _ _ HF Hrun) as HC.
    destruct (edit_chain_zip _ _ _ _ _ (fresh_zip _ Hf) HC) as (mids & fut' & HZ & L & Hfut & H0).
    rewrite app_nil_r in HZ. destruct Hf as [Hu0 Hr0]. rewrite Hu0 in L. cbn [length] in L. rewrite Nat.sub_0_r in L.
    fold n in L.
    assert (fut' = []) as -> by (destruct Hfut as [|[_ ?]]; [auto|congruence]).
    rewrite <- run_ur_repeat_undo.
    destruct (interleaving_zip (repeat true n) _ _ _ _ HZ) as (e1 & past1 & now1 & fut1 & E1 & Z1 & T1 & L1 & S1).
    rewrite walk_undos, L, Nat.sub_diag in L1. destruct past1; [|discriminate]. cbn [length] in S1.
    exists e1. 
    assert (Hnow1 : eqv now1 (cur e0)).
    { specialize (H0 now1). unfold timeline in T1. cbn [rev app] in T1. rewrite <- T1 in H0. cbn in H0. exact H0. }
    rewrite <- run_ur_repeat_redo.
    destruct (interleaving_zip (repeat false n) _ _ _ _ Z1) as (e2 & past2 & now2 & fut2 & E2 & Z2 & T2 & L2 & S2).
    cbn [length] in L2, S2. rewrite walk_redos in L2 by lia. cbn [Nat.add] in L2, S2.
    assert (Hf1 : length fut1 = n) by lia. rewrite Hf1 in *.
    rewrite Nat.min_id in L2. assert (fut2 = []) by (destruct fut2; [reflexivity|cbn in S2; lia]). subst fut2.
    exists e2. split; [exact E1|]. split; [eapply eqv_trans; [apply Z1|exact Hnow1]|].
    split; [destruct Z1 as (_ & Hu1 & _); destruct (ustk e1); [reflexivity|cbn in Hu1; tauto]|].
    split; [exact E2|].
    eapply eqv_trans; [apply Z2|].
    assert (now2 = cur en).
    { rewrite T1 in T2. unfold timeline in T2.
      assert (H : last (rev past2 ++ [now2]) now2 = last (rev mids ++ [cur en]) now2) by (rewrite T2; reflexivity).
      rewrite !last_last in H. exact H. }
    subst now2. apply eqv_refl.
  Qed.

  (* a new edit discards the redo history (all three ways an edit touches the stacks), so that redo is a no-op *)
  Lemma push_plain_clears_redo (o : fop) (e : es) : rstk (push_plain o e) = [].
  Proof. reflexivity. Qed.
  Lemma push_action_clears_redo (o : fop) (e e' : es) : push_action op_redo o e = Ok e' -> rstk e' = [].
  Proof. unfold push_action. destruct (fredo o (cur e)) as [[o' s']| |]; cbn [bind]; intro H; [|discriminate|discriminate]. injection H as <-. reflexivity. Qed.
  Lemma begin_guard_clears_redo (e : es) : rstk (snd (begin_guard e)) = [].
  Proof. reflexivity. Qed.
  Lemma redo_nothing (e : es) : rstk e = [] -> redo op_redo e = Ok e.
  Proof. unfold redo. intros ->. reflexivity. Qed.

  (* new_edit_clears_redo: after any walk, an edit that pushes at least one operation leaves no redo history, and the
     zipper continues from the state the walk had reached *)
  Theorem new_edit_clears_redo : forall e e' past now fut, Zip e past now fut -> edit_chain e e' ->
    (length (ustk e) < length (ustk e'))%nat ->
    rstk e' = [] /\ redo op_redo e' = Ok e' /\ exists mids, Zip e' (mids ++ past) (cur e') [].
  Proof.
    intros e e' past now fut HZ HC Hlt.
    destruct (edit_chain_zip _ _ _ _ _ HZ HC) as (mids & fut' & HZ' & L & Hfut & _).
    assert (fut' = []) as ->.
    { destruct Hfut as [|[-> _]]; [auto|]. cbn [length] in L. lia. }
    assert (Hr : rstk e' = []).
    { destruct HZ' as (_ & _ & Hr). destruct (rstk e'); [reflexivity|cbn in Hr; tauto]. }
    split; [exact Hr|]. split; [apply redo_nothing; exact Hr|]. exists mids. exact HZ'.
  Qed.
End Framework.
