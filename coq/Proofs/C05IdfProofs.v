(* C05 proofs for iCE Draw IDF (Model/C05Idf.v): the run-length layer and the file round trip. *)
From Coq Require Import NArith ZArith Bool List Lia PeanoNat.
From IE Require Import Lib.Tbl Lib.Bits Lib.C18Lib Lib.C05Lib Gen.Codepage Gen.Formats Model.Attr Model.C05Buf Model.C05Bin
  Model.C05XBin Model.C05Idf Model.C05Spec Proofs.AttrProofs Proofs.C05BufProofs Proofs.C05BinProofs Proofs.C05AdfProofs
  Proofs.C05XBinProofs.
Import ListNotations.
Local Open Scope Z_scope.

(* what a cell looks like after it went through its (character, attribute) pair *)
Definition idf_rt (c : cell) : cell := mkCell (c_ch c) (from_u8 (as_u8 (c_attr c) Ice) Ice).

(* ------------------------------------------------------------------ equal cells, runs *)
Lemma cell_eqb_rt c d : cell_eqb c d = true -> idf_rt d = idf_rt c /\ c_ch d = c_ch c /\ as_u8 (c_attr d) Ice = as_u8 (c_attr c) Ice.
Proof.
  unfold cell_eqb, attr_eqb. intro H.
  apply andb_prop in H as [Hch H]. apply andb_prop in H as [H Hat]. apply andb_prop in H as [Hfg Hbg].
  apply N.eqb_eq in Hch, Hat, Hfg, Hbg.
  assert (E : as_u8 (c_attr d) Ice = as_u8 (c_attr c) Ice).
  { unfold as_u8, is_bold, is_blinking. rewrite Hfg, Hbg, Hat. reflexivity. }
  unfold idf_rt. rewrite E, Hch. auto.
Qed.

Lemma run_len_spec c : forall rest limit,
  (run_len c rest limit <= length rest)%nat /\ (run_len c rest limit <= limit)%nat /\
  Forall (fun d => cell_eqb c d = true) (firstn (run_len c rest limit) rest).
Proof.
  induction rest as [|d rest IH]; intros [|limit]; cbn [run_len length firstn]; try (repeat split; try lia; constructor).
  destruct (cell_eqb c d) eqn:E.
  - destruct (IH limit) as (H1 & H2 & H3). cbn [firstn]. repeat split; try lia. constructor; assumption.
  - cbn [firstn]. repeat split; try lia. constructor.
Qed.

Lemma map_rt_run c : forall j tl, (j <= length tl)%nat ->
  Forall (fun d => cell_eqb c d = true) (firstn j tl) -> map idf_rt (firstn j tl) = repeat (idf_rt c) j.
Proof.
  induction j as [|j IHj]; intros tl Hnl Hrun; [reflexivity|].
  destruct tl as [|d tl]; [cbn in Hnl; lia|]. cbn [firstn map repeat] in *.
  inversion Hrun; subst. destruct (cell_eqb_rt c d) as (-> & _); [assumption|].
  f_equal. apply IHj; [cbn in Hnl; lia|assumption].
Qed.

Lemma fill_row_app grow l1 : forall L x y l2,
  fill_row grow L x y (l1 ++ l2) = fill_row grow (fill_row grow L x y l1) (x + Z.of_nat (length l1)) y l2.
Proof.
  induction l1 as [|c l1 IH]; intros L x y l2; cbn [app fill_row length].
  - rewrite Z.add_0_r. reflexivity.
  - rewrite IH. f_equal. lia.
Qed.

(* ------------------------------------------------------------------ one token of the loader *)
Section IdfRow.
  Variable x2 : Z.

  Lemma idf_put_n_run c : forall n L bh x y,
    0 <= x -> x + Z.of_nat (S n) <= x2 + 1 ->
    idf_put_n (S n) 0 x2 c L bh x y =
    (fill_row true L x y (repeat c (S n)), y + 1,
     (if x + Z.of_nat (S n) >? x2 then 0 else x + Z.of_nat (S n)),
     (if x + Z.of_nat (S n) >? x2 then y + 1 else y)).
  Proof.
    induction n as [|n IH]; intros L bh x y Hx Hb.
    - cbn [idf_put_n repeat fill_row]. unfold idf_advance. change (Z.of_nat 1) with 1. destruct (x + 1 >? x2); reflexivity.
    - change (idf_put_n (S (S n)) 0 x2 c L bh x y) with
        (let L' := put true L x y c in let '(x', y') := idf_advance 0 x2 x y in idf_put_n (S n) 0 x2 c L' (y + 1) x' y').
      cbv zeta. unfold idf_advance. destruct (Z.gtb_spec (x + 1) x2); [lia|].
      rewrite IH by lia.
      replace (x + 1 + Z.of_nat (S n)) with (x + Z.of_nat (S (S n))) by lia.
      reflexivity.
  Qed.

  Variable compress : bool.

  Lemma u16_count n : N.to_nat (N.of_nat n mod 256 + N.of_nat n / 256 * 256) = n.
  Proof.
    rewrite N.add_comm, N.mul_comm, <- N.div_mod by discriminate. apply Nat2N.id.
  Qed.

  (* a whole row suffix, written by idf_row, is read back as the same cells *)
  Lemma idf_row_loop : forall k cells, (length cells <= k)%nat -> forall fuel bytes L bh x y rest,
    cells <> [] -> 0 <= x -> x + Z.of_nat (length cells) = x2 + 1 ->
    idf_row fuel compress cells = Ok bytes ->
    idf_loop 0 x2 L bh x y (bytes ++ rest) =
    idf_loop 0 x2 (fill_row true L x y (map idf_rt cells)) (y + 1) 0 (y + 1) rest.
  Proof.
    induction k as [|k IH]; intros cells Hk fuel bytes L bh x y rest Hne Hx Hw Hrow.
    { destruct cells; [congruence|cbn in Hk; lia]. }
    destruct cells as [|c tl]; [congruence|]. cbn [length] in Hk, Hw.
    destruct fuel as [|fuel]; [discriminate|]. cbn [idf_row] in Hrow.
    remember (as_u8 (c_attr c) Ice) as a eqn:Ea.
    remember (if compress then S (run_len c tl (N.to_nat 65534)) else 1%nat) as n0 eqn:En0.
    remember (compress && ((3 <? n0)%nat || (c_ch c =? 1)%N)) as hdr eqn:Ehdr.
    remember (if hdr then n0 else 1%nat) as n eqn:En.
    destruct (N.ltb_spec 255 (c_ch c)) as [|Hch]; [discriminate|].
    destruct (idf_row fuel compress (skipn (n - 1) tl)) as [tlb| |] eqn:Etl; cbn [bind] in Hrow; try discriminate.
    injection Hrow as <-.
    (* facts about the run *)
    destruct (run_len_spec c tl (N.to_nat 65534)) as (Hr1 & Hr2 & Hr3).
    assert (Hn1 : (1 <= n)%nat) by (rewrite En, En0; destruct hdr, compress; lia).
    assert (Hnl : (n - 1 <= length tl)%nat) by (rewrite En, En0; destruct hdr, compress; cbn [length]; lia).
    assert (Hrun : Forall (fun d => cell_eqb c d = true) (firstn (n - 1) tl)).
    { rewrite En, En0. destruct hdr; [|cbn; constructor]. destruct compress; [|cbn; constructor].
      replace (S (run_len c tl (N.to_nat 65534)) - 1)%nat with (run_len c tl (N.to_nat 65534)) by lia. exact Hr3. }
    assert (Hmap : map idf_rt (c :: tl) = repeat (idf_rt c) n ++ map idf_rt (skipn (n - 1) tl)).
    { rewrite <- (firstn_skipn (n - 1) tl) at 1. rewrite map_cons, map_app.
      replace (repeat (idf_rt c) n) with (idf_rt c :: repeat (idf_rt c) (n - 1))
        by (destruct n; [lia|]; cbn [repeat]; rewrite Nat.sub_succ, Nat.sub_0_r; reflexivity).
      cbn [app]. f_equal. f_equal. apply map_rt_run; assumption. }
    (* the bytes of this token, read by the loader *)
    assert (Hstep : forall R,
      idf_loop 0 x2 L bh x y (((if hdr then [1%N; 0%N; (N.of_nat n mod 256)%N; (N.of_nat n / 256)%N]
                                else if (c_ch c =? 1)%N && (a =? 0)%N then [1; 0; 1; 0]%N else []) ++ c_ch c :: a :: R)) =
      (let '(L', bh', x', y') := idf_put_n n 0 x2 (idf_rt c) L bh x y in idf_loop 0 x2 L' bh' x' y' R)).
    { intro R. destruct hdr.
      - cbn [app idf_loop N.eqb Pos.eqb andb]. rewrite u16_count. unfold idf_rt. rewrite <- Ea. reflexivity.
      - rewrite En.
        destruct ((c_ch c =? 1)%N && (a =? 0)%N) eqn:E10.
        + apply andb_prop in E10 as [E1 E0]. apply N.eqb_eq in E1, E0. unfold idf_rt. rewrite <- Ea. rewrite E1, E0.
          cbn [app idf_loop N.eqb Pos.eqb andb]. reflexivity.
        + cbn [app idf_loop]. rewrite E10. unfold idf_rt. rewrite <- Ea. reflexivity. }
    rewrite <- !app_assoc. cbn [app]. rewrite Hstep.
    replace n with (S (n - 1)) at 1 by lia.
    rewrite idf_put_n_run by (try assumption; lia).
    replace (S (n - 1)) with n by lia.
    rewrite Hmap, fill_row_app, repeat_length.
    destruct (skipn (n - 1) tl) as [|d tl'] eqn:Esk.
    - (* the run ends the row *)
      assert (Hlen : length tl = (n - 1)%nat).
      { pose proof (skipn_length (n - 1) tl) as Hs. rewrite Esk in Hs. cbn in Hs. lia. }
      destruct fuel; cbn [idf_row] in Etl; injection Etl as <-.
      + destruct (Z.gtb_spec (x + Z.of_nat n) x2); [|lia]. cbn [map fill_row app]. reflexivity.
      + destruct (Z.gtb_spec (x + Z.of_nat n) x2); [|lia]. cbn [map fill_row app]. reflexivity.
    - (* more cells follow on this row *)
      assert (Hlen : length tl = (n - 1 + S (length tl'))%nat).
      { pose proof (skipn_length (n - 1) tl) as Hs. rewrite Esk in Hs. cbn [length] in Hs. lia. }
      destruct (Z.gtb_spec (x + Z.of_nat n) x2); [lia|].
      apply IH with (fuel := fuel); try assumption; cbn [length]; try lia. discriminate.
  Qed.

  Lemma idf_row_ok : forall fuel cells, (length cells <= fuel)%nat ->
    Forall (fun c => (c_ch c < 256)%N) cells -> exists bytes, idf_row fuel compress cells = Ok bytes.
  Proof.
    induction fuel as [|fuel IH]; intros cells Hf Hall.
    - destruct cells; [eexists; reflexivity|cbn in Hf; lia].
    - destruct cells as [|c tl]; [eexists; reflexivity|]. cbn [idf_row].
      inversion Hall as [|? ? Hc Ht]; subst. destruct (N.ltb_spec 255 (c_ch c)); [lia|].
      match goal with |- context [skipn ?j tl] =>
        assert (Hs : Forall (fun c => (c_ch c < 256)%N) (skipn j tl))
          by (rewrite <- (firstn_skipn j tl) in Ht; apply Forall_app in Ht; apply Ht);
        destruct (IH (skipn j tl)) as (tb & Htb); [rewrite skipn_length; cbn [length] in Hf; lia | exact Hs |]
      end.
      rewrite Htb. cbn [bind]. eexists. reflexivity.
  Qed.
End IdfRow.

(* ------------------------------------------------------------------ all rows *)
Lemma idf_rows_loop compress x2 : forall rows bytes L bh y rest,
  0 <= x2 -> Forall (fun r => Z.of_nat (length r) = x2 + 1) rows ->
  idf_rows compress rows = Ok bytes ->
  idf_loop 0 x2 L bh 0 y (bytes ++ rest) =
  idf_loop 0 x2 (fill_rows true L y (map (map idf_rt) rows))
           (match rows with [] => bh | _ => y + Z.of_nat (length rows) end) 0 (y + Z.of_nat (length rows)) rest.
Proof.
  induction rows as [|r t IH]; intros bytes L bh y rest Hx2 Hall H.
  - cbn in H. injection H as <-. cbn [app map fill_rows length]. rewrite Z.add_0_r. reflexivity.
  - inversion Hall as [|? ? Hr Ht]; subst. cbn [idf_rows] in H.
    destruct (idf_row (length r) compress r) as [a| |] eqn:Ea; cbn [bind] in H; try discriminate.
    destruct (idf_rows compress t) as [b| |] eqn:Eb; cbn [bind] in H; try discriminate.
    injection H as <-. rewrite <- app_assoc.
    rewrite (idf_row_loop x2 compress (length r) r (le_n _) (length r) a) by
      (try assumption; try lia; intro E; subst r; cbn in Hr; lia).
    rewrite (IH b) by (try assumption; reflexivity). cbn [map fill_rows length].
    replace (y + 1 + Z.of_nat (length t)) with (y + Z.of_nat (S (length t))) by lia.
    destruct t; [cbn [length]; f_equal; lia|reflexivity].
Qed.

Lemma idf_rows_ok compress rows :
  Forall (Forall (fun c => (c_ch c < 256)%N)) rows -> exists bytes, idf_rows compress rows = Ok bytes.
Proof.
  induction 1 as [|r t Hr _ IH]; [eexists; reflexivity|].
  destruct (idf_row_ok compress (length r) r (le_n _) Hr) as (a & Ha). destruct IH as (b & Hb).
  cbn [idf_rows]. rewrite Ha, Hb. cbn [bind]. eexists. reflexivity.
Qed.

(* ------------------------------------------------------------------ file round trip *)
Lemma idf_roundtrip_proof : forall compress p, representable_idf p ->
  exists data b, save_idf compress p = Ok data /\ load_idf data = Ok b /\ same_picture true [0%N] p (pic_of b).
Proof.
  intros compress p (Hrect & Hw & Hh & Hice & Hcells & Hpl & Hp6 & (f & Hf & Hwf)).
  destruct (idf_rows_ok compress (p_rows p) (cells_lt_256 Ice p Hcells)) as (cells & Hcellsb).
  set (hdr := IDF_V1_4_HEADER ++ [0; 0; 0; 0]%N ++ [lo8 (p_w p - 1); hi8 (p_w p - 1); lo8 (p_h p - 1); hi8 (p_h p - 1)]).
  set (data := hdr ++ cells ++ convert_to_u8_data f ++ as_vec_63 (p_pal p)).
  set (rows' := map (map idf_rt) (p_rows p)).
  set (ls0 := l_lines (layer_new 80 25)).
  set (lines' := lfill_rows 80 ls0 0 rows').
  set (nd := font_named_default (mkFont 16 256 false (f_glyphs f))).
  set (b1 := set_width (set_ice (buffer_new 80 25) Ice) (p_w p)).
  set (bfin := set_pal (set_fonts (set_height (set_layer b1 (mkLayer 80 (p_h p) lines')) (p_h p)) [(0%N, nd)]) (p_pal p)).
  exists data, bfin.
  destruct Hrect as (Hw0 & Hh0 & Hlen & Hrows).
  assert (Hrowsw : Forall (fun r => Z.of_nat (length r) = (p_w p - 1) + 1) (p_rows p)).
  { eapply Forall_impl; [|exact Hrows]. cbv beta. intros r Hr. rewrite Hr. lia. }
  assert (Hrows'ne : Forall (fun r => Z.of_nat (length r) <= 80 /\ r <> []) rows').
  { unfold rows'. apply Forall_forall. intros r' Hr'. apply in_map_iff in Hr'. destruct Hr' as (r & <- & Hr).
    rewrite map_length. rewrite Forall_forall in Hrowsw. specialize (Hrowsw r Hr). split; [lia|].
    intro E. apply map_eq_nil in E. subst r. cbn in Hrowsw. lia. }
  assert (Hne : p_rows p <> []) by (intro E; rewrite E in Hlen; cbn in Hlen; lia).
  assert (Hlen' : length rows' = Z.to_nat (p_h p)) by (unfold rows'; rewrite map_length; exact Hlen).
  assert (Hfontlen : length (convert_to_u8_data f) = 4096%nat) by (rewrite (convert_wf_length 16 f Hwf); reflexivity).
  assert (Hpallen : length (as_vec_63 (p_pal p)) = 48%nat) by (rewrite as_vec_63_length, Hpl; reflexivity).
  split; [|split].
  - (* save *)
    unfold save_idf. rewrite Hice. cbn [is_ice negb].
    destruct (Z.ltb_spec 200 (p_h p)); [lia|].
    rewrite used_pages_page0 by apply (cells_page0 Ice), Hcells. cbn [length Nat.ltb Nat.leb].
    rewrite Hpl. cbn [Nat.eqb negb]. rewrite Hcellsb. cbn [bind].
    unfold font0_height. rewrite Hf. cbn [bind]. destruct Hwf as (Hfh & _). rewrite Hfh. cbn [N.eqb Pos.eqb negb].
    reflexivity.
  - (* load *)
    unfold load_idf.
    assert (Hdl : length data = (12 + length cells + 4096 + 48)%nat).
    { unfold data, hdr. rewrite !app_length, Hfontlen, Hpallen. cbn [length]. change (length IDF_V1_4_HEADER) with 4%nat. lia. }
    change (N.to_nat IDF_HEADER_SIZE + N.to_nat IDF_FONT_SIZE + N.to_nat IDF_PALETTE_SIZE)%nat with 4156%nat.
    destruct (Nat.ltb_spec (length data) 4156); [lia|].
    unfold data at 1. unfold hdr, IDF_V1_4_HEADER. cbn [app].
    destruct (list_eq_dec N.eq_dec [4; 49; 46; 52]%N IDF_V1_4_HEADER) as [_|Hn]; [|exfalso; apply Hn; reflexivity].
    rewrite orb_true_r. cbn [negb].
    unfold u16le. change (Z.of_N (0 + 0 * 256)) with 0. rewrite lo_hi8 by lia.
    destruct (Z.ltb_spec (p_w p - 1) 0); [lia|].
    replace (p_w p - 1 - 0 + 1) with (p_w p) by lia. fold b1.
    replace (length data - 4156)%nat with (length cells) by lia.
    rewrite firstn_app_exact by reflexivity.
    change (b_layer b1) with (mkLayer 80 25 ls0). change (b_h b1) with 25.
    assert (Hloop : idf_loop 0 (p_w p - 1) (mkLayer 80 25 ls0) 25 0 0 cells = (mkLayer 80 (p_h p) lines', p_h p, 0%nat)).
    { rewrite <- (app_nil_r cells).
      rewrite (idf_rows_loop compress (p_w p - 1) (p_rows p) cells) by (try assumption; lia).
      fold rows'. rewrite fill_rows_spec; cbn [l_w l_h l_lines].
      - assert (Hne' : rows' <> []) by (unfold rows'; intro E; apply map_eq_nil in E; congruence).
        rewrite !match_nonempty by assumption.
        cbn [idf_loop length]. rewrite Hlen', Hlen. unfold lines'. cbn [Z.to_nat].
        replace (0 + Z.of_nat (Z.to_nat (p_h p))) with (p_h p) by lia. reflexivity.
      - lia.
      - exact Hrows'ne.
      - left. reflexivity. }
    rewrite Hloop. rewrite Nat.sub_0_r.
    rewrite skipn_app_exact by reflexivity.
    change (N.to_nat IDF_FONT_SIZE) with 4096%nat. change (N.to_nat IDF_PALETTE_SIZE) with 48%nat.
    rewrite firstn_app_exact by exact Hfontlen.
    rewrite (font_create_8_convert 16 f) by (try exact Hwf; lia). cbn [bind].
    rewrite skipn_app_exact by exact Hfontlen.
    rewrite firstn_all2 by lia.
    rewrite from_63_as_vec_63 by exact Hp6. cbn [bind]. reflexivity.
  - (* picture *)
    assert (Hpic : p_rows (pic_of bfin) = map (map seen) rows').
    { apply pic_rows_of_lines with (w := Z.to_nat (p_w p)); unfold bfin; cbn [b_w b_h b_layer set_pal set_fonts set_height set_layer l_w l_h l_lines].
      - change (b_w b1) with (p_w p). lia.
      - rewrite Hlen'. lia.
      - change (b_w b1) with (p_w p). lia.
      - lia.
      - unfold rows'. apply Forall_forall. intros r' Hr'. apply in_map_iff in Hr'. destruct Hr' as (r & <- & Hr).
        rewrite map_length. rewrite Forall_forall in Hrows. apply Hrows, Hr.
      - intros x y r c Hr Hc. unfold lines'. rewrite cell_at_lfill_rows. cbn [Nat.leb]. rewrite Nat.sub_0_r, Hr, Hc. reflexivity. }
    unfold same_picture. rewrite Hpic.
    unfold bfin. cbn [pic_of p_w p_h p_ice p_pal p_fonts b_w b_h b_ice b_pal b_fonts set_pal set_fonts set_height set_layer].
    split; [reflexivity|]. split; [reflexivity|]. split; [|split; [|split]].
    + unfold same_mode. rewrite Hice. reflexivity.
    + unfold rows'. rewrite map_map_rows. apply Forall2_rows_map with (P := cell8_page0 Ice); [exact Hcells|].
      intros c ((Hch & Hex) & Hpg). unfold idf_rt. rewrite seen_from_u8 by apply as_u8_range_proof.
      split; [reflexivity|]. cbn [c_attr]. split.
      * symmetry. apply attr_encode_decode_proof, Hex.
      * intros _. rewrite Hpg. symmetry. apply (from_u8_visible Ice _ 0%N), as_u8_range_proof.
    + reflexivity.
    + unfold same_fonts. constructor; [|constructor]. rewrite Hf.
      cbn [pic_of p_fonts b_fonts set_pal set_fonts set_height set_layer get_font N.eqb]. unfold nd, same_font.
      cbn [font_named_default f_h f_len f_glyphs]. destruct Hwf as (H1 & H2 & _). auto.
Qed.

(* ------------------------------------------------------------------ known finding: sizes the loader accepts and the writer refuses *)
(* signature C05-idf-resave-size-outside-writer-limits: the loader takes any number of rows (and widths up to 65536),
   the writer refuses more than 200 rows (and, with SAUCE, widths above 510) *)
Definition KnownC05_idf_size (p : pic) : Prop := 200 < p_h p.

Lemma idf_known_size_refused compress p : KnownC05_idf_size p -> p_ice p = Ice -> save_idf compress p = Err 2.
Proof.
  intros H Hice. unfold save_idf. rewrite Hice. cbn [is_ice negb].
  unfold KnownC05_idf_size in H. destruct (Z.ltb_spec 200 (p_h p)); [reflexivity|lia].
Qed.

(* a 1 x 201 file: one repeat header with count 201 *)
Definition known_idf_file : list N :=
  IDF_V1_4_HEADER ++ [0; 0; 0; 0; 0; 0; 0; 0; 1; 0; 201; 0; 65; 7]%N ++ repeat 0%N 4096 ++ repeat 0%N 48.

Lemma known_idf_size_witness :
  exists b, load_idf known_idf_file = Ok b /\ KnownC05_idf_size (pic_of b) /\ save_idf true (pic_of b) = Err 2.
Proof.
  destruct (load_idf known_idf_file) as [b| |] eqn:E; [|vm_compute in E; discriminate|vm_compute in E; discriminate].
  exists b. split; [reflexivity|].
  assert (Hh : b_h b = 201 /\ b_ice b = Ice).
  { assert (H : match load_idf known_idf_file with Ok b' => b_h b' = 201 /\ b_ice b' = Ice | _ => False end) by (vm_compute; split; reflexivity).
    rewrite E in H. exact H. }
  destruct Hh as (Hh & Hi).
  assert (Hk : KnownC05_idf_size (pic_of b)) by (unfold KnownC05_idf_size; cbn [pic_of p_h]; lia).
  split; [exact Hk|]. apply idf_known_size_refused; [exact Hk|exact Hi].
Qed.

(* ------------------------------------------------------------------ IDF: what any accepted file loads as *)
Definition idf_inv (L : layer) (bh : Z) : Prop :=
  l_w L = 80 /\ l_h L = bh /\ 1 <= bh /\ all_cells (stored8 Ice) (l_lines L).

Lemma idf_put_n_inv x1 x2 c : stored8 Ice c -> forall n L bh x y,
  0 <= y -> idf_inv L bh ->
  idf_inv (fst (fst (fst (idf_put_n n x1 x2 c L bh x y)))) (snd (fst (fst (idf_put_n n x1 x2 c L bh x y)))) /\
  0 <= snd (idf_put_n n x1 x2 c L bh x y).
Proof.
  intro Hc. induction n as [|n IH]; intros L bh x y Hy Hinv; [cbn; auto|].
  cbn [idf_put_n]. destruct (idf_advance x1 x2 x y) as [x' y'] eqn:Ea.
  assert (Hy' : 0 <= y') by (unfold idf_advance in Ea; destruct (x + 1 >? x2); injection Ea as <- <-; lia).
  apply IH; [exact Hy'|].
  destruct Hinv as (Hw & Hh & Hb & Hcells). unfold idf_inv. rewrite put_width.
  split; [exact Hw|]. split.
  - unfold put, layer_set_char. destruct (out_of_layer _ x y); reflexivity.
  - split; [lia|]. apply put_all_cells; [left; reflexivity|exact Hc|exact Hcells].
Qed.

Lemma stored8_decoded ch a : (ch < 256)%N -> (a < 256)%N -> stored8 Ice (mkCell ch (from_u8 a Ice)).
Proof. intros Hch Ha. right. exists ch, a. auto. Qed.

Lemma idf_loop_inv x1 x2 : forall n area, (length area <= n)%nat -> is_bytes area -> forall L bh x y,
  0 <= y -> idf_inv L bh ->
  idf_inv (fst (fst (idf_loop x1 x2 L bh x y area))) (snd (fst (idf_loop x1 x2 L bh x y area))) /\
  (snd (idf_loop x1 x2 L bh x y area) <= length area)%nat.
Proof.
  induction n as [|n IH]; intros area Hn Hb L bh x y Hy Hinv.
  { destruct area; [cbn; auto|cbn in Hn; lia]. }
  destruct area as [|ch [|a rest]]; try (cbn; split; [exact Hinv|lia]).
  unfold is_bytes in Hb. inversion Hb as [|? ? Hch Hb1]; subst. inversion Hb1 as [|? ? Ha Hrest]; subst.
  cbn [idf_loop]. cbn [length] in Hn.
  destruct ((ch =? 1)%N && (a =? 0)%N).
  - destruct rest as [|nl [|nh [|ch2 [|a2 rest2]]]]; try (cbn [fst snd length]; split; [exact Hinv|lia]).
    inversion Hrest as [|? ? _ Hr1]; subst. inversion Hr1 as [|? ? _ Hr2]; subst.
    inversion Hr2 as [|? ? Hch2 Hr3]; subst. inversion Hr3 as [|? ? Ha2 Hr4]; subst.
    destruct (idf_put_n_inv x1 x2 _ (stored8_decoded ch2 a2 Hch2 Ha2) (N.to_nat (nl + nh * 256)) L bh x y Hy Hinv) as (Hi & Hy').
    destruct (idf_put_n (N.to_nat (nl + nh * 256)) x1 x2 (mkCell ch2 (from_u8 a2 Ice)) L bh x y) as [[[L' bh'] x'] y'].
    cbn [fst snd] in Hi, Hy'. cbn [length] in Hn.
    destruct (IH rest2 ltac:(lia) Hr4 L' bh' x' y' Hy' Hi) as (H1 & H2). split; [exact H1|cbn [length]; lia].
  - destruct (idf_put_n_inv x1 x2 _ (stored8_decoded ch a Hch Ha) 1 L bh x y Hy Hinv) as (Hi & Hy').
    destruct (idf_put_n 1 x1 x2 (mkCell ch (from_u8 a Ice)) L bh x y) as [[[L' bh'] x'] y'].
    cbn [fst snd] in Hi, Hy'.
    destruct (IH rest ltac:(lia) Hrest L' bh' x' y' Hy' Hi) as (H1 & H2). split; [exact H1|cbn [length]; lia].
Qed.

Lemma idf_load_representable : forall data b,
  is_bytes data -> load_idf data = Ok b -> b_w b <= 80 -> b_h b <= 200 -> representable_idf (pic_of b).
Proof.
  intros data b Hbytes Hload Hw80 Hh200. unfold load_idf in Hload.
  change (N.to_nat IDF_HEADER_SIZE + N.to_nat IDF_FONT_SIZE + N.to_nat IDF_PALETTE_SIZE)%nat with 4156%nat in Hload.
  destruct (Nat.ltb_spec (length data) 4156) as [|Hlen]; [discriminate|].
  destruct data as [|v0 [|v1 [|v2 [|v3 [|x1l [|x1h [|y1l [|y1h [|x2l [|x2h [|y2l [|y2h rest]]]]]]]]]]]]; try discriminate.
  match type of Hload with (if negb ?c then _ else _) = _ => destruct c end; cbn [negb] in Hload; [|discriminate].
  set (x1 := u16le x1l x1h) in *. set (y1 := u16le y1l y1h) in *. set (x2 := u16le x2l x2h) in *.
  destruct (Z.ltb_spec x2 x1) as [|Hx]; [discriminate|].
  assert (Hrest : is_bytes rest).
  { unfold is_bytes in Hbytes. repeat match goal with H : Forall _ (_ :: _) |- _ => inversion H; clear H; subst end. assumption. }
  assert (Hy1 : 0 <= y1) by (unfold y1, u16le; lia).
  cbn [length] in Hlen.
  set (area_len := (length (v0 :: v1 :: v2 :: v3 :: x1l :: x1h :: y1l :: y1h :: x2l :: x2h :: y2l :: y2h :: rest) - 4156)%nat) in *.
  assert (Hal : (area_len + 4144 = length rest)%nat) by (unfold area_len; cbn [length]; lia).
  set (b1 := set_width (set_ice (buffer_new 80 25) Ice) (x2 - x1 + 1)) in *.
  assert (Hinv0 : idf_inv (b_layer b1) (b_h b1)).
  { unfold idf_inv. cbn. repeat split; try lia. apply (layer_new_all_cells (stored8 Ice) 80 25). left. reflexivity. }
  destruct (idf_loop_inv x1 x2 _ (firstn area_len rest) (le_n _) (is_bytes_firstn _ _ Hrest) (b_layer b1) (b_h b1) x1 y1 Hy1 Hinv0) as (Hinv & Hun).
  destruct (idf_loop x1 x2 (b_layer b1) (b_h b1) x1 y1 (firstn area_len rest)) as [[L bh] unread]. cbn [fst snd] in Hinv, Hun.
  rewrite firstn_length in Hun.
  set (tail := skipn (area_len - unread) rest) in *.
  assert (Htl : (4144 <= length tail)%nat) by (unfold tail; rewrite skipn_length; lia).
  change (N.to_nat IDF_FONT_SIZE) with 4096%nat in Hload. change (N.to_nat IDF_PALETTE_SIZE) with 48%nat in Hload.
  destruct (font_create_8 16 (firstn 4096 tail)) as [font| |] eqn:Ef; cbn [bind] in Hload; try discriminate.
  destruct (from_63 (firstn 48 (skipn 4096 tail))) as [pal| |] eqn:Ep; cbn [bind] in Hload; try discriminate.
  injection Hload as <-.
  assert (Htb : is_bytes tail) by (apply is_bytes_skipn, Hrest).
  assert (Hfl : length (firstn 4096 tail) = (256 * N.to_nat 16)%nat).
  { rewrite firstn_length. change (256 * N.to_nat 16)%nat with 4096%nat. apply Nat.min_l. lia. }
  assert (H16 : (1 <= 16)%N) by lia.
  destruct (font_create_8_wf 16 _ _ H16 Hfl Ef) as (Hwf & _).
  destruct (from_63_shape _ _ (is_bytes_firstn _ 48 (is_bytes_skipn _ 4096 Htb)) Ep) as (Hp3 & Hp6).
  rewrite firstn_length, skipn_length in Hp3.
  destruct Hinv as (HLw & HLh & Hbh & Hcells).
  cbn [b_w b_h set_pal set_fonts set_height set_layer] in Hw80, Hh200. change (b_w b1) with (x2 - x1 + 1) in Hw80.
  unfold representable_idf.
  cbn [pic_of p_w p_h p_ice p_pal p_fonts b_w b_h b_ice b_pal b_fonts set_pal set_fonts set_height set_layer].
  change (b_w b1) with (x2 - x1 + 1). change (b_ice b1) with Ice.
  split; [|split; [|split; [|split; [|split; [|split; [|split]]]]]].
  - unfold rect.
    apply (pic_of_rect (set_pal (set_fonts (set_height (set_layer b1 L) bh) [(0%N, font_named_default font)]) pal));
      cbn [b_w b_h set_pal set_fonts set_height set_layer]; [change (b_w b1) with (x2 - x1 + 1)|]; lia.
  - lia.
  - lia.
  - reflexivity.
  - unfold all_pic_cells.
    apply (pic_of_all_cells (stored8 Ice) (cell8_page0 Ice)); cbn [b_w b_h b_layer set_pal set_fonts set_height set_layer].
    + change (b_w b1) with (x2 - x1 + 1). lia.
    + lia.
    + left. reflexivity.
    + exact Hcells.
    + intros c Hc. apply stored8_seen, Hc.
  - lia.
  - exact Hp6.
  - cbn [get_font N.eqb]. eexists. split; [reflexivity|].
    destruct Hwf as (H1 & H2 & H3 & H4). unfold font_wf. cbn [font_named_default f_h f_len f_glyphs]. auto.
Qed.

Lemma idf_resave_proof : forall data b,
  is_bytes data -> load_idf data = Ok b -> b_w b <= 80 -> b_h b <= 200 ->
  forall compress, exists data' b', save_idf compress (pic_of b) = Ok data' /\ load_idf data' = Ok b' /\
                                    same_picture true [0%N] (pic_of b) (pic_of b').
Proof.
  intros data b Hd Hl Hw Hh compress. apply idf_roundtrip_proof. exact (idf_load_representable data b Hd Hl Hw Hh).
Qed.
