(* C16, part 1: index laws of the palette container and the 6-bit VGA codec (Model/Palette.v). *)
From Coq Require Import NArith List Bool Lia Arith.
From IE Require Import Lib.Tbl Lib.Bits Lib.C16Lib Gen.PaletteSrc Model.Palette.
Import ListNotations.
Local Open Scope N_scope.

(* ================================================================================================ *)
(* basic facts                                                                                        *)

Definition small (p : palette) : Prop := plen p < 4294967296.            (* the length fits a u32 *)

Lemma rgb_eqb_eq a b : rgb_eqb a b = true <-> a = b.
Proof.
  destruct a as [[r1 g1] b1], b as [[r2 g2] b2]. unfold rgb_eqb.
  rewrite !andb_true_iff, !N.eqb_eq. split.
  - intros [[-> ->] ->]. reflexivity.
  - intro H. inversion H. auto.
Qed.

Lemma rgb_eqb_neq a b : rgb_eqb a b = false <-> a <> b.
Proof.
  split.
  - intros H E. apply rgb_eqb_eq in E. congruence.
  - intro H. destruct (rgb_eqb a b) eqn:E; [apply rgb_eqb_eq in E; contradiction|reflexivity].
Qed.

Lemma testbit31_small i : i < 2147483648 -> N.testbit i 31 = false.
Proof.
  intro H. destruct (N.eq_dec i 0) as [->|Hne]; [reflexivity|].
  apply N.bits_above_log2. apply N.log2_lt_pow2; [lia|exact H].
Qed.

Lemma u32_small x : x < 4294967296 -> u32 x = x.
Proof. intro H. unfold u32. apply N.mod_small. exact H. Qed.

Lemma plen_with_colors p l : plen (with_colors p l) = N.of_nat (length l).
Proof. reflexivity. Qed.

Definition lookup (l : list color) (i : N) : rgb := crgb (nth (N.to_nat i) l default_color).

(* the checked index of get_rgb is in range whenever it is evaluated *)
Lemma get_rgb_in_range p i :
  N.testbit i 31 = false -> (u32 (plen p) <=? i) = false -> (N.to_nat i < length (pcolors p))%nat.
Proof.
  intros _ H. apply N.leb_gt in H. unfold u32, plen in H.
  assert (N.of_nat (length (pcolors p)) mod 4294967296 <= N.of_nat (length (pcolors p))) by (apply N.mod_le; discriminate).
  lia.
Qed.

Lemma get_rgb_lookup p i :
  small p -> i < plen p -> N.testbit i 31 = false -> get_rgb p i = lookup (pcolors p) i.
Proof.
  intros Hs Hi Hb. unfold get_rgb. rewrite Hb, (u32_small _ Hs).
  destruct (N.leb_spec (plen p) i); [lia|reflexivity].
Qed.

(* get_rgb at a valid index only depends on the entry stored there *)
Lemma get_rgb_eq p q i :
  small p -> small q -> i < plen p -> i < plen q ->
  lookup (pcolors q) i = lookup (pcolors p) i -> get_rgb q i = get_rgb p i.
Proof.
  intros Hp Hq Hip Hiq Hl. unfold get_rgb.
  destruct (N.testbit i 31) eqn:Hb; [reflexivity|].
  rewrite (u32_small _ Hp), (u32_small _ Hq).
  destruct (N.leb_spec (plen p) i); [lia|]. destruct (N.leb_spec (plen q) i); [lia|]. exact Hl.
Qed.

(* ================================================================================================ *)
(* insert_color                                                                                       *)

Lemma find_rgb_none c l : forall k, find_rgb c l k = None <-> (forall x, In x l -> crgb x <> c).
Proof.
  induction l as [|x l IH]; intro k; cbn [find_rgb].
  - split; [intros _ y []|reflexivity].
  - destruct (rgb_eqb (crgb x) c) eqn:E.
    + split; [discriminate|]. intro H. apply rgb_eqb_eq in E. exfalso. apply (H x); [left; reflexivity|exact E].
    + rewrite IH. apply rgb_eqb_neq in E. split.
      * intros H y [<-|Hy]; [exact E|apply H, Hy].
      * intros H y Hy. apply H. right. exact Hy.
Qed.

Lemma find_rgb_some c l : forall k i, find_rgb c l k = Some i ->
  exists j, i = k + N.of_nat j /\ (j < length l)%nat /\ crgb (nth j l default_color) = c /\
            forall j', (j' < j)%nat -> crgb (nth j' l default_color) <> c.
Proof.
  induction l as [|x l IH]; intros k i; cbn [find_rgb]; [discriminate|].
  destruct (rgb_eqb (crgb x) c) eqn:E.
  - intro H. inversion H; subst. exists O. apply rgb_eqb_eq in E.
    repeat split; [lia|cbn; lia|exact E|intros j' Hj'; lia].
  - intro H. apply IH in H. destruct H as (j & -> & Hlt & Hc & Hmin). exists (S j).
    repeat split; [lia|cbn; lia|exact Hc|].
    intros [|j'] Hj'; [apply rgb_eqb_neq in E; exact E|apply Hmin; lia].
Qed.

Lemma insert_existing_proof p c : small p ->
  (exists x, In x (pcolors p) /\ crgb x = crgb c) ->
  exists j, (j < length (pcolors p))%nat /\ insert_color p c = (p, N.of_nat j) /\
            crgb (nth j (pcolors p) default_color) = crgb c /\
            forall k, (k < j)%nat -> crgb (nth k (pcolors p) default_color) <> crgb c.
Proof.
  intros Hs (x & Hin & Hx). unfold insert_color.
  destruct (find_rgb (crgb c) (pcolors p) 0) as [i|] eqn:E.
  - apply find_rgb_some in E. destruct E as (j & -> & Hlt & Hc & Hmin). exists j.
    repeat split; try assumption. rewrite N.add_0_l, u32_small; [reflexivity|]. unfold small, plen in Hs. lia.
  - exfalso. apply (proj1 (find_rgb_none _ _ _) E x Hin Hx).
Qed.

Lemma insert_fresh_proof p c : small p ->
  (forall x, In x (pcolors p) -> crgb x <> crgb c) ->
  insert_color p c = (with_colors p (pcolors p ++ [c]), plen p).
Proof.
  intros Hs H. unfold insert_color. rewrite (proj2 (find_rgb_none _ _ 0) H), (u32_small _ Hs). reflexivity.
Qed.

(* what insert does to the colour list, in one statement *)
Lemma insert_cases p c : small p ->
  (exists j, (j < length (pcolors p))%nat /\ insert_color p c = (p, N.of_nat j) /\
             crgb (nth j (pcolors p) default_color) = crgb c)
  \/ insert_color p c = (with_colors p (pcolors p ++ [c]), plen p).
Proof.
  intro Hs. destruct (find_rgb (crgb c) (pcolors p) 0) as [i|] eqn:E.
  - left. destruct (insert_existing_proof p c Hs) as (j & H1 & H2 & H3 & _).
    + apply find_rgb_some in E. destruct E as (j & _ & Hlt & Hc & _).
      exists (nth j (pcolors p) default_color). split; [apply nth_In, Hlt|exact Hc].
    + exists j. auto.
  - right. apply insert_fresh_proof; [exact Hs|]. apply (find_rgb_none _ _ 0). exact E.
Qed.

Lemma insert_resolves_proof p c : plen p < 2147483648 ->
  get_rgb (fst (insert_color p c)) (snd (insert_color p c)) = crgb c.
Proof.
  intro Hs. assert (Hsm : small p) by (unfold small; lia).
  destruct (insert_cases p c Hsm) as [(j & Hlt & -> & Hc)| ->]; cbn [fst snd].
  - rewrite get_rgb_lookup; [|exact Hsm|unfold plen; lia|apply testbit31_small; unfold plen in Hs; lia].
    unfold lookup. rewrite Nat2N.id. exact Hc.
  - rewrite get_rgb_lookup.
    + unfold lookup, plen. cbn [pcolors with_colors]. rewrite Nat2N.id, app_nth2, Nat.sub_diag by lia. reflexivity.
    + unfold small. rewrite plen_with_colors, app_length. unfold plen in Hs. cbn [length]. lia.
    + rewrite plen_with_colors, app_length. unfold plen. cbn [length]. lia.
    + apply testbit31_small. exact Hs.
Qed.

Lemma insert_index_valid p c : small p -> snd (insert_color p c) < plen (fst (insert_color p c)).
Proof.
  intro Hs. destruct (insert_cases p c Hs) as [(j & Hlt & -> & Hc)| ->]; cbn [fst snd].
  - unfold plen. lia.
  - rewrite plen_with_colors, app_length. unfold plen. cbn [length]. lia.
Qed.

Lemma insert_lookup p c i : small p -> i < plen p ->
  lookup (pcolors (fst (insert_color p c))) i = lookup (pcolors p) i /\ plen p <= plen (fst (insert_color p c)).
Proof.
  intros Hs Hi. destruct (insert_cases p c Hs) as [(j & Hlt & -> & Hc)| ->]; cbn [fst snd].
  - split; [reflexivity|lia].
  - split.
    + unfold lookup. cbn [pcolors with_colors]. rewrite app_nth1; [reflexivity|unfold plen in Hi; lia].
    + rewrite plen_with_colors, app_length. unfold plen. lia.
Qed.

Lemma insert_stable_proof p c i : small p -> small (fst (insert_color p c)) -> i < plen p ->
  get_rgb (fst (insert_color p c)) i = get_rgb p i.
Proof.
  intros Hs Hs' Hi. destruct (insert_lookup p c i Hs Hi) as [Hl Hle].
  apply get_rgb_eq; try assumption. lia.
Qed.

(* ================================================================================================ *)
(* set_color                                                                                          *)

Lemma set_nth_length {A} (l : list A) : forall k x, length (set_nth l k x) = length l.
Proof. induction l as [|h t IH]; intros [|k] x; cbn; auto. Qed.

Lemma nth_set_nth_eq {A} (l : list A) : forall k x d, (k < length l)%nat -> nth k (set_nth l k x) d = x.
Proof. induction l as [|h t IH]; intros [|k] x d H; cbn in *; try lia; auto. apply IH. lia. Qed.

Lemma nth_set_nth_neq {A} (l : list A) : forall k j x d, k <> j -> nth j (set_nth l k x) d = nth j l d.
Proof. induction l as [|h t IH]; intros [|k] [|j] x d H; cbn; try reflexivity; try congruence. apply IH. congruence. Qed.

Lemma vec_resize_length l n : length (vec_resize l n) = n.
Proof.
  unfold vec_resize. destruct (Nat.leb_spec n (length l)).
  - apply firstn_length_le. assumption.
  - rewrite app_length, repeat_length. lia.
Qed.

Lemma vec_resize_nth l n j : (j < n)%nat -> (j < length l)%nat -> nth j (vec_resize l n) default_color = nth j l default_color.
Proof.
  intros Hn Hl. unfold vec_resize. destruct (Nat.leb_spec n (length l)).
  - rewrite <- (firstn_skipn n l) at 2. rewrite app_nth1; [reflexivity|]. rewrite firstn_length_le; assumption.
  - rewrite app_nth1; [reflexivity|assumption].
Qed.

Definition set_list (l : list color) (i : N) (c : color) : list color :=
  set_nth (if N.of_nat (length l) <=? i then vec_resize l (N.to_nat i + 1) else l) (N.to_nat i) c.

Lemma set_color_colors p i c : pcolors (set_color p i c) = set_list (pcolors p) i c.
Proof. reflexivity. Qed.

Lemma set_list_length l i c : length (set_list l i c) = Nat.max (length l) (N.to_nat i + 1).
Proof.
  unfold set_list. rewrite set_nth_length. destruct (N.leb_spec (N.of_nat (length l)) i).
  - rewrite vec_resize_length. lia.
  - lia.
Qed.

Lemma set_list_same l i c : nth (N.to_nat i) (set_list l i c) default_color = c.
Proof.
  unfold set_list. apply nth_set_nth_eq. destruct (N.leb_spec (N.of_nat (length l)) i).
  - rewrite vec_resize_length. lia.
  - lia.
Qed.

Lemma set_list_other l i c j : j <> i -> j < N.of_nat (length l) ->
  nth (N.to_nat j) (set_list l i c) default_color = nth (N.to_nat j) l default_color.
Proof.
  intros Hne Hj. unfold set_list. rewrite nth_set_nth_neq by lia.
  destruct (N.leb_spec (N.of_nat (length l)) i); [|reflexivity].
  apply vec_resize_nth; lia.
Qed.

Lemma set_resolves_proof p i c : i < 2147483648 -> small (set_color p i c) -> get_rgb (set_color p i c) i = crgb c.
Proof.
  intros Hi Hs. rewrite get_rgb_lookup; [|exact Hs| |apply testbit31_small, Hi].
  - unfold lookup. rewrite set_color_colors, set_list_same. reflexivity.
  - unfold plen. rewrite set_color_colors, set_list_length. lia.
Qed.

Lemma set_lookup p i c j : j <> i -> j < plen p ->
  lookup (pcolors (set_color p i c)) j = lookup (pcolors p) j /\ plen p <= plen (set_color p i c).
Proof.
  intros Hne Hj. split.
  - unfold lookup. rewrite set_color_colors, set_list_other; [reflexivity|exact Hne|exact Hj].
  - unfold plen. rewrite set_color_colors, set_list_length. lia.
Qed.

Lemma set_stable_proof p i c j : small p -> small (set_color p i c) -> j < plen p -> j <> i ->
  get_rgb (set_color p i c) j = get_rgb p j.
Proof.
  intros Hs Hs' Hj Hne. destruct (set_lookup p i c j Hne Hj) as [Hl Hle].
  apply get_rgb_eq; try assumption. lia.
Qed.

(* ================================================================================================ *)
(* operation sequences                                                                                *)

Fixpoint states (p : palette) (ops : list op) : list palette :=
  p :: match ops with [] => [] | o :: t => states (step p o) t end.
Definition all_small (p : palette) (ops : list op) : Prop := Forall small (states p ops).

(* the operations that may change what index i resolves to *)
Definition keeps (i : N) (o : op) : Prop :=
  match o with
  | OSet j _ => j <> i
  | OResize n => i < n
  | OClear => False
  | _ => True
  end.

Lemma fill16_nth l j : (j < length l)%nat -> nth j (fill16_list l) default_color = nth j l default_color.
Proof. intro H. unfold fill16_list. apply app_nth1. exact H. Qed.

Lemma resize_lookup p n i : i < plen p -> i < n ->
  lookup (pcolors (resize p n)) i = lookup (pcolors p) i /\ i < plen (resize p n).
Proof.
  intros Hi Hn. unfold resize, lookup, plen in *. cbn [pcolors with_colors].
  set (l := pcolors p) in *. set (n' := N.to_nat n).
  assert (Hn' : (N.to_nat i < n')%nat) by (unfold n'; lia).
  assert (Hl : (N.to_nat i < length l)%nat) by lia.
  set (l1 := if N.of_nat (length l) <? n then vec_resize (fill16_list l) n' else l).
  assert (H1 : nth (N.to_nat i) l1 default_color = nth (N.to_nat i) l default_color /\ (N.to_nat i < length l1)%nat).
  { unfold l1. destruct (N.ltb_spec (N.of_nat (length l)) n).
    - rewrite vec_resize_length. split; [|exact Hn'].
      rewrite vec_resize_nth; [apply fill16_nth, Hl|exact Hn'|].
      unfold fill16_list. rewrite app_length. lia.
    - split; [reflexivity|exact Hl]. }
  destruct H1 as [H1 H1'].
  destruct (Nat.ltb_spec n' (length l1)).
  - rewrite vec_resize_length. split; [|lia]. rewrite vec_resize_nth; [rewrite H1; reflexivity|exact Hn'|exact H1'].
  - split; [rewrite H1; reflexivity|lia].
Qed.

Lemma step_keeps p o i : small p -> small (step p o) -> i < plen p -> keeps i o ->
  get_rgb (step p o) i = get_rgb p i /\ i < plen (step p o).
Proof.
  intros Hs Hs' Hi Hk.
  assert (G : forall q, small q -> i < plen q -> lookup (pcolors q) i = lookup (pcolors p) i ->
                        get_rgb q i = get_rgb p i /\ i < plen q).
  { intros q Hq Hiq Hl. split; [apply get_rgb_eq; assumption|exact Hiq]. }
  destruct o as [c|j c|j|c| |n|]; cbn [step keeps] in *.
  - destruct (insert_lookup p c i Hs Hi) as [Hl Hle]. apply G; [exact Hs'|lia|exact Hl].
  - destruct (set_lookup p j c i (not_eq_sym Hk) Hi) as [Hl Hle]. apply G; [exact Hs'|lia|exact Hl].
  - split; [reflexivity|exact Hi].
  - apply G; [exact Hs'| |].
    + unfold push_color. rewrite plen_with_colors, app_length. unfold plen in Hi. lia.
    + unfold lookup, push_color. cbn [pcolors with_colors]. rewrite app_nth1; [reflexivity|unfold plen in Hi; lia].
  - apply G; [exact Hs'| |].
    + unfold fill_to_16, fill16_list. rewrite plen_with_colors, app_length. unfold plen in Hi. lia.
    + unfold lookup, fill_to_16. cbn [pcolors with_colors]. rewrite fill16_nth; [reflexivity|unfold plen in Hi; lia].
  - destruct (resize_lookup p n i Hi Hk) as [Hl Hlt]. apply G; [exact Hs'|exact Hlt|exact Hl].
  - contradiction.
Qed.

Lemma ops_invariant_proof : forall ops p i,
  all_small p ops -> i < plen p -> Forall (keeps i) ops -> get_rgb (run p ops) i = get_rgb p i.
Proof.
  induction ops as [|o ops IH]; intros p i Hs Hi Hk; [reflexivity|].
  unfold all_small in Hs. cbn [states] in Hs. inversion Hs as [|? ? Hp Hrest]; subst.
  inversion Hk as [|? ? Hko Hkr]; subst.
  assert (Hs1 : small (step p o)).
  { destruct ops; cbn [states] in Hrest; inversion Hrest; assumption. }
  destruct (step_keeps p o i Hp Hs1 Hi Hko) as [He Hlt].
  unfold run. cbn [fold_left]. fold (run (step p o) ops).
  rewrite IH; [exact He|exact Hrest|exact Hlt|exact Hkr].
Qed.

Lemma run_app p a b : run p (a ++ b) = run (run p a) b.
Proof. unfold run. apply fold_left_app. Qed.

Lemma ops_insert_tracked_proof : forall pre c mid p,
  plen (run p pre) < 2147483648 ->
  all_small (fst (insert_color (run p pre) c)) mid ->
  Forall (keeps (snd (insert_color (run p pre) c))) mid ->
  get_rgb (run p (pre ++ OInsert c :: mid)) (snd (insert_color (run p pre) c)) = crgb c.
Proof.
  intros pre c mid p Hlen Hs Hk.
  rewrite run_app. unfold run at 1. cbn [fold_left step]. fold (run (fst (insert_color (run p pre) c)) mid).
  rewrite ops_invariant_proof; [apply insert_resolves_proof, Hlen|exact Hs| |exact Hk].
  apply insert_index_valid. unfold small. lia.
Qed.

(* ================================================================================================ *)
(* 6-bit VGA codec                                                                                    *)

Definition byte_rgb (c : rgb) : Prop := let '(r, g, b) := c in r < 256 /\ g < 256 /\ b < 256.
Definition bytes_pal (p : palette) : Prop := Forall (fun c => byte_rgb (crgb c)) (pcolors p).

Definition chan_ok (e : N -> N) (r : N -> N) (b : N) : bool :=
  (r (e (r b)) =? r b) && (e b <? 256) && (r b <? 64) && (if b <? 64 then r (e b) =? b else true).

(* complete sweep of the generated channel expressions over the 256 byte values *)
Lemma chan63_sweep :
  forallb (fun b => chan_ok from63_r to63_r b && chan_ok from63_g to63_g b && chan_ok from63_b to63_b b
                    && chan_ok ega_from_r ega_to_r b && chan_ok ega_from_g ega_to_g b && chan_ok ega_from_b ega_to_b b)
          (nrange 256) = true.
Proof. vm_compute. reflexivity. Qed.

Lemma chan_facts b : b < 256 ->
  chan_ok from63_r to63_r b = true /\ chan_ok from63_g to63_g b = true /\ chan_ok from63_b to63_b b = true /\
  chan_ok ega_from_r ega_to_r b = true /\ chan_ok ega_from_g ega_to_g b = true /\ chan_ok ega_from_b ega_to_b b = true.
Proof.
  intro H. pose proof (nrange_forallb _ 256 chan63_sweep b H) as S. cbv beta in S.
  rewrite !andb_true_iff in S. tauto.
Qed.

Lemma chan_ok_spec e r b : chan_ok e r b = true ->
  r (e (r b)) = r b /\ e b < 256 /\ r b < 64 /\ (b < 64 -> r (e b) = b).
Proof.
  unfold chan_ok. rewrite !andb_true_iff, N.eqb_eq, !N.ltb_lt. intros [[[H1 H2] H3] H4].
  repeat split; try assumption. intro Hb. apply N.ltb_lt in Hb. rewrite Hb in H4. apply N.eqb_eq. exact H4.
Qed.

Lemma vga63_idempotent_proof b : b < 256 ->
  to63_r (from63_r (to63_r b)) = to63_r b /\ to63_g (from63_g (to63_g b)) = to63_g b /\ to63_b (from63_b (to63_b b)) = to63_b b.
Proof.
  intro H. destruct (chan_facts b H) as (Hr & Hg & Hb & _).
  apply chan_ok_spec in Hr, Hg, Hb. tauto.
Qed.

Lemma vga63_identity_proof c : c < 64 ->
  to63_r (from63_r c) = c /\ to63_g (from63_g c) = c /\ to63_b (from63_b c) = c.
Proof.
  intro H. assert (H' : c < 256) by lia. destruct (chan_facts c H') as (Hr & Hg & Hb & _).
  apply chan_ok_spec in Hr, Hg, Hb. intuition.
Qed.

Lemma ega_channel_idempotent_proof b : b < 256 ->
  ega_to_r (ega_from_r (ega_to_r b)) = ega_to_r b /\ ega_to_g (ega_from_g (ega_to_g b)) = ega_to_g b /\
  ega_to_b (ega_from_b (ega_to_b b)) = ega_to_b b.
Proof.
  intro H. destruct (chan_facts b H) as (_ & _ & _ & Hr & Hg & Hb).
  apply chan_ok_spec in Hr, Hg, Hb. tauto.
Qed.

(* whole palettes *)
Lemma triples_flat_map (f : rgb -> list N) (l : list rgb) :
  (forall c, exists x y z, f c = [x; y; z]) ->
  triples (flat_map f l) = Some (map (fun c => match f c with [x; y; z] => (x, y, z) | _ => black end) l).
Proof.
  intro Hf. induction l as [|c l IH]; [reflexivity|].
  cbn [flat_map map]. destruct (Hf c) as (x & y & z & E). rewrite E. cbn [app triples]. rewrite IH. reflexivity.
Qed.

Lemma reduce63_shape c : exists x y z, reduce63 c = [x; y; z].
Proof. destruct c as [[r g] b]. cbn. eauto. Qed.

Lemma reduce63_expand63_reduce63 c : byte_rgb c ->
  reduce63 (expand63 (match reduce63 c with [x; y; z] => (x, y, z) | _ => black end)) = reduce63 c.
Proof.
  destruct c as [[r g] b]. intros (Hr & Hg & Hb). cbn [reduce63 expand63].
  destruct (vga63_idempotent_proof r Hr) as (E1 & _ & _).
  destruct (vga63_idempotent_proof g Hg) as (_ & E2 & _).
  destruct (vga63_idempotent_proof b Hb) as (_ & _ & E3).
  rewrite E1, E2, E3. reflexivity.
Qed.

Lemma vga63_palette_idempotent_proof p : bytes_pal p ->
  exists q, from_63 (as_vec_63 p) = Some q /\ as_vec_63 q = as_vec_63 p.
Proof.
  intro Hb. unfold from_63, as_vec_63.
  replace (flat_map (fun c => reduce63 (crgb c)) (pcolors p)) with (flat_map reduce63 (map crgb (pcolors p)))
    by (rewrite flat_map_concat_map, map_map, <- flat_map_concat_map; reflexivity).
  rewrite (triples_flat_map reduce63 _ reduce63_shape).
  eexists. split; [reflexivity|]. cbn [pcolors of_colors].
  unfold bytes_pal in Hb. induction (pcolors p) as [|c l IH]; [reflexivity|].
  inversion Hb; subst. cbn [map flat_map crgb unnamed].
  rewrite reduce63_expand63_reduce63 by assumption. f_equal. apply IH. assumption.
Qed.

Lemma vga63_palette_identity_proof : forall bs l, triples bs = Some l -> Forall (fun b => b < 64) bs ->
  exists q, from_63 bs = Some q /\ as_vec_63 q = bs.
Proof.
  intros bs l Ht Hb. unfold from_63. rewrite Ht. eexists. split; [reflexivity|].
  unfold as_vec_63. cbn [pcolors of_colors].
  revert bs Ht Hb. induction l as [|[[r g] b] l IH]; intros bs Ht Hb.
  - destruct bs as [|x [|y [|z bs]]]; cbn [triples] in Ht; try discriminate; [reflexivity|].
    destruct (triples bs); discriminate.
  - destruct bs as [|x [|y [|z bs]]]; cbn [triples] in Ht; try discriminate.
    destruct (triples bs) as [l'|] eqn:E; [|discriminate]. inversion Ht; subst.
    inversion Hb as [|? ? Hx Hb1]; subst. inversion Hb1 as [|? ? Hy Hb2]; subst. inversion Hb2 as [|? ? Hz Hb3]; subst.
    cbn [map flat_map crgb unnamed expand63 reduce63 app].
    destruct (vga63_identity_proof r Hx) as (E1 & _ & _).
    destruct (vga63_identity_proof g Hy) as (_ & E2 & _).
    destruct (vga63_identity_proof b Hz) as (_ & _ & E3).
    rewrite E1, E2, E3. do 3 f_equal. apply (IH bs); [exact E|assumption].
Qed.
