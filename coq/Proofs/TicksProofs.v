(* C03 (extension b): the WEIGHTED iteration total (ticks) of every CSI control function is bounded by the square of the screen measure;
   rectangular-area operations (DECFRA, DECERA, DECSERA, DECRQCRA) visit a rectangle that is clipped to the screen. *)
From Coq Require Import ZArith NArith List Bool Lia.
From IE Require Import Model.TermCore Model.AnsiTok Model.Cost Model.Alloc Proofs.TermProofs Proofs.CostProofs Proofs.AllocProofs.
Import ListNotations.
Local Open Scope Z_scope.

Lemma iter_ticks_const n f c t : ticks (snd (iter_cost n f (fun _ => c) t)) = Z.max 0 n * c.
Proof. apply (iter_cost_ticks n f (fun _ => c) t). reflexivity. Qed.
(* a weight that depends only on fields the primitive leaves alone *)
Lemma iter_res_ticks_inv_le (I : term -> Prop) g n f w t :
  (forall x x', I x -> f x = ROk x' -> I x') -> (forall x, I x -> 0 <= w x <= g) -> I t -> 0 <= g ->
  ticks (snd (iter_cost_res n f w t)) <= Z.max 0 n * g.
Proof.
  intros Hs Hw Ht Hg. pose proof (iter_res_ticks_pot I (fun _ => 0) g n f w t) as H.
  assert (ticks (snd (iter_cost_res n f w t)) <= Z.max 0 n * g + 0); [|lia]. apply H; auto; try lia.
  - intros x x' Ix E. split; [eapply Hs; eauto|]. specialize (Hw x Ix). lia.
  - intros x s Ix _. specialize (Hw x Ix). lia.
Qed.
Lemma iter_ticks_inv_le (I : term -> Prop) g n f w t :
  (forall x, I x -> I (f x)) -> (forall x, I x -> 0 <= w x <= g) -> I t -> 0 <= g ->
  ticks (snd (iter_cost n f w t)) <= Z.max 0 n * g.
Proof.
  intros Hs Hw Ht Hg. pose proof (iter_ticks_pot I (fun _ => 0) g n f w t) as H.
  assert (ticks (snd (iter_cost n f w t)) <= Z.max 0 n * g + 0); [|lia]. apply H; auto; try lia.
  intros x Ix. split; [apply Hs; exact Ix|]. specialize (Hw x Ix). lia.
Qed.

Lemma iter_res_ticks_const_le n f c t : 0 <= c -> 0 <= ticks (snd (iter_cost_res n f (fun _ => c) t)) <= Z.max 0 n * c.
Proof.
  intro Hc. split; [apply iter_res_ticks_nonneg; intro; exact Hc|].
  apply (iter_res_ticks_inv_le (fun _ => True) c n f (fun _ => c) t); auto. intros; lia.
Qed.

Lemma next_tab_t_range t x : 1 <= snd (next_tab_t t x) <= 1 + zlen (tabs t).
Proof. unfold next_tab_t. cbn [snd]. apply drop_le_t_snd. Qed.
Lemma prev_tab_t_range t x : 1 <= snd (prev_tab_t t x) <= 1 + zlen (tabs t).
Proof. unfold prev_tab_t. cbn [snd]. pose proof (drop_ge_t_snd (rev (tabs t)) x 1). rewrite zlen_rev in H. exact H. Qed.

Lemma scroll_t_nonneg t : 0 <= snd (scroll_up_t t) /\ 0 <= snd (scroll_down_t t) /\ 0 <= snd (scroll_left_t t) /\ 0 <= snd (scroll_right_t t).
Proof.
  rewrite scroll_up_t_snd, scroll_down_t_snd, scroll_left_t_snd, scroll_right_t_snd.
  pose proof (zlen_nonneg (zrange (first_edit t) (last_edit t))). pose proof (zlen_nonneg (zrange_incl (first_edit t + 1) (last_edit t))).
  pose proof (zlen_nonneg (zrange_incl (first_col t) (last_col t))). pose proof (zlen_nonneg (zrange_incl (first_edit t) (last_edit t))). repeat split; nia.
Qed.

(* ---- the clip of get_rect_area ------------------------------------------------------------------------------------------------------------------------ *)
Lemma rect_ticks_bound_l t a b c d : Inv09 t -> 0 <= rect_ticks t a b c d <= scrW t * scrH t.
Proof.
  intro H. destruct (inv_facts t H) as (I1 & I2 & I3 & I4 & _). destruct (scrW_ge t H) as (W1 & _). destruct (scrH_ge t H) as (G1 & G2 & G3).
  unfold rect_ticks, rect_area. cbv beta iota zeta. rewrite !zlen_zrange_incl. pose proof (zlen_nonneg (lines t)).
  match goal with |- 0 <= ?A * ?B <= _ => assert (HA : 0 <= A <= scrH t) by lia; assert (HB : 0 <= B <= scrW t) by lia; generalize dependent A; generalize dependent B end.
  intros B HB A HA. nia.
Qed.
Lemma rqcra_ticks_bound_l t p : Inv09 t -> 0 <= rqcra_ticks t p <= scrW t * scrH t.
Proof.
  intro H. destruct (inv_facts t H) as (I1 & I2 & I3 & I4 & _). destruct (scrW_ge t H) as (W1 & _). destruct (scrH_ge t H) as (G1 & G2 & G3).
  unfold rqcra_ticks. destruct (nums p) as [|a [|b [|pt [|pl [|pb [|pr [|x r]]]]]]]; try nia.
  destruct ((pt >? pb) || (pl >? pr) || (pr >? tw t) || (pb >? th t) || (pl <? 0) || (pt <? 0)) eqn:E; [nia|].
  repeat (apply orb_false_iff in E; destruct E as [E ?]). nia.
Qed.
Lemma dollar_ticks_bound_l t p ch : Inv09 t -> 0 <= dollar_ticks t p ch <= scrW t * scrH t.
Proof.
  intro H. destruct (scrW_ge t H) as (_ & _ & _ & _ & W5). destruct (scrH_ge t H) as (_ & _ & G3). unfold dollar_ticks.
  destruct (ch =? 120). { destruct (nums p) as [|c [|a [|b [|cc [|d [|e r]]]]]]; try nia. destruct (is_scalar c); [apply rect_ticks_bound_l; exact H|nia]. }
  destruct (_ || _); [|nia]. destruct (nums p) as [|a [|b [|c [|d [|e r]]]]]; try nia. apply rect_ticks_bound_l; exact H.
Qed.
(* the $ group and DECRQCRA of the cost dispatcher ARE the arms of the character-level model *)
Lemma dollar_arms_only_l inv t p ch : st p = SEndCsi 36 -> fst (csi_dollar_c t p ch) = astep_gen inv (mkA t p) ch.
Proof. intro Hs. unfold csi_dollar_c, dollar_outcome, astep_gen. cbn [tm ps fst]. rewrite Hs. cbn [Z.eqb Pos.eqb]. reflexivity. Qed.
Lemma rqcra_arm_only_l inv t p : st p = SEndCsi 42 -> fst (rqcra_c t p) = astep_gen inv (mkA t p) 121.
Proof. intro Hs. unfold rqcra_c, rqcra_outcome, astep_gen. cbn [tm ps fst]. rewrite Hs. cbn [Z.eqb Pos.eqb]. reflexivity. Qed.

(* ---- every CSI final byte without intermediate -------------------------------------------------------------------------------------------------------- *)
Lemma plain_ticks_bound t p ch n : Inv09 t -> 0 <= n -> nlen (nums p) <= n -> 0 <= plain_ticks t p ch <= 8 * (n + 1) * scr t.
Proof.
  intros H Hn Hl. destruct (cap_facts t H) as (F1 & F2 & F3 & F4 & F5 & F6 & F7 & F8 & F9 & F10 & F11 & F12 & F13).
  destruct (inv_facts t H) as (I1 & I2 & I3 & I4 & I5 & I6 & I7 & _). destruct (scrW_ge t H) as (W1 & _). destruct (scrH_ge t H) as (G1 & _ & G3).
  unfold plain_ticks. cbv zeta. pose proof (zlen_nonneg (nums p)) as HL0. unfold nlen in *. unfold zlen in HL0.
  destruct (ch =? 109); [nia|].
  assert (B1 : 0 <= snd (fill_cells_t t (zrange (cy t) (last_visible t)) (zrange 0 (bw t)) (32, cbg t)) <= 2 * scr t).
  { rewrite fill_cells_t_snd, !zlen_zrange. unfold last_visible. nia. }
  assert (B2 : 0 <= snd (fill_cells_t t (zrange (first t) (cy t)) (zrange 0 (bw t)) (32, cbg t)) <= 2 * scr t).
  { rewrite fill_cells_t_snd, !zlen_zrange. nia. }
  destruct (ch =? 74). { destruct (nums p) as [|a r]; [nia|]. destruct (a =? 1); [nia|]. destruct (_ || _); nia. }
  assert (B3 : forall xs, zlen xs <= scrW t -> 0 <= snd (fill_cells_t t [cy t] xs (32, cbg t)) <= scr t).
  { intros xs Hxs. rewrite fill_cells_t_snd. change (zlen [cy t]) with 1. pose proof (zlen_nonneg xs). nia. }
  assert (X1 : zlen (zrange (cx t) (bw t)) <= scrW t) by (rewrite zlen_zrange; lia).
  assert (X2 : zlen (zrange 0 (cx t)) <= scrW t) by (rewrite zlen_zrange; lia).
  assert (X3 : zlen (zrange 0 (bw t)) <= scrW t) by (rewrite zlen_zrange; lia).
  destruct (ch =? 75).
  { destruct (nums p) as [|a r]; [specialize (B3 _ X1); nia|]. destruct (a =? 0); [specialize (B3 _ X1); nia|]. destruct (a =? 1); [specialize (B3 _ X2); nia|].
    destruct (a =? 2); [specialize (B3 _ X3); nia|nia]. }
  destruct (ch =? 88); [nia|].
  destruct (ch =? 116); [|nia].
  destruct (nums p) as [|k [|h [|w [|b r]]]]; try nia. destruct (k =? 8); [|nia].
  pose proof (window_ticks_bound_l w) as HW. unfold window_ticks in HW. pose proof (zlen_nonneg (reset_tabs (Z.max (Z.min w 132) 1))). cbn [length] in Hl. nia.
Qed.

(* ---- REP: print_char leaves the terminal size and the buffer width alone; the weight of one print_char depends on those and the margins only ---- *)
Definition dims (t : term) := (tw t, th t, bw t).
Lemma limit_caret_dims t t' : limit_caret_pos t = ROk t' -> dims t' = dims t.
Proof.
  unfold limit_caret_pos. destruct (origin_m t); [intro H; inversion H; reflexivity|].
  destruct (_ <? _); [discriminate|]. intro H; inversion H; reflexivity.
Qed.
Lemma caret_lf_dims t t' : caret_lf t = ROk t' -> dims t' = dims t.
Proof.
  unfold caret_lf. cbv zeta.
  set (t2 := if _ >=? _ then _ else _). assert (B2 : dims t2 = dims t) by (subst t2; destruct (_ >=? _); reflexivity).
  set (t3 := if _ >? bh t2 then _ else _). assert (B3 : dims t3 = dims t) by (subst t3; destruct (_ >? bh t2); [cbn; exact B2|exact B2]).
  destruct (cy t >? last_edit t).
  - intro H. rewrite (limit_caret_dims _ _ H). exact B3.
  - intro H. inversion H. unfold check_scrolling_down. destruct (_ && _); [|exact B3]. cbv zeta. change (dims (set_cy (scroll_up t3) _)) with (dims t3). exact B3.
Qed.
Lemma print_char_dims t c t' : print_char t c = ROk t' -> dims t' = dims t.
Proof.
  rewrite print_char_unfold. destruct (print_ins t) as [t1|s] eqn:E1; cbn [bind]; [|discriminate]. cbv zeta.
  assert (B1 : dims t1 = dims t).
  { revert E1. unfold print_ins. destruct (ins t); [|intro H; inversion H; reflexivity]. destruct (cy t <? 0); [discriminate|]. cbv zeta.
    destruct (nth_error _ _); [|intro H; inversion H; reflexivity]. destruct (line_insert_char _ _ _); cbn [bind]; [|discriminate]. intro H; inversion H; reflexivity. }
  set (t2 := if cy t1 + 1 >? lh t1 then set_lh t1 (cy t1 + 1) else t1).
  assert (B2 : dims t2 = dims t) by (subst t2; destruct (cy t1 + 1 >? lh t1); exact B1).
  set (t3 := if cy t2 + 1 >? bh t2 then set_bh t2 (cy t2 + 1) else t2).
  assert (B3 : dims t3 = dims t) by (subst t3; destruct (cy t2 + 1 >? bh t2); exact B2).
  set (t4 := layer_set t3 (cx t3) (cy t3) c). set (t5 := set_cx t4 (cx t4 + 1)).
  assert (B5 : dims t5 = dims t) by exact B3.
  destruct (cx t5 >=? tw t5).
  - destruct (awrap t5).
    + intro H. rewrite (caret_lf_dims _ _ H). exact B5.
    + intro H. inversion H. exact B5.
  - intro H. inversion H. exact B5.
Qed.
Lemma print_weight_le x : Inv09 x -> 0 <= print_weight x <= 1 + th x * (tw x + bw x).
Proof.
  intro H. destruct H as [HG HC]. pose proof HG as (Htw & Hth & Hbh & Hbw & Ho & Hm & Hl & Ht).
  unfold print_weight. unfold needs_scrolling. destruct (mtb x) as [[a b]|] eqn:EM; [|lia].
  rewrite scroll_up_t_snd. rewrite zlen_zrange, zlen_zrange_incl. unfold first_edit, last_edit, first_col, last_col. rewrite EM.
  unfold margins_ok in Hm, Hl. unfold sat_sub, sat, I32_MIN, I32_MAX. destruct (mlr x) as [[u v]|]; nia.
Qed.
Lemma rep_ticks_le t c n : Inv09 t -> 0 <= ticks (snd (rep_c t c n)) <= scr t * scr t.
Proof.
  intro H. destruct (rep_limit_le t H) as (R1 & R2). destruct (scrW_ge t H) as (W1 & _). destruct (scrH_ge t H) as (G1 & _).
  destruct (inv_facts t H) as (I1 & I2 & I3 & I4 & _).
  assert (Hg : 1 + th t * (tw t + bw t) <= scr t) by (unfold scr; nia).
  unfold rep_c. split.
  - apply iter_res_ticks_nonneg. intro x. unfold print_weight. destruct (needs_scrolling x); [|lia]. destruct (scroll_t_nonneg x) as (Q & _). lia.
  - pose proof (iter_res_ticks_inv_le (fun x => Inv09 x /\ dims x = dims t) (1 + th t * (tw t + bw t)) (Z.min n (rep_limit t))
                  (fun x => print_char x c) print_weight t) as HP.
    assert (ticks (snd (iter_cost_res (Z.min n (rep_limit t)) (fun x => print_char x c) print_weight t)) <= Z.max 0 (Z.min n (rep_limit t)) * (1 + th t * (tw t + bw t))); [|nia].
    apply HP; [| |split; [exact H|reflexivity]|nia].
    + intros x x' (Ix & Dx) E. split; [exact (print_char_09 _ _ _ Ix E)|]. rewrite (print_char_dims _ _ _ E). exact Dx.
    + intros x (Ix & Dx). pose proof (print_weight_le x Ix) as HW. unfold dims in Dx. inversion Dx as [[D1 D2 D3]]. rewrite ?D1, ?D2, ?D3 in *. exact HW.
Qed.

Lemma ticks_bound_l t p s ch n : Inv09 t -> 0 <= n -> nlen (nums p) <= n ->
  0 <= ticks (snd (csi_final_c t p s ch)) <= 8 * (n + 1) * (scr t * scr t).
Proof.
  intros H Hn Hl. destruct (cap_facts t H) as (F1 & F2 & F3 & F4 & F5 & F6 & F7 & F8 & F9 & F10 & F11 & F12 & F13).
  destruct (scrW_ge t H) as (_ & _ & W3 & _ & W5). destruct (scrH_ge t H) as (_ & _ & G3).
  pose proof (eff_scrolls_le t H) as HE. pose proof (ich_limit_le t H) as HIC. pose proof (dch_limit_le t H) as HDC.
  pose proof (il_limit_le t H) as HIL. pose proof (dl_limit_le t H) as HDL. pose proof (tab_limit_le t H) as HT.
  destruct (ticks_bound_scroll_l t (first_or (nums p) 1) H) as (TS1 & TS2 & _).
  assert (HQ : scr t * scr t <= 8 * (n + 1) * (scr t * scr t)) by nia.
  assert (HL : 8 * (n + 1) * scr t <= 8 * (n + 1) * (scr t * scr t)) by nia.
  assert (H1 : 0 <= 1 <= 8 * (n + 1) * (scr t * scr t)) by nia.
  unfold csi_final_c. cbv zeta.
  destruct (ch =? 83). { cbn [snd]. split; [apply iter_ticks_nonneg; intro x; apply scroll_t_nonneg|lia]. }
  destruct (ch =? 84). { cbn [snd]. split; [apply iter_ticks_nonneg; intro x; apply scroll_t_nonneg|lia]. }
  destruct (ch =? 64). { destruct (nums p) as [|a r]; [exact H1|]. cbn [snd]. unfold ich_c. rewrite iter_ticks_const. nia. }
  destruct (ch =? 80). { destruct (nums p) as [|a [|b r]]; [exact H1| |exact H1]. cbn [snd]. unfold dch_c. rewrite iter_ticks_const. nia. }
  destruct (ch =? 76).
  { destruct (nums p) as [|a [|b r]]; [exact H1| |exact H1]. cbn [snd]. unfold il_c.
    pose proof (iter_res_ticks_const_le (Z.min a (il_limit t)) (fun x => insert_terminal_line x (cy x)) 1 t ltac:(lia)). nia. }
  destruct (ch =? 77).
  { destruct (_ || _); [exact H1|]. destruct (nums p) as [|a [|b r]]; [exact H1| |exact H1]. cbn [snd]. unfold dl_c.
    pose proof (iter_res_ticks_const_le (Z.min a (zlen (lines t) - cy t)) (fun x => remove_terminal_line x (cy x)) 1 t ltac:(lia)). nia. }
  destruct (ch =? 89).
  { destruct (1 <? nlen (nums p)); [exact H1|]. cbn [snd]. unfold cvt_c. split; [apply iter_ticks_nonneg; intro x; pose proof (next_tab_t_range x (cx x)); lia|].
    pose proof (iter_ticks_inv_le (fun x => tabs x = tabs t) (1 + zlen (tabs t)) (Z.min (first_or (nums p) 1) (tab_limit t))
                  (fun x => set_cx x (next_tab_stop x (cx x))) (fun x => snd (next_tab_t x (cx x))) t) as HP.
    assert (ticks (snd (iter_cost (Z.min (first_or (nums p) 1) (tab_limit t)) (fun x => set_cx x (next_tab_stop x (cx x))) (fun x => snd (next_tab_t x (cx x))) t))
            <= Z.max 0 (Z.min (first_or (nums p) 1) (tab_limit t)) * (1 + zlen (tabs t))); [|nia].
    apply HP; auto; [|pose proof (zlen_nonneg (tabs t)); lia]. intros x Ix. pose proof (next_tab_t_range x (cx x)). rewrite Ix in *. lia. }
  destruct (ch =? 90).
  { destruct (1 <? nlen (nums p)); [exact H1|]. cbn [snd]. unfold cbt_c. split; [apply iter_ticks_nonneg; intro x; pose proof (prev_tab_t_range x (cx x)); lia|].
    pose proof (iter_ticks_inv_le (fun x => tabs x = tabs t) (1 + zlen (tabs t)) (Z.min (first_or (nums p) 1) (tab_limit t))
                  (fun x => set_cx x (prev_tab_stop x (cx x))) (fun x => snd (prev_tab_t x (cx x))) t) as HP.
    assert (ticks (snd (iter_cost (Z.min (first_or (nums p) 1) (tab_limit t)) (fun x => set_cx x (prev_tab_stop x (cx x))) (fun x => snd (prev_tab_t x (cx x))) t))
            <= Z.max 0 (Z.min (first_or (nums p) 1) (tab_limit t)) * (1 + zlen (tabs t))); [|nia].
    apply HP; auto; [|pose proof (zlen_nonneg (tabs t)); lia]. intros x Ix. pose proof (prev_tab_t_range x (cx x)). rewrite Ix in *. lia. }
  destruct (_ || _).
  { cbn [snd]. unfold caret_up_c. cbn [snd cadd ticks]. unfold check_scrolling_up_c. set (t1 := set_cy t (sat_sub (cy t) (first_or (nums p) 1))).
    destruct (_ || _); [|cbn [snd ticks cost0]; nia]. destruct (_ <? _); [|cbn [snd ticks cost0]; nia]. cbn [snd].
    rewrite iter_cost_ticks by (intro x; rewrite !scroll_down_t_snd; reflexivity).
    change (eff_scrolls t1) with (eff_scrolls t). destruct (prim_ticks_bound_l t H) as (_ & P2 & _). destruct (scroll_t_nonneg t) as (_ & Q2 & _).
    assert (E : snd (scroll_down_t t1) = snd (scroll_down_t t)) by (rewrite !scroll_down_t_snd; reflexivity). rewrite E. nia. }
  destruct (ch =? 98) eqn:E98. { cbn [snd]. pose proof (rep_ticks_le t (print_cell t (last_char p)) (first_or (nums p) 1) H). lia. }
  unfold one. cbn [snd ticks]. pose proof (plain_ticks_bound t p ch n H Hn Hl). lia.
Qed.

(* CSI .. SP <final>: SL and SR *)
Lemma ticks_bound_sp_l t p ch : Inv09 t -> 0 <= ticks (snd (csi_sp_c t p ch)) <= scr t * scr t.
Proof.
  intro H. destruct (cap_facts t H) as (_ & _ & _ & _ & _ & _ & _ & _ & _ & F10 & F11 & F12 & F13). pose proof (eff_cols_le t H) as HC.
  destruct (region_rows_le t H) as (_ & _ & R3). destruct (scrH_ge t H) as (_ & _ & G3). unfold csi_sp_c. cbv zeta.
  destruct (ch =? 65).
  { cbn [snd]. unfold sr_c. split; [apply iter_res_ticks_nonneg; intro x; apply scroll_t_nonneg|].
    pose proof (iter_res_ticks_inv_le (fun x => exists ls, x = set_lines t ls) (scrH t) (Z.min (first_or (nums p) 1) (eff_cols t)) scroll_right (fun x => snd (scroll_right_t x)) t) as HP.
    assert (ticks (snd (iter_cost_res (Z.min (first_or (nums p) 1) (eff_cols t)) scroll_right (fun x => snd (scroll_right_t x)) t)) <= Z.max 0 (Z.min (first_or (nums p) 1) (eff_cols t)) * scrH t); [|nia].
    apply HP; [| | |lia].
    - intros x x' (ls & ->) E. destruct (scroll_right_a_spec (set_lines t ls)) as (S1 & _). destruct (S1 _ E) as (S1a & _). exists (lines x'). rewrite S1a. reflexivity.
    - intros x (ls & ->). rewrite scroll_right_t_snd. change (first_edit (set_lines t ls)) with (first_edit t). change (last_edit (set_lines t ls)) with (last_edit t).
      pose proof (zlen_nonneg (zrange_incl (first_edit t) (last_edit t))). lia.
    - exists (lines t). apply set_lines_eta. }
  destruct (ch =? 64). { cbn [snd]. split; [apply iter_ticks_nonneg; intro x; apply scroll_t_nonneg|]. apply (ticks_bound_scroll_l t (first_or (nums p) 1) H). }
  destruct (ch =? 68); [cbn [snd ticks]; nia|]. destruct (ch =? 100); cbn [snd ticks]; nia.
Qed.
Lemma ticks_bound_dollar_l t p ch : Inv09 t -> 0 <= ticks (snd (csi_dollar_c t p ch)) <= scr t.
Proof. intro H. destruct (cap_facts t H) as (_ & _ & _ & _ & _ & _ & _ & _ & _ & _ & _ & _ & F13). pose proof (dollar_ticks_bound_l t p ch H). unfold csi_dollar_c. cbn [snd ticks]. lia. Qed.
Lemma ticks_bound_rqcra_l t p : Inv09 t -> 0 <= ticks (snd (rqcra_c t p)) <= scr t.
Proof. intro H. destruct (cap_facts t H) as (_ & _ & _ & _ & _ & _ & _ & _ & _ & _ & _ & _ & F13). pose proof (rqcra_ticks_bound_l t p H). unfold rqcra_c. cbn [snd ticks]. lia. Qed.
